(* C01, stage 1: on the token list of a document tree the streaming decoder
   [xml_decode] returns the "fold semantics" [sem] of the tree (the same two-map
   state machine, but run over the child nodes instead of over tokens).
   Stage 2 (Proofs/C01Q.v) relates [sem] to the declarative [conv]. *)
From Mxj Require Import Proofs.StrLemmas Spec.Dom01.

(* ---- nested induction principle for elem ---- *)
Section elem_ind2.
  Variable P : elem -> Prop.
  Definition Pnode (nd : node) : Prop := match nd with NElem e => P e | _ => True end.
  Hypothesis H : forall n a kids, Forall Pnode kids -> P (Elem n a kids).
  Fixpoint elem_ind2 (e : elem) : P e :=
    match e with
    | Elem n a kids =>
        H n a kids
          ((fix go (kids : list node) : Forall Pnode kids :=
              match kids with
              | [] => Forall_nil _
              | nd :: t =>
                  Forall_cons nd
                    (match nd return Pnode nd with NElem e => elem_ind2 e | _ => I end)
                    (go t)
              end) kids)
    end.
End elem_ind2.

Lemma toks_of_elem_unfold n a kids :
  toks_of_elem (Elem n a kids) = TStart n a :: flat_map toks_of_node kids ++ [TEnd n].
Proof. reflexivity. Qed.
Lemma toks_of_node_elem e : toks_of_node (NElem e) = toks_of_elem e.
Proof. reflexivity. Qed.

Section Stage1.
Variable pf : str -> option flt.
Variable skip : str -> bool.
Variable o : opts.
Variable r : bool.

(* ---- the fold semantics ---- *)
Definition kids_loop (f : elem -> value) (key : str) :=
  fix go (kids : list node) (n : option value) (na : entries) (seq : Z) {struct kids}
    : option value * entries :=
    match kids with
    | [] => (n, na)
    | NElem c :: t =>
        let '(val', seq') := tag_seq o (f c) seq in
        go t n (add_child (ekey o c) val' na) seq'
    | NText x :: t =>
        let '(n', na') := on_chardata pf skip o r key x n na in go t n' na' seq
    | NOther _ :: t => go t n na seq
    end.

Fixpoint sem (e : elem) : value :=
  match e with
  | Elem nm attrs kids =>
      let fin :=
        (fix go (kids : list node) (n : option value) (na : entries) (seq : Z) {struct kids}
           : option value * entries :=
           match kids with
           | [] => (n, na)
           | NElem c :: t =>
               let '(val', seq') := tag_seq o (sem c) seq in
               go t n (add_child (ekey o c) val' na) seq'
           | NText x :: t =>
               let '(n', na') := on_chardata pf skip o r (xform_key o (xlocal nm)) x n na in go t n' na' seq
           | NOther _ :: t => go t n na seq
           end) kids None (attr_entries pf skip o r attrs) 0%Z in
      finish_elem o (fst fin) (snd fin)
  end.

Lemma sem_unfold nm attrs kids :
  sem (Elem nm attrs kids) =
  let fin := kids_loop sem (xform_key o (xlocal nm)) kids None (attr_entries pf skip o r attrs) 0%Z in
  finish_elem o (fst fin) (snd fin).
Proof. reflexivity. Qed.

Lemma kids_loop_nil f key n na seq : kids_loop f key [] n na seq = (n, na).
Proof. reflexivity. Qed.
Lemma kids_loop_elem f key c t n na seq :
  kids_loop f key (NElem c :: t) n na seq =
  kids_loop f key t n (add_child (ekey o c) (fst (tag_seq o (f c) seq)) na) (snd (tag_seq o (f c) seq)).
Proof. cbn [kids_loop]. destruct (tag_seq o (f c) seq); reflexivity. Qed.
Lemma kids_loop_text f key x t n na seq :
  kids_loop f key (NText x :: t) n na seq =
  kids_loop f key t (fst (on_chardata pf skip o r key x n na)) (snd (on_chardata pf skip o r key x n na)) seq.
Proof. cbn [kids_loop]. destruct (on_chardata pf skip o r key x n na); reflexivity. Qed.
Lemma kids_loop_other f key tk t n na seq :
  kids_loop f key (NOther tk :: t) n na seq = kids_loop f key t n na seq.
Proof. reflexivity. Qed.

(* ---- dom_elem, unfolded ---- *)
Definition dom_kids : list node -> bool :=
  fix go (kids : list node) : bool :=
    match kids with
    | [] => true
    | NElem c :: t => negb (str_eqb (ekey o c) (textK o)) && dom_elem o c && go t
    | NText _ :: t => go t
    | NOther tk :: t => other_ok tk && go t
    end.

Lemma dom_elem_unfold n attrs kids :
  dom_elem o (Elem n attrs kids) =
  negb (is_nil (xlocal n)) && nodup_keys (akeys o attrs) &&
  negb (existsb (str_eqb (textK o)) (akeys o attrs)) &&
  (length (text_runs o kids) <=? 1) && dom_kids kids.
Proof.
  reflexivity.
Qed.

(* ---- one-token equations of elem_loop ---- *)
Lemma el_end f key n na seq nm ts tm :
  elem_loop pf skip o r (S f) key n na seq (TEnd nm :: ts) tm = Ok ((key, finish_elem o n na), ts).
Proof. reflexivity. Qed.

Lemma el_char f key n na seq x ts tm :
  elem_loop pf skip o r (S f) key n na seq (TChar x :: ts) tm =
  elem_loop pf skip o r f key (fst (on_chardata pf skip o r key x n na))
            (snd (on_chardata pf skip o r key x n na)) seq ts tm.
Proof. cbn [elem_loop]. destruct (on_chardata pf skip o r key x n na); reflexivity. Qed.

Lemma el_other f key n na seq tk ts tm :
  other_ok tk = true ->
  elem_loop pf skip o r (S f) key n na seq (tk :: ts) tm = elem_loop pf skip o r f key n na seq ts tm.
Proof. destruct tk; cbn [other_ok]; intros Hk; try discriminate; reflexivity. Qed.

Lemma el_start f key n na seq cn ca ts tm k v rest :
  handleXMPPStreamTag o = false ->
  xform_key o (xlocal cn) <> [] ->
  elem_loop pf skip o r f (xform_key o (xlocal cn)) None (attr_entries pf skip o r ca) 0 ts tm = Ok ((k, v), rest) ->
  elem_loop pf skip o r (S f) key n na seq (TStart cn ca :: ts) tm =
  elem_loop pf skip o r f key n (add_child k (fst (tag_seq o v seq)) na) (snd (tag_seq o v seq)) rest tm.
Proof.
  intros Hx Hne Hc. cbn [elem_loop]. rewrite Hx. cbn [andb].
  destruct (xform_key o (xlocal cn)) as [|c0 k0] eqn:Ek; [congruence|].
  rewrite Hc. destruct (tag_seq o v seq); reflexivity.
Qed.

Lemma map_nil_inv {A B} (g : A -> B) l : map g l = [] -> l = [].
Proof. destruct l; [reflexivity|discriminate]. Qed.

Lemma xform_key_nil k : xform_key o k = [] -> k = [].
Proof.
  unfold xform_key. intros Hk.
  destruct (snakeCaseKeys o).
  - apply map_nil_inv in Hk. destruct (lowerCase o); [apply map_nil_inv in Hk|]; exact Hk.
  - destruct (lowerCase o); [apply map_nil_inv in Hk|]; exact Hk.
Qed.

Hypothesis Hxmpp : handleXMPPStreamTag o = false.

Definition stage1_P (e : elem) : Prop :=
  match e with
  | Elem nm attrs kids =>
      dom_elem o e = true ->
      forall fuel rest tm, length (flat_map toks_of_node kids) < fuel ->
      elem_loop pf skip o r fuel (xform_key o (xlocal nm)) None (attr_entries pf skip o r attrs) 0
                (flat_map toks_of_node kids ++ TEnd nm :: rest) tm
      = Ok ((xform_key o (xlocal nm), sem e), rest)
  end.

Lemma kids_stage1 key nm rest tm kids :
  Forall (Pnode stage1_P) kids -> dom_kids kids = true ->
  forall n na seq fuel, length (flat_map toks_of_node kids) < fuel ->
  elem_loop pf skip o r fuel key n na seq (flat_map toks_of_node kids ++ TEnd nm :: rest) tm
  = Ok ((key, finish_elem o (fst (kids_loop sem key kids n na seq)) (snd (kids_loop sem key kids n na seq))), rest).
Proof.
  induction kids as [|nd t IH]; intros HF Hd n na seq fuel Hfuel.
  - destruct fuel as [|f]; [cbn in Hfuel; lia|]. cbn [flat_map app]. rewrite el_end. reflexivity.
  - inversion HF as [|? ? Hnd HF']; subst. destruct nd as [c|x|tk].
    + destruct c as [cn ca ck]. cbn [Pnode stage1_P] in Hnd.
      cbn [dom_kids] in Hd. apply andb_true_iff in Hd as [Hd Hdt]. apply andb_true_iff in Hd as [_ Hdc].
      cbn [flat_map] in *. rewrite toks_of_node_elem, toks_of_elem_unfold in *.
      cbn [app length] in *. rewrite !app_length in Hfuel. cbn [length] in Hfuel.
      destruct fuel as [|f]; [lia|].
      rewrite <- !app_assoc. cbn [app].
      assert (Hne : xform_key o (xlocal cn) <> []).
      { intros Hk. apply xform_key_nil in Hk. rewrite dom_elem_unfold in Hdc. rewrite Hk in Hdc. discriminate. }
      rewrite (el_start f key n na seq cn ca _ tm _ _ _ Hxmpp Hne (Hnd Hdc f _ tm ltac:(lia))).
      rewrite kids_loop_elem. cbn [ekey]. apply IH; [exact HF'|exact Hdt|lia].
    + cbn [dom_kids] in Hd. cbn [flat_map toks_of_node app] in *. cbn [length] in Hfuel.
      destruct fuel as [|f]; [lia|].
      rewrite el_char, kids_loop_text. apply IH; [exact HF'|exact Hd|lia].
    + cbn [dom_kids] in Hd. apply andb_true_iff in Hd as [Hk Hdt].
      cbn [flat_map toks_of_node app] in *. cbn [length] in Hfuel.
      destruct fuel as [|f]; [lia|].
      rewrite (el_other _ _ _ _ _ _ _ _ Hk), kids_loop_other. apply IH; [exact HF'|exact Hdt|lia].
Qed.

Lemma stage1 : forall e, stage1_P e.
Proof.
  induction e as [nm attrs kids HF] using elem_ind2. cbn [stage1_P]. intros Hd fuel rest tm Hfuel.
  rewrite dom_elem_unfold in Hd. apply andb_true_iff in Hd as [_ Hdk].
  rewrite (kids_stage1 _ nm rest tm kids HF Hdk _ _ _ _ Hfuel). rewrite sem_unfold. reflexivity.
Qed.

(* the top-level loop *)
Lemma top_skip_prolog fuel pro ts tm :
  forallb dom_prolog_node pro = true ->
  top_loop pf skip o r fuel (flat_map toks_of_node pro ++ ts) tm = top_loop pf skip o r fuel ts tm.
Proof.
  induction pro as [|nd t IH]; intros Hp; [reflexivity|].
  cbn [forallb] in Hp. apply andb_true_iff in Hp as [Hn Ht].
  destruct nd as [c|x|tk]; cbn [dom_prolog_node] in Hn; [discriminate| |].
  - cbn [flat_map toks_of_node app top_loop]. apply IH, Ht.
  - cbn [flat_map toks_of_node app]. destruct tk; cbn [other_ok] in Hn; try discriminate; cbn [top_loop]; apply IH, Ht.
Qed.

Definition root_key (d : doc) : str := ekey o (d_root d).

Lemma decode_rest_sem d tm :
  forallb dom_prolog_node (d_prolog d) = true -> dom_elem o (d_root d) = true ->
  xml_decode_rest pf skip o r (toks_of_doc d) tm = Ok ([(root_key d, sem (d_root d))], d_trailer d).
Proof.
  intros Hp Hd. unfold xml_decode_rest, toks_of_doc, root_key.
  rewrite top_skip_prolog by exact Hp.
  destruct (d_root d) as [nm attrs kids] eqn:Er.
  rewrite toks_of_elem_unfold. cbn [app top_loop]. rewrite Hxmpp. cbn [andb ekey].
  destruct (xform_key o (xlocal nm)) as [|c0 k0] eqn:Ek.
  { apply xform_key_nil in Ek. rewrite dom_elem_unfold, Ek in Hd. discriminate. }
  rewrite <- Ek. rewrite <- app_assoc. cbn [app].
  pose proof (stage1 (Elem nm attrs kids)) as HS. cbn [stage1_P] in HS.
  rewrite HS; [reflexivity|exact Hd|].
  rewrite !app_length. cbn [length]. rewrite !app_length. cbn [length]. lia.
Qed.

Lemma decode_sem_tm d tm :
  forallb dom_prolog_node (d_prolog d) = true -> dom_elem o (d_root d) = true ->
  xml_decode pf skip o r (toks_of_doc d) tm = Ok (VMap [(root_key d, sem (d_root d))]).
Proof. intros Hp Hd. unfold xml_decode. rewrite (decode_rest_sem d tm Hp Hd). reflexivity. Qed.

Lemma decode_sem d :
  forallb dom_prolog_node (d_prolog d) = true -> dom_elem o (d_root d) = true ->
  xml_decode pf skip o r (toks_of_doc d) TermEOF = Ok (VMap [(root_key d, sem (d_root d))]).
Proof. apply decode_sem_tm. Qed.

End Stage1.
