(* C16: veq is an equivalence on values, preserves well-formedness, and is what
   the boolean test veqb (Base/Value.v) decides on well-formed values. *)
From Coq Require Import Permutation.
From Mxj Require Import Spec.Veq Proofs.StrLemmas Proofs.C16P.

Lemma veq_refl v : veq v v.
Proof.
  induction v using value_ind2; try (apply veq_scalar; reflexivity).
  - apply veq_map with (p := m); [|reflexivity].
    induction H as [|kv t Hkv _ IH]; constructor; [split; [reflexivity | exact Hkv] | exact IH].
  - apply veq_list. induction H; constructor; assumption.
Qed.

Lemma forall2_flip_entries (m p : entries) :
  Forall (fun kv => forall v', veq (snd kv) v' -> veq v' (snd kv)) m ->
  Forall2 (entry_rel veq) m p -> Forall2 (entry_rel veq) p m.
Proof.
  intros IH Hf. induction Hf as [|a b m p [Hk Hv] _ IHf]; [constructor|].
  inversion IH; subst. constructor; [split; [congruence | auto] | auto].
Qed.

Lemma veq_sym v v' : veq v v' -> veq v' v.
Proof.
  revert v'. induction v using value_ind2; intros v' Hveq;
    try (inversion Hveq; subst; apply veq_scalar; reflexivity).
  - inversion Hveq as [v Hs|m0 p m' Hf Hp|]; subst; [discriminate Hs|].
    pose proof (forall2_flip_entries m p H Hf) as Hf'.
    destruct (Permutation_Forall2 Hp Hf') as [q [Hq Hfq]].
    apply veq_map with (p := q); [exact Hfq | symmetry; exact Hq].
  - inversion Hveq as [v Hs| |l0 l' Hf]; subst; [discriminate Hs|].
    apply veq_list. clear Hveq. induction Hf as [|a b l l' Hab _ IHf]; [constructor|].
    inversion H; subst. constructor; auto.
Qed.

Lemma veq_trans v v' v'' : veq v v' -> veq v' v'' -> veq v v''.
Proof.
  revert v' v''. induction v using value_ind2; intros v' v'' H1 H2;
    try (inversion H1; subst; exact H2).
  - inversion H1 as [v Hs|m0 p m' Hf Hp|]; subst; [discriminate Hs|].
    inversion H2 as [v Hs|m0 q m'' Hg Hq|]; subst; [discriminate Hs|].
    destruct (Permutation_Forall2 (Permutation_sym Hp) Hg) as [q' [Hq' Hg']].
    apply veq_map with (p := q'); [|rewrite <- Hq'; exact Hq].
    clear - H Hf Hg'. revert q' Hg'. induction Hf as [|a b m p [Hk Hv] _ IHf]; intros q' Hg'.
    + inversion Hg'; constructor.
    + inversion Hg' as [|? c ? q2 [Hk2 Hv2] Hg2]; subst. inversion H; subst.
      constructor; [split; [congruence | eauto] | auto].
  - inversion H1 as [v Hs| |l0 l' Hf]; subst; [discriminate Hs|].
    inversion H2 as [v Hs| |l0 l'' Hg]; subst; [discriminate Hs|].
    apply veq_list. clear - H Hf Hg. revert l'' Hg. induction Hf as [|a b l l' Hab _ IHf]; intros l'' Hg.
    + inversion Hg; constructor.
    + inversion Hg; subst. inversion H; subst. constructor; eauto.
Qed.

(* ---------------- well-formedness is preserved ---------------- *)
Lemma NoDup_nodup_keys (ks : list str) : NoDup ks -> nodup_keys ks = true.
Proof.
  induction 1 as [|k t Hnin _ IH]; [reflexivity|]. cbn [nodup_keys]. rewrite IH, Bool.andb_true_r.
  apply Bool.negb_true_iff. destruct (existsb (str_eqb k) t) eqn:E; [|reflexivity].
  exfalso. apply existsb_exists in E. destruct E as [x [Hx E]]. apply str_eqb_eq in E. subst x. exact (Hnin Hx).
Qed.

Lemma wf_map_intro (m : entries) : NoDup (map fst m) -> Forall (fun kv => wf (snd kv)) m -> wf (VMap m).
Proof.
  intros Hnd Hf. unfold wf. cbn [wfb]. rewrite (NoDup_nodup_keys _ Hnd). cbn [andb].
  induction Hf as [|[k v] t Hv _ IH]; [reflexivity|].
  cbn [snd] in Hv. unfold wf in Hv. rewrite Hv. cbn [andb]. apply IH. cbn [map] in Hnd. inversion Hnd; assumption.
Qed.

Lemma wf_list_intro (l : list value) : Forall wf l -> wf (VList l).
Proof.
  unfold wf. cbn [wfb]. induction 1 as [|v t Hv _ IH]; [reflexivity|]. unfold wf in Hv. rewrite Hv. exact IH.
Qed.

Lemma veq_wf v v' : wf v -> veq v v' -> wf v'.
Proof.
  revert v'. induction v using value_ind2; intros v' Hwf Hveq;
    try (inversion Hveq; subst; exact Hwf).
  - inversion Hveq as [v Hs|m0 p m' Hf Hp|]; subst; [exact Hwf|].
    destruct (wf_map_inv _ Hwf) as [Hnd Hwfs].
    apply wf_map_intro.
    + eapply Permutation_NoDup; [apply Permutation_map; exact Hp|]. rewrite <- (forall2_keys _ _ _ Hf). exact Hnd.
    + eapply Permutation_Forall; [exact Hp|].
      clear - H Hf Hwfs. induction Hf as [|a b m p [Hk Hv] _ IHf]; [constructor|].
      inversion H; subst. inversion Hwfs; subst. constructor; eauto.
  - inversion Hveq as [v Hs| |l0 l' Hf]; subst; [exact Hwf|].
    pose proof (wf_list_inv _ Hwf) as Hwfs. apply wf_list_intro.
    clear - H Hf Hwfs. induction Hf; [constructor|]. inversion H; subst. inversion Hwfs; subst. constructor; eauto.
Qed.

(* ---------------- veqb decides veq ---------------- *)
Definition mgo (m2 : entries) : entries -> bool :=
  fix go (m1 : entries) : bool :=
    match m1 with
    | [] => true
    | (k1, v1) :: t1 => match lookup k1 m2 with Some v2 => veqb v1 v2 && go t1 | None => false end
    end.
Definition lgo : list value -> list value -> bool :=
  fix go (l1 l2 : list value) : bool :=
    match l1, l2 with
    | [], [] => true
    | v1 :: t1, v2 :: t2 => veqb v1 v2 && go t1 t2
    | _, _ => false
    end.

Lemma veqb_map m1 m2 : veqb (VMap m1) (VMap m2) = Nat.eqb (length m1) (length m2) && mgo m2 m1.
Proof. reflexivity. Qed.
Lemma veqb_list l1 l2 : veqb (VList l1) (VList l2) = lgo l1 l2.
Proof. reflexivity. Qed.

Lemma lookup_in k v (m : entries) : lookup k m = Some v -> In (k, v) m.
Proof.
  induction m as [|[k' v'] t IH]; cbn [lookup]; [discriminate|].
  destruct (str_eqb k k') eqn:E; [|right; auto].
  intro H. injection H as ->. apply str_eqb_eq in E. subst. left. reflexivity.
Qed.

Lemma in_lookup k v (m : entries) : NoDup (map fst m) -> In (k, v) m -> lookup k m = Some v.
Proof.
  induction m as [|[k' v'] t IH]; cbn [lookup map fst]; intros Hnd Hin; [destruct Hin|].
  inversion Hnd as [|? ? Hnin Hnd']; subst. destruct Hin as [Heq|Hin].
  - injection Heq as -> ->. rewrite str_eqb_refl. reflexivity.
  - destruct (str_eqb k k') eqn:E; [|auto]. apply str_eqb_eq in E. subst k'.
    exfalso. apply Hnin. change k with (fst (k, v)). apply in_map. exact Hin.
Qed.

Lemma scalar_veqb_eq a b : is_scalar a = true -> veqb a b = true -> a = b.
Proof.
  destruct a, b; cbn [is_scalar veqb]; try discriminate; intros _ H; try reflexivity;
    try (apply str_eqb_eq in H; subst; reflexivity);
    try (apply Z.eqb_eq in H; subst; reflexivity).
  apply Bool.eqb_prop in H. subst. reflexivity.
Qed.

Theorem veqb_sound a w : wf a -> veqb a w = true -> veq a w.
Proof.
  revert w. induction a using value_ind2; intros w Hwf Hb;
    try (apply scalar_veqb_eq in Hb; [subst w; apply veq_scalar; reflexivity | reflexivity]).
  - destruct w as [| | | | | | | |m2|]; try discriminate Hb.
    rewrite veqb_map in Hb. apply andb_prop in Hb. destruct Hb as [Hlen Hgo]. apply Nat.eqb_eq in Hlen.
    destruct (wf_map_inv _ Hwf) as [Hnd Hwfs].
    assert (Hex : exists p, Forall2 (entry_rel veq) m p /\ map fst p = map fst m /\ incl p m2).
    { clear Hlen Hnd Hwf. induction m as [|[k1 v1] t IHm].
      - exists []. repeat split; [constructor | intros x []].
      - cbn [mgo] in Hgo. destruct (lookup k1 m2) as [v2|] eqn:El; [|discriminate Hgo].
        apply andb_prop in Hgo. destruct Hgo as [Hv Hgo].
        inversion H as [|? ? H1 H2]; subst. inversion Hwfs as [|? ? W1 W2]; subst. cbn [snd] in H1, W1.
        destruct (IHm H2 Hgo W2) as [p [Hf [Hk Hi]]].
        exists ((k1, v2) :: p). split; [|split].
        + constructor; [split; [reflexivity | apply H1; assumption] | exact Hf].
        + cbn [map fst]. rewrite Hk. reflexivity.
        + intros x [<-|Hx]; [apply lookup_in; exact El | apply Hi; exact Hx]. }
    destruct Hex as [p [Hf [Hk Hi]]].
    apply veq_map with (p := p); [exact Hf|].
    apply NoDup_Permutation_bis; [| |exact Hi].
    + eapply NoDup_map_inv. rewrite Hk. exact Hnd.
    + rewrite <- Hlen, <- (map_length fst m), <- Hk, map_length. apply le_n.
  - destruct w as [| | | | | | | | |l2]; try discriminate Hb.
    rewrite veqb_list in Hb. pose proof (wf_list_inv _ Hwf) as Hwfs. apply veq_list.
    clear Hwf. revert l2 Hb. induction l as [|v t IHl]; intros [|v2 t2] Hb; try discriminate Hb; [constructor|].
    cbn [lgo] in Hb. apply andb_prop in Hb. destruct Hb as [Hv Ht].
    inversion H; subst. inversion Hwfs; subst. constructor; auto.
Qed.

Theorem veqb_complete a w : wf a -> veq a w -> veqb a w = true.
Proof.
  revert w. induction a using value_ind2; intros w Hwf Hveq;
    try (inversion Hveq; subst; cbn [veqb]; first [apply str_eqb_refl | apply Z.eqb_refl | apply Bool.eqb_reflx | reflexivity]).
  - inversion Hveq as [v Hs|m0 p m' Hf Hp|]; subst; [discriminate Hs|].
    destruct (wf_map_inv _ Hwf) as [Hnd Hwfs].
    rewrite veqb_map. apply andb_true_intro. split.
    + apply Nat.eqb_eq. rewrite <- (Permutation_length Hp). apply (forall2_len _ _ _ Hf).
    + assert (Hndp : NoDup (map fst p)) by (rewrite <- (forall2_keys _ _ _ Hf); exact Hnd).
      assert (Hall : forall k v, In (k, v) m -> exists v', lookup k m' = Some v' /\ veqb v v' = true).
      { intros k v Hin. pose proof (forall2_lookup veq k m p Hf) as Hl.
        rewrite (in_lookup k v m Hnd Hin) in Hl. rewrite <- (lookup_perm k p m' Hndp Hp).
        destruct (lookup k p) as [v'|]; [|contradiction]. exists v'. split; [reflexivity|].
        rewrite Forall_forall in H, Hwfs. apply (H (k, v) Hin); [apply (Hwfs (k, v) Hin) | exact Hl]. }
      clear - Hall. induction m as [|[k v] t IH]; [reflexivity|]. cbn [mgo].
      destruct (Hall k v (or_introl eq_refl)) as [v' [-> Hv]]. rewrite Hv. cbn [andb].
      apply IH. intros k0 v0 Hin. apply Hall. right. exact Hin.
  - inversion Hveq as [v Hs| |l0 l' Hf]; subst; [discriminate Hs|].
    rewrite veqb_list. pose proof (wf_list_inv _ Hwf) as Hwfs. clear Hwf Hveq.
    induction Hf as [|a b l l' Hab _ IHf]; [reflexivity|]. inversion H; subst. inversion Hwfs; subst.
    cbn [lgo]. apply andb_true_intro. split; auto.
Qed.

Corollary veqb_iff_veq a b : wf a -> (veqb a b = true <-> veq a b).
Proof. intro Hwf. split; [apply veqb_sound | apply veqb_complete]; exact Hwf. Qed.
