(* C04, token level: the RawToken stream of the emitted items, with any whitespace inserted at
   element boundaries, normalises to the normalised RawToken stream of the document. *)
From Mxj Require Import Spec.SeqSpec Proofs.StrLemmas Proofs.C04Str Proofs.C04Map Proofs.C04Dec Proofs.C04Enc.

Lemma normalize_app a b : normalize (a ++ b) = normalize a ++ normalize b.
Proof. apply flat_map_app. Qed.
Lemma rawtoks_items_app a b : rawtoks_of_items (a ++ b) = rawtoks_of_items a ++ rawtoks_of_items b.
Proof. apply flat_map_app. Qed.

(* ---------------- inserted whitespace disappears ---------------- *)
Lemma ws_str_noamp w : mem_ascii "&"%char (ws_str w) = false.
Proof.
  induction w as [|c t IH]; [reflexivity|].
  change (mem_ascii "&"%char (ws_str (c :: t)))
    with (Ascii.eqb "&"%char (ws_char c) || mem_ascii "&"%char (ws_str t)).
  rewrite IH. destruct c; reflexivity.
Qed.

Lemma normalize_ws_text w : normalize (rawtoks_of_items (ws_text w)) = [].
Proof.
  destruct w as [|c t]; [reflexivity|].
  unfold ws_text, rawtoks_of_items. cbn [flat_map rt1 app ws_str map].
  change (ws_char c :: map ws_char t) with (ws_str (c :: t)).
  rewrite (unescape_noamp _ (ws_str_noamp (c :: t))).
  unfold normalize. cbn [flat_map norm1]. rewrite trim_ws_str. reflexivity.
Qed.

Lemma normalize_insert_ws its : forall ws,
  normalize (rawtoks_of_items (insert_ws_from ws its)) = normalize (rawtoks_of_items its).
Proof.
  induction its as [|i t IH]; intros ws.
  - cbn [insert_ws_from]. destruct ws as [|w ws']; [reflexivity|apply normalize_ws_text].
  - cbn [insert_ws_from].
    rewrite rawtoks_items_app, normalize_app.
    change (i :: insert_ws_from match ws with [] => [] | _ :: ws' => ws' end t)
      with ([i] ++ insert_ws_from match ws with [] => [] | _ :: ws' => ws' end t).
    rewrite rawtoks_items_app, normalize_app, IH.
    change (i :: t) with ([i] ++ t). rewrite rawtoks_items_app, normalize_app.
    destruct (is_text_item i); [reflexivity|].
    rewrite normalize_ws_text. reflexivity.
Qed.

(* ---------------- the items of a document against its tokens ---------------- *)
Section Tok.
Variable pf : str -> option flt.
Variable skip : str -> bool.
Variable e : bool.
Notation o := (seq_o e).
Notation items := (items_of e).

Lemma trim_incl cut x c : In c (trim cut x) -> In c x.
Proof.
  unfold trim, trim_right. intros H. apply in_rev in H. apply trim_left_incl in H.
  apply in_rev in H. apply trim_left_incl in H. exact H.
Qed.

Lemma value_ok_trim cut x : value_ok o x = true -> value_ok o (trim cut x) = true.
Proof.
  unfold value_ok. destruct (xmlEscapeChars o); [reflexivity|]. cbn [orb].
  intros H. apply negb_true_iff in H. apply negb_true_iff.
  destruct (existsb (fun c => mem_ascii c specials) (trim cut x)) eqn:E; [|reflexivity].
  apply existsb_exists in E. destruct E as (c & Hc & Hm).
  assert (X : existsb (fun c => mem_ascii c specials) x = true).
  { apply existsb_exists. exists c. split; [eapply trim_incl; exact Hc|exact Hm]. }
  congruence.
Qed.

Lemma rt_attrs_items a :
  forallb (fun at_ => value_ok o (avalue at_)) a = true ->
  rt_attrs (attr_items e a) = map (fun at_ => (xfull (aname at_), avalue at_)) a.
Proof.
  induction a as [|at_ t IH]; [reflexivity|]. cbn [forallb]. intros H.
  apply andb_true_iff in H. destruct H as [H1 H2].
  unfold rt_attrs, attr_items in *. cbn [map fst snd]. rewrite (unescape_esc o _ H1).
  f_equal. apply IH. exact H2.
Qed.

Lemma norm_kids kids :
  Forall (fun k => node_ok o k = true ->
                   normalize (rawtoks_of_items (items false k)) = normalize (map rt_of_tok (rawtoks_of k))) kids ->
  forallb (node_ok o) kids = true ->
  normalize (rawtoks_of_items (flat_map (items false) kids))
  = normalize (map rt_of_tok (flat_map rawtoks_of kids)).
Proof.
  induction 1 as [|k t Hk Ht IH]; intros Hok; [reflexivity|].
  cbn [forallb] in Hok. apply andb_true_iff in Hok. destruct Hok as [O1 O2].
  cbn [flat_map]. rewrite rawtoks_items_app, map_app, !normalize_app.
  rewrite (Hk O1), (IH O2). reflexivity.
Qed.

Lemma items_tokens d : forall root,
  node_ok o d = true ->
  normalize (rawtoks_of_items (items root d)) = normalize (map rt_of_tok (rawtoks_of d)).
Proof.
  induction d as [nm a text kids IH|x|x|t i] using node_ind2; intros root Hok; try reflexivity.
  cbn [node_ok] in Hok.
  apply andb_true_iff in Hok. destruct Hok as [Hok Hkids].
  apply andb_true_iff in Hok. destruct Hok as [Hok Hp1].
  apply andb_true_iff in Hok. destruct Hok as [Hok Hd1].
  apply andb_true_iff in Hok. destruct Hok as [Hok Hc1].
  apply andb_true_iff in Hok. destruct Hok as [Hok Htext].
  apply andb_true_iff in Hok. destruct Hok as [Hname Hattrs].
  unfold attrs_ok in Hattrs. apply andb_true_iff in Hattrs. destruct Hattrs as [Hnodup Hvals].
  unfold text_ok in Htext. apply andb_true_iff in Htext. destruct Htext as [Htv Htb].
  apply negb_true_iff in Htb.
  assert (Htrim := trim_decoder_xml text Htb).
  assert (Hra := rt_attrs_items a Hvals).
  cbn [rawtoks_of map rt_of_tok]. rewrite !map_app. cbn [map rt_of_tok].
  cbn [items_of].
  assert (Htxt : normalize (map rt_of_tok match text with [] => [] | _ :: _ => [TChar text] end)
                 = match trim xml_ws text with [] => [] | y => [RChar y] end).
  { destruct text as [|c0 t0]; [reflexivity|]. cbn [map rt_of_tok normalize flat_map norm1].
    rewrite app_nil_r. reflexivity. }
  change (RStart (xfull nm) (map (fun at_ : xattr => (xfull (aname at_), avalue at_)) a)
          :: map rt_of_tok match text with [] => [] | _ :: _ => [TChar text] end
             ++ map rt_of_tok (flat_map rawtoks_of kids) ++ [REnd (xfull nm)])
    with ([RStart (xfull nm) (map (fun at_ : xattr => (xfull (aname at_), avalue at_)) a)]
          ++ map rt_of_tok match text with [] => [] | _ :: _ => [TChar text] end
             ++ map rt_of_tok (flat_map rawtoks_of kids) ++ [REnd (xfull nm)]).
  rewrite !normalize_app, Htxt. rewrite <- Htrim.
  (* the text item, when there is one, reads back as the trimmed text *)
  assert (Htext_item : forall c x, trim trim_all text = c :: x ->
            normalize (rawtoks_of_items [SI (IText (esc o (c :: x)))]) = [RChar (c :: x)]).
  { intros c x Et.
    assert (Hv : value_ok o (c :: x) = true) by (rewrite <- Et; apply value_ok_trim; exact Htv).
    assert (Hne : esc o (c :: x) <> []) by (apply esc_nonempty; [exact Hv|discriminate]).
    unfold rawtoks_of_items. cbn [flat_map rt1 app].
    destruct (esc o (c :: x)) as [|c1 x1] eqn:Ee; [congruence|]. rewrite <- Ee.
    rewrite (unescape_esc o _ Hv).
    cbn [normalize flat_map norm1 app].
    assert (Hid : trim xml_ws (c :: x) = c :: x).
    { rewrite <- Et. rewrite Htrim. apply trim_idem. }
    rewrite Hid. reflexivity. }
  destruct kids as [|k1 kt].
  - destruct (trim trim_all text) as [|c x] eqn:Et.
    + destruct (root && has_attrs a); cbn; rewrite Hra; reflexivity.
    + change [SI (IOpen (xfull nm) (attr_items e a)); SI (IText (esc o (c :: x))); SI (IClose (xfull nm))]
        with ([SI (IOpen (xfull nm) (attr_items e a))] ++ [SI (IText (esc o (c :: x)))] ++ [SI (IClose (xfull nm))]).
      rewrite !rawtoks_items_app, !normalize_app. rewrite (Htext_item c x eq_refl).
      cbn. rewrite Hra. reflexivity.
  - set (kids := k1 :: kt) in *.
    change (SI (IOpen (xfull nm) (attr_items e a))
            :: match trim trim_all text with [] => [] | c :: x => [SI (IText (esc o (c :: x)))] end
               ++ flat_map (items false) kids ++ [SI (IClose (xfull nm))])
      with ([SI (IOpen (xfull nm) (attr_items e a))]
            ++ match trim trim_all text with [] => [] | c :: x => [SI (IText (esc o (c :: x)))] end
               ++ flat_map (items false) kids ++ [SI (IClose (xfull nm))]).
    rewrite !rawtoks_items_app, !normalize_app.
    rewrite (norm_kids kids); [|eapply Forall_impl; [|exact IH]; cbn beta; intros k Hk Ok1; apply Hk; exact Ok1|exact Hkids].
    destruct (trim trim_all text) as [|c x] eqn:Et.
    + cbn. rewrite Hra. reflexivity.
    + rewrite (Htext_item c x eq_refl). cbn. rewrite Hra. reflexivity.
Qed.
End Tok.

(* ---------------- adjacent character data: text followed by indentation ----------------
   The tokenizer returns ONE CharData for a text run followed by the line break and padding the
   indented encoder writes before the first child.  Under [normalize] that merged reading equals the
   unmerged one [rawtoks_of_items] uses. *)
Lemma unesc_escape_app v rest : unesc (escape_chars v ++ rest) 0 = v ++ unesc rest 0.
Proof.
  induction v as [|c t IH]; [reflexivity|].
  rewrite escape_chars_cons, <- app_assoc, unesc_esc1, IH. reflexivity.
Qed.

Lemma unesc_noamp_app v rest : mem_ascii "&"%char v = false -> unesc (v ++ rest) 0 = v ++ unesc rest 0.
Proof.
  induction v as [|c t IH]; intros H; [reflexivity|].
  change (mem_ascii "&"%char (c :: t)) with (Ascii.eqb "&"%char c || mem_ascii "&"%char t) in H.
  apply orb_false_iff in H. destruct H as [Hc Ht].
  cbn [app unesc ent_at entity_table s list_ascii_of_string prefixb].
  rewrite Hc. cbn [andb]. f_equal. apply IH. exact Ht.
Qed.

Lemma unescape_esc_app o v w :
  value_ok o v = true -> unescape (esc o v ++ ws_str w) = v ++ ws_str w.
Proof.
  intros H. unfold unescape.
  assert (Hw : unesc (ws_str w) 0 = ws_str w) by (apply (unescape_noamp _ (ws_str_noamp w))).
  unfold value_ok in H. unfold esc. destruct (xmlEscapeChars o).
  - rewrite unesc_escape_app, Hw. reflexivity.
  - cbn [orb] in H. apply negb_true_iff in H.
    rewrite (unesc_noamp_app _ _ (specials_amp _ H)), Hw. reflexivity.
Qed.

Lemma trim_left_app cut v w :
  trim_left cut (v ++ w) = match trim_left cut v with [] => trim_left cut w | y => y ++ w end.
Proof.
  induction v as [|c t IH]; cbn [app trim_left].
  - destruct (trim_left cut w); reflexivity.
  - destruct (mem_ascii c cut); [exact IH|reflexivity].
Qed.

Lemma trim_app_cut cut v w :
  forallb (fun c => mem_ascii c cut) w = true -> trim cut (v ++ w) = trim cut v.
Proof.
  intros Hw. unfold trim. rewrite trim_left_app.
  destruct (trim_left cut v) as [|h y] eqn:E.
  - rewrite (trim_left_all _ _ Hw). reflexivity.
  - unfold trim_right. rewrite rev_app_distr, trim_left_app.
    assert (Hr : forallb (fun c => mem_ascii c cut) (rev w) = true).
    { apply forallb_forall. intros c Hc. apply in_rev in Hc.
      rewrite forallb_forall in Hw. apply Hw. exact Hc. }
    rewrite (trim_left_all _ _ Hr). reflexivity.
Qed.

Lemma ws_str_in_cut w : forallb (fun c => mem_ascii c xml_ws) (ws_str w) = true.
Proof. unfold ws_str. induction w as [|c t IH]; [reflexivity|]. cbn [map forallb]. rewrite IH. destruct c; reflexivity. Qed.

Lemma text_then_ws_merges o v w :
  value_ok o v = true ->
  normalize (rawtoks_of_items [SI (IText (esc o v ++ ws_str w))])
  = normalize (rawtoks_of_items [SI (IText (esc o v)); SI (IText (ws_str w))]).
Proof.
  intros H.
  assert (Hu := unescape_esc_app o v w H). assert (Hv := unescape_esc o v H).
  assert (Hw : normalize (rawtoks_of_items [SI (IText (ws_str w))]) = []).
  { destruct w as [|c t]; [reflexivity|]. apply (normalize_ws_text (c :: t)). }
  change [SI (IText (esc o v)); SI (IText (ws_str w))] with ([SI (IText (esc o v))] ++ [SI (IText (ws_str w))]).
  rewrite rawtoks_items_app, normalize_app, Hw, app_nil_r.
  unfold rawtoks_of_items. cbn [flat_map rt1]. rewrite !app_nil_r.
  destruct (esc o v) as [|c1 x1] eqn:Ee.
  - cbn [app]. unfold rawtoks_of_items in Hw. cbn [flat_map rt1] in Hw. rewrite app_nil_r in Hw. exact Hw.
  - cbn [app] in *. rewrite Hu, Hv. unfold normalize. cbn [flat_map norm1].
    rewrite (trim_app_cut xml_ws v (ws_str w) (ws_str_in_cut w)). reflexivity.
Qed.
