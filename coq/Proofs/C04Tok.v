(* C04, token level: the RawToken stream of the emitted items, with any whitespace inserted at
   element boundaries, normalises to the normalised RawToken stream of the document. *)
From Mxj Require Import Spec.SeqSpec Proofs.StrLemmas Proofs.C04Str Proofs.C04Map Proofs.C04Dec Proofs.C04Enc.

Lemma normalize_app a b : normalize (a ++ b) = normalize a ++ normalize b.
Proof. apply flat_map_app. Qed.
Lemma rawtoks_items_app a b : rawtoks_of_items (a ++ b) = rawtoks_of_items a ++ rawtoks_of_items b.
Proof. apply flat_map_app. Qed.

(* ---------------- inserted whitespace disappears ---------------- *)
Lemma ws_str_noamp w : mem_ascii "&"%char (ws_str w) = false.
Proof.
  induction w as [|c t IH]; [reflexivity|].
  change (mem_ascii "&"%char (ws_str (c :: t)))
    with (Ascii.eqb "&"%char (ws_char c) || mem_ascii "&"%char (ws_str t)).
  rewrite IH. destruct c; reflexivity.
Qed.

Lemma normalize_ws_text w : normalize (rawtoks_of_items (ws_text w)) = [].
Proof.
  destruct w as [|c t]; [reflexivity|].
  unfold ws_text, rawtoks_of_items. cbn [flat_map rt1 app ws_str map].
  change (ws_char c :: map ws_char t) with (ws_str (c :: t)).
  rewrite (unescape_noamp _ (ws_str_noamp (c :: t))).
  unfold normalize. cbn [flat_map norm1]. rewrite trim_ws_str. reflexivity.
Qed.

Lemma normalize_insert_ws its : forall ws prev,
  normalize (rawtoks_of_items (insert_ws_from ws prev its)) = normalize (rawtoks_of_items its).
Proof.
  induction its as [|i t IH]; intros ws prev.
  - cbn [insert_ws_from]. destruct ws as [|w ws']; [reflexivity|].
    destruct prev; [reflexivity|apply normalize_ws_text].
  - cbn [insert_ws_from].
    rewrite rawtoks_items_app, normalize_app.
    change (i :: insert_ws_from match ws with [] => [] | _ :: ws' => ws' end (is_text_item i) t)
      with ([i] ++ insert_ws_from match ws with [] => [] | _ :: ws' => ws' end (is_text_item i) t).
    rewrite rawtoks_items_app, normalize_app, IH.
    change (i :: t) with ([i] ++ t). rewrite rawtoks_items_app, normalize_app.
    destruct (prev || is_text_item i); [reflexivity|].
    rewrite normalize_ws_text. reflexivity.
Qed.

(* ---------------- the items of a document against its tokens ---------------- *)
Section Tok.
Variable pf : str -> option flt.
Variable skip : str -> bool.
Variable e : bool.
Notation o := (seq_o e).
Notation items := (items_of e).

Lemma trim_incl cut x c : In c (trim cut x) -> In c x.
Proof.
  unfold trim, trim_right. intros H. apply in_rev in H. apply trim_left_incl in H.
  apply in_rev in H. apply trim_left_incl in H. exact H.
Qed.

Lemma value_ok_trim cut x : value_ok o x = true -> value_ok o (trim cut x) = true.
Proof.
  unfold value_ok. destruct (xmlEscapeChars o); [reflexivity|]. cbn [orb].
  intros H. apply negb_true_iff in H. apply negb_true_iff.
  destruct (existsb (fun c => mem_ascii c specials) (trim cut x)) eqn:E; [|reflexivity].
  apply existsb_exists in E. destruct E as (c & Hc & Hm).
  assert (X : existsb (fun c => mem_ascii c specials) x = true).
  { apply existsb_exists. exists c. split; [eapply trim_incl; exact Hc|exact Hm]. }
  congruence.
Qed.

Lemma rt_attrs_items a :
  forallb (fun at_ => value_ok o (avalue at_)) a = true ->
  rt_attrs (attr_items e a) = map (fun at_ => (xfull (aname at_), avalue at_)) a.
Proof.
  induction a as [|at_ t IH]; [reflexivity|]. cbn [forallb]. intros H.
  apply andb_true_iff in H. destruct H as [H1 H2].
  unfold rt_attrs, attr_items in *. cbn [map fst snd]. rewrite (unescape_esc o _ H1).
  f_equal. apply IH. exact H2.
Qed.

Lemma norm_kids kids :
  Forall (fun k => node_ok o true k = true ->
                   normalize (rawtoks_of_items (items false k)) = normalize (map rt_of_tok (rawtoks_of k))) kids ->
  forallb (node_ok o true) kids = true ->
  normalize (rawtoks_of_items (flat_map (items false) kids))
  = normalize (map rt_of_tok (flat_map rawtoks_of kids)).
Proof.
  induction 1 as [|k t Hk Ht IH]; intros Hok; [reflexivity|].
  cbn [forallb] in Hok. apply andb_true_iff in Hok. destruct Hok as [O1 O2].
  cbn [flat_map]. rewrite rawtoks_items_app, map_app, !normalize_app.
  rewrite (Hk O1), (IH O2). reflexivity.
Qed.

Lemma items_tokens d : forall root,
  node_ok o true d = true ->
  normalize (rawtoks_of_items (items root d)) = normalize (map rt_of_tok (rawtoks_of d)).
Proof.
  induction d as [nm a text kids IH|x|x|t i] using node_ind2; intros root Hok; try reflexivity.
  cbn [node_ok] in Hok.
  apply andb_true_iff in Hok. destruct Hok as [Hok Hkids].
  apply andb_true_iff in Hok. destruct Hok as [Hok Halone].
  apply andb_true_iff in Hok. destruct Hok as [Hok Hp1].
  apply andb_true_iff in Hok. destruct Hok as [Hok Hd1].
  apply andb_true_iff in Hok. destruct Hok as [Hok Hc1].
  apply andb_true_iff in Hok. destruct Hok as [Hok Htext].
  apply andb_true_iff in Hok. destruct Hok as [Hname Hattrs].
  unfold attrs_ok in Hattrs. apply andb_true_iff in Hattrs. destruct Hattrs as [Hnodup Hvals].
  unfold text_ok in Htext. apply andb_true_iff in Htext. destruct Htext as [Htv Htb].
  apply negb_true_iff in Htb.
  assert (Htrim := trim_decoder_xml text Htb).
  assert (Hra := rt_attrs_items a Hvals).
  cbn [rawtoks_of map rt_of_tok]. rewrite !map_app. cbn [map rt_of_tok].
  cbn [items_of].
  assert (Htxt : normalize (map rt_of_tok match text with [] => [] | _ :: _ => [TChar text] end)
                 = match trim xml_ws text with [] => [] | y => [RChar y] end).
  { destruct text as [|c0 t0]; [reflexivity|]. cbn [map rt_of_tok normalize flat_map norm1].
    rewrite app_nil_r. reflexivity. }
  change (RStart (xfull nm) (map (fun at_ : xattr => (xfull (aname at_), avalue at_)) a)
          :: map rt_of_tok match text with [] => [] | _ :: _ => [TChar text] end
             ++ map rt_of_tok (flat_map rawtoks_of kids) ++ [REnd (xfull nm)])
    with ([RStart (xfull nm) (map (fun at_ : xattr => (xfull (aname at_), avalue at_)) a)]
          ++ map rt_of_tok match text with [] => [] | _ :: _ => [TChar text] end
             ++ map rt_of_tok (flat_map rawtoks_of kids) ++ [REnd (xfull nm)]).
  rewrite !normalize_app, Htxt.
  destruct (trim trim_all text) as [|c x] eqn:Et.
  - rewrite <- Htrim. cbn [app].
    destruct kids as [|k1 kt].
    + destruct (root && has_attrs a); cbn; rewrite Hra; reflexivity.
    + set (kids := k1 :: kt) in *.
      change (SI (IOpen (xfull nm) (attr_items e a)) :: flat_map (items false) kids ++ [SI (IClose (xfull nm))])
        with ([SI (IOpen (xfull nm) (attr_items e a))] ++ flat_map (items false) kids ++ [SI (IClose (xfull nm))]).
      rewrite !rawtoks_items_app, !normalize_app.
      rewrite (norm_kids kids); [|eapply Forall_impl; [|exact IH]; cbn beta; intros k Hk Ok1; apply Hk; exact Ok1|exact Hkids].
      cbn. rewrite Hra. reflexivity.
  - assert (Hk0 : kids = []).
    { rewrite <- Htrim in Halone. cbn [nonempty negb orb] in Halone.
      destruct kids; [reflexivity|discriminate Halone]. }
    subst kids. rewrite <- Htrim.
    assert (Hv : value_ok o (c :: x) = true) by (rewrite <- Et; apply value_ok_trim; exact Htv).
    assert (Hne : esc o (c :: x) <> []) by (apply esc_nonempty; [exact Hv|discriminate]).
    unfold rawtoks_of_items. cbn [flat_map rt1 app].
    destruct (esc o (c :: x)) as [|c1 x1] eqn:Ee; [congruence|]. rewrite <- Ee.
    rewrite (unescape_esc o _ Hv). rewrite Hra.
    cbn [normalize flat_map norm1 app map].
    assert (Hid : trim xml_ws (c :: x) = c :: x).
    { rewrite Htrim. apply trim_idem. }
    rewrite Hid. reflexivity.
Qed.
End Tok.
