(* C16, MapSeq part: every MapSeq the sequence decoder returns is well formed (pairwise distinct keys in
   every map) - for every option record, token stream, terminator and cast flag. *)
From Coq Require Import Permutation.
From Mxj Require Import Model.SeqDec Spec.Veq Proofs.StrLemmas Proofs.C16P Proofs.C16Veq.
From Mxj Require Proofs.C01Q.

Lemma in_keys_set x k v (m : entries) : In x (map fst (set k v m)) -> x = k \/ In x (map fst m).
Proof.
  induction m as [|[k' v'] t IH]; cbn [set map fst].
  - intros [<-|[]]. left. reflexivity.
  - destruct (str_eqb k k'); cbn [map fst]; [intro H; right; exact H|].
    intros [<-|H]; [right; left; reflexivity|]. destruct (IH H) as [->|H']; [left; reflexivity|right; right; exact H'].
Qed.

Lemma nodup_keys_set k v (m : entries) : NoDup (map fst m) -> NoDup (map fst (set k v m)).
Proof.
  induction m as [|[k' v'] t IH]; cbn [set map fst]; intro H.
  - constructor; [intros []|constructor].
  - destruct (str_eqb k k') eqn:E; cbn [map fst]; [exact H|].
    inversion H as [|? ? Hnin Hnd]; subst. constructor; [|apply IH; exact Hnd].
    intro Hin. destruct (in_keys_set _ _ _ _ Hin) as [->|Hin']; [|exact (Hnin Hin')].
    rewrite str_eqb_refl in E. discriminate E.
Qed.

Lemma forall_set (P : str * value -> Prop) k v (m : entries) :
  Forall P m -> (forall k', P (k', v)) -> Forall P (set k v m).
Proof.
  intros Hm Hv. induction Hm as [|[k' v'] t H1 Ht IH]; cbn [set].
  - constructor; [apply Hv|constructor].
  - destruct (str_eqb k k'); constructor; try assumption. apply Hv.
Qed.

Lemma wf_set k v m : wf (VMap m) -> wf v -> wf (VMap (set k v m)).
Proof.
  intros Hm Hv. destruct (wf_map_inv _ Hm) as [Hnd Hall]. apply wf_map_intro.
  - apply nodup_keys_set. exact Hnd.
  - apply forall_set; [exact Hall|]. intros k'. exact Hv.
Qed.

Lemma wf_nil_map : wf (VMap []).
Proof. reflexivity. Qed.

Lemma wf_sval v : C01Q.sval v = true -> wf v.
Proof. destruct v; try discriminate; reflexivity. Qed.

Lemma wf_add_child k v na : wf (VMap na) -> wf v -> wf (VMap (add_child k v na)).
Proof.
  intros Hna Hv. unfold add_child. destruct (lookup k na) as [v0|] eqn:El; [|apply wf_set; assumption].
  pose proof (wf_map_inv _ Hna) as [_ Hall]. rewrite Forall_forall in Hall.
  pose proof (Hall _ (lookup_in _ _ _ El)) as H0. cbn [snd] in H0.
  assert (G : wf (VList [v0; v])).
  { apply wf_list_intro. constructor; [exact H0|constructor; [exact Hv|constructor]]. }
  destruct v0; try (apply wf_set; [exact Hna|exact G]).
  apply wf_set; [exact Hna|]. apply wf_list_intro. apply Forall_app. split; [apply wf_list_inv; exact H0|].
  constructor; [exact Hv|constructor].
Qed.

Section DecWf.
Variable pf : str -> option flt.
Variable skip : str -> bool.
Variable o : opts.
Variable r : bool.

Lemma wf_text_seq_map v i : wf v -> wf (text_seq_map o v i).
Proof.
  intro Hv. unfold text_seq_map. apply wf_set; [|reflexivity]. apply wf_set; [exact wf_nil_map|exact Hv].
Qed.

Lemma wf_cast x t : wf (cast pf skip o x r t).
Proof. apply wf_sval, C01Q.cast_sval. Qed.

Lemma wf_attr_fold a : forall st, wf (VMap (snd st)) -> wf (VMap (snd (fold_left (seq_attr_step pf skip o r) a st))).
Proof.
  induction a as [|at_ t IH]; intros [i aa] H; [exact H|].
  cbn [fold_left]. apply IH. unfold seq_attr_step. cbn [snd] in *.
  apply wf_set; [exact H|]. apply wf_text_seq_map, wf_cast.
Qed.

Lemma wf_init_na a : wf (VMap (seq_init_na pf skip o r a)).
Proof.
  unfold seq_init_na. destruct a as [|at_ t]; [exact wf_nil_map|].
  apply wf_set; [exact wf_nil_map|]. unfold seq_attr_entries. apply (wf_attr_fold (at_ :: t) (0%Z, [])). exact wf_nil_map.
Qed.

Lemma wf_inject v sq : wf v -> wf (fst (seq_inject o v sq)).
Proof.
  intro Hv. destruct v; cbn [seq_inject fst]; try (apply wf_text_seq_map; exact Hv); try exact Hv.
  apply wf_set; [exact Hv|reflexivity].
Qed.

Lemma sloop_wf fuel : forall skey na sq ts tm kv rest,
  wf (VMap na) ->
  sloop pf skip o r fuel skey na sq ts tm = Ok (kv, rest) -> wf (snd kv).
Proof.
  induction fuel as [|f IH]; intros skey na sq ts tm kv rest Hna H; [discriminate H|].
  destruct ts as [|t ts']; [cbn [sloop] in H; destruct tm; discriminate H|].
  destruct t as [nm a|nm|x|x|tg i|x].
  - (* start tag *)
    cbn [sloop] in H.
    set (cna := if nonempty (snake o (xfull nm)) then seq_init_na pf skip o r a else []) in H.
    assert (Hc : wf (VMap cna)) by (unfold cna; destruct (nonempty _); [apply wf_init_na|exact wf_nil_map]).
    destruct skey as [|c k].
    + destruct (handleXMPPStreamTag o && str_eqb (snake o (xfull nm)) stream_stream).
      * injection H as <- <-. exact Hc.
      * apply (IH _ _ _ _ _ _ _ Hc H).
    + match type of H with
      | match ?call with _ => _ end = _ => destruct call as [[[key val] rest1]| |] eqn:Ec; try discriminate H
      end.
      assert (Hv : wf val).
      { destruct (handleXMPPStreamTag o && str_eqb (snake o (xfull nm)) stream_stream).
        - injection Ec as <- <- <-. exact Hc.
        - apply (IH _ _ _ _ _ _ _ Hc Ec). }
      pose proof (wf_inject val sq Hv) as Hv'.
      destruct (seq_inject o val sq) as [val' seq']. cbn [fst] in Hv'.
      apply (IH _ _ _ _ _ _ _ (wf_add_child key val' na Hna Hv') H).
  - (* end tag *)
    cbn [sloop] in H. destruct skey as [|c k]; [discriminate H|].
    destruct (negb (str_eqb (c :: k) (full_name (xspace nm) (snake o (xlocal nm))))); [discriminate H|].
    injection H as <- <-. cbn [snd]. destruct na; [reflexivity|exact Hna].
  - (* character data *)
    cbn [sloop] in H. destruct skey as [|c k].
    + apply (IH _ _ _ _ _ _ _ Hna H).
    + match type of H with (if ?b then _ else _) = _ => destruct b end.
      * refine (IH _ _ _ _ _ _ _ _ H).
        apply wf_set; [|reflexivity]. apply wf_set; [exact Hna|apply wf_cast].
      * apply (IH _ _ _ _ _ _ _ Hna H).
  - (* comment *)
    cbn [sloop] in H. destruct skey as [|c k]; [discriminate H|].
    refine (IH _ _ _ _ _ _ _ _ H). apply wf_set; [exact Hna|]. apply wf_text_seq_map. reflexivity.
  - (* processing instruction *)
    cbn [sloop] in H. destruct skey as [|c k]; [discriminate H|].
    refine (IH _ _ _ _ _ _ _ _ H). apply wf_set; [exact Hna|].
    apply wf_set; [|reflexivity]. apply wf_set; [|reflexivity]. apply wf_set; [exact wf_nil_map|reflexivity].
  - (* directive *)
    cbn [sloop] in H. destruct skey as [|c k]; [discriminate H|].
    refine (IH _ _ _ _ _ _ _ _ H). apply wf_set; [exact Hna|]. apply wf_text_seq_map. reflexivity.
Qed.

Theorem seq_decode_wf ts tm m : seq_decode pf skip o r ts tm = Ok m -> wf m.
Proof.
  unfold seq_decode, seq_decode_rest. intro H.
  destruct (sloop pf skip o r (S (length ts)) [] [] 0%Z ts tm) as [[[k v] rest]| |] eqn:E; try discriminate H.
  injection H as <-.
  pose proof (sloop_wf _ _ _ _ _ _ _ _ wf_nil_map E) as Hv. cbn [snd] in Hv.
  apply wf_map_intro; [constructor; [intros []|constructor]|constructor; [exact Hv|constructor]].
Qed.
End DecWf.
