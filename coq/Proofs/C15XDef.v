(* C15: the instance of C15_seq_decoded_encodable for the default key prefix '#': whatever the other options are,
   the side conditions hold for every RawToken list whose start-tag names are XML names (non-empty, not beginning
   with '#' - no XML name can). *)
From Mxj Require Import Spec.SeqSpec Proofs.StrLemmas Proofs.C15XSeq Proofs.C15XSeqEnc Proofs.C15XRef.
Import ListNotations.

Definition default_keys (o : opts) : bool :=
  str_eqb (textK o) (s "#text") && str_eqb (seqK o) (s "#seq") && str_eqb (commentK o) (s "#comment") &&
  str_eqb (attrK o) (s "#attr") && str_eqb (directiveK o) (s "#directive") && str_eqb (procinstK o) (s "#procinst") &&
  str_eqb (targetK o) (s "#target") && str_eqb (instK o) (s "#inst").

Definition hash : ascii := "#"%char.
Definition xml_name_ok (nm : xname) : bool :=
  match xfull nm with [] => false | c :: _ => negb (Ascii.eqb c hash) end.
Definition names_ok (ts : list tok) : bool :=
  forallb (fun t => match t with TStart nm _ => xml_name_ok nm | _ => true end) ts.

Lemma default_keys_eq o : default_keys o = true ->
  textK o = s "#text" /\ seqK o = s "#seq" /\ commentK o = s "#comment" /\ attrK o = s "#attr" /\
  directiveK o = s "#directive" /\ procinstK o = s "#procinst" /\ targetK o = s "#target" /\ instK o = s "#inst".
Proof.
  unfold default_keys. intros H.
  repeat (apply andb_true_iff in H; destruct H as [H ?H]).
  repeat match goal with X : str_eqb _ _ = true |- _ => apply str_eqb_eq in X end.
  repeat split; assumption.
Qed.

Lemma default_keys_ok o : default_keys o = true -> seq_keys_ok o = true.
Proof.
  intros H. destruct (default_keys_eq o H) as (E1 & E2 & E3 & E4 & E5 & E6 & E7 & E8).
  unfold seq_keys_ok, is_special_key. rewrite E1, E2, E3, E4, E5, E6, E7, E8. vm_compute. reflexivity.
Qed.

Lemma str_eqb_head_ne c t k : Ascii.eqb c hash = false -> str_eqb (c :: t) (hash :: k) = false.
Proof. intros H. cbn [str_eqb]. rewrite H. reflexivity. Qed.

Lemma snake_head o c t : Ascii.eqb c hash = false ->
  exists c' t', snake o (c :: t) = c' :: t' /\ Ascii.eqb c' hash = false.
Proof.
  intros H. unfold snake. destruct (snakeCaseKeys o).
  - unfold replace_char. cbn [map]. eexists. eexists. split; [reflexivity|].
    destruct (Ascii.eqb c "-"%char); [reflexivity|exact H].
  - exists c, t. split; [reflexivity|exact H].
Qed.

Lemma names_ok_gtok o ts : default_keys o = true -> names_ok ts = true -> forallb (gtok_ok o) ts = true.
Proof.
  intros Hk H. destruct (default_keys_eq o Hk) as (E1 & E2 & E3 & E4 & E5 & E6 & E7 & E8).
  unfold names_ok in H. rewrite forallb_forall in H. apply forallb_forall. intros t Ht. specialize (H t Ht).
  destruct t as [nm a| | | | |]; try reflexivity.
  cbn [gtok_ok]. unfold xml_name_ok in H. destruct (xfull nm) as [|c x]; [discriminate H|].
  apply negb_true_iff in H. destruct (snake_head o c x H) as (c' & t' & -> & Hc).
  unfold gstr_ok, reserved_keys. rewrite E1, E2, E3, E4, E5, E6. cbn [nonempty andb existsb].
  change (s "#text") with (hash :: s "text"). change (s "#seq") with (hash :: s "seq").
  change (s "#attr") with (hash :: s "attr"). change (s "#comment") with (hash :: s "comment").
  change (s "#directive") with (hash :: s "directive"). change (s "#procinst") with (hash :: s "procinst").
  rewrite !(str_eqb_head_ne c' t' _ Hc). reflexivity.
Qed.

(* default key prefix, ANY other option values, any cast flag, every RawToken list with XML names (well nested or not),
   either terminator: what NewMapXmlSeq returns never makes MapSeq.Xml / XmlIndent / BeautifyXml panic *)
Theorem seq_decoded_encodable_default pf skip o r ts tm m :
  default_keys o = true -> names_ok ts = true ->
  seq_decode pf skip o r ts tm = Ok m ->
  seq_encode o m <> Panic /\ seq_encode_indent o m <> Panic.
Proof.
  intros Hk Hn H.
  apply (gseq_decoded_encodable o (default_keys_ok o Hk) pf skip r ts tm m (names_ok_gtok o ts Hk Hn) H).
Qed.

Theorem beautify_no_panic_default pf skip o ts tm :
  default_keys o = true -> names_ok ts = true -> beautify_items pf skip o ts tm <> Panic.
Proof.
  intros Hk Hn. apply beautify_no_panic; [apply default_keys_ok, Hk|apply names_ok_gtok; assumption].
Qed.

Lemma default_examples :
  default_keys opts0 = true /\ default_keys (seq_o true) = true /\ default_keys o_snake_xmpp = true /\
  default_keys o_us = false /\ names_ok ts_mixed = true /\ names_ok w_comment = true.
Proof. vm_compute. repeat split. Qed.
