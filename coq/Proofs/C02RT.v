(* C02, second half: a value of decoder shape ([eshape] / [kshape], Spec/Shape.v) is written
   and read back unchanged (up to the order of map entries): [imgsG] restricted to decoder
   shapes is the identity. *)
From Mxj Require Import Spec.Shape Spec.Img Proofs.StrLemmas Proofs.XmlStr Proofs.XmlItems Proofs.XmlRT
     Proofs.XmlWF Proofs.XmlImgG Proofs.C02Dec.
From Coq Require Import Permutation.

(* ---------------- veqb ---------------- *)
Lemma veqb_refl_scalar v : is_scalar v = true -> veqb v v = true.
Proof.
  destruct v; try discriminate; intros _; cbn [veqb];
    try apply str_eqb_refl; try apply Z.eqb_refl; try reflexivity.
  destruct b; reflexivity.
Qed.

Lemma veqb_map_intro m1 m2 : length m1 = length m2 ->
  Forall (fun e => exists x, lookup (fst e) m2 = Some x /\ veqb (snd e) x = true) m1 ->
  veqb (VMap m1) (VMap m2) = true.
Proof.
  intros Hl HF. cbn [veqb]. rewrite Hl, Nat.eqb_refl. cbn [andb]. clear Hl.
  induction HF as [|[k v] t [x [Hx Hv]] _ IH]; [reflexivity|].
  cbn [fst snd] in *. rewrite Hx, Hv. exact IH.
Qed.

Lemma veqb_list_intro l1 l2 : Forall2 (fun a b => veqb a b = true) l1 l2 -> veqb (VList l1) (VList l2) = true.
Proof.
  cbn [veqb]. induction 1 as [|a b l1 l2 Hab _ IH]; [reflexivity|]. rewrite Hab. exact IH.
Qed.

Lemma NoDup_map_in {A B} (f : A -> B) l : NoDup l ->
  (forall x y, In x l -> In y l -> f x = f y -> x = y) -> NoDup (map f l).
Proof.
  induction 1 as [|a l Ha Hl IH]; intro Hinj; cbn [map]; [constructor|].
  constructor.
  - intro Hin. apply in_map_iff in Hin. destruct Hin as [y [Hy Hin]].
    apply Ha. rewrite (Hinj a y (or_introl eq_refl) (or_intror Hin) (eq_sym Hy)). exact Hin.
  - apply IH. intros x y Hx Hy. apply Hinj; right; assumption.
Qed.

Section RT2.
Variable pf : str -> option flt.
Variable o : opts.
Variable c : bool.
Hypothesis Hs : sym02 o.

Notation imgsG := (imgsG pf o c).
Notation elem_val := (elem_val pf o c).
Notation eshape := (eshape pf o c).
Notation kshape := (kshape pf o c).
Notation text_ok := (text_ok pf o c).
Notation attr_ok := (attr_ok pf o c).
Notation castv := (castv pf o c).

(* ---------------- shapes are in the well-formedness domain ---------------- *)
Lemma text_ok_scalar v : text_ok v -> is_scalar v = true.
Proof. intros [H _]. exact H. Qed.
Lemma attr_ok_scalar v : attr_ok v -> is_scalar v = true.
Proof. intros [raw [H _]]. destruct v; try discriminate H; reflexivity. Qed.

Lemma scalar_wdom v : is_scalar v = true -> raw_okb (text_text o v) = true -> wdom o v = true.
Proof. destruct v; try discriminate; intros _ H; try exact H; reflexivity. Qed.

Lemma entries_of na : Forall (entry_ok pf o c) na -> forall k x, In (k, x) na ->
  (is_attr_key o k = true -> attr_key_ok o k /\ attr_ok x) /\
  (k = textK o -> text_ok x) /\
  (is_elem o k = true -> elem_key_ok o k /\ kshape x).
Proof.
  intros HF k x Hin. rewrite Forall_forall in HF. destruct (HF _ Hin) as [H1 [H2 H3]]. cbn [fst snd] in *.
  split; [exact H1|]. split.
  - intro E. subst k. apply H2; [apply (s2_tk o Hs) | apply str_eqb_refl].
  - intro He. unfold is_elem in He. apply andb_true_iff in He. destruct He as [E1 E2].
    apply negb_true_iff in E1. apply negb_true_iff in E2. apply H3; assumption.
Qed.

Lemma eshape_inv_map na : eshape (VMap na) ->
  na <> [] /\ NoDup (map fst na) /\ (decodeSimpleValuesAsMap o = false -> only_text o na = false) /\
  Forall (entry_ok pf o c) na.
Proof.
  intro H. inversion H as [|v Hsm [Hsc _]|na' H1 H2 H3 H4]; subst; [discriminate Hsc|]. auto.
Qed.
Lemma kshape_inv_list l : kshape (VList l) -> 2 <= length l /\ Forall (fun y => is_list y = false /\ eshape y) l.
Proof. intro H. inversion H as [x Hl _|l' H1 H2]; subst; [discriminate Hl | auto]. Qed.
Lemma kshape_inv_one v : is_list v = false -> kshape v -> eshape v.
Proof. intros Hl H. inversion H as [x _ He|l' H1 H2]; subst; [exact He | discriminate Hl]. Qed.

Lemma esc_nil : esc o [] = [].
Proof. unfold esc. destruct (xmlEscapeChars o); reflexivity. Qed.

Lemma eshape_scalar_wdom v : is_scalar v = true -> eshape v -> wdom o v = true.
Proof.
  intros Hsc He. inversion He as [|v0 _ [_ [Hr _]]|na]; subst.
  - cbn [wdom]. rewrite esc_nil. reflexivity.
  - apply scalar_wdom; assumption.
  - discriminate Hsc.
Qed.

Theorem kshape_wdom : forall v, kshape v -> wdom o v = true.
Proof.
  induction v using value_ind2; intro Hk;
    try (apply eshape_scalar_wdom; [reflexivity | apply kshape_inv_one; [reflexivity | exact Hk]]).
  - rename m into na. apply kshape_inv_one in Hk; [|reflexivity].
    destruct (eshape_inv_map na Hk) as [_ [Hnd [_ HF]]].
    cbn [wdom]. apply andb_true_iff. split; [apply nodup_keys_NoDup, Hnd|].
    apply forallb_forall. intros [k x] Hin. cbn [fst snd].
    destruct (entries_of na HF k x Hin) as [H1 [H2 H3]].
    destruct (is_attr_key o k) eqn:Ek.
    + destruct (H1 eq_refl) as [[_ [Hn _]] [raw [Ha [Hr _]]]]. rewrite Hn. unfold attr_raw_ok. rewrite Ha. exact Hr.
    + destruct (str_eqb k (textK o)) eqn:Et.
      * apply str_eqb_eq in Et. destruct (H2 Et) as [Hsc [Hr _]]. rewrite Hsc, Hr. reflexivity.
      * destruct H3 as [[Hn _] Hx]; [unfold is_elem; rewrite Ek, Et; reflexivity|].
        rewrite Hn. cbn [andb]. rewrite Forall_forall in H. apply (H _ Hin), Hx.
  - destruct (kshape_inv_list l Hk) as [_ HF]. cbn [wdom]. apply forallb_forall. intros y Hin.
    rewrite Forall_forall in H, HF. destruct (HF y Hin) as [Hl He]. apply (H y Hin). apply KS_one; assumption.
Qed.

(* ---------------- scalars ---------------- *)
Lemma imgsG_scalar v key : is_scalar v = true ->
  imgsG v key = [elem_val (xform_key o key) [] (unescape (text_text o v)) []].
Proof. destruct v; try discriminate; intros _; reflexivity. Qed.

Lemma onchar_text K txt A : trim (trimRunes o) txt <> [] ->
  on_chardata pf nskip o c K txt None A =
  if (match A with [] => false | _ => true end) || decodeSimpleValuesAsMap o
  then (None, set (textK o) (castv (dec_str o (trim (trimRunes o) txt))) A)
  else (Some (castv (dec_str o (trim (trimRunes o) txt))), A).
Proof.
  intro Hne. unfold on_chardata.
  change (if xmlEscapeCharsDecoder o then escape_chars (trim (trimRunes o) txt) else trim (trimRunes o) txt)
    with (dec_str o (trim (trimRunes o) txt)).
  pose proof (dec_str_ne o _ Hne) as Hd.
  destruct (dec_str o (trim (trimRunes o) txt)) as [|ch r] eqn:E; [congruence|].
  rewrite !(cast_tag pf o c). reflexivity.
Qed.

Lemma rt_scalar v key : is_scalar v = true -> eshape v -> imgsG v key = [v].
Proof.
  intros Hsc He. rewrite (imgsG_scalar v key Hsc). f_equal. unfold XmlRT.elem_val.
  inversion He as [|v0 Hsm Ht|na]; subst.
  - cbn [text_text]. rewrite esc_nil. change (unescape []) with (@nil ascii).
    rewrite (onchar_nil pf o c). reflexivity.
  - destruct Ht as [_ [_ [Hne Hc]]]. rewrite (onchar_text _ _ [] Hne), Hsm. cbn [orb].
    cbn [add_all fold_left finish_elem]. exact Hc.
  - discriminate Hsc.
Qed.

(* ---------------- the round trip of every shape ---------------- *)
Definition rt_spec (v : value) : Prop :=
  kshape v -> forall key, elem_key_ok o key ->
    imgsG v key <> [] /\ Forall nonlist (imgsG v key) /\ veqb (collapse (imgsG v key)) v = true /\
    (is_list v = false -> exists x, imgsG v key = [x]).

Lemma rt_of_scalar v : is_scalar v = true -> rt_spec v.
Proof.
  intros Hsc Hk key Hkey.
  assert (Hl : is_list v = false) by (destruct v; try discriminate; reflexivity).
  rewrite (rt_scalar v key Hsc (kshape_inv_one v Hl Hk)).
  split; [discriminate|]. split; [constructor; [exact Hl | constructor]|].
  split; [apply veqb_refl_scalar, Hsc | intros _; exists v; reflexivity].
Qed.

Lemma filter_length_nodup_keys {A} (p : str * A -> bool) l : NoDup (map fst l) -> NoDup (map fst (filter p l)).
Proof.
  induction l as [|a l IH]; cbn [filter map]; [constructor|].
  intro H. inversion H as [|? ? Hn Hd]; subst. destruct (p a); [|apply IH, Hd].
  cbn [map]. constructor; [|apply IH, Hd].
  intro Hin. apply Hn. apply in_map_iff in Hin. destruct Hin as [x [Hx Hin]].
  apply filter_In in Hin. apply in_map_iff. exists x. tauto.
Qed.

Theorem rt : forall v, rt_spec v.
Proof.
  induction v using value_ind2; try (apply rt_of_scalar; reflexivity).
  - (* VMap *)
    rename m into na. intros Hk key Hkey.
    apply kshape_inv_one in Hk; [|reflexivity].
    destruct (eshape_inv_map na Hk) as [Hne [Hnd [Hot HF]]].
    pose proof (entries_of na HF) as Hent.
    assert (Hsc : attrs_scalar o na).
    { intros k x Hin Ek. destruct (Hent k x Hin) as [H1 _]. destruct (H1 Ek) as [_ [raw [Ha _]]]. rewrite Ha. discriminate. }
    rewrite (imgsG_map pf o c (s2_tk o Hs) na key Hnd Hsc).
    set (K := xform_key o key).
    (* attributes *)
    set (sa := sort_by_key (attr_pairs o na)).
    assert (Hsa : forall n raw, In (n, raw) sa ->
              exists k x, In (k, x) na /\ is_attr_key o k = true /\ attr_ent pf o c key (n, raw) = (k, x)).
    { intros n raw Hin. apply sort_by_key_in, attr_pairs_in in Hin.
      destruct Hin as [k [x [Hin [Ek [Hsk Ha]]]]]. exists k, x. split; [exact Hin|]. split; [exact Ek|].
      destruct (Hent k x Hin) as [H1 _]. destruct (H1 Ek) as [[_ [_ Hak]] [raw' [Ha' [_ Hc]]]].
      rewrite Ha in Ha'. inversion Ha'; subst raw'. unfold attr_ent. cbn [fst snd].
      rewrite <- Hsk, Hak. f_equal. rewrite (cast_tag pf o c). exact Hc. }
    assert (HA : attr_entries pf nskip o c (map mkattr sa) = map (attr_ent pf o c key) sa).
    { apply aents_map. rewrite <- (map_map fst (attr_key o)). apply NoDup_map_in.
      - apply sort_by_key_nodup, attr_pairs_nodup, Hnd.
      - intros n1 n2 H1 H2 Heq.
        apply in_map_iff in H1. destruct H1 as [[n1' r1] [E1 H1]]. cbn [fst] in E1. subst n1'.
        apply in_map_iff in H2. destruct H2 as [[n2' r2] [E2 H2]]. cbn [fst] in E2. subst n2'.
        apply sort_by_key_in, attr_pairs_in in H1. destruct H1 as [k1 [x1 [Hin1 [Ek1 [Hs1 _]]]]].
        apply sort_by_key_in, attr_pairs_in in H2. destruct H2 as [k2 [x2 [Hin2 [Ek2 [Hs2 _]]]]].
        destruct (Hent k1 x1 Hin1) as [Ha1 _]. destruct (Ha1 Ek1) as [[_ [_ Hak1]] _].
        destruct (Hent k2 x2 Hin2) as [Ha2 _]. destruct (Ha2 Ek2) as [[_ [_ Hak2]] _].
        rewrite <- Hs1, <- Hs2. rewrite <- Hs1, <- Hs2, Hak1, Hak2 in Heq. rewrite Heq. reflexivity. }
    rewrite HA. set (A := map (attr_ent pf o c key) sa).
    assert (HAin : forall e, In e A -> In e na /\ is_attr_key o (fst e) = true).
    { intros e Hin. unfold A in Hin. apply in_map_iff in Hin. destruct Hin as [[n raw] [<- Hin]].
      destruct (Hsa n raw Hin) as [k [x [Hin' [Ek ->]]]]. split; assumption. }
    assert (HAlen : length A = length (filter (is_attr_e o) na)).
    { unfold A. rewrite map_length. unfold sa. rewrite sort_by_key_length. apply attr_pairs_length, Hsc. }
    (* children *)
    set (sk := sort_by_key (filter (is_elem_e o) na)).
    assert (Hsk : forall k x, In (k, x) sk -> In (k, x) na /\ is_elem o k = true).
    { intros k x Hin. apply sort_by_key_in, filter_In in Hin. exact Hin. }
    assert (Hkid : forall k x, In (k, x) sk ->
              elem_key_ok o k /\ imgsG x k <> [] /\ Forall nonlist (imgsG x k) /\ veqb (collapse (imgsG x k)) x = true).
    { intros k x Hin. destruct (Hsk k x Hin) as [Hin' He].
      destruct (Hent k x Hin') as [_ [_ H3]]. destruct (H3 He) as [Hkk Hkx].
      rewrite Forall_forall in H. destruct (H _ Hin' Hkx k Hkk) as [R1 [R2 [R3 _]]]. auto. }
    set (kids := map_kids pf o c na).
    set (C := map (fun kx : str * list value => (fst kx, collapse (snd kx))) kids).
    assert (Hkids : kids = map (fun kv : str * value => (fst kv, imgsG (snd kv) (fst kv))) sk) by reflexivity.
    assert (HCin : forall e, In e C -> exists x, In (fst e, x) na /\ is_elem o (fst e) = true /\ veqb (snd e) x = true).
    { intros e Hin. unfold C in Hin. rewrite Hkids, map_map in Hin. apply in_map_iff in Hin.
      destruct Hin as [[k x] [<- Hin]]. cbn [fst snd]. exists x.
      destruct (Hsk k x Hin) as [Hin' He]. destruct (Hkid k x Hin) as [_ [_ [_ Hv]]]. auto. }
    assert (HClen : length C = length (filter (is_elem_e o) na)).
    { unfold C. rewrite Hkids, !map_length. unfold sk. apply sort_by_key_length. }
    assert (Hadd : forall na0, (forall k, In k (map fst sk) -> lookup k na0 = None) ->
                               add_all (kid_pairs o kids) na0 = na0 ++ C).
    { intros na0 Hfr. apply add_all_kids.
      - rewrite Hkids, map_map. cbn [fst]. apply sort_by_key_nodup, filter_length_nodup_keys, Hnd.
      - intros kx Hin. rewrite Hkids in Hin. apply in_map_iff in Hin. destruct Hin as [[k x] [<- Hin]].
        cbn [fst snd]. destruct (Hkid k x Hin) as [[_ [_ Hxf]] [R1 [R2 _]]]. repeat split; try assumption.
        apply Hfr. apply in_map_iff. exists (k, x). auto. }
    assert (HfA : forall k, In k (map fst sk) -> lookup k A = None).
    { intros k Hin. apply lookup_none_notin. intro HinA.
      apply in_map_iff in Hin. destruct Hin as [[k1 x1] [Hk1 Hin]]. cbn [fst] in Hk1. subst k1.
      destruct (Hsk k x1 Hin) as [_ Hp]. unfold is_elem in Hp. apply andb_true_iff in Hp.
      destruct Hp as [Hp _]. apply negb_true_iff in Hp.
      apply in_map_iff in HinA. destruct HinA as [e [He HinA]]. destruct (HAin e HinA) as [_ Ek]. congruence. }
    assert (Hft : forall k, In k (map fst sk) -> k <> textK o).
    { intros k Hin Heq. apply in_map_iff in Hin. destruct Hin as [[k1 x1] [Hk1 Hin]]. cbn [fst] in Hk1. subst k1.
      destruct (Hsk k x1 Hin) as [_ Hp]. unfold is_elem in Hp. apply andb_true_iff in Hp.
      destruct Hp as [_ Hp]. apply negb_true_iff in Hp. subst k. rewrite str_eqb_refl in Hp. discriminate. }
    assert (HtA : lookup (textK o) A = None).
    { apply lookup_none_notin. intro HinA. apply in_map_iff in HinA. destruct HinA as [e [He HinA]].
      destruct (HAin e HinA) as [_ Ek]. rewrite He, (s2_tk o Hs) in Ek. discriminate. }
    assert (HtC : lookup (textK o) C = None).
    { apply lookup_none_notin. intro Hin. unfold C in Hin. rewrite Hkids, !map_map in Hin. cbn [fst] in Hin.
      exact (Hft _ Hin eq_refl). }
    clearbody A C.
    pose proof (partition3 o na) as Hp3. pose proof (text_count o (s2_tk o Hs) na Hnd) as Htc.
    (* every entry of A and C is an entry of na with an equal value *)
    assert (HAok : Forall (fun e => exists x, lookup (fst e) na = Some x /\ veqb (snd e) x = true) A).
    { apply Forall_forall. intros [k x] Hin. destruct (HAin _ Hin) as [Hin' Ek]. cbn [fst snd] in *.
      exists x. split; [apply lookup_in_nodup; assumption|].
      destruct (Hent k x Hin') as [H1 _]. destruct (H1 Ek) as [_ Hax]. apply veqb_refl_scalar, attr_ok_scalar, Hax. }
    assert (HCok : Forall (fun e => exists x, lookup (fst e) na = Some x /\ veqb (snd e) x = true) C).
    { apply Forall_forall. intros e Hin. destruct (HCin e Hin) as [x [Hin' [_ Hv]]].
      exists x. split; [apply lookup_in_nodup; assumption | exact Hv]. }
    (* the value read back *)
    assert (Hres : exists m', elem_val K A (map_txt o na) (kid_pairs o kids) = VMap m' /\ veqb (VMap m') (VMap na) = true).
    { unfold XmlRT.elem_val, map_txt.
      destruct (lookup (textK o) na) as [tv|] eqn:Et.
      - (* a text entry *)
        assert (Hin : In (textK o, tv) na).
        { apply lookup_in in Et. destruct Et as [k' [E Hin]]. apply str_eqb_eq in E. subst k'. exact Hin. }
        destruct (Hent _ _ Hin) as [_ [H2 _]]. destruct (H2 eq_refl) as [Htsc [_ [Htne Htc']]].
        rewrite (onchar_text K _ A Htne), Htc'.
        assert (Htok : exists x, lookup (textK o) na = Some x /\ veqb tv x = true)
          by (exists tv; split; [exact Et | apply veqb_refl_scalar, Htsc]).
        destruct ((match A with [] => false | _ => true end) || decodeSimpleValuesAsMap o) eqn:Eb.
        + rewrite (set_fresh _ _ _ HtA). rewrite Hadd.
          2:{ intros k Hk0. rewrite lookup_app_other by (apply Hft, Hk0). apply HfA, Hk0. }
          cbn [finish_elem]. destruct ((A ++ [(textK o, tv)]) ++ C) as [|e0 m0] eqn:Em.
          { destruct A; discriminate Em. }
          rewrite <- Em. eexists. split; [reflexivity|]. apply veqb_map_intro.
          * rewrite !app_length. cbn [length]. lia.
          * apply Forall_app. split; [apply Forall_app; split; [exact HAok | constructor; [exact Htok | constructor]] | exact HCok].
        + apply orb_false_iff in Eb. destruct Eb as [EA Hsm].
          assert (EA0 : A = []) by (destruct A; [reflexivity | discriminate EA]). subst A.
          rewrite (Hadd [] (fun _ _ => eq_refl)). cbn [app finish_elem length] in *.
          destruct C as [|c0 C0] eqn:EC.
          { (* no children and no attributes: the map would be the text entry alone *)
            exfalso. cbn [length] in HClen.
            assert (Hl1 : length na = 1) by lia.
            destruct na as [|[k0 x0] [|]]; try discriminate Hl1.
            destruct Hin as [Hin|[]]. inversion Hin; subst k0 x0.
            specialize (Hot Hsm). cbn [only_text] in Hot. rewrite str_eqb_refl in Hot. discriminate. }
          rewrite (set_fresh _ _ _ HtC).
          eexists. split; [reflexivity|]. apply veqb_map_intro.
          * rewrite app_length. cbn [length] in *. lia.
          * apply Forall_app. split; [exact HCok | constructor; [exact Htok | constructor]].
      - (* no text entry *)
        change (unescape []) with (@nil ascii). rewrite (onchar_nil pf o c).
        rewrite (Hadd A HfA). cbn [finish_elem].
        destruct (A ++ C) as [|e0 m0] eqn:Em.
        { exfalso. apply (f_equal (@length _)) in Em. rewrite app_length in Em. cbn [length] in Em.
          destruct na; [congruence | cbn [length] in Hp3; lia]. }
        rewrite <- Em. eexists. split; [reflexivity|]. apply veqb_map_intro.
        * rewrite app_length. lia.
        * apply Forall_app. split; assumption. }
    destruct Hres as [m' [Hm' Hv]]. rewrite Hm'.
    split; [discriminate|]. split; [constructor; [reflexivity | constructor]|].
    split; [exact Hv | intros _; eexists; reflexivity].
  - (* VList *)
    intros Hk key Hkey. destruct (kshape_inv_list l Hk) as [Hlen HF].
    assert (Himg : exists ys, flat_map (fun x => imgsG x key) l = ys /\ Forall nonlist ys /\
                              Forall2 (fun a b => veqb a b = true) ys l).
    { clear Hlen Hk. induction l as [|y l IHl]; [exists []; repeat split; constructor|].
      inversion H as [|? ? Hy Hl]; subst. inversion HF as [|? ? [Hyl Hye] HFl]; subst.
      destruct (IHl Hl HFl) as [ys [Hys [Hnl Hf2]]].
      destruct (Hy (KS_one pf o c y Hyl Hye) key Hkey) as [_ [R2 [R3 R4]]].
      destruct (R4 Hyl) as [y' Hy']. rewrite Hy' in R2, R3. cbn [collapse] in R3.
      exists (y' :: ys). cbn [flat_map]. rewrite Hy', Hys. cbn [app].
      split; [reflexivity|]. split; [constructor; [inversion R2; assumption | exact Hnl] | constructor; assumption]. }
    destruct Himg as [ys [Hys [Hnl Hf2]]].
    assert (Hl2 : length ys = length l) by (clear - Hf2; induction Hf2; cbn [length]; congruence).
    destruct l as [|a l]; [cbn in Hlen; lia|].
    cbn [XmlRT.imgsG]. rewrite Hys.
    split; [destruct ys; [discriminate Hl2 | discriminate]|]. split; [exact Hnl|]. split; [|discriminate].
    destruct ys as [|y1 [|y2 ys]]; cbn [length] in *; try lia.
    cbn [collapse]. apply veqb_list_intro, Hf2.
Qed.

End RT2.
