(* C03: the clauses of the statement as lemmas about [img] itself, and the documented
   error for a non-scalar attribute value. *)
From Mxj Require Import Spec.Items Spec.Img Proofs.StrLemmas Proofs.XmlStr Proofs.XmlRT Proofs.XmlWF.

Section Q.
Variable o : opts.

(* a value that is not a list is written as exactly one element *)
Lemma imgs_single v : is_list v = false -> imgs o v = [img o v].
Proof. destruct v; try discriminate; intros _; reflexivity. Qed.

(* every scalar is rendered as its text (strings trimmed, null empty) *)
Lemma img_scalar v : is_scalar v = true -> img o v = VStr (trimv o (scalar_txt v)).
Proof. destruct v; try discriminate; intros _; reflexivity. Qed.

(* a list is written as repeated elements in list order; a list directly inside is flattened *)
Lemma img_list_flat l : l <> [] -> imgs o (VList l) = flat_map (imgs o) l.
Proof. destruct l; [congruence | reflexivity]. Qed.
Lemma img_list_order l : l <> [] -> Forall (fun x => is_list x = false) l ->
  imgs o (VList l) = map (img o) l.
Proof.
  intros Hne Hl. rewrite (img_list_flat l Hne). clear Hne.
  induction Hl as [|x l Hx _ IH]; [reflexivity|].
  cbn [flat_map map]. rewrite (imgs_single x Hx), IH. reflexivity.
Qed.
(* a one-member list collapses to the member's image, a longer one stays a list *)
Lemma img_list_one x : is_list x = false -> img o (VList [x]) = img o x.
Proof. intro H. unfold img. cbn [imgs flat_map]. rewrite app_nil_r. reflexivity. Qed.
Lemma img_list_many x y l : is_list x = false -> is_list y = false -> Forall (fun z => is_list z = false) l ->
  img o (VList (x :: y :: l)) = VList (img o x :: img o y :: map (img o) l).
Proof.
  intros Hx Hy Hl. unfold img at 1. rewrite img_list_order; [reflexivity | discriminate|].
  constructor; [exact Hx | constructor; [exact Hy | exact Hl]].
Qed.

(* the entries of a map's image *)
Definition A_of (vv : entries) : entries :=
  map (fun nx => (attrPrefix o ++ fst nx, VStr (snd nx))) (sort_by_key (attr_list o vv)).
Definition C_of (vv : entries) : entries :=
  map (fun kx => (fst kx, collapse (snd kx)))
      (sort_by_key (filter (fun kx => is_elem_key o (fst kx)) (map (fun kv => (fst kv, imgs o (snd kv))) vv))).
Definition t_of (vv : entries) : str :=
  match lookup (textK o) vv with Some tv => trimv o (scalar_txt tv) | None => [] end.

Lemma img_map_cases vv :
  img o (VMap vv) =
  match t_of vv with
  | [] => match A_of vv ++ C_of vv with [] => VStr [] | p :: l => VMap (p :: l) end
  | _ :: _ => match A_of vv, C_of vv with
              | [], [] => VStr (t_of vv)
              | [], _ => VMap (C_of vv ++ [(textK o, VStr (t_of vv))])
              | _, _ => VMap (A_of vv ++ (textK o, VStr (t_of vv)) :: C_of vv)
              end
  end.
Proof. reflexivity. Qed.

(* every entry of the three kinds is an entry of the image: nothing is dropped or moved to another parent *)
Lemma img_entries vv e : In e (A_of vv ++ C_of vv) ->
  exists es, img o (VMap vv) = VMap es /\ In e es.
Proof.
  intro Hin. rewrite img_map_cases.
  destruct (t_of vv) as [|ch t].
  - destruct (A_of vv ++ C_of vv) as [|p l] eqn:E; [destruct Hin|]. exists (p :: l). split; [reflexivity | exact Hin].
  - destruct (A_of vv) as [|a A] eqn:EA; destruct (C_of vv) as [|c0 C] eqn:EC.
    + destruct Hin.
    + eexists. split; [reflexivity|]. apply in_or_app. left. exact Hin.
    + eexists. split; [reflexivity|]. rewrite app_nil_r in Hin. apply in_or_app. left. exact Hin.
    + eexists. split; [reflexivity|]. apply in_app_or in Hin. apply in_or_app.
      destruct Hin as [H|H]; [left; exact H | right; right; exact H].
Qed.

(* child entries: same key, the image of the value (a list as the list of its members' images) *)
Lemma img_keys_preserved vv k v : In (k, v) vv -> is_elem_key o k = true ->
  exists es, img o (VMap vv) = VMap es /\ In (k, img o v) es.
Proof.
  intros Hin Hk. apply img_entries. apply in_or_app. right. unfold C_of.
  apply in_map_iff. exists (k, imgs o v). split; [reflexivity|].
  apply sort_by_key_in, filter_In. split; [|exact Hk].
  apply in_map_iff. exists (k, v). split; [reflexivity | exact Hin].
Qed.

(* attribute entries: same key, the text of the scalar, not trimmed *)
Lemma img_attrs_preserved vv k v : In (k, v) vv -> is_attr_key o k = true ->
  exists es, img o (VMap vv) = VMap es /\ In (k, VStr (scalar_txt v)) es.
Proof.
  intros Hin Hk. apply img_entries. apply in_or_app. left. unfold A_of.
  apply in_map_iff. exists (skipn (lenAttrPrefix o) k, scalar_txt v). split.
  - cbn [fst snd]. rewrite <- (attr_key_split o k Hk). reflexivity.
  - apply sort_by_key_in. unfold attr_list. apply in_flat_map. exists (k, v). split; [exact Hin|].
    cbn [fst snd]. rewrite Hk. left. reflexivity.
Qed.

(* the text entry: the element's content; the whole image when nothing else is there *)
Lemma img_text_entry vv tv : lookup (textK o) vv = Some tv -> trimv o (scalar_txt tv) <> [] ->
  (A_of vv = [] /\ C_of vv = [] /\ img o (VMap vv) = VStr (trimv o (scalar_txt tv))) \/
  exists es, img o (VMap vv) = VMap es /\ In (textK o, VStr (trimv o (scalar_txt tv))) es.
Proof.
  intros Hl Hne. rewrite img_map_cases. unfold t_of. rewrite Hl.
  destruct (trimv o (scalar_txt tv)) as [|ch t]; [congruence|].
  destruct (A_of vv) as [|a A]; destruct (C_of vv) as [|c0 C].
  - left. auto.
  - right. eexists. split; [reflexivity|]. apply in_or_app. right. left. reflexivity.
  - right. eexists. split; [reflexivity|]. apply in_or_app. right. left. reflexivity.
  - right. eexists. split; [reflexivity|]. apply in_or_app. right. left. reflexivity.
Qed.

(* ---------------- a non-scalar attribute value is an error ---------------- *)
Lemma attrs_of_err vv k v : In (k, v) vv -> is_attr_key o k = true -> attr_text o v = None ->
  attrs_of o vv = Err EOther.
Proof.
  induction vv as [|[k' v'] t IH]; intros Hin Hk Hv; [destruct Hin|].
  cbn [attrs_of]. destruct Hin as [Heq|Hin].
  - inversion Heq; subst. rewrite Hk, Hv. reflexivity.
  - destruct (is_attr_key o k'); [|apply (IH Hin Hk Hv)].
    destruct (attr_text o v'); [|reflexivity]. rewrite (IH Hin Hk Hv). reflexivity.
Qed.

Lemma attr_nonscalar_err vv k v key : In (k, v) vv -> is_attr_key o k = true -> attr_text o v = None ->
  enc o (VMap vv) key = Err EOther.
Proof. intros Hin Hk Hv. cbn [enc]. rewrite (attrs_of_err vv k v Hin Hk Hv). reflexivity. Qed.

End Q.
