(* C01, part 2: one lemma per clause of the property, ABOUT the specification [conv]. *)
From Mxj Require Import Proofs.StrLemmas Spec.ConvClauses Proofs.C01P Proofs.C01Q.

(* ---- grouping: what is found under a key ---- *)
Definition collect (k : str) (l : list (str * value)) : list value :=
  map snd (filter (fun kv => str_eqb (fst kv) k) l).

Lemma lookup_add_child k' k v m :
  lookup k' (add_child k v m) = if str_eqb k' k then Some (merge (lookup k m) v) else lookup k' m.
Proof. rewrite add_child_merge. apply lookup_set. Qed.

Lemma group_children_cons' kv l m :
  group_children (kv :: l) m = group_children l (add_child (fst kv) (snd kv) m).
Proof. rewrite add_child_ig. reflexivity. Qed.

Lemma lookup_group_none k l m :
  collect k l = [] -> lookup k (group_children l m) = lookup k m.
Proof.
  revert m. induction l as [|[k' v'] l IH]; intros m Hc; [reflexivity|].
  rewrite group_children_cons'. unfold collect in Hc. cbn [filter fst snd] in Hc.
  destruct (str_eqb k' k) eqn:E; [discriminate|].
  rewrite IH by exact Hc. cbn [fst snd]. rewrite lookup_add_child, str_eqb_sym, E. reflexivity.
Qed.

Definition rep (vs : list value) : option value :=
  match vs with [] => None | _ => Some (one_or_list vs) end.

Lemma lookup_group_acc k l : forall m acc,
  Forall (fun kv => is_list (snd kv) = false) l ->
  Forall (fun v => is_list v = false) acc ->
  lookup k m = rep acc ->
  lookup k (group_children l m) = rep (acc ++ collect k l).
Proof.
  induction l as [|[k' v'] l IH]; intros m acc Hl Ha Hm.
  - cbn. rewrite app_nil_r. exact Hm.
  - inversion Hl as [|? ? Hv Hl']; subst. cbn [snd] in Hv.
    rewrite group_children_cons'. cbn [fst snd]. unfold collect. cbn [filter fst].
    destruct (str_eqb k' k) eqn:E.
    + apply str_eqb_eq in E. subst k'. cbn [map snd].
      change (map snd (filter (fun kv => str_eqb (fst kv) k) l)) with (collect k l).
      replace (acc ++ v' :: collect k l) with ((acc ++ [v']) ++ collect k l)
        by (rewrite <- app_assoc; reflexivity).
      apply IH; [exact Hl'|apply Forall_app; split; [exact Ha|constructor; [exact Hv|constructor]]|].
      rewrite lookup_add_child, str_eqb_refl, Hm.
      destruct acc as [|a [|b acc']]; cbn [rep app one_or_list merge]; [reflexivity| |].
      * inversion Ha as [|? ? Hla _]; subst. destruct a; cbn in Hla; try discriminate; reflexivity.
      * reflexivity.
    + change (map snd (filter (fun kv => str_eqb (fst kv) k) l)) with (collect k l).
      apply IH; [exact Hl'|exact Ha|].
      rewrite lookup_add_child, str_eqb_sym, E. exact Hm.
Qed.

Lemma lookup_group_some k l m v vs :
  Forall (fun kv => is_list (snd kv) = false) l ->
  lookup k m = None -> collect k l = v :: vs ->
  lookup k (group_children l m) = Some (one_or_list (v :: vs)).
Proof.
  intros Hl Hm Hc. rewrite (lookup_group_acc k l m [] Hl (Forall_nil _) Hm). cbn [app]. rewrite Hc. reflexivity.
Qed.

Section Clauses.
Variable pf : str -> option flt.
Variable skip : str -> bool.
Variable o : opts.
Variable r : bool.
Notation conv := (conv pf skip o r).
Notation cast := (cast pf skip o).
Notation aents := (map (attr_entry pf skip o r)).

(* ---- the value of an element is never a list ---- *)
Lemma sval_not_list v : sval v = true -> is_list v = false.
Proof. destruct v; cbn; intros H; try discriminate; reflexivity. Qed.

Lemma conv_not_list e : is_list (conv e) = false.
Proof.
  destruct e as [n attrs kids]. rewrite conv_unfold. unfold conv_fin.
  destruct (text_runs o kids); destruct (group_children _ _); try reflexivity.
  destruct (decodeSimpleValuesAsMap o); [reflexivity|]. apply sval_not_list, cast_sval.
Qed.

Lemma wrap_seq_not_list i v : is_list v = false -> is_list (wrap_seq o i v) = false.
Proof. unfold wrap_seq. destruct (includeTagSeqNum o); [|auto]. destruct v; reflexivity. Qed.

Lemma cents_not_list kids : forall i,
  Forall (fun kv => is_list (snd kv) = false) (cents_with o conv kids i).
Proof.
  induction kids as [|[c|x|tk] t IH]; intros i; try (apply IH); [constructor|].
  rewrite cents_elem. constructor; [|apply IH]. cbn [snd]. apply wrap_seq_not_list, conv_not_list.
Qed.

Lemma collect_cents f k kids : forall i,
  collect k (cents_with o f kids i) = child_vals o f k (child_elems kids) i.
Proof.
  induction kids as [|[c|x|tk] t IH]; intros i; try (apply IH); [reflexivity|].
  rewrite cents_elem. cbn [child_elems child_vals]. unfold collect. cbn [filter fst].
  destruct (str_eqb (ekey o c) k); [cbn [map snd]; f_equal|]; apply IH.
Qed.

Lemma lookup_aents_none k attrs :
  existsb (str_eqb k) (akeys o attrs) = false -> lookup k (aents attrs) = None.
Proof.
  intros H. pose proof (has_key_existsb k (aents attrs)) as HK.
  rewrite keys_attr, H in HK. unfold has_key in HK. destruct (lookup k (aents attrs)); [discriminate|reflexivity].
Qed.

(* the entries of an element before the text entry is added *)
Definition ents_of (attrs : list xattr) (kids : list node) : entries :=
  group_children (cents_with o conv kids 0) (aents attrs).

Lemma conv_cases n attrs kids :
  conv (Elem n attrs kids) =
  conv_fin pf skip o r (xform_key o (xlocal n)) (ents_of attrs kids) (text_runs o kids)
           (negb (decodeSimpleValuesAsMap o) && is_nil attrs && text_first o kids).
Proof. apply conv_unfold. Qed.

Lemma group_cents_nil kids : forall i m,
  group_children (cents_with o conv kids i) m = [] -> m = [] /\ child_elems kids = [].
Proof.
  induction kids as [|[c|x|tk] t IH]; intros i m H.
  - cbn in H. split; [exact H|reflexivity].
  - rewrite cents_elem, group_children_cons' in H. apply IH in H as [H _].
    rewrite add_child_merge in H. pose proof (is_nil_set (fst (ekey o c, wrap_seq o i (conv c)))
      (merge (lookup (fst (ekey o c, wrap_seq o i (conv c))) m) (snd (ekey o c, wrap_seq o i (conv c)))) m) as HS.
    rewrite H in HS. discriminate.
  - exact (IH i m H).
  - exact (IH i m H).
Qed.

Lemma ents_of_nil attrs kids :
  ents_of attrs kids = [] <-> attrs = [] /\ child_elems kids = [].
Proof.
  unfold ents_of. split.
  - intros H. apply group_cents_nil in H as [H1 H2]. split; [|exact H2].
    destruct attrs; [reflexivity|discriminate].
  - intros [-> Hc]. cbn [map].
    generalize 0%Z. induction kids as [|[c'|x|tk] t IH]; intros i; cbn [child_elems] in Hc; try discriminate;
      try (exact (IH Hc i)). reflexivity.
Qed.

(* ---- clause: one root key ---- *)
Lemma conv_single_root d :
  conv_doc pf skip o r d = VMap [(ekey o (d_root d), conv (d_root d))].
Proof. unfold conv_doc. destruct (d_root d); reflexivity. Qed.

(* ---- what is found under a key of the Map of an element with entries ---- *)
Lemma conv_map_lookup n attrs kids :
  ents_of attrs kids <> [] ->
  exists m, conv (Elem n attrs kids) = VMap m /\
    forall k, lookup k m =
      match lookup k (ents_of attrs kids) with
      | Some v => Some v
      | None => match text_runs o kids with
                | tx :: _ => if str_eqb k (textK o)
                             then Some (cast tx r (if negb (decodeSimpleValuesAsMap o) && is_nil attrs && text_first o kids
                                                   then xform_key o (xlocal n) else textK o))
                             else None
                | [] => None
                end
      end.
Proof.
  intros Hne. rewrite conv_cases. unfold conv_fin.
  destruct (ents_of attrs kids) as [|e1 E] eqn:EE; [congruence|].
  destruct (text_runs o kids) as [|tx rest].
  - eexists; split; [reflexivity|]. intros k. destruct (lookup k (e1 :: E)); reflexivity.
  - eexists; split; [reflexivity|]. intros k. rewrite lookup_app. cbn [lookup]. reflexivity.
Qed.

Lemma lookup_ents_attr attrs kids k :
  child_vals o conv k (child_elems kids) 0 = [] ->
  lookup k (ents_of attrs kids) = lookup k (aents attrs).
Proof. intros Hc. unfold ents_of. apply lookup_group_none. rewrite collect_cents. exact Hc. Qed.

Lemma lookup_ents_child attrs kids k v vs :
  existsb (str_eqb k) (akeys o attrs) = false ->
  child_vals o conv k (child_elems kids) 0 = v :: vs ->
  lookup k (ents_of attrs kids) = Some (one_or_list (v :: vs)).
Proof.
  intros Ha Hc. unfold ents_of. apply lookup_group_some.
  - apply cents_not_list.
  - apply lookup_aents_none, Ha.
  - rewrite collect_cents. exact Hc.
Qed.

(* ---- clause: each attribute under prefix+name ---- *)
Lemma conv_attr_key n attrs kids a :
  nodup_keys (akeys o attrs) = true -> In a attrs ->
  child_vals o conv (attr_key o (xlocal (aname a))) (child_elems kids) 0 = [] ->
  exists m, conv (Elem n attrs kids) = VMap m /\
            lookup (attr_key o (xlocal (aname a))) m
            = Some (cast (attr_val o a) r (attr_key o (xlocal (aname a)))).
Proof.
  intros Hn Hin Hc.
  assert (Hne : ents_of attrs kids <> []).
  { intros H. apply ents_of_nil in H as [-> _]. destruct Hin. }
  destruct (conv_map_lookup n attrs kids Hne) as (m & Hm & Hk). exists m. split; [exact Hm|].
  rewrite Hk, (lookup_ents_attr attrs kids _ Hc).
  rewrite (lookup_in_nodup (attr_key o (xlocal (aname a))) (cast (attr_val o a) r (attr_key o (xlocal (aname a)))) (aents attrs)).
  - reflexivity.
  - rewrite keys_attr. exact Hn.
  - change (attr_key o (xlocal (aname a)), cast (attr_val o a) r (attr_key o (xlocal (aname a))))
      with (attr_entry pf skip o r a). apply in_map, Hin.
Qed.

(* ---- clauses: each child element under its (transformed) local name; repeated sibling
   names - adjacent or interleaved - collected into one list in document order ---- *)
Lemma conv_children n attrs kids k v vs :
  existsb (str_eqb k) (akeys o attrs) = false ->
  child_vals o conv k (child_elems kids) 0 = v :: vs ->
  exists m, conv (Elem n attrs kids) = VMap m /\ lookup k m = Some (one_or_list (v :: vs)).
Proof.
  intros Ha Hc.
  assert (Hne : ents_of attrs kids <> []).
  { intros H.
    pose proof (lookup_ents_child attrs kids k v vs Ha Hc) as HL. rewrite H in HL. discriminate. }
  destruct (conv_map_lookup n attrs kids Hne) as (m & Hm & Hk). exists m. split; [exact Hm|].
  rewrite Hk, (lookup_ents_child attrs kids k v vs Ha Hc). reflexivity.
Qed.

(* ---- clause: text beside attributes or children under the text key ---- *)
Lemma conv_text_beside n attrs kids tx rest :
  (attrs <> [] \/ child_elems kids <> []) ->
  text_runs o kids = tx :: rest ->
  existsb (str_eqb (textK o)) (akeys o attrs) = false ->
  child_vals o conv (textK o) (child_elems kids) 0 = [] ->
  exists m, conv (Elem n attrs kids) = VMap m /\
            lookup (textK o) m
            = Some (cast tx r (if negb (decodeSimpleValuesAsMap o) && is_nil attrs && text_first o kids
                               then xform_key o (xlocal n) else textK o)).
Proof.
  intros Hor Ht Ha Hc.
  assert (Hne : ents_of attrs kids <> []).
  { intros H. apply ents_of_nil in H as [H1 H2]. destruct Hor; contradiction. }
  destruct (conv_map_lookup n attrs kids Hne) as (m & Hm & Hk). exists m. split; [exact Hm|].
  rewrite Hk, (lookup_ents_attr attrs kids _ Hc), (lookup_aents_none _ _ Ha), Ht, str_eqb_refl. reflexivity.
Qed.

(* ---- no other keys ---- *)
Lemma conv_no_other_key n attrs kids m k :
  conv (Elem n attrs kids) = VMap m ->
  ents_of attrs kids <> [] ->
  existsb (str_eqb k) (akeys o attrs) = false ->
  child_vals o conv k (child_elems kids) 0 = [] ->
  (str_eqb k (textK o) = false \/ text_runs o kids = []) ->
  lookup k m = None.
Proof.
  intros Hm Hne Ha Hc Hor.
  destruct (conv_map_lookup n attrs kids Hne) as (m' & Hm' & Hk).
  rewrite Hm in Hm'. inversion Hm'; subst m'.
  rewrite Hk, (lookup_ents_attr attrs kids _ Hc), (lookup_aents_none _ _ Ha).
  destruct Hor as [H|H]; [rewrite H|rewrite H]; [destruct (text_runs o kids)|]; reflexivity.
Qed.

Lemma conv_no_other_key' n attrs kids m k :
  conv (Elem n attrs kids) = VMap m ->
  (attrs <> [] \/ child_elems kids <> []) ->
  existsb (str_eqb k) (akeys o attrs) = false ->
  child_vals o conv k (child_elems kids) 0 = [] ->
  (str_eqb k (textK o) = false \/ text_runs o kids = []) ->
  lookup k m = None.
Proof.
  intros Hm Hor. apply (conv_no_other_key n attrs kids m k Hm).
  intros H. apply ents_of_nil in H as [H1 H2]. destruct Hor; contradiction.
Qed.

(* an element with attributes or child elements is a Map *)
Lemma conv_is_map n attrs kids :
  (attrs <> [] \/ child_elems kids <> []) -> exists m, conv (Elem n attrs kids) = VMap m.
Proof.
  intros Hor.
  assert (Hne : ents_of attrs kids <> []).
  { intros H. apply ents_of_nil in H as [H1 H2]. destruct Hor; contradiction. }
  destruct (conv_map_lookup n attrs kids Hne) as (m & Hm & _). exists m. exact Hm.
Qed.

(* ---- clauses: a text-only element as its trimmed string (or, under
   DecodeSimpleValuesAsMap, wrapped); an empty element as the empty string ---- *)
Lemma conv_text_only n kids tx rest :
  child_elems kids = [] -> text_runs o kids = tx :: rest ->
  conv (Elem n [] kids) =
  if decodeSimpleValuesAsMap o then VMap [(textK o, cast tx r (textK o))]
  else cast tx r (xform_key o (xlocal n)).
Proof.
  intros Hc Ht. rewrite conv_cases.
  assert (HE : ents_of [] kids = []) by (apply ents_of_nil; split; [reflexivity|exact Hc]).
  rewrite HE, Ht. reflexivity.
Qed.

Lemma conv_empty_elem n kids :
  child_elems kids = [] -> text_runs o kids = [] -> conv (Elem n [] kids) = VStr [].
Proof.
  intros Hc Ht. rewrite conv_cases.
  assert (HE : ents_of [] kids = []) by (apply ents_of_nil; split; [reflexivity|exact Hc]).
  rewrite HE, Ht. reflexivity.
Qed.

(* an element with attributes or children but no text is the Map of exactly those entries *)
Lemma conv_no_text n attrs kids :
  ents_of attrs kids <> [] -> text_runs o kids = [] ->
  conv (Elem n attrs kids) = VMap (ents_of attrs kids).
Proof.
  intros Hne Ht. rewrite conv_cases, Ht. unfold conv_fin. destruct (ents_of attrs kids); [congruence|reflexivity].
Qed.

(* ---- the text of an element: trimmed with the current trim set, escaped under decoder-side escaping ---- *)
Lemma text_val_spec x :
  text_val o x = if xmlEscapeCharsDecoder o then escape_chars (trim (trimRunes o) x) else trim (trimRunes o) x.
Proof. reflexivity. Qed.

Lemma text_runs_single x :
  text_runs o [NText x] = if is_nil (text_val o x) then [] else [text_val o x].
Proof. cbn [text_runs]. destruct (text_val o x); reflexivity. Qed.

(* ---- options: key transformations ---- *)
Lemma xform_key_spec k :
  xform_key o k =
  (if snakeCaseKeys o then replace_char "-"%char "_"%char else fun x => x)
    ((if lowerCase o then to_lower else fun x => x) k).
Proof. unfold xform_key. destruct (snakeCaseKeys o), (lowerCase o); reflexivity. Qed.

Lemma attr_key_spec k :
  attr_key o k =
  attrPrefix o ++ (if lowerCase o then to_lower else fun x => x)
                    ((if snakeCaseKeys o then replace_char "-"%char "_"%char else fun x => x) k).
Proof. unfold attr_key. destruct (snakeCaseKeys o), (lowerCase o); reflexivity. Qed.

(* ---- options: tag sequence numbers ---- *)
Lemma wrap_seq_off i v : includeTagSeqNum o = false -> wrap_seq o i v = v.
Proof. unfold wrap_seq. intros ->. reflexivity. Qed.

Lemma wrap_seq_on i e :
  includeTagSeqNum o = true ->
  wrap_seq o i (conv e) =
  match conv e with
  | VMap m => VMap (set (s "_seq") (VInt i) m)
  | v => VMap [(textK o, v); (s "_seq", VInt i)]
  end.
Proof. unfold wrap_seq. intros ->. destruct (conv e); reflexivity. Qed.

(* ---- cast argument false: only strings ---- *)
Lemma only_str_VMap m : only_str (VMap m) = forallb (fun kv => only_str (snd kv)) m.
Proof. cbn [only_str]. induction m as [|[k v] t IH]; [reflexivity|]. cbn [forallb snd]. rewrite IH. reflexivity. Qed.
Lemma only_str_VList l : only_str (VList l) = forallb only_str l.
Proof. cbn [only_str]. induction l as [|v t IH]; [reflexivity|]. cbn [forallb]. rewrite IH. reflexivity. Qed.

Lemma only_str_set k v m :
  only_str v = true -> forallb (fun kv => only_str (snd kv)) m = true ->
  forallb (fun kv => only_str (snd kv)) (set k v m) = true.
Proof.
  intros Hv. induction m as [|[k0 v0] t IH]; cbn [set forallb snd]; intros Hm.
  - rewrite Hv. reflexivity.
  - apply andb_true_iff in Hm as [H1 H2]. destruct (str_eqb k k0); cbn [forallb snd].
    + rewrite Hv, H2. reflexivity.
    + rewrite H1, IH by exact H2. reflexivity.
Qed.

Lemma only_str_lookup k m v :
  forallb (fun kv => only_str (snd kv)) m = true -> lookup k m = Some v -> only_str v = true.
Proof.
  induction m as [|[k0 v0] t IH]; cbn [lookup forallb snd]; intros Hm Hl; [discriminate|].
  apply andb_true_iff in Hm as [H1 H2]. destruct (str_eqb k k0); [inversion Hl; subst; exact H1|apply IH; assumption].
Qed.

Lemma only_str_add_child k v m :
  only_str v = true -> forallb (fun kv => only_str (snd kv)) m = true ->
  forallb (fun kv => only_str (snd kv)) (add_child k v m) = true.
Proof.
  intros Hv Hm. rewrite add_child_merge. apply only_str_set; [|exact Hm].
  destruct (lookup k m) as [v0|] eqn:El; cbn [merge]; [|exact Hv].
  pose proof (only_str_lookup k m v0 Hm El) as H0.
  destruct v0; try (rewrite only_str_VList; cbn [forallb]; rewrite H0, Hv; reflexivity).
  rewrite only_str_VList in *. rewrite forallb_app. cbn [forallb]. rewrite H0, Hv. reflexivity.
Qed.

End Clauses.

Lemma conv_uncast_only_str pf skip o :
  includeTagSeqNum o = false -> forall e, only_str (conv pf skip o false e) = true.
Proof.
  intros Hs. induction e as [n attrs kids HF] using elem_ind2.
  rewrite conv_unfold. unfold conv_fin.
  assert (HC : forall x t, only_str (cast pf skip o x false t) = true).
  { intros x t. unfold cast. destruct (_ && skip t); reflexivity. }
  assert (HE : forallb (fun kv => only_str (snd kv))
                 (group_children (cents_with o (conv pf skip o false) kids 0) (map (attr_entry pf skip o false) attrs)) = true).
  { assert (HA : forallb (fun kv => only_str (snd kv)) (map (attr_entry pf skip o false) attrs) = true).
    { apply forallb_forall. intros kv Hin. apply in_map_iff in Hin as (a & <- & _). apply HC. }
    revert HA. generalize (map (attr_entry pf skip o false) attrs) as m. generalize 0%Z as i.
    induction HF as [|nd t Hnd HF IH]; intros i m HA; [exact HA|].
    destruct nd as [c|x|tk]; try (apply IH; exact HA).
    rewrite cents_elem, group_children_cons. cbn [fst snd]. apply IH.
    apply only_str_add_child; [|exact HA]. rewrite wrap_seq_off by exact Hs. exact Hnd. }
  destruct (text_runs o kids) as [|tx rest];
    destruct (group_children _ _) as [|e1 E] eqn:EG; try reflexivity.
  - rewrite only_str_VMap. exact HE.
  - destruct (decodeSimpleValuesAsMap o); [|apply HC]. rewrite only_str_VMap. cbn [forallb snd]. rewrite HC. reflexivity.
  - rewrite only_str_VMap, forallb_app, HE. cbn [forallb snd]. rewrite HC. reflexivity.
Qed.

(* ---- outside dom01: what the decoder does with attributes whose keys collide (same local name in two
   namespaces, or names equal after case folding): one entry, the LAST attribute wins ---- *)
Definition find_last {A} (p : A -> bool) (l : list A) : option A := find p (rev l).

Lemma find_app {A} (p : A -> bool) l1 l2 :
  find p (l1 ++ l2) = match find p l1 with Some x => Some x | None => find p l2 end.
Proof. induction l1 as [|a t IH]; cbn [app find]; [reflexivity|]. destruct (p a); [reflexivity|exact IH]. Qed.

Lemma attr_last_wins pf skip o r attrs k :
  lookup k (attr_entries pf skip o r attrs) =
  match find_last (fun a => str_eqb k (attr_key o (xlocal (aname a)))) attrs with
  | Some a => Some (cast pf skip o (attr_val o a) r k)
  | None => None
  end.
Proof.
  unfold attr_entries, find_last.
  assert (G : forall acc,
    lookup k (fold_left (fun na at_ =>
               let key := attr_key o (xlocal (aname at_)) in
               let v := if xmlEscapeCharsDecoder o then escape_chars (avalue at_) else avalue at_ in
               set key (cast pf skip o v r key) na) attrs acc) =
    match find (fun a => str_eqb k (attr_key o (xlocal (aname a)))) (rev attrs) with
    | Some a => Some (cast pf skip o (attr_val o a) r k)
    | None => lookup k acc
    end).
  { induction attrs as [|a t IH]; intros acc; [reflexivity|].
    cbn [fold_left rev]. rewrite IH, find_app. cbn [find].
    destruct (find _ (rev t)) as [x|]; [reflexivity|].
    cbn zeta. rewrite lookup_set.
    destruct (str_eqb k (attr_key o (xlocal (aname a)))) eqn:E; [|reflexivity].
    apply str_eqb_eq in E. subst k. reflexivity. }
  apply (G []).
Qed.
