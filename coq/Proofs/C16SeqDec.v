(* C16, MapSeq part: every MapSeq the sequence decoder (Model/SeqDec.v) returns carries pairwise distinct
   sequence numbers among the sub-elements of each element and among the attributes of each element
   (Spec/SeqDistinct.v distinct_seq); hence a decoded MapSeq is encoded deterministically. *)
From Coq Require Import Permutation Sorting.Sorted.
From Mxj Require Import Spec.SeqDistinct Spec.SeqSpec Spec.Veq Proofs.StrLemmas Proofs.C04Sort Proofs.C04Map
     Proofs.C04Enc Proofs.C04Shape Proofs.C04ShapeDec Proofs.C16P Proofs.C16Veq Proofs.C16Seq Proofs.C16SeqWf.

(* ---------------- what [set] does to a list computed entry by entry ---------------- *)
Lemma flat_map_set {B} (F : str * value -> list B) K w na z :
  (forall k', str_eqb K k' = true -> F (k', w) = z) ->
  exists l1 old l2, flat_map F na = l1 ++ old ++ l2 /\ flat_map F (set K w na) = l1 ++ z ++ l2.
Proof.
  intro H. induction na as [|[k' v'] t IH].
  - exists [], [], []. cbn [set flat_map app]. rewrite (H K (str_eqb_refl K)), app_nil_r. split; reflexivity.
  - cbn [set]. destruct (str_eqb K k') eqn:E.
    + exists [], (F (k', v')), (flat_map F t). cbn [flat_map app]. rewrite (H k' E). split; reflexivity.
    + destruct IH as (l1 & old & l2 & E1 & E2). exists (F (k', v') ++ l1), old, l2.
      cbn [flat_map]. rewrite E1, E2, <- !app_assoc. split; reflexivity.
Qed.

Lemma nodup_drop_middle {B} (l1 old l2 : list B) : NoDup (l1 ++ old ++ l2) -> NoDup (l1 ++ l2).
Proof.
  induction old as [|a t IH]; [intro H; exact H|]. intro H. apply IH.
  cbn [app] in H. exact (NoDup_remove_1 _ _ _ H).
Qed.

(* a fresh, larger number replaces some of the numbers: still bounded and pairwise distinct *)
Lemma replace_bound l1 old l2 (sq : Z) :
  Forall (fun z => (z < sq)%Z) (l1 ++ old ++ l2) -> NoDup (l1 ++ old ++ l2) ->
  Forall (fun z => (z < sq + 1)%Z) (l1 ++ [sq] ++ l2) /\ NoDup (l1 ++ [sq] ++ l2).
Proof.
  intros HF Hnd.
  apply Forall_app in HF. destruct HF as [F1 HF]. apply Forall_app in HF. destruct HF as [_ F2].
  split.
  - apply Forall_app. split; [eapply Forall_impl; [|exact F1]; cbn beta; intros; lia|].
    apply Forall_app. split; [constructor; [cbn beta; lia|constructor]|eapply Forall_impl; [|exact F2]; cbn beta; intros; lia].
  - cbn [app]. eapply Permutation_NoDup; [apply Permutation_middle|].
    constructor; [|apply (nodup_drop_middle l1 old l2 Hnd)].
    intro Hin. apply in_app_or in Hin. rewrite Forall_forall in F1, F2.
    destruct Hin as [Hin|Hin]; [specialize (F1 _ Hin)|specialize (F2 _ Hin)]; lia.
Qed.

Lemma forallb_set {P : str * value -> bool} k v m :
  forallb P m = true -> (forall k', str_eqb k k' = true -> P (k', v) = true) -> forallb P (set k v m) = true.
Proof.
  intros Hm Hv. induction m as [|[k' v'] t IH]; cbn [set forallb].
  - rewrite (Hv k (str_eqb_refl k)). reflexivity.
  - cbn [forallb] in Hm. apply andb_prop in Hm. destruct Hm as [H1 H2].
    destruct (str_eqb k k') eqn:E; cbn [forallb].
    + rewrite (Hv k' E), H2. reflexivity.
    + rewrite H1, (IH H2). reflexivity.
Qed.

Lemma forallb_lookup {P : str * value -> bool} k v m :
  forallb P m = true -> lookup k m = Some v -> P (k, v) = true.
Proof.
  intros Hm Hl. apply lookup_in in Hl. rewrite forallb_forall in Hm. exact (Hm _ Hl).
Qed.

Section DecDistinct.
Variable pf : str -> option flt.
Variable skip : str -> bool.
Variable e : bool.
Variable r : bool.
Notation o := (seq_o e).
Notation dseq := (distinct_seq o).

Definition entry_dok (kx : str * value) : bool := seq_skip_key o (fst kx) || dseq (snd kx) (fst kx).

(* the body of [distinct_seq] for an element *)
Definition map_dok (m : entries) : bool :=
  attrs_distinct o m && nodupZ (kid_seqs o m) && forallb entry_dok m.

Lemma dseq_map k m : is_special_key o k = false -> dseq (VMap m) k = map_dok m.
Proof. intro H. apply distinct_seq_map. exact H. Qed.

(* the element under construction: as above, and every sub-element so far is numbered below [sq] *)
Definition na_ok (na : entries) (sq : Z) : Prop :=
  map_dok na = true /\ Forall (fun z => (z < sq)%Z) (kid_seqs o na).

Lemma kid_seqs_flat m : kid_seqs o m = flat_map (fun kv => map (fun x => seq_num o (snd x)) (unroll1 o kv)) m.
Proof. unfold kid_seqs. change (seq_kids o m) with (unroll o m). unfold unroll. apply map_flat_map. Qed.

Lemma map_dok_parts m :
  map_dok m = true <-> attrs_distinct o m = true /\ NoDup (kid_seqs o m) /\ forallb entry_dok m = true.
Proof.
  unfold map_dok. split.
  - intro H. apply andb_prop in H. destruct H as [H H3]. apply andb_prop in H. destruct H as [H1 H2].
    repeat split; try assumption. apply nodupZ_NoDup. exact H2.
  - intros (H1 & H2 & H3). rewrite H1, H3, (NoDup_nodupZ _ H2). reflexivity.
Qed.

(* a write under "#text" / "#seq" changes nothing that is sorted *)
Lemma map_dok_set_skip K v m :
  seq_skip_key o K = true -> str_eqb (attrK o) K = false -> map_dok m = true -> map_dok (set K v m) = true.
Proof.
  intros Hs Ha H. apply map_dok_parts in H. destruct H as (H1 & H2 & H3). apply map_dok_parts.
  split; [|split].
  - unfold attrs_distinct in *. rewrite (lookup_set_other _ _ _ _ Ha). exact H1.
  - unfold kid_seqs in *. change (seq_kids o (set K v m)) with (unroll o (set K v m)).
    rewrite (unroll_set_skipped o K v m Hs). exact H2.
  - apply forallb_set; [exact H3|]. intros k' E. apply str_eqb_eq in E. subst k'.
    unfold entry_dok. cbn [fst]. rewrite Hs. reflexivity.
Qed.

Lemma kid_seqs_set_skip K v m : seq_skip_key o K = true -> kid_seqs o (set K v m) = kid_seqs o m.
Proof.
  intro Hs. unfold kid_seqs. change (seq_kids o (set K v m)) with (unroll o (set K v m)).
  rewrite (unroll_set_skipped o K v m Hs). reflexivity.
Qed.

Lemma na_ok_set_skip K v na sq sq' :
  seq_skip_key o K = true -> str_eqb (attrK o) K = false -> (sq <= sq')%Z ->
  na_ok na sq -> na_ok (set K v na) sq'.
Proof.
  intros Hs Ha Hle [H1 H2]. split; [apply map_dok_set_skip; assumption|].
  rewrite (kid_seqs_set_skip K v na Hs). eapply Forall_impl; [|exact H2]. cbn beta; intros; lia.
Qed.

(* a write of a value numbered [sq] under a key that is a sub-element key *)
Lemma na_ok_set_kid K w na sq :
  seq_skip_key o K = false -> str_eqb (attrK o) K = false ->
  is_list w = false -> seq_num o w = sq -> dseq w K = true ->
  na_ok na sq -> na_ok (set K w na) (sq + 1).
Proof.
  intros Hs Ha Hl Hn Hd [H1 H2]. apply map_dok_parts in H1. destruct H1 as (A1 & A2 & A3).
  destruct (flat_map_set (fun kv => map (fun x => seq_num o (snd x)) (unroll1 o kv)) K w na [sq])
    as (l1 & old & l2 & E1 & E2).
  { intros k' E. apply str_eqb_eq in E. subst k'. unfold unroll1. cbn [fst snd].
    change (skipk o K) with (seq_skip_key o K). rewrite Hs.
    destruct w; try discriminate Hl; cbn [map snd]; rewrite Hn; reflexivity. }
  rewrite <- !kid_seqs_flat in E1, E2. rewrite E1 in A2, H2.
  destruct (replace_bound l1 old l2 sq H2 A2) as [B1 B2].
  split; [apply map_dok_parts; split; [|split]|].
  - unfold attrs_distinct in *. rewrite (lookup_set_other _ _ _ _ Ha). exact A1.
  - rewrite E2. exact B2.
  - apply forallb_set; [exact A3|]. intros k' E. apply str_eqb_eq in E. subst k'.
    unfold entry_dok. cbn [fst snd]. rewrite Hd. apply Bool.orb_true_r.
  - rewrite E2. exact B1.
Qed.

Lemma dseq_list k l : dseq (VList l) k = forallb (fun x => dseq x k) l.
Proof. apply distinct_seq_list. Qed.

(* a decoded child numbered [sq] is added (appended to the list of its name when the name repeats) *)
Lemma na_ok_add_child k v na sq :
  str_ok e k = true -> is_list v = false -> seq_num o v = sq -> dseq v k = true ->
  na_ok na sq -> na_ok (add_child k v na) (sq + 1).
Proof.
  intros Hk Hl Hn Hd [H1 H2]. destruct (str_ok_keys e k Hk) as (_ & _ & Hsk & Hak).
  change (skipk o k) with (seq_skip_key o k) in Hsk.
  apply map_dok_parts in H1. destruct H1 as (A1 & A2 & A3).
  assert (P : Permutation (kid_seqs o (add_child k v na)) (kid_seqs o na ++ [sq])).
  { unfold kid_seqs. change (seq_kids o (add_child k v na)) with (unroll o (add_child k v na)).
    rewrite (unroll_add_child o k v na Hsk Hl). rewrite map_app. cbn [map snd]. rewrite Hn. reflexivity. }
  rewrite Forall_forall in H2.
  split; [apply map_dok_parts; split; [|split]|].
  - unfold attrs_distinct in *. rewrite (lookup_add_child_other _ _ _ _ Hak). exact A1.
  - eapply Permutation_NoDup; [symmetry; exact P|].
    eapply Permutation_NoDup; [apply Permutation_cons_append|].
    constructor; [|exact A2]. intro Hin. specialize (H2 _ Hin). lia.
  - unfold add_child. destruct (lookup k na) as [v0|] eqn:El.
    + pose proof (forallb_lookup k v0 na A3 El) as H0. unfold entry_dok in H0. cbn [fst snd] in H0.
      rewrite Hsk in H0. cbn [orb] in H0.
      assert (G : forall w, dseq w k = true -> forallb entry_dok (set k w na) = true).
      { intros w Hw. apply forallb_set; [exact A3|]. intros k' E. apply str_eqb_eq in E. subst k'.
        unfold entry_dok. cbn [fst snd]. rewrite Hw. apply Bool.orb_true_r. }
      destruct v0 as [x|b| |z|z|z|f|x|m'|l'];
        try (apply G; rewrite dseq_list; cbn [forallb]; rewrite H0, Hd; reflexivity).
      apply G. rewrite dseq_list in *. rewrite forallb_app, H0. cbn [forallb]. rewrite Hd. reflexivity.
    + apply forallb_set; [exact A3|]. intros k' E. apply str_eqb_eq in E. subst k'.
      unfold entry_dok. cbn [fst snd]. rewrite Hd. apply Bool.orb_true_r.
  - apply Forall_forall. intros z Hz. apply (Permutation_in _ P) in Hz. apply in_app_or in Hz.
    destruct Hz as [Hz|[<-|[]]]; [specialize (H2 _ Hz)|]; lia.
Qed.

(* ---------------- the values the decoder numbers ---------------- *)
Lemma seq_num_text_seq_map v i : seq_num o (text_seq_map o v i) = i.
Proof. unfold text_seq_map. cbn [seq_num]. rewrite lookup_set_same. reflexivity. Qed.

Lemma dseq_text_seq_map v i k : dseq (text_seq_map o v i) k = true.
Proof.
  unfold text_seq_map. cbn [distinct_seq]. destruct (is_special_key o k); reflexivity.
Qed.

(* ---------------- the attribute map ---------------- *)
Lemma attr_seqs_flat aa : attr_seqs o aa = flat_map (fun kv => [seq_num o (snd kv)]) aa.
Proof. unfold attr_seqs. induction aa as [|x t IH]; [reflexivity|]. cbn [map flat_map app]. rewrite IH. reflexivity. Qed.

Lemma attr_fold_distinct a : forall st,
  Forall (fun z => (z < fst st)%Z) (attr_seqs o (snd st)) -> NoDup (attr_seqs o (snd st)) ->
  NoDup (attr_seqs o (snd (fold_left (seq_attr_step pf skip o r) a st))).
Proof.
  induction a as [|at_ t IH]; intros [i aa] HF Hnd; [exact Hnd|].
  cbn [fold_left]. cbn [fst snd] in HF, Hnd.
  unfold seq_attr_step at 2.
  set (key := full_name (xspace (aname at_)) (snake o (xlocal (aname at_)))).
  set (w := text_seq_map o (cast pf skip o (if xmlEscapeCharsDecoder o then escape_chars (avalue at_) else avalue at_) r []) i).
  destruct (flat_map_set (fun kv => [seq_num o (snd kv)]) key w aa [i]) as (l1 & old & l2 & E1 & E2).
  { intros k' _. cbn [snd]. unfold w. rewrite seq_num_text_seq_map. reflexivity. }
  rewrite <- !attr_seqs_flat in E1, E2. rewrite E1 in HF, Hnd.
  destruct (replace_bound l1 old l2 i HF Hnd) as [B1 B2].
  apply IH; cbn [fst snd]; rewrite E2; assumption.
Qed.

Lemma attr_entries_distinct a : nodupZ (attr_seqs o (seq_attr_entries pf skip o r a)) = true.
Proof.
  apply NoDup_nodupZ. unfold seq_attr_entries.
  apply (attr_fold_distinct a (0%Z, [])); cbn [fst snd attr_seqs map]; constructor.
Qed.

Lemma na_ok_init a : na_ok (seq_init_na pf skip o r a) 0.
Proof.
  unfold seq_init_na. destruct a as [|at_ t]; [split; [reflexivity|constructor]|].
  change (set (attrK o) (VMap (seq_attr_entries pf skip o r (at_ :: t))) [])
    with [(attrK o, VMap (seq_attr_entries pf skip o r (at_ :: t)))].
  split; [|constructor].
  unfold map_dok, attrs_distinct. cbn [lookup]. rewrite str_eqb_refl.
  rewrite attr_entries_distinct. reflexivity.
Qed.

(* ---------------- the token loop ---------------- *)
(* a value an activation returns: a map or the empty string, of the distinct-numbers shape for its key *)
Definition val_ok (v : value) (k : str) : Prop := dseq v k = true /\ (is_map v = true \/ v = VStr []).

Lemma inject_ok k v sq :
  str_ok e k = true -> val_ok v k ->
  let v' := fst (seq_inject o v sq) in
  snd (seq_inject o v sq) = (sq + 1)%Z /\ is_list v' = false /\ seq_num o v' = sq /\ dseq v' k = true.
Proof.
  intros Hk [Hd Hs]. destruct (str_ok_keys e k Hk) as (_ & Hsp & _ & _).
  destruct Hs as [Hm| ->].
  - destruct v as [x|b| |z|z|z|f|x|m|l]; try discriminate Hm. cbn [seq_inject fst snd].
    split; [reflexivity|]. split; [reflexivity|]. split.
    + cbn [seq_num]. rewrite lookup_set_same. reflexivity.
    + rewrite (dseq_map k m Hsp) in Hd. rewrite (dseq_map k _ Hsp). apply map_dok_set_skip; [reflexivity|reflexivity|exact Hd].
  - cbn [seq_inject fst snd]. split; [reflexivity|]. split; [reflexivity|].
    split; [apply seq_num_text_seq_map | apply dseq_text_seq_map].
Qed.

Lemma sloop_distinct fuel : forall skey na sq ts tm kv rest,
  forallb (tok_ok e) ts = true ->
  (skey = [] \/ str_ok e skey = true) ->
  na_ok na sq ->
  sloop pf skip o r fuel skey na sq ts tm = Ok (kv, rest) ->
  str_ok e (fst kv) = true /\ val_ok (snd kv) (fst kv) /\ forallb (tok_ok e) rest = true.
Proof.
  induction fuel as [|f IH]; intros skey na sq ts tm kv rest Hts Hsk Hna H; [discriminate H|].
  destruct ts as [|t ts']; [cbn [sloop] in H; destruct tm; discriminate H|].
  cbn [forallb] in Hts. apply andb_true_iff in Hts. destruct Hts as [Ht Hts'].
  destruct t as [nm a|nm|x|x|tg i|x].
  - (* start tag *)
    cbn [tok_ok] in Ht. destruct (str_ok_keys e _ Ht) as (Hne & _ & _ & _).
    cbn [sloop] in H. unfold snake in H. cbn [snakeCaseKeys handleXMPPStreamTag seq_o opts0 andb] in H.
    rewrite Hne in H.
    destruct skey as [|c k].
    + apply (IH _ _ _ _ _ _ _ Hts' (or_intror Ht) (na_ok_init a) H).
    + destruct (sloop pf skip o r f (xfull nm) (seq_init_na pf skip o r a) 0%Z ts' tm) as [[[key val] rest1]| |] eqn:Ec;
        try discriminate H.
      destruct (IH _ _ _ _ _ _ _ Hts' (or_intror Ht) (na_ok_init a) Ec) as (K1 & K2 & K3).
      cbn [fst snd] in K1, K2.
      destruct (inject_ok key val sq K1 K2) as (J1 & J2 & J3 & J4).
      destruct (seq_inject o val sq) as [val' seq'] eqn:Ei. cbn [fst snd] in J1, J2, J3, J4. subst seq'.
      apply (IH _ _ _ _ _ _ _ K3 Hsk (na_ok_add_child key val' na sq K1 J2 J3 J4 Hna) H).
  - (* end tag *)
    cbn [sloop] in H. destruct skey as [|c k]; [discriminate H|].
    destruct (negb (str_eqb (c :: k) (full_name (xspace nm) (snake o (xlocal nm))))); [discriminate H|].
    injection H as <- <-. cbn [fst snd].
    destruct Hsk as [Hsk|Hsk]; [discriminate Hsk|].
    split; [exact Hsk|]. split; [|exact Hts'].
    destruct na as [|p l]; [split; [reflexivity|right; reflexivity]|].
    destruct (str_ok_keys e _ Hsk) as (_ & Hsp & _ & _).
    split; [|left; reflexivity]. rewrite (dseq_map _ _ Hsp). exact (proj1 Hna).
  - (* character data *)
    cbn [sloop] in H. destruct skey as [|c k].
    + apply (IH _ _ _ _ _ _ _ Hts' Hsk Hna H).
    + match type of H with (if ?b then _ else _) = _ => destruct b end.
      * refine (IH _ _ _ _ _ _ _ Hts' Hsk _ H).
        apply (na_ok_set_skip _ _ _ sq); [reflexivity|reflexivity|lia|].
        apply (na_ok_set_skip _ _ _ sq); [reflexivity|reflexivity|lia|exact Hna].
      * apply (IH _ _ _ _ _ _ _ Hts' Hsk Hna H).
  - (* comment *)
    cbn [sloop] in H. destruct skey as [|c k]; [discriminate H|].
    refine (IH _ _ _ _ _ _ _ Hts' Hsk _ H).
    apply na_ok_set_kid; [reflexivity|reflexivity|reflexivity|apply seq_num_text_seq_map|apply dseq_text_seq_map|exact Hna].
  - (* processing instruction *)
    cbn [sloop] in H. destruct skey as [|c k]; [discriminate H|].
    refine (IH _ _ _ _ _ _ _ Hts' Hsk _ H).
    apply na_ok_set_kid; [reflexivity|reflexivity|reflexivity| |reflexivity|exact Hna].
    cbn [seq_num]. rewrite lookup_set_same. reflexivity.
  - (* directive *)
    cbn [sloop] in H. destruct skey as [|c k]; [discriminate H|].
    refine (IH _ _ _ _ _ _ _ Hts' Hsk _ H).
    apply na_ok_set_kid; [reflexivity|reflexivity|reflexivity|apply seq_num_text_seq_map|apply dseq_text_seq_map|exact Hna].
Qed.

(* NewMapXmlSeq: every Map it returns is a singleton that meets the side condition of the determinism
   theorem, for every root tag argument of MapSeq.Xml / MapSeq.XmlIndent *)
Theorem seq_decode_distinct ts tm m :
  forallb (tok_ok e) ts = true ->
  seq_decode pf skip o r ts tm = Ok m ->
  exists k v, m = VMap [(k, v)] /\ str_ok e k = true /\ forall root, distinct_seq_doc o [(k, v)] root = true.
Proof.
  intros Hts H. unfold seq_decode, seq_decode_rest in H.
  destruct (sloop pf skip o r (S (length ts)) [] [] 0%Z ts tm) as [[[k v] rest]| |] eqn:E; try discriminate H.
  injection H as <-.
  assert (N0 : na_ok [] 0) by (split; [reflexivity|constructor]).
  destruct (sloop_distinct (S (length ts)) [] [] 0%Z ts tm (k, v) rest Hts (or_introl eq_refl) N0 E) as (K1 & [K2 K3] & _).
  cbn [fst snd] in K1, K2, K3.
  exists k, v. split; [reflexivity|]. split; [exact K1|].
  destruct (str_ok_keys e k K1) as (_ & _ & Hs & Ha). change (skipk o k) with (seq_skip_key o k) in Hs.
  assert (M : map_dok [(k, v)] = true).
  { apply map_dok_parts. split; [|split].
    - unfold attrs_distinct. cbn [lookup]. rewrite Ha. reflexivity.
    - rewrite kid_seqs_flat. cbn [flat_map]. unfold unroll1. cbn [fst snd]. change (skipk o k) with (seq_skip_key o k).
      rewrite Hs, app_nil_r.
      destruct K3 as [Hm| ->]; [destruct v; try discriminate Hm|]; cbn [map]; repeat constructor; intros [].
    - cbn [forallb]. unfold entry_dok. cbn [fst snd]. rewrite K2, Bool.orb_true_r. reflexivity. }
  intros [rt|]; unfold distinct_seq_doc.
  - destruct (is_special_key o rt) eqn:Esp; [cbn [distinct_seq]; rewrite Esp; reflexivity|].
    rewrite (dseq_map rt _ Esp). exact M.
  - rewrite K2, Bool.andb_true_r. rewrite (dseq_map default_root _ eq_refl). exact M.
Qed.

(* hence: whatever the order of the entry lists (at every depth) of a decoded MapSeq, MapSeq.Xml and
   MapSeq.XmlIndent write the same items *)
Theorem seq_decoded_deterministic ts tm m m' root :
  forallb (tok_ok e) ts = true ->
  seq_decode pf skip o r ts tm = Ok (VMap m) ->
  veq (VMap m) (VMap m') ->
  seq_xml_items o m' root = seq_xml_items o m root /\
  seq_xml_indent_items o m' root = seq_xml_indent_items o m root.
Proof.
  intros Hts H Hveq.
  pose proof (seq_decode_wf pf skip o r ts tm _ H) as Hwf.
  destruct (seq_decode_distinct ts tm _ Hts H) as (k & v & Em & _ & Hd). injection Em as ->.
  split; symmetry.
  - apply seq_xml_items_perm_invariant; [exact Hwf|exact Hveq|apply Hd].
  - apply seq_xml_indent_items_perm_invariant; [exact Hwf|exact Hveq|apply Hd].
Qed.
End DecDistinct.
