(* C20: x2j-wrapper.PathForKeyShortest is a shortest member of Map.PathsForKey for EVERY Map,
   although x2j-wrapper.PathsForKey is wrong for nested occurrences: the crumb mutation only
   lengthens the crumbs of occurrences below a map that has the key; the outermost occurrences
   ([top_paths]) keep the core's crumbs and are the only candidates for "shortest". *)
From Mxj Require Import Model.X2jWrap Spec.KeySearch Spec.Wrappers Proofs.StrLemmas Proofs.C08P Proofs.C20P.

(* ---- segment counts of crumbs ---- *)
Lemma split1_aux_len c : forall x cur rest,
  length (split1_aux c (x ++ c :: rest) cur) = length (split1_aux c x cur) + length (split1_aux c rest []).
Proof.
  induction x as [|a x IH]; intros cur rest; cbn [app split1_aux].
  - rewrite ascii_eqb_refl. reflexivity.
  - destruct (Ascii.eqb a c); cbn [length]; rewrite IH; reflexivity.
Qed.

Definition seglen (c : str) : nat := match c with [] => 0 | _ => path_len c end.

Lemma path_len_pos p : 1 <= path_len p.
Proof.
  unfold path_len. pose proof (split1_nonempty dot p) as H. destruct (split1 dot p); [congruence|cbn; lia].
Qed.

Lemma path_len_crumb c x : path_len (crumb c x) = seglen c + path_len x.
Proof.
  destruct c as [|a c']; [reflexivity|].
  unfold crumb, seglen, path_len, split1, sdot. cbn [app].
  change (a :: c' ++ dot :: x) with ((a :: c') ++ dot :: x). apply split1_aux_len.
Qed.

Lemma crumb_nonempty c x : x <> [] -> crumb c x <> [].
Proof. intros Hx. destruct c; cbn; [exact Hx|discriminate]. Qed.

Lemma seglen_crumb c x : x <> [] -> seglen (crumb c x) = seglen c + path_len x.
Proof.
  intros Hx. pose proof (crumb_nonempty c x Hx) as Hn. rewrite <- path_len_crumb.
  unfold seglen. destruct (crumb c x); [congruence|reflexivity].
Qed.

(* ---- facts about no_empty_key ---- *)
Lemma nek_entry vv kv : no_empty_key (VMap vv) = true -> In kv vv -> fst kv <> [] /\ no_empty_key (snd kv) = true.
Proof.
  cbn [no_empty_key]. intros H Hin. apply andb_true_iff in H as [H1 H2]. split.
  - pose proof (forallb_in _ _ _ H1 Hin) as E. destruct kv as [k0 v0]. cbn [fst] in *. destruct k0; [discriminate E|discriminate].
  - exact (forallb_in _ _ _ H2 Hin).
Qed.
Lemma nek_member l x : no_empty_key (VList l) = true -> In x l -> no_empty_key x = true.
Proof. cbn [no_empty_key]. intros H Hin. exact (forallb_in _ _ _ H Hin). Qed.

Section Shortest.
Variable k : str.
Hypothesis Hk : k <> [].

(* every crumb produced below prefix c has at least seglen c + path_len k segments *)
Lemma core_len : forall m c q,
  no_empty_key m = true -> In q (has_key_path c m k) -> seglen c + path_len k <= path_len q.
Proof.
  induction m as [| | | | | | | |vv IH|l IH] using value_ind2; intros c q Hn Hq; try contradiction.
  - cbn [has_key_path] in Hq. apply in_app_or in Hq as [Hq|Hq].
    + destruct (has_key k vv); [|contradiction]. destruct Hq as [<-|[]]. rewrite path_len_crumb. lia.
    + apply in_flat_map in Hq as [kv [Hin Hq]]. destruct (nek_entry vv kv Hn Hin) as [Hf Hs].
      rewrite Forall_forall in IH. specialize (IH kv Hin _ _ Hs Hq).
      rewrite (seglen_crumb c (fst kv) Hf) in IH. lia.
  - cbn [has_key_path] in Hq. apply in_flat_map in Hq as [x [Hin Hq]].
    rewrite Forall_forall in IH. exact (IH x Hin _ _ (nek_member l x Hn Hin) Hq).
Qed.

Lemma xw_len : forall m c q,
  no_empty_key m = true -> In q (xw_has_key_path c m k) -> seglen c + path_len k <= path_len q.
Proof.
  induction m as [| | | | | | | |vv IH|l IH] using value_ind2; intros c q Hn Hq; try contradiction.
  - cbn [xw_has_key_path] in Hq. apply in_app_or in Hq as [Hq|Hq].
    + destruct (has_key k vv); [|contradiction]. destruct Hq as [<-|[]]. rewrite path_len_crumb. lia.
    + apply in_flat_map in Hq as [kv [Hin Hq]]. destruct (nek_entry vv kv Hn Hin) as [Hf Hs].
      rewrite Forall_forall in IH. specialize (IH kv Hin _ _ Hs Hq).
      rewrite (seglen_crumb _ (fst kv) Hf) in IH.
      destruct (has_key k vv); [rewrite (seglen_crumb c k Hk) in IH|]; lia.
  - cbn [xw_has_key_path] in Hq. apply in_flat_map in Hq as [x [Hin Hq]].
    rewrite Forall_forall in IH. exact (IH x Hin _ _ (nek_member l x Hn Hin) Hq).
Qed.

(* the outermost occurrences *)
Fixpoint top_paths (c : str) (iv : value) : list str :=
  match iv with
  | VMap vv => if has_key k vv then [crumb c k]
               else flat_map (fun kv => top_paths (crumb c (fst kv)) (snd kv)) vv
  | VList l => flat_map (fun v => top_paths c v) l
  | _ => []
  end.

Lemma top_in_both : forall m c q,
  In q (top_paths c m) -> In q (has_key_path c m k) /\ In q (xw_has_key_path c m k).
Proof.
  induction m as [| | | | | | | |vv IH|l IH] using value_ind2; intros c q Hq; try contradiction.
  - cbn [top_paths] in Hq. cbn [has_key_path xw_has_key_path]. destruct (has_key k vv).
    + split; apply in_or_app; left; exact Hq.
    + apply in_flat_map in Hq as [kv [Hin Hq]]. rewrite Forall_forall in IH.
      destruct (IH kv Hin _ _ Hq) as [H1 H2].
      split; apply in_or_app; right; apply in_flat_map; exists kv; split; assumption.
  - cbn [top_paths] in Hq. cbn [has_key_path xw_has_key_path].
    apply in_flat_map in Hq as [x [Hin Hq]]. rewrite Forall_forall in IH.
    destruct (IH x Hin _ _ Hq) as [H1 H2].
    split; apply in_flat_map; exists x; split; assumption.
Qed.

Lemma core_above_top : forall m c q,
  no_empty_key m = true -> In q (has_key_path c m k) ->
  exists t, In t (top_paths c m) /\ path_len t <= path_len q.
Proof.
  induction m as [| | | | | | | |vv IH|l IH] using value_ind2; intros c q Hn Hq; try contradiction.
  - cbn [has_key_path] in Hq. cbn [top_paths]. destruct (has_key k vv) eqn:Eh.
    + exists (crumb c k). split; [left; reflexivity|].
      apply in_app_or in Hq as [[<-|[]]|Hq]; [lia|].
      apply in_flat_map in Hq as [kv [Hin Hq]]. destruct (nek_entry vv kv Hn Hin) as [Hf Hs].
      pose proof (core_len (snd kv) _ q Hs Hq) as L. rewrite (seglen_crumb c (fst kv) Hf) in L.
      rewrite path_len_crumb. lia.
    + cbn [app] in Hq. apply in_flat_map in Hq as [kv [Hin Hq]]. destruct (nek_entry vv kv Hn Hin) as [Hf Hs].
      rewrite Forall_forall in IH. destruct (IH kv Hin _ _ Hs Hq) as [t [Ht L]].
      exists t. split; [apply in_flat_map; exists kv; split; assumption|exact L].
  - cbn [has_key_path] in Hq. cbn [top_paths]. apply in_flat_map in Hq as [x [Hin Hq]].
    rewrite Forall_forall in IH. destruct (IH x Hin _ _ (nek_member l x Hn Hin) Hq) as [t [Ht L]].
    exists t. split; [apply in_flat_map; exists x; split; assumption|exact L].
Qed.

Lemma xw_above_top : forall m c q,
  no_empty_key m = true -> In q (xw_has_key_path c m k) ->
  exists t, In t (top_paths c m) /\ (q = t \/ path_len t < path_len q).
Proof.
  induction m as [| | | | | | | |vv IH|l IH] using value_ind2; intros c q Hn Hq; try contradiction.
  - cbn [xw_has_key_path] in Hq. cbn [top_paths]. destruct (has_key k vv) eqn:Eh.
    + exists (crumb c k). split; [left; reflexivity|].
      apply in_app_or in Hq as [[<-|[]]|Hq]; [left; reflexivity|right].
      apply in_flat_map in Hq as [kv [Hin Hq]]. destruct (nek_entry vv kv Hn Hin) as [Hf Hs].
      pose proof (xw_len (snd kv) _ q Hs Hq) as L.
      rewrite (seglen_crumb _ (fst kv) Hf), (seglen_crumb c k Hk) in L.
      rewrite path_len_crumb. pose proof (path_len_pos (fst kv)). pose proof (path_len_pos k). lia.
    + cbn [app] in Hq. apply in_flat_map in Hq as [kv [Hin Hq]]. destruct (nek_entry vv kv Hn Hin) as [Hf Hs].
      rewrite Forall_forall in IH. destruct (IH kv Hin _ _ Hs Hq) as [t [Ht L]].
      exists t. split; [apply in_flat_map; exists kv; split; assumption|exact L].
  - cbn [xw_has_key_path] in Hq. cbn [top_paths]. apply in_flat_map in Hq as [x [Hin Hq]].
    rewrite Forall_forall in IH. destruct (IH x Hin _ _ (nek_member l x Hn Hin) Hq) as [t [Ht L]].
    exists t. split; [apply in_flat_map; exists x; split; assumption|exact L].
Qed.

Theorem xw_shortest_valid m :
  no_empty_key m = true ->
  (paths_for_key m k = [] -> xw_path_for_key_shortest m k = []) /\
  (paths_for_key m k <> [] ->
   In (xw_path_for_key_shortest m k) (paths_for_key m k) /\
   forall p, In p (paths_for_key m k) -> path_len (xw_path_for_key_shortest m k) <= path_len p).
Proof.
  intros Hn. rewrite xw_shortest_spec. unfold paths_for_key, xw_paths_for_key.
  set (C := has_key_path [] m k). set (X := xw_has_key_path [] m k).
  assert (TX : forall t, In t (top_paths [] m) -> In t (dedup X))
    by (intros t Ht; apply dedup_in; exact (proj2 (top_in_both m [] t Ht))).
  assert (TC : forall t, In t (top_paths [] m) -> In t (dedup C))
    by (intros t Ht; apply dedup_in; exact (proj1 (top_in_both m [] t Ht))).
  split.
  - intros HC. destruct (dedup X) as [|q X'] eqn:EX; [reflexivity|exfalso].
    assert (Hq : In q X) by (apply dedup_in; rewrite EX; left; reflexivity).
    destruct (xw_above_top m [] q Hn Hq) as [t [Ht _]].
    specialize (TC t Ht). rewrite HC in TC. exact TC.
  - intros HC.
    assert (HX : dedup X <> []).
    { destruct (dedup C) as [|p C'] eqn:EC; [congruence|].
      assert (Hp : In p C) by (apply dedup_in; rewrite EC; left; reflexivity).
      destruct (core_above_top m [] p Hn Hp) as [t [Ht _]].
      intros E. specialize (TX t Ht). rewrite E in TX. exact TX. }
    destruct (shortest_minimal (dedup X) HX) as [Hin Hmin].
    set (r := shortest (dedup X)) in *.
    assert (Hr : In r X) by (apply dedup_in; exact Hin).
    destruct (xw_above_top m [] r Hn Hr) as [t [Ht [E|L]]].
    + split.
      * rewrite E. exact (TC t Ht).
      * intros p Hp. apply (proj1 (dedup_in p C)) in Hp.
        destruct (core_above_top m [] p Hn Hp) as [t' [Ht' L']].
        specialize (Hmin t' (TX t' Ht')). lia.
    + exfalso. specialize (Hmin t (TX t Ht)). lia.
Qed.
End Shortest.
