(* Compositional lemmas about [scan] (well-formedness, root count) and about
   [ins] / [toks_acc] (Spec/Items.v). *)
From Mxj Require Import Spec.Items Proofs.StrLemmas Proofs.XmlStr.

(* [elems c E]: E is a balanced sequence of c elements - scanning it in any context
   leaves the stack as it was and counts c roots when the context is the top level *)
Definition elems (c : nat) (E : list item) : Prop :=
  forall st r R, scan st r (E ++ R) = scan st (match st with [] => r + c | _ => r end) R.

Lemma elems_nil : elems 0 [].
Proof. intros st r R. cbn [app]. destruct st; [rewrite Nat.add_0_r|]; reflexivity. Qed.

Lemma elems_app c1 c2 E1 E2 : elems c1 E1 -> elems c2 E2 -> elems (c1 + c2) (E1 ++ E2).
Proof.
  intros H1 H2 st r R. rewrite <- app_assoc, H1, H2.
  destruct st; [rewrite Nat.add_assoc|]; reflexivity.
Qed.

Lemma elems_empty n a : name_okb n = true -> attrs_okb a = true -> elems 1 [IEmpty n a].
Proof.
  intros Hn Ha st r R. cbn [app scan]. rewrite Hn, Ha. cbn [andb].
  destruct st; [rewrite Nat.add_1_r|]; reflexivity.
Qed.

Lemma elems_wrap n a c body : name_okb n = true -> attrs_okb a = true -> elems c body ->
  elems 1 (IOpen n a :: body ++ [IClose n]).
Proof.
  intros Hn Ha Hb st r R. cbn [app scan]. rewrite Hn, Ha. cbn [andb].
  rewrite <- app_assoc, Hb. cbn [app scan]. rewrite str_eqb_refl.
  destruct st; [rewrite Nat.add_1_r|]; reflexivity.
Qed.

Lemma elems_wrap_text n a x c body : name_okb n = true -> attrs_okb a = true -> raw_okb x = true ->
  elems c body -> elems 1 (IOpen n a :: IText x :: body ++ [IClose n]).
Proof.
  intros Hn Ha Hx Hb st r R. cbn [app scan]. rewrite Hn, Ha, Hx. cbn [andb].
  rewrite <- app_assoc, Hb. cbn [app scan]. rewrite str_eqb_refl.
  destruct st; [rewrite Nat.add_1_r|]; reflexivity.
Qed.

Lemma elems_open_close n a : name_okb n = true -> attrs_okb a = true -> elems 1 [IOpen n a; IClose n].
Proof. intros Hn Ha. apply (elems_wrap n a 0 [] Hn Ha elems_nil). Qed.
Lemma elems_text n a x : name_okb n = true -> attrs_okb a = true -> raw_okb x = true ->
  elems 1 [IOpen n a; IText x; IClose n].
Proof. intros Hn Ha Hx. apply (elems_wrap_text n a x 0 [] Hn Ha Hx elems_nil). Qed.

Lemma elems_single_root E : elems 1 E -> single_root E.
Proof. intro H. unfold single_root. rewrite <- (app_nil_r E), H. reflexivity. Qed.
Lemma elems_wf c E : elems c E -> wf_items E.
Proof. intro H. unfold wf_items. rewrite <- (app_nil_r E), H. discriminate. Qed.
Lemma single_root_wf E : single_root E -> wf_items E.
Proof. unfold single_root, wf_items. intros H. rewrite H. discriminate. Qed.

Lemma elems_concat (Es : list (list item)) (cs : list nat) :
  Forall2 elems cs Es -> elems (fold_right Nat.add 0 cs) (concat Es).
Proof.
  induction 1 as [|c E cs Es H _ IH]; cbn [concat fold_right]; [apply elems_nil|].
  apply elems_app; assumption.
Qed.

(* ---------------- ins / toks_acc ---------------- *)
Lemma ins_app ws i a b : ins ws i (a ++ b) = ins ws i a ++ ins ws (i + length a) b.
Proof.
  revert i. induction a as [|x a IH]; intro i; cbn [app ins length].
  - rewrite Nat.add_0_r. reflexivity.
  - rewrite IH. cbn [app]. rewrite Nat.add_succ_r. reflexivity.
Qed.

Lemma ws_str_all_in o w : ws_str o w = true -> all_in (trimRunes o) w = true.
Proof.
  unfold ws_str, all_in. rewrite !forallb_forall. intros H x Hx.
  specialize (H x Hx). apply andb_true_iff in H. apply H.
Qed.
Lemma ws_str_special_free o w : ws_str o w = true -> special_free' w = true.
Proof.
  unfold ws_str, special_free'. rewrite !forallb_forall. intros H x Hx.
  specialize (H x Hx). apply andb_true_iff in H. destruct H as [H _].
  unfold ws_chars, mem_ascii in H. cbn [existsb] in H.
  repeat (apply orb_true_iff in H; destruct H as [H|H]); try discriminate;
    apply Ascii.eqb_eq in H; subst x; reflexivity.
Qed.
Lemma ws_str_unescape o w : ws_str o w = true -> unescape w = w.
Proof. intro H. apply unescape_special_free, (ws_str_special_free o), H. Qed.

Lemma flush_length x : length (flush x) <= 1.
Proof. destruct x; cbn; auto. Qed.
