(* C11: SetValueForPath, Remove, RenameKey on dot-paths through nested maps.
   Each operation is shown equal to one nested write [put_keys] at the parent
   key list; post-conditions and frame clauses then follow from the get/put laws. *)
From Mxj Require Import Model.TreeOps Spec.PathSem Spec.MapPaths Proofs.StrLemmas Proofs.C07P.

(* ================= association lists ================= *)
Lemma lookup_set_same k v m : lookup k (set k v m) = Some v.
Proof.
  induction m as [|[k' v'] t IH]; cbn.
  - rewrite str_eqb_refl; reflexivity.
  - destruct (str_eqb k k') eqn:E; cbn; rewrite E; [reflexivity|exact IH].
Qed.

Lemma lookup_set_other q k v m : q <> k -> lookup q (set k v m) = lookup q m.
Proof.
  intros Hq. induction m as [|[k' v'] t IH]; cbn.
  - apply str_eqb_neq in Hq. rewrite Hq; reflexivity.
  - destruct (str_eqb k k') eqn:E; cbn.
    + apply str_eqb_eq in E; subst k'. apply str_eqb_neq in Hq. rewrite Hq; reflexivity.
    + destruct (str_eqb q k'); [reflexivity|exact IH].
Qed.

Lemma lookup_del_other q k m : q <> k -> lookup q (del k m) = lookup q m.
Proof.
  intros Hq. induction m as [|[k' v'] t IH]; cbn; [reflexivity|].
  destruct (str_eqb k k') eqn:E; cbn.
  - apply str_eqb_eq in E; subst k'. apply str_eqb_neq in Hq. rewrite Hq; reflexivity.
  - destruct (str_eqb q k'); [reflexivity|exact IH].
Qed.

Lemma lookup_none_keys k m : lookup k m = None <-> existsb (str_eqb k) (map fst m) = false.
Proof.
  induction m as [|[k' v'] t IH]; cbn; [tauto|].
  destruct (str_eqb k k'); cbn; [split; discriminate|exact IH].
Qed.

Lemma lookup_del_same k m : nodup_keys (map fst m) = true -> lookup k (del k m) = None.
Proof.
  induction m as [|[k' v'] t IH]; cbn; [reflexivity|]. intros H.
  apply andb_true_iff in H as [H1 H2].
  destruct (str_eqb k k') eqn:E; cbn.
  - apply str_eqb_eq in E; subst k'. apply lookup_none_keys. apply negb_true_iff in H1; exact H1.
  - rewrite E. apply IH; exact H2.
Qed.

Lemma has_key_lookup k m : has_key k m = true <-> lookup k m <> None.
Proof. unfold has_key. destruct (lookup k m); split; congruence. Qed.

Lemma keys_set_present k v m : lookup k m <> None -> map fst (set k v m) = map fst m.
Proof.
  induction m as [|[k' v'] t IH]; cbn; [congruence|].
  destruct (str_eqb k k') eqn:E; cbn; [reflexivity|]. intros H. rewrite IH by exact H. reflexivity.
Qed.

Lemma keys_set_absent k v m : lookup k m = None -> map fst (set k v m) = map fst m ++ [k].
Proof.
  induction m as [|[k' v'] t IH]; cbn; [reflexivity|].
  destruct (str_eqb k k') eqn:E; cbn; [discriminate|]. intros H. rewrite IH by exact H. reflexivity.
Qed.

Lemma existsb_keys_del q k m :
  existsb (str_eqb q) (map fst m) = false -> existsb (str_eqb q) (map fst (del k m)) = false.
Proof.
  induction m as [|[k' v'] t IH]; cbn; [reflexivity|]. intros H.
  apply orb_false_iff in H as [H1 H2].
  destruct (str_eqb k k'); cbn; [exact H2|]. rewrite H1. apply IH; exact H2.
Qed.

Lemma nodup_keys_del k m : nodup_keys (map fst m) = true -> nodup_keys (map fst (del k m)) = true.
Proof.
  induction m as [|[k' v'] t IH]; cbn; [reflexivity|]. intros H.
  apply andb_true_iff in H as [H1 H2].
  destruct (str_eqb k k'); cbn; [exact H2|].
  apply andb_true_iff; split; [|apply IH; exact H2].
  apply negb_true_iff. apply existsb_keys_del. apply negb_true_iff in H1; exact H1.
Qed.

Lemma nodup_keys_snoc l k :
  nodup_keys l = true -> existsb (str_eqb k) l = false -> nodup_keys (l ++ [k]) = true.
Proof.
  induction l as [|a t IH]; cbn; [reflexivity|]. intros H Hk.
  apply andb_true_iff in H as [H1 H2]. apply orb_false_iff in Hk as [Hk1 Hk2].
  apply andb_true_iff; split; [|apply IH; assumption].
  apply negb_true_iff. rewrite existsb_app. apply negb_true_iff in H1. rewrite H1. cbn.
  rewrite str_eqb_sym, Hk1. reflexivity.
Qed.

Lemma nodup_keys_set k v m : nodup_keys (map fst m) = true -> nodup_keys (map fst (set k v m)) = true.
Proof.
  intros H. destruct (lookup k m) eqn:E.
  - rewrite keys_set_present by congruence. exact H.
  - rewrite keys_set_absent by exact E. apply nodup_keys_snoc; [exact H|]. apply lookup_none_keys; exact E.
Qed.

(* ================= well-formed trees ================= *)
Lemma wfb_map m :
  wfb (VMap m) = nodup_keys (map fst m) && forallb (fun kv => wfb (snd kv)) m.
Proof.
  cbn [wfb]. f_equal. induction m as [|[k v] t IH]; [reflexivity|]. cbn [forallb snd]. rewrite <- IH. reflexivity.
Qed.

Lemma wfb_map_nodup m : wfb (VMap m) = true -> nodup_keys (map fst m) = true.
Proof. rewrite wfb_map. intros H. apply andb_true_iff in H as [H _]; exact H. Qed.

Lemma forallb_lookup (P : value -> bool) k m v :
  forallb (fun kv => P (snd kv)) m = true -> lookup k m = Some v -> P v = true.
Proof.
  induction m as [|[k' v'] t IH]; cbn; [discriminate|]. intros H.
  apply andb_true_iff in H as [H1 H2].
  destruct (str_eqb k k'); [intros E; inversion E; subst; exact H1|apply IH; exact H2].
Qed.

Lemma forallb_set (P : value -> bool) k v m :
  forallb (fun kv => P (snd kv)) m = true -> P v = true ->
  forallb (fun kv => P (snd kv)) (set k v m) = true.
Proof.
  intros H Hv. induction m as [|[k' v'] t IH]; cbn; [rewrite Hv; reflexivity|].
  cbn in H. apply andb_true_iff in H as [H1 H2].
  destruct (str_eqb k k'); cbn; [rewrite Hv; exact H2|rewrite H1; apply IH; exact H2].
Qed.

Lemma forallb_del (P : value -> bool) k m :
  forallb (fun kv => P (snd kv)) m = true -> forallb (fun kv => P (snd kv)) (del k m) = true.
Proof.
  induction m as [|[k' v'] t IH]; cbn; [reflexivity|]. intros H.
  apply andb_true_iff in H as [H1 H2].
  destruct (str_eqb k k'); cbn; [exact H2|rewrite H1; apply IH; exact H2].
Qed.

Lemma wf_lookup k m v : wfb (VMap m) = true -> lookup k m = Some v -> wfb v = true.
Proof.
  rewrite wfb_map. intros H. apply andb_true_iff in H as [_ H]. apply forallb_lookup; exact H.
Qed.

Lemma wf_set k v m : wfb (VMap m) = true -> wfb v = true -> wfb (VMap (set k v m)) = true.
Proof.
  rewrite !wfb_map. intros H Hv. apply andb_true_iff in H as [H1 H2].
  apply andb_true_iff; split; [apply nodup_keys_set; exact H1|apply forallb_set; assumption].
Qed.

Lemma wf_del k m : wfb (VMap m) = true -> wfb (VMap (del k m)) = true.
Proof.
  rewrite !wfb_map. intros H. apply andb_true_iff in H as [H1 H2].
  apply andb_true_iff; split; [apply nodup_keys_del; exact H1|apply forallb_del; exact H2].
Qed.

Lemma wf_get_keys ks : forall m v, wfb m = true -> get_keys ks m = Some v -> wfb v = true.
Proof.
  induction ks as [|k t IH]; intros m v Hw H; cbn in H.
  - inversion H; subst; exact Hw.
  - destruct m; try discriminate. destruct (lookup k m) as [x|] eqn:E; [|discriminate].
    eapply IH; [|exact H]. eapply wf_lookup; eassumption.
Qed.

Lemma wf_put_keys ks : forall nv m, wfb m = true -> wfb nv = true -> wfb (put_keys ks nv m) = true.
Proof.
  induction ks as [|k t IH]; intros nv m Hw Hn; cbn [put_keys]; [exact Hn|].
  destruct m; try exact Hw. destruct (lookup k m) as [x|] eqn:E; [|exact Hw].
  apply wf_set; [exact Hw|]. apply IH; [|exact Hn]. eapply wf_lookup; eassumption.
Qed.

(* ================= key lists ================= *)
Lemma plain_keys_app a b : plain_keys (a ++ b) <-> plain_keys a /\ plain_keys b.
Proof. unfold plain_keys. rewrite forallb_app, andb_true_iff. tauto. Qed.

Lemma dotfree_app a b : dotfree (a ++ b) <-> dotfree a /\ dotfree b.
Proof. unfold dotfree. rewrite forallb_app, andb_true_iff. tauto. Qed.

Lemma plain_keyb_parts k :
  plain_keyb k = true ->
  k <> [] /\ mem_ascii dot k = false /\ mem_ascii lbr k = false /\ str_eqb k star = false.
Proof.
  unfold plain_keyb. intros H.
  apply andb_true_iff in H as [H H4]. apply andb_true_iff in H as [H H3]. apply andb_true_iff in H as [H1 H2].
  apply negb_true_iff in H2, H3, H4. repeat split; try assumption.
  destruct k; [discriminate|discriminate].
Qed.

Lemma plain_keys_Forall ks :
  plain_keys ks ->
  Forall (fun k => k <> [] /\ mem_ascii dot k = false /\ mem_ascii lbr k = false /\ str_eqb k star = false) ks.
Proof.
  unfold plain_keys. intros H. apply Forall_forall. intros k Hk.
  apply plain_keyb_parts. eapply forallb_forall in H; eassumption.
Qed.

Lemma plain_keys_dotfree ks : plain_keys ks -> dotfree ks.
Proof.
  unfold plain_keys, dotfree. intros H. apply forallb_forall. intros k Hk.
  eapply forallb_forall in H; [|exact Hk]. apply plain_keyb_parts in H as (_ & H & _). rewrite H; reflexivity.
Qed.

Definition nostar (ks : list str) : Prop := Forall (fun k => str_eqb k star = false) ks.

Lemma plain_keys_nostar ks : plain_keys ks -> nostar ks.
Proof. intros H. eapply Forall_impl; [|apply plain_keys_Forall; exact H]. cbn. tauto. Qed.

Lemma plain_keys_good ks : plain_keys ks -> Forall good_name ks.
Proof. intros H. eapply Forall_impl; [|apply plain_keys_Forall; exact H]. cbn. unfold good_name. tauto. Qed.

Lemma dotfree_Forall ks : dotfree ks -> Forall (fun x => mem_ascii dot x = false) ks.
Proof.
  unfold dotfree. intros H. apply Forall_forall. intros k Hk.
  eapply forallb_forall in H; [|exact Hk]. apply negb_true_iff in H; exact H.
Qed.

Lemma split1_join_keys ks : ks <> [] -> dotfree ks -> split1 dot (join sdot ks) = ks.
Proof. intros Hne H. apply split1_join; [exact Hne|apply dotfree_Forall; exact H]. Qed.

Lemma snoc_nonempty {A} (pre : list A) k : pre ++ [k] <> [].
Proof. destruct pre; discriminate. Qed.

Lemma mem_ascii_app c a b : mem_ascii c (a ++ b) = mem_ascii c a || mem_ascii c b.
Proof. apply existsb_app. Qed.

Lemma mem_ascii_join c d l :
  Ascii.eqb c d = false -> Forall (fun x => mem_ascii c x = false) l -> mem_ascii c (join [d] l) = false.
Proof.
  intros Hcd H. induction l as [|a t IH]; [reflexivity|].
  inversion H as [|? ? Ha Ht]; subst.
  destruct t as [|b t']; [exact Ha|].
  change (join [d] (a :: b :: t')) with (a ++ [d] ++ join [d] (b :: t')).
  rewrite !mem_ascii_app, Ha, (IH Ht). cbn. rewrite Hcd. reflexivity.
Qed.

Lemma plain_keys_no_lbr ks : plain_keys ks -> mem_ascii lbr (join sdot ks) = false.
Proof.
  intros H. apply mem_ascii_join; [reflexivity|].
  eapply Forall_impl; [|apply plain_keys_Forall; exact H]. cbn. tauto.
Qed.

(* ================= get / put laws ================= *)
Lemma get_keys_app p r : forall m,
  get_keys (p ++ r) m = match get_keys p m with Some v => get_keys r v | None => None end.
Proof.
  induction p as [|k t IH]; intros m; cbn; [reflexivity|].
  destruct m; try reflexivity. destruct (lookup k m); [apply IH|reflexivity].
Qed.

Lemma get_keys_get_at ks m : get_keys ks m = get_at (map SK ks) m.
Proof.
  revert m; induction ks as [|k t IH]; intros m; cbn; [reflexivity|].
  destruct m; try reflexivity. destruct (lookup k m); [apply IH|reflexivity].
Qed.

Lemma put_keys_update_at ks nv m : put_keys ks nv m = update_at (map SK ks) nv m.
Proof.
  revert m; induction ks as [|k t IH]; intros m; cbn; [reflexivity|].
  destruct m; try reflexivity. destruct (lookup k m); [rewrite IH; reflexivity|reflexivity].
Qed.

(* put then get at the same place (and below it) *)
Lemma get_put_below ks r nv : forall m,
  get_keys ks m <> None -> get_keys (ks ++ r) (put_keys ks nv m) = get_keys r nv.
Proof.
  induction ks as [|k t IH]; intros m H; cbn; [reflexivity|].
  cbn in H. destruct m; try congruence. destruct (lookup k m) as [x|] eqn:E; [|congruence].
  cbn. rewrite lookup_set_same. apply IH; exact H.
Qed.

Lemma get_put_same ks nv m : get_keys ks m <> None -> get_keys ks (put_keys ks nv m) = Some nv.
Proof. intros H. rewrite <- (app_nil_r ks) at 1. rewrite get_put_below by exact H. reflexivity. Qed.

(* put does not show at key lists that part ways with it *)
Lemma get_put_diverge ks nv : forall qs m,
  diverge ks qs = true -> get_keys qs (put_keys ks nv m) = get_keys qs m.
Proof.
  induction ks as [|k t IH]; intros qs m H; [discriminate|].
  destruct qs as [|q qs']; [discriminate|]. cbn in H. cbn [put_keys].
  destruct m; try reflexivity. destruct (lookup k m) as [x|] eqn:E; [|reflexivity].
  cbn [get_keys]. destruct (str_eqb k q) eqn:Ekq.
  - apply str_eqb_eq in Ekq; subst q. rewrite lookup_set_same, E. apply IH; exact H.
  - rewrite lookup_set_other; [reflexivity|]. apply str_eqb_neq in Ekq. congruence.
Qed.

Lemma put_keys_absent ks nv : forall m, get_keys ks m = None -> put_keys ks nv m = m.
Proof.
  induction ks as [|k t IH]; intros m H; cbn in *; [discriminate|].
  destruct m; try reflexivity. destruct (lookup k m) as [x|] eqn:E; [|reflexivity].
  rewrite IH by exact H. f_equal. clear -E.
  induction m as [|[k' v'] t' IH]; cbn in *; [discriminate|].
  destruct (str_eqb k k') eqn:Ek; [inversion E; reflexivity|rewrite IH by exact E; reflexivity].
Qed.

(* every map on the way keeps its key list *)
Lemma put_keys_keeps_keys ks nv : forall qs m a,
  get_keys ks m <> None ->
  get_keys qs m = Some (VMap a) -> (exists r, ks = qs ++ r /\ r <> []) ->
  exists a', get_keys qs (put_keys ks nv m) = Some (VMap a') /\ map fst a' = map fst a.
Proof.
  induction ks as [|k t IH]; intros qs m a Hk Hq (r & Hr & Hne).
  - destruct qs; destruct r; cbn in Hr; congruence.
  - destruct qs as [|q qs'].
    + cbn in Hq. inversion Hq; subst m. cbn in Hk. cbn [put_keys].
      destruct (lookup k a) as [x|] eqn:E; [|congruence].
      eexists; split; [reflexivity|]. apply keys_set_present; congruence.
    + cbn in Hr. inversion Hr; subst q t. cbn in Hk, Hq. cbn [put_keys].
      destruct m; try discriminate. destruct (lookup k m) as [x|] eqn:E; [|discriminate].
      cbn [get_keys]. rewrite lookup_set_same. apply IH; [exact Hk|exact Hq|eauto].
Qed.

(* splitting "parts ways with pre ++ [k]" *)
Lemma diverge_snoc pre k : forall qs,
  diverge (pre ++ [k]) qs = true ->
  diverge pre qs = true \/ exists q r, qs = pre ++ q :: r /\ q <> k.
Proof.
  induction pre as [|a t IH]; intros qs H.
  - destruct qs as [|q r]; [discriminate|]. cbn in H.
    destruct (str_eqb k q) eqn:E; [destruct r; discriminate|].
    right. exists q, r. split; [reflexivity|]. apply str_eqb_neq in E. congruence.
  - destruct qs as [|q r]; [discriminate|]. cbn in H |- *.
    destruct (str_eqb a q) eqn:E; [|left; reflexivity].
    apply str_eqb_eq in E; subst q.
    destruct (IH r H) as [Hd|(q' & r' & -> & Hq)]; [left; exact Hd|].
    right. exists q', r'. split; [reflexivity|exact Hq].
Qed.

Lemma diverge_below pre q k r : q <> k -> diverge (pre ++ [k]) (pre ++ q :: r) = true.
Proof.
  intros H. induction pre as [|a t IH]; cbn.
  - apply str_eqb_neq in H. rewrite str_eqb_sym, H. reflexivity.
  - rewrite str_eqb_refl. exact IH.
Qed.

(* ================= prevValueByPath + write = one nested write ================= *)
Lemma with_parent_spec f k : forall pre m,
  with_parent (pre ++ [k]) f m =
  match get_keys pre m with
  | Some (VMap c) => if has_key k c then Ok (put_keys pre (VMap (f k c)) m) else Err EOther
  | _ => Err EOther
  end.
Proof.
  induction pre as [|a t IH]; intros m.
  - cbn. destruct m; reflexivity.
  - change ((a :: t) ++ [k]) with (a :: (t ++ [k])).
    destruct m; try reflexivity.
    cbn [with_parent get_keys put_keys].
    destruct (t ++ [k]) as [|x l] eqn:E; [destruct t; discriminate|].
    destruct (lookup a m) as [v|] eqn:El; [|reflexivity].
    rewrite IH.
    destruct (get_keys t v) as [[]|]; try reflexivity.
    destruct (has_key k m0); reflexivity.
Qed.

Lemma with_parent_nil f m : with_parent [] f m = Err EOther.
Proof. destruct m; reflexivity. Qed.

(* success of the map-only walk = the whole key list is found through maps *)
Lemma with_parent_ok_iff f pre k m :
  (exists m', with_parent (pre ++ [k]) f m = Ok m') <-> get_keys (pre ++ [k]) m <> None.
Proof.
  rewrite with_parent_spec, get_keys_app.
  destruct (get_keys pre m) as [v|]; [|split; [intros [? ?]; discriminate|congruence]].
  destruct v; try (split; [intros [? ?]; discriminate|cbn; congruence]).
  cbn [get_keys]. unfold has_key.
  destruct (lookup k m0); split; try congruence; try (intros [? ?]; discriminate); eauto.
Qed.

(* ================= ValuesForPath on plain paths = get_keys ================= *)
Lemma eval_get_keys_app pre rest : forall m v,
  nostar pre -> get_keys pre m = Some v -> eval (pre ++ rest) m = eval rest v.
Proof.
  induction pre as [|k t IH]; intros m v Hs H; cbn in H.
  - inversion H; reflexivity.
  - inversion Hs as [|? ? Hk Ht]; subst.
    destruct m; try discriminate. destruct (lookup k m) as [x|] eqn:E; [|discriminate].
    cbn [app eval sel]. unfold sel_map. rewrite Hk, E. cbn [flat_map]. rewrite app_nil_r.
    apply IH; assumption.
Qed.

Lemma eval_one k c :
  str_eqb k star = false ->
  eval [k] (VMap c) = match lookup k c with Some x => final x | None => [] end.
Proof.
  intros Hk. cbn [eval sel]. unfold sel_map. rewrite Hk.
  destruct (lookup k c); cbn; [apply app_nil_r|reflexivity].
Qed.

(* item 1: when the walk meets no list, the denotation is what get_keys finds *)
Lemma eval_no_list ks : forall m,
  nostar ks -> no_list_on ks m = true ->
  eval ks m = match get_keys ks m with Some v => final v | None => [] end.
Proof.
  induction ks as [|k t IH]; intros m Hs Hn; [reflexivity|].
  inversion Hs as [|? ? Hk Ht]; subst.
  cbn in Hn. destruct m; try reflexivity; [|discriminate].
  cbn [eval sel get_keys]. unfold sel_map. rewrite Hk. destruct (lookup k m) as [x|]; [|reflexivity].
  cbn [flat_map]. rewrite app_nil_r. apply IH; assumption.
Qed.

Lemma get_keys_no_list ks : forall m v, get_keys ks m = Some v -> no_list_on ks m = true.
Proof.
  induction ks as [|k t IH]; intros m v H; [reflexivity|].
  cbn in H |- *. destruct m; try discriminate. destruct (lookup k m); [eapply IH; exact H|reflexivity].
Qed.

Lemma no_list_on_snoc pre k m c : get_keys pre m = Some (VMap c) -> no_list_on (pre ++ [k]) m = true.
Proof.
  revert m; induction pre as [|a t IH]; intros m H; cbn in H.
  - inversion H; subst. cbn. destruct (lookup k c); reflexivity.
  - cbn. destruct m; try discriminate. destruct (lookup a m); [apply IH; exact H|reflexivity].
Qed.

Section Paths.
Variable pf : str -> option flt.
Variable sep : str.

Lemma values_for_path_keys m ks :
  ks <> [] -> plain_keys ks ->
  values_for_path pf sep m (join sdot ks) [] = Ok (eval ks m).
Proof.
  intros Hne Hp. rewrite values_for_path_plain by (apply plain_keys_no_lbr; exact Hp).
  rewrite path_keys_join; [reflexivity|exact Hne|apply plain_keys_good; exact Hp].
Qed.

(* item 1, from the path string *)
Theorem values_for_path_get_keys m ks :
  ks <> [] -> plain_keys ks -> no_list_on ks m = true ->
  values_for_path pf sep m (join sdot ks) [] =
  Ok (match get_keys ks m with Some v => final v | None => [] end).
Proof.
  intros Hne Hp Hn. rewrite values_for_path_keys by assumption.
  rewrite eval_no_list; [reflexivity|apply plain_keys_nostar; exact Hp|exact Hn].
Qed.

Theorem exists_path_get_keys m ks :
  ks <> [] -> plain_keys ks -> no_list_on ks m = true ->
  exists_path pf sep m (join sdot ks) [] =
  Ok (match get_keys ks m with Some v => reportable v | None => false end).
Proof.
  intros Hne Hp Hn. unfold exists_path. rewrite values_for_path_get_keys by assumption. cbn [bind].
  destruct (get_keys ks m) as [v|]; [|reflexivity]. destruct v; reflexivity.
Qed.

Theorem value_for_path_get_keys m ks :
  ks <> [] -> plain_keys ks -> no_list_on ks m = true ->
  value_for_path pf sep m (join sdot ks) =
  match get_keys ks m with
  | Some v => match final v with x :: _ => Ok x | [] => Err EOther end
  | None => Err EOther
  end.
Proof.
  intros Hne Hp Hn. unfold value_for_path. rewrite values_for_path_get_keys by assumption. cbn [bind].
  destruct (get_keys ks m) as [v|]; reflexivity.
Qed.

(* the two forms the operations need: below an existing map parent *)
Lemma exists_below_parent m pre k c :
  plain_keys (pre ++ [k]) -> get_keys pre m = Some (VMap c) ->
  exists_path pf sep m (join sdot (pre ++ [k])) [] =
  Ok (match lookup k c with Some v => reportable v | None => false end).
Proof.
  intros Hp Hg. rewrite exists_path_get_keys;
    [|apply snoc_nonempty|exact Hp|eapply no_list_on_snoc; exact Hg].
  rewrite get_keys_app, Hg. cbn [get_keys]. destruct (lookup k c); reflexivity.
Qed.

Lemma value_below_parent m pre k c :
  plain_keys (pre ++ [k]) -> get_keys pre m = Some (VMap c) ->
  value_for_path pf sep m (join sdot (pre ++ [k])) =
  match lookup k c with
  | Some v => match final v with x :: _ => Ok x | [] => Err EOther end
  | None => Err EOther
  end.
Proof.
  intros Hp Hg. rewrite value_for_path_get_keys;
    [|apply snoc_nonempty|exact Hp|eapply no_list_on_snoc; exact Hg].
  rewrite get_keys_app, Hg. cbn [get_keys]. destruct (lookup k c); reflexivity.
Qed.

(* ================= Remove ================= *)
(* the whole operation as one equation *)
Theorem remove_spec m pre k :
  dotfree (pre ++ [k]) ->
  remove_path m (join sdot (pre ++ [k])) =
  match get_keys pre m with
  | Some (VMap c) => if has_key k c then Ok (put_keys pre (VMap (del k c)) m) else Err EOther
  | _ => Err EOther
  end.
Proof.
  intros Hd. unfold remove_path. rewrite split1_join_keys by (try apply snoc_nonempty; exact Hd).
  apply with_parent_spec.
Qed.

(* (a) success iff every key is found walking through maps *)
Theorem remove_ok_iff m pre k :
  dotfree (pre ++ [k]) ->
  (exists m', remove_path m (join sdot (pre ++ [k])) = Ok m') <-> get_keys (pre ++ [k]) m <> None.
Proof.
  intros Hd. unfold remove_path. rewrite split1_join_keys by (try apply snoc_nonempty; exact Hd).
  apply with_parent_ok_iff.
Qed.

(* ... for every path string whatsoever, in terms of its dot-split *)
Theorem remove_ok_iff_anypath m path :
  (exists m', remove_path m path = Ok m') <-> get_keys (split1 dot path) m <> None.
Proof.
  unfold remove_path. pose proof (split1_nonempty dot path) as Hne.
  rewrite (app_removelast_last [] Hne). apply with_parent_ok_iff.
Qed.

Theorem remove_fail_iff m pre k :
  dotfree (pre ++ [k]) ->
  remove_path m (join sdot (pre ++ [k])) = Err EOther <-> get_keys (pre ++ [k]) m = None.
Proof.
  intros Hd. rewrite remove_spec by exact Hd. rewrite get_keys_app.
  destruct (get_keys pre m) as [v|]; [|tauto]. destruct v; cbn [get_keys]; try tauto.
  unfold has_key. destruct (lookup k m0); split; congruence.
Qed.

(* shape of a successful removal *)
Lemma remove_ok_shape m pre k m' :
  dotfree (pre ++ [k]) -> remove_path m (join sdot (pre ++ [k])) = Ok m' ->
  exists c, get_keys pre m = Some (VMap c) /\ lookup k c <> None /\
            m' = put_keys pre (VMap (del k c)) m.
Proof.
  intros Hd. rewrite remove_spec by exact Hd.
  destruct (get_keys pre m) as [v|]; [|discriminate]. destruct v; try discriminate.
  destruct (has_key k m0) eqn:E; [|discriminate]. intros H; inversion H; subst.
  exists m0. split; [reflexivity|]. split; [apply has_key_lookup; exact E|reflexivity].
Qed.

(* (c2) the parent afterwards is the parent before minus the one entry *)
Theorem remove_parent m pre k m' :
  dotfree (pre ++ [k]) -> remove_path m (join sdot (pre ++ [k])) = Ok m' ->
  exists c, get_keys pre m = Some (VMap c) /\ get_keys pre m' = Some (VMap (del k c)).
Proof.
  intros Hd H. destruct (remove_ok_shape _ _ _ _ Hd H) as (c & Hg & Hl & ->).
  exists c. split; [exact Hg|]. apply get_put_same. congruence.
Qed.

(* (b) afterwards the path does not exist (needs distinct keys in every map) *)
Theorem remove_post m pre k m' :
  plain_keys (pre ++ [k]) -> wfb m = true ->
  remove_path m (join sdot (pre ++ [k])) = Ok m' ->
  get_keys (pre ++ [k]) m' = None /\
  exists_path pf sep m' (join sdot (pre ++ [k])) [] = Ok false.
Proof.
  intros Hp Hw H. pose proof (plain_keys_dotfree _ Hp) as Hd.
  destruct (remove_parent _ _ _ _ Hd H) as (c & Hg & Hg').
  assert (Hl : lookup k (del k c) = None).
  { apply lookup_del_same. apply wfb_map_nodup. eapply wf_get_keys; eassumption. }
  split.
  - rewrite get_keys_app, Hg'. cbn. rewrite Hl. reflexivity.
  - rewrite (exists_below_parent _ _ _ _ Hp Hg'). rewrite Hl. reflexivity.
Qed.

(* (c1) frame: every key list that parts ways with the removed one leads to the same value *)
Theorem remove_frame m pre k m' :
  dotfree (pre ++ [k]) -> remove_path m (join sdot (pre ++ [k])) = Ok m' ->
  forall qs, diverge (pre ++ [k]) qs = true -> get_keys qs m' = get_keys qs m.
Proof.
  intros Hd H qs Hq. destruct (remove_ok_shape _ _ _ _ Hd H) as (c & Hg & Hl & ->).
  destruct (diverge_snoc _ _ _ Hq) as [Hdv|(q & r & -> & Hqk)].
  - apply get_put_diverge; exact Hdv.
  - rewrite get_put_below by congruence. rewrite get_keys_app, Hg.
    cbn [get_keys]. rewrite lookup_del_other by exact Hqk. reflexivity.
Qed.

(* the maps above the parent keep their key lists *)
Theorem remove_ancestors m pre k m' :
  dotfree (pre ++ [k]) -> remove_path m (join sdot (pre ++ [k])) = Ok m' ->
  forall qs r a, pre = qs ++ r -> r <> [] -> get_keys qs m = Some (VMap a) ->
  exists a', get_keys qs m' = Some (VMap a') /\ map fst a' = map fst a.
Proof.
  intros Hd H qs r a Hpre Hr Ha. destruct (remove_ok_shape _ _ _ _ Hd H) as (c & Hg & Hl & ->).
  eapply put_keys_keeps_keys; [congruence|exact Ha|eauto].
Qed.

Theorem remove_wf m pre k m' :
  dotfree (pre ++ [k]) -> wfb m = true -> remove_path m (join sdot (pre ++ [k])) = Ok m' -> wfb m' = true.
Proof.
  intros Hd Hw H. destruct (remove_ok_shape _ _ _ _ Hd H) as (c & Hg & Hl & ->).
  apply wf_put_keys; [exact Hw|]. apply wf_del. eapply wf_get_keys; eassumption.
Qed.

(* ================= RenameKey ================= *)
Lemma join_nonempty l : l <> [] -> Forall (fun k : str => k <> []) l -> join sdot l <> [].
Proof.
  intros Hne H. destruct l as [|a t]; [congruence|]. inversion H as [|? ? Ha _]; subst.
  destruct t; [exact Ha|]. cbn. destruct a; [congruence|discriminate].
Qed.

Lemma parent_path_keys pre k :
  dotfree (pre ++ [k]) -> parent_path (join sdot (pre ++ [k])) = join sdot pre.
Proof.
  intros Hd. unfold parent_path. rewrite split1_join_keys by (try apply snoc_nonempty; exact Hd).
  rewrite removelast_last. reflexivity.
Qed.

Lemma sibling_path_keys pre k nn :
  plain_keys (pre ++ [k]) -> sibling_path (join sdot (pre ++ [k])) nn = join sdot (pre ++ [nn]).
Proof.
  intros Hp. unfold sibling_path. rewrite parent_path_keys by (apply plain_keys_dotfree; exact Hp).
  destruct pre as [|a t]; [reflexivity|].
  apply plain_keys_app in Hp as [Hp _].
  assert (Hne : join sdot (a :: t) <> []).
  { apply join_nonempty; [discriminate|]. eapply Forall_impl; [|apply plain_keys_Forall; exact Hp]. cbn; tauto. }
  destruct (join sdot (a :: t)) as [|c0 r] eqn:E; [congruence|].
  rewrite <- E. rewrite join_snoc by discriminate. reflexivity.
Qed.

(* the whole operation as one equation *)
Theorem rename_spec m pre k nn :
  plain_keys (pre ++ [k]) -> plain_keyb nn = true ->
  rename_key pf sep m (join sdot (pre ++ [k])) nn =
  match get_keys pre m with
  | Some (VMap c) =>
      match lookup k c with
      | Some v => if reportable v && sibling_free nn c
                  then Ok (put_keys pre (VMap (del k (set nn v c))) m) else Err EOther
      | None => Err EOther
      end
  | _ => Err EOther
  end.
Proof.
  intros Hp Hn.
  assert (Hp' : plain_keys (pre ++ [nn])).
  { apply plain_keys_app. apply plain_keys_app in Hp as [Hp _]. split; [exact Hp|].
    unfold plain_keys. cbn. rewrite Hn. reflexivity. }
  pose proof (plain_keys_dotfree _ Hp) as Hd.
  unfold rename_key. rewrite sibling_path_keys by exact Hp.
  rewrite split1_join_keys by (try apply snoc_nonempty; exact Hd).
  rewrite with_parent_spec.
  destruct (get_keys pre m) as [pv|] eqn:Hg.
  - destruct pv;
      try (unfold exists_path; rewrite !values_for_path_keys by (try apply snoc_nonempty; assumption);
           cbn [bind]; destruct (eval (pre ++ [k]) m); [reflexivity|];
           destruct (eval (pre ++ [nn]) m); reflexivity).
    rewrite (exists_below_parent _ _ _ _ Hp Hg), (exists_below_parent _ _ _ _ Hp' Hg).
    unfold sibling_free, has_key, rename_write.
    destruct (lookup k m0) as [v|]; [|reflexivity].
    destruct (reportable v); [|reflexivity].
    destruct (lookup nn m0) as [x|]; [destruct (reportable x)|]; reflexivity.
  - unfold exists_path; rewrite !values_for_path_keys by (try apply snoc_nonempty; assumption).
    cbn [bind]. destruct (eval (pre ++ [k]) m); [reflexivity|].
    destruct (eval (pre ++ [nn]) m); reflexivity.
Qed.

Lemma rename_ok_shape m pre k nn m' :
  plain_keys (pre ++ [k]) -> plain_keyb nn = true ->
  rename_key pf sep m (join sdot (pre ++ [k])) nn = Ok m' ->
  exists c v, get_keys pre m = Some (VMap c) /\ lookup k c = Some v /\ reportable v = true /\
              sibling_free nn c = true /\ nn <> k /\
              m' = put_keys pre (VMap (del k (set nn v c))) m.
Proof.
  intros Hp Hn. rewrite rename_spec by assumption.
  destruct (get_keys pre m) as [pv|]; [|discriminate]. destruct pv; try discriminate.
  destruct (lookup k m0) as [v|] eqn:El; [|discriminate].
  destruct (reportable v) eqn:Er; [|discriminate].
  destruct (sibling_free nn m0) eqn:Es; [|discriminate].
  cbn [andb]. intros H; inversion H; subst.
  exists m0, v. repeat split; try assumption; try reflexivity.
  intros ->. unfold sibling_free in Es. rewrite El, Er in Es. discriminate.
Qed.

(* success iff the key is there with something to report and the sibling is free *)
Theorem rename_ok_iff m pre k nn :
  plain_keys (pre ++ [k]) -> plain_keyb nn = true ->
  (exists m', rename_key pf sep m (join sdot (pre ++ [k])) nn = Ok m') <->
  (exists v, get_keys (pre ++ [k]) m = Some v /\ reportable v = true) /\
  match get_keys (pre ++ [nn]) m with Some x => reportable x = false | None => True end.
Proof.
  intros Hp Hn. rewrite rename_spec by assumption. rewrite !get_keys_app.
  destruct (get_keys pre m) as [pv|];
    [|split; [intros [? ?]; discriminate|intros [[v [? _]] _]; discriminate]].
  destruct pv; try (split; [intros [? ?]; discriminate|intros [[v [? _]] _]; discriminate]).
  cbn [get_keys]. unfold sibling_free.
  destruct (lookup k m0) as [v|];
    [|split; [intros [? ?]; discriminate|intros [[v [? _]] _]; discriminate]].
  destruct (reportable v) eqn:Er; cbn [andb].
  - destruct (lookup nn m0) as [x|]; [destruct (reportable x); cbn [negb]|].
    + split; [intros [? ?]; discriminate|intros [_ ?]; discriminate].
    + split; [intros _; split; [eauto|reflexivity]|eauto].
    + split; [intros _; split; [eauto|exact I]|eauto].
  - split; [intros [? ?]; discriminate|]. intros [[v' [E Hv]] _]. inversion E; subst. congruence.
Qed.

(* refusal: an existing (reportable) sibling, at any depth *)
Theorem rename_refuses m pre k nn x :
  plain_keys (pre ++ [k]) -> plain_keyb nn = true ->
  get_keys (pre ++ [nn]) m = Some x -> reportable x = true ->
  rename_key pf sep m (join sdot (pre ++ [k])) nn = Err EOther.
Proof.
  intros Hp Hn Hg Hr. rewrite rename_spec by assumption. rewrite get_keys_app in Hg.
  destruct (get_keys pre m) as [pv|]; [|reflexivity]. destruct pv; try reflexivity.
  cbn in Hg. unfold sibling_free. destruct (lookup nn m0) as [y|]; [|discriminate].
  inversion Hg; subst y. rewrite Hr. cbn [negb].
  destruct (lookup k m0); [rewrite andb_false_r|]; reflexivity.
Qed.

(* failure otherwise: missing path (or nothing to report there) *)
Theorem rename_fails_missing m pre k nn :
  plain_keys (pre ++ [k]) -> plain_keyb nn = true ->
  get_keys (pre ++ [k]) m = None ->
  rename_key pf sep m (join sdot (pre ++ [k])) nn = Err EOther.
Proof.
  intros Hp Hn Hg. rewrite rename_spec by assumption. rewrite get_keys_app in Hg.
  destruct (get_keys pre m) as [pv|]; [|reflexivity]. destruct pv; try reflexivity.
  cbn in Hg. destruct (lookup k m0); [discriminate|reflexivity].
Qed.

Lemma lookup_renamed_new nn k v c : nn <> k -> lookup nn (del k (set nn v c)) = Some v.
Proof. intros H. rewrite lookup_del_other by exact H. apply lookup_set_same. Qed.

Lemma lookup_renamed_old nn k v c :
  nodup_keys (map fst c) = true -> lookup k (del k (set nn v c)) = None.
Proof. intros H. apply lookup_del_same. apply nodup_keys_set; exact H. Qed.

Lemma lookup_renamed_other nn k v c q :
  q <> k -> q <> nn -> lookup q (del k (set nn v c)) = lookup q c.
Proof. intros H1 H2. rewrite lookup_del_other by exact H1. apply lookup_set_other; exact H2. Qed.

(* the parent afterwards *)
Theorem rename_parent m pre k nn m' :
  plain_keys (pre ++ [k]) -> plain_keyb nn = true ->
  rename_key pf sep m (join sdot (pre ++ [k])) nn = Ok m' ->
  exists c v, get_keys pre m = Some (VMap c) /\ lookup k c = Some v /\
              get_keys pre m' = Some (VMap (del k (set nn v c))).
Proof.
  intros Hp Hn H. destruct (rename_ok_shape _ _ _ _ _ Hp Hn H) as (c & v & Hg & Hl & _ & _ & _ & ->).
  exists c, v. repeat split; try assumption. apply get_put_same. congruence.
Qed.

(* success moves the value, with everything below it, unchanged; the old key is gone *)
Theorem rename_moves m pre k nn m' :
  plain_keys (pre ++ [k]) -> plain_keyb nn = true -> wfb m = true ->
  rename_key pf sep m (join sdot (pre ++ [k])) nn = Ok m' ->
  (forall r, get_keys (pre ++ nn :: r) m' = get_keys (pre ++ k :: r) m) /\
  get_keys (pre ++ [nn]) m' = get_keys (pre ++ [k]) m /\
  get_keys (pre ++ [k]) m <> None /\
  get_keys (pre ++ [k]) m' = None.
Proof.
  intros Hp Hn Hw H.
  destruct (rename_ok_shape _ _ _ _ _ Hp Hn H) as (c & v & Hg & Hl & _ & _ & Hnk & ->).
  assert (Hmove : forall r, get_keys (pre ++ nn :: r) (put_keys pre (VMap (del k (set nn v c))) m)
                            = get_keys (pre ++ k :: r) m).
  { intros r. rewrite get_put_below by congruence. rewrite get_keys_app, Hg. cbn [get_keys].
    rewrite lookup_renamed_new by exact Hnk. rewrite Hl. reflexivity. }
  split; [exact Hmove|]. split; [apply Hmove|]. split.
  - rewrite get_keys_app, Hg. cbn. rewrite Hl. discriminate.
  - rewrite get_put_below by congruence. cbn [get_keys].
    rewrite lookup_renamed_old; [reflexivity|]. apply wfb_map_nodup. eapply wf_get_keys; eassumption.
Qed.

(* the same through the library's own observers Exists / ValueForPath *)
Theorem rename_post m pre k nn m' :
  plain_keys (pre ++ [k]) -> plain_keyb nn = true -> wfb m = true ->
  rename_key pf sep m (join sdot (pre ++ [k])) nn = Ok m' ->
  exists_path pf sep m' (join sdot (pre ++ [k])) [] = Ok false /\
  exists_path pf sep m' (join sdot (pre ++ [nn])) [] = Ok true /\
  value_for_path pf sep m' (join sdot (pre ++ [nn])) = value_for_path pf sep m (join sdot (pre ++ [k])).
Proof.
  intros Hp Hn Hw H.
  assert (Hp' : plain_keys (pre ++ [nn])).
  { apply plain_keys_app. apply plain_keys_app in Hp as [Hp _]. split; [exact Hp|].
    unfold plain_keys. cbn. rewrite Hn. reflexivity. }
  destruct (rename_ok_shape _ _ _ _ _ Hp Hn H) as (c & v & Hg & Hl & Hr & _ & Hnk & ->).
  assert (Hg' : get_keys pre (put_keys pre (VMap (del k (set nn v c))) m)
                = Some (VMap (del k (set nn v c)))) by (apply get_put_same; congruence).
  rewrite (exists_below_parent _ _ _ _ Hp Hg'), (exists_below_parent _ _ _ _ Hp' Hg').
  rewrite (value_below_parent _ _ _ _ Hp' Hg'), (value_below_parent _ _ _ _ Hp Hg).
  rewrite lookup_renamed_new by exact Hnk.
  rewrite lookup_renamed_old by (apply wfb_map_nodup; eapply wf_get_keys; eassumption).
  rewrite Hl, Hr. repeat split; reflexivity.
Qed.

(* frame: key lists that part ways with both the old and the new place are untouched *)
Theorem rename_frame m pre k nn m' :
  plain_keys (pre ++ [k]) -> plain_keyb nn = true ->
  rename_key pf sep m (join sdot (pre ++ [k])) nn = Ok m' ->
  forall qs, diverge (pre ++ [k]) qs = true -> diverge (pre ++ [nn]) qs = true ->
             get_keys qs m' = get_keys qs m.
Proof.
  intros Hp Hn H qs Hq1 Hq2.
  destruct (rename_ok_shape _ _ _ _ _ Hp Hn H) as (c & v & Hg & Hl & _ & _ & Hnk & ->).
  destruct (diverge_snoc _ _ _ Hq1) as [Hdv|(q & r & -> & Hqk)].
  - apply get_put_diverge; exact Hdv.
  - assert (Hqn : q <> nn).
    { intros ->. clear -Hq2. induction pre as [|a t IH]; cbn in Hq2.
      - rewrite str_eqb_refl in Hq2. discriminate.
      - rewrite str_eqb_refl in Hq2. apply IH; exact Hq2. }
    rewrite get_put_below by congruence. rewrite get_keys_app, Hg. cbn [get_keys].
    rewrite lookup_renamed_other by assumption. reflexivity.
Qed.

Theorem rename_ancestors m pre k nn m' :
  plain_keys (pre ++ [k]) -> plain_keyb nn = true ->
  rename_key pf sep m (join sdot (pre ++ [k])) nn = Ok m' ->
  forall qs r a, pre = qs ++ r -> r <> [] -> get_keys qs m = Some (VMap a) ->
  exists a', get_keys qs m' = Some (VMap a') /\ map fst a' = map fst a.
Proof.
  intros Hp Hn H qs r a Hpre Hr Ha.
  destruct (rename_ok_shape _ _ _ _ _ Hp Hn H) as (c & v & Hg & Hl & _ & _ & _ & ->).
  eapply put_keys_keeps_keys; [congruence|exact Ha|eauto].
Qed.

Theorem rename_wf m pre k nn m' :
  plain_keys (pre ++ [k]) -> plain_keyb nn = true -> wfb m = true ->
  rename_key pf sep m (join sdot (pre ++ [k])) nn = Ok m' -> wfb m' = true.
Proof.
  intros Hp Hn Hw H.
  destruct (rename_ok_shape _ _ _ _ _ Hp Hn H) as (c & v & Hg & Hl & _ & _ & _ & ->).
  assert (Hc : wfb (VMap c) = true) by (eapply wf_get_keys; eassumption).
  apply wf_put_keys; [exact Hw|]. apply wf_del. apply wf_set; [exact Hc|]. eapply wf_lookup; eassumption.
Qed.
End Paths.

(* ================= SetValueForPath ================= *)
Lemma vfkp_loc_get_keys_app pre rest : forall m v p,
  nostar pre -> get_keys pre m = Some v ->
  vfkp_loc (pre ++ rest) m p = vfkp_loc rest v (p ++ map SK pre).
Proof.
  induction pre as [|k t IH]; intros m v p Hs H; cbn in H.
  - inversion H; subst. cbn. rewrite app_nil_r. reflexivity.
  - inversion Hs as [|? ? Hk Ht]; subst.
    destruct m; try discriminate. destruct (lookup k m) as [x|] eqn:E; [|discriminate].
    cbn [app vfkp_loc map]. rewrite Hk, E. rewrite (IH _ _ _ Ht H). rewrite <- app_assoc. reflexivity.
Qed.

Lemma vfkp_loc_no_list ks : forall m p,
  nostar ks -> no_list_on ks m = true -> get_keys ks m = None -> vfkp_loc ks m p = [].
Proof.
  induction ks as [|k t IH]; intros m p Hs Hn Hg; [discriminate|].
  inversion Hs as [|? ? Hk Ht]; subst. cbn in Hn, Hg. cbn [vfkp_loc]. rewrite Hk.
  destruct m; try reflexivity; [|discriminate].
  destruct (lookup k m) as [x|]; [apply IH; assumption|reflexivity].
Qed.

Lemma values_for_path_loc_keys m pre :
  plain_keys pre -> values_for_path_loc m (join sdot pre) = Ok (vfkp_loc pre m []).
Proof.
  intros Hp. unfold values_for_path_loc. rewrite plain_keys_no_lbr by exact Hp. cbn [negb].
  unfold ovfp_loc. destruct pre as [|a t]; [reflexivity|].
  rewrite path_keys_join; [reflexivity|discriminate|apply plain_keys_good; exact Hp].
Qed.

Lemma no_list_on_snoc_inv pre k : forall m,
  no_list_on (pre ++ [k]) m = true ->
  no_list_on pre m = true /\ forall l, get_keys pre m <> Some (VList l).
Proof.
  induction pre as [|a t IH]; intros m H.
  - cbn in H. split; [reflexivity|]. intros l E. cbn in E. inversion E; subst. discriminate.
  - cbn in H |- *. destruct m; try (split; [reflexivity|discriminate]); [|discriminate].
    destruct (lookup a m) as [x|]; [apply IH; exact H|split; [reflexivity|discriminate]].
Qed.

(* the whole operation as one equation, on walks that meet no list *)
Theorem set_spec m v pre k :
  plain_keys pre -> mem_ascii dot k = false -> no_list_on (pre ++ [k]) m = true ->
  set_value_for_path m v (join sdot (pre ++ [k])) =
  match get_keys pre m with
  | Some (VMap c) => Ok (put_keys pre (VMap (set k v c)) m)
  | Some VNil => Ok m                                   (* documented no-op *)
  | _ => Err EOther
  end.
Proof.
  intros Hp Hk Hn.
  assert (Hd : dotfree (pre ++ [k])).
  { apply dotfree_app. split; [apply plain_keys_dotfree; exact Hp|]. unfold dotfree. cbn. rewrite Hk. reflexivity. }
  destruct (no_list_on_snoc_inv _ _ _ Hn) as [Hn1 Hn2].
  unfold set_value_for_path.
  rewrite split1_join_keys by (try apply snoc_nonempty; exact Hd).
  rewrite removelast_last, last_last.
  rewrite values_for_path_loc_keys by exact Hp. cbn [bind].
  destruct (get_keys pre m) as [pv|] eqn:Hg.
  - rewrite <- (app_nil_r pre) at 1.
    rewrite (vfkp_loc_get_keys_app _ _ _ _ _ (plain_keys_nostar _ Hp) Hg). cbn [app].
    destruct pv; cbn [vfkp_loc]; try reflexivity.
    + rewrite put_keys_update_at. reflexivity.
    + exfalso. eapply Hn2; reflexivity.
  - rewrite vfkp_loc_no_list; [reflexivity|apply plain_keys_nostar; exact Hp|exact Hn1|exact Hg].
Qed.

(* the success case needs no side condition on the rest of the tree *)
Theorem set_ok m v pre k c :
  plain_keys pre -> mem_ascii dot k = false -> get_keys pre m = Some (VMap c) ->
  set_value_for_path m v (join sdot (pre ++ [k])) = Ok (put_keys pre (VMap (set k v c)) m).
Proof.
  intros Hp Hk Hg. rewrite set_spec; [rewrite Hg; reflexivity|exact Hp|exact Hk|].
  eapply no_list_on_snoc; exact Hg.
Qed.

Section SetPost.
Variable pf : str -> option flt.
Variable sep : str.

(* post-condition, frame, parent, ancestors in one statement about the result *)
Theorem set_post m v pre k c :
  plain_keys pre -> mem_ascii dot k = false -> get_keys pre m = Some (VMap c) ->
  exists m', set_value_for_path m v (join sdot (pre ++ [k])) = Ok m' /\
    get_keys (pre ++ [k]) m' = Some v /\
    (forall r, get_keys (pre ++ k :: r) m' = get_keys r v) /\
    get_keys pre m' = Some (VMap (set k v c)) /\
    (forall qs, diverge (pre ++ [k]) qs = true -> get_keys qs m' = get_keys qs m) /\
    (forall qs r a, pre = qs ++ r -> r <> [] -> get_keys qs m = Some (VMap a) ->
       exists a', get_keys qs m' = Some (VMap a') /\ map fst a' = map fst a) /\
    (wfb m = true -> wfb v = true -> wfb m' = true).
Proof.
  intros Hp Hk Hg. eexists. split; [apply set_ok; eassumption|].
  assert (Hne : get_keys pre m <> None) by congruence.
  assert (Hbelow : forall r, get_keys (pre ++ k :: r) (put_keys pre (VMap (set k v c)) m) = get_keys r v).
  { intros r. rewrite get_put_below by exact Hne. cbn [get_keys]. rewrite lookup_set_same. reflexivity. }
  split; [apply (Hbelow [])|]. split; [exact Hbelow|].
  split; [apply get_put_same; exact Hne|]. split; [|split].
  - intros qs Hq. destruct (diverge_snoc _ _ _ Hq) as [Hdv|(q & r & -> & Hqk)].
    + apply get_put_diverge; exact Hdv.
    + rewrite get_put_below by exact Hne. rewrite get_keys_app, Hg. cbn [get_keys].
      rewrite lookup_set_other by exact Hqk. reflexivity.
  - intros qs r a Hpre Hr Ha. eapply put_keys_keeps_keys; [exact Hne|exact Ha|eauto].
  - intros Hw Hv. apply wf_put_keys; [exact Hw|]. apply wf_set; [|exact Hv]. eapply wf_get_keys; [exact Hw|exact Hg].
Qed.

(* ... and through the library's own observers *)
Theorem set_then_value m v pre k c m' :
  plain_keys (pre ++ [k]) -> get_keys pre m = Some (VMap c) ->
  set_value_for_path m v (join sdot (pre ++ [k])) = Ok m' ->
  values_for_path pf sep m' (join sdot (pre ++ [k])) [] = Ok (final v) /\
  value_for_path pf sep m' (join sdot (pre ++ [k])) =
    match final v with x :: _ => Ok x | [] => Err EOther end /\
  exists_path pf sep m' (join sdot (pre ++ [k])) [] = Ok (reportable v).
Proof.
  intros Hp Hg H.
  assert (Hpp : plain_keys pre) by (apply plain_keys_app in Hp as [Hp _]; exact Hp).
  assert (Hk : mem_ascii dot k = false).
  { apply plain_keys_app in Hp as [_ Hp]. unfold plain_keys in Hp. cbn in Hp.
    rewrite andb_true_r in Hp. apply plain_keyb_parts in Hp. tauto. }
  rewrite (set_ok _ _ _ _ _ Hpp Hk Hg) in H. inversion H; subst m'. clear H.
  assert (Hg' : get_keys pre (put_keys pre (VMap (set k v c)) m) = Some (VMap (set k v c)))
    by (apply get_put_same; congruence).
  rewrite (exists_below_parent _ _ _ _ _ _ Hp Hg'), (value_below_parent _ _ _ _ _ _ Hp Hg').
  rewrite lookup_set_same. split; [|split; reflexivity].
  rewrite values_for_path_get_keys; [|apply snoc_nonempty|exact Hp|eapply no_list_on_snoc; exact Hg'].
  rewrite get_keys_app, Hg'. cbn [get_keys]. rewrite lookup_set_same. reflexivity.
Qed.
End SetPost.

(* failure and no-op cases, on walks that meet no list *)
Theorem set_nil_noop m v pre k :
  plain_keys pre -> mem_ascii dot k = false -> get_keys pre m = Some VNil ->
  set_value_for_path m v (join sdot (pre ++ [k])) = Ok m.
Proof.
  intros Hp Hk Hg. rewrite set_spec; [rewrite Hg; reflexivity|exact Hp|exact Hk|].
  clear -Hg. revert m Hg; induction pre as [|a t IH]; intros m Hg; cbn in Hg |- *.
  - inversion Hg; reflexivity.
  - destruct m; try discriminate. destruct (lookup a m); [apply IH; exact Hg|reflexivity].
Qed.

Theorem set_ok_iff m v pre k :
  plain_keys pre -> mem_ascii dot k = false -> no_list_on (pre ++ [k]) m = true ->
  (exists m', set_value_for_path m v (join sdot (pre ++ [k])) = Ok m') <->
  ((exists c, get_keys pre m = Some (VMap c)) \/ get_keys pre m = Some VNil).
Proof.
  intros Hp Hk Hn. rewrite set_spec by assumption.
  destruct (get_keys pre m) as [pv|].
  - destruct pv; try (split; [intros [? ?]; discriminate|intros [[? ?]|?]; discriminate]).
    + split; [right; reflexivity|eauto].
    + split; [left; eauto|eauto].
  - split; [intros [? ?]; discriminate|intros [[? ?]|?]; discriminate].
Qed.

Theorem set_fails m v pre k :
  plain_keys pre -> mem_ascii dot k = false -> no_list_on (pre ++ [k]) m = true ->
  match get_keys pre m with Some (VMap _) | Some VNil => False | _ => True end ->
  set_value_for_path m v (join sdot (pre ++ [k])) = Err EOther.
Proof.
  intros Hp Hk Hn H. rewrite set_spec by assumption.
  destruct (get_keys pre m) as [pv|]; [|reflexivity]. destruct pv; try reflexivity; contradiction.
Qed.

(* ================= Maps without empty lists ================= *)
Lemma noel_map m : no_empty_lists (VMap m) = forallb (fun kv => no_empty_lists (snd kv)) m.
Proof. cbn [no_empty_lists]. induction m as [|[k v] t IH]; [reflexivity|]. cbn [forallb snd]. rewrite <- IH. reflexivity. Qed.

Lemma noel_reportable v : no_empty_lists v = true -> reportable v = true.
Proof. destruct v; try reflexivity. destruct l; [discriminate|reflexivity]. Qed.

Lemma noel_get_keys ks : forall m v, no_empty_lists m = true -> get_keys ks m = Some v -> no_empty_lists v = true.
Proof.
  induction ks as [|k t IH]; intros m v Hw H; cbn in H.
  - inversion H; subst; exact Hw.
  - destruct m; try discriminate. destruct (lookup k m) as [x|] eqn:E; [|discriminate].
    eapply IH; [|exact H]. rewrite noel_map in Hw. eapply forallb_lookup with (P := no_empty_lists); eassumption.
Qed.

(* RenameKey on a Map without empty lists: succeeds exactly when the old key
   list is found through maps and the new sibling is absent *)
Theorem rename_ok_iff_noel pf sep m pre k nn :
  plain_keys (pre ++ [k]) -> plain_keyb nn = true -> no_empty_lists m = true ->
  (exists m', rename_key pf sep m (join sdot (pre ++ [k])) nn = Ok m') <->
  get_keys (pre ++ [k]) m <> None /\ get_keys (pre ++ [nn]) m = None.
Proof.
  intros Hp Hn Hw. rewrite rename_ok_iff by assumption. split.
  - intros [[v [Hv _]] Hs]. split; [congruence|].
    destruct (get_keys (pre ++ [nn]) m) as [x|] eqn:E; [|reflexivity].
    rewrite (noel_reportable x) in Hs; [discriminate|]. eapply noel_get_keys; eassumption.
  - intros [Hk Hs]. rewrite Hs. split; [|exact I].
    destruct (get_keys (pre ++ [k]) m) as [v|] eqn:E; [|congruence].
    exists v. split; [reflexivity|]. apply noel_reportable. eapply noel_get_keys; eassumption.
Qed.

(* ================= one-segment paths (parent path "") ================= *)
Lemma plain_keys_one k : plain_keyb k = true -> plain_keys ([] ++ [k]).
Proof. intros H. unfold plain_keys. cbn. rewrite H. reflexivity. Qed.

Theorem remove_top c k :
  mem_ascii dot k = false ->
  remove_path (VMap c) k = if has_key k c then Ok (VMap (del k c)) else Err EOther.
Proof.
  intros Hk. pose proof (remove_spec (VMap c) [] k) as H. cbn in H. apply H.
  unfold dotfree. cbn. rewrite Hk. reflexivity.
Qed.

Theorem rename_top pf sep c k nn :
  plain_keyb k = true -> plain_keyb nn = true ->
  rename_key pf sep (VMap c) k nn =
  match lookup k c with
  | Some v => if reportable v && sibling_free nn c then Ok (VMap (del k (set nn v c))) else Err EOther
  | None => Err EOther
  end.
Proof.
  intros Hk Hn. pose proof (rename_spec pf sep (VMap c) [] k nn (plain_keys_one k Hk) Hn) as H.
  cbn in H. exact H.
Qed.

(* the top-level case of the refusal: the pinned tree overwrote the sibling here *)
Theorem rename_top_refuses pf sep c k nn x :
  plain_keyb k = true -> plain_keyb nn = true ->
  lookup nn c = Some x -> reportable x = true ->
  rename_key pf sep (VMap c) k nn = Err EOther.
Proof.
  intros Hk Hn Hl Hr.
  apply (rename_refuses pf sep (VMap c) [] k nn x (plain_keys_one k Hk) Hn); [|exact Hr].
  cbn. rewrite Hl. reflexivity.
Qed.

Theorem set_top c v k :
  mem_ascii dot k = false -> set_value_for_path (VMap c) v k = Ok (VMap (set k v c)).
Proof.
  intros Hk. apply (set_ok (VMap c) v [] k c); [reflexivity|exact Hk|reflexivity].
Qed.
