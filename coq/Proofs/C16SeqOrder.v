(* C16, MapSeq part: the MapSeq encoder writes the sub-elements of an element, and its attributes, in
   ascending order of their sequence numbers, whatever the order of the entry lists. *)
From Coq Require Import Permutation Sorting.Sorted.
From Mxj Require Import Spec.SeqDistinct Spec.Veq Proofs.StrLemmas Proofs.C04Sort Proofs.C04Map
     Proofs.C16P Proofs.C16Veq Proofs.C16Seq.

Lemma sorted_kle_map {A} (key : A -> Z) l : StronglySorted (kle key) l -> StronglySorted Z.le (map key l).
Proof.
  induction 1 as [|a t _ IH Ha]; cbn [map]; constructor; [exact IH|].
  apply Forall_forall. intros z Hz. apply in_map_iff in Hz. destruct Hz as [y [<- Hy]].
  rewrite Forall_forall in Ha. exact (Ha y Hy).
Qed.

Lemma sorted_klt_map {A} (key : A -> Z) l : StronglySorted (klt key) l -> StronglySorted Z.lt (map key l).
Proof.
  induction 1 as [|a t _ IH Ha]; cbn [map]; constructor; [exact IH|].
  apply Forall_forall. intros z Hz. apply in_map_iff in Hz. destruct Hz as [y [<- Hy]].
  rewrite Forall_forall in Ha. exact (Ha y Hy).
Qed.

Lemma sconcat_ok rs body :
  sconcat rs = Ok body -> exists bs, rs = map Ok bs /\ body = concat bs.
Proof.
  revert body. induction rs as [|r t IH]; cbn [sconcat]; intros body H.
  - injection H as <-. exists []. split; reflexivity.
  - destruct r as [a| |]; cbn [bind] in H; try discriminate H.
    destruct (sconcat t) as [b| |]; cbn [bind] in H; try discriminate H. injection H as <-.
    destruct (IH b eq_refl) as [bs [-> ->]]. exists (a :: bs). split; reflexivity.
Qed.

Lemma sattrs_loop_keys o kv attrs : sattrs_loop o kv = Ok attrs -> map fst attrs = map fst kv.
Proof.
  revert attrs. induction kv as [|[k v] t IH]; cbn [sattrs_loop]; intros attrs H.
  - injection H as <-. reflexivity.
  - destruct v; try discriminate H. destruct (sattr_text o (lookup (textK o) m)); [|discriminate H].
    destruct (sattrs_loop o t) as [r| |]; cbn [bind] in H; try discriminate H. injection H as <-.
    cbn [map fst]. rewrite (IH r eq_refl). reflexivity.
Qed.

Section Order.
Variable o : opts.

Definition knum (kv : str * value) : Z := seq_num o (snd kv).

(* the attributes: the entries of the "#attr" map in ascending sequence order, under their names *)
Theorem sattrs_in_sequence_order val ha attrs :
  sattrs o val = Ok (ha, attrs) ->
  match lookup (attrK o) val with
  | Some (VMap aa) =>
      ha = true /\
      exists sorted, Permutation sorted aa /\ StronglySorted Z.le (attr_seqs o sorted) /\
                     sattrs_loop o sorted = Ok attrs /\ map fst attrs = map fst sorted
  | _ => ha = false /\ attrs = []
  end.
Proof.
  unfold sattrs. intro H.
  destruct (lookup (attrK o) val) as [[]|]; try (injection H as <- <-; split; reflexivity).
  unfold seq_sort in H. cbn [bind] in H.
  destruct (sattrs_loop o (isort (fun x : str * value => seq_num o (snd x)) m)) as [a| |] eqn:E;
    cbn [bind] in H; try discriminate H.
  injection H as <- <-. split; [reflexivity|].
  exists (isort (fun x : str * value => seq_num o (snd x)) m).
  split; [apply isort_perm|]. split; [apply (sorted_kle_map (fun x : str * value => seq_num o (snd x))), isort_sorted|].
  split; [exact E | exact (sattrs_loop_keys o _ _ E)].
Qed.

(* the element: either written without sub-elements (text only / empty), or start tag, leading text, the
   encodings of ALL its sub-elements (list members unrolled) in ascending sequence order, end tag *)
Theorem senc_children_in_sequence_order key val its :
  is_special_key o key = false ->
  senc o (VMap val) key = Ok its ->
  exists ha attrs,
    sattrs o val = Ok (ha, attrs) /\
    ((exists t, its = [SI (IOpen key attrs); SI (IText t); SI (IClose key)]) \/
     its = empty_or_broken o key attrs \/
     exists ks bodies,
       Permutation ks (seq_kids o val) /\
       StronglySorted Z.le (map knum ks) /\
       Forall2 (fun kv body => senc o (snd kv) (fst kv) = Ok body) ks bodies /\
       its = SI (IOpen key attrs) :: lead_text o val ++ concat bodies ++ [SI (IClose key)]).
Proof.
  intros Esp H. rewrite senc_VMap in H. unfold smap in H.
  unfold is_special_key in Esp.
  apply Bool.orb_false_iff in Esp. destruct Esp as [Esp E3]. apply Bool.orb_false_iff in Esp. destruct Esp as [E1 E2].
  rewrite E1, E2, E3 in H.
  destruct (sattrs o val) as [[ha attrs]| |]; cbn [bind] in H; try discriminate H.
  exists ha, attrs. split; [reflexivity|]. cbn [fst snd] in H.
  change (lead_of o (lookup (textK o) val)) with (lead_text o val) in H.
  assert (G : bind (sconcat (map snd (isort (tnum o) (kid_triples o val))))
                   (fun body => Ok (SI (IOpen key attrs) :: lead_text o val ++ body ++ [SI (IClose key)])) = Ok its ->
              exists ks bodies,
                Permutation ks (seq_kids o val) /\
                StronglySorted Z.le (map knum ks) /\
                Forall2 (fun kv body => senc o (snd kv) (fst kv) = Ok body) ks bodies /\
                its = SI (IOpen key attrs) :: lead_text o val ++ concat bodies ++ [SI (IClose key)]).
  { clear H. intro H.
    destruct (sconcat (map snd (isort (tnum o) (kid_triples o val)))) as [body| |] eqn:Ec; cbn [bind] in H; try discriminate H.
    injection H as <-. destruct (sconcat_ok _ _ Ec) as [bs [Ebs ->]].
    rewrite kid_triples_unroll in Ebs.
    rewrite <- (isort_map knum (tnum o) (triple o) (fun _ => eq_refl)) in Ebs. rewrite map_map in Ebs.
    exists (isort knum (unroll o val)), bs.
    split; [apply isort_perm|]. split; [apply sorted_kle_map, isort_sorted|]. split; [|reflexivity].
    clear Ec. revert bs Ebs. induction (isort knum (unroll o val)) as [|kv t IH]; intros [|b bs] Ebs; try discriminate Ebs;
      [constructor|].
    cbn [map] in Ebs. injection Ebs as Eb Ebs. constructor; [exact Eb | apply IH; exact Ebs]. }
  destruct (lookup (textK o) val) as [v|].
  - destruct (Nat.eqb (length val) (if ha then 3 else 2) && has_key (seqK o) val); [|right; right; apply G; exact H].
    destruct v as [[|c x]| | | | | | | | |]; injection H as <-;
      first [right; left; reflexivity | left; eexists; reflexivity].
  - destruct (Nat.eqb (length val) (if ha then 2 else 1) && has_key (seqK o) val); [|right; right; apply G; exact H].
    injection H as <-. right; left; reflexivity.
Qed.

(* with pairwise distinct numbers: strictly ascending, and the list of sub-elements written is determined *)
Theorem sorted_kids_strict val ks :
  nodupZ (kid_seqs o val) = true ->
  Permutation ks (seq_kids o val) -> StronglySorted Z.le (map knum ks) -> StronglySorted Z.lt (map knum ks).
Proof.
  intros Hd P S.
  assert (Hnd : NoDup (map knum ks)).
  { eapply Permutation_NoDup; [apply Permutation_map; symmetry; exact P|]. apply nodupZ_NoDup. exact Hd. }
  clear P Hd. induction S as [|a t _ IH Ha]; [constructor|].
  inversion Hnd as [|? ? Hnin Hnd']; subst. constructor; [apply IH; exact Hnd'|].
  rewrite Forall_forall in Ha. apply Forall_forall. intros z Hz. specialize (Ha z Hz).
  assert (a <> z) by (intro E; subst; contradiction). lia.
Qed.
End Order.
