(* C03: the decoder model applied to the encoder model's items yields [img]
   (Spec/Img.v), for every value of the domain [dom03] and every whitespace insertion. *)
From Mxj Require Import Spec.Items Spec.Img Proofs.StrLemmas Proofs.XmlStr Proofs.XmlItems
     Proofs.XmlRT Proofs.XmlWF Proofs.XmlImgG.
From Coq Require Import Permutation.

(* ---------------- %v of integers has no special character ---------------- *)
Lemma digit_plain r : (r < 10)%N -> specialb (ascii_of_N (48 + r)) = false.
Proof.
  intro Hr.
  assert (H : (r = 0 \/ r = 1 \/ r = 2 \/ r = 3 \/ r = 4 \/ r = 5 \/ r = 6 \/ r = 7 \/ r = 8 \/ r = 9)%N) by lia.
  repeat (destruct H as [H|H]; [subst r; reflexivity|]). subst r. reflexivity.
Qed.
Lemma ntoa_sf fuel : forall n acc, special_free' acc = true -> special_free' (ntoa_aux fuel n acc) = true.
Proof.
  induction fuel as [|f IH]; intros n acc Ha; cbn [ntoa_aux]; [exact Ha|].
  assert (Hd : special_free' (ascii_of_N (48 + N.modulo n 10) :: acc) = true).
  { cbn [special_free' forallb]. rewrite digit_plain by (apply N.mod_lt; discriminate). exact Ha. }
  destruct (n <? 10)%N; [exact Hd | apply IH, Hd].
Qed.
Lemma ztoa_sf z : special_free' (ztoa z) = true.
Proof.
  unfold ztoa. destruct (z <? 0)%Z.
  - cbn [special_free' forallb]. change (specialb "-"%char) with false. cbn [negb andb]. apply ntoa_sf. reflexivity.
  - apply ntoa_sf. reflexivity.
Qed.

Section P.
Variable pf : str -> option flt.
Variable o : opts.
Hypothesis H3 : opts03 o.

Notation imgsG := (imgsG pf o false).
Notation elem_val := (elem_val pf o false).

Lemma cast_false x t : cast pf nskip o x false t = VStr x.
Proof. unfold cast, nskip. rewrite andb_false_r. reflexivity. Qed.
Lemma xform_id k : xform_key o k = k.
Proof. unfold xform_key. rewrite (o3_lower o H3), (o3_snake o H3). reflexivity. Qed.
Lemma attr_key_id n : attr_key o n = attrPrefix o ++ n.
Proof. unfold attr_key. rewrite (o3_lower o H3), (o3_snake o H3). reflexivity. Qed.

Lemma elem_val_03 K A txt X :
  elem_val K A txt X =
  match trimv o txt with
  | [] => finish_elem o None (add_all X A)
  | t1 => match A with
          | [] => finish_elem o (Some (VStr t1)) (add_all X [])
          | _ => finish_elem o None (add_all X (set (textK o) (VStr t1) A))
          end
  end.
Proof.
  unfold XmlRT.elem_val, on_chardata, trimv. rewrite (o3_escdec o H3), (o3_simple o H3).
  destruct (trim (trimRunes o) txt) as [|ch t1]; [reflexivity|].
  rewrite !cast_false. destruct A; reflexivity.
Qed.

Lemma finish_none na : finish_elem o None na = match na with [] => VStr [] | p :: l => VMap (p :: l) end.
Proof. destruct na; reflexivity. Qed.

Lemma elem_val_scalar K txt : elem_val K [] txt [] = VStr (trimv o txt).
Proof. rewrite elem_val_03. destruct (trimv o txt); reflexivity. Qed.

(* ---------------- scalars as written and as read ---------------- *)
Lemma str_dom_txt x : str_dom o x = true -> raw_okb (esc o x) = true /\ unescape (esc o x) = x.
Proof.
  unfold str_dom, esc. destruct (xmlEscapeChars o); cbn [orb]; intro H.
  - split; [apply raw_ok_escape | apply unescape_escape].
  - split; [apply raw_ok_special_free, H | apply unescape_special_free, H].
Qed.

Lemma attr_scalar_txt v : attr_scalar o v = true ->
  exists raw, attr_text o v = Some raw /\ text_text o v = raw /\ raw_okb raw = true /\ unescape raw = scalar_txt v.
Proof.
  destruct v; cbn [attr_scalar]; try discriminate; intro H.
  - destruct (str_dom_txt x H) as [H1 H2]. exists (esc o x). auto.
  - exists (fmt_v (VBool b)). destruct b; repeat split; reflexivity.
  - exists (ztoa z). repeat split; [apply raw_ok_special_free, ztoa_sf | apply unescape_special_free, ztoa_sf].
  - exists (ztoa z). repeat split; [apply raw_ok_special_free, ztoa_sf | apply unescape_special_free, ztoa_sf].
  - exists f. repeat split; [apply raw_ok_special_free, H | apply unescape_special_free, H].
  - exists x. repeat split; [apply raw_ok_special_free, H | apply unescape_special_free, H].
Qed.

(* an element / text scalar: an attribute scalar or a uint64 (written with %v as an element, refused as an attribute) *)
Lemma elem_scalar_txt v : elem_scalar o v = true ->
  is_scalar v = true /\ raw_okb (text_text o v) = true /\ unescape (text_text o v) = scalar_txt v.
Proof.
  destruct v; cbn [elem_scalar]; try (intro H; destruct (attr_scalar_txt _ H) as [raw [_ [Ht [Hr Hu]]]];
    rewrite Ht; repeat split; assumption).
  intros _. repeat split; [apply raw_ok_special_free, ztoa_sf | apply unescape_special_free, ztoa_sf].
Qed.

Lemma text_scalar_txt v : text_scalar o v = true ->
  is_scalar v = true /\ raw_okb (text_text o v) = true /\ unescape (text_text o v) = scalar_txt v.
Proof.
  destruct v; cbn [text_scalar]; try (apply elem_scalar_txt).
  intros _. repeat split; reflexivity.
Qed.

Lemma attr_scalar_unescape v : elem_scalar o v = true -> unescape (text_text o v) = scalar_txt v.
Proof. intro H. apply (elem_scalar_txt v H). Qed.

(* ---------------- dom03 implies the well-formedness domain ---------------- *)
Lemma dom03_wdom : forall v, dom03 o v = true -> wdom o v = true.
Proof.
  induction v using value_ind2; cbn [dom03 wdom]; intro Hd; try reflexivity;
    try (exact (proj1 (proj2 (elem_scalar_txt _ Hd)))).
  - rename m into vv. apply andb_true_iff in Hd. destruct Hd as [Hnd Hall].
    apply andb_true_iff. split; [exact Hnd|]. rewrite forallb_forall in *. intros [k v] Hin.
    specialize (Hall _ Hin). rewrite Forall_forall in H. specialize (H _ Hin). cbn [fst snd] in *.
    destruct (is_attr_key o k).
    + apply andb_true_iff in Hall. destruct Hall as [Hn Hs]. rewrite Hn. cbn [andb].
      destruct (attr_scalar_txt _ Hs) as [raw [Ha [_ [Hr _]]]]. unfold attr_raw_ok. rewrite Ha. exact Hr.
    + destruct (str_eqb k (textK o)).
      * destruct (text_scalar_txt _ Hall) as [Hs [Hr _]]. rewrite Hs, Hr. reflexivity.
      * apply andb_true_iff in Hall. destruct Hall as [Hn Hs]. rewrite Hn. cbn [andb]. apply H, Hs.
  - rewrite forallb_forall in *. intros v Hin. rewrite Forall_forall in H. apply (H v Hin), Hd, Hin.
Qed.

(* ---------------- images are non-empty lists of non-list values ---------------- *)
Lemma imgs_shape : forall v, imgs o v <> [] /\ Forall nonlist (imgs o v).
Proof.
  induction v using value_ind2; cbn [imgs];
    try (split; [discriminate | constructor; [reflexivity | constructor]]).
  - split; [discriminate|]. constructor; [|constructor].
    unfold nonlist.
    repeat (match goal with |- is_list (match ?x with _ => _ end) = false => destruct x end); reflexivity.
  - destruct l as [|a l]; [split; [discriminate | constructor; [reflexivity | constructor]]|].
    inversion H as [|? ? [Ha1 Ha2] Hl]; subst. split.
    + cbn [flat_map]. destruct (imgs o a); [congruence | discriminate].
    + apply Forall_flat_map. eapply Forall_impl; [|exact H]. intros x [_ Hx]. exact Hx.
Qed.

(* ---------------- the entries of a map of the domain, by kind ---------------- *)
Lemma filter_nodup_keys {A} (p : str * A -> bool) l : NoDup (map fst l) -> NoDup (map fst (filter p l)).
Proof.
  induction l as [|a l IH]; cbn [filter map]; [constructor|].
  intro H. inversion H as [|? ? Hn Hd]; subst. destruct (p a); [|apply IH, Hd].
  cbn [map]. constructor; [|apply IH, Hd].
  intro Hin. apply Hn. apply in_map_iff in Hin. destruct Hin as [x [Hx Hin]].
  apply filter_In in Hin. apply in_map_iff. exists x. tauto.
Qed.

Lemma flat_map_ext_in' {A B} (f g : A -> list B) l :
  (forall x, In x l -> f x = g x) -> flat_map f l = flat_map g l.
Proof.
  induction l as [|a l IH]; intro H; cbn [flat_map]; [reflexivity|].
  rewrite (H a (or_introl eq_refl)), IH; [reflexivity|]. intros x Hx. apply H. right. exact Hx.
Qed.

Lemma dom03_map vv : dom03 o (VMap vv) = true ->
  NoDup (map fst vv) /\
  (forall k v, In (k, v) vv -> is_attr_key o k = true ->
               name_okb (skipn (lenAttrPrefix o) k) = true /\ attr_scalar o v = true) /\
  (forall v, In (textK o, v) vv -> text_scalar o v = true) /\
  (forall k v, In (k, v) vv -> is_elem o k = true -> name_okb k = true /\ dom03 o v = true).
Proof.
  cbn [dom03]. intro H. apply andb_true_iff in H. destruct H as [Hnd Hall].
  rewrite forallb_forall in Hall. split; [apply nodup_keys_NoDup, Hnd|]. repeat split.
  - specialize (Hall _ H). cbn [fst snd] in Hall. rewrite H0 in Hall. apply andb_true_iff in Hall. apply Hall.
  - specialize (Hall _ H). cbn [fst snd] in Hall. rewrite H0 in Hall. apply andb_true_iff in Hall. apply Hall.
  - intros v Hin. specialize (Hall _ Hin). cbn [fst snd] in Hall.
    rewrite (o3_tk o H3), str_eqb_refl in Hall. exact Hall.
  - specialize (Hall _ H). cbn [fst snd] in Hall. unfold is_elem in H0.
    apply andb_true_iff in H0. destruct H0 as [E1 E2]. apply negb_true_iff in E1. apply negb_true_iff in E2.
    rewrite E1, E2 in Hall. apply andb_true_iff in Hall. apply Hall.
  - specialize (Hall _ H). cbn [fst snd] in Hall. unfold is_elem in H0.
    apply andb_true_iff in H0. destruct H0 as [E1 E2]. apply negb_true_iff in E1. apply negb_true_iff in E2.
    rewrite E1, E2 in Hall. apply andb_true_iff in Hall. apply Hall.
Qed.

Lemma attr_list_pairs vv :
  (forall k v, In (k, v) vv -> is_attr_key o k = true -> attr_scalar o v = true) ->
  attr_list o vv = map (fun nr => (fst nr, unescape (snd nr))) (attr_pairs o vv).
Proof.
  induction vv as [|[k v] t IH]; intro H; [reflexivity|].
  cbn [attr_list flat_map attr_pairs fst snd].
  assert (Ht : attr_list o t = map (fun nr => (fst nr, unescape (snd nr))) (attr_pairs o t))
    by (apply IH; intros k2 v2 Hin; apply H; right; exact Hin).
  unfold attr_list in Ht. destruct (is_attr_key o k) eqn:Ek; [|exact Ht].
  destruct (attr_scalar_txt v (H k v (or_introl eq_refl) Ek)) as [raw [Ha [_ [_ Hu]]]].
  rewrite Ha. cbn [map app fst snd]. rewrite Hu, Ht. reflexivity.
Qed.

Lemma app_inj_head (p : str) : FinFun.Injective (app p).
Proof. intros a b H. apply app_inv_head in H. exact H. Qed.

(* ---------------- Stage 2: the decoder's result is [imgs] ---------------- *)
Theorem imgsG_imgs : forall v key, dom03 o v = true -> imgsG v key = imgs o v.
Proof.
  induction v using value_ind2; intros key Hd.
  - cbn [XmlRT.imgsG imgs]. rewrite elem_val_scalar. cbn [dom03 attr_scalar] in Hd.
    destruct (str_dom_txt x Hd) as [_ ->]. reflexivity.
  - cbn [XmlRT.imgsG imgs]. rewrite elem_val_scalar.
    match goal with |- context [unescape (fmt_v ?v)] => change (fmt_v v) with (text_text o v) end.
    rewrite (attr_scalar_unescape _ Hd). reflexivity.
  - cbn [XmlRT.imgsG imgs]. rewrite elem_val_scalar. reflexivity.
  - cbn [XmlRT.imgsG imgs]. rewrite elem_val_scalar.
    match goal with |- context [unescape (fmt_v ?v)] => change (fmt_v v) with (text_text o v) end.
    rewrite (attr_scalar_unescape _ Hd). reflexivity.
  - cbn [XmlRT.imgsG imgs]. rewrite elem_val_scalar.
    match goal with |- context [unescape (fmt_v ?v)] => change (fmt_v v) with (text_text o v) end.
    rewrite (attr_scalar_unescape _ Hd). reflexivity.
  - cbn [XmlRT.imgsG imgs]. rewrite elem_val_scalar.
    match goal with |- context [unescape (fmt_v ?v)] => change (fmt_v v) with (text_text o v) end.
    rewrite (attr_scalar_unescape _ Hd). reflexivity.
  - cbn [XmlRT.imgsG imgs]. rewrite elem_val_scalar.
    match goal with |- context [unescape (fmt_v ?v)] => change (fmt_v v) with (text_text o v) end.
    rewrite (attr_scalar_unescape _ Hd). reflexivity.
  - cbn [XmlRT.imgsG imgs]. rewrite elem_val_scalar.
    match goal with |- context [unescape (fmt_v ?v)] => change (fmt_v v) with (text_text o v) end.
    rewrite (attr_scalar_unescape _ Hd). reflexivity.
  - (* VMap *)
    rename m into vv. destruct (dom03_map vv Hd) as [Hnd [Hattr [Htxt Hkid]]].
    assert (Hsc : attrs_scalar o vv).
    { intros k v Hin Ek. destruct (Hattr k v Hin Ek) as [_ Hs].
      destruct (attr_scalar_txt v Hs) as [raw [Ha _]]. rewrite Ha. discriminate. }
    rewrite (imgsG_map pf o false (o3_tk o H3) vv key Hnd Hsc).
    cbn [imgs]. f_equal.
    set (sk := sort_by_key (filter (is_elem_e o) vv)).
    assert (Hsk : forall k v, In (k, v) sk -> In (k, v) vv /\ is_elem o k = true).
    { intros k v Hin. apply sort_by_key_in, filter_In in Hin. exact Hin. }
    assert (HK : map_kids pf o false vv = map (fun kv => (fst kv, imgs o (snd kv))) sk).
    { unfold map_kids. apply map_ext_in. intros [k v] Hin. cbn [fst snd]. f_equal.
      destruct (Hsk k v Hin) as [Hin' Hp]. rewrite Forall_forall in H.
      apply (H _ Hin'). apply (Hkid k v Hin' Hp). }
    assert (HC : sort_by_key (filter (fun kx : str * list value => is_elem_key o (fst kx))
                                     (map (fun kv => (fst kv, imgs o (snd kv))) vv))
                 = map (fun kv => (fst kv, imgs o (snd kv))) sk).
    { rewrite (filter_map_key (is_elem_key o) (fun kv : str * value => (fst kv, imgs o (snd kv)))) by reflexivity.
      rewrite (sort_by_key_map (fun kv : str * value => (fst kv, imgs o (snd kv)))) by reflexivity. reflexivity. }
    rewrite HC, HK. clear HC HK.
    set (sa := sort_by_key (attr_pairs o vv)).
    assert (HL : sort_by_key (attr_list o vv) = map (fun nr => (fst nr, unescape (snd nr))) sa).
    { unfold sa. rewrite <- (sort_by_key_map (fun nr : str * str => (fst nr, unescape (snd nr)))) by reflexivity.
      f_equal. apply attr_list_pairs. intros k v Hin Ek. apply (Hattr k v Hin Ek). }
    assert (HA : attr_entries pf nskip o false (map mkattr sa)
                 = map (fun nx => (attrPrefix o ++ fst nx, VStr (snd nx))) (sort_by_key (attr_list o vv))).
    { rewrite (aents_map pf o false key sa).
      - rewrite HL, map_map. apply map_ext. intros [n r]. unfold attr_ent. cbn [fst snd].
        rewrite attr_key_id, (o3_escdec o H3), cast_false. reflexivity.
      - rewrite (map_ext _ (fun nr => attrPrefix o ++ fst nr)) by (intros; apply attr_key_id).
        rewrite <- (map_map fst (app (attrPrefix o))).
        apply FinFun.Injective_map_NoDup; [apply app_inj_head|].
        apply sort_by_key_nodup, attr_pairs_nodup, Hnd. }
    rewrite HA. clear HA.
    assert (HT : trimv o (map_txt o vv) =
                 match lookup (textK o) vv with Some tv => trimv o (scalar_txt tv) | None => [] end).
    { unfold map_txt. destruct (lookup (textK o) vv) as [tv|] eqn:Et; [|apply trim_nil].
      apply lookup_in in Et. destruct Et as [k' [Ek Hin]]. apply str_eqb_eq in Ek. subst k'.
      destruct (text_scalar_txt _ (Htxt tv Hin)) as [_ [_ ->]]. reflexivity. }
    rewrite elem_val_03, HT. clear HT.
    set (t := match lookup (textK o) vv with Some tv => trimv o (scalar_txt tv) | None => [] end).
    set (A' := map (fun nx : list ascii * str => (attrPrefix o ++ fst nx, VStr (snd nx))) (sort_by_key (attr_list o vv))).
    set (kids := map (fun kv : str * value => (fst kv, imgs o (snd kv))) sk).
    set (C := map (fun kx : str * list value => (fst kx, collapse (snd kx))) kids).
    assert (HCk : map fst C = map fst sk).
    { unfold C, kids. rewrite !map_map. reflexivity. }
    assert (Hadd : forall na, (forall k, In k (map fst sk) -> lookup k na = None) ->
                              add_all (kid_pairs o kids) na = na ++ C).
    { intros na Hfr. apply add_all_kids.
      - unfold kids. rewrite map_map. cbn [fst].
        apply sort_by_key_nodup, filter_nodup_keys, Hnd.
      - intros kx Hin. unfold kids in Hin. apply in_map_iff in Hin. destruct Hin as [[k v] [<- Hin]].
        cbn [fst snd]. destruct (imgs_shape v) as [Hne Hnl]. repeat split; try assumption.
        + apply xform_id.
        + apply Hfr. apply in_map_iff. exists (k, v). auto. }
    assert (HfA : forall k, In k (map fst sk) -> lookup k A' = None).
    { intros k Hin. apply lookup_none_notin. intro HinA.
      apply in_map_iff in Hin. destruct Hin as [[k1 v1] [Hk1 Hin]]. cbn [fst] in Hk1. subst k1.
      destruct (Hsk k v1 Hin) as [_ Hp]. unfold is_elem in Hp. apply andb_true_iff in Hp.
      destruct Hp as [Hp _]. apply negb_true_iff in Hp.
      unfold A' in HinA. rewrite map_map in HinA. cbn [fst] in HinA.
      apply in_map_iff in HinA. destruct HinA as [[n x] [Hn HinA]]. cbn [fst] in Hn.
      rewrite HL in HinA. apply in_map_iff in HinA. destruct HinA as [[n2 r] [Heq HinA]].
      cbn [fst snd] in Heq. inversion Heq; subst n2 x.
      apply sort_by_key_in, attr_pairs_in in HinA.
      destruct HinA as [k0 [v0 [_ [Ek0 [Hs0 _]]]]].
      rewrite <- Hs0, <- (attr_key_split o k0 Ek0) in Hn. subst k0. congruence. }
    assert (Hft : forall k, In k (map fst sk) -> k <> textK o).
    { intros k Hin Heq. apply in_map_iff in Hin. destruct Hin as [[k1 v1] [Hk1 Hin]]. cbn [fst] in Hk1. subst k1.
      destruct (Hsk k v1 Hin) as [_ Hp]. unfold is_elem in Hp. apply andb_true_iff in Hp.
      destruct Hp as [_ Hp]. apply negb_true_iff in Hp. subst k. rewrite str_eqb_refl in Hp. discriminate. }
    assert (HtA : lookup (textK o) A' = None).
    { apply lookup_none_notin. intro HinA.
      unfold A' in HinA. rewrite map_map in HinA. cbn [fst] in HinA.
      apply in_map_iff in HinA. destruct HinA as [[n x] [Hn HinA]]. cbn [fst] in Hn.
      rewrite HL in HinA. apply in_map_iff in HinA. destruct HinA as [[n2 r] [Heq HinA]].
      cbn [fst snd] in Heq. inversion Heq; subst n2 x.
      apply sort_by_key_in, attr_pairs_in in HinA.
      destruct HinA as [k0 [v0 [_ [Ek0 [Hs0 _]]]]].
      rewrite <- Hs0, <- (attr_key_split o k0 Ek0) in Hn. subst k0.
      rewrite (o3_tk o H3) in Ek0. discriminate. }
    assert (HtC : lookup (textK o) C = None).
    { apply lookup_none_notin. rewrite HCk. intro Hin. exact (Hft _ Hin eq_refl). }
    destruct t as [|ch t1].
    + rewrite (Hadd A' HfA). rewrite finish_none. reflexivity.
    + cbv zeta. destruct A' as [|a0 A0] eqn:EA.
      * rewrite (Hadd [] (fun _ _ => eq_refl)). cbn [app]. unfold finish_elem.
        destruct C as [|c0 C0] eqn:EC; [reflexivity|].
        rewrite (set_fresh _ _ _ HtC). reflexivity.
      * rewrite (set_fresh _ _ _ HtA). rewrite Hadd.
        -- unfold finish_elem. rewrite <- app_assoc. reflexivity.
        -- intros k Hin. rewrite lookup_app_other by (apply Hft, Hin). apply HfA, Hin.
  - (* VList *)
    destruct l as [|a l].
    + cbn [XmlRT.imgsG imgs]. rewrite elem_val_scalar. unfold trimv. rewrite trim_nil. reflexivity.
    + cbn [XmlRT.imgsG imgs]. apply flat_map_ext_in'. intros x Hx.
      rewrite Forall_forall in H. apply (H x Hx). cbn [dom03] in Hd. rewrite forallb_forall in Hd. apply Hd, Hx.
Qed.

(* ---------------- one root element ---------------- *)
Lemma dom03_kne v : dom03 o v = true -> kne v = true.
Proof. intro H. apply (wdom_kne o (o3_tk o H3) (o3_tkne o H3)), dom03_wdom, H. Qed.

Definition decodes_img (E : list item) (x : value) : Prop :=
  wf_items E /\ single_root E /\
  forall ws, ws_ok o ws ->
    xml_decode pf nskip o false (toks_of_items (insert_ws ws E)) TermEOF = Ok x.

Lemma enc_root v key : is_list v = false -> name_okb key = true -> dom03 o v = true ->
  exists E, enc o v key = Ok E /\ decodes_img E (VMap [(key, img o v)]).
Proof.
  intros Hl Hk Hd. pose proof (dom03_wdom v Hd) as Hw.
  destruct (enc_total o v key Hw) as [E HE]. exists E. split; [exact HE|].
  destruct (enc_elems o (o3_tk o H3) v key E Hk Hw HE) as [n [Hel Hn]]. rewrite (Hn Hl) in Hel.
  destruct (enc_decodes pf o false (o3_seq o H3) (o3_xmpp o H3) v key E (name_ok_ne key Hk) (dom03_kne v Hd) HE)
    as [_ Hs]. destruct (Hs Hl) as [x [Hx Hsgl]].
  rewrite (imgsG_imgs v key Hd) in Hx. rewrite xform_id in Hsgl.
  split; [exact (elems_wf 1 E Hel)|]. split; [exact (elems_single_root E Hel)|].
  intros ws Hws. unfold img. rewrite Hx. cbn [collapse].
  apply (sgl_top pf o false (o3_xmpp o H3) E key x ws Hsgl Hws).
Qed.

Lemma default_root_ok : name_okb default_root = true.
Proof. reflexivity. Qed.

Lemma map_items_single k v : is_list v = false ->
  map_xml_items o [(k, v)] None = enc o v k /\ map_xml_indent_items o [(k, v)] None = enc o v k.
Proof. destruct v; try discriminate; intros _; split; reflexivity. Qed.

Theorem encode_img_xml m : root_ok o m = true ->
  exists its, map_xml_items o m None = Ok its /\ decodes_img its (img_map o m).
Proof.
  intro Hr. destruct m as [|[k v] [|kv2 m2]].
  - apply (enc_root (VMap []) default_root eq_refl default_root_ok Hr).
  - cbn [root_ok] in Hr. apply andb_true_iff in Hr. destruct Hr as [Hr Hd].
    apply andb_true_iff in Hr. destruct Hr as [Hl Hk]. apply negb_true_iff in Hl.
    rewrite (proj1 (map_items_single k v Hl)). cbn [img_map]. rewrite Hl.
    apply (enc_root v k Hl Hk Hd).
  - apply (enc_root (VMap ((k, v) :: kv2 :: m2)) default_root eq_refl default_root_ok Hr).
Qed.

Theorem encode_img_xml_indent m : root_ok o m = true ->
  exists its, map_xml_indent_items o m None = Ok its /\ decodes_img its (img_map o m).
Proof.
  intro Hr. destruct m as [|[k v] [|kv2 m2]].
  - apply (enc_root (VMap []) default_root eq_refl default_root_ok Hr).
  - cbn [root_ok] in Hr. apply andb_true_iff in Hr. destruct Hr as [Hr Hd].
    apply andb_true_iff in Hr. destruct Hr as [Hl Hk]. apply negb_true_iff in Hl.
    rewrite (proj2 (map_items_single k v Hl)). cbn [img_map]. rewrite Hl.
    apply (enc_root v k Hl Hk Hd).
  - apply (enc_root (VMap ((k, v) :: kv2 :: m2)) default_root eq_refl default_root_ok Hr).
Qed.

(* an explicit root tag: the whole map under that tag, for both encoders *)
Theorem encode_img_xml_tag m rt : name_okb rt = true -> dom03 o (VMap m) = true ->
  exists its, map_xml_items o m (Some rt) = Ok its /\ map_xml_indent_items o m (Some rt) = Ok its /\
              decodes_img its (VMap [(rt, img o (VMap m))]).
Proof.
  intros Hrt Hd. destruct (enc_root (VMap m) rt eq_refl Hrt Hd) as [E [HE Hdec]].
  exists E. split; [exact HE|]. split; [exact HE | exact Hdec].
Qed.

(* ---------------- AnyXml ---------------- *)
Lemma add_child_grouped k v na : add_child k v na = insert_grouped k v na.
Proof.
  induction na as [|[k' v'] t IH]; [reflexivity|].
  unfold add_child in *. cbn [lookup insert_grouped].
  destruct (str_eqb k k') eqn:E.
  - destruct v'; cbn [set]; rewrite ?E; reflexivity.
  - rewrite <- IH. destruct (lookup k t) as [[]|]; cbn [set]; rewrite ?E; reflexivity.
Qed.
Lemma add_all_group X : forall na, add_all X na = group_children X na.
Proof.
  unfold add_all, group_children. induction X as [|kv X IH]; intro na; cbn [fold_left]; [reflexivity|].
  rewrite add_child_grouped. apply IH.
Qed.

Definition any_fm (et : str) (vv : value) : res (list item) :=
  match vv with VMap [(tag, val)] => enc o val tag | _ => enc o vv et end.

Lemma any_member et vv : name_okb et = true -> any_member_ok o vv = true ->
  exists E n, any_fm et vv = Ok E /\ elems n E /\ decodes_to pf o false E (any_children o et [vv]).
Proof.
  intros Het Hm.
  assert (Hgen : forall v key, name_okb key = true -> dom03 o v = true ->
            exists E n, enc o v key = Ok E /\ elems n E /\ decodes_to pf o false E (map (pair key) (imgs o v))).
  { intros v key Hk Hd. pose proof (dom03_wdom v Hd) as Hw.
    destruct (enc_total o v key Hw) as [E HE]. exists E.
    destruct (enc_elems o (o3_tk o H3) v key E Hk Hw HE) as [n [Hel _]]. exists n.
    split; [exact HE|]. split; [exact Hel|].
    destruct (enc_decodes pf o false (o3_seq o H3) (o3_xmpp o H3) v key E (name_ok_ne key Hk) (dom03_kne v Hd) HE)
      as [Hdec _]. rewrite (imgsG_imgs v key Hd), xform_id in Hdec. exact Hdec. }
  unfold any_children. cbn [flat_map]. rewrite app_nil_r.
  destruct vv as [x|b| |z|z|z|f|x|m|l]; try (apply (Hgen _ et Het Hm)).
  destruct m as [|[tag val] [|kv2 m2]]; try (apply (Hgen _ et Het Hm)).
  cbn [any_member_ok] in Hm. apply andb_true_iff in Hm. destruct Hm as [Ht Hd].
  apply (Hgen val tag Ht Hd).
Qed.

Lemma any_members et l : name_okb et = true -> forallb (any_member_ok o) l = true ->
  exists body n, concat_res (map (any_fm et) l) = Ok body /\ elems n body /\
    ((body = [] /\ any_children o et l = []) \/ decodes_to pf o false body (any_children o et l)).
Proof.
  intros Het. induction l as [|a l IH]; intro Hall.
  - exists [], 0. split; [reflexivity|]. split; [apply elems_nil|]. left. split; reflexivity.
  - cbn [forallb] in Hall. apply andb_true_iff in Hall. destruct Hall as [Ha Hl].
    destruct (any_member et a Het Ha) as [E1 [n1 [HE1 [Hel1 Hd1]]]].
    destruct (IH Hl) as [b [n2 [Hb [Hel2 Hd2]]]].
    exists (E1 ++ b), (n1 + n2). cbn [map concat_res]. rewrite HE1, Hb. cbn [bind].
    split; [reflexivity|]. split; [apply elems_app; assumption|]. right.
    replace (any_children o et (a :: l)) with (any_children o et [a] ++ any_children o et l)
      by (unfold any_children; cbn [flat_map]; rewrite app_nil_r; reflexivity).
    destruct Hd2 as [[-> Hnil]|Hd2].
    + rewrite Hnil, !app_nil_r. exact Hd1.
    + apply decodes_to_app; assumption.
Qed.

Theorem encode_img_any v rt et : any_ok o v rt et = true ->
  exists its, any_xml_items o v rt et = Ok its /\ decodes_img its (img_any o v rt et).
Proof.
  unfold any_ok. intro H. apply andb_true_iff in H. destruct H as [H Hv].
  apply andb_true_iff in H. destruct H as [Hrt Het].
  destruct v as [x|b| |z|z|z|f|x|m|l];
    try (cbn [any_xml_items img_any map_xml_items]; apply enc_root; [reflexivity | exact Hrt | exact Hv]).
  1: { apply (enc_root VNil rt eq_refl Hrt Hv). }
  (* a list: the children of rt *)
  destruct (any_members et l Het Hv) as [body [n [Hb [Hel Hdec]]]].
  cbn [any_xml_items]. fold (any_fm et). rewrite Hb. cbn [bind].
  eexists. split; [reflexivity|].
  assert (Hels : elems 1 (IOpen rt [] :: body ++ [IClose rt])) by (apply (elems_wrap rt [] n body Hrt eq_refl Hel)).
  split; [exact (elems_wf 1 _ Hels)|]. split; [exact (elems_single_root _ Hels)|].
  intros ws Hws.
  pose proof (sgl_element pf o false rt [] None body (any_children o et l)
                (xform_key_ne o rt (name_ok_ne rt Hrt)) Hdec) as Hs.
  cbn [txt_items txt_read app] in Hs. rewrite xform_id in Hs.
  rewrite (sgl_top pf o false (o3_xmpp o H3) _ rt _ ws Hs Hws).
  cbn [img_any]. do 3 f_equal.
  change (attr_entries pf nskip o false (map mkattr [])) with (@nil (str * value)).
  rewrite elem_val_03. unfold trimv. rewrite trim_nil. rewrite add_all_group, finish_none. reflexivity.
Qed.

End P.
