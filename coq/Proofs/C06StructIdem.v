(* C06: the decoded value re-encodes to the same text, and decoding it again changes nothing (jcanon is idempotent). *)
From Coq Require Import Sorting.Sorted.
From Mxj Require Import Spec.JsonRT Proofs.StrLemmas Proofs.JsonP Proofs.C06P Proofs.C06Struct.
From Mxj Require Model.XmlEnc Spec.EncOrder Proofs.C16Sort.
Import ListNotations.

(* the sort of the JSON model is the sort of the XML encoder model *)
Lemma jsort_is_sort_by_key {A} : forall (l : list (str * A)), jsort l = XmlEnc.sort_by_key l.
Proof. reflexivity. Qed.

Lemma jsort_sorted {A} : forall (l : list (str * A)), EncOrder.ksorted (jsort l).
Proof. intro l. rewrite jsort_is_sort_by_key. apply C16Sort.sort_by_key_sorted. Qed.

Lemma jsort_of_sorted {A} : forall (l : list (str * A)), EncOrder.ksorted l -> jsort l = l.
Proof.
  unfold EncOrder.ksorted. induction l as [|a l IH]; intro H; [reflexivity|].
  inversion H as [|? ? Hl Ha]; subst. change (jsort (a :: l)) with (jinsert a (jsort l)). rewrite (IH Hl).
  destruct l as [|b l]; [reflexivity|]. cbn [jinsert]. inversion Ha as [|? ? Hab _]; subst. now rewrite Hab.
Qed.
Lemma jsort_idem {A} : forall (l : list (str * A)), jsort (jsort l) = jsort l.
Proof. intro l. apply jsort_of_sorted, jsort_sorted. Qed.

Lemma jsort_canon_entries : forall un m,
  jsort (map (fun kx => (fst kx, jcanon un (snd kx))) (jsort m)) = map (fun kx => (fst kx, jcanon un (snd kx))) (jsort m).
Proof. intros un m. rewrite (jsort_map_snd (jcanon un)), jsort_idem. reflexivity. Qed.

(* Json() of the decoded value is, segment for segment, Json() of the original: for EVERY value *)
Lemma segments_jcanon : forall eh un v, segments eh (jcanon un v) = segments eh v.
Proof.
  intros eh un. induction v as [x|b| |z|z|z|f|x|m IH|l IH] using value_ind2; try reflexivity.
  - destruct un; reflexivity.
  - destruct un; reflexivity.
  - rewrite jcanon_vmap, !segments_vmap', jsort_canon_entries, map_map. do 3 f_equal.
    apply map_ext_in. intros kx Hin. unfold eseg. cbn [fst snd]. do 2 f_equal.
    rewrite Forall_forall in IH. apply IH. eapply Permutation_in; [apply jsort_perm|exact Hin].
  - rewrite jcanon_vlist, !segments_vlist, map_map. do 3 f_equal.
    apply map_ext_in. intros x Hin. rewrite Forall_forall in IH. now apply IH.
Qed.

Lemma reencode_same_text : forall safe un v, map_json safe (jcanon un v) = map_json safe v.
Proof. intros safe un v. unfold map_json, marshal. now rewrite segments_jcanon. Qed.

Lemma jcanon_idem : forall un v, jcanon un (jcanon un v) = jcanon un v.
Proof.
  intros un. induction v as [x|b| |z|z|z|f|x|m IH|l IH] using value_ind2; try reflexivity.
  - destruct un; reflexivity.
  - destruct un; reflexivity.
  - rewrite jcanon_vmap. rewrite jcanon_vmap at 1. rewrite jsort_canon_entries, map_map. f_equal.
    apply map_ext_in. intros kx Hin. cbn [fst snd]. f_equal.
    rewrite Forall_forall in IH. apply IH. eapply Permutation_in; [apply jsort_perm|exact Hin].
  - rewrite jcanon_vlist. rewrite jcanon_vlist at 1. rewrite map_map. f_equal.
    apply map_ext_in. intros x Hin. rewrite Forall_forall in IH. now apply IH.
Qed.

(* a second round trip returns the value the first one returned, whatever the encoding of the second *)
Lemma roundtrip_stable : forall safe usenum v,
  json_shaped utf8_valid v = true -> nums_start v = true -> wfb v = true ->
  decode_segs usenum (segments safe (jcanon usenum v)) = Some (jcanon usenum v).
Proof. intros safe un v Hs Hn Hw. rewrite segments_jcanon. now apply json_roundtrip. Qed.
