(* C06: bytes.Replace, the rewrite of Map.Json, and the string codec. *)
From Mxj Require Import Spec.JsonSpec Proofs.JsonP.
Import ListNotations.

(* ------------------------------------------------------------------ bytes.Replace *)

Lemma prefixb_app_long : forall p x y, prefixb p x = true -> prefixb p (x ++ y) = true.
Proof.
  induction p as [|a p IH]; intros x y H; [reflexivity|]. destruct x as [|b x]; [discriminate|].
  cbn in *. apply andb_true_iff in H as [H1 H2]. rewrite H1. cbn. now apply IH.
Qed.

Lemma replace_skip : forall a k old new y, length a = k ->
  replace_all k old new (a ++ y) = replace_all 0 old new y.
Proof.
  induction a as [|c a IH]; intros k old new y H; cbn in H; subst k; [reflexivity|].
  cbn [app replace_all]. now apply IH.
Qed.

(* a match at the head *)
Lemma replace_match : forall old new y, old <> [] ->
  bytes_replace old new (old ++ y) = new ++ bytes_replace old new y.
Proof.
  intros old new y Ho. destruct old as [|c old]; [congruence|]. unfold bytes_replace. cbn [app replace_all].
  assert (Hp : prefixb (c :: old) (c :: old ++ y) = true).
  { change (c :: old ++ y) with ((c :: old) ++ y). apply prefixb_app_long.
    clear. induction (c :: old) as [|a l IH]; [reflexivity|]. cbn. rewrite IH. now rewrite (proj2 (Ascii.eqb_eq a a) eq_refl). }
  rewrite Hp. f_equal. cbn [length]. rewrite Nat.sub_succ, Nat.sub_0_r. now apply replace_skip.
Qed.

(* no match starts inside u *)
Fixpoint nomatch (old u y : str) : bool :=
  match u with
  | [] => true
  | c :: u' => negb (prefixb old (u ++ y)) && nomatch old u' y
  end.

Lemma replace_nomatch : forall old new u y, nomatch old u y = true ->
  bytes_replace old new (u ++ y) = u ++ bytes_replace old new y.
Proof.
  unfold bytes_replace. induction u as [|c u IH]; intros y H; [reflexivity|].
  cbn [nomatch] in H. apply andb_true_iff in H as [H1 H2]. apply negb_true_iff in H1.
  cbn [app replace_all]. change (c :: u ++ y) with ((c :: u) ++ y). rewrite H1. f_equal. now apply IH.
Qed.

(* bytes that are not the first byte of the pattern pass through *)
Lemma nomatch_no_head : forall old h u y, (forall c, In c u -> Ascii.eqb h c = false) ->
  nomatch (h :: old) u y = true.
Proof.
  induction u as [|c u IH]; intros y H; [reflexivity|]. cbn [nomatch app prefixb].
  rewrite (H c (or_introl eq_refl)). cbn. apply IH. intros c' Hc'. apply H. now right.
Qed.

(* ------------------------------------------------------------------ rewrite_distributes *)

(* matches that start inside a stay inside a: then replacing distributes over a ++ b *)
Definition contained (old a b : str) : Prop :=
  forall a0 a1, a = a0 ++ a1 -> a1 <> [] -> prefixb old (a1 ++ b) = true -> prefixb old a1 = true.

Lemma prefixb_length : forall p x, prefixb p x = true -> length p <= length x.
Proof.
  induction p as [|a p IH]; intros x H; cbn; [lia|]. destruct x as [|b x]; [discriminate|].
  cbn in *. apply andb_true_iff in H as [_ H]. apply IH in H. lia.
Qed.

Lemma replace_app_gen : forall old new, old <> [] -> forall a b k, contained old a b -> k <= length a ->
  replace_all k old new (a ++ b) = replace_all k old new a ++ replace_all 0 old new b.
Proof.
  intros old new Ho. induction a as [|c a IH]; intros b k Hc Hk.
  - cbn in Hk. assert (k = 0) by lia. subst k. reflexivity.
  - cbn [app]. destruct k as [|k].
    + cbn [replace_all]. change (c :: a ++ b) with ((c :: a) ++ b).
      destruct (prefixb old ((c :: a) ++ b)) eqn:E.
      * pose proof (Hc [] (c :: a) eq_refl ltac:(discriminate) E) as E'. rewrite E'.
        rewrite <- app_assoc. f_equal. apply IH.
        -- intros a0 a1 Ha Hne. apply (Hc (c :: a0) a1); [cbn; now rewrite Ha|exact Hne].
        -- apply prefixb_length in E'. cbn in E'. destruct old; [congruence|]. cbn in *. lia.
      * assert (E' : prefixb old (c :: a) = false).
        { destruct (prefixb old (c :: a)) eqn:E2; [|reflexivity]. rewrite (prefixb_app_long _ _ b E2) in E. discriminate. }
        rewrite E'. cbn [app]. f_equal. apply IH; [|lia].
        intros a0 a1 Ha Hne. apply (Hc (c :: a0) a1); [cbn; now rewrite Ha|exact Hne].
    + cbn [replace_all]. apply IH; [|cbn in Hk; lia].
      intros a0 a1 Ha Hne. apply (Hc (c :: a0) a1); [cbn; now rewrite Ha|exact Hne].
Qed.

Lemma replace_app : forall old new a b, old <> [] -> contained old a b ->
  bytes_replace old new (a ++ b) = bytes_replace old new a ++ bytes_replace old new b.
Proof. intros. unfold bytes_replace. apply replace_app_gen; [assumption|assumption|lia]. Qed.

(* patterns of the rewrite: start with a backslash, hold no double quote *)
Definition pat_ok (old : str) : Prop :=
  exists t, old = bsl :: t /\ forallb (fun c => negb (is_dq c)) old = true.

Lemma prefixb_nth_dq : forall old a1 b, prefixb old (a1 ++ dq :: b) = true ->
  forallb (fun c => negb (is_dq c)) old = true -> prefixb old a1 = true.
Proof.
  induction old as [|o old IH]; intros a1 b H Hd; [reflexivity|]. cbn in Hd. apply andb_true_iff in Hd as [Ho Hd].
  destruct a1 as [|a a1].
  - cbn in H. apply andb_true_iff in H as [H _]. apply Ascii.eqb_eq in H. subst o. discriminate.
  - cbn in *. apply andb_true_iff in H as [H1 H2]. rewrite H1. cbn. now apply (IH a1 b).
Qed.

Definition no_bsl (x : str) : bool := forallb (fun c => negb (is_bsl c)) x.
Definition sp_clean (l : list seg) : bool :=
  forallb (fun g => match g with SP x => no_bsl x | SQ _ => true end) l.

Lemma bsl_is_bsl : forall c, Ascii.eqb bsl c = is_bsl c.
Proof. intro c. destruct c as [[] [] [] [] [] [] [] []]; reflexivity. Qed.

Lemma replace_flatten : forall old new l, pat_ok old -> sp_clean l = true ->
  bytes_replace old new (flatten l) = flatten (map_quoted (bytes_replace old new) l).
Proof.
  intros old new l (t & -> & Hd) Hl. induction l as [|g l IH]; [reflexivity|].
  cbn in Hl. apply andb_true_iff in Hl as [Hg Hl]. specialize (IH Hl).
  unfold flatten in *. cbn [flat_map map_quoted map]. destruct g as [x|b]; cbn [render_seg].
  - (* no backslash outside literals: nothing can match there *)
    rewrite replace_nomatch; [now rewrite IH|]. apply nomatch_no_head. intros c Hc.
    unfold no_bsl in Hg. rewrite forallb_forall in Hg. specialize (Hg c Hc). rewrite bsl_is_bsl. now apply negb_true_iff in Hg.
  - (* a literal: the opening quote passes, matches inside the body end before the closing quote *)
    change (dq :: b ++ [dq]) with ([dq] ++ b ++ [dq]). rewrite <- !app_assoc.
    rewrite (replace_nomatch _ _ [dq]) by reflexivity. cbn [app]. f_equal.
    rewrite replace_app; [| discriminate |].
    + rewrite <- app_assoc. f_equal. cbn [app]. change (dq :: flat_map render_seg l) with ([dq] ++ flat_map render_seg l).
      rewrite (replace_nomatch _ _ [dq]) by reflexivity. cbn [app]. now rewrite IH.
    + intros a0 a1 Ha Hne Hp. cbn [app] in Hp. now apply (prefixb_nth_dq _ a1 _ Hp).
Qed.

Lemma pat_lt_ok : pat_ok pat_lt. Proof. eexists. split; reflexivity. Qed.
Lemma pat_gt_ok : pat_ok pat_gt. Proof. eexists. split; reflexivity. Qed.
Lemma pat_amp_ok : pat_ok pat_amp. Proof. eexists. split; reflexivity. Qed.

Lemma sp_clean_map_quoted : forall f l, sp_clean (map_quoted f l) = sp_clean l.
Proof.
  intros f l. unfold sp_clean, map_quoted. induction l as [|[x|b] l IH]; [reflexivity| |]; cbn [map forallb]; now rewrite IH.
Qed.

Lemma map_quoted_comp : forall f g l, map_quoted f (map_quoted g l) = map_quoted (fun b => f (g b)) l.
Proof. intros f g l. unfold map_quoted. rewrite map_map. apply map_ext. now intros [x|b]. Qed.

(* rewriting the whole output = rewriting inside each string literal *)
Lemma rewrite_distributes : forall l, sp_clean l = true ->
  rewrite (flatten l) = flatten (map_quoted rewrite l).
Proof.
  intros l Hl. unfold rewrite.
  rewrite (replace_flatten _ _ l pat_lt_ok Hl).
  rewrite (replace_flatten _ _ _ pat_gt_ok) by now rewrite sp_clean_map_quoted.
  rewrite (replace_flatten _ _ _ pat_amp_ok) by now rewrite !sp_clean_map_quoted.
  now rewrite !map_quoted_comp.
Qed.

(* ------------------------------------------------------------------ unquote (quote x) = x *)

Lemma unq_esc_ascii : forall eh c Q, (byte c <? 128)%N = true ->
  unq_step (esc_ascii eh c ++ Q) = Some ([c], Q).
Proof.
  intros eh c Q H. destruct c as [[] [] [] [] [] [] [] []]; try discriminate H; destruct eh; reflexivity.
Qed.

Lemma high_not : forall c, high c = true ->
  (byte c =? 92)%N = false /\ (byte c =? 34)%N = false /\ (byte c <? 32)%N = false /\ (byte c <? 128)%N = false.
Proof.
  intros c H. unfold high in H. apply N.leb_le in H.
  repeat split; try (apply N.eqb_neq; lia); apply N.ltb_ge; lia.
Qed.

Lemma firstn_app_len {A} (a b : list A) n : length a = n -> firstn n (a ++ b) = a /\ skipn n (a ++ b) = b.
Proof.
  intros <-. split.
  - rewrite firstn_app, Nat.sub_diag, firstn_all. cbn. apply app_nil_r.
  - rewrite skipn_app, Nat.sub_diag, skipn_all. reflexivity.
Qed.

Lemma firstn_length_le {A} (x : list A) n : n <= length x -> length (firstn n x) = n.
Proof. intro H. rewrite firstn_length. lia. Qed.

(* a multi-byte rune is copied through by the decoder *)
Lemma unq_high : forall c t n Q, high c = true -> rune_size (c :: t) = Some n ->
  unq_step (firstn n (c :: t) ++ Q) = Some (firstn n (c :: t), Q).
Proof.
  intros c t n Q Hh E. destruct (rune_size_pos _ _ E) as [Hn Hl].
  destruct (rune_bytes _ _ E Hh) as [_ Hr]. specialize (Hr Q).
  destruct n; [lia|]. cbn [firstn app] in *.
  destruct (high_not c Hh) as (H1 & H2 & H3 & H4).
  unfold unq_step. rewrite H1, H2, H3, H4. cbn [orb]. rewrite Hr.
  change (c :: firstn n t ++ Q) with ((c :: firstn n t) ++ Q).
  destruct (firstn_app_len (c :: firstn n t) Q (S n)) as [-> ->]; [|reflexivity].
  cbn [length]. f_equal. apply firstn_length_le. cbn in Hl. lia.
Qed.

Lemma ascii_byte : forall c, a_of (byte c) = c.
Proof. intro c. apply ascii_N_embedding. Qed.

Lemma is_2028_shape : forall x d, is_2028 x = Some d ->
  exists c2 t, x = a_of 226 :: a_of 128 :: c2 :: t /\ d = (byte c2 mod 16)%N /\ (byte c2 = 168 \/ byte c2 = 169)%N.
Proof.
  intros x d H. destruct x as [|c0 [|c1 [|c2 t]]]; try discriminate. cbn in H.
  destruct (byte c0 =? 226)%N eqn:E0; [|discriminate]. destruct (byte c1 =? 128)%N eqn:E1; [|discriminate].
  apply N.eqb_eq in E0, E1. cbn [andb] in H.
  destruct ((byte c2 =? 168)%N || (byte c2 =? 169)%N) eqn:E2; [|discriminate]. injection H as <-.
  exists c2, t. rewrite <- E0, <- E1, !ascii_byte. split; [reflexivity|]. split; [reflexivity|].
  apply orb_true_iff in E2 as [E2|E2]; apply N.eqb_eq in E2; auto.
Qed.

(* U+2028 / U+2029 come back from their \u202x escapes *)
Lemma unq_2028 : forall x d Q, is_2028 x = Some d ->
  unq_step ([bsl; "u"%char; "2"%char; "0"%char; "2"%char; hexdig d] ++ Q) = Some (firstn 3 x, Q).
Proof.
  intros x d Q H. destruct (is_2028_shape x d H) as (c2 & t & -> & -> & [Hc|Hc]); rewrite Hc;
    rewrite <- (ascii_byte c2), Hc; reflexivity.
Qed.

Lemma is_2028_size : forall x d, is_2028 x = Some d -> rune_size x = Some 3.
Proof.
  intros x d H. destruct (is_2028_shape x d H) as (c2 & t & -> & _ & [Hc|Hc]);
    rewrite <- (ascii_byte c2), Hc; reflexivity.
Qed.

(* one iteration of the encoder on a valid rune is undone by one iteration of the decoder *)
Lemma unq_q_step : forall eh x out rest n Q, q_step eh x = Some (out, rest) -> rune_size x = Some n ->
  unq_step (out ++ Q) = Some (firstn n x, Q) /\ rest = skipn n x.
Proof.
  intros eh x out rest n Q H E. destruct x as [|c t]; [discriminate|]. cbn [q_step] in H.
  destruct (byte c <? 128)%N eqn:Ec.
  - injection H as <- <-. cbn in E. rewrite Ec in E. injection E as <-. split; [now apply unq_esc_ascii|reflexivity].
  - assert (Hh : high c = true) by (unfold high; apply N.leb_le; apply N.ltb_ge in Ec; lia).
    rewrite E in H. destruct (is_2028 (c :: t)) as [d|] eqn:E2; injection H as <- <-.
    + assert (n = 3) by (rewrite (is_2028_size _ _ E2) in E; now injection E as <-).
      subst n. split; [now apply unq_2028|reflexivity].
    + split; [now apply unq_high|reflexivity].
Qed.

(* valid UTF-8: the head is a rune and the rest is valid again *)
Lemma valid_step_shrinks : shrinks valid_step.
Proof.
  intros x out rest H. unfold valid_step in H. destruct (rune_size x) as [n|] eqn:E; [|discriminate].
  injection H as _ <-. destruct (rune_size_pos _ _ E). rewrite skipn_length. lia.
Qed.

Lemma utf8_valid_step : forall x, x <> [] -> utf8_valid x = true ->
  exists n, rune_size x = Some n /\ utf8_valid (skipn n x) = true.
Proof.
  intros x Hx H. unfold utf8_valid in H.
  destruct (rune_size x) as [n|] eqn:E.
  - exists n. split; [reflexivity|]. unfold utf8_valid.
    rewrite (chunk_loop_step _ valid_step_shrinks x [] (skipn n x) (length x) Hx) in H; [|unfold valid_step; now rewrite E|lia].
    destruct (chunk_loop valid_step (length (skipn n x)) (skipn n x)); [reflexivity|discriminate].
  - rewrite chunk_loop_none in H; [discriminate|exact Hx|unfold valid_step; now rewrite E].
Qed.

Lemma unquote_quote_fuel : forall eh x, utf8_valid x = true ->
  forall fuel, length (quote_body eh x) <= fuel -> chunk_loop unq_step fuel (quote_body eh x) = Some x.
Proof.
  intros eh. induction x as [|x out rest Hx E IH] using (chunk_ind eh); intros Hv fuel Hf.
  - destruct fuel; reflexivity.
  - destruct (utf8_valid_step x Hx Hv) as (n & En & Hv').
    rewrite (quote_body_step eh x out rest Hx E) in *.
    destruct (unq_q_step eh x out rest n (quote_body eh rest) E En) as [Hu ->].
    destruct (q_step_spec _ _ _ _ E) as (pre & _ & _ & Huo & _).
    destruct out as [|o out]; [congruence|]. cbn [app] in *.
    destruct fuel; [cbn in Hf; lia|]. cbn [chunk_loop]. rewrite Hu.
    rewrite (IH Hv' fuel); [cbn; f_equal; apply firstn_skipn|].
    cbn in Hf. rewrite app_length in Hf. lia.
Qed.

(* the per-string law of encoding/json's codec, escapeHTML on or off *)
Lemma unquote_quote : forall eh x, utf8_valid x = true -> unquote_body (quote_body eh x) = Some x.
Proof. intros eh x H. unfold unquote_body. now apply unquote_quote_fuel. Qed.

(* ------------------------------------------------------------------ rewrite (quote true x) = quote false x *)

Definition P1 := bytes_replace pat_lt (s "<").
Definition P2 := bytes_replace pat_gt (s ">").
Definition P3 := bytes_replace pat_amp (s "&").
Lemma rewrite_P : forall x, rewrite x = P3 (P2 (P1 x)).
Proof. reflexivity. Qed.

(* every ASCII byte except the backslash: its escape is rewritten into what the non-HTML encoder writes *)
Lemma rewrite_ascii : forall c Z, (byte c <? 128)%N = true -> is_bsl c = false ->
  rewrite (esc_ascii true c ++ Z) = esc_ascii false c ++ rewrite Z.
Proof.
  intros c Z H Hb. destruct c as [[] [] [] [] [] [] [] []]; try discriminate H; try discriminate Hb; reflexivity.
Qed.

Lemma pass_high : forall tl r U Z, forallb high U = true ->
  bytes_replace (bsl :: tl) r (U ++ Z) = U ++ bytes_replace (bsl :: tl) r Z.
Proof.
  intros tl r U Z H. apply replace_nomatch. apply nomatch_no_head. intros c Hc.
  rewrite forallb_forall in H. specialize (H c Hc). rewrite bsl_is_bsl. exact (proj2 (high_plain c H)).
Qed.
Lemma rewrite_high : forall U Z, forallb high U = true -> rewrite (U ++ Z) = U ++ rewrite Z.
Proof. intros U Z H. unfold rewrite, pat_lt, pat_gt, pat_amp. now rewrite !pass_high. Qed.

Lemma rewrite_fffd : forall Z, rewrite (esc_fffd ++ Z) = esc_fffd ++ rewrite Z.
Proof. reflexivity. Qed.
Lemma rewrite_2028 : forall x d Z, is_2028 x = Some d ->
  rewrite ([bsl; "u"%char; "2"%char; "0"%char; "2"%char; hexdig d] ++ Z) =
  [bsl; "u"%char; "2"%char; "0"%char; "2"%char; hexdig d] ++ rewrite Z.
Proof.
  intros x d Z H. destruct (is_2028_shape x d H) as (c2 & t & _ & -> & [Hc|Hc]); rewrite Hc; reflexivity.
Qed.

Lemma pass_bslbsl : forall tl r Z, prefixb (bsl :: "u"%char :: tl) (bsl :: Z) = false ->
  bytes_replace (bsl :: "u"%char :: tl) r ([bsl; bsl] ++ Z) = [bsl; bsl] ++ bytes_replace (bsl :: "u"%char :: tl) r Z.
Proof.
  intros tl r Z H. apply replace_nomatch. cbn [nomatch app]. rewrite H. reflexivity.
Qed.

(* prefixes made of plain characters survive the encoder and a replacement pass *)
Definition plainw (h : ascii) (w : str) : bool :=
  forallb (fun a => html_safe_set (byte a) && negb (Ascii.eqb a h)) w.

Lemma esc_ascii_shape : forall eh c, esc_ascii eh c = [c] \/ exists t, esc_ascii eh c = bsl :: t.
Proof.
  intros eh c. destruct c as [[] [] [] [] [] [] [] []]; destruct eh;
    first [left; reflexivity | right; eexists; reflexivity].
Qed.

Lemma safe_not_bsl : forall a, html_safe_set (byte a) = true -> Ascii.eqb a bsl = false /\ high a = false.
Proof. intro a. destruct a as [[] [] [] [] [] [] [] []]; intro H; try discriminate H; split; reflexivity. Qed.

Lemma q_step_head : forall eh x out rest, q_step eh x = Some (out, rest) ->
  (exists c, x = c :: rest /\ out = esc_ascii eh c) \/
  (exists h t, out = h :: t /\ (h = bsl \/ high h = true)).
Proof.
  intros eh x out rest H. destruct x as [|c t]; [discriminate|]. cbn [q_step] in H.
  destruct (byte c <? 128)%N eqn:Ec.
  - injection H as <- <-. left. eauto.
  - assert (Hh : high c = true) by (unfold high; apply N.leb_le; apply N.ltb_ge in Ec; lia).
    right. destruct (rune_size (c :: t)) as [n|] eqn:E.
    + destruct (rune_size_pos _ _ E) as [Hn _].
      destruct (is_2028 (c :: t)); injection H as <- <-; [eexists _, _; split; [reflexivity|now left]|].
      destruct n; [lia|]. cbn [firstn]. eexists _, _. split; [reflexivity|now right].
    + injection H as <- <-. eexists _, _. split; [reflexivity|now left].
Qed.

Lemma prefix_through_quote : forall eh h w y, plainw h w = true ->
  prefixb w (quote_body eh y) = true -> prefixb w y = true.
Proof.
  intros eh h. induction w as [|a w IH]; intros y Hw H; [reflexivity|].
  cbn in Hw. apply andb_true_iff in Hw as [Ha Hw]. apply andb_true_iff in Ha as [Ha _].
  destruct (safe_not_bsl a Ha) as [Hab Hah].
  destruct y as [|c t]; [discriminate H|].
  destruct (q_step_total eh (c :: t)) as (out & rest & E); [discriminate|].
  rewrite (quote_body_step eh _ out rest) in H by (discriminate || exact E).
  destruct (q_step_head eh _ _ _ E) as [(c' & Hx & ->)|(h' & t' & -> & Hh)].
  - injection Hx as <- <-. destruct (esc_ascii_shape eh c) as [Hs|[t' Hs]]; rewrite Hs in H; cbn [app prefixb] in H |- *.
    + apply andb_true_iff in H as [H1 H2]. rewrite H1. cbn [andb]. now apply IH.
    + apply andb_true_iff in H as [H1 _]. rewrite Hab in H1. discriminate.
  - cbn [app prefixb] in H. apply andb_true_iff in H as [H1 _]. apply Ascii.eqb_eq in H1. subst h'.
    destruct Hh as [->|Hh]; [rewrite (proj2 (Ascii.eqb_eq bsl bsl) eq_refl) in Hab; discriminate|congruence].
Qed.

Lemma prefix_through_pass : forall h tl w Z, plainw h w = true ->
  prefixb w (bytes_replace (bsl :: tl) [h] Z) = true -> prefixb w Z = true.
Proof.
  intros h tl. induction w as [|a w IH]; intros Z Hw H; [reflexivity|].
  cbn in Hw. apply andb_true_iff in Hw as [Ha Hw]. apply andb_true_iff in Ha as [Ha Hh]. apply negb_true_iff in Hh.
  destruct Z as [|c t]; [discriminate H|]. unfold bytes_replace in H. cbn [replace_all] in H.
  destruct (prefixb (bsl :: tl) (c :: t)) eqn:E.
  - cbn in H. rewrite Hh in H. discriminate.
  - cbn in H |- *. apply andb_true_iff in H as [H1 H2]. rewrite H1. cbn. now apply IH.
Qed.

Lemma containsb_app_r : forall p a b, containsb p b = true -> containsb p (a ++ b) = true.
Proof.
  intros p a b H. induction a as [|c a IH]; [exact H|]. cbn [app containsb]. rewrite IH. apply orb_true_r.
Qed.
Lemma hazard_free_suffix : forall a b, hazard_free (a ++ b) = true -> hazard_free b = true.
Proof.
  intros a b H. unfold hazard_free in *. apply andb_true_iff in H as [H H3]. apply andb_true_iff in H as [H1 H2].
  apply negb_true_iff in H1, H2, H3.
  assert (forall p, containsb p (a ++ b) = false -> containsb p b = false) as Hs.
  { intros p Hp. destruct (containsb p b) eqn:E; [|reflexivity]. now rewrite (containsb_app_r p a b E) in Hp. }
  now rewrite (Hs _ H1), (Hs _ H2), (Hs _ H3).
Qed.

Lemma containsb_head : forall p x, prefixb p x = true -> containsb p x = true.
Proof. intros p x H. destruct x; cbn; now rewrite H. Qed.

Lemma rewrite_is_nohtml : forall x, hazard_free x = true -> rewrite (quote_body true x) = quote_body false x.
Proof.
  induction x as [|x out rest Hx E IH] using (chunk_ind true); intro Hz; [reflexivity|].
  rewrite (quote_body_step true x out rest Hx E).
  destruct (q_step_spec _ _ _ _ E) as (pre & Hpre & _ & _ & _).
  assert (Hzr : hazard_free rest = true) by (rewrite Hpre in Hz; now apply hazard_free_suffix in Hz).
  specialize (IH Hzr).
  destruct x as [|c t]; [congruence|]. cbn [q_step] in E.
  destruct (byte c <? 128)%N eqn:Ec.
  - injection E as <- <-.
    rewrite (quote_body_step false (c :: t) (esc_ascii false c) t) by (discriminate || (cbn [q_step]; now rewrite Ec)).
    destruct (is_bsl c) eqn:Eb.
    + (* the backslash: the escaped backslash must not be followed by what looks like the tail of a pattern *)
      assert (c = bsl) by (destruct c as [[] [] [] [] [] [] [] []]; try discriminate Eb; reflexivity). subst c.
      change (esc_ascii true bsl) with [bsl; bsl]. change (esc_ascii false bsl) with [bsl; bsl].
      unfold hazard_free in Hz. apply andb_true_iff in Hz as [Hz H3]. apply andb_true_iff in Hz as [H1 H2].
      apply negb_true_iff in H1, H2, H3.
      set (Z := quote_body true t) in *.
      assert (N1 : prefixb pat_lt (bsl :: Z) = false).
      { destruct (prefixb pat_lt (bsl :: Z)) eqn:F; [|reflexivity]. exfalso.
        assert (G : prefixb (s "u003c") t = true) by (apply (prefix_through_quote true "<"%char); [reflexivity|exact F]).
        assert (prefixb pat_lt (bsl :: t) = true) by exact G. rewrite (containsb_head _ _ H) in H1. discriminate. }
      assert (N2 : prefixb pat_gt (bsl :: P1 Z) = false).
      { destruct (prefixb pat_gt (bsl :: P1 Z)) eqn:F; [|reflexivity]. exfalso.
        assert (G0 : prefixb (s "u003e") Z = true) by (apply (prefix_through_pass "<"%char (s "u003c")); [reflexivity|exact F]).
        assert (G : prefixb (s "u003e") t = true) by (apply (prefix_through_quote true "<"%char); [reflexivity|exact G0]).
        assert (prefixb pat_gt (bsl :: t) = true) by exact G. rewrite (containsb_head _ _ H) in H2. discriminate. }
      assert (N3 : prefixb pat_amp (bsl :: P2 (P1 Z)) = false).
      { destruct (prefixb pat_amp (bsl :: P2 (P1 Z))) eqn:F; [|reflexivity]. exfalso.
        assert (G1 : prefixb (s "u0026") (P1 Z) = true) by (apply (prefix_through_pass ">"%char (s "u003e")); [reflexivity|exact F]).
        assert (G0 : prefixb (s "u0026") Z = true) by (apply (prefix_through_pass "<"%char (s "u003c")); [reflexivity|exact G1]).
        assert (G : prefixb (s "u0026") t = true) by (apply (prefix_through_quote true "<"%char); [reflexivity|exact G0]).
        assert (prefixb pat_amp (bsl :: t) = true) by exact G. rewrite (containsb_head _ _ H) in H3. discriminate. }
      assert (M1 : nomatch pat_lt [bsl; bsl] Z = true) by (cbn [nomatch app]; rewrite N1; reflexivity).
      assert (M2 : nomatch pat_gt [bsl; bsl] (P1 Z) = true) by (cbn [nomatch app]; rewrite N2; reflexivity).
      assert (M3 : nomatch pat_amp [bsl; bsl] (P2 (P1 Z)) = true) by (cbn [nomatch app]; rewrite N3; reflexivity).
      rewrite rewrite_P. unfold P1 at 1. rewrite (replace_nomatch _ _ _ _ M1). fold (P1 Z).
      unfold P2 at 1. rewrite (replace_nomatch _ _ _ _ M2). fold (P2 (P1 Z)).
      unfold P3 at 1. rewrite (replace_nomatch _ _ _ _ M3). fold (P3 (P2 (P1 Z))).
      rewrite <- rewrite_P, IH. reflexivity.
    + rewrite (rewrite_ascii c _ Ec Eb), IH. reflexivity.
  - assert (Hh : high c = true) by (unfold high; apply N.leb_le; apply N.ltb_ge in Ec; lia).
    destruct (rune_size (c :: t)) as [n|] eqn:En.
    + destruct (is_2028 (c :: t)) as [d|] eqn:E2; injection E as <- <-.
      * rewrite (quote_body_step false (c :: t) _ (skipn n (c :: t)))
          by (discriminate || (cbn [q_step]; now rewrite Ec, En, E2)).
        rewrite (rewrite_2028 _ _ _ E2), IH. reflexivity.
      * rewrite (quote_body_step false (c :: t) _ (skipn n (c :: t)))
          by (discriminate || (cbn [q_step]; now rewrite Ec, En, E2)).
        rewrite rewrite_high, IH; [reflexivity|]. exact (proj1 (rune_bytes _ _ En Hh)).
    + injection E as <- <-.
      rewrite (quote_body_step false (c :: t) _ t) by (discriminate || (cbn [q_step]; now rewrite Ec, En)).
      rewrite rewrite_fffd, IH. reflexivity.
Qed.

(* ------------------------------------------------------------------ the former default encoding: what went wrong *)

Definition x_u003c : str := bsl :: s "u003c".
Lemma former_default_refuted :
  utf8_valid x_u003c = true /\ unquote_body (rewrite (quote_body true x_u003c)) = None /\
  unquote_body (quote_body false x_u003c) = Some x_u003c.
Proof. split; [reflexivity|]. split; reflexivity. Qed.

(* ------------------------------------------------------------------ whole Maps *)

Lemma map_quoted_app : forall f a b, map_quoted f (a ++ b) = map_quoted f a ++ map_quoted f b.
Proof. intros. unfold map_quoted. apply map_app. Qed.

Lemma map_quoted_sep_by : forall f sep l, map_quoted f [sep] = [sep] ->
  map_quoted f (sep_by sep l) = sep_by sep (map (map_quoted f) l).
Proof.
  intros f sep l Hs. induction l as [|x l IH]; [reflexivity|]. destruct l as [|y l]; [reflexivity|].
  change (sep_by sep (x :: y :: l)) with (x ++ [sep] ++ sep_by sep (y :: l)).
  rewrite !map_quoted_app, Hs, IH. reflexivity.
Qed.

Lemma map_quoted_wrap : forall f o c A, map_quoted f (SP o :: A ++ [SP c]) = SP o :: map_quoted f A ++ [SP c].
Proof. intros. unfold map_quoted. cbn [map]. rewrite map_app. reflexivity. Qed.

(* keys and string values of a JSON-shaped value all satisfy P *)
Lemma json_shaped_vmap : forall P k x m, json_shaped P (VMap ((k, x) :: m)) = P k && json_shaped P x && json_shaped P (VMap m).
Proof. reflexivity. Qed.
Lemma json_shaped_vlist : forall P x l, json_shaped P (VList (x :: l)) = json_shaped P x && json_shaped P (VList l).
Proof. reflexivity. Qed.

(* the former code (marshal with HTML escaping, then the three bytes.Replace passes inside every literal) and the
   repaired code (marshal without HTML escaping) write the same segments for every Map free of the three texts *)
Lemma segments_rewrite : forall v, json_shaped hazard_free v = true ->
  map_quoted rewrite (segments true v) = segments false v.
Proof.
  induction v as [x|b| |z|z|z|f|x|m IH|l IH] using value_ind2; intro H; try discriminate H; try reflexivity.
  - cbn. now rewrite rewrite_is_nohtml.
  - destruct b; reflexivity.
  - rewrite !segments_vmap. unfold sp1 at 1 3. rewrite map_quoted_wrap. f_equal. f_equal.
    rewrite map_quoted_sep_by by reflexivity. f_equal. rewrite map_map.
    assert (Hk : map (fun kx => (fst kx, segments false (snd kx))) m =
                 map (fun kx => (fst kx, map_quoted rewrite (snd kx))) (map (fun kx => (fst kx, segments true (snd kx))) m)).
    { rewrite map_map. cbn [fst snd]. clear -IH H. induction IH as [|[k x] m Hx Hm IHm]; [reflexivity|].
      rewrite json_shaped_vmap in H. apply andb_true_iff in H as [H Ht]. apply andb_true_iff in H as [Hkk Hs].
      cbn [map fst snd] in *. rewrite (Hx Hs). f_equal. now apply IHm. }
    rewrite Hk, (jsort_map_snd (map_quoted rewrite)), map_map. apply map_ext_in. intros [k segs] Hin.
    unfold entry_segs. cbn [fst snd map_quoted map]. f_equal.
    (* the key: it is one of the keys of m *)
    assert (Hkey : hazard_free k = true).
    { assert (Hall : Forall (fun kx : str * list seg => hazard_free (fst kx) = true) (jsort (map (fun kx => (fst kx, segments true (snd kx))) m))).
      { apply jsort_Forall. rewrite Forall_map. cbn [fst]. clear -H. induction m as [|[k' x'] m IHm]; [constructor|].
        rewrite json_shaped_vmap in H. apply andb_true_iff in H as [H Ht]. apply andb_true_iff in H as [Hkk _].
        constructor; [exact Hkk|now apply IHm]. }
      rewrite Forall_forall in Hall. exact (Hall _ Hin). }
    now rewrite rewrite_is_nohtml.
  - rewrite !segments_vlist. unfold sp1 at 1 3. rewrite map_quoted_wrap. f_equal. f_equal.
    rewrite map_quoted_sep_by by reflexivity. f_equal. rewrite map_map.
    clear -IH H. induction IH as [|x l Hx Hl IHl]; [reflexivity|].
    rewrite json_shaped_vlist in H. apply andb_true_iff in H as [Hs Ht]. cbn [map]. rewrite (Hx Hs). f_equal. now apply IHl.
Qed.

(* outside the literals nothing holds a backslash *)
Lemma num_text_no_bsl : forall f, num_text f = true -> no_bsl f = true.
Proof.
  intros f H. destruct f as [|c f]; [discriminate|]. unfold num_text in H. unfold no_bsl.
  rewrite forallb_forall in *. intros a Ha. specialize (H a Ha). unfold num_char in H.
  destruct a as [[] [] [] [] [] [] [] []]; try discriminate H; reflexivity.
Qed.

Lemma sp_clean_app : forall a b, sp_clean (a ++ b) = sp_clean a && sp_clean b.
Proof. intros. unfold sp_clean. apply forallb_app. Qed.
Lemma sp_clean_sep_by : forall sep l, sp_clean [sep] = true -> Forall (fun x => sp_clean x = true) l -> sp_clean (sep_by sep l) = true.
Proof.
  intros sep l Hs Hl. induction Hl as [|x l Hx Hl IH]; [reflexivity|]. destruct l as [|y l]; [exact Hx|].
  change (sep_by sep (x :: y :: l)) with (x ++ [sep] ++ sep_by sep (y :: l)). now rewrite !sp_clean_app, Hx, Hs, IH.
Qed.

Lemma segments_sp_clean : forall P eh v, json_shaped P v = true -> sp_clean (segments eh v) = true.
Proof.
  intros P eh. induction v as [x|b| |z|z|z|f|x|m IH|l IH] using value_ind2; intro H; try discriminate H; try reflexivity.
  - destruct b; reflexivity.
  - cbn. now rewrite (num_text_no_bsl _ H).
  - cbn. now rewrite (num_text_no_bsl _ H).
  - rewrite segments_vmap. change (sp1 "{" :: ?a ++ ?b) with ([sp1 "{"] ++ a ++ b). rewrite !sp_clean_app.
    rewrite sp_clean_sep_by; [reflexivity|reflexivity|].
    rewrite Forall_map. apply jsort_Forall. rewrite Forall_map. cbn [fst snd].
    clear -IH H. induction IH as [|[k x] m Hx Hm IHm]; [constructor|].
    rewrite json_shaped_vmap in H. apply andb_true_iff in H as [H Ht]. apply andb_true_iff in H as [_ Hs].
    constructor; [|now apply IHm]. unfold entry_segs. cbn [fst snd]. cbn [sp_clean forallb]. cbn. exact (Hx Hs).
  - rewrite segments_vlist. change (sp1 "[" :: ?a ++ ?b) with ([sp1 "["] ++ a ++ b). rewrite !sp_clean_app.
    rewrite sp_clean_sep_by; [reflexivity|reflexivity|].
    rewrite Forall_map. clear -IH H. induction IH as [|x l Hx Hl IHl]; [constructor|].
    rewrite json_shaped_vlist in H. apply andb_true_iff in H as [Hs Ht]. constructor; [exact (Hx Hs)|now apply IHl].
Qed.

(* byte-for-byte: the bytes Map.Json() wrote before the repair = the bytes it writes now, whenever no key / string value
   holds one of the three texts *)
Lemma former_json_is_current : forall v, json_shaped hazard_free v = true ->
  rewrite (marshal true v) = map_json false v.
Proof.
  intros v H. unfold map_json, marshal.
  rewrite rewrite_distributes by (now apply (segments_sp_clean hazard_free)).
  now rewrite segments_rewrite.
Qed.

(* ------------------------------------------------------------------ no literal < > & in the safe encoding *)

Lemma esc_ascii_no_html : forall c, no_html (esc_ascii true c) = true.
Proof. intro c. destruct c as [[] [] [] [] [] [] [] []]; reflexivity. Qed.
Lemma high_no_html : forall u, forallb high u = true -> no_html u = true.
Proof.
  intros u H. unfold no_html. rewrite forallb_forall in *. intros c Hc. specialize (H c Hc).
  unfold high in H. apply N.leb_le in H. unfold is_html. apply negb_true_iff.
  repeat (apply orb_false_iff; split); apply N.eqb_neq; lia.
Qed.
Lemma no_html_app : forall a b, no_html (a ++ b) = no_html a && no_html b.
Proof. intros. unfold no_html. apply forallb_app. Qed.

Lemma q_step_no_html : forall x out rest, q_step true x = Some (out, rest) -> no_html out = true.
Proof.
  intros x out rest H. destruct x as [|c t]; [discriminate|]. cbn [q_step] in H.
  destruct (byte c <? 128)%N eqn:Ec.
  - injection H as <- _. apply esc_ascii_no_html.
  - assert (Hh : high c = true) by (unfold high; apply N.leb_le; apply N.ltb_ge in Ec; lia).
    destruct (rune_size (c :: t)) as [n|] eqn:E.
    + destruct (is_2028 (c :: t)) as [d|] eqn:E2; injection H as <- _.
      * destruct (is_2028_shape _ _ E2) as (c2 & t' & _ & -> & [Hc|Hc]); rewrite Hc; reflexivity.
      * apply high_no_html. exact (proj1 (rune_bytes _ _ E Hh)).
    + injection H as <- _. reflexivity.
Qed.

Lemma quote_body_no_html : forall x, no_html (quote_body true x) = true.
Proof.
  induction x as [|x out rest Hx E IH] using (chunk_ind true); [reflexivity|].
  rewrite (quote_body_step true x out rest Hx E), no_html_app, IH, (q_step_no_html _ _ _ E). reflexivity.
Qed.

Definition seg_no_html (g : seg) : bool := match g with SP x => no_html x | SQ b => no_html b end.
Lemma flatten_no_html : forall l, forallb seg_no_html l = true -> no_html (flatten l) = true.
Proof.
  induction l as [|g l IH]; intro H; [reflexivity|]. cbn in H. apply andb_true_iff in H as [Hg Hl].
  unfold flatten. cbn [flat_map]. rewrite no_html_app. fold (flatten l). rewrite (IH Hl), andb_true_r.
  destruct g as [x|b]; [exact Hg|]. cbn [render_seg]. change (dq :: b ++ [dq]) with ([dq] ++ b ++ [dq]).
  rewrite !no_html_app. cbn in Hg. now rewrite Hg.
Qed.

Lemma num_text_no_html : forall f, num_text f = true -> no_html f = true.
Proof.
  intros f H. destruct f as [|c f]; [discriminate|]. unfold num_text in H. unfold no_html.
  rewrite forallb_forall in *. intros a Ha. specialize (H a Ha). unfold num_char in H.
  destruct a as [[] [] [] [] [] [] [] []]; try discriminate H; reflexivity.
Qed.

Lemma forallb_sep_by (p : seg -> bool) : forall sep l, p sep = true -> Forall (fun x => forallb p x = true) l ->
  forallb p (sep_by sep l) = true.
Proof.
  intros sep l Hs Hl. induction Hl as [|x l Hx Hl IH]; [reflexivity|]. destruct l as [|y l]; [exact Hx|].
  change (sep_by sep (x :: y :: l)) with (x ++ sep :: sep_by sep (y :: l)). rewrite forallb_app. cbn [forallb]. now rewrite Hx, Hs, IH.
Qed.

Lemma segments_no_html : forall P v, json_shaped P v = true -> forallb seg_no_html (segments true v) = true.
Proof.
  intros P. induction v as [x|b| |z|z|z|f|x|m IH|l IH] using value_ind2; intro H; try discriminate H; try reflexivity.
  - cbn. now rewrite quote_body_no_html.
  - destruct b; reflexivity.
  - cbn. now rewrite (num_text_no_html _ H).
  - cbn. now rewrite (num_text_no_html _ H).
  - rewrite segments_vmap. cbn [forallb]. rewrite forallb_app. cbn. rewrite andb_true_r.
    apply forallb_sep_by; [reflexivity|]. rewrite Forall_map. apply jsort_Forall. rewrite Forall_map. cbn [fst snd].
    clear -IH H. induction IH as [|[k x] m Hx Hm IHm]; [constructor|].
    rewrite json_shaped_vmap in H. apply andb_true_iff in H as [H Ht]. apply andb_true_iff in H as [_ Hs].
    constructor; [|now apply IHm]. unfold entry_segs. cbn [fst snd forallb seg_no_html]. rewrite quote_body_no_html. cbn. exact (Hx Hs).
  - rewrite segments_vlist. cbn [forallb]. rewrite forallb_app. cbn. rewrite andb_true_r.
    apply forallb_sep_by; [reflexivity|]. rewrite Forall_map.
    clear -IH H. induction IH as [|x l Hx Hl IHl]; [constructor|].
    rewrite json_shaped_vlist in H. apply andb_true_iff in H as [Hs Ht]. constructor; [exact (Hx Hs)|now apply IHl].
Qed.

Lemma safe_no_literal : forall P v, json_shaped P v = true -> no_html (map_json true v) = true.
Proof. intros P v H. unfold map_json, marshal. apply flatten_no_html. now apply (segments_no_html P). Qed.

(* the default encoding writes <, > and & as themselves *)
Lemma default_literal : forall c t, is_html c = true -> quote_body false (c :: t) = c :: quote_body false t.
Proof.
  intros c t H. assert (Hc : (byte c <? 128)%N = true).
  { unfold is_html in H. apply N.ltb_lt. repeat (apply orb_true_iff in H as [H|H]); apply N.eqb_eq in H; lia. }
  rewrite (quote_body_step false (c :: t) (esc_ascii false c) t) by (discriminate || (cbn [q_step]; now rewrite Hc)).
  destruct c as [[] [] [] [] [] [] [] []]; try discriminate H; reflexivity.
Qed.

(* ------------------------------------------------------------------ every literal of the output unquotes to its string *)

Lemma lits_app : forall a b, lits (a ++ b) = lits a ++ lits b.
Proof. intros. unfold lits. apply flat_map_app. Qed.
Lemma lits_sep_by : forall sep l, lits [sep] = [] -> lits (sep_by sep l) = flat_map lits l.
Proof.
  intros sep l Hs. induction l as [|x l IH]; [reflexivity|]. destruct l as [|y l]; [cbn; now rewrite app_nil_r|].
  change (sep_by sep (x :: y :: l)) with (x ++ [sep] ++ sep_by sep (y :: l)). rewrite !lits_app, Hs, IH. reflexivity.
Qed.

Lemma strs_kids_map : forall m,
  (fix go (m : entries) : list (str * list str) := match m with [] => [] | (k, x) :: t => (k, strs x) :: go t end) m
  = map (fun kx => (fst kx, strs (snd kx))) m.
Proof. induction m as [|[k x] m IH]; [reflexivity|]. cbn [map fst snd]. now rewrite <- IH. Qed.
Lemma strs_elems : forall l,
  (fix go (l : list value) : list str := match l with [] => [] | x :: t => strs x ++ go t end) l = flat_map strs l.
Proof. induction l as [|x l IH]; [reflexivity|]. cbn [flat_map]. now rewrite <- IH. Qed.

Lemma flat_map_ext_in' {A B} (f g : A -> list B) : forall l, (forall a, In a l -> f a = g a) -> flat_map f l = flat_map g l.
Proof.
  induction l as [|a l IH]; intro H; [reflexivity|]. cbn. rewrite (H a (or_introl eq_refl)), IH; [reflexivity|].
  intros b Hb. apply H. now right.
Qed.
Lemma map_flat_map {A B C} (f : B -> C) (g : A -> list B) : forall l, map f (flat_map g l) = flat_map (fun x => map f (g x)) l.
Proof. induction l as [|a l IH]; [reflexivity|]. cbn. now rewrite map_app, IH. Qed.
Lemma flat_map_map {A B C} (f : A -> B) (g : B -> list C) : forall l, flat_map g (map f l) = flat_map (fun x => g (f x)) l.
Proof. induction l as [|a l IH]; [reflexivity|]. cbn. now rewrite IH. Qed.

Lemma jinsert_In {A} : forall (l : list (str * A)) q p, In p (jinsert q l) -> p = q \/ In p l.
Proof.
  induction l as [|b l IHl]; intros q p Hq; cbn in Hq.
  - destruct Hq as [->|[]]; auto.
  - destruct (str_leb (fst q) (fst b)); cbn in Hq.
    + destruct Hq as [->|Hq]; auto.
    + destruct Hq as [->|Hq]; [right; now left|]. destruct (IHl q p Hq) as [->|H]; auto. right. now right.
Qed.
Lemma jsort_In {A} : forall (l : list (str * A)) p, In p (jsort l) -> In p l.
Proof.
  induction l as [|a l IH]; intros p Hp; [exact Hp|]. cbn [jsort fold_right] in Hp. fold (jsort l) in Hp.
  destruct (jinsert_In _ _ _ Hp) as [->|H]; [now left|right; now apply IH].
Qed.

Lemma lits_segments : forall eh v, lits (segments eh v) = map (quote_body eh) (strs v).
Proof.
  intro eh. induction v as [x|b| |z|z|z|f|x|m IH|l IH] using value_ind2; try reflexivity.
  - destruct b; reflexivity.
  - rewrite segments_vmap. cbn [strs]. rewrite strs_kids_map.
    change (sp1 "{" :: ?a ++ ?b) with ([sp1 "{"] ++ a ++ b). rewrite !lits_app.
    change (lits [sp1 "{"]) with (@nil str). change (lits [sp1 "}"]) with (@nil str). rewrite app_nil_r. cbn [app].
    rewrite lits_sep_by by reflexivity.
    rewrite (jsort_map_snd (segments eh) m), (jsort_map_snd strs m).
    rewrite !flat_map_map, map_flat_map. apply flat_map_ext_in'. intros [k x] Hin. cbn [fst snd].
    unfold entry_segs. cbn [fst snd]. change (SQ ?b :: sp1 ":" :: ?r) with ([SQ b] ++ [sp1 ":"] ++ r). rewrite !lits_app.
    cbn [map]. change (lits [sp1 ":"]) with (@nil str). cbn [app lits flat_map]. f_equal.
    rewrite Forall_forall in IH. exact (IH _ (jsort_In _ _ Hin)).
  - rewrite segments_vlist. cbn [strs]. rewrite strs_elems.
    change (sp1 "[" :: ?a ++ ?b) with ([sp1 "["] ++ a ++ b). rewrite !lits_app.
    change (lits [sp1 "["]) with (@nil str). change (lits [sp1 "]"]) with (@nil str). rewrite app_nil_r. cbn [app].
    rewrite lits_sep_by by reflexivity. rewrite flat_map_map, map_flat_map. apply flat_map_ext_in'. intros x Hx.
    rewrite Forall_forall in IH. exact (IH _ Hx).
Qed.

(* ... so every literal of the output of Json(safe) decodes to the key / string value it was written for *)
Lemma literals_roundtrip : forall safe v, json_shaped utf8_valid v = true ->
  map unquote_body (lits (segments safe v)) = map Some (strs v).
Proof.
  intros safe v H. rewrite lits_segments, map_map.
  assert (Hall : Forall (fun x => utf8_valid x = true) (strs v)).
  { clear safe. induction v as [x|b| |z|z|z|f|x|m IH|l IH] using value_ind2; try (constructor; fail).
    - constructor; [exact H|constructor].
    - cbn [strs]. rewrite strs_kids_map, (jsort_map_snd strs m). rewrite Forall_forall. intros y Hy.
      apply in_flat_map in Hy as ([k ss] & Hin & Hy). apply in_map_iff in Hin as ([k' x] & Heq & Hin). injection Heq as <- <-.
      apply jsort_In in Hin.
      assert (Hkx : utf8_valid k' = true /\ json_shaped utf8_valid x = true).
      { clear -H Hin. induction m as [|[k0 x0] m IHm]; [destruct Hin|]. rewrite json_shaped_vmap in H.
        apply andb_true_iff in H as [H Ht]. apply andb_true_iff in H as [Hk Hs].
        destruct Hin as [Heq|Hin]; [injection Heq as <- <-; auto|now apply IHm]. }
      destruct Hkx as [Hk Hs]. cbn [fst snd] in Hy. destruct Hy as [<-|Hy]; [exact Hk|].
      rewrite Forall_forall in IH. specialize (IH _ Hin Hs). rewrite Forall_forall in IH. now apply IH.
    - cbn [strs]. rewrite strs_elems. rewrite Forall_forall. intros y Hy. apply in_flat_map in Hy as (x & Hin & Hy).
      assert (Hs : json_shaped utf8_valid x = true).
      { clear -H Hin. induction l as [|x0 l IHl]; [destruct Hin|]. rewrite json_shaped_vlist in H.
        apply andb_true_iff in H as [Hs Ht]. destruct Hin as [<-|Hin]; [exact Hs|now apply IHl]. }
      rewrite Forall_forall in IH. specialize (IH _ Hin Hs). rewrite Forall_forall in IH. now apply IH. }
  apply map_ext_in. intros x Hx. rewrite Forall_forall in Hall. now apply unquote_quote, Hall.
Qed.

(* ------------------------------------------------------------------ NewMapJson *)

Lemma new_map_json_accepts_exactly : forall decv b, b <> [] -> new_map_json decv b = accept_spec decv b.
Proof. intros decv b H. destruct b; [congruence|reflexivity]. Qed.
Lemma new_map_json_empty : forall decv, new_map_json decv [] = Ok (VMap []).
Proof. reflexivity. Qed.
(* the documented exception: the empty input is accepted although there is no value in it *)
Lemma new_map_json_empty_refuted : exists decv b, decv b = Err EEOF /\ new_map_json decv b <> accept_spec decv b.
Proof. exists (fun _ => Err EEOF), []. split; [reflexivity|]. discriminate. Qed.
