(* C06: the structural JSON round trip - decode_segs usenum (segments safe v) = Some (jcanon usenum v). *)
From Mxj Require Import Spec.JsonRT Proofs.StrLemmas Proofs.JsonP Proofs.C06P.
Import ListNotations.

(* ------------------------------------------------------------------ dec_val, one level unfolded *)

Definition members_f (dv : list seg -> option (value * list seg)) : nat -> entries -> list seg -> option (value * list seg) :=
  fix members (k : nat) (acc : entries) (l : list seg) : option (value * list seg) :=
    match k with
    | O => None
    | S k' =>
        match l with
        | SQ kb :: c :: l1 =>
            if sp_is c ":" then
              match unquote_body kb, dv l1 with
              | Some key, Some (v, g2 :: l2) =>
                  let acc' := if has_key key acc then set key v acc else acc ++ [(key, v)] in
                  if sp_is g2 "," then members k' acc' l2
                  else if sp_is g2 "}" then Some (VMap acc', l2) else None
              | _, _ => None
              end
            else None
        | _ => None
        end
    end.

Definition elems_f (dv : list seg -> option (value * list seg)) : nat -> list value -> list seg -> option (value * list seg) :=
  fix elems (k : nat) (acc : list value) (l : list seg) : option (value * list seg) :=
    match k with
    | O => None
    | S k' =>
        match dv l with
        | Some (v, g2 :: l2) =>
            if sp_is g2 "," then elems k' (acc ++ [v]) l2
            else if sp_is g2 "]" then Some (VList (acc ++ [v]), l2) else None
        | _ => None
        end
    end.

Definition dec_step (usenum : bool) (dv : list seg -> option (value * list seg)) (l : list seg) : option (value * list seg) :=
  match l with
  | [] => None
  | SQ b :: t => match unquote_body b with Some x => Some (VStr x, t) | None => None end
  | SP x :: t =>
      if str_eqb x (s "true") then Some (VBool true, t)
      else if str_eqb x (s "false") then Some (VBool false, t)
      else if str_eqb x (s "null") then Some (VNil, t)
      else if str_eqb x (s "{") then
        match t with
        | g :: t' => if sp_is g "}" then Some (VMap [], t') else members_f dv (S (length t)) [] t
        | [] => None
        end
      else if str_eqb x (s "[") then
        match t with
        | g :: t' => if sp_is g "]" then Some (VList [], t') else elems_f dv (S (length t)) [] t
        | [] => None
        end
      else if num_start x then Some ((if usenum then VJNum x else VFlt x), t)
      else None
  end.

Lemma dec_val_S : forall f usenum l, dec_val (S f) usenum l = dec_step usenum (dec_val f usenum) l.
Proof. reflexivity. Qed.

(* ------------------------------------------------------------------ sorting by key is a permutation *)

Lemma jinsert_perm {A} : forall (kv : str * A) l, Permutation (jinsert kv l) (kv :: l).
Proof.
  intros kv l. induction l as [|a l IH]; cbn [jinsert]; [reflexivity|].
  destruct (str_leb (fst kv) (fst a)); [reflexivity|]. rewrite IH. apply perm_swap.
Qed.
Lemma jsort_perm {A} : forall (l : list (str * A)), Permutation (jsort l) l.
Proof.
  induction l as [|a l IH]; [reflexivity|]. change (jsort (a :: l)) with (jinsert a (jsort l)).
  rewrite jinsert_perm. now constructor.
Qed.
Lemma jsort_nil_iff {A} : forall (l : list (str * A)), jsort l = [] -> l = [].
Proof. intros l H. apply Permutation_nil. rewrite <- H. apply jsort_perm. Qed.

(* ------------------------------------------------------------------ the nested fixpoints as maps / Foralls *)

Lemma canon_kids_map : forall un m,
  (fix go (m : entries) : entries :=
     match m with [] => [] | (k, x) :: t => (k, jcanon un x) :: go t end) m
  = map (fun kx => (fst kx, jcanon un (snd kx))) m.
Proof. intro un. induction m as [|[k x] m IH]; [reflexivity|]. cbn [map fst snd]. rewrite <- IH. reflexivity. Qed.
Lemma canon_elems_map : forall un l,
  (fix go (l : list value) : list value :=
     match l with [] => [] | x :: t => jcanon un x :: go t end) l = map (jcanon un) l.
Proof. intro un. induction l as [|x l IH]; [reflexivity|]. cbn [map]. rewrite <- IH. reflexivity. Qed.
Lemma jcanon_vmap : forall un m,
  jcanon un (VMap m) = VMap (map (fun kx => (fst kx, jcanon un (snd kx))) (jsort m)).
Proof. intros un m. cbn [jcanon]. rewrite canon_kids_map, (jsort_map_snd (jcanon un)). reflexivity. Qed.
Lemma jcanon_vlist : forall un l, jcanon un (VList l) = VList (map (jcanon un) l).
Proof. intros un l. cbn [jcanon]. rewrite canon_elems_map. reflexivity. Qed.

Lemma json_shaped_map_F : forall P m, json_shaped P (VMap m) = true ->
  Forall (fun kx => P (fst kx) = true /\ json_shaped P (snd kx) = true) m.
Proof.
  intros P. induction m as [|[k x] m IH]; intro H; [constructor|]. rewrite json_shaped_vmap in H.
  apply andb_true_iff in H as [H Ht]. apply andb_true_iff in H as [Hk Hx]. constructor; [now split|now apply IH].
Qed.
Lemma json_shaped_list_F : forall P l, json_shaped P (VList l) = true -> Forall (fun x => json_shaped P x = true) l.
Proof.
  intros P. induction l as [|x l IH]; intro H; [constructor|]. rewrite json_shaped_vlist in H.
  apply andb_true_iff in H as [Hx Ht]. constructor; [assumption|now apply IH].
Qed.

Lemma nums_start_map_F : forall m, nums_start (VMap m) = true -> Forall (fun kx => nums_start (snd kx) = true) m.
Proof.
  induction m as [|[k x] m IH]; intro H; [constructor|].
  change (nums_start x && nums_start (VMap m) = true) in H. apply andb_true_iff in H as [Hx Ht].
  constructor; [assumption|now apply IH].
Qed.
Lemma nums_start_list_F : forall l, nums_start (VList l) = true -> Forall (fun x => nums_start x = true) l.
Proof.
  induction l as [|x l IH]; intro H; [constructor|].
  change (nums_start x && nums_start (VList l) = true) in H. apply andb_true_iff in H as [Hx Ht].
  constructor; [assumption|now apply IH].
Qed.

Lemma nodup_keys_NoDup' : forall ks, nodup_keys ks = true -> NoDup ks.
Proof.
  induction ks as [|k ks IH]; intro H; [constructor|]. cbn [nodup_keys] in H. apply andb_true_iff in H as [Hk Ht].
  constructor; [|now apply IH]. intro Hin. apply negb_true_iff in Hk.
  assert (E : existsb (str_eqb k) ks = true) by (apply existsb_exists; exists k; split; [assumption|apply str_eqb_refl]).
  congruence.
Qed.
Lemma wfb_map_F : forall m, wfb (VMap m) = true -> NoDup (map fst m) /\ Forall (fun kx => wfb (snd kx) = true) m.
Proof.
  intros m H. cbn [wfb] in H. apply andb_true_iff in H as [Hn Hk]. split; [now apply nodup_keys_NoDup'|].
  clear Hn. induction m as [|[k x] m IH]; [constructor|]. apply andb_true_iff in Hk as [Hx Ht].
  constructor; [assumption|now apply IH].
Qed.
Lemma wfb_list_F : forall l, wfb (VList l) = true -> Forall (fun x => wfb x = true) l.
Proof.
  induction l as [|x l IH]; intro H; [constructor|].
  change (wfb x && wfb (VList l) = true) in H. apply andb_true_iff in H as [Hx Ht].
  constructor; [assumption|now apply IH].
Qed.

Lemma vdepth_map_F : forall f m, vdepth (VMap m) <= S f -> Forall (fun kx => vdepth (snd kx) <= f) m.
Proof.
  intros f. induction m as [|[k x] m IH]; intro H; [constructor|].
  change (S (Nat.max (vdepth x) (pred (vdepth (VMap m)))) <= S f) in H.
  constructor; [cbn [snd]; lia|]. apply IH. cbn [vdepth] in *. lia.
Qed.
Lemma vdepth_list_F : forall f l, vdepth (VList l) <= S f -> Forall (fun x => vdepth x <= f) l.
Proof.
  intros f. induction l as [|x l IH]; intro H; [constructor|].
  change (S (Nat.max (vdepth x) (pred (vdepth (VList l)))) <= S f) in H.
  constructor; [lia|]. apply IH. cbn [vdepth] in *. lia.
Qed.
Lemma vdepth_pos : forall v, 1 <= vdepth v.
Proof. destruct v; cbn [vdepth]; lia. Qed.

(* ------------------------------------------------------------------ the member and element loops *)

Definition eseg (eh : bool) (kx : str * value) : list seg :=
  SQ (quote_body eh (fst kx)) :: sp1 ":" :: segments eh (snd kx).

Lemma segments_vmap' : forall eh m,
  segments eh (VMap m) = sp1 "{" :: sep_by (sp1 ",") (map (eseg eh) (jsort m)) ++ [sp1 "}"].
Proof. intros eh m. rewrite segments_vmap, (jsort_map_snd (segments eh)), map_map. reflexivity. Qed.

Lemma has_key_snoc : forall k k0 v acc, has_key k (acc ++ [(k0, v)]) = has_key k acc || str_eqb k k0.
Proof.
  intros k k0 v. unfold has_key. induction acc as [|[k1 v1] acc IH]; cbn [app lookup].
  - destruct (str_eqb k k0); reflexivity.
  - destruct (str_eqb k k1); [reflexivity|exact IH].
Qed.

Lemma members_step : forall dv k acc kb l1 key v g2 l2,
  unquote_body kb = Some key -> dv l1 = Some (v, g2 :: l2) -> has_key key acc = false ->
  members_f dv (S k) acc (SQ kb :: sp1 ":" :: l1) =
  if sp_is g2 "," then members_f dv k (acc ++ [(key, v)]) l2
  else if sp_is g2 "}" then Some (VMap (acc ++ [(key, v)]), l2) else None.
Proof.
  intros dv k acc kb l1 key v g2 l2 Hu Hd Hh.
  cbn [members_f sp_is sp1 str_eqb s list_ascii_of_string Ascii.eqb Bool.eqb andb].
  rewrite Hu, Hd, Hh. reflexivity.
Qed.

Lemma elems_step : forall dv k acc l v g2 l2,
  dv l = Some (v, g2 :: l2) ->
  elems_f dv (S k) acc l =
  if sp_is g2 "," then elems_f dv k (acc ++ [v]) l2
  else if sp_is g2 "]" then Some (VList (acc ++ [v]), l2) else None.
Proof. intros dv k acc l v g2 l2 Hd. cbn [elems_f]. rewrite Hd. reflexivity. Qed.

Lemma members_ok : forall eh un dv es,
  Forall (fun kx => utf8_valid (fst kx) = true /\
                    forall rest, dv (segments eh (snd kx) ++ rest) = Some (jcanon un (snd kx), rest)) es ->
  NoDup (map fst es) -> es <> [] ->
  forall k acc rest, length es <= k -> (forall kx, In kx es -> has_key (fst kx) acc = false) ->
  members_f dv k acc (sep_by (sp1 ",") (map (eseg eh) es) ++ sp1 "}" :: rest)
  = Some (VMap (acc ++ map (fun kx => (fst kx, jcanon un (snd kx))) es), rest).
Proof.
  intros eh un dv es HF.
  induction HF as [|e es [Hk Hd] HF IH]; intros Hnd Hne k acc rest Hlen Hacc; [congruence|].
  destruct k as [|k]; [cbn [length] in Hlen; lia|].
  inversion Hnd as [|k0 ks0 Hnotin Hnd']; subst k0 ks0.
  assert (Hh : has_key (fst e) acc = false) by (apply Hacc; now left).
  destruct es as [|e' es'].
  - cbn [map sep_by]. unfold eseg. cbn [app].
    rewrite (members_step dv k acc _ _ (fst e) (jcanon un (snd e)) (sp1 "}") rest);
      [reflexivity|now apply unquote_quote|apply Hd|exact Hh].
  - change (sep_by (sp1 ",") (map (eseg eh) (e :: e' :: es')))
      with (eseg eh e ++ sp1 "," :: sep_by (sp1 ",") (map (eseg eh) (e' :: es'))).
    unfold eseg at 1. cbn [app]. rewrite <- !app_assoc. cbn [app].
    rewrite (members_step dv k acc _ _ (fst e) (jcanon un (snd e)) (sp1 ",")
               (sep_by (sp1 ",") (map (eseg eh) (e' :: es')) ++ sp1 "}" :: rest));
      [|now apply unquote_quote|apply Hd|exact Hh].
    change (sp_is (sp1 ",") ",") with true. cbn iota.
    rewrite IH; [|exact Hnd'|discriminate|cbn [length] in *; lia|].
    + cbn [map]. rewrite <- app_assoc. reflexivity.
    + intros kx Hin. rewrite has_key_snoc. rewrite (Hacc kx (or_intror Hin)). cbn [orb].
      apply str_eqb_neq. intro E. apply Hnotin. rewrite <- E. now apply in_map.
Qed.

Lemma elems_ok : forall eh un dv l,
  Forall (fun x => forall rest, dv (segments eh x ++ rest) = Some (jcanon un x, rest)) l ->
  l <> [] ->
  forall k acc rest, length l <= k ->
  elems_f dv k acc (sep_by (sp1 ",") (map (segments eh) l) ++ sp1 "]" :: rest)
  = Some (VList (acc ++ map (jcanon un) l), rest).
Proof.
  intros eh un dv l HF.
  induction HF as [|x l Hd HF IH]; intros Hne k acc rest Hlen; [congruence|].
  destruct k as [|k]; [cbn [length] in Hlen; lia|].
  destruct l as [|x' l'].
  - cbn [map sep_by]. rewrite (elems_step dv k acc _ (jcanon un x) (sp1 "]") rest); [reflexivity|apply Hd].
  - change (sep_by (sp1 ",") (map (segments eh) (x :: x' :: l')))
      with (segments eh x ++ sp1 "," :: sep_by (sp1 ",") (map (segments eh) (x' :: l'))).
    rewrite <- app_assoc. cbn [app].
    rewrite (elems_step dv k acc _ (jcanon un x) (sp1 ",")
               (sep_by (sp1 ",") (map (segments eh) (x' :: l')) ++ sp1 "]" :: rest)); [|apply Hd].
    change (sp_is (sp1 ",") ",") with true. cbn iota.
    rewrite IH; [|discriminate|cbn [length] in *; lia].
    cbn [map]. rewrite <- app_assoc. reflexivity.
Qed.

(* ------------------------------------------------------------------ one value from the front of a segment list *)

Lemma num_start_not : forall x y, num_start x = true ->
  match y with c :: _ => is_digit c || Ascii.eqb c "-"%char | [] => false end = false -> str_eqb x y = false.
Proof.
  intros [|c x] [|d y] Hx Hy; try reflexivity; try discriminate Hx.
  cbn [num_start] in Hx. cbn [str_eqb]. destruct (Ascii.eqb_spec c d) as [->|_]; [congruence|reflexivity].
Qed.

Lemma dec_step_num : forall un dv x t, num_start x = true -> dec_step un dv (SP x :: t) = Some (num_as un x, t).
Proof.
  intros un dv x t H. unfold dec_step.
  rewrite !(num_start_not x _ H) by reflexivity. rewrite H. reflexivity.
Qed.

Lemma dec_step_obj : forall un dv g t, sp_is g "}" = false ->
  dec_step un dv (sp1 "{" :: g :: t) = members_f dv (S (S (length t))) [] (g :: t).
Proof. intros un dv g t H. unfold dec_step, sp1. cbn [str_eqb s list_ascii_of_string Ascii.eqb Bool.eqb andb length]. rewrite H. reflexivity. Qed.
Lemma dec_step_arr : forall un dv g t, sp_is g "]" = false ->
  dec_step un dv (sp1 "[" :: g :: t) = elems_f dv (S (S (length t))) [] (g :: t).
Proof. intros un dv g t H. unfold dec_step, sp1. cbn [str_eqb s list_ascii_of_string Ascii.eqb Bool.eqb andb length]. rewrite H. reflexivity. Qed.

Lemma sep_by_length_ge : forall sep (l : list (list seg)), Forall (fun x => x <> []) l -> length l <= length (sep_by sep l).
Proof.
  intros sep l H. induction H as [|x l Hx Hl IH]; [cbn; lia|]. destruct l as [|y l].
  - cbn [sep_by length]. destruct x; [congruence|cbn [length]; lia].
  - change (sep_by sep (x :: y :: l)) with (x ++ sep :: sep_by sep (y :: l)). rewrite app_length. cbn [length] in *. lia.
Qed.

(* the first segment of a value is never a closing bracket *)
Definition opens (l : list seg) : Prop :=
  match l with g :: _ => sp_is g "}" = false /\ sp_is g "]" = false | [] => False end.
Lemma sep_by_opens : forall sep l, l <> [] -> Forall opens l -> opens (sep_by sep l).
Proof.
  intros sep l Hne H. destruct H as [|x l Hx Hl]; [congruence|]. destruct l as [|y l]; [exact Hx|].
  change (sep_by sep (x :: y :: l)) with (x ++ sep :: sep_by sep (y :: l)). destruct x; [destruct Hx|exact Hx].
Qed.
Lemma segments_opens : forall P eh v, json_shaped P v = true -> nums_start v = true -> opens (segments eh v).
Proof.
  intros P eh v Hs H. destruct v as [x|b| |z|z|z|f|f|m|l]; try discriminate Hs; try (split; reflexivity).
  - destruct b; split; reflexivity.
  - cbn [segments opens]. cbn [nums_start] in H. split; apply (num_start_not f _ H); reflexivity.
  - cbn [segments opens]. cbn [nums_start] in H. split; apply (num_start_not f _ H); reflexivity.
Qed.

Definition decodes (eh un : bool) (v : value) : Prop :=
  forall fuel rest, vdepth v <= fuel -> dec_val fuel un (segments eh v ++ rest) = Some (jcanon un v, rest).

Lemma dec_segments : forall eh un v,
  json_shaped utf8_valid v = true -> nums_start v = true -> wfb v = true -> decodes eh un v.
Proof.
  intros eh un. induction v as [x|b| |z|z|z|f|x|m IH|l IH] using value_ind2; intros Hs Hn Hw fuel rest Hf;
    try discriminate Hs; (destruct fuel as [|fuel]; [exfalso; revert Hf; match goal with |- vdepth ?w <= 0 -> _ => pose proof (vdepth_pos w); lia end|]);
    rewrite dec_val_S.
  - cbn [segments app dec_step jcanon]. cbn [json_shaped] in Hs. now rewrite unquote_quote.
  - destruct b; reflexivity.
  - reflexivity.
  - cbn [segments app jcanon]. now apply dec_step_num.
  - cbn [segments app jcanon]. now apply dec_step_num.
  - rewrite segments_vmap', jcanon_vmap. cbn [app]. rewrite <- app_assoc. cbn [app].
    destruct (jsort m) as [|e es] eqn:Ej.
    + reflexivity.
    + assert (HF : Forall (fun kx => utf8_valid (fst kx) = true /\
                     forall rest, dec_val fuel un (segments eh (snd kx) ++ rest) = Some (jcanon un (snd kx), rest)) (e :: es)).
      { rewrite <- Ej. apply jsort_Forall.
        pose proof (json_shaped_map_F _ _ Hs) as F1. pose proof (nums_start_map_F _ Hn) as F2.
        destruct (wfb_map_F _ Hw) as [_ F3]. pose proof (vdepth_map_F _ _ Hf) as F4.
        clear -IH F1 F2 F3 F4. induction IH as [|kx m Hx Hm IHm]; [constructor|].
        inversion F1 as [|? ? [A1 A2] F1']; inversion F2 as [|? ? B F2']; inversion F3 as [|? ? C F3'];
          inversion F4 as [|? ? D F4']; subst.
        constructor; [|now apply IHm]. split; [assumption|]. intro rest. now apply Hx. }
      assert (Hnd : NoDup (map fst (e :: es))).
      { rewrite <- Ej. destruct (wfb_map_F _ Hw) as [N _]. eapply Permutation_NoDup; [|exact N].
        apply Permutation_map. symmetry. apply jsort_perm. }
      remember (e :: es) as es0 eqn:Ees.
      assert (Hne : es0 <> []) by (subst; discriminate).
      pose proof (members_ok eh un (dec_val fuel un) es0 HF Hnd Hne) as M.
      remember (sep_by (sp1 ",") (map (eseg eh) es0) ++ sp1 "}" :: rest) as body eqn:Eb.
      assert (Hlen : length es0 <= length body).
      { subst body. rewrite app_length. 
        pose proof (sep_by_length_ge (sp1 ",") (map (eseg eh) es0)) as L. rewrite map_length in L.
        assert (length es0 <= length (sep_by (sp1 ",") (map (eseg eh) es0))); [|lia].
        apply L. rewrite Forall_map. apply Forall_forall. intros kx _. discriminate. }
      destruct body as [|g t].
      { exfalso. subst es0. cbn [length] in Hlen. lia. }
      assert (Hg : sp_is g "}" = false).
      { subst es0. destruct es; cbn in Eb; injection Eb as -> _; reflexivity. }
      rewrite (dec_step_obj un _ g t Hg). rewrite Eb. rewrite M.
      * reflexivity.
      * cbn [length] in Hlen. lia.
      * intros; reflexivity.
  - rewrite segments_vlist, jcanon_vlist. cbn [app]. rewrite <- app_assoc. cbn [app].
    destruct l as [|x l]; [reflexivity|].
    assert (HF : Forall (fun x => forall rest, dec_val fuel un (segments eh x ++ rest) = Some (jcanon un x, rest)) (x :: l)).
    { pose proof (json_shaped_list_F _ _ Hs) as F1. pose proof (nums_start_list_F _ Hn) as F2.
      pose proof (wfb_list_F _ Hw) as F3. pose proof (vdepth_list_F _ _ Hf) as F4.
      clear -IH F1 F2 F3 F4. induction IH as [|y m Hx Hm IHm]; [constructor|].
      inversion F1 as [|? ? A F1']; inversion F2 as [|? ? B F2']; inversion F3 as [|? ? C F3'];
        inversion F4 as [|? ? D F4']; subst.
      constructor; [|now apply IHm]. intro rest. now apply Hx. }
    remember (x :: l) as l0 eqn:El.
    assert (Hne : l0 <> []) by (subst; discriminate).
    pose proof (elems_ok eh un (dec_val fuel un) l0 HF Hne) as M.
    remember (sep_by (sp1 ",") (map (segments eh) l0) ++ sp1 "]" :: rest) as body eqn:Eb.
    assert (Hop : opens (sep_by (sp1 ",") (map (segments eh) l0))).
    { apply sep_by_opens; [subst; discriminate|]. rewrite Forall_map.
      pose proof (nums_start_list_F _ Hn) as F2. pose proof (json_shaped_list_F _ _ Hs) as F1.
      apply Forall_forall. intros a Ha. rewrite Forall_forall in F1, F2. apply (segments_opens utf8_valid); auto. }
    assert (Hlen : length l0 <= length body).
    { subst body. rewrite app_length.
      pose proof (sep_by_length_ge (sp1 ",") (map (segments eh) l0)) as L. rewrite map_length in L.
      assert (length l0 <= length (sep_by (sp1 ",") (map (segments eh) l0))); [|lia].
      apply L. rewrite Forall_map. pose proof (nums_start_list_F _ Hn) as F2. pose proof (json_shaped_list_F _ _ Hs) as F1.
      apply Forall_forall. intros a Ha E. rewrite Forall_forall in F1, F2.
      pose proof (segments_opens utf8_valid eh a (F1 a Ha) (F2 a Ha)) as O. rewrite E in O. exact O. }
    destruct body as [|g t].
    { exfalso. subst l0. cbn [length] in Hlen. lia. }
    assert (Hg : sp_is g "]" = false).
    { destruct (sep_by (sp1 ",") (map (segments eh) l0)) as [|g' t']; [destruct Hop|].
      cbn [app] in Eb. injection Eb as -> _. apply Hop. }
    rewrite (dec_step_arr un _ g t Hg). rewrite Eb. rewrite M.
    + reflexivity.
    + cbn [length] in Hlen. lia.
Qed.

(* ------------------------------------------------------------------ the whole text: fuel and whitespace *)

Lemma sep_by_In_length : forall sep (l : list (list seg)) x, In x l -> length x <= length (sep_by sep l).
Proof.
  intros sep l x. induction l as [|y l IH]; intro H; [destruct H|]. destruct l as [|z l].
  - destruct H as [->|[]]. cbn [sep_by]. lia.
  - change (sep_by sep (y :: z :: l)) with (y ++ sep :: sep_by sep (z :: l)). rewrite app_length. cbn [length].
    destruct H as [->|H]; [lia|]. specialize (IH H). lia.
Qed.

Lemma vdepth_map_le : forall n m, (forall kx, In kx m -> vdepth (snd kx) <= n) -> vdepth (VMap m) <= S n.
Proof.
  intros n. induction m as [|[k x] m IH]; intro H; [cbn [vdepth]; lia|].
  change (S (Nat.max (vdepth x) (pred (vdepth (VMap m)))) <= S n).
  pose proof (H (k, x) (or_introl eq_refl)) as Hx. cbn [snd] in Hx.
  assert (vdepth (VMap m) <= S n) by (apply IH; intros kx Hin; apply H; now right). lia.
Qed.
Lemma vdepth_list_le : forall n l, (forall x, In x l -> vdepth x <= n) -> vdepth (VList l) <= S n.
Proof.
  intros n. induction l as [|x l IH]; intro H; [cbn [vdepth]; lia|].
  change (S (Nat.max (vdepth x) (pred (vdepth (VList l)))) <= S n).
  pose proof (H x (or_introl eq_refl)) as Hx.
  assert (vdepth (VList l) <= S n) by (apply IH; intros y Hin; apply H; now right). lia.
Qed.

Lemma vdepth_le_segments : forall eh v, vdepth v <= length (segments eh v).
Proof.
  intros eh. induction v as [x|b| |z|z|z|f|x|m IH|l IH] using value_ind2; try (cbn [vdepth segments length]; lia).
  - destruct b; cbn; lia.
  - rewrite segments_vmap'. cbn [length]. rewrite app_length. cbn [length].
    assert (vdepth (VMap m) <= S (length (sep_by (sp1 ",") (map (eseg eh) (jsort m))))); [|lia].
    apply vdepth_map_le. intros kx Hin. rewrite Forall_forall in IH. specialize (IH kx Hin).
    etransitivity; [exact IH|]. etransitivity; [|apply (sep_by_In_length _ _ (eseg eh kx))].
    + unfold eseg. cbn [length]. lia.
    + apply in_map. eapply Permutation_in; [symmetry; apply jsort_perm|exact Hin].
  - rewrite segments_vlist. cbn [length]. rewrite app_length. cbn [length].
    assert (vdepth (VList l) <= S (length (sep_by (sp1 ",") (map (segments eh) l)))); [|lia].
    apply vdepth_list_le. intros x Hin. rewrite Forall_forall in IH. specialize (IH x Hin).
    etransitivity; [exact IH|]. apply sep_by_In_length. now apply in_map.
Qed.

Definition not_ws (g : seg) : bool := negb (is_ws_seg g).

Lemma num_start_not_ws : forall f, num_start f = true -> not_ws (SP f) = true.
Proof.
  intros [|c f] H; [discriminate H|]. cbn [num_start] in H. unfold not_ws. cbn [is_ws_seg forallb].
  assert (E : is_ws_char c = false); [|now rewrite E].
  unfold is_ws_char. rewrite <- (ascii_byte c) in H.
  destruct (N.eqb_spec (byte c) 32) as [E|_]; [rewrite E in H; discriminate H|].
  destruct (N.eqb_spec (byte c) 9) as [E|_]; [rewrite E in H; discriminate H|].
  destruct (N.eqb_spec (byte c) 10) as [E|_]; [rewrite E in H; discriminate H|].
  destruct (N.eqb_spec (byte c) 13) as [E|_]; [rewrite E in H; discriminate H|]. reflexivity.
Qed.

Lemma segments_not_ws : forall P eh v, json_shaped P v = true -> nums_start v = true ->
  forallb not_ws (segments eh v) = true.
Proof.
  intros P eh. induction v as [x|b| |z|z|z|f|x|m IH|l IH] using value_ind2; intros Hs Hn; try discriminate Hs; try reflexivity.
  - destruct b; reflexivity.
  - cbn [segments forallb]. cbn [nums_start] in Hn. now rewrite num_start_not_ws.
  - cbn [segments forallb]. cbn [nums_start] in Hn. now rewrite num_start_not_ws.
  - rewrite segments_vmap'. cbn [forallb]. rewrite forallb_app. cbn [forallb]. change (not_ws (sp1 "{")) with true.
    change (not_ws (sp1 "}")) with true. cbn [andb]. rewrite andb_true_r.
    apply forallb_sep_by; [reflexivity|]. rewrite Forall_map. apply jsort_Forall.
    pose proof (json_shaped_map_F _ _ Hs) as F1. pose proof (nums_start_map_F _ Hn) as F2.
    rewrite Forall_forall in IH, F1, F2. apply Forall_forall. intros kx Hin. unfold eseg. cbn [forallb].
    change (not_ws (SQ (quote_body eh (fst kx)))) with true. change (not_ws (sp1 ":")) with true. cbn [andb].
    apply IH; [assumption|apply F1; assumption|apply F2; assumption].
  - rewrite segments_vlist. cbn [forallb]. rewrite forallb_app. cbn [forallb]. change (not_ws (sp1 "[")) with true.
    change (not_ws (sp1 "]")) with true. cbn [andb]. rewrite andb_true_r.
    apply forallb_sep_by; [reflexivity|]. rewrite Forall_map.
    pose proof (json_shaped_list_F _ _ Hs) as F1. pose proof (nums_start_list_F _ Hn) as F2.
    rewrite Forall_forall in IH, F1, F2. apply Forall_forall. intros x Hin.
    apply IH; [assumption|apply F1; assumption|apply F2; assumption].
Qed.

Lemma filter_all {A} (p : A -> bool) : forall l, forallb p l = true -> filter p l = l.
Proof.
  induction l as [|a l IH]; intro H; [reflexivity|]. cbn [forallb] in H. apply andb_true_iff in H as [Ha Hl].
  cbn [filter]. rewrite Ha. now rewrite IH.
Qed.

(* json_roundtrip *)
Theorem json_roundtrip : forall safe usenum v,
  json_shaped utf8_valid v = true -> nums_start v = true -> wfb v = true ->
  decode_segs usenum (segments safe v) = Some (jcanon usenum v).
Proof.
  intros safe un v Hs Hn Hw. unfold decode_segs.
  change (fun g : seg => negb (is_ws_seg g)) with not_ws.
  rewrite (filter_all not_ws _ (segments_not_ws _ safe v Hs Hn)).
  pose proof (dec_segments safe un v Hs Hn Hw (S (length (segments safe v))) []) as D.
  rewrite app_nil_r in D. rewrite D; [reflexivity|].
  pose proof (vdepth_le_segments safe v). lia.
Qed.
