(* C08: key search (ValuesForKey, PathsForKey, PathForKeyShortest) and the
   sub-key filters of ValuesForKey / ValuesForPath. *)
From Coq Require Import Permutation.
From Mxj Require Import Model.KeyValues Spec.PathSem Spec.SubKeys Spec.KeySearch
  Proofs.StrLemmas Proofs.C07P.

(* ---------- list lemmas ---------- *)
Lemma filter_flat_map_comm {A B} (p : B -> bool) (f : A -> list B) l :
  filter p (flat_map f l) = flat_map (fun x => filter p (f x)) l.
Proof.
  induction l as [|a l IH]; cbn [flat_map filter]; [reflexivity|].
  rewrite filter_app, IH. reflexivity.
Qed.

Lemma flat_map_ext_in {A B} (f g : A -> list B) l :
  (forall x, In x l -> f x = g x) -> flat_map f l = flat_map g l.
Proof.
  induction l as [|a l IH]; intros H; cbn [flat_map]; [reflexivity|].
  rewrite H by (left; reflexivity). rewrite IH; [reflexivity|].
  intros x Hx. apply H. right; exact Hx.
Qed.

(* ================= 1-2. sub-keys only filter ================= *)
Definition hsk (sk : entries) (v : value) : bool := has_sub_keys v sk.

Lemma key_hit_nil v : key_hit v [] = final v.
Proof. destruct v; cbn; try reflexivity. apply filter_true. Qed.

Lemma key_hit_filter v sk : key_hit v sk = filter (hsk sk) (key_hit v []).
Proof.
  rewrite key_hit_nil. unfold hsk.
  destruct v; cbn [key_hit final filter]; try reflexivity;
    destruct sk; reflexivity.
Qed.

Lemma vfkp_leaf_key_hit v sk : vfkp_leaf v sk = key_hit v sk.
Proof. reflexivity. Qed.

Theorem has_key_walk_filter : forall m k sk,
  has_key_walk m k sk = filter (fun v => has_sub_keys v sk) (has_key_walk m k []).
Proof.
  intros m k sk. change (fun v => has_sub_keys v sk) with (hsk sk).
  induction m as [| | | | | | | |vv IH|l IH] using value_ind2; try reflexivity.
  - cbn [has_key_walk]. rewrite !filter_app. f_equal; [|f_equal].
    + destruct (lookup k vv) as [v|]; [apply key_hit_filter|reflexivity].
    + destruct (str_eqb k star); [|reflexivity].
      rewrite filter_flat_map_comm. apply flat_map_ext. intros kv. apply key_hit_filter.
    + rewrite filter_flat_map_comm. apply flat_map_ext_in. intros kv Hkv.
      rewrite Forall_forall in IH. apply IH; exact Hkv.
  - cbn [has_key_walk]. rewrite filter_flat_map_comm. apply flat_map_ext_in. intros x Hx.
    rewrite Forall_forall in IH. apply IH; exact Hx.
Qed.

Theorem vfkp_filter : forall ks sk m,
  vfkp ks sk m = filter (fun v => has_sub_keys v sk) (vfkp ks [] m).
Proof.
  intros ks sk. change (fun v => has_sub_keys v sk) with (hsk sk).
  induction ks as [|k rest IH]; intros m.
  - cbn [vfkp]. rewrite !vfkp_leaf_key_hit. apply key_hit_filter.
  - cbn [vfkp]. destruct (str_eqb k star).
    + destruct m; try reflexivity.
      * rewrite filter_flat_map_comm. apply flat_map_ext. intros kv. apply IH.
      * rewrite filter_flat_map_comm. apply flat_map_ext. intros x.
        destruct x; try apply IH.
        rewrite filter_flat_map_comm. apply flat_map_ext. intros kv. apply IH.
    + destruct m; try reflexivity.
      * destruct (lookup k m); [apply IH|reflexivity].
      * rewrite filter_flat_map_comm. apply flat_map_ext. intros x.
        destruct x; try reflexivity.
        destruct (lookup k m); [apply IH|reflexivity].
Qed.

Section Top.
Variable pf : str -> option flt.
Variable sep : str.

(* ValuesForKey(key, subkeys...) = ValuesForKey(key) filtered *)
Theorem values_for_key_filter m k sks sk :
  get_sub_key_map pf sep sks = Ok sk ->
  values_for_key pf sep m k sks =
  match values_for_key pf sep m k [] with
  | Ok vs => Ok (filter (fun v => has_sub_keys v sk) vs)
  | Err e => Err e
  | Panic => Panic
  end.
Proof.
  intros H. unfold values_for_key. rewrite H. cbn [bind get_sub_key_map get_sub_key_map_aux].
  rewrite has_key_walk_filter. reflexivity.
Qed.

(* ValuesForPath(path, subkeys...) = ValuesForPath(path) filtered; paths with and without '[' *)
Theorem values_for_path_filter m path sks sk :
  get_sub_key_map pf sep sks = Ok sk ->
  values_for_path pf sep m path sks =
  match values_for_path pf sep m path [] with
  | Ok vs => Ok (filter (fun v => has_sub_keys v sk) vs)
  | Err e => Err e
  | Panic => Panic
  end.
Proof.
  intros H. unfold values_for_path, old_values_for_path.
  destruct (negb (mem_ascii lbr path)).
  - rewrite H. cbn [bind get_sub_key_map get_sub_key_map_aux]. rewrite vfkp_filter. reflexivity.
  - rewrite H. cbn [bind get_sub_key_map get_sub_key_map_aux].
    destruct (parse_path path) as [ks| |]; cbn [bind]; try reflexivity.
    change (fun v => has_sub_keys v []) with (fun _ : value => true).
    rewrite filter_true. reflexivity.
Qed.

(* malformed sub-keys: the error is reported whatever the path / key *)
Theorem values_for_key_bad_subkeys m k sks e :
  get_sub_key_map pf sep sks = Err e -> values_for_key pf sep m k sks = Err e.
Proof. intros H. unfold values_for_key. rewrite H. reflexivity. Qed.

Theorem values_for_path_bad_subkeys m path sks e :
  get_sub_key_map pf sep sks = Err e -> values_for_path pf sep m path sks = Err e.
Proof.
  intros H. unfold values_for_path, old_values_for_path.
  destruct (negb (mem_ascii lbr path)); rewrite H; reflexivity.
Qed.
End Top.

(* ================= 3. the declarative sub-key predicate ================= *)
Lemma sub_key_ok_sat1 mv kv : sub_key_ok mv kv = sat1 mv (cond_of kv).
Proof.
  destruct kv as [k0 sval]. unfold sub_key_ok, cond_of, sat1. cbn [fst snd].
  assert (G : forall key neg,
    match lookup key mv with
    | Some vv => if is_star_val sval then negb neg
                 else if sub_val_matches sval vv then negb neg else neg
    | None => neg && is_star_val sval
    end =
    match lookup key mv with
    | Some v => if is_wild sval then negb neg else xorb neg (val_matches sval v)
    | None => neg && is_wild sval
    end).
  { intros key neg. change (is_star_val sval) with (is_wild sval).
    destruct (lookup key mv) as [vv|]; [|reflexivity].
    destruct (is_wild sval); [reflexivity|].
    change (sub_val_matches sval vv) with (val_matches sval vv).
    destruct (val_matches sval vv), neg; reflexivity. }
  destruct k0 as [|c t]; [apply G|].
  destruct c as [[] [] [] [] [] [] [] []]; try apply G.
Qed.

Theorem has_sub_keys_sat_all : forall v sk, has_sub_keys v sk = sat_all (conds_of sk) v.
Proof.
  intros v sk. destruct sk as [|kv sk]; [reflexivity|].
  unfold has_sub_keys, sat_all, conds_of. cbn [map].
  destruct v; try reflexivity.
  change (cond_of kv :: map cond_of sk) with (map cond_of (kv :: sk)).
  induction (kv :: sk) as [|x t IH]; cbn [forallb map]; [reflexivity|].
  rewrite sub_key_ok_sat1, IH. reflexivity.
Qed.

(* ================= 5. PathForKeyShortest ================= *)
Lemma shortest_from_spec best ps :
  In (shortest_from best ps) (best :: ps) /\
  forall p, In p (best :: ps) -> seg_count (shortest_from best ps) <= seg_count p.
Proof.
  revert best; induction ps as [|q t IH]; intros best; cbn [shortest_from].
  - split; [left; reflexivity|]. intros p [<-|[]]. lia.
  - destruct (Nat.ltb_spec (seg_count q) (seg_count best)) as [Hlt|Hge].
    + destruct (IH q) as [Hin Hmin]. split.
      * right. exact Hin.
      * intros p [<-|Hp]; [|apply Hmin; exact Hp].
        specialize (Hmin q (or_introl eq_refl)). lia.
    + destruct (IH best) as [Hin Hmin]. split.
      * destruct Hin as [Hin|Hin]; [left; exact Hin|right; right; exact Hin].
      * intros p [<-|[<-|Hp]].
        -- apply Hmin. left; reflexivity.
        -- specialize (Hmin best (or_introl eq_refl)). lia.
        -- apply Hmin. right; exact Hp.
Qed.

Theorem shortest_minimal ps :
  ps <> [] ->
  In (shortest ps) ps /\ forall p, In p ps -> path_len (shortest ps) <= path_len p.
Proof.
  destruct ps as [|p t]; [congruence|]. intros _. apply shortest_from_spec.
Qed.

Theorem shortest_nil : shortest [] = [].
Proof. reflexivity. Qed.

(* ties: the earliest of the minimal paths is kept *)
Lemma shortest_from_first best ps :
  (forall p, In p ps -> seg_count best <= seg_count p) -> shortest_from best ps = best.
Proof.
  induction ps as [|q t IH]; intros H; cbn [shortest_from]; [reflexivity|].
  destruct (Nat.ltb_spec (seg_count q) (seg_count best)) as [Hlt|Hge].
  - specialize (H q (or_introl eq_refl)). lia.
  - apply IH. intros p Hp. apply H. right; exact Hp.
Qed.

(* ================= 4. PathsForKey is exact ================= *)
Lemma join_cons_cons c k t : c <> [] ->
  join sdot ((c ++ sdot ++ k) :: t) = join sdot (c :: k :: t).
Proof.
  intros Hc. destruct t as [|a t'].
  - cbn [join]. destruct c; [congruence|reflexivity].
  - change (join sdot ((c ++ sdot ++ k) :: a :: t')) with ((c ++ sdot ++ k) ++ sdot ++ join sdot (a :: t')).
    change (join sdot (c :: k :: a :: t')) with (c ++ sdot ++ k ++ sdot ++ join sdot (a :: t')).
    rewrite <- !app_assoc. reflexivity.
Qed.

Lemma fold_crumb_nonempty ks c : c <> [] -> fold_left crumb ks c = join sdot (c :: ks).
Proof.
  revert c; induction ks as [|k t IH]; intros c Hc; cbn [fold_left].
  - reflexivity.
  - assert (E : crumb c k = c ++ sdot ++ k) by (destruct c; [congruence|reflexivity]).
    rewrite E. rewrite IH by (destruct c; [congruence|discriminate]).
    apply join_cons_cons; exact Hc.
Qed.

Lemma fold_crumb_trail ks : fold_left crumb ks [] = trail ks.
Proof.
  induction ks as [|k t IH]; [reflexivity|].
  cbn [fold_left]. destruct k as [|a k'].
  - exact IH.
  - cbn [crumb]. rewrite fold_crumb_nonempty by discriminate. reflexivity.
Qed.

(* a key list whose first key is not empty is written as the plain join *)
Lemma trail_join ks : hd [] ks <> [] -> trail ks = join sdot ks.
Proof. destruct ks as [|[|a k] t]; cbn [hd]; [congruence|congruence|reflexivity]. Qed.

Lemma in_lookup k x (m : entries) : In (k, x) m -> exists y, lookup k m = Some y.
Proof.
  induction m as [|[k' v] t IH]; intros H; [destruct H|].
  cbn [lookup]. destruct (str_eqb k k') eqn:E; [eauto|].
  destruct H as [H|H]; [|apply IH; exact H].
  inversion H; subst. rewrite str_eqb_refl in E. discriminate.
Qed.

Lemma lookup_in k y (m : entries) : lookup k m = Some y -> In (k, y) m.
Proof.
  induction m as [|[k' v] t IH]; cbn [lookup]; [discriminate|].
  destruct (str_eqb k k') eqn:E.
  - intros H; inversion H; subst. apply str_eqb_eq in E; subst. left; reflexivity.
  - intros H. right. apply IH; exact H.
Qed.

Lemma has_key_in k (m : entries) : has_key k m = true <-> exists x, In (k, x) m.
Proof.
  unfold has_key. split.
  - destruct (lookup k m) as [y|] eqn:E; [|discriminate]. intros _. exists y. apply lookup_in; exact E.
  - intros [x Hx]. destruct (in_lookup _ _ _ Hx) as [y ->]. reflexivity.
Qed.

Lemma has_key_path_complete ks m : path_exists ks m -> ks <> [] ->
  forall c, In (fold_left crumb ks c) (has_key_path c m (last ks [])).
Proof.
  induction 1 as [v|k ks m x Hin Hpe IH|k ks l x Hin Hpe IH]; intros Hne c; [congruence| |].
  - cbn [has_key_path fold_left]. apply in_or_app.
    destruct ks as [|k2 ks'].
    + left. cbn [last fold_left].
      replace (has_key k m) with true by (symmetry; apply has_key_in; eauto).
      left; reflexivity.
    + right. apply in_flat_map. exists (k, x). split; [exact Hin|].
      cbn [fst snd]. change (last (k :: k2 :: ks') []) with (last (k2 :: ks') []).
      apply IH. discriminate.
  - cbn [has_key_path]. apply in_flat_map. exists x. split; [exact Hin|]. apply IH; exact Hne.
Qed.

Lemma has_key_path_sound m key : forall c p,
  In p (has_key_path c m key) ->
  exists ks, ks <> [] /\ p = fold_left crumb ks c /\ last ks [] = key /\ path_exists ks m.
Proof.
  induction m as [| | | | | | | |vv IH|l IH] using value_ind2; intros c p Hp;
    try (destruct Hp; fail).
  - cbn [has_key_path] in Hp. apply in_app_or in Hp as [Hp|Hp].
    + destruct (has_key key vv) eqn:Hk; [|destruct Hp].
      destruct Hp as [<-|[]]. apply has_key_in in Hk as [x Hx].
      exists [key]. split; [discriminate|]. split; [reflexivity|]. split; [reflexivity|].
      eapply pe_key; [exact Hx|constructor].
    + apply in_flat_map in Hp as [[k x] [Hkx Hp]]. cbn [fst snd] in Hp.
      rewrite Forall_forall in IH. specialize (IH _ Hkx _ _ Hp). cbn [snd] in IH.
      destruct IH as (ks & Hne & -> & Hl & Hpe).
      exists (k :: ks). split; [discriminate|]. split; [reflexivity|]. split.
      * destruct ks; [congruence|exact Hl].
      * eapply pe_key; eassumption.
  - cbn [has_key_path] in Hp. apply in_flat_map in Hp as [x [Hx Hp]].
    rewrite Forall_forall in IH. destruct (IH _ Hx _ _ Hp) as (ks & Hne & -> & Hl & Hpe).
    exists ks. split; [exact Hne|]. split; [reflexivity|]. split; [exact Hl|].
    destruct ks as [|k ks']; [congruence|]. eapply pe_list; eassumption.
Qed.

Lemma existsb_str_in x l : existsb (str_eqb x) l = true <-> In x l.
Proof.
  rewrite existsb_exists. split.
  - intros [y [Hy E]]. apply str_eqb_eq in E; subst; exact Hy.
  - intros H. exists x. split; [exact H|apply str_eqb_refl].
Qed.

Lemma dedup_in x l : In x (dedup l) <-> In x l.
Proof.
  induction l as [|a t IH]; [reflexivity|]. cbn [dedup].
  destruct (existsb (str_eqb a) t) eqn:E.
  - rewrite IH. split; [intros H; right; exact H|].
    intros [<-|H]; [apply existsb_str_in; exact E|exact H].
  - cbn [In]. rewrite IH. reflexivity.
Qed.

Lemma dedup_nodup l : NoDup (dedup l).
Proof.
  induction l as [|a t IH]; [constructor|]. cbn [dedup].
  destruct (existsb (str_eqb a) t) eqn:E; [exact IH|].
  constructor; [|exact IH]. rewrite dedup_in. intros H. apply existsb_str_in in H. congruence.
Qed.

(* every Map, every key, every key spelling (empty keys, keys with dots, "*") *)
Theorem paths_for_key_exact m k p :
  In p (paths_for_key m k) <->
  exists ks, ks <> [] /\ p = trail ks /\ last ks [] = k /\ path_exists ks m.
Proof.
  unfold paths_for_key. rewrite dedup_in. split.
  - intros H. apply has_key_path_sound in H as (ks & Hne & -> & Hl & Hpe).
    exists ks. rewrite fold_crumb_trail. auto.
  - intros (ks & Hne & -> & <- & Hpe). rewrite <- fold_crumb_trail.
    apply has_key_path_complete; assumption.
Qed.

Theorem paths_for_key_nodup m k : NoDup (paths_for_key m k).
Proof. apply dedup_nodup. Qed.

(* a Map (top level = a Go map) without an empty top-level key: the paths are the joined key lists *)
Theorem paths_for_key_exact_join vv k p :
  Forall (fun kv => fst kv <> []) vv ->
  (In p (paths_for_key (VMap vv) k) <->
   exists ks, ks <> [] /\ p = join sdot ks /\ last ks [] = k /\ path_exists ks (VMap vv)).
Proof.
  intros HF. rewrite paths_for_key_exact.
  assert (G : forall ks, ks <> [] -> path_exists ks (VMap vv) -> trail ks = join sdot ks).
  { intros ks Hne Hpe. apply trail_join. inversion Hpe as [|k0 ks0 m0 x Hin _|]; subst; [congruence|].
    cbn [hd]. rewrite Forall_forall in HF. apply (HF _ Hin). }
  split; intros (ks & Hne & Hp & Hl & Hpe); exists ks; (split; [exact Hne|]); (split; [|auto]).
  - rewrite <- G; assumption.
  - rewrite G; assumption.
Qed.

(* path_existsb decides path_exists *)
Lemma path_existsb_spec ks : forall v, path_existsb ks v = true <-> path_exists ks v.
Proof.
  induction ks as [|k ks IH]; intros v.
  - cbn. split; [intros _; constructor|reflexivity].
  - induction v as [| | | | | | | |vv IHv|l IHv] using value_ind2;
      try (cbn; split; [discriminate|intros H; inversion H]).
    + cbn [path_existsb]. rewrite existsb_exists. split.
      * intros [[k' x] [Hin H]]. cbn [fst snd] in H. apply andb_true_iff in H as [H1 H2].
        apply str_eqb_eq in H1; subst. eapply pe_key; [exact Hin|]. apply IH; exact H2.
      * intros H. inversion H as [|k0 ks0 m0 x Hin Hpe|]; subst.
        exists (k, x). split; [exact Hin|]. cbn [fst snd]. rewrite str_eqb_refl. apply IH; exact Hpe.
    + cbn [path_existsb]. rewrite existsb_exists. rewrite Forall_forall in IHv. split.
      * intros [x [Hin H]]. eapply pe_list; [exact Hin|]. apply IHv; assumption.
      * intros H. inversion H as [| |k0 ks0 l0 x Hin Hpe]; subst.
        exists x. split; [exact Hin|]. apply IHv; assumption.
Qed.

(* ================= 6. ValuesForKey = the values stored under the key ================= *)
Lemma key_free_lookup k vv : key_free k (VMap vv) = true -> lookup k vv = None.
Proof.
  cbn [key_free]. intros H. apply andb_true_iff in H as [H _]. apply negb_true_iff in H.
  induction vv as [|[k' v] t IH]; [reflexivity|].
  cbn [existsb fst] in H. apply orb_false_iff in H as [H1 H2].
  cbn [lookup]. rewrite H1. apply IH; exact H2.
Qed.

Lemma key_free_entry k vv kv : key_free k (VMap vv) = true -> In kv vv -> key_free k (snd kv) = true.
Proof.
  cbn [key_free]. intros H Hin. apply andb_true_iff in H as [_ H].
  rewrite forallb_forall in H. apply H; exact Hin.
Qed.

Lemma key_free_member k l x : key_free k (VList l) = true -> In x l -> key_free k x = true.
Proof. cbn [key_free]. intros H Hin. rewrite forallb_forall in H. apply H; exact Hin. Qed.

Theorem has_key_walk_stored : forall m k,
  (k = star -> key_free star m = true) ->
  has_key_walk m k [] = stored_under k m.
Proof.
  intros m k.
  induction m as [| | | | | | | |vv IH|l IH] using value_ind2; intros Hk; try reflexivity.
  - cbn [has_key_walk stored_under]. rewrite app_assoc. f_equal.
    + unfold sel_map. destruct (str_eqb k star) eqn:Ek.
      * apply str_eqb_eq in Ek. subst k.
        rewrite (key_free_lookup _ _ (Hk eq_refl)). cbn [app].
        rewrite flat_map_map. apply flat_map_ext. intros kv. apply key_hit_nil.
      * rewrite app_nil_r. destruct (lookup k vv) as [v|]; [|reflexivity].
        cbn [flat_map]. rewrite app_nil_r. apply key_hit_nil.
    + apply flat_map_ext_in. intros kv Hkv. rewrite Forall_forall in IH. apply IH; [exact Hkv|].
      intros E. eapply key_free_entry; [apply Hk; exact E|exact Hkv].
  - cbn [has_key_walk stored_under]. apply flat_map_ext_in. intros x Hx.
    rewrite Forall_forall in IH. apply IH; [exact Hx|].
    intros E. eapply key_free_member; [apply Hk; exact E|exact Hx].
Qed.

(* without the side condition: under "*" a value stored under a literal "*" key is reported twice *)
Theorem has_key_walk_star_literal_twice :
  exists m, has_key_walk m star [] <> stored_under star m /\
            has_key_walk m star [] = stored_under star m ++ stored_under star m.
Proof. exists (VMap [(star, VInt 1)]). split; [discriminate|reflexivity]. Qed.

Lemma flat_map_app_perm {A B} (f g : A -> list B) l :
  Permutation (flat_map (fun x => f x ++ g x) l) (flat_map f l ++ flat_map g l).
Proof.
  induction l as [|a l IH]; cbn [flat_map]; [constructor|].
  rewrite IH. rewrite <- !app_assoc. apply Permutation_app_head. apply Permutation_app_swap_app.
Qed.

Lemma flat_map_perm_in {A B} (f g : A -> list B) l :
  (forall x, In x l -> Permutation (f x) (g x)) -> Permutation (flat_map f l) (flat_map g l).
Proof.
  induction l as [|a l IH]; intros H; cbn [flat_map]; [constructor|].
  apply Permutation_app; [apply H; left; reflexivity|]. apply IH. intros x Hx. apply H. right; exact Hx.
Qed.

Theorem has_key_walk_star m :
  Permutation (has_key_walk m star []) (stored_literal star m ++ stored_under star m).
Proof.
  induction m as [| | | | | | | |vv IH|l IH] using value_ind2; try (cbn; constructor).
  - cbn [has_key_walk stored_literal stored_under]. rewrite star_eqb.
    unfold sel_map. rewrite star_eqb.
    rewrite Forall_forall in IH.
    rewrite (flat_map_perm_in _ _ vv IH). rewrite flat_map_app_perm.
    rewrite flat_map_map.
    replace (match lookup star vv with Some v => key_hit v [] | None => [] end)
       with (match lookup star vv with Some x => final x | None => [] end)
       by (destruct (lookup star vv); [symmetry; apply key_hit_nil|reflexivity]).
    rewrite (flat_map_ext (fun kv => key_hit (snd kv) []) (fun x => final (snd x)))
      by (intros kv; apply key_hit_nil).
    rewrite <- !app_assoc. apply Permutation_app_head. apply Permutation_app_swap_app.
  - cbn [has_key_walk stored_literal stored_under]. rewrite Forall_forall in IH.
    rewrite (flat_map_perm_in _ _ l IH). apply flat_map_app_perm.
Qed.

(* the join statement fails for a Map with an empty top-level key *)
Theorem paths_for_key_join_refuted :
  exists vv k p,
    In p (paths_for_key (VMap vv) k) /\
    ~ (exists ks, ks <> [] /\ p = join sdot ks /\ last ks [] = k /\ path_exists ks (VMap vv)) /\
    values_for_path (fun _ => None) (s ":") (VMap vv) p [] = Ok [].
Proof.
  exists [([], VMap [(s "k", VInt 1)])], (s "k"), (s "k").
  split; [left; reflexivity|]. split; [|reflexivity].
  intros (ks & Hne & Hp & _ & Hpe).
  inversion Hpe as [|k0 ks0 m0 x Hin _|]; subst; [congruence|].
  destruct Hin as [Hin|[]]. inversion Hin; subst.
  destruct ks0; discriminate.
Qed.

(* ================= 7. ValuesForKey agrees with the key paths ================= *)
Lemma flat_map_nil_in {A B} (f : A -> list B) l : (forall x, In x l -> f x = []) -> flat_map f l = [].
Proof.
  induction l as [|a l IH]; intros H; cbn [flat_map]; [reflexivity|].
  rewrite H by (left; reflexivity). apply IH. intros x Hx. apply H. right; exact Hx.
Qed.

Lemma flat_map_swap {A B C} (f : A -> B -> list C) la lb :
  Permutation (flat_map (fun a => flat_map (fun b => f a b) lb) la)
              (flat_map (fun b => flat_map (fun a => f a b) la) lb).
Proof.
  induction la as [|a la IH]; cbn [flat_map].
  - rewrite flat_map_nil_in; [constructor|reflexivity].
  - rewrite IH. symmetry. apply (flat_map_app_perm (fun b => f a b) (fun b => flat_map (fun a0 => f a0 b) la)).
Qed.

(* the tails of the key lists that start with [a] and go on *)
Definition tail_of (a : str) (ks : list str) : list (list str) :=
  match ks with
  | a' :: ks' => if str_eqb a a' then match ks' with [] => [] | _ => [ks'] end else []
  | [] => []
  end.
Definition tails_of (a : str) (kss : list (list str)) : list (list str) := flat_map (tail_of a) kss.

Lemma in_tails_of a t kss : In t (tails_of a kss) <-> t <> [] /\ In (a :: t) kss.
Proof.
  unfold tails_of. rewrite in_flat_map. split.
  - intros [ks [Hks Ht]]. destruct ks as [|a' ks']; [destruct Ht|].
    cbn [tail_of] in Ht. destruct (str_eqb a a') eqn:E; [|destruct Ht].
    apply str_eqb_eq in E; subst a'.
    destruct ks' as [|b t']; [destruct Ht|]. destruct Ht as [<-|[]]. split; [discriminate|exact Hks].
  - intros [Hne Hin]. exists (a :: t). split; [exact Hin|].
    cbn [tail_of]. rewrite str_eqb_refl. destruct t; [congruence|left; reflexivity].
Qed.

Lemma tails_of_nodup a kss : NoDup kss -> NoDup (tails_of a kss).
Proof.
  induction 1 as [|ks rest Hnin Hnd IH]; [constructor|].
  unfold tails_of. cbn [flat_map]. fold (tails_of a rest).
  destruct ks as [|a' ks']; [exact IH|]. cbn [tail_of].
  destruct (str_eqb a a') eqn:E; [|exact IH]. apply str_eqb_eq in E; subst a'.
  destruct ks' as [|b t]; [exact IH|]. cbn [app].
  constructor; [|exact IH]. intros H. apply in_tails_of in H as [_ H]. contradiction.
Qed.

Lemma eval_map_cons a ks' vv : a <> star ->
  eval (a :: ks') (VMap vv) = match lookup a vv with Some x => eval ks' x | None => [] end.
Proof.
  intros Ha. apply str_eqb_neq in Ha. cbn [eval sel]. unfold sel_map. rewrite Ha.
  destruct (lookup a vv); cbn [flat_map]; [apply app_nil_r|reflexivity].
Qed.

Lemma eval_scalar a ks' v : is_scalar v = true -> eval (a :: ks') v = [].
Proof. destruct v; cbn [is_scalar]; intros H; try discriminate; reflexivity. Qed.

(* a list without list members: a non-wildcard path distributes over the members *)
Lemma eval_list_members ks l :
  ks <> [] -> Forall (fun a => a <> star) ks -> (forall x, In x l -> is_list x = false) ->
  eval ks (VList l) = flat_map (eval ks) l.
Proof.
  destruct ks as [|a ks']; [congruence|]. intros _ HF Hl. inversion HF as [|? ? Ha _]; subst.
  apply str_eqb_neq in Ha.
  cbn [eval sel]. rewrite flat_map_flat_map. apply flat_map_ext_in. intros x Hx.
  destruct x; try (rewrite Ha; reflexivity).
  - reflexivity.
  - specialize (Hl _ Hx). discriminate.
Qed.

Lemma lookup_none_nodup a (t : entries) : existsb (str_eqb a) (map fst t) = false -> lookup a t = None.
Proof.
  induction t as [|[k' v] t IH]; cbn [map fst existsb lookup]; [reflexivity|].
  intros H. apply orb_false_iff in H as [H1 H2]. rewrite H1. apply IH, H2.
Qed.

Lemma flat_map_lookup {B} a (f : value -> list B) (vv : entries) :
  nodup_keys (map fst vv) = true ->
  flat_map (fun kv => if str_eqb (fst kv) a then f (snd kv) else []) vv =
  match lookup a vv with Some x => f x | None => [] end.
Proof.
  induction vv as [|[k' v] t IH]; intros H; [reflexivity|].
  cbn [map fst nodup_keys] in H. apply andb_true_iff in H as [H1 H2]. apply negb_true_iff in H1.
  cbn [flat_map fst snd lookup]. rewrite (str_eqb_sym a k').
  destruct (str_eqb k' a) eqn:E.
  - apply str_eqb_eq in E; subst a. rewrite IH by exact H2.
    rewrite (lookup_none_nodup _ _ H1). apply app_nil_r.
  - cbn [app]. apply IH, H2.
Qed.

Definition singles (vv : entries) (kss : list (list str)) : list value :=
  flat_map (fun ks => match ks with [a] => eval [a] (VMap vv) | _ => [] end) kss.

Definition below (vv : entries) (kss : list (list str)) : list value :=
  flat_map (fun kv => flat_map (fun t => eval t (snd kv)) (tails_of (fst kv) kss)) vv.

Lemma below_single a rest vv : below vv ([a] :: rest) = below vv rest.
Proof.
  unfold below. apply flat_map_ext. intros kv. unfold tails_of. cbn [flat_map tail_of].
  destruct (str_eqb (fst kv) a); reflexivity.
Qed.

Lemma below_nil_head rest vv : below vv ([] :: rest) = below vv rest.
Proof. reflexivity. Qed.

Lemma below_long a b t rest vv :
  below vv ((a :: b :: t) :: rest) =
  flat_map (fun kv => (if str_eqb (fst kv) a then eval (b :: t) (snd kv) else [])
                      ++ flat_map (fun t => eval t (snd kv)) (tails_of (fst kv) rest)) vv.
Proof.
  unfold below. apply flat_map_ext. intros kv. unfold tails_of. cbn [flat_map tail_of].
  rewrite flat_map_app. destruct (str_eqb (fst kv) a); cbn [flat_map app]; rewrite ?app_nil_r; reflexivity.
Qed.

(* the values of a family of non-wildcard key lists at a map: the one-key lists
   hit the map itself, the longer ones are regrouped by the entry they enter *)
Lemma regroup vv kss :
  nodup_keys (map fst vv) = true ->
  (forall ks, In ks kss -> Forall (fun a => a <> star) ks) ->
  (forall ks, In ks kss -> ks <> []) ->
  Permutation (flat_map (fun ks => eval ks (VMap vv)) kss) (singles vv kss ++ below vv kss).
Proof.
  intros Hnd. induction kss as [|ks rest IH]; intros HF Hne.
  - unfold singles, below, tails_of. cbn [flat_map app].
    rewrite flat_map_nil_in; [constructor|reflexivity].
  - assert (IH' := IH (fun ks H => HF ks (or_intror H)) (fun ks H => Hne ks (or_intror H))).
    specialize (HF ks (or_introl eq_refl)). specialize (Hne ks (or_introl eq_refl)).
    cbn [flat_map]. rewrite IH'.
    destruct ks as [|a [|b t]]; [congruence| |].
    + rewrite below_single. unfold singles. cbn [flat_map]. rewrite <- app_assoc. reflexivity.
    + inversion HF as [|? ? Ha _]; subst.
      rewrite below_long. rewrite flat_map_app_perm.
      rewrite (flat_map_lookup a (eval (b :: t)) vv Hnd).
      rewrite eval_map_cons by exact Ha.
      unfold singles at 2. cbn [flat_map app]. fold (singles vv rest). fold (below vv rest).
      apply Permutation_app_swap_app.
Qed.

Definition kss_dec := in_dec (list_eq_dec (list_eq_dec ascii_dec)).

Lemma singles_spec vv k kss :
  NoDup kss -> (forall ks, In ks kss -> last ks [] = k) ->
  (In [k] kss -> singles vv kss = eval [k] (VMap vv)) /\ (~ In [k] kss -> singles vv kss = []).
Proof.
  induction 1 as [|ks rest Hnin Hnd IH]; intros Hl.
  - split; [intros []|reflexivity].
  - destruct (IH (fun ks H => Hl ks (or_intror H))) as [IH1 IH2].
    specialize (Hl ks (or_introl eq_refl)).
    destruct ks as [|a [|b t]].
    + change (singles vv ([] :: rest)) with (singles vv rest).
      split; intros H.
      * apply IH1. destruct H as [H|H]; [discriminate|exact H].
      * apply IH2. intros H'. apply H. right; exact H'.
    + cbn [last] in Hl. subst a. split; intros H.
      * unfold singles. cbn [flat_map]. fold (singles vv rest). rewrite IH2 by exact Hnin. apply app_nil_r.
      * exfalso. apply H. left; reflexivity.
    + change (singles vv ((a :: b :: t) :: rest)) with (singles vv rest).
      split; intros H.
      * apply IH1. destruct H as [H|H]; [discriminate|exact H].
      * apply IH2. intros H'. apply H. right; exact H'.
Qed.

Lemma distinct_keys_map vv : distinct_keys (VMap vv) = true ->
  nodup_keys (map fst vv) = true /\ forall kv, In kv vv -> distinct_keys (snd kv) = true.
Proof.
  cbn [distinct_keys]. intros H. apply andb_true_iff in H as [H1 H2].
  split; [exact H1|]. rewrite forallb_forall in H2. exact H2.
Qed.

Lemma no_nested_lists_list l : no_nested_lists (VList l) = true ->
  forall x, In x l -> is_list x = false /\ no_nested_lists x = true.
Proof.
  cbn [no_nested_lists]. intros H x Hx. rewrite forallb_forall in H. specialize (H x Hx).
  apply andb_true_iff in H as [H1 H2]. apply negb_true_iff in H1. split; assumption.
Qed.

Lemma last_cons_ne {A} (a : A) t d : t <> [] -> last (a :: t) d = last t d.
Proof. destruct t; [congruence|reflexivity]. Qed.

Section Consistency.
Variable k : str.
Hypothesis Hk : k <> star.

Lemma consistency_gen m :
  distinct_keys m = true -> no_nested_lists m = true ->
  forall kss, NoDup kss ->
  (forall ks, In ks kss -> ks <> [] /\ last ks [] = k /\ Forall (fun a => a <> star) ks) ->
  (forall ks, ks <> [] -> last ks [] = k -> path_exists ks m -> In ks kss) ->
  Permutation (has_key_walk m k []) (flat_map (fun ks => eval ks m) kss).
Proof.
  induction m as [| | | | | | | |vv IH|l IH] using value_ind2; intros Hd Hn kss Hnd Hel Hsup;
    try (cbn [has_key_walk]; rewrite flat_map_nil_in; [constructor|];
         intros ks Hks; destruct (Hel ks Hks) as [Hne _]; destruct ks; [exfalso; apply Hne; reflexivity|reflexivity]).
  - (* a map *)
    destruct (distinct_keys_map _ Hd) as [Hnk Hdk].
    cbn [no_nested_lists] in Hn. rewrite forallb_forall in Hn.
    cbn [has_key_walk]. rewrite (proj2 (str_eqb_neq k star) Hk). cbn [app].
    rewrite regroup; [|exact Hnk|intros ks Hks; apply (Hel ks Hks)|intros ks Hks; apply (Hel ks Hks)].
    apply Permutation_app.
    + destruct (singles_spec vv k kss Hnd (fun ks H => proj1 (proj2 (Hel ks H)))) as [S1 S2].
      destruct (lookup k vv) as [v|] eqn:El.
      * rewrite S1.
        -- rewrite eval_map_cons by exact Hk. rewrite El. rewrite key_hit_nil. reflexivity.
        -- apply Hsup; [discriminate|reflexivity|].
           eapply pe_key; [apply lookup_in; exact El|constructor].
      * destruct (kss_dec [k] kss) as [Hin|Hnin].
        -- rewrite S1 by exact Hin. rewrite eval_map_cons by exact Hk. rewrite El. constructor.
        -- rewrite S2 by exact Hnin. constructor.
    + unfold below. apply flat_map_perm_in. intros [a x] Hkv. cbn [fst snd].
      rewrite Forall_forall in IH. apply (IH _ Hkv).
      * apply (Hdk _ Hkv).
      * apply (Hn _ Hkv).
      * apply tails_of_nodup; exact Hnd.
      * intros t Ht. apply in_tails_of in Ht as [Hne Hin].
        destruct (Hel _ Hin) as (_ & Hl & HF).
        split; [exact Hne|]. split.
        -- rewrite last_cons_ne in Hl by exact Hne. exact Hl.
        -- inversion HF; assumption.
      * intros t Hne Hl Hpe. apply in_tails_of. split; [exact Hne|].
        apply Hsup; [discriminate|rewrite last_cons_ne by exact Hne; exact Hl|].
        eapply pe_key; [exact Hkv|exact Hpe].
  - (* a list *)
    pose proof (no_nested_lists_list _ Hn) as Hmem.
    cbn [distinct_keys] in Hd. rewrite forallb_forall in Hd.
    cbn [has_key_walk].
    rewrite (flat_map_ext_in (fun ks => eval ks (VList l)) (fun ks => flat_map (fun x => eval ks x) l)).
    2:{ intros ks Hks. destruct (Hel ks Hks) as (Hne & _ & HF).
        apply eval_list_members; [exact Hne|exact HF|]. intros x Hx. apply (Hmem x Hx). }
    rewrite (flat_map_swap (fun ks x => eval ks x) kss l).
    apply flat_map_perm_in. intros x Hx.
    rewrite Forall_forall in IH. apply (IH _ Hx).
    + apply (Hd _ Hx).
    + apply (Hmem _ Hx).
    + exact Hnd.
    + exact Hel.
    + intros ks Hne Hl Hpe. apply Hsup; [exact Hne|exact Hl|].
      destruct ks as [|k0 ks']; [congruence|]. eapply pe_list; [exact Hx|exact Hpe].
Qed.
End Consistency.

Lemma path_exists_key_free c ks v :
  path_exists ks v -> key_free c v = true -> Forall (fun a => a <> c) ks.
Proof.
  induction 1 as [v|k ks m x Hin Hpe IH|k ks l x Hin Hpe IH]; intros Hf.
  - constructor.
  - constructor.
    + cbn [key_free] in Hf. apply andb_true_iff in Hf as [Hf _]. apply negb_true_iff in Hf.
      intros ->. assert (E : existsb (fun kv => str_eqb c (fst kv)) m = true).
      { apply existsb_exists. exists (c, x). split; [exact Hin|apply str_eqb_refl]. }
      congruence.
    + apply IH. apply (key_free_entry c m (k, x) Hf Hin).
  - apply IH. apply (key_free_member c l x Hf Hin).
Qed.

(* ValuesForKey(k) is the union, over the distinct existing key paths ending in k, of what each path denotes *)
Theorem key_path_consistency m k kss :
  k <> star ->
  distinct_keys m = true -> no_nested_lists m = true -> key_free star m = true ->
  NoDup kss ->
  (forall ks, In ks kss <-> ks <> [] /\ last ks [] = k /\ path_exists ks m) ->
  Permutation (has_key_walk m k []) (flat_map (fun ks => eval ks m) kss).
Proof.
  intros Hk Hd Hn Hf Hnd Hchar. apply consistency_gen; try assumption.
  - intros ks Hks. apply Hchar in Hks as (Hne & Hl & Hpe).
    split; [exact Hne|]. split; [exact Hl|]. eapply path_exists_key_free; eassumption.
  - intros ks Hne Hl Hpe. apply Hchar. auto.
Qed.
