(* C12, second part: the content of the Map NewMap builds when no new path equals or
   extends another; the error cases of the loop; the new paths of the pairs. *)
From Mxj Require Import Spec.NewMapBuild Proofs.StrLemmas Proofs.StrMore Proofs.C07P Proofs.KVTotal Proofs.C12P.

(* ================= association lists ================= *)
Lemma lk_set_same k v m : lookup k (set k v m) = Some v.
Proof.
  induction m as [|[k' v'] t IH]; cbn.
  - rewrite str_eqb_refl; reflexivity.
  - destruct (str_eqb k k') eqn:E; cbn; rewrite E; [reflexivity|exact IH].
Qed.

Lemma lk_set_other q k v m : q <> k -> lookup q (set k v m) = lookup q m.
Proof.
  intros Hq. induction m as [|[k' v'] t IH]; cbn.
  - apply str_eqb_neq in Hq. rewrite Hq; reflexivity.
  - destruct (str_eqb k k') eqn:E; cbn.
    + apply str_eqb_eq in E; subst k'. apply str_eqb_neq in Hq. rewrite Hq; reflexivity.
    + destruct (str_eqb q k'); [reflexivity|exact IH].
Qed.

(* ================= unfolding the three walks at a path of two or more keys ================= *)
Lemma put_path_cons2 k k2 r x n :
  put_path (k :: k2 :: r) x n =
  match lookup k n with
  | Some (VMap mm) => set k (VMap (put_path (k2 :: r) x mm)) n
  | _ => set k (VMap (put_path (k2 :: r) x [])) n
  end.
Proof. reflexivity. Qed.

Lemma add_new_val_cons2 k k2 r x n :
  add_new_val (k :: k2 :: r) x n =
  let down := add_new_val (k2 :: r) x in
  match lookup k n with
  | None | Some VNil => set k (VMap (down [])) n
  | Some (VMap mm) => set k (VMap (down mm)) n
  | Some (VList l) =>
      let '(l', found) := list_first_map down l in
      set k (VList (if found then l' else l' ++ [VMap (down [])])) n
  | Some v => set k (VList [v; VMap (down [])]) n
  end.
Proof. reflexivity. Qed.

Lemma free_at_cons2 k k2 r n :
  free_at (k :: k2 :: r) n =
  match lookup k n with
  | None => True
  | Some (VMap mm) => free_at (k2 :: r) mm
  | Some _ => False
  end.
Proof. reflexivity. Qed.

Lemma free_at_nil p : p <> [] -> free_at p [].
Proof. destruct p as [|k [|k2 r]]; intros H; cbn; [congruence|reflexivity|exact I]. Qed.

Lemma free_at_nonempty p n : free_at p n -> p <> [].
Proof. destruct p; [intros []|discriminate]. Qed.

(* every put writes the first key of the path and nothing else at the top level *)
Lemma put_path_head k rest x n : exists y, put_path (k :: rest) x n = set k y n.
Proof.
  destruct rest as [|k2 r]; [eexists; reflexivity|]. rewrite put_path_cons2.
  destruct (lookup k n) as [[]|]; eexists; reflexivity.
Qed.

Lemma free_at_lookup_ext k rest n1 n2 :
  lookup k n1 = lookup k n2 -> free_at (k :: rest) n1 -> free_at (k :: rest) n2.
Proof.
  intros E. destruct rest as [|k2 r].
  - cbn. rewrite E. tauto.
  - rewrite !free_at_cons2, E. tauto.
Qed.

(* ================= on a free place addNewVal is the plain nested insertion ================= *)
Lemma add_new_val_free : forall p x n, free_at p n -> add_new_val p x n = put_path p x n.
Proof.
  induction p as [|k rest IH]; intros x n H; [destruct H|].
  destruct rest as [|k2 r].
  - cbn in H |- *. unfold add_final. rewrite H. reflexivity.
  - rewrite add_new_val_cons2, put_path_cons2. rewrite free_at_cons2 in H. cbv zeta.
    destruct (lookup k n) as [[]|]; try contradiction.
    + rewrite IH by exact H. reflexivity.
    + rewrite IH by (apply free_at_nil; discriminate). reflexivity.
Qed.

(* ================= prefixes of key lists ================= *)
Lemma prefixb_keys_spec p q : prefixb_keys p q = true <-> prefix p q.
Proof.
  revert q; induction p as [|a p IH]; intros q.
  - cbn. split; [intros _; exists q; reflexivity|reflexivity].
  - destruct q as [|b q]; cbn.
    + split; [discriminate|]. intros [r Hr]. discriminate.
    + rewrite andb_true_iff, IH, str_eqb_eq. split.
      * intros [-> [r ->]]. exists r. reflexivity.
      * intros [r Hr]. cbn in Hr. inversion Hr; subst. split; [reflexivity|exists r; reflexivity].
Qed.

Lemma comparableb_spec p q : comparableb p q = false <-> ~ comparable p q.
Proof.
  unfold comparableb, comparable. rewrite orb_false_iff. split.
  - intros [H1 H2] [H|H]; apply prefixb_keys_spec in H; congruence.
  - intros H. split.
    + destruct (prefixb_keys p q) eqn:E; [|reflexivity]. exfalso. apply H. left. apply prefixb_keys_spec, E.
    + destruct (prefixb_keys q p) eqn:E; [|reflexivity]. exfalso. apply H. right. apply prefixb_keys_spec, E.
Qed.

Lemma prefix_freeb_spec ps : prefix_freeb ps = true <-> prefix_free ps.
Proof.
  induction ps as [|p t IH]; cbn; [tauto|].
  rewrite andb_true_iff, IH, forallb_forall, Forall_forall. split.
  - intros [H1 H2]. split; [|exact H2]. intros q Hq. apply comparableb_spec. specialize (H1 q Hq).
    apply negb_true_iff in H1. exact H1.
  - intros [H1 H2]. split; [|exact H2]. intros q Hq. apply negb_true_iff. apply comparableb_spec. apply H1, Hq.
Qed.

Lemma comparable_sym p q : comparable p q -> comparable q p.
Proof. unfold comparable. tauto. Qed.

Lemma not_comparable_cons k p q : ~ comparable (k :: p) (k :: q) -> ~ comparable p q.
Proof. intros H [[r ->]|[r ->]]; apply H; [left|right]; exists r; reflexivity. Qed.

(* any two key lists: one extends the other, or is a proper prefix of it, or they part ways *)
Lemma keys_trichotomy p q : prefix p q \/ proper_prefix q p \/ ~ comparable p q.
Proof.
  destruct (prefixb_keys p q) eqn:E1; [left; apply prefixb_keys_spec, E1|].
  destruct (prefixb_keys q p) eqn:E2.
  - right; left. apply prefixb_keys_spec in E2 as [r Hr]. exists r. split; [|exact Hr].
    intros ->. rewrite app_nil_r in Hr. subst p.
    assert (H : prefixb_keys q q = true) by (apply prefixb_keys_spec; exists []; rewrite app_nil_r; reflexivity).
    congruence.
  - right; right. apply comparableb_spec. unfold comparableb. rewrite E1, E2. reflexivity.
Qed.

(* ================= reading the Map after one insertion ================= *)
Lemma get_keys_cons k t m :
  get_keys (k :: t) m = match lookup k m with Some x => get_keys_v t x | None => None end.
Proof. reflexivity. Qed.

(* at and below the new path: the inserted value *)
Lemma get_put_ext : forall p x n r, p <> [] -> get_keys (p ++ r) (put_path p x n) = get_keys_v r x.
Proof.
  induction p as [|k rest IH]; intros x n r Hne; [congruence|].
  destruct rest as [|k2 rr].
  - cbn [app put_path]. rewrite get_keys_cons, lk_set_same. reflexivity.
  - change ((k :: k2 :: rr) ++ r) with (k :: ((k2 :: rr) ++ r)).
    rewrite put_path_cons2, get_keys_cons.
    destruct (lookup k n) as [[]|]; rewrite lk_set_same;
      (change (get_keys_v ((k2 :: rr) ++ r) (VMap ?m)) with (get_keys ((k2 :: rr) ++ r) m));
      apply IH; discriminate.
Qed.

(* strictly above the new path: a map *)
Lemma get_put_above : forall qs p x n r,
  qs <> [] -> r <> [] -> p = qs ++ r -> exists mm, get_keys qs (put_path p x n) = Some (VMap mm).
Proof.
  induction qs as [|k qs IH]; intros p x n r Hq Hr ->; [congruence|].
  change ((k :: qs) ++ r) with (k :: (qs ++ r)).
  destruct (qs ++ r) as [|k2 rr] eqn:E; [destruct qs; [cbn in E; congruence|discriminate]|].
  rewrite put_path_cons2, get_keys_cons.
  destruct qs as [|k' qs'].
  - destruct (lookup k n) as [[]|]; rewrite lk_set_same; eexists; reflexivity.
  - assert (G : forall mm0, exists mm, get_keys_v (k' :: qs') (VMap (put_path (k2 :: rr) x mm0)) = Some (VMap mm)).
    { intros mm0. apply (IH (k2 :: rr) x mm0 r); [discriminate|exact Hr|symmetry; exact E]. }
    destruct (lookup k n) as [[]|]; rewrite lk_set_same; apply G.
Qed.

(* where the key lists part ways: what was there before *)
Lemma get_put_apart : forall p x n qs,
  free_at p n -> ~ comparable p qs -> get_keys qs (put_path p x n) = get_keys qs n.
Proof.
  induction p as [|k rest IH]; intros x n qs Hf Hc; [destruct Hf|].
  destruct qs as [|k' qs']; [exfalso; apply Hc; right; exists (k :: rest); reflexivity|].
  destruct (str_eqb k' k) eqn:E.
  - apply str_eqb_eq in E; subst k'.
    destruct rest as [|k2 r]; [exfalso; apply Hc; left; exists qs'; reflexivity|].
    destruct qs' as [|k2' r']; [exfalso; apply Hc; right; exists (k2 :: r); reflexivity|].
    rewrite put_path_cons2, !get_keys_cons. rewrite free_at_cons2 in Hf.
    apply not_comparable_cons in Hc.
    destruct (lookup k n) as [[]|]; try contradiction; rewrite lk_set_same.
    + apply (IH x m (k2' :: r') Hf Hc).
    + apply (IH x [] (k2' :: r')); [apply free_at_nil; discriminate|exact Hc].
  - destruct (put_path_head k rest x n) as [y ->].
    rewrite !get_keys_cons, lk_set_other; [reflexivity|]. apply str_eqb_neq; exact E.
Qed.

(* the other new paths stay free *)
Lemma free_at_put : forall p x n q,
  free_at p n -> free_at q n -> ~ comparable p q -> free_at q (put_path p x n).
Proof.
  induction p as [|k rest IH]; intros x n q Hp Hq Hc; [destruct Hp|].
  destruct q as [|k' rest']; [destruct Hq|].
  destruct (str_eqb k' k) eqn:E.
  - apply str_eqb_eq in E; subst k'.
    destruct rest as [|k2 r]; [exfalso; apply Hc; left; exists rest'; reflexivity|].
    destruct rest' as [|k2' r']; [exfalso; apply Hc; right; exists (k2 :: r); reflexivity|].
    rewrite put_path_cons2. rewrite free_at_cons2 in Hp, Hq |- *.
    apply not_comparable_cons in Hc.
    destruct (lookup k n) as [[]|]; try contradiction; rewrite lk_set_same.
    + apply IH; assumption.
    + apply IH; [apply free_at_nil; discriminate|apply free_at_nil; discriminate|exact Hc].
  - destruct (put_path_head k rest x n) as [y ->].
    eapply free_at_lookup_ext; [|exact Hq]. symmetry. apply lk_set_other. apply str_eqb_neq; exact E.
Qed.

(* ================= the loop over the items ================= *)
Definition inv (n : entries) (items : list (list str * value)) : Prop :=
  Forall (fun it => free_at (fst it) n) items /\ prefix_free (map fst items).

Lemma inv_step n p x t : inv n ((p, x) :: t) -> inv (put_path p x n) t.
Proof.
  intros [HF HP]. cbn [map fst prefix_free] in HP. destruct HP as [HP1 HP2].
  inversion HF as [|? ? Hp Ht]; subst. cbn [fst] in Hp.
  split; [|exact HP2].
  rewrite Forall_forall in *. intros it Hin. apply free_at_put; [exact Hp|apply Ht, Hin|].
  apply HP1. apply in_map. exact Hin.
Qed.

Lemma inv_head_free n p x t : inv n ((p, x) :: t) -> free_at p n.
Proof. intros [HF _]. inversion HF; subst; assumption. Qed.

Lemma inv_initial items :
  Forall (fun it => fst it <> []) items -> prefix_free (map fst items) -> inv [] items.
Proof.
  intros H HP. split; [|exact HP]. eapply Forall_impl; [|exact H]. intros it Hit. apply free_at_nil, Hit.
Qed.

Lemma build_from_cons n p x t : build_from n ((p, x) :: t) = build_from (put_path p x n) t.
Proof. reflexivity. Qed.

Lemma insert_all_cons n p x t : insert_all ((p, x) :: t) n = insert_all t (add_new_val p x n).
Proof. reflexivity. Qed.

(* on prefix-free new paths the loop of addNewVal calls is the plain build *)
Lemma insert_all_build_from : forall items n, inv n items -> insert_all items n = build_from n items.
Proof.
  induction items as [|[p x] t IH]; intros n Hinv; [reflexivity|].
  rewrite insert_all_cons, build_from_cons.
  rewrite add_new_val_free by (eapply inv_head_free; exact Hinv).
  apply IH. eapply inv_step; exact Hinv.
Qed.

(* later insertions do not show at key lists they part ways with *)
Lemma build_from_apart : forall t n q,
  inv n t -> Forall (fun it => ~ comparable (fst it) q) t -> get_keys q (build_from n t) = get_keys q n.
Proof.
  induction t as [|[p x] t IH]; intros n q Hinv HF; [reflexivity|].
  inversion HF as [|? ? Hp Ht]; subst. cbn [fst] in Hp.
  rewrite build_from_cons. rewrite IH; [|eapply inv_step; exact Hinv|exact Ht].
  apply get_put_apart; [eapply inv_head_free; exact Hinv|exact Hp].
Qed.

(* two prefixes of one list are comparable *)
Lemma prefixes_comparable : forall a b l, prefix a l -> prefix b l -> comparable a b.
Proof.
  induction a as [|x a IH]; intros b l [r1 H1] [r2 H2].
  - left. exists b. reflexivity.
  - destruct b as [|y b]; [right; exists (x :: a); reflexivity|].
    subst l. cbn in H2. inversion H2; subst y.
    destruct (IH b (a ++ r1)) as [[r3 ->]|[r3 ->]];
      [exists r1; reflexivity|exists r2; assumption|left|right]; exists r3; reflexivity.
Qed.

Lemma not_comparable_ext q p r : ~ comparable q p -> ~ comparable q (p ++ r).
Proof.
  intros H [Hc|[r1 Hr1]]; apply H.
  - apply (prefixes_comparable q p (p ++ r)); [exact Hc|exists r; reflexivity].
  - right. exists (r ++ r1). rewrite app_assoc. exact Hr1.
Qed.

(* every item is found at its path, with everything below it *)
Lemma build_from_has : forall items n p x r,
  inv n items -> In (p, x) items -> get_keys (p ++ r) (build_from n items) = get_keys_v r x.
Proof.
  induction items as [|[p0 x0] t IH]; intros n p x r Hinv Hin; [destruct Hin|].
  rewrite build_from_cons. destruct Hin as [E|Hin].
  - inversion E; subst p0 x0. clear E.
    assert (Hfree : free_at p n) by (eapply inv_head_free; exact Hinv).
    rewrite build_from_apart.
    + apply get_put_ext. eapply free_at_nonempty; exact Hfree.
    + eapply inv_step; exact Hinv.
    + destruct Hinv as [_ HP]. cbn [map fst prefix_free] in HP. destruct HP as [HP1 _].
      rewrite Forall_forall in *. intros it Hit. apply not_comparable_ext.
      intros Hc. apply (HP1 (fst it)); [apply in_map; exact Hit|]. apply comparable_sym, Hc.
  - apply IH; [eapply inv_step; exact Hinv|exact Hin].
Qed.

(* nothing else: whatever is found in the built Map was in the Map before, or lies on the way to
   an item (then it is a map), or is (part of) an item's value *)
Lemma build_from_only : forall items n qs v,
  inv n items -> qs <> [] -> get_keys qs (build_from n items) = Some v ->
  get_keys qs n = Some v \/
  exists p x, In (p, x) items /\
    ((proper_prefix qs p /\ is_map v = true) \/ (exists r, qs = p ++ r /\ get_keys_v r x = Some v)).
Proof.
  induction items as [|[p0 x0] t IH]; intros n qs v Hinv Hq H; [left; exact H|].
  rewrite build_from_cons in H.
  destruct (IH _ qs v (inv_step _ _ _ _ Hinv) Hq H) as [H1|(p & x & Hin & Hcase)].
  - assert (Hfree : free_at p0 n) by (eapply inv_head_free; exact Hinv).
    destruct (keys_trichotomy p0 qs) as [[r Hr]|[Hpp|Hnc]].
    + right. exists p0, x0. split; [left; reflexivity|]. right. exists r. split; [exact Hr|].
      subst qs. rewrite get_put_ext in H1 by (eapply free_at_nonempty; exact Hfree). exact H1.
    + right. exists p0, x0. split; [left; reflexivity|]. left. split; [exact Hpp|].
      destruct Hpp as [r [Hr Hp]].
      destruct (get_put_above qs p0 x0 n r Hq Hr Hp) as [mm Hmm]. rewrite Hmm in H1.
      inversion H1; reflexivity.
    + left. rewrite get_put_apart in H1 by assumption. exact H1.
  - right. exists p, x. split; [right; exact Hin|exact Hcase].
Qed.

(* ================= the key pairs ================= *)
Lemma path_keys_nonempty x : x <> [] -> path_keys x <> [].
Proof.
  intros Hx. unfold path_keys. pose proof (split1_nonempty dot x) as Hne.
  destruct (last (split1 dot x) [dot]) as [|c l] eqn:L; [|exact Hne].
  intros Hr. apply Hx. apply (split1_single_empty dot).
  rewrite (@app_removelast_last str (split1 dot x) [dot] Hne), Hr, L. reflexivity.
Qed.

Section Content.
Variable pf : str -> option flt.
Variable sep : str.

Lemma items_nonempty mv pairs : Forall (fun it => fst it <> []) (items_of pf sep mv pairs).
Proof.
  apply Forall_forall. intros [p x] Hin. cbn [fst].
  apply items_of_in in Hin as (v & o & nw & vs & _ & C & _ & _ & -> & _).
  apply classify_good in C as (_ & Hn & _). apply path_keys_nonempty, Hn.
Qed.

Lemma pair_action_no_panic mv v : pair_action pf sep mv v <> Panic.
Proof.
  intros H. apply (new_map_pair_no_panic pf sep mv [] v). rewrite new_map_pair_spec, H. reflexivity.
Qed.

(* the loop succeeds exactly when every pair is skipped or accepted with a readable old path *)
Lemma new_map_pairs_status mv pairs : forall n,
  snd (new_map_pairs pf sep mv n pairs) = Ok tt <->
  Forall (fun v => exists a, pair_action pf sep mv v = Ok a) pairs.
Proof.
  induction pairs as [|v t IH]; intros n; cbn [new_map_pairs].
  - split; [constructor|reflexivity].
  - rewrite new_map_pair_spec.
    destruct (pair_action pf sep mv v) as [[[p x]|]|e|] eqn:A.
    + rewrite IH. split; [intros H; constructor; [eauto|exact H]|intros H; inversion H; assumption].
    + rewrite IH. split; [intros H; constructor; [eauto|exact H]|intros H; inversion H; assumption].
    + cbn [snd]. split; [discriminate|]. intros H. inversion H as [|? ? [a Ha] _]. congruence.
    + cbn [snd]. split; [discriminate|]. intros H. inversion H as [|? ? [a Ha] _]. congruence.
Qed.

(* ... and reports an error as soon as one pair is malformed or has an old path ValuesForPath rejects *)
Lemma new_map_pairs_error mv pairs : forall n,
  Exists (fun v => exists e, pair_action pf sep mv v = Err e) pairs ->
  exists e, snd (new_map_pairs pf sep mv n pairs) = Err e.
Proof.
  induction pairs as [|v t IH]; intros n H; [inversion H|]. cbn [new_map_pairs].
  rewrite new_map_pair_spec. pose proof (pair_action_no_panic mv v) as NP.
  inversion H as [? ? [e He]|? ? Ht]; subst.
  - rewrite He. eexists; reflexivity.
  - destruct (pair_action pf sep mv v) as [[[p x]|]|e|]; [apply IH, Ht|apply IH, Ht|eexists; reflexivity|congruence].
Qed.

Theorem new_map_status mv pairs :
  snd (new_map pf sep mv pairs) = Ok tt <->
  Forall (fun v => exists a, pair_action pf sep mv v = Ok a) pairs.
Proof. apply new_map_pairs_status. Qed.

Theorem new_map_ok_or_error mv pairs :
  snd (new_map pf sep mv pairs) = Ok tt \/ exists e, snd (new_map pf sep mv pairs) = Err e.
Proof.
  pose proof (new_map_no_panic pf sep mv pairs) as H.
  destruct (snd (new_map pf sep mv pairs)) as [[]|e|]; [left; reflexivity|right; eauto|congruence].
Qed.

(* (c) malformed pairs are rejected with an error *)
Theorem new_map_rejects mv pairs :
  Exists (fun v => classify v = PBad) pairs -> exists e, snd (new_map pf sep mv pairs) = Err e.
Proof. apply new_map_pairs_rejects. Qed.

(* an old path ValuesForPath itself rejects (e.g. "a[x]") is reported as well *)
Theorem new_map_bad_old_path mv pairs v o nw e :
  In v pairs -> classify v = PGood o nw -> values_for_path pf sep mv o [] = Err e ->
  exists e', snd (new_map pf sep mv pairs) = Err e'.
Proof.
  intros Hin C V. apply new_map_pairs_error. apply Exists_exists. exists v. split; [exact Hin|].
  exists e. unfold pair_action. rewrite C, V. reflexivity.
Qed.

(* (b) empty arguments and pairs whose old path yields nothing leave no trace at all *)
Lemma new_map_pairs_app mv p1 p2 : forall n,
  new_map_pairs pf sep mv n (p1 ++ p2) =
  match new_map_pairs pf sep mv n p1 with
  | (n1, Ok _) => new_map_pairs pf sep mv n1 p2
  | r => r
  end.
Proof.
  induction p1 as [|v t IH]; intros n; [reflexivity|]. cbn [app new_map_pairs].
  destruct (new_map_pair pf sep mv n v); [apply IH|reflexivity|reflexivity].
Qed.

Definition fruitless (mv : value) (v : str) : Prop :=
  v = [] \/ exists o nw, classify v = PGood o nw /\ values_for_path pf sep mv o [] = Ok [].

Lemma fruitless_pair mv n v : fruitless mv v -> new_map_pair pf sep mv n v = Ok n.
Proof.
  intros [->|(o & nw & C & V)]; [reflexivity|]. eapply pair_no_value_skipped; eassumption.
Qed.

Theorem new_map_skips mv p1 v p2 :
  fruitless mv v -> new_map pf sep mv (p1 ++ v :: p2) = new_map pf sep mv (p1 ++ p2).
Proof.
  intros Hf. unfold new_map. rewrite !new_map_pairs_app.
  destruct (new_map_pairs pf sep mv [] p1) as [n1 [[]|e|]]; try reflexivity.
  cbn [new_map_pairs]. rewrite (fruitless_pair mv n1 v Hf). reflexivity.
Qed.

(* on an error the Map built from the pairs before the offending one is returned with it *)
Theorem new_map_error_partial mv p1 v p2 e :
  snd (new_map pf sep mv p1) = Ok tt -> pair_action pf sep mv v = Err e ->
  new_map pf sep mv (p1 ++ v :: p2) = (fst (new_map pf sep mv p1), Err e).
Proof.
  unfold new_map. intros H Hv. rewrite new_map_pairs_app.
  destruct (new_map_pairs pf sep mv [] p1) as [n1 st]. cbn [fst snd] in *. subst st.
  cbn [new_map_pairs]. rewrite new_map_pair_spec, Hv. reflexivity.
Qed.

Lemma fruitless_no_item mv v : fruitless mv v -> pair_action pf sep mv v = Ok None.
Proof.
  intros [->|(o & nw & C & V)]; [reflexivity|]. unfold pair_action. rewrite C, V. reflexivity.
Qed.

(* (a) content *)
Theorem newmap_content mv pairs :
  snd (new_map pf sep mv pairs) = Ok tt ->
  prefix_free (map fst (items_of pf sep mv pairs)) ->
  fst (new_map pf sep mv pairs) = build (items_of pf sep mv pairs).
Proof.
  intros Hok HP. unfold new_map in *. rewrite new_map_pairs_ok by exact Hok.
  apply insert_all_build_from. apply inv_initial; [apply items_nonempty|exact HP].
Qed.

(* the items are taken from the accepted pairs in order, so their paths are among the new paths *)
Lemma items_cons_cases mv v t :
  (exists o nw vs, classify v = PGood o nw /\
     items_of pf sep mv (v :: t) = (path_keys nw, pack vs) :: items_of pf sep mv t /\
     new_paths (v :: t) = path_keys nw :: new_paths t) \/
  (items_of pf sep mv (v :: t) = items_of pf sep mv t /\
   (new_paths (v :: t) = new_paths t \/ exists p, new_paths (v :: t) = p :: new_paths t)).
Proof.
  cbn [items_of new_paths]. unfold pair_action.
  destruct (classify v) as [| |o nw] eqn:C.
  - right. split; [reflexivity|left; reflexivity].
  - right. split; [reflexivity|left; reflexivity].
  - destruct (values_for_path pf sep mv o []) as [[|y vs]| |]; cbn [bind].
    + right. split; [reflexivity|right; eexists; reflexivity].
    + left. exists o, nw, (y :: vs). repeat split.
    + right. split; [reflexivity|right; eexists; reflexivity].
    + right. split; [reflexivity|right; eexists; reflexivity].
Qed.

Lemma items_paths_Forall (P : list str -> Prop) mv pairs :
  Forall P (new_paths pairs) -> Forall P (map fst (items_of pf sep mv pairs)).
Proof.
  induction pairs as [|v t IH]; intros H; [constructor|].
  destruct (items_cons_cases mv v t) as [(o & nw & vs & _ & -> & E)|[-> [E|[p E]]]]; rewrite E in H.
  - inversion H; subst. cbn [map fst]. constructor; [assumption|apply IH; assumption].
  - apply IH, H.
  - inversion H; subst. apply IH; assumption.
Qed.

Lemma items_paths_prefix_free mv pairs :
  prefix_free (new_paths pairs) -> prefix_free (map fst (items_of pf sep mv pairs)).
Proof.
  induction pairs as [|v t IH]; intros H; [exact I|].
  destruct (items_cons_cases mv v t) as [(o & nw & vs & _ & -> & E)|[-> [E|[p E]]]]; rewrite E in H.
  - cbn [prefix_free] in H. destruct H as [H1 H2]. cbn [map fst prefix_free].
    split; [apply items_paths_Forall; exact H1|apply IH; exact H2].
  - apply IH, H.
  - cbn [prefix_free] in H. destruct H as [_ H2]. apply IH, H2.
Qed.

(* the statement of the property: no new path equals or extends another *)
Theorem newmap_content_pairs mv pairs :
  snd (new_map pf sep mv pairs) = Ok tt -> prefix_free (new_paths pairs) ->
  fst (new_map pf sep mv pairs) = build (items_of pf sep mv pairs).
Proof. intros Hok HP. apply newmap_content; [exact Hok|apply items_paths_prefix_free; exact HP]. Qed.

(* ... read off the built Map: each item is found at its new path, with all that is below it *)
Theorem newmap_has mv pairs p x r :
  snd (new_map pf sep mv pairs) = Ok tt ->
  prefix_free (map fst (items_of pf sep mv pairs)) ->
  In (p, x) (items_of pf sep mv pairs) ->
  get_keys (p ++ r) (fst (new_map pf sep mv pairs)) = get_keys_v r x.
Proof.
  intros Hok HP Hin. rewrite newmap_content by assumption.
  apply build_from_has; [apply inv_initial; [apply items_nonempty|exact HP]|exact Hin].
Qed.

(* ... and nothing else is in it: every key list that leads somewhere is on the way to an item
   (and leads to a map), or reaches into an item's value *)
Theorem newmap_only mv pairs qs v :
  snd (new_map pf sep mv pairs) = Ok tt ->
  prefix_free (map fst (items_of pf sep mv pairs)) ->
  qs <> [] -> get_keys qs (fst (new_map pf sep mv pairs)) = Some v ->
  exists p x, In (p, x) (items_of pf sep mv pairs) /\
    ((proper_prefix qs p /\ is_map v = true) \/ (exists r, qs = p ++ r /\ get_keys_v r x = Some v)).
Proof.
  intros Hok HP Hq H. rewrite newmap_content in H by assumption.
  destruct (build_from_only _ [] qs v (inv_initial _ (items_nonempty mv pairs) HP) Hq H) as [H0|H0]; [|exact H0].
  destruct qs; [congruence|discriminate].
Qed.
End Content.
