(* C04 / C15: whatever RawToken stream the sequence decoder is given (well formed or not), a Map it
   returns has the shape [seq_shape]; hence MapSeq.Xml / XmlIndent never panic on a decoded MapSeq. *)
From Coq Require Import Permutation Sorting.Sorted.
From Mxj Require Import Spec.SeqSpec Proofs.StrLemmas Proofs.C04Sort Proofs.C04Map Proofs.C04Enc Proofs.C04Shape.

Section ShapeDec.
Variable pf : str -> option flt.
Variable skip : str -> bool.
Variable e : bool.
Variable r : bool.
Notation o := (seq_o e).
Notation shape := (seq_shape e).

(* a start-tag name as the tokenizer returns it: not empty and none of the keys the decoder generates
   (XML names cannot begin with '#') *)
Definition str_ok (k : str) : bool := nonempty k && negb (existsb (str_eqb k) (reserved_keys o)).
Definition tok_ok (t : tok) : bool := match t with TStart nm _ => str_ok (xfull nm) | _ => true end.

Lemma str_ok_keys k :
  str_ok k = true ->
  nonempty k = true /\ is_special_key o k = false /\ skipk o k = false /\ str_eqb (attrK o) k = false.
Proof.
  unfold str_ok, reserved_keys. intros H. apply andb_true_iff in H. destruct H as [H1 H2].
  apply negb_true_iff in H2. cbn [existsb] in H2.
  repeat (apply orb_false_iff in H2; destruct H2 as [? H2]).
  split; [exact H1|]. unfold is_special_key, skipk.
  repeat match goal with H : str_eqb k _ = false |- _ => rewrite H end.
  repeat split; try reflexivity. rewrite str_eqb_sym. assumption.
Qed.

(* ---------------- map_ok is preserved by the decoder's writes ---------------- *)
Lemma entries_ok_set k v m :
  entries_ok e m = true -> skipk o k || shape v k = true -> entries_ok e (set k v m) = true.
Proof.
  unfold entries_ok. intros Hm Hv. induction m as [|[k' v'] t IH]; cbn [set forallb fst snd].
  - rewrite Hv. reflexivity.
  - cbn [forallb fst snd] in Hm. apply andb_true_iff in Hm. destruct Hm as [H1 H2].
    destruct (str_eqb k k') eqn:E; cbn [forallb fst snd].
    + apply str_eqb_eq in E. subst k'. rewrite Hv, H2. reflexivity.
    + rewrite H1, (IH H2). reflexivity.
Qed.

Lemma map_ok_set k v m :
  str_eqb (attrK o) k = false -> map_ok e m = true -> skipk o k || shape v k = true ->
  map_ok e (set k v m) = true.
Proof.
  unfold map_ok. intros Hk Hm Hv. apply andb_true_iff in Hm. destruct Hm as [Ha He].
  apply andb_true_iff. split; [|apply entries_ok_set; assumption].
  unfold attr_map_ok in *. rewrite (lookup_set_other _ _ _ _ Hk). exact Ha.
Qed.

Lemma entries_ok_lookup k v0 m :
  entries_ok e m = true -> lookup k m = Some v0 -> skipk o k = false -> shape v0 k = true.
Proof.
  unfold entries_ok. intros Hm Hl Hs. induction m as [|[k' v'] t IH]; [discriminate Hl|].
  cbn [forallb fst snd] in Hm. apply andb_true_iff in Hm. destruct Hm as [H1 H2].
  cbn [lookup] in Hl. destruct (str_eqb k k') eqn:E.
  - injection Hl as ->. apply str_eqb_eq in E. subst k'. rewrite Hs in H1. exact H1.
  - apply IH; assumption.
Qed.

Lemma map_ok_add_child k v m :
  str_ok k = true -> shape v k = true -> map_ok e m = true -> map_ok e (add_child k v m) = true.
Proof.
  intros Hk Hv Hm. destruct (str_ok_keys k Hk) as (_ & _ & Hsk & Hak).
  assert (He : entries_ok e m = true) by (unfold map_ok in Hm; apply andb_true_iff in Hm; apply Hm).
  unfold add_child. destruct (lookup k m) as [v0|] eqn:El.
  - assert (H0 := entries_ok_lookup k v0 m He El Hsk).
    destruct v0 as [x|b| |z|z|z|f|x|m'|l'];
      try (apply map_ok_set; [exact Hak|exact Hm|]; rewrite Hsk; cbn [orb];
           rewrite seq_shape_list; cbn [forallb]; rewrite H0, Hv; reflexivity).
    apply map_ok_set; [exact Hak|exact Hm|]. rewrite Hsk. cbn [orb].
    rewrite seq_shape_list in *. rewrite forallb_app, H0. cbn [forallb]. rewrite Hv. reflexivity.
  - apply map_ok_set; [exact Hak|exact Hm|]. rewrite Hsk, Hv. reflexivity.
Qed.

Lemma attr_fold_maps a : forall st,
  forallb (fun kv : str * value => is_map (snd kv)) (snd st) = true ->
  forallb (fun kv : str * value => is_map (snd kv)) (snd (fold_left (seq_attr_step pf skip o r) a st)) = true.
Proof.
  induction a as [|at_ t IH]; intros [i aa] H; [exact H|].
  cbn [fold_left]. apply IH. unfold seq_attr_step. cbn [snd] in *.
  generalize (full_name (xspace (aname at_)) (snake o (xlocal (aname at_)))). intros key.
  generalize (cast pf skip o (if xmlEscapeCharsDecoder o then escape_chars (avalue at_) else avalue at_) r []). intros v.
  induction aa as [|[k' v'] t' IHa]; cbn [set forallb snd]; [reflexivity|].
  cbn [forallb snd] in H. apply andb_true_iff in H. destruct H as [H1 H2].
  destruct (str_eqb key k'); cbn [forallb snd]; [exact H2|]. rewrite H1. apply IHa. exact H2.
Qed.

Lemma map_ok_init a : map_ok e (seq_init_na pf skip o r a) = true.
Proof.
  unfold seq_init_na. destruct a as [|at_ t]; [reflexivity|].
  unfold map_ok, attr_map_ok, entries_ok.
  change (set (attrK o) (VMap (seq_attr_entries pf skip o r (at_ :: t))) [])
    with [(attrK o, VMap (seq_attr_entries pf skip o r (at_ :: t)))].
  cbn [lookup]. rewrite str_eqb_refl. cbn [forallb fst snd].
  unfold seq_attr_entries. rewrite (attr_fold_maps (at_ :: t) (0%Z, []) eq_refl). reflexivity.
Qed.

Lemma shape_inject k v sq :
  str_ok k = true -> shape v k = true -> shape (fst (seq_inject o v sq)) k = true.
Proof.
  intros Hk Hv. destruct (str_ok_keys k Hk) as (_ & Hsp & _ & _).
  destruct v as [x|b| |z|z|z|f|x|m|l]; cbn [seq_inject fst]; try reflexivity;
    try (unfold text_seq_map; rewrite (seq_shape_map e k _ Hsp); reflexivity).
  rewrite (seq_shape_map e k m Hsp) in Hv. rewrite (seq_shape_map e k _ Hsp).
  apply map_ok_set; [reflexivity|exact Hv|reflexivity].
Qed.

(* ---------------- the token loop ---------------- *)
Lemma sloop_shape fuel : forall skey na seq ts tm kv rest,
  forallb tok_ok ts = true ->
  (skey = [] \/ str_ok skey = true) ->
  map_ok e na = true ->
  sloop pf skip o r fuel skey na seq ts tm = Ok (kv, rest) ->
  str_ok (fst kv) = true /\ shape (snd kv) (fst kv) = true /\ forallb tok_ok rest = true.
Proof.
  induction fuel as [|f IH]; intros skey na seq ts tm kv rest Hts Hsk Hna H; [discriminate H|].
  destruct ts as [|t ts']; [cbn [sloop] in H; destruct tm; discriminate H|].
  cbn [forallb] in Hts. apply andb_true_iff in Hts. destruct Hts as [Ht Hts'].
  destruct t as [nm a|nm|x|x|tg i|x].
  - (* start tag *)
    cbn [tok_ok] in Ht. destruct (str_ok_keys _ Ht) as (Hne & _ & _ & _).
    cbn [sloop] in H. unfold snake in H. cbn [snakeCaseKeys handleXMPPStreamTag seq_o opts0 andb] in H.
    rewrite Hne in H.
    destruct skey as [|c k].
    + apply (IH _ _ _ _ _ _ _ Hts' (or_intror Ht) (map_ok_init a) H).
    + destruct (sloop pf skip o r f (xfull nm) (seq_init_na pf skip o r a) 0%Z ts' tm) as [[[key val] rest1]| |] eqn:Ec;
        try discriminate H.
      destruct (IH _ _ _ _ _ _ _ Hts' (or_intror Ht) (map_ok_init a) Ec) as (K1 & K2 & K3).
      cbn [fst snd] in K1, K2.
      destruct (seq_inject o val seq) as [val' seq'] eqn:Ei.
      assert (Hv' : shape val' key = true).
      { replace val' with (fst (seq_inject o val seq)) by (rewrite Ei; reflexivity).
        apply shape_inject; assumption. }
      apply (IH _ _ _ _ _ _ _ K3 Hsk (map_ok_add_child key val' na K1 Hv' Hna) H).
  - (* end tag *)
    cbn [sloop] in H. destruct skey as [|c k]; [discriminate H|].
    destruct (negb (str_eqb (c :: k) (full_name (xspace nm) (snake o (xlocal nm))))); [discriminate H|].
    injection H as <- <-. cbn [fst snd].
    destruct Hsk as [Hsk|Hsk]; [discriminate Hsk|].
    split; [exact Hsk|]. split; [|exact Hts'].
    destruct na as [|p l]; [reflexivity|].
    destruct (str_ok_keys _ Hsk) as (_ & Hsp & _ & _).
    rewrite (seq_shape_map e _ _ Hsp). exact Hna.
  - (* character data *)
    cbn [sloop] in H. destruct skey as [|c k].
    + apply (IH _ _ _ _ _ _ _ Hts' Hsk Hna H).
    + match type of H with (if ?b then _ else _) = _ => destruct b end.
      * refine (IH _ _ _ _ _ _ _ Hts' Hsk _ H).
        apply map_ok_set; [reflexivity| |reflexivity].
        apply map_ok_set; [reflexivity|exact Hna|reflexivity].
      * apply (IH _ _ _ _ _ _ _ Hts' Hsk Hna H).
  - (* comment *)
    cbn [sloop] in H. destruct skey as [|c k]; [discriminate H|].
    refine (IH _ _ _ _ _ _ _ Hts' Hsk _ H).
    apply map_ok_set; [reflexivity|exact Hna|reflexivity].
  - (* processing instruction *)
    cbn [sloop] in H. destruct skey as [|c k]; [discriminate H|].
    refine (IH _ _ _ _ _ _ _ Hts' Hsk _ H).
    apply map_ok_set; [reflexivity|exact Hna|reflexivity].
  - (* directive *)
    cbn [sloop] in H. destruct skey as [|c k]; [discriminate H|].
    refine (IH _ _ _ _ _ _ _ Hts' Hsk _ H).
    apply map_ok_set; [reflexivity|exact Hna|reflexivity].
Qed.

(* NewMapXmlSeq: every Map it returns is a singleton {key: value} of the shape *)
Theorem seq_decode_shape ts tm m :
  forallb tok_ok ts = true ->
  seq_decode pf skip o r ts tm = Ok m ->
  exists k v, m = VMap [(k, v)] /\ str_ok k = true /\ shape v k = true.
Proof.
  intros Hts H. unfold seq_decode, seq_decode_rest in H.
  destruct (sloop pf skip o r (S (length ts)) [] [] 0%Z ts tm) as [[[k v] rest]| |] eqn:E; try discriminate H.
  injection H as <-.
  destruct (sloop_shape (S (length ts)) [] [] 0%Z ts tm (k, v) rest Hts (or_introl eq_refl) eq_refl E) as (K1 & K2 & _).
  exists k, v. split; [reflexivity|]. split; assumption.
Qed.

(* ... and neither MapSeq.Xml nor MapSeq.XmlIndent panics on it *)
Theorem seq_decoded_encodable ts tm m :
  forallb tok_ok ts = true ->
  seq_decode pf skip o r ts tm = Ok m ->
  seq_encode o m <> Panic /\ seq_encode_indent o m <> Panic.
Proof.
  intros Hts H. destruct (seq_decode_shape ts tm m Hts H) as (k & v & -> & Hk & Hv).
  destruct (str_ok_keys k Hk) as (_ & Hsp & _ & _).
  assert (N : senc o v k <> Panic) by (apply senc_nopanic; exact Hv).
  assert (D : senc o (VMap [(k, v)]) default_root <> Panic).
  { apply senc_nopanic. rewrite seq_shape_map; [|reflexivity].
    unfold map_ok, attr_map_ok, entries_ok. cbn [lookup forallb fst snd].
    destruct (str_ok_keys k Hk) as (_ & _ & Hs & Ha). rewrite Ha, Hs, Hv. reflexivity. }
  unfold seq_encode, seq_encode_indent, seq_xml_items, seq_xml_indent_items.
  split.
  - destruct v; try exact N. destruct (all_maps l); [exact N|exact D].
  - destruct v; try exact N. exact D.
Qed.
End ShapeDec.
