(* C19: the hypothesis `Reads` discharged for the transcribed JSON reader on the text
   encoding/json writes for ANY Map of JSON types, and the file theorems instantiated with it. *)
From Mxj Require Import Spec.JsonFilesSpec Proofs.C13P Proofs.JsonP Proofs.C13Json Proofs.C19P Proofs.C19Reads.
Import ListNotations.
Local Arguments marshal : simpl never.

(* the compact text of a Map (Json(): marshalJSON, either escapeHTML setting) *)
Notation jtext eh m := (marshal eh (VMap m)).

Lemma jtext_cons : forall eh m, exists t, jtext eh m = lbrace :: t.
Proof. intros eh m. unfold marshal. rewrite segments_vmap. eexists. reflexivity. Qed.

Lemma skipn_two {A} (w d rest : list A) : skipn (length w + length d) (w ++ d ++ rest) = rest.
Proof. rewrite app_assoc, <- app_length. apply skipn_app_exact. Qed.

(* ------------------------------------------------------------------ the scanner on a marshalled object *)

(* blanks, the text of any object of JSON types, anything: the byte-string scanner returns exactly the
   object's text and leaves exactly what follows it *)
Theorem scan_json_marshal : forall eh m w rest, scan_safe (VMap m) = true -> blank w = true ->
  scan_json (w ++ jtext eh m ++ rest) = SDoc (jtext eh m) rest.
Proof.
  intros eh m w rest Hs Hw.
  destruct (scan_json_direct (w ++ jtext eh m ++ rest)) as [E1 E2].
  rewrite (scan_marshal eh m w rest Hs Hw) in E1, E2. cbn [fst snd] in E1, E2. rewrite skipn_two in E2.
  destruct (scan_json (w ++ jtext eh m ++ rest)) as [b r|b|b|b r]; try discriminate E1.
  cbn [jres unread] in E1, E2. injection E1 as <-. now subst r.
Qed.

(* blanks alone: io.EOF and nothing collected *)
Lemma scan_json_blanks : forall w, blank w = true -> scan_json w = SEof [].
Proof.
  intros w Hw. destruct (scan_json_direct w) as [E1 _].
  pose proof (direct_steps jmachine w [] jinit jinit (steps_blanks w Hw)) as Hd. rewrite app_nil_r in Hd.
  rewrite Hd in E1. cbn in E1. destruct (scan_json w) as [b r|b|b|b r]; try discriminate E1. now injection E1 as <-.
Qed.

(* ------------------------------------------------------------------ goal 2: Reads *)

Section Reads.
Variable json_dec : bytes -> res value.
Notation rd := (json_reader_raw json_dec).

Theorem reader_reads_json_text : forall eh m w v, scan_safe (VMap m) = true -> blank w = true ->
  Files.new_map_json json_dec (jtext eh m) = Ok v ->
  Reads rd (w ++ jtext eh m) (v, jtext eh m).
Proof.
  intros eh m w v Hs Hw Hd rest. unfold json_reader_raw. rewrite <- app_assoc, (scan_json_marshal eh m w rest Hs Hw), Hd.
  reflexivity.
Qed.

Lemma new_map_json_obj : forall eh m d, json_dec (jtext eh m) = Ok (VMap d) ->
  Files.new_map_json json_dec (jtext eh m) = Ok (VMap d).
Proof.
  intros eh m d H. unfold Files.new_map_json. destruct (jtext_cons eh m) as [t E]. rewrite E in *. now rewrite H.
Qed.

Theorem reader_reads_json_doc : forall eh m d, scan_safe (VMap m) = true ->
  json_dec (jtext eh m) = Ok (VMap d) ->
  Reads rd (jtext eh m) (VMap d, jtext eh m).
Proof.
  intros eh m d Hs Hd. apply (reader_reads_json_text eh m [] (VMap d) Hs eq_refl). now apply new_map_json_obj.
Qed.

(* the same with blanks in front of the document (a newline between documents, say) *)
Theorem reader_reads_json_doc_blanks : forall eh m d w, scan_safe (VMap m) = true -> blank w = true ->
  json_dec (jtext eh m) = Ok (VMap d) ->
  Reads rd (w ++ jtext eh m) (VMap d, jtext eh m).
Proof.
  intros eh m d w Hs Hw Hd. apply (reader_reads_json_text eh m w (VMap d) Hs Hw). now apply new_map_json_obj.
Qed.

(* ------------------------------------------------------------------ goal 3: files *)

(* a document of the file: the blanks in front of it, the Map written, the Map its text decodes to *)
Definition jdoc := (str * entries * entries)%type.
Definition jd_w (x : jdoc) : str := fst (fst x).
Definition jd_m (x : jdoc) : entries := snd (fst x).
Definition jd_d (x : jdoc) : entries := snd x.
Definition jdoc_ok (eh : bool) (x : jdoc) : Prop :=
  blank (jd_w x) = true /\ scan_safe (VMap (jd_m x)) = true /\ json_dec (jtext eh (jd_m x)) = Ok (VMap (jd_d x)).
Definition jdoc_bytes (eh : bool) (x : jdoc) : bytes := jd_w x ++ jtext eh (jd_m x).
Definition jdoc_raw (eh : bool) (x : jdoc) : mapraw := (VMap (jd_d x), jtext eh (jd_m x)).

Lemma jdocs_reads : forall eh ds, Forall (jdoc_ok eh) ds ->
  Forall2 (Reads rd) (map (jdoc_bytes eh) ds) (map (jdoc_raw eh) ds).
Proof.
  intros eh ds H. induction H as [|x ds (Hw & Hs & Hd) H IH]; cbn [map]; constructor; [|exact IH].
  now apply reader_reads_json_doc_blanks.
Qed.

Lemma kept_jdocs : forall eh ds, kept keep_raw (map (jdoc_raw eh) ds) = map (jdoc_raw eh) ds.
Proof.
  intros eh ds. induction ds as [|x ds IH]; [reflexivity|]. unfold kept in *. cbn [map filter]. rewrite IH. reflexivity.
Qed.

(* a file of JSON documents - each the compact text of any Map of JSON types, blanks allowed before each
   and after the last - reads back as the documents' decodings, in order, without an error *)
Theorem json_stream_file_roundtrip : forall eh ds tail, Forall (jdoc_ok eh) ds -> blank tail = true ->
  read_all rd keep_raw (concat (map (jdoc_bytes eh) ds) ++ tail) = FR false (map (jdoc_raw eh) ds) false.
Proof.
  intros eh ds tail H Ht.
  assert (Et : rd tail = mkTaken (VNil, []) REOF []) by (unfold json_reader_raw; now rewrite (scan_json_blanks tail Ht)).
  rewrite (eof_tail_done _ rd keep_raw _ _ tail (json_at_eof json_dec) (jdocs_reads eh ds H)) by (now rewrite Et).
  rewrite Et. cbn [t_doc]. rewrite kept_jdocs. apply f_equal3; [reflexivity|apply app_nil_r|reflexivity].
Qed.

(* ... in particular a file that is the concatenation of the texts Json() writes for ANY list of Maps of
   JSON types (what JsonFile / JsonString write): Raw and plain reader *)
Definition json_ok (eh : bool) (dec : entries -> entries) (m : entries) : Prop :=
  scan_safe (VMap m) = true /\ json_dec (jtext eh m) = Ok (VMap (dec m)).

Lemma json_texts_reads : forall eh dec ms, Forall (json_ok eh dec) ms ->
  Forall2 (Reads rd) (map (fun m => jtext eh m) ms) (map (fun m => (VMap (dec m), jtext eh m)) ms).
Proof.
  intros eh dec ms H. induction H as [|m ms (Hs & Hd) H IH]; cbn [map]; constructor; [|exact IH].
  now apply reader_reads_json_doc.
Qed.

Lemma all_kept : forall eh (dec : entries -> entries) ms,
  Forall (fun d : mapraw => keep_raw d = true) (map (fun m => (VMap (dec m), jtext eh m)) ms).
Proof. intros eh dec ms. induction ms; cbn [map]; constructor; [reflexivity|assumption]. Qed.

Lemma plain_of_raw : forall file (l : list mapraw),
  read_all rd keep_raw file = FR false l false ->
  read_all (rd_map rd) map_not_nil file = FR false (map fst l) false.
Proof.
  intros file l H. change (read_all (rd_map rd) map_not_nil file) with (new_maps_from_file rd (file_fuel file) (Opened file)).
  rewrite raw_nonraw_agree. change (new_maps_from_file_raw rd (file_fuel file) (Opened file)) with (read_all rd keep_raw file).
  rewrite H. reflexivity.
Qed.

Theorem json_file_roundtrip : forall eh dec ms, Forall (json_ok eh dec) ms ->
  read_all rd keep_raw (concat (map (fun m => jtext eh m) ms)) = FR false (map (fun m => (VMap (dec m), jtext eh m)) ms) false /\
  read_all (rd_map rd) map_not_nil (concat (map (fun m => jtext eh m) ms)) = FR false (map (fun m => VMap (dec m)) ms) false.
Proof.
  intros eh dec ms H.
  assert (R : read_all rd keep_raw (concat (map (fun m => jtext eh m) ms)) = FR false (map (fun m => (VMap (dec m), jtext eh m)) ms) false).
  { apply file_roundtrip_all_kept; [apply json_at_eof|now apply json_texts_reads|apply all_kept]. }
  split; [exact R|]. rewrite (plain_of_raw _ _ R), map_map. reflexivity.
Qed.

Lemma sep_docs_nil : forall l : list bytes, sep_docs [] l = l.
Proof.
  intros [|e t]; [reflexivity|]. cbn [sep_docs]. f_equal. induction t as [|x t IH]; [reflexivity|]. cbn [map app]. f_equal. exact IH.
Qed.

(* JsonFile, then NewMapsFromJsonFileRaw / NewMapsFromJsonFile on the file it wrote *)
Theorem json_write_read_roundtrip : forall eh dec ms, Forall (json_ok eh dec) ms ->
  exists file,
    maps_file (fun m => Some (jtext eh m)) false ms true = (Some file, false) /\
    read_all rd keep_raw file = FR false (map (fun m => (VMap (dec m), jtext eh m)) ms) false /\
    read_all (rd_map rd) map_not_nil file = FR false (map (fun m => VMap (dec m)) ms) false.
Proof.
  intros eh dec ms H. exists (concat (map (fun m => jtext eh m) ms)). split; [|now apply json_file_roundtrip].
  pose proof (maps_file_total entries (fun m => jtext eh m) false ms) as E. cbn beta in E. rewrite sep_docs_nil in E. exact E.
Qed.
End Reads.
