(* C01 part 3, tied to document trees: the token list of a document in dom01 satisfies the
   hypotheses of the error-side theorems, is complete, and every proper prefix of
   (prolog ++ root element) is incomplete - so decoding a truncated document is an error. *)
From Mxj Require Import Proofs.StrLemmas Spec.ConvClauses Proofs.C01P Proofs.C01E.

Definition neutral (t : tok) : bool :=
  match t with TStart _ _ | TEnd _ => false | _ => true end.

Lemma other_ok_neutral t : other_ok t = true -> neutral t = true.
Proof. destruct t; cbn; intros H; try discriminate; reflexivity. Qed.

Section Trunc.
Variable o : opts.
Hypothesis Hxmpp : handleXMPPStreamTag o = false.

Lemma is_stream_off n : is_stream o n = false.
Proof. unfold is_stream. rewrite Hxmpp. reflexivity. Qed.

Lemma closes_neutral t d ts : neutral t = true -> closes o d (t :: ts) = closes o d ts.
Proof. destruct t; cbn [neutral closes]; intros H; try discriminate; reflexivity. Qed.

(* balanced: the tokens of an element / of a list of nodes do not change the depth;
   prefix: before they end, the depth never drops below where it started *)
Definition bal_P (e : elem) : Prop :=
  dom_elem o e = true ->
  (forall d rest, closes o d (toks_of_elem e ++ rest) = closes o d rest) /\
  (forall p q, toks_of_elem e = p ++ q -> q <> [] -> forall d, closes o d p = false) /\
  forallb start_ok (toks_of_elem e) = true.

Lemma bal_kids kids :
  Forall (Pnode bal_P) kids -> dom_kids o kids = true ->
  (forall d rest, closes o d (flat_map toks_of_node kids ++ rest) = closes o d rest) /\
  (forall p q, flat_map toks_of_node kids = p ++ q -> forall d, closes o d p = false) /\
  forallb start_ok (flat_map toks_of_node kids) = true.
Proof.
  induction kids as [|nd t IH]; intros HF Hd.
  - split; [reflexivity|]. split; [|reflexivity].
    intros p q H d. symmetry in H. apply app_eq_nil in H as [-> _]. reflexivity.
  - inversion HF as [|? ? Hnd HF']; subst.
    assert (Hnode : (forall d rest, closes o d (toks_of_node nd ++ rest) = closes o d rest) /\
                    (forall p q, toks_of_node nd = p ++ q -> forall d, closes o d p = false) /\
                    forallb start_ok (toks_of_node nd) = true /\ dom_kids o t = true).
    { destruct nd as [c|x|tk]; cbn [dom_kids] in Hd.
      - apply andb_true_iff in Hd as [Hd Hdt]. apply andb_true_iff in Hd as [_ Hdc].
        cbn [Pnode] in Hnd. destruct (Hnd Hdc) as (B1 & B2 & B3). rewrite toks_of_node_elem.
        split; [exact B1|]. split; [|split; assumption].
        intros p q H d. destruct q as [|q0 q'].
        + rewrite app_nil_r in H. subst p. rewrite <- (app_nil_r (toks_of_elem c)), B1. reflexivity.
        + apply (B2 p (q0 :: q') H). discriminate.
      - cbn [toks_of_node]. split; [intros d rest; reflexivity|]. split; [|split; [reflexivity|exact Hd]].
        intros p q H d. destruct p as [|p0 p']; [reflexivity|].
        inversion H as [[H0 H1]]. symmetry in H1. apply app_eq_nil in H1 as [-> _]. reflexivity.
      - apply andb_true_iff in Hd as [Hk Hdt]. cbn [toks_of_node].
        pose proof (other_ok_neutral tk Hk) as Hn.
        split; [intros d rest; cbn [app]; apply closes_neutral, Hn|]. split.
        + intros p q H d. destruct p as [|p0 p']; [reflexivity|].
          inversion H as [[H0 H1]]. symmetry in H1. apply app_eq_nil in H1 as [-> _]. subst p0.
          rewrite closes_neutral by exact Hn. reflexivity.
        + split; [|exact Hdt]. destruct tk; cbn in Hk; try discriminate; reflexivity. }
    destruct Hnode as (N1 & N2 & N3 & Hdt).
    destruct (IH HF' Hdt) as (K1 & K2 & K3).
    cbn [flat_map]. split; [|split].
    + intros d rest. rewrite <- app_assoc, N1. apply K1.
    + intros p q H d. apply app_eq_app in H as [l [[H1 H2]|[H1 H2]]].
      * apply (N2 p l H1).
      * subst p. rewrite N1. apply (K2 l q H2).
    + rewrite forallb_app, N3, K3. reflexivity.
Qed.

Lemma bal_elem : forall e, bal_P e.
Proof.
  induction e as [nm attrs kids HF] using elem_ind2. unfold bal_P. intros Hd.
  pose proof Hd as Hd0. rewrite dom_elem_unfold in Hd. apply andb_true_iff in Hd as [Hd Hdk].
  apply andb_true_iff in Hd as [Hd _]. apply andb_true_iff in Hd as [Hd _]. apply andb_true_iff in Hd as [Hnm _].
  destruct (bal_kids kids HF Hdk) as (K1 & K2 & K3).
  rewrite toks_of_elem_unfold. split; [|split].
  - intros d rest. cbn [app closes]. rewrite is_stream_off, <- app_assoc, K1. reflexivity.
  - intros p q H Hq d. destruct p as [|p0 p']; [reflexivity|].
    inversion H as [[H0 H1]]. cbn [closes]. rewrite is_stream_off.
    apply app_eq_app in H1 as [l [[H2 H3]|[H2 H3]]].
    + apply (K2 p' l H2).
    + symmetry in H3. apply app_eq_unit in H3 as [[-> H3]|[_ H3]]; [|contradiction].
      rewrite app_nil_r in H2. subst p'. apply (K2 (flat_map toks_of_node kids) []). rewrite app_nil_r. reflexivity.
  - cbn [forallb start_ok]. rewrite Hnm, forallb_app, K3. reflexivity.
Qed.

(* ---- the prolog ---- *)
Lemma prolog_neutral pro :
  forallb dom_prolog_node pro = true -> forallb neutral (flat_map toks_of_node pro) = true.
Proof.
  induction pro as [|nd t IH]; intros H; [reflexivity|].
  cbn [forallb] in H. apply andb_true_iff in H as [Hn Ht]. cbn [flat_map]. rewrite forallb_app, IH by exact Ht.
  destruct nd as [c|x|tk]; cbn [dom_prolog_node] in Hn; [discriminate|reflexivity|].
  cbn [toks_of_node forallb]. rewrite (other_ok_neutral tk Hn). reflexivity.
Qed.

Lemma neutral_start_ok l : forallb neutral l = true -> forallb start_ok l = true.
Proof.
  induction l as [|t l IH]; cbn [forallb]; intros H; [reflexivity|].
  apply andb_true_iff in H as [H1 H2]. rewrite IH by exact H2. destruct t; cbn in *; try discriminate; reflexivity.
Qed.

Lemma neutral_top_ok l rest : forallb neutral l = true -> top_ok (l ++ rest) = top_ok rest.
Proof.
  induction l as [|t l IH]; cbn [forallb app]; intros H; [reflexivity|].
  apply andb_true_iff in H as [H1 H2]. destruct t; cbn in H1; try discriminate; cbn [top_ok]; apply IH, H2.
Qed.

Lemma neutral_doc_complete l rest : forallb neutral l = true -> doc_complete o (l ++ rest) = doc_complete o rest.
Proof.
  induction l as [|t l IH]; cbn [forallb app]; intros H; [reflexivity|].
  apply andb_true_iff in H as [H1 H2]. destruct t; cbn in H1; try discriminate; cbn [doc_complete]; apply IH, H2.
Qed.

(* ---- documents ---- *)
Lemma all_bal ks : Forall (Pnode bal_P) ks.
Proof. apply Forall_forall. intros nd _. destruct nd; cbn; [apply bal_elem|exact I|exact I]. Qed.

Lemma body_prefix kids nm p q :
  dom_kids o kids = true ->
  flat_map toks_of_node kids ++ [TEnd nm] = p ++ q -> q <> [] -> forall d, closes o d p = false.
Proof.
  intros Hdk H Hq d. destruct (bal_kids kids (all_bal kids) Hdk) as (_ & K2 & _).
  apply app_eq_app in H as [l [[H2 H3]|[H2 H3]]].
  - apply (K2 p l H2).
  - symmetry in H3. apply app_eq_unit in H3 as [[-> H3]|[_ H3]]; [|contradiction].
    rewrite app_nil_r in H2. subst p. apply (K2 (flat_map toks_of_node kids) []). rewrite app_nil_r. reflexivity.
Qed.

Lemma doc_start_ok d :
  dom01 o d = true -> forallb start_ok (flat_map toks_of_node (d_prolog d) ++ toks_of_elem (d_root d)) = true.
Proof.
  unfold dom01. intros H.
  apply andb_true_iff in H as [H Hroot]. apply andb_true_iff in H as [_ Hpro].
  rewrite forallb_app, (neutral_start_ok _ (prolog_neutral _ Hpro)).
  destruct (bal_elem (d_root d) Hroot) as (_ & _ & B3). rewrite B3. reflexivity.
Qed.

(* the tokens up to the end of the root element are a complete document *)
Lemma doc_tokens_complete d rest :
  dom01 o d = true ->
  top_ok ((flat_map toks_of_node (d_prolog d) ++ toks_of_elem (d_root d)) ++ rest) = true /\
  doc_complete o ((flat_map toks_of_node (d_prolog d) ++ toks_of_elem (d_root d)) ++ rest) = true.
Proof.
  unfold dom01. intros H.
  apply andb_true_iff in H as [H Hroot]. apply andb_true_iff in H as [_ Hpro].
  pose proof (prolog_neutral _ Hpro) as Hn. rewrite <- app_assoc.
  rewrite neutral_top_ok, neutral_doc_complete by exact Hn.
  destruct (d_root d) as [nm attrs kids] eqn:Er. rewrite toks_of_elem_unfold.
  split; [reflexivity|]. cbn [app doc_complete]. rewrite is_stream_off.
  rewrite dom_elem_unfold in Hroot. apply andb_true_iff in Hroot as [_ Hdk].
  destruct (bal_kids kids (all_bal kids) Hdk) as (K1 & _).
  rewrite <- app_assoc, K1. reflexivity.
Qed.

Lemma truncated_incomplete d p q :
  dom01 o d = true ->
  flat_map toks_of_node (d_prolog d) ++ toks_of_elem (d_root d) = p ++ q -> q <> [] ->
  forallb start_ok p = true /\ top_ok p = true /\ doc_complete o p = false.
Proof.
  intros Hd H Hq. pose proof (doc_start_ok d Hd) as Hs. rewrite H, forallb_app in Hs.
  apply andb_true_iff in Hs as [Hs _]. split; [exact Hs|].
  unfold dom01 in Hd. apply andb_true_iff in Hd as [Hd Hroot]. apply andb_true_iff in Hd as [_ Hpro].
  pose proof (prolog_neutral _ Hpro) as Hn.
  apply app_eq_app in H as [l [[H1 H2]|[H1 H2]]].
  - (* p is a prefix of the prolog *)
    rewrite H1, forallb_app in Hn. apply andb_true_iff in Hn as [Hp _].
    rewrite <- (app_nil_r p), neutral_top_ok, neutral_doc_complete by exact Hp. split; reflexivity.
  - subst p. rewrite neutral_top_ok, neutral_doc_complete by exact Hn.
    destruct l as [|l0 l']; [split; reflexivity|].
    destruct (d_root d) as [nm attrs kids] eqn:Er.
    rewrite toks_of_elem_unfold in H2. inversion H2 as [[H0 H3]]. subst l0.
    split; [reflexivity|]. cbn [doc_complete]. rewrite is_stream_off.
    rewrite dom_elem_unfold in Hroot. apply andb_true_iff in Hroot as [_ Hdk].
    apply (body_prefix kids nm l' q Hdk H3 Hq).
Qed.

End Trunc.

Lemma dom01_xmpp o d : dom01 o d = true -> handleXMPPStreamTag o = false.
Proof. unfold dom01. destruct (handleXMPPStreamTag o); [discriminate|reflexivity]. Qed.

Theorem doc_tokens_ok o d :
  dom01 o d = true ->
  forallb start_ok (flat_map toks_of_node (d_prolog d) ++ toks_of_elem (d_root d)) = true /\
  forall rest,
    top_ok ((flat_map toks_of_node (d_prolog d) ++ toks_of_elem (d_root d)) ++ rest) = true /\
    doc_complete o ((flat_map toks_of_node (d_prolog d) ++ toks_of_elem (d_root d)) ++ rest) = true.
Proof.
  intros H. pose proof (dom01_xmpp o d H) as Hx.
  split; [apply (doc_start_ok o Hx d H)|]. intros rest. apply (doc_tokens_complete o Hx d rest H).
Qed.

(* decoding a truncated document (cut anywhere before the end of the root element, ended by
   io.EOF or by a syntax error): that error, for every option record in dom01 *)
Theorem truncated_doc_fails pf skip o r tm d p q :
  dom01 o d = true ->
  flat_map toks_of_node (d_prolog d) ++ toks_of_elem (d_root d) = p ++ q -> q <> [] ->
  xml_decode pf skip o r p tm = Err (err_of tm).
Proof.
  intros Hd H Hq.
  assert (Hx : handleXMPPStreamTag o = false).
  { unfold dom01 in Hd. apply andb_true_iff in Hd as [Hd _]. apply andb_true_iff in Hd as [Hd _].
    apply andb_true_iff in Hd as [Hd _]. apply negb_true_iff in Hd. exact Hd. }
  destruct (truncated_incomplete o Hx d p q Hd H Hq) as (H1 & H2 & H3).
  apply decode_fails_iff; assumption.
Qed.
