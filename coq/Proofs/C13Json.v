(* C13: the JSON object scanner getJson (Model/Reader.v jstep) on the text of an object. *)
From Mxj Require Import Spec.StreamSpec Proofs.C13P Proofs.JsonP.
Import ListNotations.
Local Open Scope Z_scope.

Definition lbrace : ascii := ascii_of_N 123.
Definition rbrace : ascii := ascii_of_N 125.

(* scanner states outside / inside a string literal, at depth d, with j collected so far *)
Definition outst (d : Z) (j : str) (st : jstate) : Prop :=
  inQuote st = false /\ inJson st = true /\ parenCnt st = d /\ jb st = j /\ escaped st = false.
Definition inst (d : Z) (j : str) (e : bool) (st : jstate) : Prop :=
  inQuote st = true /\ inJson st = true /\ parenCnt st = d /\ jb st = j /\ escaped st = e.

Ltac jst st := destruct st as [q ij cnt esc j0]; cbn in *.

(* inside a literal: any byte that is not an unescaped quote is collected; the escape state follows JSON's rule *)
Lemma jstep_in : forall st d j e c, inst d j e st -> 1 <= d -> is_dq c && negb e = false ->
  exists st', jstep st c = inl st' /\ inst d (j ++ [c]) (negb e && is_bsl c) st'.
Proof.
  intros st d j e c (Hq & Hj & Hc & Hb & He) Hd Hor. jst st. subst q ij cnt j0 esc.
  assert (Hz : (d =? 0) = false) by (apply Z.eqb_neq; lia).
  assert (Hn : (d <? 0) = false) by (apply Z.ltb_ge; lia).
  unfold jstep. cbn. unfold is_dq, is_bsl, byte, cbyte in *.
  destruct (N_of_ascii c =? 123)%N; [cbn; rewrite Hz; eexists; split; [reflexivity|repeat split]|].
  destruct (N_of_ascii c =? 125)%N; [cbn; rewrite Hn, Hz; eexists; split; [reflexivity|repeat split]|].
  destruct (N_of_ascii c =? 34)%N.
  - cbn in Hor. destruct e; [|discriminate]. cbn. rewrite Hz. eexists; split; [reflexivity|repeat split].
  - destruct ((N_of_ascii c =? 10)%N || (N_of_ascii c =? 13)%N || (N_of_ascii c =? 9)%N || (N_of_ascii c =? 32)%N);
      cbn; rewrite Hz; eexists; (split; [reflexivity|repeat split]).
Qed.

Lemma dq_byte : forall c, is_dq c = true -> N_of_ascii c = 34%N.
Proof. intros c H. now apply N.eqb_eq in H. Qed.

Lemma jstep_close : forall st d j c, inst d j false st -> 1 <= d -> is_dq c = true ->
  exists st', jstep st c = inl st' /\ outst d (j ++ [c]) st'.
Proof.
  intros st d j c (Hq & Hj & Hc & Hb & He) Hd Hdq. jst st. subst q ij cnt j0 esc.
  assert (Hz : (d =? 0) = false) by (apply Z.eqb_neq; lia).
  unfold jstep. cbn. unfold cbyte in *. rewrite (dq_byte c Hdq). cbn. rewrite Hz.
  eexists; split; [reflexivity|repeat split].
Qed.

Lemma jstep_open : forall st d j c, outst d j st -> 1 <= d -> is_dq c = true ->
  exists st', jstep st c = inl st' /\ inst d (j ++ [c]) false st'.
Proof.
  intros st d j c (Hq & Hj & Hc & Hb & He) Hd Hdq. jst st. subst q ij cnt j0 esc.
  assert (Hz : (d =? 0) = false) by (apply Z.eqb_neq; lia).
  unfold jstep. cbn. unfold cbyte. rewrite (dq_byte c Hdq). cbn. rewrite Hz.
  eexists; split; [reflexivity|repeat split].
Qed.

(* one byte outside a literal: depth after it, and what is kept of it *)
Definition walk1 (d : Z) (c : ascii) : option Z :=
  if (byte c =? 123)%N then Some (d + 1)
  else if (byte c =? 125)%N then (if 2 <=? d then Some (d - 1) else None)
  else Some d.
Definition sq1 (c : ascii) : str := if is_blank c then [] else [c].

Lemma blank_cases : forall c,
  is_blank c = ((N_of_ascii c =? 10)%N || (N_of_ascii c =? 13)%N || (N_of_ascii c =? 9)%N || (N_of_ascii c =? 32)%N).
Proof.
  intro c. unfold is_blank.
  destruct (N_of_ascii c =? 10)%N, (N_of_ascii c =? 13)%N, (N_of_ascii c =? 9)%N, (N_of_ascii c =? 32)%N; reflexivity.
Qed.

Lemma jstep_out : forall st d j c d', outst d j st -> 1 <= d -> is_dq c = false -> walk1 d c = Some d' ->
  1 <= d' /\ exists st', jstep st c = inl st' /\ outst d' (j ++ sq1 c) st'.
Proof.
  intros st d j c d' (Hq & Hj & Hc & Hb & He) Hd Hdq Hw. jst st. subst q ij cnt j0 esc.
  unfold walk1, sq1 in *. rewrite blank_cases. unfold jstep. cbn. unfold is_dq, byte, cbyte in *.
  destruct (N_of_ascii c =? 123)%N eqn:E1.
  - injection Hw as <-. split; [lia|]. apply N.eqb_eq in E1. rewrite E1. cbn.
    assert (Hz : (d + 1 =? 0) = false) by (apply Z.eqb_neq; lia). rewrite Hz.
    eexists; split; [reflexivity|repeat split].
  - destruct (N_of_ascii c =? 125)%N eqn:E2.
    + destruct (2 <=? d) eqn:E3; [|discriminate]. injection Hw as <-. apply Z.leb_le in E3. split; [lia|].
      apply N.eqb_eq in E2. rewrite E2. cbn.
      assert (Hn : (d - 1 <? 0) = false) by (apply Z.ltb_ge; lia).
      assert (Hz : (d - 1 =? 0) = false) by (apply Z.eqb_neq; lia). rewrite Hn, Hz.
      eexists; split; [reflexivity|repeat split].
    + injection Hw as <-. split; [assumption|]. rewrite Hdq.
      assert (Hz : (d =? 0) = false) by (apply Z.eqb_neq; lia).
      destruct ((N_of_ascii c =? 10)%N || (N_of_ascii c =? 13)%N || (N_of_ascii c =? 9)%N || (N_of_ascii c =? 32)%N); cbn.
      * eexists; split; [reflexivity|]. rewrite app_nil_r. repeat split.
      * rewrite Hz. eexists; split; [reflexivity|repeat split].
Qed.

Notation jsteps := (steps jmachine).

Lemma steps_body : forall b st d j e e', inst d j e st -> 1 <= d -> esc_run e b = Some e' ->
  exists st', jsteps st b = Some st' /\ inst d (j ++ b) e' st'.
Proof.
  induction b as [|c t IH]; intros st d j e e' Hi Hd Hq.
  - injection Hq as <-. exists st. split; [reflexivity|]. now rewrite app_nil_r.
  - cbn in Hq. destruct (is_dq c && negb e) eqn:Ec; [discriminate|].
    destruct (jstep_in st d j e c Hi Hd Ec) as (st1 & E1 & Hi1).
    destruct (IH st1 d (j ++ [c]) _ e' Hi1 Hd Hq) as (st2 & E2 & Hi2).
    exists st2. split.
    + cbn [steps]. change (m_step jmachine st c) with (jstep st c). rewrite E1. exact E2.
    + rewrite <- app_assoc in Hi2. exact Hi2.
Qed.

(* a whole literal whose body obeys JSON's escape rule: no bare quote inside, not ending inside an escape *)
Definition lit_ok (b : str) : bool := match esc_run false b with Some false => true | _ => false end.

Lemma steps_lit : forall b st d j, outst d j st -> 1 <= d -> lit_ok b = true ->
  exists st', jsteps st (dq :: b ++ [dq]) = Some st' /\ outst d (j ++ dq :: b ++ [dq]) st'.
Proof.
  intros b st d j Ho Hd Hl. unfold lit_ok in Hl. destruct (esc_run false b) as [[|]|] eqn:Eb; try discriminate.
  destruct (jstep_open st d j dq Ho Hd eq_refl) as (st1 & E1 & Hi1).
  destruct (steps_body b st1 d (j ++ [dq]) false false Hi1 Hd Eb) as (st2 & E2 & Hi2).
  destruct (jstep_close st2 d _ dq Hi2 Hd eq_refl) as (st3 & E3 & Ho3).
  exists st3. split.
  - cbn [steps]. change (m_step jmachine st dq) with (jstep st dq). rewrite E1.
    rewrite steps_app, E2. cbn [steps]. change (m_step jmachine st2 dq) with (jstep st2 dq). now rewrite E3.
  - rewrite <- !app_assoc in Ho3. exact Ho3.
Qed.

Fixpoint walk_sp (d : Z) (x : str) : option Z :=
  match x with
  | [] => Some d
  | c :: t => match walk1 d c with Some d' => walk_sp d' t | None => None end
  end.

Lemma steps_sp : forall x st d j d', outst d j st -> 1 <= d ->
  forallb (fun c => negb (is_dq c)) x = true -> walk_sp d x = Some d' ->
  1 <= d' /\ exists st', jsteps st x = Some st' /\ outst d' (j ++ squeeze_seg (SP x)) st'.
Proof.
  induction x as [|c t IH]; intros st d j d' Ho Hd Hx Hw.
  - injection Hw as <-. split; [assumption|]. exists st. split; [reflexivity|]. cbn. now rewrite app_nil_r.
  - cbn in Hx. apply andb_true_iff in Hx as [Hc Ht]. apply negb_true_iff in Hc.
    cbn in Hw. destruct (walk1 d c) as [d1|] eqn:E; [|discriminate].
    destruct (jstep_out st d j c d1 Ho Hd Hc E) as (Hd1 & st1 & E1 & Ho1).
    destruct (IH st1 d1 _ d' Ho1 Hd1 Ht Hw) as (Hd' & st2 & E2 & Ho2).
    split; [assumption|]. exists st2. split.
    + cbn [steps]. change (m_step jmachine st c) with (jstep st c). rewrite E1. exact E2.
    + rewrite <- app_assoc in Ho2. cbn [squeeze_seg filter]. unfold sq1 in Ho2.
      destruct (is_blank c); cbn [negb app] in *; exact Ho2.
Qed.

Fixpoint walk (d : Z) (l : list seg) : option Z :=
  match l with
  | [] => Some d
  | SP x :: t => match walk_sp d x with Some d' => walk d' t | None => None end
  | SQ _ :: t => walk d t
  end.
Definition seg_ok (g : seg) : bool :=
  match g with SP x => forallb (fun c => negb (is_dq c)) x | SQ b => lit_ok b end.

Lemma steps_segs : forall l st d j d', outst d j st -> 1 <= d ->
  forallb seg_ok l = true -> walk d l = Some d' ->
  1 <= d' /\ exists st', jsteps st (flatten l) = Some st' /\ outst d' (j ++ squeeze_segs l) st'.
Proof.
  induction l as [|g l IH]; intros st d j d' Ho Hd Hl Hw.
  - injection Hw as <-. split; [assumption|]. exists st. split; [reflexivity|]. cbn. now rewrite app_nil_r.
  - cbn in Hl. apply andb_true_iff in Hl as [Hg Hl]. destruct g as [x|b]; cbn [walk] in Hw.
    + destruct (walk_sp d x) as [d1|] eqn:E; [|discriminate].
      destruct (steps_sp x st d j d1 Ho Hd Hg E) as (Hd1 & st1 & E1 & Ho1).
      destruct (IH st1 d1 _ d' Ho1 Hd1 Hl Hw) as (Hd' & st2 & E2 & Ho2).
      split; [assumption|]. exists st2. split.
      * cbn [flatten flat_map render_seg]. rewrite steps_app, E1. exact E2.
      * unfold squeeze_segs. cbn [flat_map]. rewrite app_assoc. exact Ho2.
    + destruct (steps_lit b st d j Ho Hd Hg) as (st1 & E1 & Ho1).
      destruct (IH st1 d _ d' Ho1 Hd Hl Hw) as (Hd' & st2 & E2 & Ho2).
      split; [assumption|]. exists st2. split.
      * cbn [flatten flat_map render_seg]. rewrite steps_app, E1. exact E2.
      * unfold squeeze_segs. cbn [flat_map squeeze_seg]. rewrite app_assoc. exact Ho2.
Qed.

(* ------------------------------------------------------------------ a whole object from the initial state *)

Definition obj_text (inner : list seg) : str := lbrace :: flatten inner ++ [rbrace].

Lemma steps_blanks : forall w, blank w = true -> jsteps jinit w = Some jinit.
Proof.
  induction w as [|c w IH]; intro H; [reflexivity|]. cbn in H. apply andb_true_iff in H as [Hc Hw].
  cbn [steps]. change (m_step jmachine jinit c) with (jstep jinit c).
  assert (E : jstep jinit c = inl jinit).
  { rewrite blank_cases in Hc. unfold jstep, jinit, cbyte. cbn.
    destruct (N_of_ascii c =? 123)%N eqn:E1.
    { apply N.eqb_eq in E1. rewrite E1 in Hc. discriminate. }
    destruct (N_of_ascii c =? 125)%N eqn:E2.
    { apply N.eqb_eq in E2. rewrite E2 in Hc. discriminate. }
    destruct (N_of_ascii c =? 34)%N eqn:E3.
    { apply N.eqb_eq in E3. rewrite E3 in Hc. discriminate. }
    rewrite Hc. reflexivity. }
  rewrite E. now apply IH.
Qed.

Lemma scan_object : forall w inner rest,
  blank w = true -> forallb seg_ok inner = true -> walk 1 inner = Some 1 ->
  direct jmachine jinit (w ++ obj_text inner ++ rest) =
  (JOk (lbrace :: squeeze_segs inner ++ [rbrace]), (length w + length (obj_text inner))%nat).
Proof.
  intros w inner rest Hw Hok Hwalk.
  assert (E0 : jstep jinit lbrace = inl {| inQuote := false; inJson := true; parenCnt := 1; escaped := false; jb := [lbrace] |})
    by reflexivity.
  set (st1 := {| inQuote := false; inJson := true; parenCnt := 1; escaped := false; jb := [lbrace] |}) in *.
  assert (Ho1 : outst 1 [lbrace] st1) by (repeat split).
  destruct (steps_segs inner st1 1 [lbrace] 1 Ho1 (Z.le_refl 1) Hok Hwalk) as (_ & st2 & E2 & Ho2).
  assert (Es : jsteps jinit (w ++ lbrace :: flatten inner) = Some st2).
  { rewrite steps_app, (steps_blanks w Hw). cbn [steps]. change (m_step jmachine jinit lbrace) with (jstep jinit lbrace).
    rewrite E0. exact E2. }
  unfold obj_text.
  replace (w ++ (lbrace :: flatten inner ++ [rbrace]) ++ rest) with ((w ++ lbrace :: flatten inner) ++ rbrace :: rest)
    by (rewrite <- !app_assoc; cbn; rewrite <- !app_assoc; reflexivity).
  rewrite (direct_steps jmachine _ _ jinit st2 Es).
  destruct Ho2 as (Hq & Hj & Hc & Hb & He). destruct st2 as [q ij cnt esc j0]. cbn in Hq, Hj, Hc, Hb, He. subst.
  cbn [direct]. change (m_step jmachine ?s rbrace) with (jstep s rbrace).
  unfold jstep. cbn. f_equal.
  rewrite !app_length. cbn [length]. lia.
Qed.

(* ------------------------------------------------------------------ the text json.Marshal writes *)

Definition plain_char (c : ascii) : bool :=
  negb (is_dq c) && negb (is_blank c) && negb (byte c =? 123)%N && negb (byte c =? 125)%N.
Definition num_plain (x : str) : bool := forallb plain_char x.

(* Maps of JSON types whose number texts are plain (no quote, blank or brace) *)
Fixpoint scan_safe (v : value) : bool :=
  match v with
  | VStr x => true
  | VBool _ | VNil => true
  | VFlt f | VJNum f => num_plain f
  | VInt _ | VI64 _ | VU64 _ => false
  | VMap m => (fix go (m : entries) : bool :=
                 match m with [] => true | (k, x) :: t => scan_safe x && go t end) m
  | VList l => (fix go (l : list value) : bool :=
                  match l with [] => true | x :: t => scan_safe x && go t end) l
  end.

(* segments that scan well, keep their depth, and hold no blank outside literals *)
Definition seg_tight (g : seg) : bool :=
  match g with
  | SP x => forallb (fun c => negb (is_dq c) && negb (is_blank c)) x
  | SQ b => lit_ok b
  end.
Definition good (l : list seg) : Prop :=
  forallb seg_tight l = true /\ forall d, 1 <= d -> walk d l = Some d.

Lemma seg_tight_ok : forall l, forallb seg_tight l = true -> forallb seg_ok l = true.
Proof.
  induction l as [|g l IH]; intro H; [reflexivity|]. cbn in *. apply andb_true_iff in H as [Hg Hl].
  rewrite (IH Hl), andb_true_r. destruct g as [x|b]; [|exact Hg]. cbn in *.
  rewrite forallb_forall in *. intros c Hc. specialize (Hg c Hc). now apply andb_true_iff in Hg as [Hg _].
Qed.

Lemma tight_squeeze : forall l, forallb seg_tight l = true -> squeeze_segs l = flatten l.
Proof.
  induction l as [|g l IH]; intro H; [reflexivity|]. cbn in H. apply andb_true_iff in H as [Hg Hl].
  unfold squeeze_segs, flatten in *. cbn [flat_map]. rewrite (IH Hl). f_equal.
  destruct g as [x|b]; [|reflexivity]. cbn in *. induction x as [|c x IHx]; [reflexivity|].
  cbn in *. apply andb_true_iff in Hg as [Hc Hx]. apply andb_true_iff in Hc as [_ Hc].
  rewrite Hc. f_equal. now apply IHx.
Qed.

Lemma walk_app : forall a b d, walk d (a ++ b) = match walk d a with Some d' => walk d' b | None => None end.
Proof.
  induction a as [|g a IH]; intros b d; [reflexivity|]. destruct g as [x|q]; cbn [app walk].
  - destruct (walk_sp d x); [apply IH|reflexivity].
  - apply IH.
Qed.

Lemma good_app : forall a b, good a -> good b -> good (a ++ b).
Proof.
  intros a b [Ha1 Ha2] [Hb1 Hb2]. split.
  - rewrite forallb_app, Ha1, Hb1. reflexivity.
  - intros d Hd. rewrite walk_app, (Ha2 d Hd). now apply Hb2.
Qed.

Lemma good_plain : forall x, forallb plain_char x = true -> good [SP x].
Proof.
  intros x H. split.
  - cbn. rewrite andb_true_r. rewrite forallb_forall in *. intros c Hc. specialize (H c Hc).
    unfold plain_char in H. apply andb_true_iff in H as [H _]. apply andb_true_iff in H as [H _]. exact H.
  - intros d _. cbn. assert (Hw : walk_sp d x = Some d); [|now rewrite Hw].
    induction x as [|c x IH]; [reflexivity|]. cbn in *. apply andb_true_iff in H as [Hc Hx].
    unfold plain_char in Hc. apply andb_true_iff in Hc as [Hc H4]. apply andb_true_iff in Hc as [_ H3].
    unfold walk1. apply negb_true_iff in H3, H4. rewrite H3, H4. now apply IH.
Qed.

Lemma good_lit : forall eh x, good [SQ (quote_body eh x)].
Proof.
  intros eh x. split; [|intros d _; reflexivity]. cbn. rewrite andb_true_r. unfold lit_ok.
  now rewrite quote_body_run.
Qed.

Lemma good_sep_by : forall sep l, good [sep] -> Forall good l -> good (sep_by sep l).
Proof.
  intros sep l Hs Hl. induction Hl as [|x l Hx Hl IH]; [split; [reflexivity|intros; reflexivity]|].
  destruct l as [|y l]; [exact Hx|].
  change (sep_by sep (x :: y :: l)) with (x ++ sep :: sep_by sep (y :: l)).
  apply good_app; [exact Hx|]. change (sep :: sep_by sep (y :: l)) with ([sep] ++ sep_by sep (y :: l)).
  apply good_app; assumption.
Qed.

Lemma good_sp1_plain : forall c, forallb plain_char (s c) = true -> good [sp1 c].
Proof. intros c H. now apply good_plain. Qed.

(* the inside of a container keeps the depth; the braces of an object change it by one and back *)
Lemma good_wrap_brace : forall inner, good inner -> good (sp1 "{" :: inner ++ [sp1 "}"]).
Proof.
  intros inner [H1 H2]. split.
  - cbn [forallb]. rewrite forallb_app, H1. reflexivity.
  - intros d Hd. cbn [walk sp1 s list_ascii_of_string walk_sp walk1]. cbn.
    rewrite walk_app, (H2 (d + 1)) by lia. cbn.
    assert (E : (2 <=? d + 1) = true) by (apply Z.leb_le; lia). rewrite E. f_equal. lia.
Qed.

Lemma scan_safe_good : forall eh v, scan_safe v = true -> good (segments eh v).
Proof.
  intro eh. induction v as [x|b| |z|z|z|f|x|m IH|l IH] using value_ind2; intro H; try discriminate.
  - apply good_lit.
  - destruct b; now apply good_sp1_plain.
  - now apply good_sp1_plain.
  - now apply good_plain.
  - now apply good_plain.
  - rewrite segments_vmap. apply good_wrap_brace. apply good_sep_by; [now apply good_sp1_plain|].
    rewrite Forall_map. apply jsort_Forall. rewrite Forall_map.
    induction IH as [|[k x] m Hx Hm IHm]; [constructor|]. cbn in H.
    apply andb_true_iff in H as [Hs Ht]. constructor; [|now apply IHm].
    unfold entry_segs. cbn [fst snd].
    change (SQ (quote_body eh k) :: sp1 ":" :: segments eh x) with ([SQ (quote_body eh k)] ++ [sp1 ":"] ++ segments eh x).
    apply good_app; [apply good_lit|]. apply good_app; [now apply good_sp1_plain|]. now apply Hx.
  - rewrite segments_vlist.
    assert (Hin : good (sep_by (sp1 ",") (map (segments eh) l))).
    { apply good_sep_by; [now apply good_sp1_plain|]. rewrite Forall_map.
      induction IH as [|x l Hx Hl IHl]; [constructor|]. cbn in H. apply andb_true_iff in H as [Hs Ht].
      constructor; [now apply Hx|now apply IHl]. }
    change (sp1 "[" :: sep_by (sp1 ",") (map (segments eh) l) ++ [sp1 "]"])
      with ([sp1 "["] ++ sep_by (sp1 ",") (map (segments eh) l) ++ [sp1 "]"]).
    apply good_app; [now apply good_sp1_plain|]. apply good_app; [exact Hin|now apply good_sp1_plain].
Qed.

Definition map_inner (eh : bool) (m : entries) : list seg :=
  sep_by (sp1 ",") (map (entry_segs eh) (jsort (map (fun kx => (fst kx, segments eh (snd kx))) m))).

Lemma good_map_inner : forall eh m, scan_safe (VMap m) = true -> good (map_inner eh m).
Proof.
  intros eh m H. unfold map_inner. apply good_sep_by; [now apply good_sp1_plain|].
  rewrite Forall_map. apply jsort_Forall. rewrite Forall_map.
  induction m as [|[k x] m IHm]; [constructor|]. cbn in H.
  apply andb_true_iff in H as [Hs Ht]. constructor; [|apply IHm; exact Ht].
  unfold entry_segs. cbn [fst snd].
  change (SQ (quote_body eh k) :: sp1 ":" :: segments eh x) with ([SQ (quote_body eh k)] ++ [sp1 ":"] ++ segments eh x).
  apply good_app; [apply good_lit|]. apply good_app; [now apply good_sp1_plain|]. now apply scan_safe_good.
Qed.

(* json_scan_split on bytes: blanks, the marshalled object (either encoding), anything *)
Lemma scan_marshal : forall eh m w rest, scan_safe (VMap m) = true -> blank w = true ->
  direct jmachine jinit (w ++ marshal eh (VMap m) ++ rest) =
  (JOk (marshal eh (VMap m)), (length w + length (marshal eh (VMap m)))%nat).
Proof.
  intros eh m w rest Hs Hw.
  destruct (good_map_inner eh m Hs) as [Hti Hwk].
  assert (Hm : marshal eh (VMap m) = obj_text (map_inner eh m)).
  { unfold marshal. rewrite segments_vmap. fold (map_inner eh m). unfold obj_text, flatten.
    cbn [flat_map render_seg sp1 s list_ascii_of_string app]. rewrite flat_map_app. reflexivity. }
  rewrite Hm, (scan_object w (map_inner eh m) rest Hw (seg_tight_ok _ Hti) (Hwk 1 (Z.le_refl 1))), (tight_squeeze _ Hti).
  reflexivity.
Qed.
