(* Proofs for C19: file write/read round trip, truncation, Raw/non-Raw agreement,
   gob and Copy under codec hypotheses, and the refutation witnesses. *)
From Mxj Require Import Model.Files Spec.FilesSpec.

(* ------------------------------------------------------------------ *)
(* generic list facts *)

Lemma firstn_concat_locate : forall bs n,
  firstn n (concat bs) =
  concat (firstn (fst (locate bs n)) bs) ++
  firstn (snd (locate bs n)) (nth (fst (locate bs n)) bs []).
Proof.
  induction bs as [|b t IH]; intros n.
  - cbn. now rewrite firstn_nil.
  - cbn [concat locate]. rewrite firstn_app.
    destruct (n <? length b) eqn:E.
    + apply Nat.ltb_lt in E. cbn [fst snd firstn nth concat app].
      replace (n - length b) with 0 by lia. cbn [firstn]. now rewrite app_nil_r.
    + apply Nat.ltb_ge in E. specialize (IH (n - length b)).
      destruct (locate t (n - length b)) as [i k] eqn:L. cbn [fst snd] in *.
      cbn [firstn nth concat]. rewrite firstn_all2 by lia. rewrite IH. now rewrite app_assoc.
Qed.

Lemma locate_bounds : forall bs n,
  fst (locate bs n) <= length bs /\
  (fst (locate bs n) < length bs -> snd (locate bs n) < length (nth (fst (locate bs n)) bs [])).
Proof.
  induction bs as [|b t IH]; intros n.
  - cbn. split; lia.
  - cbn [locate]. destruct (n <? length b) eqn:E.
    + apply Nat.ltb_lt in E. cbn. split; [lia | intros _; exact E].
    + specialize (IH (n - length b)). destruct (locate t (n - length b)) as [i k]. cbn [fst snd length nth] in *.
      destruct IH as [H1 H2]. split; [lia | intros H; apply H2; lia].
Qed.

Lemma Forall2_firstn : forall {A B} (R : A -> B -> Prop) l1 l2 n,
  Forall2 R l1 l2 -> Forall2 R (firstn n l1) (firstn n l2).
Proof.
  intros A B R l1 l2 n H. revert n. induction H as [|a b l1 l2 Hab H IH]; intros [|n]; cbn; constructor; auto.
Qed.

(* ------------------------------------------------------------------ *)
(* the read loop over a file that starts with whole documents *)
Section RoundTrip.
  Variable D : Type.
  Variable take : bytes -> taken bytes D.
  Variable keep : D -> bool.

  Notation Reads := (Reads take).
  Notation AtEOF := (AtEOF take keep).
  Notation kept := (kept keep).
  Notation read_all := (read_all take keep).

  Lemma reads_nonempty : forall b d, AtEOF -> Reads b d -> b <> [].
  Proof.
    intros b d [He _] Hr ->. specialize (Hr []). cbn in Hr. rewrite Hr in He. cbn in He. discriminate.
  Qed.

  Lemma kept_app : forall a b, kept (a ++ b) = kept a ++ kept b.
  Proof. intros. unfold FilesSpec.kept. apply filter_app. Qed.

  (* every document costs exactly one iteration *)
  Lemma read_loop_docs : forall bs ds, Forall2 Reads bs ds ->
    forall tail am fuel,
      read_loop take keep (length bs + fuel) (concat bs ++ tail) am =
      read_loop take keep fuel tail (am ++ kept ds).
  Proof.
    intros bs ds H. induction H as [|b d bs ds Hb H IH]; intros tail am fuel.
    - cbn. now rewrite app_nil_r.
    - cbn [length concat Nat.add]. rewrite <- app_assoc. cbn [read_loop].
      rewrite (Hb (concat bs ++ tail)). cbn [t_err t_doc t_rest].
      rewrite IH. f_equal. cbn [FilesSpec.kept filter]. destruct (keep d).
      + now rewrite <- app_assoc.
      + reflexivity.
  Qed.

  Lemma length_le_concat : forall bs : list bytes,
    Forall (fun b => b <> []) bs -> length bs <= length (concat bs).
  Proof.
    induction 1 as [|b bs Hb H IH]; cbn; [lia|]. rewrite app_length.
    destruct b; [congruence | cbn; lia].
  Qed.

  Lemma reads_all_nonempty : forall bs ds, AtEOF -> Forall2 Reads bs ds -> Forall (fun b => b <> []) bs.
  Proof.
    intros bs ds He H. induction H; constructor; eauto using reads_nonempty.
  Qed.

  (* the loop after the whole documents: what the reader says about the tail decides *)
  Lemma read_all_docs_tail : forall bs ds tail, AtEOF -> Forall2 Reads bs ds ->
    exists fuel,
      read_all (concat bs ++ tail) =
      match read_loop take keep (S fuel) tail (kept ds) with
      | LDone am => FR false am false
      | LErr am => FR false am true
      | LPanic => FRPanic
      | LFuel => FRFuel
      end.
  Proof.
    intros bs ds tail He H.
    pose proof (length_le_concat bs (reads_all_nonempty bs ds He H)) as Hl.
    exists (length (concat bs ++ tail) - length bs).
    unfold FilesSpec.read_all, maps_from_file, file_fuel.
    assert (Hf : S (length (concat bs ++ tail)) = length bs + S (length (concat bs ++ tail) - length bs)).
    { rewrite app_length. lia. }
    rewrite Hf.
    rewrite (read_loop_docs bs ds H tail [] _). reflexivity.
  Qed.

  (* (1) whole file: every document read, in order, no error *)
  Theorem file_roundtrip : forall bs ds, AtEOF -> Forall2 Reads bs ds ->
    read_all (concat bs) = FR false (kept ds) false.
  Proof.
    intros bs ds He H. destruct (read_all_docs_tail bs ds [] He H) as [fuel E].
    rewrite app_nil_r in E. rewrite E. cbn [read_loop]. destruct He as [He1 He2].
    rewrite He1, He2. reflexivity.
  Qed.

  Corollary file_roundtrip_all_kept : forall bs ds, AtEOF -> Forall2 Reads bs ds ->
    Forall (fun d => keep d = true) ds ->
    read_all (concat bs) = FR false ds false.
  Proof.
    intros bs ds He H Hk. rewrite (file_roundtrip bs ds He H). f_equal.
    clear H. unfold FilesSpec.kept. induction Hk as [|d ds Hd Hk IH]; cbn; [reflexivity|].
    rewrite Hd. f_equal. exact IH.
  Qed.

  (* (2) malformed tail: an error together with the Maps read so far *)
  Theorem malformed_tail_error : forall bs ds tail, AtEOF -> Forall2 Reads bs ds ->
    t_err (take tail) = ROther ->
    read_all (concat bs ++ tail) = FR false (kept ds) true.
  Proof.
    intros bs ds tail He H Ht. destruct (read_all_docs_tail bs ds tail He H) as [fuel E].
    rewrite E. cbn [read_loop]. rewrite Ht. reflexivity.
  Qed.

  (* a tail on which the reader reports io.EOF ends the loop without an error *)
  Theorem eof_tail_done : forall bs ds tail, AtEOF -> Forall2 Reads bs ds ->
    t_err (take tail) = REOF ->
    read_all (concat bs ++ tail) =
    FR false (kept ds ++ kept [t_doc (take tail)]) false.
  Proof.
    intros bs ds tail He H Ht. destruct (read_all_docs_tail bs ds tail He H) as [fuel E].
    rewrite E. cbn [read_loop]. rewrite Ht. cbn [FilesSpec.kept filter].
    destruct (keep (t_doc (take tail))); [reflexivity | now rewrite app_nil_r].
  Qed.

  (* a panic of the reader is a panic of the file function *)
  Theorem panic_tail_panics : forall bs ds tail, AtEOF -> Forall2 Reads bs ds ->
    t_err (take tail) = RPanic ->
    read_all (concat bs ++ tail) = FRPanic.
  Proof.
    intros bs ds tail He H Ht. destruct (read_all_docs_tail bs ds tail He H) as [fuel E].
    rewrite E. cbn [read_loop]. rewrite Ht. reflexivity.
  Qed.

  (* (3) truncation at any byte *)
  Section Truncation.
    Variable started : bytes -> bool.     (* a document has begun inside this fragment *)
    Variable bs : list bytes.
    Variable ds : list D.
    Hypothesis Heof : AtEOF.
    Hypothesis Hdocs : Forall2 Reads bs ds.
    Hypothesis started_nil : started [] = false.
    (* a strict prefix of a document in which no document has begun reads as end of file ... *)
    Hypothesis Hidle : forall b k, In b bs -> k < length b -> started (firstn k b) = false ->
      t_err (take (firstn k b)) = REOF /\ keep (t_doc (take (firstn k b))) = false.
    (* ... and one in which a document has begun is an error *)
    Hypothesis Hbegun : forall b k, In b bs -> k < length b -> started (firstn k b) = true ->
      t_err (take (firstn k b)) = ROther.

    Theorem file_truncation : forall n,
      read_all (firstn n (concat bs)) =
      FR false (kept (firstn (fst (locate bs n)) ds))
         (started (firstn (snd (locate bs n)) (nth (fst (locate bs n)) bs []))).
    Proof.
      intros n. rewrite firstn_concat_locate.
      destruct (locate_bounds bs n) as [Hi Hk].
      set (i := fst (locate bs n)) in *. set (k := snd (locate bs n)) in *.
      pose proof (Forall2_firstn _ _ _ i Hdocs) as Hd.
      unfold bytes, str in *.
      destruct (Nat.eq_dec i (length bs)) as [Ei|Ni].
      - (* the cut is at or beyond the end *)
        assert (En : @nth (list ascii) i bs [] = []) by (apply nth_overflow; lia).
        rewrite !En. rewrite !firstn_nil.
        rewrite started_nil. rewrite app_nil_r. apply file_roundtrip; assumption.
      - assert (Hlt : i < length bs) by lia. specialize (Hk Hlt).
        assert (Hin : In (nth i bs []) bs) by (apply nth_In; exact Hlt).
        destruct (started (firstn k (nth i bs []))) eqn:Es.
        + apply malformed_tail_error; auto.
        + destruct (Hidle _ _ Hin Hk Es) as [H1 H2].
          etransitivity; [apply (eof_tail_done _ _ _ Heof Hd H1)|].
          cbn [FilesSpec.kept filter].
          match goal with |- context [if ?c then _ else _] => replace c with false by (symmetry; exact H2) end.
          now rewrite app_nil_r.
    Qed.

    (* what is returned is always a prefix of the Maps of the whole file *)
    Corollary truncation_prefix : forall n, exists i e,
      read_all (firstn n (concat bs)) = FR false (kept (firstn i ds)) e /\
      exists more, kept ds = kept (firstn i ds) ++ more.
    Proof.
      intros n. eexists _, _. split; [apply file_truncation|].
      exists (kept (skipn (fst (locate bs n)) ds)). rewrite <- kept_app. now rewrite firstn_skipn.
    Qed.

    (* a cut exactly at a document boundary is not an error *)
    Corollary truncation_at_boundary : forall i,
      read_all (concat (firstn i bs)) = FR false (kept (firstn i ds)) false.
    Proof.
      intros i. apply file_roundtrip; [assumption | apply Forall2_firstn; assumption].
    Qed.
  End Truncation.
End RoundTrip.

(* ------------------------------------------------------------------ *)
(* writers *)
Section WriterFacts.
  Variable M : Type.
  Variable enc : M -> bytes.     (* a total encoder *)
  Let enco (m : M) : option bytes := Some (enc m).

  Lemma string_loop_total : forall ms acc,
    string_loop enco ms acc = (acc ++ concat (map enc ms), false).
  Proof.
    induction ms as [|m ms IH]; intros acc; cbn.
    - now rewrite app_nil_r.
    - rewrite IH. now rewrite app_assoc.
  Qed.

  Lemma string_loop_nl_total_true : forall ms acc,
    string_loop_nl enco ms acc true = (acc ++ concat (map (fun m => nl ++ enc m) ms), false).
  Proof.
    induction ms as [|m ms IH]; intros acc; cbn [string_loop_nl enco map concat].
    - now rewrite app_nil_r.
    - rewrite IH. now rewrite <- !app_assoc.
  Qed.

  Lemma maps_string_total : forall ij ms,
    maps_string enco ij ms = (concat (sep_docs (if ij then nl else []) (map enc ms)), false).
  Proof.
    intros [|] ms; unfold maps_string.
    - destruct ms as [|m ms]; [reflexivity|]. cbn [string_loop_nl enco map sep_docs concat app].
      rewrite string_loop_nl_total_true. now rewrite map_map.
    - rewrite string_loop_total. cbn [app]. f_equal. f_equal.
      destruct ms as [|m ms]; [reflexivity|]. cbn [map sep_docs]. f_equal.
      rewrite map_map. apply map_ext. reflexivity.
  Qed.

  Lemma maps_file_total : forall ij ms,
    maps_file enco ij ms true = (Some (concat (sep_docs (if ij then nl else []) (map enc ms))), false).
  Proof. intros. unfold maps_file. now rewrite maps_string_total. Qed.
End WriterFacts.

(* an encoding error anywhere: an error is returned and the file is not touched *)
Lemma string_loop_error : forall {M} (enc : M -> option bytes) ms acc,
  Exists (fun m => enc m = None) ms -> snd (string_loop enc ms acc) = true.
Proof.
  intros M enc ms. induction ms as [|m ms IH]; intros acc H; [inversion H|].
  cbn. destruct (enc m) eqn:E; [|reflexivity]. apply IH. inversion H; subst; [congruence | assumption].
Qed.

Lemma string_loop_nl_error : forall {M} (enc : M -> option bytes) ms acc hf,
  Exists (fun m => enc m = None) ms -> snd (string_loop_nl enc ms acc hf) = true.
Proof.
  intros M enc ms. induction ms as [|m ms IH]; intros acc hf H; [inversion H|].
  cbn. destruct (enc m) eqn:E; [|reflexivity]. apply IH. inversion H; subst; [congruence | assumption].
Qed.

Lemma maps_file_error : forall {M} (enc : M -> option bytes) ij ms creatable,
  Exists (fun m => enc m = None) ms -> maps_file enc ij ms creatable = (None, true).
Proof.
  intros M enc ij ms cr H. unfold maps_file, maps_string.
  destruct ij.
  - pose proof (string_loop_nl_error enc ms [] false H) as E.
    destruct (string_loop_nl enc ms [] false) as [s0 e]. cbn in E. now subst.
  - pose proof (string_loop_error enc ms [] H) as E.
    destruct (string_loop enc ms []) as [s0 e]. cbn in E. now subst.
Qed.

(* ------------------------------------------------------------------ *)
(* write then read *)
Section WriteRead.
  Variable M D : Type.
  Variable enc : M -> bytes.
  Variable dec : M -> D.                    (* what the text written for m decodes to *)
  Variable take : bytes -> taken bytes D.
  Variable keep : D -> bool.
  Variable ij : bool.                       (* JsonFileIndent: "\n" before every document but the first *)
  Hypothesis Heof : AtEOF take keep.
  Hypothesis Hfirst : forall m, Reads take (enc m) (dec m).
  Hypothesis Hnext : forall m, Reads take ((if ij then nl else []) ++ enc m) (dec m).

  Lemma sep_docs_reads : forall ms,
    Forall2 (Reads take) (sep_docs (if ij then nl else []) (map enc ms)) (map dec ms).
  Proof.
    intros [|m ms]; [constructor|]. cbn [map sep_docs]. constructor; [apply Hfirst|].
    induction ms as [|m' ms IH]; cbn; constructor; [apply Hnext | apply IH].
  Qed.

  Theorem write_read_roundtrip : forall ms,
    exists file,
      maps_file (fun m => Some (enc m)) ij ms true = (Some file, false) /\
      read_all take keep file = FR false (kept keep (map dec ms)) false.
  Proof.
    intros ms. eexists. split; [apply maps_file_total|].
    apply file_roundtrip; [exact Heof | apply sep_docs_reads].
  Qed.

  Corollary write_read_same_maps : forall ms,
    Forall (fun m => keep (dec m) = true) ms ->
    exists file,
      maps_file (fun m => Some (enc m)) ij ms true = (Some file, false) /\
      read_all take keep file = FR false (map dec ms) false.
  Proof.
    intros ms Hk. eexists. split; [apply maps_file_total|].
    apply file_roundtrip_all_kept; [exact Heof | apply sep_docs_reads |].
    induction Hk; cbn; constructor; auto.
  Qed.

  (* a Map whose decoded value has no entries is dropped by  if len(m) > 0 *)
  Theorem unkept_document_skipped : forall m0,
    keep (dec m0) = false ->
    exists file,
      maps_file (fun m => Some (enc m)) ij [m0] true = (Some file, false) /\
      read_all take keep file = FR false [] false.
  Proof.
    intros m0 Hk. destruct (write_read_roundtrip [m0]) as [file [Hw Hr]].
    exists file. split; [exact Hw|]. rewrite Hr. cbn. now rewrite Hk.
  Qed.
End WriteRead.

(* ------------------------------------------------------------------ *)
(* Raw and non-Raw readers agree *)
Section RawAgree.
  Variable St : Type.
  Variable rd : St -> taken St mapraw.

  Lemma read_loop_fst : forall fuel st am,
    read_loop (rd_map rd) map_len_pos fuel st (map fst am) =
    match read_loop rd keep_raw fuel st am with
    | LDone l => LDone (map fst l)
    | LErr l => LErr (map fst l)
    | LPanic => LPanic
    | LFuel => LFuel
    end.
  Proof.
    induction fuel as [|fuel IH]; intros st am; [reflexivity|].
    cbn [read_loop].
    change (t_err (rd_map rd st)) with (t_err (rd st)).
    change (t_doc (rd_map rd st)) with (fst (t_doc (rd st))).
    change (t_rest (rd_map rd st)) with (t_rest (rd st)).
    unfold keep_raw. destruct (t_err (rd st)); try reflexivity.
    - destruct (map_len_pos (fst (t_doc (rd st)))).
      + rewrite <- IH. now rewrite map_app.
      + apply IH.
    - destruct (map_len_pos (fst (t_doc (rd st)))); [now rewrite map_app | reflexivity].
  Qed.

  Theorem raw_nonraw_agree : forall fuel f,
    new_maps_from_file rd fuel f = file_res_map fst (new_maps_from_file_raw rd fuel f).
  Proof.
    intros fuel [| | |st]; try reflexivity.
    unfold new_maps_from_file, new_maps_from_file_raw, maps_from_file.
    pose proof (read_loop_fst fuel st []) as E. cbn [map] in E.
    unfold mapraw, bytes, str in *. rewrite E.
    destruct (read_loop rd keep_raw fuel st []); reflexivity.
  Qed.
End RawAgree.

(* unreadable path: nil slice and an error, nothing read *)
Lemma unreadable_error : forall {St D} (take : St -> taken St D) keep fuel f,
  match f with Opened _ => False | _ => True end ->
  maps_from_file take keep fuel f = FR true [] true.
Proof. intros St D take keep fuel [| | |st] H; try reflexivity. destruct H. Qed.

(* ------------------------------------------------------------------ *)
(* gob *)
Section GobFacts.
  Variable gob_enc : value -> option bytes.
  Variable gob_dec : bytes -> res value.

  Theorem gob_roundtrip : forall mv b,
    gob_enc mv = Some b -> b <> [] -> gob_dec b = Ok mv ->
    bind (map_gob gob_enc mv) (new_map_gob gob_dec) = Ok mv.
  Proof.
    intros mv b He Hb Hd. unfold map_gob. rewrite He. cbn. destruct b; [congruence | exact Hd].
  Qed.

  (* what mxj adds: the empty byte string is the empty Map, whatever gob says *)
  Lemma new_map_gob_empty : new_map_gob gob_dec [] = Ok (VMap []).
  Proof. reflexivity. Qed.

  Theorem gob_encode_error : forall mv,
    gob_enc mv = None -> bind (map_gob gob_enc mv) (new_map_gob gob_dec) = Err EOther.
  Proof. intros mv He. unfold map_gob. now rewrite He. Qed.
End GobFacts.

(* encoding/gob as mxj configures it (nothing registered): encoder restricted to gob_encodable *)
Definition gob_env (enc : value -> bytes) (mv : value) : option bytes :=
  if gob_encodable mv then Some (enc mv) else None.

(* nested maps and lists are transmitted since the types are registered (fix 6a56aba) *)
Lemma gob_nested_encodable :
  gob_encodable (VMap [(s "a", VMap [(s "b", VStr (s "1"))]); (s "l", VList [VStr (s "1"); VMap []; VList []])]) = true.
Proof. reflexivity. Qed.

Lemma gob_env_roundtrip : forall enc dec mv,
  gob_encodable mv = true -> enc mv <> [] -> dec (enc mv) = Ok mv ->
  bind (map_gob (gob_env enc) mv) (new_map_gob dec) = Ok mv.
Proof.
  intros enc dec mv Hg Hn Hd. apply gob_roundtrip with (b := enc mv); auto.
  unfold gob_env. now rewrite Hg.
Qed.

(* ------------------------------------------------------------------ *)
(* Json() rewrite and Copy *)

Lemma replace_all_aux_head : forall old new c x,
  prefixb old (c :: x) = false ->
  replace_all_aux old new (c :: x) 0 = c :: replace_all_aux old new x 0.
Proof. intros old new c x H. cbn [replace_all_aux]. now rewrite H. Qed.

Lemma prefixb_bsl_brace : forall t x, prefixb (bsl :: t) ("{"%char :: x) = false.
Proof. reflexivity. Qed.

Lemma json_post_brace : forall x, json_post ("{"%char :: x) = "{"%char :: json_post x.
Proof.
  intros x. unfold json_post, replace_all, esc_lt, esc_gt, esc_amp.
  rewrite (replace_all_aux_head _ _ _ _ (prefixb_bsl_brace _ _)).
  rewrite (replace_all_aux_head _ _ _ _ (prefixb_bsl_brace _ _)).
  rewrite (replace_all_aux_head _ _ _ _ (prefixb_bsl_brace _ _)).
  reflexivity.
Qed.

(* no occurrence of old: nothing is rewritten *)
Lemma replace_all_aux_absent : forall old new x,
  containsb old x = false -> replace_all_aux old new x 0 = x.
Proof.
  intros old new x. induction x as [|c x IH]; intros H; [reflexivity|].
  cbn [containsb] in H. apply Bool.orb_false_iff in H. destruct H as [H1 H2].
  cbn [replace_all_aux]. rewrite H1. f_equal. apply IH. exact H2.
Qed.

Lemma json_post_id : forall j,
  containsb esc_lt j = false -> containsb esc_gt j = false -> containsb esc_amp j = false ->
  json_post j = j.
Proof.
  intros j H1 H2 H3. unfold json_post, replace_all.
  rewrite (replace_all_aux_absent _ _ _ H1), (replace_all_aux_absent _ _ _ H2), (replace_all_aux_absent _ _ _ H3).
  reflexivity.
Qed.

Section CopyFacts.
  Variable marshal : value -> bytes * bool.
  Variable json_dec : bytes -> res value.

  (* Copy under the codec hypothesis on what mxj hands to the decoder *)
  Theorem copy_eq : forall mv j,
    marshal mv = ("{"%char :: j, false) ->
    json_dec (json_post ("{"%char :: j)) = Ok mv ->
    map_copy marshal json_dec mv = Ok mv.
  Proof.
    intros mv j Hm Hd. unfold map_copy, map_json. rewrite Hm. cbn [fst snd].
    rewrite json_post_brace in *. cbn [new_map_json]. exact Hd.
  Qed.

  (* ... and under the hypothesis about encoding/json alone, when the rewrite finds nothing to rewrite *)
  Corollary copy_eq_stdlib : forall mv j,
    marshal mv = ("{"%char :: j, false) ->
    json_dec ("{"%char :: j) = Ok mv ->
    containsb esc_lt j = false -> containsb esc_gt j = false -> containsb esc_amp j = false ->
    map_copy marshal json_dec mv = Ok mv.
  Proof.
    intros mv j Hm Hd H1 H2 H3. apply copy_eq with (j := j); [exact Hm|].
    rewrite json_post_brace. rewrite (json_post_id j H1 H2 H3). exact Hd.
  Qed.

  Theorem copy_marshal_error : forall mv j,
    marshal mv = (j, true) -> map_copy marshal json_dec mv = Err EOther.
  Proof. intros mv j Hm. unfold map_copy, map_json. now rewrite Hm. Qed.
End CopyFacts.

(* the bytes json.Marshal returns for a Map whose value under "a" is the six characters
   backslash u 0 0 3 c: the backslash is escaped (two backslashes, then u003c) *)
Definition marshal_bsl_u003c : bytes :=
  s "{""a"":""" ++ [bsl; bsl] ++ s "u003c""}".

Lemma json_rewrite_refuted :
  valid_escapes marshal_bsl_u003c false = true /\
  json_post marshal_bsl_u003c = s "{""a"":""" ++ [bsl] ++ s "<""}" /\
  valid_escapes (json_post marshal_bsl_u003c) false = false.
Proof. repeat split; vm_compute; reflexivity. Qed.

(* ------------------------------------------------------------------ *)
(* the getJson scanner: a string value that ends in a backslash never closes *)
Definition doc_trailing_bsl : bytes := s "{""a"":""x" ++ [bsl; bsl] ++ s """}".   (* Json() of Map{"a": `x\`} *)
Definition doc_plain : bytes := s "{""b"":""y""}".

Lemma scanner_trailing_backslash_refuted :
  valid_escapes doc_trailing_bsl false = true /\
  scan_json (doc_trailing_bsl ++ doc_plain) = SNoClose (doc_trailing_bsl ++ doc_plain) /\
  (forall dec, t_err (json_reader_raw dec (doc_trailing_bsl ++ doc_plain)) = ROther).
Proof. repeat split; intros; vm_compute; reflexivity. Qed.

(* a stray closing brace makes NewMapJsonReaderRaw dereference a nil pointer *)
Lemma scanner_stray_brace_panics : forall dec,
  t_err (json_reader_raw dec (s "}")) = RPanic.
Proof. intros. vm_compute. reflexivity. Qed.

(* the scanner on ordinary documents: concrete instances of Reads with a symbolic rest *)
Definition toy_dec (j : bytes) : res value := Ok (VMap [(s "json", VStr j)]).

Lemma scanner_reads_example : forall rest,
  json_reader_raw toy_dec (s "{""a"":{""b"":""}{\"" x""}}" ++ rest) =
  mkTaken (VMap [(s "json", VStr (s "{""a"":{""b"":""}{\"" x""}}"))], s "{""a"":{""b"":""}{\"" x""}}") RNil rest.
Proof. intros. vm_compute. reflexivity. Qed.

(* ------------------------------------------------------------------ *)
(* the file functions over the transcribed JSON reader: refutation witnesses *)

Lemma empty_object_skipped : forall json_dec,
  json_dec (s "{}") = Ok (VMap []) ->
  new_maps_from_file_raw (json_reader_raw json_dec) (file_fuel (s "{}")) (Opened (s "{}")) = FR false [] false
  /\ new_maps_from_file (json_reader_raw json_dec) (file_fuel (s "{}")) (Opened (s "{}")) = FR false [] false.
Proof.
  intros dec H.
  assert (E : json_reader_raw dec (s "{}") = mkTaken (VMap [], s "{}") RNil []).
  { unfold json_reader_raw. replace (scan_json (s "{}")) with (SDoc (s "{}") []) by (vm_compute; reflexivity).
    unfold new_map_json. cbn [s list_ascii_of_string]. cbn [Ascii.eqb Bool.eqb].
    change ("{"%char :: "}"%char :: []) with (s "{}"). rewrite H. reflexivity. }
  assert (E0 : json_reader_raw dec [] = mkTaken (VNil, []) REOF []) by reflexivity.
  split.
  - unfold new_maps_from_file_raw, maps_from_file, file_fuel. cbn [length s list_ascii_of_string read_loop].
    change ("{"%char :: "}"%char :: []) with (s "{}"). rewrite E. cbn [t_err t_doc t_rest keep_raw fst map_len_pos].
    rewrite E0. reflexivity.
  - rewrite raw_nonraw_agree.
    unfold new_maps_from_file_raw, maps_from_file, file_fuel. cbn [length s list_ascii_of_string read_loop].
    change ("{"%char :: "}"%char :: []) with (s "{}"). rewrite E. cbn [t_err t_doc t_rest keep_raw fst map_len_pos].
    rewrite E0. reflexivity.
Qed.

Lemma stray_brace_file_panics : forall json_dec,
  new_maps_from_file_raw (json_reader_raw json_dec) (file_fuel (s "}")) (Opened (s "}")) = FRPanic.
Proof. intros. vm_compute. reflexivity. Qed.

Lemma trailing_backslash_file : forall json_dec,
  valid_escapes doc_trailing_bsl false = true /\
  new_maps_from_file_raw (json_reader_raw json_dec) (file_fuel (doc_trailing_bsl ++ doc_plain))
    (Opened (doc_trailing_bsl ++ doc_plain)) = FR false [] true.
Proof. intros. split; vm_compute; reflexivity. Qed.

(* ------------------------------------------------------------------ *)
(* non-vacuity: the hypotheses hold of the transcribed reader on concrete documents *)

Definition ex_doc1 : bytes := s "{""a"":{""b"":""}{\"" x""}}".       (* braces and an escaped quote inside a string *)
Definition ex_doc2 : bytes := s "{""c"":""\\ y""}".                   (* an escaped backslash inside a string *)
Definition ex_docs : list bytes := [ex_doc1; ex_doc2].
Definition ex_vals : list mapraw :=
  [(VMap [(s "json", VStr ex_doc1)], ex_doc1); (VMap [(s "json", VStr ex_doc2)], ex_doc2)].
Definition ex_started (b : bytes) : bool := mem_ascii "{"%char b.

Lemma ex_roundtrip :
  AtEOF (json_reader_raw toy_dec) keep_raw /\
  Forall2 (Reads (json_reader_raw toy_dec)) ex_docs ex_vals /\
  read_all (json_reader_raw toy_dec) keep_raw (concat ex_docs) = FR false ex_vals false.
Proof.
  split; [split; vm_compute; reflexivity|]. split.
  - repeat constructor; intros rest; vm_compute; reflexivity.
  - vm_compute. reflexivity.
Qed.

Lemma lt_cases : forall (P : nat -> Prop) n, (forall k, k < n -> P k) <-> Forall P (seq 0 n).
Proof.
  intros P n. rewrite Forall_forall. split.
  - intros H k Hk. apply in_seq in Hk. apply H. lia.
  - intros H k Hk. apply H. apply in_seq. lia.
Qed.

Lemma ex_truncation :
  (forall b k, In b ex_docs -> k < length b -> ex_started (firstn k b) = false ->
     t_err (json_reader_raw toy_dec (firstn k b)) = REOF /\
     keep_raw (t_doc (json_reader_raw toy_dec (firstn k b))) = false) /\
  (forall b k, In b ex_docs -> k < length b -> ex_started (firstn k b) = true ->
     t_err (json_reader_raw toy_dec (firstn k b)) = ROther) /\
  read_all (json_reader_raw toy_dec) keep_raw (firstn 25 (concat ex_docs)) = FR false (firstn 1 ex_vals) true.
Proof.
  split; [|split].
  - intros b k Hb. revert k.
    match goal with |- forall k, k < ?n -> @?P k => apply (proj2 (lt_cases P n)) end.
    destruct Hb as [<-|[<-|[]]]; vm_compute;
      repeat (constructor; [intros H; try discriminate H; split; reflexivity|]); constructor.
  - intros b k Hb. revert k.
    match goal with |- forall k, k < ?n -> @?P k => apply (proj2 (lt_cases P n)) end.
    destruct Hb as [<-|[<-|[]]]; vm_compute;
      repeat (constructor; [intros H; try discriminate H; reflexivity|]); constructor.
  - vm_compute. reflexivity.
Qed.
