(* Proofs for C19: file write/read round trip, truncation, Raw/non-Raw agreement,
   gob and Copy under codec hypotheses, and the refutation witnesses. *)
From Mxj Require Import Model.Files Spec.FilesSpec.

(* ------------------------------------------------------------------ *)
(* generic list facts *)

Lemma firstn_concat_locate : forall bs n,
  firstn n (concat bs) =
  concat (firstn (fst (locate bs n)) bs) ++
  firstn (snd (locate bs n)) (nth (fst (locate bs n)) bs []).
Proof.
  induction bs as [|b t IH]; intros n.
  - cbn. now rewrite firstn_nil.
  - cbn [concat locate]. rewrite firstn_app.
    destruct (n <? length b) eqn:E.
    + apply Nat.ltb_lt in E. cbn [fst snd firstn nth concat app].
      replace (n - length b) with 0 by lia. cbn [firstn]. now rewrite app_nil_r.
    + apply Nat.ltb_ge in E. specialize (IH (n - length b)).
      destruct (locate t (n - length b)) as [i k] eqn:L. cbn [fst snd] in *.
      cbn [firstn nth concat]. rewrite firstn_all2 by lia. rewrite IH. now rewrite app_assoc.
Qed.

Lemma locate_bounds : forall bs n,
  fst (locate bs n) <= length bs /\
  (fst (locate bs n) < length bs -> snd (locate bs n) < length (nth (fst (locate bs n)) bs [])).
Proof.
  induction bs as [|b t IH]; intros n.
  - cbn. split; lia.
  - cbn [locate]. destruct (n <? length b) eqn:E.
    + apply Nat.ltb_lt in E. cbn. split; [lia | intros _; exact E].
    + specialize (IH (n - length b)). destruct (locate t (n - length b)) as [i k]. cbn [fst snd length nth] in *.
      destruct IH as [H1 H2]. split; [lia | intros H; apply H2; lia].
Qed.

Lemma Forall2_firstn : forall {A B} (R : A -> B -> Prop) l1 l2 n,
  Forall2 R l1 l2 -> Forall2 R (firstn n l1) (firstn n l2).
Proof.
  intros A B R l1 l2 n H. revert n. induction H as [|a b l1 l2 Hab H IH]; intros [|n]; cbn; constructor; auto.
Qed.

(* ------------------------------------------------------------------ *)
(* the read loop over a file that starts with whole documents *)
Section RoundTrip.
  Variable D : Type.
  Variable take : bytes -> taken bytes D.
  Variable keep : D -> bool.

  Notation Reads := (Reads take).
  Notation AtEOF := (AtEOF take keep).
  Notation kept := (kept keep).
  Notation read_all := (read_all take keep).

  Lemma reads_nonempty : forall b d, AtEOF -> Reads b d -> b <> [].
  Proof.
    intros b d [He _] Hr ->. specialize (Hr []). cbn in Hr. rewrite Hr in He. cbn in He. discriminate.
  Qed.

  Lemma kept_app : forall a b, kept (a ++ b) = kept a ++ kept b.
  Proof. intros. unfold FilesSpec.kept. apply filter_app. Qed.

  (* every document costs exactly one iteration *)
  Lemma read_loop_docs : forall bs ds, Forall2 Reads bs ds ->
    forall tail am fuel,
      read_loop take keep (length bs + fuel) (concat bs ++ tail) am =
      read_loop take keep fuel tail (am ++ kept ds).
  Proof.
    intros bs ds H. induction H as [|b d bs ds Hb H IH]; intros tail am fuel.
    - cbn. now rewrite app_nil_r.
    - cbn [length concat Nat.add]. rewrite <- app_assoc. cbn [read_loop].
      rewrite (Hb (concat bs ++ tail)). cbn [t_err t_doc t_rest].
      rewrite IH. f_equal. cbn [FilesSpec.kept filter]. destruct (keep d).
      + now rewrite <- app_assoc.
      + reflexivity.
  Qed.

  Lemma length_le_concat : forall bs : list bytes,
    Forall (fun b => b <> []) bs -> length bs <= length (concat bs).
  Proof.
    induction 1 as [|b bs Hb H IH]; cbn; [lia|]. rewrite app_length.
    destruct b; [congruence | cbn; lia].
  Qed.

  Lemma reads_all_nonempty : forall bs ds, AtEOF -> Forall2 Reads bs ds -> Forall (fun b => b <> []) bs.
  Proof.
    intros bs ds He H. induction H; constructor; eauto using reads_nonempty.
  Qed.

  (* the loop after the whole documents: what the reader says about the tail decides *)
  Lemma read_all_docs_tail : forall bs ds tail, AtEOF -> Forall2 Reads bs ds ->
    exists fuel,
      read_all (concat bs ++ tail) =
      match read_loop take keep (S fuel) tail (kept ds) with
      | LDone am => FR false am false
      | LErr am => FR false am true
      | LPanic => FRPanic
      | LFuel => FRFuel
      end.
  Proof.
    intros bs ds tail He H.
    pose proof (length_le_concat bs (reads_all_nonempty bs ds He H)) as Hl.
    exists (length (concat bs ++ tail) - length bs).
    unfold FilesSpec.read_all, maps_from_file, file_fuel.
    assert (Hf : S (length (concat bs ++ tail)) = length bs + S (length (concat bs ++ tail) - length bs)).
    { rewrite app_length. lia. }
    rewrite Hf.
    rewrite (read_loop_docs bs ds H tail [] _). reflexivity.
  Qed.

  (* (1) whole file: every document read, in order, no error *)
  Theorem file_roundtrip : forall bs ds, AtEOF -> Forall2 Reads bs ds ->
    read_all (concat bs) = FR false (kept ds) false.
  Proof.
    intros bs ds He H. destruct (read_all_docs_tail bs ds [] He H) as [fuel E].
    rewrite app_nil_r in E. rewrite E. cbn [read_loop]. destruct He as [He1 He2].
    rewrite He1, He2. reflexivity.
  Qed.

  Corollary file_roundtrip_all_kept : forall bs ds, AtEOF -> Forall2 Reads bs ds ->
    Forall (fun d => keep d = true) ds ->
    read_all (concat bs) = FR false ds false.
  Proof.
    intros bs ds He H Hk. rewrite (file_roundtrip bs ds He H). f_equal.
    clear H. unfold FilesSpec.kept. induction Hk as [|d ds Hd Hk IH]; cbn; [reflexivity|].
    rewrite Hd. f_equal. exact IH.
  Qed.

  (* (2) malformed tail: an error together with the Maps read so far *)
  Theorem malformed_tail_error : forall bs ds tail, AtEOF -> Forall2 Reads bs ds ->
    t_err (take tail) = ROther ->
    read_all (concat bs ++ tail) = FR false (kept ds) true.
  Proof.
    intros bs ds tail He H Ht. destruct (read_all_docs_tail bs ds tail He H) as [fuel E].
    rewrite E. cbn [read_loop]. rewrite Ht. reflexivity.
  Qed.

  (* a tail on which the reader reports io.EOF ends the loop without an error *)
  Theorem eof_tail_done : forall bs ds tail, AtEOF -> Forall2 Reads bs ds ->
    t_err (take tail) = REOF ->
    read_all (concat bs ++ tail) =
    FR false (kept ds ++ kept [t_doc (take tail)]) false.
  Proof.
    intros bs ds tail He H Ht. destruct (read_all_docs_tail bs ds tail He H) as [fuel E].
    rewrite E. cbn [read_loop]. rewrite Ht. cbn [FilesSpec.kept filter].
    destruct (keep (t_doc (take tail))); [reflexivity | now rewrite app_nil_r].
  Qed.

  (* a panic of the reader is a panic of the file function *)
  Theorem panic_tail_panics : forall bs ds tail, AtEOF -> Forall2 Reads bs ds ->
    t_err (take tail) = RPanic ->
    read_all (concat bs ++ tail) = FRPanic.
  Proof.
    intros bs ds tail He H Ht. destruct (read_all_docs_tail bs ds tail He H) as [fuel E].
    rewrite E. cbn [read_loop]. rewrite Ht. reflexivity.
  Qed.

  (* (3) truncation at any byte *)
  Section Truncation.
    Variable started : bytes -> bool.     (* a document has begun inside this fragment *)
    Variable bs : list bytes.
    Variable ds : list D.
    Hypothesis Heof : AtEOF.
    Hypothesis Hdocs : Forall2 Reads bs ds.
    Hypothesis started_nil : started [] = false.
    (* a strict prefix of a document in which no document has begun reads as end of file ... *)
    Hypothesis Hidle : forall b k, In b bs -> k < length b -> started (firstn k b) = false ->
      t_err (take (firstn k b)) = REOF /\ keep (t_doc (take (firstn k b))) = false.
    (* ... and one in which a document has begun is an error *)
    Hypothesis Hbegun : forall b k, In b bs -> k < length b -> started (firstn k b) = true ->
      t_err (take (firstn k b)) = ROther.

    Theorem file_truncation : forall n,
      read_all (firstn n (concat bs)) =
      FR false (kept (firstn (fst (locate bs n)) ds))
         (started (firstn (snd (locate bs n)) (nth (fst (locate bs n)) bs []))).
    Proof.
      intros n. rewrite firstn_concat_locate.
      destruct (locate_bounds bs n) as [Hi Hk].
      set (i := fst (locate bs n)) in *. set (k := snd (locate bs n)) in *.
      pose proof (Forall2_firstn _ _ _ i Hdocs) as Hd.
      unfold bytes, str in *.
      destruct (Nat.eq_dec i (length bs)) as [Ei|Ni].
      - (* the cut is at or beyond the end *)
        assert (En : @nth (list ascii) i bs [] = []) by (apply nth_overflow; lia).
        rewrite !En. rewrite !firstn_nil.
        rewrite started_nil. rewrite app_nil_r. apply file_roundtrip; assumption.
      - assert (Hlt : i < length bs) by lia. specialize (Hk Hlt).
        assert (Hin : In (nth i bs []) bs) by (apply nth_In; exact Hlt).
        destruct (started (firstn k (nth i bs []))) eqn:Es.
        + apply malformed_tail_error; auto.
        + destruct (Hidle _ _ Hin Hk Es) as [H1 H2].
          etransitivity; [apply (eof_tail_done _ _ _ Heof Hd H1)|].
          cbn [FilesSpec.kept filter].
          match goal with |- context [if ?c then _ else _] => replace c with false by (symmetry; exact H2) end.
          now rewrite app_nil_r.
    Qed.

    (* what is returned is always a prefix of the Maps of the whole file *)
    Corollary truncation_prefix : forall n, exists i e,
      read_all (firstn n (concat bs)) = FR false (kept (firstn i ds)) e /\
      exists more, kept ds = kept (firstn i ds) ++ more.
    Proof.
      intros n. eexists _, _. split; [apply file_truncation|].
      exists (kept (skipn (fst (locate bs n)) ds)). rewrite <- kept_app. now rewrite firstn_skipn.
    Qed.

    (* a cut exactly at a document boundary is not an error *)
    Corollary truncation_at_boundary : forall i,
      read_all (concat (firstn i bs)) = FR false (kept (firstn i ds)) false.
    Proof.
      intros i. apply file_roundtrip; [assumption | apply Forall2_firstn; assumption].
    Qed.
  End Truncation.
End RoundTrip.

(* ------------------------------------------------------------------ *)
(* writers *)
Section WriterFacts.
  Variable M : Type.
  Variable enc : M -> bytes.     (* a total encoder *)
  Let enco (m : M) : option bytes := Some (enc m).

  Lemma string_loop_total : forall ms acc,
    string_loop enco ms acc = (acc ++ concat (map enc ms), false).
  Proof.
    induction ms as [|m ms IH]; intros acc; cbn.
    - now rewrite app_nil_r.
    - rewrite IH. now rewrite app_assoc.
  Qed.

  Lemma string_loop_nl_total_true : forall ms acc,
    string_loop_nl enco ms acc true = (acc ++ concat (map (fun m => nl ++ enc m) ms), false).
  Proof.
    induction ms as [|m ms IH]; intros acc; cbn [string_loop_nl enco map concat].
    - now rewrite app_nil_r.
    - rewrite IH. now rewrite <- !app_assoc.
  Qed.

  Lemma maps_string_total : forall ij ms,
    maps_string enco ij ms = (concat (sep_docs (if ij then nl else []) (map enc ms)), false).
  Proof.
    intros [|] ms; unfold maps_string.
    - destruct ms as [|m ms]; [reflexivity|]. cbn [string_loop_nl enco map sep_docs concat app].
      rewrite string_loop_nl_total_true. now rewrite map_map.
    - rewrite string_loop_total. cbn [app]. f_equal. f_equal.
      destruct ms as [|m ms]; [reflexivity|]. cbn [map sep_docs]. f_equal.
      rewrite map_map. apply map_ext. reflexivity.
  Qed.

  Lemma maps_file_total : forall ij ms,
    maps_file enco ij ms true = (Some (concat (sep_docs (if ij then nl else []) (map enc ms))), false).
  Proof. intros. unfold maps_file. now rewrite maps_string_total. Qed.
End WriterFacts.

(* an encoding error anywhere: an error is returned and the file is not touched *)
Lemma string_loop_error : forall {M} (enc : M -> option bytes) ms acc,
  Exists (fun m => enc m = None) ms -> snd (string_loop enc ms acc) = true.
Proof.
  intros M enc ms. induction ms as [|m ms IH]; intros acc H; [inversion H|].
  cbn. destruct (enc m) eqn:E; [|reflexivity]. apply IH. inversion H; subst; [congruence | assumption].
Qed.

Lemma string_loop_nl_error : forall {M} (enc : M -> option bytes) ms acc hf,
  Exists (fun m => enc m = None) ms -> snd (string_loop_nl enc ms acc hf) = true.
Proof.
  intros M enc ms. induction ms as [|m ms IH]; intros acc hf H; [inversion H|].
  cbn. destruct (enc m) eqn:E; [|reflexivity]. apply IH. inversion H; subst; [congruence | assumption].
Qed.

Lemma maps_file_error : forall {M} (enc : M -> option bytes) ij ms creatable,
  Exists (fun m => enc m = None) ms -> maps_file enc ij ms creatable = (None, true).
Proof.
  intros M enc ij ms cr H. unfold maps_file, maps_string.
  destruct ij.
  - pose proof (string_loop_nl_error enc ms [] false H) as E.
    destruct (string_loop_nl enc ms [] false) as [s0 e]. cbn in E. now subst.
  - pose proof (string_loop_error enc ms [] H) as E.
    destruct (string_loop enc ms []) as [s0 e]. cbn in E. now subst.
Qed.

(* ------------------------------------------------------------------ *)
(* write then read *)
Section WriteRead.
  Variable M D : Type.
  Variable enc : M -> bytes.
  Variable dec : M -> D.                    (* what the text written for m decodes to *)
  Variable take : bytes -> taken bytes D.
  Variable keep : D -> bool.
  Variable ij : bool.                       (* JsonFileIndent: "\n" before every document but the first *)
  Hypothesis Heof : AtEOF take keep.
  Hypothesis Hfirst : forall m, Reads take (enc m) (dec m).
  Hypothesis Hnext : forall m, Reads take ((if ij then nl else []) ++ enc m) (dec m).

  Lemma sep_docs_reads : forall ms,
    Forall2 (Reads take) (sep_docs (if ij then nl else []) (map enc ms)) (map dec ms).
  Proof.
    intros [|m ms]; [constructor|]. cbn [map sep_docs]. constructor; [apply Hfirst|].
    induction ms as [|m' ms IH]; cbn; constructor; [apply Hnext | apply IH].
  Qed.

  Theorem write_read_roundtrip : forall ms,
    exists file,
      maps_file (fun m => Some (enc m)) ij ms true = (Some file, false) /\
      read_all take keep file = FR false (kept keep (map dec ms)) false.
  Proof.
    intros ms. eexists. split; [apply maps_file_total|].
    apply file_roundtrip; [exact Heof | apply sep_docs_reads].
  Qed.

  Corollary write_read_same_maps : forall ms,
    Forall (fun m => keep (dec m) = true) ms ->
    exists file,
      maps_file (fun m => Some (enc m)) ij ms true = (Some file, false) /\
      read_all take keep file = FR false (map dec ms) false.
  Proof.
    intros ms Hk. eexists. split; [apply maps_file_total|].
    apply file_roundtrip_all_kept; [exact Heof | apply sep_docs_reads |].
    induction Hk; cbn; constructor; auto.
  Qed.

  (* a Map whose decoded value has no entries is dropped by  if len(m) > 0 *)
  Theorem unkept_document_skipped : forall m0,
    keep (dec m0) = false ->
    exists file,
      maps_file (fun m => Some (enc m)) ij [m0] true = (Some file, false) /\
      read_all take keep file = FR false [] false.
  Proof.
    intros m0 Hk. destruct (write_read_roundtrip [m0]) as [file [Hw Hr]].
    exists file. split; [exact Hw|]. rewrite Hr. cbn. now rewrite Hk.
  Qed.
End WriteRead.

(* ------------------------------------------------------------------ *)
(* Raw and non-Raw readers agree *)
Section RawAgree.
  Variable St : Type.
  Variable rd : St -> taken St mapraw.

  Lemma read_loop_fst : forall fuel st am,
    read_loop (rd_map rd) map_not_nil fuel st (map fst am) =
    match read_loop rd keep_raw fuel st am with
    | LDone l => LDone (map fst l)
    | LErr l => LErr (map fst l)
    | LPanic => LPanic
    | LFuel => LFuel
    end.
  Proof.
    induction fuel as [|fuel IH]; intros st am; [reflexivity|].
    cbn [read_loop].
    change (t_err (rd_map rd st)) with (t_err (rd st)).
    change (t_doc (rd_map rd st)) with (fst (t_doc (rd st))).
    change (t_rest (rd_map rd st)) with (t_rest (rd st)).
    unfold keep_raw. destruct (t_err (rd st)); try reflexivity.
    - destruct (map_not_nil (fst (t_doc (rd st)))).
      + rewrite <- IH. now rewrite map_app.
      + apply IH.
    - destruct (map_not_nil (fst (t_doc (rd st)))); [now rewrite map_app | reflexivity].
  Qed.

  Theorem raw_nonraw_agree : forall fuel f,
    new_maps_from_file rd fuel f = file_res_map fst (new_maps_from_file_raw rd fuel f).
  Proof.
    intros fuel [| | |st]; try reflexivity.
    unfold new_maps_from_file, new_maps_from_file_raw, maps_from_file.
    pose proof (read_loop_fst fuel st []) as E. cbn [map] in E.
    unfold mapraw, bytes, str in *. rewrite E.
    destruct (read_loop rd keep_raw fuel st []); reflexivity.
  Qed.
End RawAgree.

(* unreadable path: nil slice and an error, nothing read *)
Lemma unreadable_error : forall {St D} (take : St -> taken St D) keep fuel f,
  match f with Opened _ => False | _ => True end ->
  maps_from_file take keep fuel f = FR true [] true.
Proof. intros St D take keep fuel [| | |st] H; try reflexivity. destruct H. Qed.

(* ------------------------------------------------------------------ *)
(* gob *)
Section GobFacts.
  Variable gob_enc : value -> option bytes.
  Variable gob_dec : bytes -> res value.

  Theorem gob_roundtrip : forall mv b,
    gob_enc mv = Some b -> b <> [] -> gob_dec b = Ok mv ->
    bind (map_gob gob_enc mv) (new_map_gob gob_dec) = Ok mv.
  Proof.
    intros mv b He Hb Hd. unfold map_gob. rewrite He. cbn. destruct b; [congruence | exact Hd].
  Qed.

  (* what mxj adds: the empty byte string is the empty Map, whatever gob says *)
  Lemma new_map_gob_empty : new_map_gob gob_dec [] = Ok (VMap []).
  Proof. reflexivity. Qed.

  Theorem gob_encode_error : forall mv,
    gob_enc mv = None -> bind (map_gob gob_enc mv) (new_map_gob gob_dec) = Err EOther.
  Proof. intros mv He. unfold map_gob. now rewrite He. Qed.
End GobFacts.

(* encoding/gob as mxj configures it (nothing registered): encoder restricted to gob_encodable *)
Definition gob_env (enc : value -> bytes) (mv : value) : option bytes :=
  if gob_encodable mv then Some (enc mv) else None.

(* nested maps and lists are transmitted since the types are registered (fix 6a56aba) *)
Lemma gob_nested_encodable :
  gob_encodable (VMap [(s "a", VMap [(s "b", VStr (s "1"))]); (s "l", VList [VStr (s "1"); VMap []; VList []])]) = true.
Proof. reflexivity. Qed.

Lemma gob_env_roundtrip : forall enc dec mv,
  gob_encodable mv = true -> enc mv <> [] -> dec (enc mv) = Ok mv ->
  bind (map_gob (gob_env enc) mv) (new_map_gob dec) = Ok mv.
Proof.
  intros enc dec mv Hg Hn Hd. apply gob_roundtrip with (b := enc mv); auto.
  unfold gob_env. now rewrite Hg.
Qed.

(* ------------------------------------------------------------------ *)
(* Json() and Copy *)

Lemma trim_nl_app : forall j, trim_nl (j ++ [nl_byte]) = j.
Proof.
  intros j. unfold trim_nl. rewrite rev_app_distr. cbn [rev app]. 
  replace (Ascii.eqb nl_byte nl_byte) with true by reflexivity. apply rev_involutive.
Qed.

Section CopyFacts.
  Variable encode : bool -> value -> option bytes.
  Variable json_dec : bytes -> res value.

  (* Copy under the codec hypothesis: the decoder maps the bytes Json() hands it back to the Map *)
  Theorem copy_eq : forall m b,
    encode false (VMap m) = Some b -> trim_nl b <> [] ->
    json_dec (trim_nl b) = Ok (VMap m) ->
    map_copy encode json_dec (VMap m) = Ok (VMap m).
  Proof.
    intros m b He Hn Hd. unfold map_copy, map_json, marshal_json. rewrite He.
    unfold new_map_json. destruct (trim_nl b) eqn:E; [congruence|]. rewrite Hd. reflexivity.
  Qed.

  (* ... stated about encoding/json alone: Encode writes the value's text j and a newline, Decode reads j back *)
  Corollary copy_eq_stdlib : forall m j,
    encode false (VMap m) = Some (j ++ [nl_byte]) -> j <> [] ->
    json_dec j = Ok (VMap m) ->
    map_copy encode json_dec (VMap m) = Ok (VMap m).
  Proof.
    intros m j He Hn Hd. apply copy_eq with (b := j ++ [nl_byte]); rewrite ?trim_nl_app; assumption.
  Qed.

  Theorem copy_encode_error : forall mv,
    encode false mv = None -> map_copy encode json_dec mv = Err EOther.
  Proof. intros mv He. unfold map_copy, map_json, marshal_json. now rewrite He. Qed.
End CopyFacts.

(* ------------------------------------------------------------------ *)
(* the getJson scanner inside string literals *)

Lemma in_string_step : forall c x jb k esc,
  get_json (c :: x) jb true true (S k) esc =
  if Ascii.eqb c """"%char && negb esc then get_json x (c :: jb) false true (S k) false
  else get_json x (c :: jb) true true (S k) (negb esc && Ascii.eqb c bsl).
Proof.
  intros c x jb k esc. cbn [get_json].
  destruct (Ascii.eqb c "{"%char) eqn:E1.
  { apply Ascii.eqb_eq in E1. subst c. destruct esc; reflexivity. }
  destruct (Ascii.eqb c "}"%char) eqn:E2.
  { apply Ascii.eqb_eq in E2. subst c. destruct esc; reflexivity. }
  destruct (Ascii.eqb c """"%char) eqn:E3.
  { apply Ascii.eqb_eq in E3. subst c. destruct esc; reflexivity. }
  destruct (is_json_ws c); destruct esc; reflexivity.
Qed.

Lemma in_string_body : forall us x jb k, forallb unit_ok us = true ->
  get_json (render_body us ++ x) jb true true (S k) false =
  get_json x (rev (render_body us) ++ jb) true true (S k) false.
Proof.
  induction us as [|u us IH]; intros x jb k H; [reflexivity|].
  cbn [forallb] in H. apply andb_prop in H. destruct H as [Hu H].
  unfold render_body in *. cbn [flat_map]. rewrite <- app_assoc.
  destruct u as [c|c]; cbn [render_unit app].
  - cbn [unit_ok] in Hu. apply andb_prop in Hu. destruct Hu as [H1 H2].
    apply Bool.negb_true_iff in H1. apply Bool.negb_true_iff in H2.
    rewrite in_string_step. rewrite H1, H2. cbn [andb negb].
    rewrite IH by exact H. cbn [rev]. now rewrite <- app_assoc.
  - rewrite in_string_step. replace (Ascii.eqb bsl """"%char) with false by reflexivity.
    replace (Ascii.eqb bsl bsl) with true by reflexivity. cbn [andb negb].
    rewrite in_string_step. cbn [andb negb]. rewrite Bool.andb_false_r.
    rewrite IH by exact H. cbn [rev]. rewrite <- !app_assoc. reflexivity.
Qed.

Lemma field_doc_app : forall k v rest,
  field_doc k v ++ rest =
  "{"%char :: """"%char :: (render_body k ++ """"%char :: ":"%char :: """"%char :: (render_body v ++ """"%char :: "}"%char :: rest)).
Proof.
  intros. unfold field_doc. cbn [app]. rewrite <- app_assoc. cbn [app]. rewrite <- app_assoc. reflexivity.
Qed.

(* every one-field document, whatever its key and value contain - braces, escaped quotes,
   any number of trailing escaped backslashes - is taken from the front of the input, whole *)
Theorem scan_field_doc : forall k v rest,
  forallb unit_ok k = true -> forallb unit_ok v = true ->
  scan_json (field_doc k v ++ rest) = SDoc (field_doc k v) rest.
Proof.
  intros k v rest Hk Hv. rewrite field_doc_app. unfold scan_json.
  change (get_json ("{"%char :: """"%char :: ?x) [] false false 0 false)
    with (get_json x [""""%char; "{"%char] true true 1 false).
  rewrite (in_string_body k _ _ 0 Hk).
  rewrite in_string_step. cbn [Ascii.eqb Bool.eqb andb negb].
  match goal with |- get_json (":"%char :: """"%char :: ?x) ?jb false true 1 false = _ =>
    change (get_json (":"%char :: """"%char :: x) jb false true 1 false)
      with (get_json x (""""%char :: ":"%char :: jb) true true 1 false) end.
  rewrite (in_string_body v _ _ 0 Hv).
  rewrite in_string_step. cbn [Ascii.eqb Bool.eqb andb negb].
  match goal with |- get_json ("}"%char :: ?x) ?jb false true 1 false = _ =>
    change (get_json ("}"%char :: x) jb false true 1 false) with (SDoc (rev ("}"%char :: jb)) x) end.
  f_equal. unfold field_doc. cbn [rev]. rewrite !rev_app_distr. cbn [rev app].
  rewrite !rev_app_distr. rewrite !rev_involutive. cbn [rev app]. rewrite <- !app_assoc. cbn [app].
  reflexivity.
Qed.

(* hence the reader takes it, for every decoder that decodes its text to an object *)
Theorem reader_reads_field_doc : forall json_dec k v m,
  forallb unit_ok k = true -> forallb unit_ok v = true ->
  json_dec (field_doc k v) = Ok (VMap m) ->
  Reads (json_reader_raw json_dec) (field_doc k v) (VMap m, field_doc k v).
Proof.
  intros dec k v m Hk Hv Hd rest. unfold json_reader_raw. rewrite (scan_field_doc k v rest Hk Hv).
  unfold new_map_json. unfold field_doc at 1. rewrite Hd. reflexivity.
Qed.

Lemma json_at_eof : forall json_dec, AtEOF (json_reader_raw json_dec) keep_raw.
Proof. intros. split; reflexivity. Qed.

(* a file of such documents (what JsonFile writes for one-field Maps with string values) reads back whole *)
Theorem field_docs_file_roundtrip : forall json_dec (kvs : list (list junit * list junit)) (mk : list junit * list junit -> entries),
  Forall (fun kv => forallb unit_ok (fst kv) = true /\ forallb unit_ok (snd kv) = true /\
                    json_dec (field_doc (fst kv) (snd kv)) = Ok (VMap (mk kv))) kvs ->
  read_all (json_reader_raw json_dec) keep_raw (concat (map (fun kv => field_doc (fst kv) (snd kv)) kvs)) =
  FR false (map (fun kv => (VMap (mk kv), field_doc (fst kv) (snd kv))) kvs) false.
Proof.
  intros dec kvs mk H.
  apply file_roundtrip_all_kept; [apply json_at_eof | | ].
  - induction H as [|kv kvs [Hk [Hv Hd]] H IH]; cbn [map]; constructor; [|exact IH].
    apply reader_reads_field_doc; assumption.
  - clear H. induction kvs; cbn [map]; constructor; [reflexivity | assumption].
Qed.

(* the document the pinned tree could not read: value x followed by a backslash *)
Definition doc_trailing_bsl : bytes := field_doc [UPlain "a"%char] [UPlain "x"%char; UEsc bsl].
Definition doc_plain : bytes := field_doc [UPlain "b"%char] [UPlain "y"%char].

Definition toy_dec (j : bytes) : res value := Ok (VMap [(s "json", VStr j)]).

Lemma trailing_backslash_file :
  doc_trailing_bsl = s "{""a"":""x" ++ [bsl; bsl] ++ s """}" /\
  new_maps_from_file_raw (json_reader_raw toy_dec) (file_fuel (doc_trailing_bsl ++ doc_plain))
    (Opened (doc_trailing_bsl ++ doc_plain)) =
  FR false [(VMap [(s "json", VStr doc_trailing_bsl)], doc_trailing_bsl);
            (VMap [(s "json", VStr doc_plain)], doc_plain)] false.
Proof. split; vm_compute; reflexivity. Qed.

(* a closing brace outside any document is an error of the reader (fix 9f7e6ef; a nil-pointer panic before) *)
Lemma scanner_stray_brace_error : forall dec rest,
  json_reader_raw dec ("}"%char :: rest) = mkTaken (VNil, []) ROther rest.
Proof. intros. reflexivity. Qed.

(* whole documents followed by a stray closing brace: the error together with the Maps read so far *)
Lemma stray_brace_file_error : forall json_dec bs ds rest,
  Forall2 (Reads (json_reader_raw json_dec)) bs ds ->
  read_all (json_reader_raw json_dec) keep_raw (concat bs ++ "}"%char :: rest) = FR false (kept keep_raw ds) true.
Proof.
  intros dec bs ds rest H. apply malformed_tail_error; [apply json_at_eof | exact H |].
  rewrite scanner_stray_brace_error. reflexivity.
Qed.

(* the document {} is a Map like any other (fix fd230a2: the loops test m != nil) *)
Lemma empty_object_read : forall json_dec,
  json_dec (s "{}") = Ok (VMap []) ->
  new_maps_from_file_raw (json_reader_raw json_dec) (file_fuel (s "{}")) (Opened (s "{}")) = FR false [(VMap [], s "{}")] false
  /\ new_maps_from_file (json_reader_raw json_dec) (file_fuel (s "{}")) (Opened (s "{}")) = FR false [VMap []] false.
Proof.
  intros dec H.
  assert (E : json_reader_raw dec (s "{}") = mkTaken (VMap [], s "{}") RNil []).
  { unfold json_reader_raw. replace (scan_json (s "{}")) with (SDoc (s "{}") []) by (vm_compute; reflexivity).
    unfold new_map_json. cbn [s list_ascii_of_string].
    change ("{"%char :: "}"%char :: []) with (s "{}"). rewrite H. reflexivity. }
  assert (E0 : json_reader_raw dec [] = mkTaken (VNil, []) REOF []) by reflexivity.
  assert (R : new_maps_from_file_raw (json_reader_raw dec) (file_fuel (s "{}")) (Opened (s "{}")) = FR false [(VMap [], s "{}")] false).
  { unfold new_maps_from_file_raw, maps_from_file, file_fuel. cbn [length s list_ascii_of_string read_loop].
    change ("{"%char :: "}"%char :: []) with (s "{}"). rewrite E. cbn [t_err t_doc t_rest keep_raw fst map_not_nil app].
    rewrite E0. reflexivity. }
  split; [exact R|]. rewrite raw_nonraw_agree, R. reflexivity.
Qed.

(* every Map a decoder returns is kept: the read-back has as many Maps as the file has documents *)
Lemma keep_raw_map : forall m r, keep_raw (VMap m, r) = true.
Proof. reflexivity. Qed.

(* ------------------------------------------------------------------ *)
(* non-vacuity: the hypotheses hold of the transcribed reader on concrete documents *)

Definition ex_doc1 : bytes := s "{""a"":{""b"":""}{\"" x""}}".       (* braces and an escaped quote inside a string *)
Definition ex_doc2 : bytes := s "{""c"":""\\ y""}".                   (* an escaped backslash inside a string *)
Definition ex_docs : list bytes := [ex_doc1; ex_doc2].
Definition ex_vals : list mapraw :=
  [(VMap [(s "json", VStr ex_doc1)], ex_doc1); (VMap [(s "json", VStr ex_doc2)], ex_doc2)].
Definition ex_started (b : bytes) : bool := mem_ascii "{"%char b.

Lemma ex_roundtrip :
  AtEOF (json_reader_raw toy_dec) keep_raw /\
  Forall2 (Reads (json_reader_raw toy_dec)) ex_docs ex_vals /\
  read_all (json_reader_raw toy_dec) keep_raw (concat ex_docs) = FR false ex_vals false.
Proof.
  split; [split; vm_compute; reflexivity|]. split.
  - repeat constructor; intros rest; vm_compute; reflexivity.
  - vm_compute. reflexivity.
Qed.

Lemma lt_cases : forall (P : nat -> Prop) n, (forall k, k < n -> P k) <-> Forall P (seq 0 n).
Proof.
  intros P n. rewrite Forall_forall. split.
  - intros H k Hk. apply in_seq in Hk. apply H. lia.
  - intros H k Hk. apply H. apply in_seq. lia.
Qed.

Lemma ex_truncation :
  (forall b k, In b ex_docs -> k < length b -> ex_started (firstn k b) = false ->
     t_err (json_reader_raw toy_dec (firstn k b)) = REOF /\
     keep_raw (t_doc (json_reader_raw toy_dec (firstn k b))) = false) /\
  (forall b k, In b ex_docs -> k < length b -> ex_started (firstn k b) = true ->
     t_err (json_reader_raw toy_dec (firstn k b)) = ROther) /\
  read_all (json_reader_raw toy_dec) keep_raw (firstn 25 (concat ex_docs)) = FR false (firstn 1 ex_vals) true.
Proof.
  split; [|split].
  - intros b k Hb. revert k.
    match goal with |- forall k, k < ?n -> @?P k => apply (proj2 (lt_cases P n)) end.
    destruct Hb as [<-|[<-|[]]]; vm_compute;
      repeat (constructor; [intros H; try discriminate H; split; reflexivity|]); constructor.
  - intros b k Hb. revert k.
    match goal with |- forall k, k < ?n -> @?P k => apply (proj2 (lt_cases P n)) end.
    destruct Hb as [<-|[<-|[]]]; vm_compute;
      repeat (constructor; [intros H; try discriminate H; reflexivity|]); constructor.
  - vm_compute. reflexivity.
Qed.

(* ------------------------------------------------------------------ *)
(* same number of Maps: a decoder never returns a nil Map without an error, so every document is kept *)
Lemma same_number : forall (M : Type) (enc : M -> bytes) (dec : M -> mapraw)
    (take : bytes -> taken bytes mapraw) (ij : bool),
  AtEOF take keep_raw ->
  (forall m, Reads take (enc m) (dec m)) ->
  (forall m, Reads take ((if ij then nl else []) ++ enc m) (dec m)) ->
  (forall m, map_not_nil (fst (dec m)) = true) ->
  forall ms, exists file,
    maps_file (fun m => Some (enc m)) ij ms true = (Some file, false) /\
    read_all take keep_raw file = FR false (map dec ms) false.
Proof.
  intros M enc dec take ij He H1 H2 Hk ms.
  apply write_read_same_maps; try assumption.
  apply Forall_forall. intros m _. apply Hk.
Qed.
