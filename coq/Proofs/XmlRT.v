(* Stage 1 of the XML round-trip proofs (C02, C03): what the decoder model makes of the
   token stream of the encoder model's items, for every value, every option record
   (tag sequence numbers and the XMPP special case off) and every admissible whitespace
   insertion.  The result is expressed with the decoder's own building blocks
   ([on_chardata], [add_child], [finish_elem], [attr_entries]) as the function [imgsG];
   the per-property files then characterise [imgsG] (C03: = [imgs]; C02: identity on
   decoder outputs). *)
From Mxj Require Import Spec.Items Proofs.StrLemmas Proofs.XmlStr Proofs.XmlItems.


Section RT.
Variable pf : str -> option flt.
Variable o : opts.
Variable c : bool.
Hypothesis Hseq : includeTagSeqNum o = false.
Hypothesis Hxmpp : handleXMPPStreamTag o = false.

Notation eloop := (elem_loop pf nskip o c).
Notation onchar := (on_chardata pf nskip o c).
Notation aents := (attr_entries pf nskip o c).

(* ---------------- one-step equations of the decoder loop ---------------- *)
Lemma el_char f skey n na seq x ts tm :
  eloop (S f) skey n na seq (TChar x :: ts) tm =
  (let '(n', na') := onchar skey x n na in eloop f skey n' na' seq ts tm).
Proof. reflexivity. Qed.

Lemma el_end f skey n na seq nm ts tm :
  eloop (S f) skey n na seq (TEnd nm :: ts) tm = Ok ((skey, finish_elem o n na), ts).
Proof. reflexivity. Qed.

Lemma el_start f skey n na seq nm a ts tm K x rest :
  xform_key o (xlocal nm) = K -> K <> [] ->
  eloop f K None (aents a) 0 ts tm = Ok ((K, x), rest) ->
  eloop (S f) skey n na seq (TStart nm a :: ts) tm = eloop f skey n (add_child K x na) seq rest tm.
Proof.
  intros HK Hne Hch. cbn [elem_loop]. rewrite HK. destruct K as [|k0 K']; [congruence|].
  rewrite Hxmpp. cbn [andb]. rewrite Hch. unfold tag_seq. rewrite Hseq. reflexivity.
Qed.

Lemma onchar_blank skey w n na : all_in (trimRunes o) w = true -> onchar skey w n na = (n, na).
Proof.
  intro H. unfold on_chardata. rewrite (trim_ws_only _ _ H).
  destruct (xmlEscapeCharsDecoder o); reflexivity.
Qed.
Lemma onchar_nil skey n na : onchar skey [] n na = (n, na).
Proof. apply onchar_blank. reflexivity. Qed.
Lemma onchar_ws skey w1 x w2 n na :
  all_in (trimRunes o) w1 = true -> all_in (trimRunes o) w2 = true ->
  onchar skey (w1 ++ x ++ w2) n na = onchar skey x n na.
Proof. intros H1 H2. unfold on_chardata. rewrite (trim_ws _ _ _ _ H1 H2). reflexivity. Qed.

Lemma el_flush fuel skey n na seq x ts tm :
  length (flush x ++ ts) < fuel ->
  exists fuel', length ts < fuel' /\
    eloop fuel skey n na seq (flush x ++ ts) tm =
    (let '(n', na') := onchar skey x n na in eloop fuel' skey n' na' seq ts tm).
Proof.
  intro Hf. destruct x as [|ch x].
  - exists fuel. split; [exact Hf|]. rewrite onchar_nil. reflexivity.
  - cbn [flush app length] in *. destruct fuel as [|f]; [lia|].
    exists f. split; [lia|]. apply el_char.
Qed.

(* ---------------- what a sequence of elements means to the parent loop ---------------- *)
Definition add_all (X : list (str * value)) (na : entries) : entries :=
  fold_left (fun na kv => add_child (fst kv) (snd kv) na) X na.
Lemma add_all_app X Y na : add_all (X ++ Y) na = add_all Y (add_all X na).
Proof. apply fold_left_app. Qed.

Definition decodes_to (E : list item) (X : list (str * value)) : Prop :=
  E <> [] /\
  forall ws, ws_ok o ws -> forall i acc R skey n na seq fuel tm,
    length (toks_acc acc (ins ws i E ++ R)) < fuel ->
    exists fuel', length (toks_acc [] R) < fuel' /\
      eloop fuel skey n na seq (toks_acc acc (ins ws i E ++ R)) tm =
      (let '(n1, na1) := onchar skey (acc ++ ws i) n na in
       eloop fuel' skey n1 (add_all X na1) seq (toks_acc [] R) tm).

(* one element with key K (transformed) and decoded value x *)
Definition sgl (E : list item) (K : str) (x : value) : Prop :=
  K <> [] /\ E <> [] /\
  forall ws, ws_ok o ws -> forall i R, exists nm at_ T,
    (forall acc, toks_acc acc (ins ws i E ++ R) = flush (acc ++ ws i) ++ TStart nm at_ :: T) /\
    xform_key o (xlocal nm) = K /\
    length (toks_acc [] R) < length T /\
    forall fuel tm, length T < fuel -> eloop fuel K None (aents at_) 0 T tm = Ok ((K, x), toks_acc [] R).

Lemma decodes_to_app E1 E2 X1 X2 :
  decodes_to E1 X1 -> decodes_to E2 X2 -> decodes_to (E1 ++ E2) (X1 ++ X2).
Proof.
  intros [Hn1 H1] [Hn2 H2]. split.
  - destruct E1; [congruence | discriminate].
  - intros ws Hws i acc R skey n na seq fuel tm Hf.
    rewrite ins_app, <- app_assoc in *.
    destruct (H1 ws Hws i acc (ins ws (i + length E1) E2 ++ R) skey n na seq fuel tm Hf) as [f1 [Hf1 Eq1]].
    rewrite Eq1. destruct (onchar skey (acc ++ ws i) n na) as [n1 na1].
    destruct (H2 ws Hws (i + length E1) [] R skey n1 (add_all X1 na1) seq f1 tm Hf1) as [f2 [Hf2 Eq2]].
    exists f2. split; [exact Hf2|]. rewrite Eq2. cbn [app].
    rewrite onchar_blank by (apply (ws_str_all_in o), Hws). rewrite add_all_app. reflexivity.
Qed.

Lemma sgl_decodes E K x : sgl E K x -> decodes_to E [(K, x)].
Proof.
  intros [HK [HE H]]. split; [exact HE|].
  intros ws Hws i acc R skey n na seq fuel tm Hf.
  destruct (H ws Hws i R) as [nm [at_ [T [Htok [Hnm [Hlen Hch]]]]]].
  rewrite Htok in *.
  destruct (el_flush fuel skey n na seq (acc ++ ws i) (TStart nm at_ :: T) tm Hf) as [f1 [Hf1 Eq1]].
  rewrite Eq1. destruct (onchar skey (acc ++ ws i) n na) as [n1 na1].
  cbn [length] in Hf1. destruct f1 as [|f1]; [lia|].
  assert (HT : length T < f1) by lia.
  rewrite (el_start f1 skey n1 na1 seq nm at_ T tm K x (toks_acc [] R) Hnm HK (Hch f1 tm HT)).
  exists f1. split; [lia|]. reflexivity.
Qed.

Lemma top_flush fuel x ts tm :
  top_loop pf nskip o c fuel (flush x ++ ts) tm = top_loop pf nskip o c fuel ts tm.
Proof. destruct x; reflexivity. Qed.

Lemma sgl_top E K x ws : sgl E K x -> ws_ok o ws ->
  xml_decode pf nskip o c (toks_of_items (insert_ws ws E)) TermEOF = Ok (VMap [(K, x)]).
Proof.
  intros [HK [HE H]] Hws. unfold toks_of_items, insert_ws.
  destruct (H ws Hws 0 [IText (ws (length E))]) as [nm [at_ [T [Htok [Hnm [Hlen Hch]]]]]].
  rewrite Htok. unfold xml_decode, xml_decode_rest.
  rewrite top_flush. cbn [top_loop]. rewrite Hnm. destruct K as [|k0 K']; [congruence|].
  rewrite Hxmpp. cbn [andb]. rewrite Hch; [reflexivity|].
  rewrite app_length. cbn [length]. lia.
Qed.

(* ---------------- single elements ---------------- *)
Lemma toks_acc_text acc r t : toks_acc acc (IText r :: t) = toks_acc (acc ++ unescape r) t.
Proof. reflexivity. Qed.

Lemma toks_tail_length R k : forall X acc, length (toks_acc [] R) < length (toks_acc acc (X ++ IClose k :: R)).
Proof.
  induction X as [|it X IH]; intro acc.
  - cbn [app toks_acc]. rewrite app_length. cbn [length]. lia.
  - destruct it as [n a|n|n a|raw]; cbn [app toks_acc].
    + rewrite app_length. cbn [length]. specialize (IH []). lia.
    + rewrite app_length. cbn [length]. specialize (IH []). lia.
    + rewrite app_length. cbn [length]. specialize (IH []). lia.
    + apply IH.
Qed.

Definition elem_val (K : str) (A : entries) (txt : str) (X : list (str * value)) : value :=
  let '(n1, na1) := onchar K txt None A in finish_elem o n1 (add_all X na1).

Lemma sgl_empty key attrs : key <> [] -> xform_key o key <> [] ->
  sgl (close_or_empty o key attrs) (xform_key o key) (elem_val (xform_key o key) (aents (map mkattr attrs)) [] []).
Proof.
  intros Hk HK. unfold elem_val. rewrite onchar_nil. cbn [add_all fold_left].
  unfold close_or_empty. split; [exact HK|]. split; [destruct (useGoXmlEmptyElemSyntax o); discriminate|].
  intros ws Hws i R. destruct (useGoXmlEmptyElemSyntax o).
  - exists (mkname key), (map mkattr attrs), (flush (ws (S i)) ++ TEnd (mkname key) :: toks_acc [] R).
    split; [|split; [reflexivity|split]].
    + intro acc. cbn [ins app toks_acc]. rewrite !(ws_str_unescape o) by apply Hws. reflexivity.
    + rewrite app_length. cbn [length]. lia.
    + intros fuel tm Hf.
      destruct (el_flush fuel (xform_key o key) None (aents (map mkattr attrs)) 0%Z (ws (S i)) _ tm Hf) as [f1 [Hf1 Eq1]].
      rewrite Eq1, onchar_blank by (apply (ws_str_all_in o), Hws).
      cbn [length] in Hf1. destruct f1 as [|f1]; [lia|]. apply el_end.
  - exists (mkname key), (map mkattr attrs), (TEnd (mkname key) :: toks_acc [] R).
    split; [|split; [reflexivity|split]].
    + intro acc. cbn [ins app toks_acc]. rewrite !(ws_str_unescape o) by apply Hws. reflexivity.
    + cbn [length]. lia.
    + intros fuel tm Hf. cbn [length] in Hf. destruct fuel as [|f1]; [lia|]. apply el_end.
Qed.

Definition txt_items (t : option str) : list item := match t with Some r => [IText r] | None => [] end.
Definition txt_read (t : option str) : str := match t with Some r => unescape r | None => [] end.

Lemma sgl_element key attrs t body X : xform_key o key <> [] ->
  (body = [] /\ X = []) \/ decodes_to body X ->
  sgl (IOpen key attrs :: txt_items t ++ body ++ [IClose key]) (xform_key o key)
      (elem_val (xform_key o key) (aents (map mkattr attrs)) (txt_read t) X).
Proof.
  intros HK Hbody. set (K := xform_key o key) in *. set (A := aents (map mkattr attrs)).
  split; [exact HK|]. split; [discriminate|].
  intros ws Hws i R.
  exists (mkname key), (map mkattr attrs),
         (toks_acc [] (ins ws (S i) (txt_items t ++ body ++ [IClose key]) ++ R)).
  split; [|split; [reflexivity|split]].
  - intro acc. cbn [ins app toks_acc]. rewrite (ws_str_unescape o) by apply Hws. reflexivity.
  - rewrite !ins_app. cbn [ins]. rewrite <- !app_assoc. cbn [app].
    match goal with |- _ < length (toks_acc [] (?a ++ ?b ++ IText ?w :: IClose key :: R)) =>
      replace (a ++ b ++ IText w :: IClose key :: R) with ((a ++ b ++ [IText w]) ++ IClose key :: R)
        by (rewrite <- !app_assoc; reflexivity) end.
    apply toks_tail_length.
  - intros fuel tm Hf. revert Hf. fold A.
    rewrite !ins_app. cbn [ins]. rewrite <- !app_assoc. cbn [app].
    set (i2 := S i + length (txt_items t)). set (j := i2 + length body).
    (* the accumulator after the optional text item *)
    assert (Hacc : exists w1, all_in (trimRunes o) w1 = true /\
              forall rest, toks_acc [] (ins ws (S i) (txt_items t) ++ rest) = toks_acc (w1 ++ txt_read t) rest).
    { destruct t as [r|]; cbn [txt_items txt_read ins app].
      - exists (ws (S i)). split; [apply (ws_str_all_in o), Hws|].
        intro rest. rewrite !toks_acc_text. rewrite (ws_str_unescape o) by apply Hws. reflexivity.
      - exists []. split; [reflexivity|]. intro rest. rewrite app_nil_r. reflexivity. }
    destruct Hacc as [w1 [Hw1 Hacc]]. rewrite Hacc.
    unfold elem_val.
    destruct Hbody as [[Hb HX]|Hdec].
    + subst body X. cbn [ins app toks_acc length] in *. intro Hf.
      rewrite (ws_str_unescape o) in * by apply Hws.
      destruct (el_flush fuel K None A 0%Z ((w1 ++ txt_read t) ++ ws j) _ tm Hf) as [f1 [Hf1 Eq1]].
      rewrite Eq1. rewrite <- app_assoc, onchar_ws by (try exact Hw1; apply (ws_str_all_in o), Hws).
      destruct (onchar K (txt_read t) None A) as [n1 na1].
      cbn [length] in Hf1. destruct f1 as [|f1]; [lia|]. apply el_end.
    + destruct Hdec as [_ Hdec]. intro Hf.
      destruct (Hdec ws Hws i2 (w1 ++ txt_read t) (IText (ws j) :: IClose key :: R) K None A 0%Z fuel tm Hf)
        as [f1 [Hf1 Eq1]].
      rewrite Eq1. rewrite <- app_assoc, onchar_ws by (try exact Hw1; apply (ws_str_all_in o), Hws).
      destruct (onchar K (txt_read t) None A) as [n1 na1].
      cbn [app toks_acc] in *. rewrite (ws_str_unescape o) in * by apply Hws.
      destruct (el_flush f1 K n1 (add_all X na1) 0%Z (ws j) _ tm Hf1) as [f2 [Hf2 Eq2]].
      rewrite Eq2, onchar_blank by (apply (ws_str_all_in o), Hws).
      cbn [length] in Hf2. destruct f2 as [|f2]; [lia|]. apply el_end.
Qed.

(* ---------------- the encoder, value by value ---------------- *)
Fixpoint attr_pairs (m : entries) : list (str * str) :=
  match m with
  | [] => []
  | (k, v) :: t =>
      if is_attr_key o k then
        match attr_text o v with
        | Some x => (skipn (lenAttrPrefix o) k, x) :: attr_pairs t
        | None => attr_pairs t
        end
      else attr_pairs t
  end.

Lemma attrs_of_ok m r : attrs_of o m = Ok r -> r = attr_pairs m.
Proof.
  revert r. induction m as [|[k v] t IH]; intro r; cbn [attrs_of attr_pairs].
  - intro H. inversion H. reflexivity.
  - destruct (is_attr_key o k); [|apply IH]. destruct (attr_text o v); [|discriminate].
    destruct (attrs_of o t) as [r'| |]; cbn [bind]; try discriminate.
    intro H. inversion H. f_equal. apply IH. reflexivity.
Qed.

Definition kid_pairs (kids : list (str * list value)) : list (str * value) :=
  flat_map (fun kx => map (pair (xform_key o (fst kx))) (snd kx)) kids.

Definition is_kid_t (k : str) : bool := negb (str_eqb k (textK o)) && negb (is_attr_key o k).
Definition is_kid_n (k : str) : bool := negb (is_attr_key o k).

Fixpoint imgsG (v : value) (key : str) {struct v} : list value :=
  let K := xform_key o key in
  match v with
  | VMap vv =>
      let kids := map (fun kv => (fst kv, imgsG (snd kv) (fst kv))) vv in
      let attrs := sort_by_key (attr_pairs vv) in
      let A := aents (map mkattr attrs) in
      let n := length attrs in
      [ if Nat.eqb n (length vv) then elem_val K A [] []
        else match lookup (textK o) vv with
             | Some tv =>
                 if Nat.eqb (S n) (length vv) then elem_val K A (unescape (text_text o tv)) []
                 else elem_val K A (unescape (text_text o tv))
                        (kid_pairs (sort_by_key (filter (fun kr => is_kid_t (fst kr)) kids)))
             | None => elem_val K A [] (kid_pairs (sort_by_key (filter (fun kr => is_kid_n (fst kr)) kids)))
             end ]
  | VList l => match l with [] => [elem_val K [] [] []] | _ => flat_map (fun x => imgsG x key) l end
  | VNil => [elem_val K [] [] []]
  | VStr x => [elem_val K [] (unescape (esc o x)) []]
  | _ => [elem_val K [] (unescape (fmt_v v)) []]
  end.

(* sorting and filtering by key commute with a key-preserving map *)
Lemma insert_by_key_map {A B} (g : str * A -> str * B) (Hg : forall x, fst (g x) = fst x) kv l :
  insert_by_key (g kv) (map g l) = map g (insert_by_key kv l).
Proof.
  induction l as [|h t IH]; cbn [map insert_by_key]; [reflexivity|].
  rewrite !Hg. destruct (str_leb (fst kv) (fst h)); cbn [map]; [reflexivity|]. rewrite IH. reflexivity.
Qed.
Lemma sort_by_key_map {A B} (g : str * A -> str * B) (Hg : forall x, fst (g x) = fst x) l :
  sort_by_key (map g l) = map g (sort_by_key l).
Proof.
  induction l as [|h t IH]; cbn [map sort_by_key fold_right]; [reflexivity|].
  unfold sort_by_key in IH. rewrite IH. apply insert_by_key_map, Hg.
Qed.
Lemma filter_map_key {A B} (p : str -> bool) (g : str * A -> str * B) (Hg : forall x, fst (g x) = fst x) l :
  filter (fun x => p (fst x)) (map g l) = map g (filter (fun x => p (fst x)) l).
Proof.
  induction l as [|h t IH]; cbn [map filter]; [reflexivity|].
  rewrite Hg. destruct (p (fst h)); cbn [map]; rewrite IH; reflexivity.
Qed.

Lemma concat_res_cons r t body : concat_res (r :: t) = Ok body ->
  exists a b, r = Ok a /\ concat_res t = Ok b /\ body = a ++ b.
Proof.
  cbn [concat_res]. destruct r as [a| |]; cbn [bind]; try discriminate.
  destruct (concat_res t) as [b| |]; cbn [bind]; try discriminate.
  intro H. inversion H. exists a, b. auto.
Qed.

Definition kid_ok (kv : str * value) : Prop :=
  fst kv <> [] /\
  forall E, enc o (snd kv) (fst kv) = Ok E ->
            decodes_to E (map (pair (xform_key o (fst kv))) (imgsG (snd kv) (fst kv))).

Lemma kids_decode sk : Forall kid_ok sk ->
  forall body, concat_res (map snd (map (fun kv => (fst kv, enc o (snd kv) (fst kv))) sk)) = Ok body ->
  (body = [] /\ kid_pairs (map (fun kv => (fst kv, imgsG (snd kv) (fst kv))) sk) = []) \/
  decodes_to body (kid_pairs (map (fun kv => (fst kv, imgsG (snd kv) (fst kv))) sk)).
Proof.
  induction 1 as [|kv t [Hk Hkv] _ IH]; intros body Hb.
  - left. cbn in Hb. inversion Hb. split; reflexivity.
  - right. cbn [map snd] in Hb. apply concat_res_cons in Hb. destruct Hb as [a [b [Ha [Hb ->]]]].
    cbn [map kid_pairs flat_map fst snd]. specialize (Hkv a Ha).
    destruct (IH b Hb) as [[-> Hnil]|Hdec].
    + unfold kid_pairs in Hnil. rewrite Hnil, !app_nil_r. exact Hkv.
    + apply decodes_to_app; assumption.
Qed.

Fixpoint kne (v : value) : bool :=
  match v with
  | VMap vv => forallb (fun kv => match fst kv with [] => false | _ => true end && kne (snd kv)) vv
  | VList l => forallb kne l
  | _ => true
  end.

Lemma xform_key_ne k : k <> [] -> xform_key o k <> [].
Proof.
  unfold xform_key, to_lower, replace_char. intro H.
  destruct k as [|ch k]; [congruence|]. destruct (lowerCase o), (snakeCaseKeys o); discriminate.
Qed.

Lemma aents_nil : aents (map mkattr []) = [].
Proof. reflexivity. Qed.

Lemma sgl_text key raw : key <> [] ->
  sgl [IOpen key []; IText raw; IClose key] (xform_key o key) (elem_val (xform_key o key) [] (unescape raw) []).
Proof.
  intro Hk. apply (sgl_element key [] (Some raw) [] []); [apply xform_key_ne, Hk|]. left. split; reflexivity.
Qed.
Lemma sgl_empty0 key : key <> [] ->
  sgl (close_or_empty o key []) (xform_key o key) (elem_val (xform_key o key) [] [] []).
Proof. intro Hk. apply (sgl_empty key [] Hk), xform_key_ne, Hk. Qed.

Definition enc_spec (v : value) : Prop :=
  forall key E, key <> [] -> kne v = true -> enc o v key = Ok E ->
    decodes_to E (map (pair (xform_key o key)) (imgsG v key)) /\
    (is_list v = false -> exists x, imgsG v key = [x] /\ sgl E (xform_key o key) x).

Lemma enc_spec_of_sgl v key E x :
  imgsG v key = [x] -> sgl E (xform_key o key) x ->
  decodes_to E (map (pair (xform_key o key)) (imgsG v key)) /\
  (is_list v = false -> exists x, imgsG v key = [x] /\ sgl E (xform_key o key) x).
Proof.
  intros Hi Hs. split.
  - rewrite Hi. apply sgl_decodes, Hs.
  - intros _. exists x. split; assumption.
Qed.

Lemma kid_ok_sub vv sk :
  Forall (fun kv => enc_spec (snd kv)) vv -> kne (VMap vv) = true ->
  (forall kv, In kv sk -> In kv vv) -> Forall kid_ok sk.
Proof.
  intros HF Hk Hsub. apply Forall_forall. intros [k v] Hin. specialize (Hsub _ Hin).
  rewrite Forall_forall in HF. specialize (HF _ Hsub).
  cbn [kne] in Hk. rewrite forallb_forall in Hk. specialize (Hk _ Hsub).
  cbn [fst snd] in *. apply andb_true_iff in Hk. destruct Hk as [Hne Hkv].
  assert (Hne' : k <> []) by (destruct k; [discriminate Hne | discriminate]).
  split; [exact Hne'|]. cbn [fst snd]. intros E HE. apply (HF k E Hne' Hkv HE).
Qed.

Lemma list_decode key l : Forall enc_spec l -> key <> [] -> l <> [] -> forallb kne l = true ->
  forall E, concat_res (map (fun v => enc o v key) l) = Ok E ->
  decodes_to E (map (pair (xform_key o key)) (flat_map (fun x => imgsG x key) l)).
Proof.
  intros HF Hk. induction HF as [|a l Ha HF IH]; intros Hne Hkn E HE; [congruence|].
  cbn [map] in HE. apply concat_res_cons in HE. destruct HE as [E1 [b [H1 [Hb ->]]]].
  cbn [forallb] in Hkn. apply andb_true_iff in Hkn. destruct Hkn as [Hka Hkl].
  cbn [flat_map]. rewrite map_app.
  destruct (Ha key E1 Hk Hka H1) as [Hd _].
  destruct l as [|a2 l].
  - cbn in Hb. inversion Hb. cbn [flat_map map]. rewrite !app_nil_r. exact Hd.
  - apply decodes_to_app; [exact Hd|]. apply IH; [discriminate | exact Hkl | exact Hb].
Qed.

Theorem enc_decodes : forall v, enc_spec v.
Proof.
  induction v using value_ind2; intros key E Hk Hkne He; cbn [enc] in He.
  - (* VStr *)
    apply (enc_spec_of_sgl (VStr x) key E _ eq_refl).
    destruct (esc o x) as [|ch e] eqn:Ee; inversion He; subst E.
    + apply sgl_empty0, Hk.
    + apply sgl_text, Hk.
  - assert (Hi : imgsG (VBool b) key = [elem_val (xform_key o key) [] (unescape (fmt_v (VBool b))) []]) by reflexivity.
    apply (enc_spec_of_sgl (VBool b) key E _ Hi). clear Hi.
    destruct (fmt_v (VBool b)) as [|ch e]; inversion He; subst E; [apply sgl_empty0, Hk | apply sgl_text, Hk].
  - apply (enc_spec_of_sgl VNil key E _ eq_refl). inversion He; subst E. apply sgl_empty0, Hk.
  - assert (Hi : imgsG (VInt z) key = [elem_val (xform_key o key) [] (unescape (fmt_v (VInt z))) []]) by reflexivity.
    apply (enc_spec_of_sgl (VInt z) key E _ Hi). clear Hi.
    destruct (fmt_v (VInt z)) as [|ch e]; inversion He; subst E; [apply sgl_empty0, Hk | apply sgl_text, Hk].
  - assert (Hi : imgsG (VI64 z) key = [elem_val (xform_key o key) [] (unescape (fmt_v (VI64 z))) []]) by reflexivity.
    apply (enc_spec_of_sgl (VI64 z) key E _ Hi). clear Hi.
    destruct (fmt_v (VI64 z)) as [|ch e]; inversion He; subst E; [apply sgl_empty0, Hk | apply sgl_text, Hk].
  - assert (Hi : imgsG (VU64 z) key = [elem_val (xform_key o key) [] (unescape (fmt_v (VU64 z))) []]) by reflexivity.
    apply (enc_spec_of_sgl (VU64 z) key E _ Hi). clear Hi.
    destruct (fmt_v (VU64 z)) as [|ch e]; inversion He; subst E; [apply sgl_empty0, Hk | apply sgl_text, Hk].
  - assert (Hi : imgsG (VFlt f) key = [elem_val (xform_key o key) [] (unescape (fmt_v (VFlt f))) []]) by reflexivity.
    apply (enc_spec_of_sgl (VFlt f) key E _ Hi). clear Hi.
    destruct (fmt_v (VFlt f)) as [|ch e]; inversion He; subst E; [apply sgl_empty0, Hk | apply sgl_text, Hk].
  - assert (Hi : imgsG (VJNum x) key = [elem_val (xform_key o key) [] (unescape (fmt_v (VJNum x))) []]) by reflexivity.
    apply (enc_spec_of_sgl (VJNum x) key E _ Hi). clear Hi.
    destruct (fmt_v (VJNum x)) as [|ch e]; inversion He; subst E; [apply sgl_empty0, Hk | apply sgl_text, Hk].
  - (* VMap *)
    rename m into vv.
    destruct (attrs_of o vv) as [attrs0| |] eqn:Ha; cbn [bind] in He; try discriminate.
    apply attrs_of_ok in Ha. subst attrs0.
    apply (enc_spec_of_sgl (VMap vv) key E _ eq_refl).
    set (attrs := sort_by_key (attr_pairs vv)) in *.
    destruct (Nat.eqb (length attrs) (length vv)) eqn:En.
    { inversion He; subst E. apply (sgl_empty key attrs Hk), xform_key_ne, Hk. }
    destruct (lookup (textK o) vv) as [tv|] eqn:Et.
    + destruct (Nat.eqb (S (length attrs)) (length vv)) eqn:En1.
      { inversion He; subst E.
        apply (sgl_element key attrs (Some (text_text o tv)) [] []); [apply xform_key_ne, Hk|].
        left. split; reflexivity. }
      change (fun kr : str * res (list item) => negb (str_eqb (fst kr) (textK o)) && negb (is_attr_key o (fst kr)))
        with (fun kr : str * res (list item) => is_kid_t (fst kr)) in He.
      rewrite (filter_map_key is_kid_t (fun kv : str * value => (fst kv, enc o (snd kv) (fst kv)))) in He by reflexivity.
      rewrite (sort_by_key_map (fun kv : str * value => (fst kv, enc o (snd kv) (fst kv)))) in He by reflexivity.
      rewrite (filter_map_key is_kid_t (fun kv : str * value => (fst kv, imgsG (snd kv) (fst kv)))) by reflexivity.
      rewrite (sort_by_key_map (fun kv : str * value => (fst kv, imgsG (snd kv) (fst kv)))) by reflexivity.
      set (sk := sort_by_key (filter (fun x : str * value => is_kid_t (fst x)) vv)) in *.
      destruct (concat_res _) as [body| |] eqn:Hc in He; cbn [bind] in He; try discriminate.
      inversion He; subst E.
      apply (sgl_element key attrs (Some (text_text o tv)) body); [apply xform_key_ne, Hk|].
      apply kids_decode; [|exact Hc].
      apply (kid_ok_sub vv sk H Hkne). intros kv Hin. unfold sk in Hin.
      apply sort_by_key_in, filter_In in Hin. apply Hin.
    + change (fun kr : str * res (list item) => negb (is_attr_key o (fst kr)))
        with (fun kr : str * res (list item) => is_kid_n (fst kr)) in He.
      rewrite (filter_map_key is_kid_n (fun kv : str * value => (fst kv, enc o (snd kv) (fst kv)))) in He by reflexivity.
      rewrite (sort_by_key_map (fun kv : str * value => (fst kv, enc o (snd kv) (fst kv)))) in He by reflexivity.
      rewrite (filter_map_key is_kid_n (fun kv : str * value => (fst kv, imgsG (snd kv) (fst kv)))) by reflexivity.
      rewrite (sort_by_key_map (fun kv : str * value => (fst kv, imgsG (snd kv) (fst kv)))) by reflexivity.
      set (sk := sort_by_key (filter (fun x : str * value => is_kid_n (fst x)) vv)) in *.
      destruct (concat_res _) as [body| |] eqn:Hc in He; cbn [bind] in He; try discriminate.
      inversion He; subst E.
      apply (sgl_element key attrs None body); [apply xform_key_ne, Hk|].
      apply kids_decode; [|exact Hc].
      apply (kid_ok_sub vv sk H Hkne). intros kv Hin. unfold sk in Hin.
      apply sort_by_key_in, filter_In in Hin. apply Hin.
  - (* VList *)
    destruct l as [|a l].
    + inversion He; subst E. split; [|discriminate].
      apply (sgl_decodes _ _ _ (sgl_empty0 key Hk)).
    + split; [|discriminate].
      apply (list_decode key (a :: l) H Hk); [discriminate | exact Hkne | exact He].
Qed.

End RT.
