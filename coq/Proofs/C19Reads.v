(* C19: the two models of json.go getJson agree.

   Model/Files.v `get_json` / `scan_json` runs over the unread bytes of the file with the scanner
   state as arguments (nat counter, jb reversed); Model/Reader.v `jstep` / `jmachine` is the loop body
   as a machine over ReadByte results (Z counter, jb in order), run by `drive` over a reader schedule
   or by `direct` over the bytes.  Both transcribe the same Go loop; here is the simulation. *)
From Mxj Require Import Spec.JsonFilesSpec Proofs.C13P.
Import ListNotations.

(* ------------------------------------------------------------------ bytes compared as characters / as numbers *)

Lemma ascii_eqb_N : forall c d, Ascii.eqb c d = (N_of_ascii c =? N_of_ascii d)%N.
Proof.
  intros c d. destruct (Ascii.eqb_spec c d) as [->|Hne].
  - symmetry. apply N.eqb_refl.
  - symmetry. apply N.eqb_neq. intro E. apply Hne.
    rewrite <- (ascii_N_embedding c), <- (ascii_N_embedding d), E. reflexivity.
Qed.

Lemma ws_cases : forall c,
  is_json_ws c = ((N_of_ascii c =? 10)%N || (N_of_ascii c =? 13)%N || (N_of_ascii c =? 9)%N || (N_of_ascii c =? 32)%N).
Proof. intro c. unfold is_json_ws. rewrite !ascii_eqb_N. reflexivity. Qed.

(* ------------------------------------------------------------------ one pass through the loop body *)

(* the Files.v scanner started in the state st of the Reader.v machine *)
Definition fscan (x : bytes) (st : jstate) : scan_res :=
  Files.get_json x (List.rev (jb st)) (inQuote st) (inJson st) (Z.to_nat (parenCnt st)) (escaped st).

Lemma Zof_eqb0 : forall n, (Z.of_nat n =? 0)%Z = Nat.eqb n 0.
Proof. intros [|n]; reflexivity. Qed.
Lemma Zof_ltb0 : forall n, (Z.of_nat n <? 0)%Z = false.
Proof. intro n. apply Z.ltb_ge. lia. Qed.
Lemma Zof_succ : forall n, (Z.of_nat n + 1)%Z = Z.of_nat (S n).
Proof. intro n. lia. Qed.
Lemma Zof_pred : forall n, (Z.of_nat (S n) - 1)%Z = Z.of_nat n.
Proof. intro n. lia. Qed.
Lemma Zof_pred0 : (Z.of_nat 0 - 1 <? 0)%Z = true.
Proof. reflexivity. Qed.

Lemma rev_snoc : forall (j : bytes) c, List.rev (j ++ [c]) = c :: List.rev j.
Proof. intros. apply rev_unit. Qed.

Lemma fscan_step : forall c x st, (0 <= parenCnt st)%Z ->
  match jstep st c with
  | inl st' => (0 <= parenCnt st')%Z /\ fscan (c :: x) st = fscan x st'
  | inr (JOk b) => fscan (c :: x) st = SDoc b x
  | inr (JErr b e) => e = EOther /\ fscan (c :: x) st = SStray b x
  end.
Proof.
  intros c x [q ij cnt e j0] Hc. cbn [parenCnt] in Hc.
  rewrite <- (Z2Nat.id cnt Hc). generalize (Z.to_nat cnt) as n. clear cnt Hc. intro n.
  unfold fscan, jstep, cbyte. cbn [inQuote inJson parenCnt escaped jb Files.get_json].
  rewrite Nat2Z.id, ws_cases, !ascii_eqb_N.
  change (N_of_ascii "{") with 123%N. change (N_of_ascii "}") with 125%N. change (N_of_ascii """") with 34%N.
  change (N_of_ascii bsl) with 92%N.
  destruct (N_of_ascii c =? 123)%N; [|destruct (N_of_ascii c =? 125)%N; [|destruct (N_of_ascii c =? 34)%N;
    [|destruct ((N_of_ascii c =? 10)%N || (N_of_ascii c =? 13)%N || (N_of_ascii c =? 9)%N || (N_of_ascii c =? 32)%N)]]];
  destruct q, ij, e; try (destruct n as [|n]);
  rewrite ?Zof_succ, ?Zof_pred, ?Zof_pred0, ?Zof_ltb0, ?Zof_eqb0;
  cbn [Nat.eqb andb negb inQuote inJson parenCnt escaped jb];
  try (destruct (Nat.eqb n 0));
  rewrite ?rev_snoc, ?Nat2Z.id, ?rev_involutive; cbn [List.rev];
  rewrite ?rev_involutive;
  repeat split; try apply Nat2Z.is_nonneg; try reflexivity.
  all: cbn [inQuote inJson parenCnt escaped jb]; rewrite ?rev_snoc, ?Nat2Z.id; reflexivity.
Qed.

(* ------------------------------------------------------------------ the whole run over the bytes *)

Lemma to_nat_pos : forall z, (0 <= z)%Z -> Nat.ltb 0 (Z.to_nat z) = (0 <? z)%Z.
Proof.
  intros z Hz. destruct (0 <? z)%Z eqn:E.
  - apply Z.ltb_lt in E. apply Nat.ltb_lt. lia.
  - apply Z.ltb_ge in E. apply Nat.ltb_ge. lia.
Qed.

(* the byte-string scanner and the machine run directly over the same bytes: same result, and the
   bytes the byte-string scanner leaves are the bytes the machine has not consumed *)
Lemma fscan_direct : forall x st, (0 <= parenCnt st)%Z ->
  fst (direct jmachine st x) = jres (fscan x st) /\
  skipn (snd (direct jmachine st x)) x = unread (fscan x st).
Proof.
  induction x as [|c x IH]; intros st Hc.
  - cbn [direct fst snd skipn]. unfold fscan. cbn [Files.get_json m_eof jmachine]. unfold jeof.
    rewrite (to_nat_pos _ Hc). destruct (inJson st && (0 <? parenCnt st)%Z); cbn [jres unread]; rewrite rev_involutive; auto.
  - cbn [direct]. change (m_step jmachine st c) with (jstep st c).
    pose proof (fscan_step c x st Hc) as Hs. destruct (jstep st c) as [st'|[b|b e]].
    + destruct Hs as [Hc' E]. rewrite E. specialize (IH st' Hc').
      destruct (direct jmachine st' x) as [r n]. cbn [fst snd skipn] in *. exact IH.
    + rewrite Hs. cbn. auto.
    + destruct Hs as [-> E]. rewrite E. cbn. auto.
Qed.

(* ------------------------------------------------------------------ goal 1: scan_json = getJson on the file's schedule *)

Lemma scan_json_fscan : forall b, scan_json b = fscan b jinit.
Proof. reflexivity. Qed.

Theorem scan_json_direct : forall b,
  fst (direct jmachine jinit b) = jres (scan_json b) /\
  skipn (snd (direct jmachine jinit b)) b = unread (scan_json b).
Proof. intro b. rewrite scan_json_fscan. apply fscan_direct. cbn. lia. Qed.

(* a machine driven by getJson's reading statements over an *os.File: what it does directly on the bytes *)
Lemma drive_file : forall {R} (M : machine R) x st fuel, length x < fuel ->
  drive M jr_read_byte fuel st (file_schedule x) =
  Some (fst (direct M st x), file_schedule (skipn (snd (direct M st x)) x)).
Proof.
  intros R M. induction x as [|c x IH]; intros st fuel Hf; (destruct fuel as [|f]; [cbn in Hf; lia|]).
  - reflexivity.
  - cbn [file_schedule map drive jr_read_byte direct]. destruct (m_step M st c) as [st'|r].
    + fold (file_schedule x). rewrite IH by (cbn in Hf; lia).
      destruct (direct M st' x) as [r n]. reflexivity.
    + reflexivity.
Qed.

Theorem scan_models_agree : forall b,
  Reader.get_json (file_schedule b) = Some (jres (scan_json b), file_schedule (unread (scan_json b))).
Proof.
  intro b. unfold Reader.get_json. rewrite drive_file by (unfold file_schedule; rewrite map_length; lia).
  destruct (scan_json_direct b) as [-> ->]. reflexivity.
Qed.

Theorem scan_models_agree_any_schedule : forall b sc, legal b sc ->
  exists sc', Reader.get_json sc = Some (jres (scan_json b), sc') /\ legal (unread (scan_json b)) sc'.
Proof.
  intros b sc Hl. destruct (get_json_ok b sc (legal_okfor_any _ _ Hl)) as (sc' & E & Hc').
  destruct (scan_json_direct b) as [E1 E2]. rewrite E1 in E. rewrite E2 in Hc'.
  exists sc'. split; [exact E|]. now apply (okfor_legal anysc).
Qed.

(* what the byte-string scanner leaves unread is a suffix of its input *)
Theorem scan_json_suffix : forall b, exists pre,
  b = pre ++ unread (scan_json b) /\ direct jmachine jinit b = (jres (scan_json b), length pre).
Proof.
  intro b. destruct (scan_json_direct b) as [E1 E2].
  pose proof (direct_le jmachine b jinit) as Hle.
  exists (firstn (snd (direct jmachine jinit b)) b). split.
  - rewrite <- E2. symmetry. apply firstn_skipn.
  - rewrite firstn_length_le by exact Hle. rewrite <- E1. now destruct (direct jmachine jinit b).
Qed.
