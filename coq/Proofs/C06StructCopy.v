(* C06: the round trip up to the order of map entries (veq / veqb), and Map.Copy = Json then NewMapJson. *)
From Mxj Require Import Spec.JsonRT Proofs.StrLemmas Proofs.JsonP Proofs.C06P Proofs.C06Struct Proofs.C16Veq.
From Mxj Require Model.Files Proofs.C19P.
Import ListNotations.

Lemma nums_mode_map_F : forall un m, nums_mode un (VMap m) = true -> Forall (fun kx => nums_mode un (snd kx) = true) m.
Proof.
  intros un. induction m as [|[k x] m IH]; intro H; [constructor|].
  change (nums_mode un x && nums_mode un (VMap m) = true) in H. apply andb_true_iff in H as [Hx Ht].
  constructor; [assumption|now apply IH].
Qed.
Lemma nums_mode_list_F : forall un l, nums_mode un (VList l) = true -> Forall (fun x => nums_mode un x = true) l.
Proof.
  intros un. induction l as [|x l IH]; intro H; [constructor|].
  change (nums_mode un x && nums_mode un (VList l) = true) in H. apply andb_true_iff in H as [Hx Ht].
  constructor; [assumption|now apply IH].
Qed.

(* the decoded value is the encoded one up to the order of map entries, when the numbers already have the decoder's type *)
Lemma jcanon_veq : forall un v, nums_mode un v = true -> veq (jcanon un v) v.
Proof.
  intros un. induction v as [x|b| |z|z|z|f|x|m IH|l IH] using value_ind2; intro H;
    try (apply veq_scalar; reflexivity).
  - cbn [nums_mode] in H. apply negb_true_iff in H. subst un. apply veq_scalar; reflexivity.
  - cbn [nums_mode] in H. subst un. apply veq_scalar; reflexivity.
  - rewrite jcanon_vmap. apply veq_map with (p := jsort m); [|apply jsort_perm].
    assert (F : Forall (fun kx => veq (jcanon un (snd kx)) (snd kx)) (jsort m)).
    { apply jsort_Forall. pose proof (nums_mode_map_F _ _ H) as F1. rewrite Forall_forall in IH, F1.
      apply Forall_forall. intros kx Hin. apply IH; [assumption|now apply F1]. }
    induction F as [|kx t Hkx _ IHt]; constructor; [split; [reflexivity|exact Hkx]|exact IHt].
  - rewrite jcanon_vlist. apply veq_list. pose proof (nums_mode_list_F _ _ H) as F1.
    clear H. induction IH as [|x l Hx _ IHl]; [constructor|].
    inversion F1 as [|? ? A F1']; subst. constructor; [now apply Hx|now apply IHl].
Qed.

Theorem json_roundtrip_veq : forall safe usenum v,
  json_shaped utf8_valid v = true -> nums_start v = true -> nums_mode usenum v = true -> wfb v = true ->
  exists v', decode_segs usenum (segments safe v) = Some v' /\ veq v' v /\ veqb v' v = true /\ wfb v' = true.
Proof.
  intros safe un v Hs Hn Hm Hw. exists (jcanon un v).
  pose proof (jcanon_veq un v Hm) as E.
  assert (W : wf (jcanon un v)) by (apply (veq_wf v); [exact Hw|now apply veq_sym]).
  repeat split; [now apply json_roundtrip|exact E|now apply veqb_complete|exact W].
Qed.

(* ------------------------------------------------------------------ NewMapJson(Map.Json()) and Map.Copy *)

Lemma map_json_vmap_ne : forall safe m, map_json safe (VMap m) <> [].
Proof. intros safe m. unfold map_json, marshal. rewrite segments_vmap. discriminate. Qed.

(* decv: encoding/json's Decoder on the text; it is assumed to agree with the segment-layer model on the text Json wrote *)
Theorem newmapjson_json_roundtrip : forall safe usenum (decv : str -> res value) m,
  decv (map_json safe (VMap m)) = opt_res (decode_segs usenum (segments safe (VMap m))) ->
  json_shaped utf8_valid (VMap m) = true -> nums_start (VMap m) = true -> wfb (VMap m) = true ->
  new_map_json decv (map_json safe (VMap m)) = Ok (jcanon usenum (VMap m)).
Proof.
  intros safe un decv m Hd Hs Hn Hw. unfold new_map_json.
  destruct (map_json safe (VMap m)) as [|c t] eqn:E; [exfalso; exact (map_json_vmap_ne _ _ E)|].
  rewrite Hd, (json_roundtrip safe un _ Hs Hn Hw). rewrite jcanon_vmap. reflexivity.
Qed.

(* Model/Files.v map_copy (mxj.go Copy: Json() = Encoder output minus the newline, then NewMapJson), with the Encoder
   and Decoder of encoding/json instantiated by the models of Model/Json.v *)
Theorem copy_roundtrip : forall usenum (encode : bool -> value -> option str) (json_dec : str -> res value) m,
  encode false (VMap m) = Some (map_json false (VMap m) ++ [Files.nl_byte]) ->
  json_dec (map_json false (VMap m)) = opt_res (decode_segs usenum (segments false (VMap m))) ->
  json_shaped utf8_valid (VMap m) = true -> nums_start (VMap m) = true -> wfb (VMap m) = true ->
  Files.map_copy encode json_dec (VMap m) = Ok (jcanon usenum (VMap m)).
Proof.
  intros un encode json_dec m He Hd Hs Hn Hw.
  unfold Files.map_copy, Files.map_json, Files.marshal_json. rewrite He, C19P.trim_nl_app.
  unfold Files.new_map_json.
  destruct (map_json false (VMap m)) as [|c t] eqn:E; [exfalso; exact (map_json_vmap_ne _ _ E)|].
  rewrite Hd, (json_roundtrip false un _ Hs Hn Hw). rewrite jcanon_vmap. reflexivity.
Qed.

Theorem copy_roundtrip_veq : forall usenum (encode : bool -> value -> option str) (json_dec : str -> res value) m,
  encode false (VMap m) = Some (map_json false (VMap m) ++ [Files.nl_byte]) ->
  json_dec (map_json false (VMap m)) = opt_res (decode_segs usenum (segments false (VMap m))) ->
  json_shaped utf8_valid (VMap m) = true -> nums_start (VMap m) = true -> nums_mode usenum (VMap m) = true ->
  wfb (VMap m) = true ->
  exists w, Files.map_copy encode json_dec (VMap m) = Ok w /\ veq w (VMap m) /\ veqb w (VMap m) = true.
Proof.
  intros un encode json_dec m He Hd Hs Hn Hm Hw. exists (jcanon un (VMap m)).
  pose proof (jcanon_veq un _ Hm) as E.
  assert (W : wf (jcanon un (VMap m))) by (apply (veq_wf (VMap m)); [exact Hw|now apply veq_sym]).
  repeat split; [now apply copy_roundtrip|exact E|now apply veqb_complete].
Qed.

(* the side conditions of json_roundtrip are needed *)
Lemma roundtrip_side_conditions_needed :
  (exists v, json_shaped utf8_valid v = true /\ wfb v = true /\ nums_start v = false /\
             decode_segs false (segments false v) = None) /\
  (exists v, json_shaped utf8_valid v = true /\ nums_start v = true /\ wfb v = false /\
             decode_segs false (segments false v) = Some (VMap [(s "a", VBool true)]) /\
             veqb (VMap [(s "a", VBool true)]) v = false).
Proof.
  split.
  - exists (VMap [(s "a", VFlt (s "+1"))]). repeat split; vm_compute; reflexivity.
  - exists (VMap [(s "a", VNil); (s "a", VBool true)]). repeat split; vm_compute; reflexivity.
Qed.
