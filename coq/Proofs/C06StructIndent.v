(* C06: JsonIndent round-trips as Json does - without the whitespace json.Indent adds, the segments are those of Json. *)
From Mxj Require Import Spec.JsonRT Proofs.StrLemmas Proofs.JsonP Proofs.C06P Proofs.C06Struct.
Import ListNotations.

Lemma nl_indent_ws : forall p i d, ws_str p = true -> ws_str i = true -> not_ws (nl_indent p i d) = false.
Proof.
  intros p i d Hp Hi. unfold not_ws, nl_indent. cbn [is_ws_seg forallb]. rewrite forallb_app.
  change (is_ws_char (ascii_of_N 10)) with true. unfold ws_str in Hp. rewrite Hp. cbn [andb negb].
  assert (E : forallb is_ws_char (concat (repeat i d)) = true); [|now rewrite E].
  induction d as [|d IH]; [reflexivity|]. cbn [repeat concat]. rewrite forallb_app. unfold ws_str in Hi. now rewrite Hi, IH.
Qed.

Lemma filter_app' {A} (p : A -> bool) : forall a b, filter p (a ++ b) = filter p a ++ filter p b.
Proof. induction a as [|x a IH]; intro b; [reflexivity|]. cbn [app filter]. destruct (p x); cbn [app]; now rewrite IH. Qed.

Lemma filter_sep_by_nl : forall (p : seg -> bool) sep w l, p sep = true -> p w = false ->
  filter p (sep_by_nl [sep; w] l) = sep_by sep (map (filter p) l).
Proof.
  intros p sep w l Hs Hw. induction l as [|x l IH]; [reflexivity|]. destruct l as [|y l]; [reflexivity|].
  change (sep_by_nl [sep; w] (x :: y :: l)) with (x ++ [sep; w] ++ sep_by_nl [sep; w] (y :: l)).
  rewrite !filter_app', IH. cbn [filter]. rewrite Hs, Hw. reflexivity.
Qed.

Definition eseg_ind (eh : bool) (p i : str) (d : nat) (kx : str * value) : list seg :=
  SQ (quote_body eh (fst kx)) :: sp1 ":" :: sp1 " " :: segments_ind eh p i d (snd kx).

Lemma kids_ind_map : forall eh p i d m,
  (fix go (m : entries) : list (str * list seg) :=
     match m with [] => [] | (k, x) :: t => (k, segments_ind eh p i d x) :: go t end) m
  = map (fun kx => (fst kx, segments_ind eh p i d (snd kx))) m.
Proof. intros eh p i d. induction m as [|[k x] m IH]; [reflexivity|]. cbn [map fst snd]. rewrite <- IH. reflexivity. Qed.
Lemma elems_ind_map : forall eh p i d l,
  (fix go (l : list value) : list (list seg) :=
     match l with [] => [] | x :: t => segments_ind eh p i d x :: go t end) l = map (segments_ind eh p i d) l.
Proof. intros eh p i d. induction l as [|x l IH]; [reflexivity|]. cbn [map]. rewrite <- IH. reflexivity. Qed.

Lemma segments_ind_vmap : forall eh p i d kx m,
  segments_ind eh p i d (VMap (kx :: m)) =
  sp1 "{" :: nl_indent p i (S d) ::
  sep_by_nl [sp1 ","; nl_indent p i (S d)] (map (eseg_ind eh p i (S d)) (jsort (kx :: m)))
  ++ [nl_indent p i d; sp1 "}"].
Proof.
  intros eh p i d [k x] m. cbn [segments_ind]. rewrite kids_ind_map.
  change ((k, segments_ind eh p i (S d) x) :: map (fun kx => (fst kx, segments_ind eh p i (S d) (snd kx))) m)
    with (map (fun kx => (fst kx, segments_ind eh p i (S d) (snd kx))) ((k, x) :: m)).
  rewrite (jsort_map_snd (segments_ind eh p i (S d))), map_map. reflexivity.
Qed.
Lemma segments_ind_vlist : forall eh p i d x l,
  segments_ind eh p i d (VList (x :: l)) =
  sp1 "[" :: nl_indent p i (S d) ::
  sep_by_nl [sp1 ","; nl_indent p i (S d)] (map (segments_ind eh p i (S d)) (x :: l))
  ++ [nl_indent p i d; sp1 "]"].
Proof. intros eh p i d x l. cbn [segments_ind]. rewrite elems_ind_map. reflexivity. Qed.

(* dropping the whitespace-only segments of JsonIndent's output leaves the segments of Json's output *)
Lemma filter_segments_ind : forall P eh p i, ws_str p = true -> ws_str i = true ->
  forall v, json_shaped P v = true -> nums_start v = true ->
  forall d, filter not_ws (segments_ind eh p i d v) = segments eh v.
Proof.
  intros P eh p i Hp Hi. induction v as [x|b| |z|z|z|f|x|m IH|l IH] using value_ind2; intros Hs Hn d;
    try discriminate Hs;
    try (cbn [segments_ind]; apply filter_all; apply (segments_not_ws P); assumption).
  - destruct m as [|kx m]; [reflexivity|].
    rewrite segments_ind_vmap, segments_vmap'. cbn [filter]. change (not_ws (sp1 "{")) with true. cbn iota.
    rewrite (nl_indent_ws p i (S d) Hp Hi). rewrite filter_app'. cbn [filter].
    rewrite (nl_indent_ws p i d Hp Hi). change (not_ws (sp1 "}")) with true. cbn iota.
    rewrite filter_sep_by_nl; [|reflexivity|now apply nl_indent_ws]. rewrite map_map. do 3 f_equal.
    apply map_ext_in. intros e Hin. unfold eseg_ind, eseg. cbn [filter].
    change (not_ws (SQ (quote_body eh (fst e)))) with true. change (not_ws (sp1 ":")) with true.
    change (not_ws (sp1 " ")) with false. cbn iota. do 2 f_equal.
    assert (Hin' : In e (kx :: m)) by (eapply Permutation_in; [apply jsort_perm|exact Hin]).
    pose proof (json_shaped_map_F _ _ Hs) as F1. pose proof (nums_start_map_F _ Hn) as F2.
    rewrite Forall_forall in IH, F1, F2. apply IH; [assumption|apply F1; assumption|apply F2; assumption].
  - destruct l as [|x l]; [reflexivity|].
    rewrite segments_ind_vlist, segments_vlist. cbn [filter]. change (not_ws (sp1 "[")) with true. cbn iota.
    rewrite (nl_indent_ws p i (S d) Hp Hi). rewrite filter_app'. cbn [filter].
    rewrite (nl_indent_ws p i d Hp Hi). change (not_ws (sp1 "]")) with true. cbn iota.
    rewrite filter_sep_by_nl; [|reflexivity|now apply nl_indent_ws]. rewrite map_map. do 3 f_equal.
    apply map_ext_in. intros e Hin.
    pose proof (json_shaped_list_F _ _ Hs) as F1. pose proof (nums_start_list_F _ Hn) as F2.
    rewrite Forall_forall in IH, F1, F2. apply IH; [assumption|apply F1; assumption|apply F2; assumption].
Qed.

(* the decoder sees a text only through its non-whitespace segments *)
Lemma decode_segs_filter : forall un l1 l2, filter not_ws l1 = filter not_ws l2 -> decode_segs un l1 = decode_segs un l2.
Proof. intros un l1 l2 H. unfold decode_segs. change (fun g : seg => negb (is_ws_seg g)) with not_ws. now rewrite H. Qed.

Theorem json_indent_roundtrip : forall prefix indent safe usenum v,
  ws_str prefix = true -> ws_str indent = true ->
  json_shaped utf8_valid v = true -> nums_start v = true -> wfb v = true ->
  decode_segs usenum (segments_ind safe prefix indent 0 v) = Some (jcanon usenum v).
Proof.
  intros p i safe un v Hp Hi Hs Hn Hw. rewrite <- (json_roundtrip safe un v Hs Hn Hw).
  apply decode_segs_filter. rewrite (filter_segments_ind utf8_valid safe p i Hp Hi v Hs Hn 0).
  symmetry. apply filter_all. now apply (segments_not_ws utf8_valid).
Qed.

(* json.Indent copies prefix and indent into the text as they are: with a non-whitespace prefix the output of
   JsonIndent is no JSON (encoding/json documents this for Indent; mxj passes the arguments through) *)
Lemma json_indent_nonws_prefix_refuted : exists prefix indent v,
  json_shaped utf8_valid v = true /\ nums_start v = true /\ wfb v = true /\
  decode_segs false (segments_ind false prefix indent 0 v) = None.
Proof. exists (s "x"), (s " "), (VMap [(s "a", VNil)]). repeat split; vm_compute; reflexivity. Qed.
