(* C16, MapSeq part: the MapSeq encoder model (Model/SeqEnc.v) is invariant under every reordering of
   every entry list (= every hash-iteration order), provided the members it sorts by sequence number
   carry pairwise distinct numbers (Spec/SeqDistinct.v).  Without that condition it is not. *)
From Coq Require Import Permutation Sorting.Sorted.
From Mxj Require Import Spec.SeqDistinct Spec.Veq Proofs.StrLemmas Proofs.C04Sort Proofs.C04Map
     Proofs.C16P Proofs.C16Veq.

(* ---------------- sorting by pairwise distinct numbers forgets the presentation order ---------------- *)
Section SortInv.
Context {A : Type}.
Variable key : A -> Z.

Lemma kle_nodup_klt l : StronglySorted (kle key) l -> NoDup (map key l) -> StronglySorted (klt key) l.
Proof.
  induction 1 as [|a t Ht IH Ha]; intros Hnd; [constructor|].
  cbn [map] in Hnd. inversion Hnd as [|? ? Hnin Hnd']; subst.
  constructor; [apply IH; exact Hnd'|].
  rewrite Forall_forall in Ha. apply Forall_forall. intros y Hy. specialize (Ha y Hy).
  unfold kle, klt in *.
  assert (Hne : key a <> key y) by (intro E; apply Hnin; rewrite E; apply in_map; exact Hy).
  lia.
Qed.

Lemma isort_nodup l : NoDup (map key l) -> NoDup (map key (isort key l)).
Proof.
  intros Hnd. eapply Permutation_NoDup; [|exact Hnd].
  apply Permutation_map. symmetry. apply isort_perm.
Qed.

Theorem isort_perm_nodup l l' : Permutation l l' -> NoDup (map key l) -> isort key l = isort key l'.
Proof.
  intros P Hnd. symmetry. apply (sorted_perm_eq key).
  - apply isort_sorted.
  - apply kle_nodup_klt; [apply isort_sorted | apply isort_nodup; exact Hnd].
  - eapply Permutation_trans; [apply isort_perm|].
    eapply Permutation_trans; [symmetry; exact P|]. symmetry. apply isort_perm.
Qed.
End SortInv.

Lemma ins_desc_map {A B} (ka : A -> Z) (kb : B -> Z) (g : A -> B) :
  (forall x, kb (g x) = ka x) ->
  forall x racc, map g (ins_desc ka x racc) = ins_desc kb (g x) (map g racc).
Proof.
  intros Hk x racc. induction racc as [|y t IH]; cbn [ins_desc map]; [reflexivity|].
  rewrite !Hk. destruct (ka x <=? ka y)%Z; cbn [map]; [rewrite IH|]; reflexivity.
Qed.

Lemma isort_map {A B} (ka : A -> Z) (kb : B -> Z) (g : A -> B) :
  (forall x, kb (g x) = ka x) -> forall l, map g (isort ka l) = isort kb (map g l).
Proof.
  intros Hk l. unfold isort. rewrite map_rev. f_equal.
  change (@nil B) with (map g []). generalize (@nil A) as acc.
  induction l as [|x t IH]; intros acc; cbn [fold_left map]; [reflexivity|].
  rewrite IH. rewrite (ins_desc_map ka kb g Hk). reflexivity.
Qed.

(* two lists whose (number, payload) views are permutations of each other, the numbers pairwise
   distinct: after sorting, the payloads come in the same order *)
Theorem sort_payload_inv {A B C} (ka : A -> Z) (kb : B -> Z) (f : A -> C) (g : B -> C) l l' :
  Permutation (map (fun x => (ka x, f x)) l) (map (fun y => (kb y, g y)) l') ->
  NoDup (map ka l) ->
  map f (isort ka l) = map g (isort kb l').
Proof.
  intros P Hnd.
  assert (E1 : map f (isort ka l) = map snd (isort fst (map (fun x => (ka x, f x)) l))).
  { rewrite <- (isort_map ka fst (fun x => (ka x, f x)) (fun _ => eq_refl)). rewrite map_map. reflexivity. }
  assert (E2 : map g (isort kb l') = map snd (isort fst (map (fun y => (kb y, g y)) l'))).
  { rewrite <- (isort_map kb fst (fun y => (kb y, g y)) (fun _ => eq_refl)). rewrite map_map. reflexivity. }
  rewrite E1, E2. f_equal. apply isort_perm_nodup; [exact P|].
  rewrite map_map. exact Hnd.
Qed.

Lemma nodupZ_NoDup l : nodupZ l = true -> NoDup l.
Proof.
  induction l as [|x t IH]; cbn [nodupZ]; intros H; [constructor|].
  apply andb_prop in H. destruct H as [H1 H2]. constructor; [|apply IH; exact H2].
  intro Hin. apply Bool.negb_true_iff in H1.
  assert (Hx : existsb (Z.eqb x) t = true); [|congruence].
  apply existsb_exists. exists x. split; [exact Hin | apply Z.eqb_refl].
Qed.

Lemma NoDup_nodupZ l : NoDup l -> nodupZ l = true.
Proof.
  induction 1 as [|x t Hnin _ IH]; [reflexivity|]. cbn [nodupZ]. rewrite IH, Bool.andb_true_r.
  apply Bool.negb_true_iff. destruct (existsb (Z.eqb x) t) eqn:E; [|reflexivity].
  exfalso. apply existsb_exists in E. destruct E as [y [Hy E]]. apply Z.eqb_eq in E. subst y. exact (Hnin Hy).
Qed.

(* ---------------- veq, entry by entry ---------------- *)
Definition vsim (a b : option value) : Prop :=
  match a, b with Some x, Some y => veq x y | None, None => True | _, _ => False end.

Lemma veq_lookup K m m' : wf (VMap m) -> veq (VMap m) (VMap m') -> vsim (lookup K m) (lookup K m').
Proof.
  intros Hwf Hveq. inversion Hveq as [v Hs|m0 p m1 Hf Hp|]; subst; [discriminate Hs|].
  destruct (wf_map_inv _ Hwf) as [Hnd _].
  assert (Hndp : NoDup (map fst p)) by (rewrite <- (forall2_keys _ _ _ Hf); exact Hnd).
  rewrite <- (lookup_perm K p m' Hndp Hp). exact (forall2_lookup veq K m p Hf).
Qed.

Lemma wf_lookup K m v : wf (VMap m) -> lookup K m = Some v -> wf v.
Proof.
  intros Hwf Hl. destruct (wf_map_inv _ Hwf) as [_ Hall].
  rewrite Forall_forall in Hall. exact (Hall (K, v) (lookup_in K v m Hl)).
Qed.

Lemma veq_cases a b :
  veq a b ->
  (is_scalar a = true /\ a = b) \/
  (exists m m', a = VMap m /\ b = VMap m') \/
  (exists l l', a = VList l /\ b = VList l' /\ Forall2 veq l l').
Proof.
  intro H. inversion H as [v Hs|m p m' Hf Hp|l l' Hf]; subst.
  - left. split; [exact Hs | reflexivity].
  - right. left. exists m, m'. split; reflexivity.
  - right. right. exists l, l'. repeat split. exact Hf.
Qed.

Lemma veq_has_key K m m' : wf (VMap m) -> veq (VMap m) (VMap m') -> has_key K m = has_key K m'.
Proof.
  intros Hwf Hveq. pose proof (veq_lookup K m m' Hwf Hveq) as H. unfold has_key, vsim in *.
  destruct (lookup K m), (lookup K m'); try contradiction; reflexivity.
Qed.

Section Seq.
Variable o : opts.

(* ---------------- the map case of senc as a function of what it reads from the map ---------------- *)
Definition lead_of (tx : option value) : list sitem :=
  match tx with
  | None | Some VNil => []
  | Some (VStr x) => [SI (IText (esc o x))]
  | Some v => [SI (IText (fmt_v v))]
  end.

Definition smap (key : str) (bodies : list (res (list sitem))) (sat : res (bool * list (str * str)))
           (tx tg ins : option value) (n : nat) (seqOK : bool) : res (list sitem) :=
  if str_eqb key (commentK o) then
    match tx with Some (VStr x) => Ok [SComment x] | _ => Panic end
  else if str_eqb key (directiveK o) then
    match tx with Some (VStr x) => Ok [SDirective x] | _ => Panic end
  else if str_eqb key (procinstK o) then
    match tg with
    | Some (VStr t) => match ins with Some (VStr i) => Ok [SProcInst t i] | _ => Panic end
    | _ => Panic
    end
  else
    bind sat (fun ha =>
      let general :=
        bind (sconcat bodies) (fun body =>
          Ok (SI (IOpen key (snd ha)) :: lead_of tx ++ body ++ [SI (IClose key)])) in
      match tx with
      | Some v =>
          if Nat.eqb n (if fst ha then 3 else 2) && seqOK then
            match v with
            | VStr (c :: x) => Ok [SI (IOpen key (snd ha)); SI (IText (esc o (c :: x))); SI (IClose key)]
            | _ => Ok (empty_or_broken o key (snd ha))
            end
          else general
      | None =>
          if Nat.eqb n (if fst ha then 2 else 1) && seqOK then Ok (empty_or_broken o key (snd ha))
          else general
      end).

Definition tnum (t : str * value * res (list sitem)) : Z := seq_num o (snd (fst t)).

Lemma senc_VMap val key :
  senc o (VMap val) key =
  smap key (map snd (isort tnum (kid_triples o val))) (sattrs o val)
       (lookup (textK o) val) (lookup (targetK o) val) (lookup (instK o) val)
       (length val) (has_key (seqK o) val).
Proof. reflexivity. Qed.

(* consumers of a looked-up value treat all containers alike, and scalars are related to themselves only *)
Lemma vsim_cases a b :
  vsim a b ->
  a = b \/ (exists x y, a = Some x /\ b = Some y /\ is_scalar x = false /\ is_scalar y = false).
Proof.
  destruct a as [x|], b as [y|]; cbn [vsim]; try contradiction; [|left; reflexivity].
  intro H. destruct (veq_cases _ _ H) as [[_ ->]|[(m & m' & -> & ->)|(l & l' & -> & -> & _)]];
    [left; reflexivity| |]; right; eexists _, _; repeat split.
Qed.

Lemma smap_sim_tx key bodies sat tx tx' tg ins n b :
  vsim tx tx' -> smap key bodies sat tx tg ins n b = smap key bodies sat tx' tg ins n b.
Proof.
  intro H. destruct (vsim_cases _ _ H) as [->|(x & y & -> & -> & Hx & Hy)]; [reflexivity|].
  destruct x; try discriminate Hx; destruct y; try discriminate Hy; reflexivity.
Qed.

Lemma smap_sim_tg key bodies sat tx tg tg' ins n b :
  vsim tg tg' -> smap key bodies sat tx tg ins n b = smap key bodies sat tx tg' ins n b.
Proof.
  intro H. destruct (vsim_cases _ _ H) as [->|(x & y & -> & -> & Hx & Hy)]; [reflexivity|].
  destruct x; try discriminate Hx; destruct y; try discriminate Hy; reflexivity.
Qed.

Lemma smap_sim_ins key bodies sat tx tg ins ins' n b :
  vsim ins ins' -> smap key bodies sat tx tg ins n b = smap key bodies sat tx tg ins' n b.
Proof.
  intro H. destruct (vsim_cases _ _ H) as [->|(x & y & -> & -> & Hx & Hy)]; [reflexivity|].
  unfold smap. destruct (str_eqb key (commentK o)); [reflexivity|].
  destruct (str_eqb key (directiveK o)); [reflexivity|].
  destruct (str_eqb key (procinstK o)); [|reflexivity].
  destruct x; try discriminate Hx; destruct y; try discriminate Hy; reflexivity.
Qed.

(* under the three special keys neither the sub-elements nor the attributes are looked at *)
Lemma smap_special key bodies bodies' sat sat' tx tg ins n b :
  is_special_key o key = true ->
  smap key bodies sat tx tg ins n b = smap key bodies' sat' tx tg ins n b.
Proof.
  unfold is_special_key, smap. intro H.
  destruct (str_eqb key (commentK o)); [reflexivity|].
  destruct (str_eqb key (directiveK o)); [reflexivity|].
  destruct (str_eqb key (procinstK o)); [reflexivity|discriminate H].
Qed.

(* ---------------- sequence numbers ---------------- *)
Lemma seq_num_veq v v' : wf v -> veq v v' -> seq_num o v = seq_num o v'.
Proof.
  intros Hwf Hveq.
  destruct (veq_cases _ _ Hveq) as [[_ ->]|[(m & m' & -> & ->)|(l & l' & -> & -> & _)]]; try reflexivity.
  pose proof (veq_lookup (seqK o) m m' Hwf Hveq) as H. cbn [seq_num].
  destruct (vsim_cases _ _ H) as [->|(x & y & -> & -> & Hx & Hy)]; [reflexivity|].
  destruct x; try discriminate Hx; destruct y; try discriminate Hy; reflexivity.
Qed.

Lemma forall2_map_eq {A B C} (R : A -> B -> Prop) (F : A -> C) (G : B -> C) l l' :
  Forall2 R l l' -> (forall a b, In a l -> R a b -> F a = G b) -> map F l = map G l'.
Proof.
  induction 1 as [|a b l l' Hab _ IH]; intros H; [reflexivity|]. cbn [map]. f_equal.
  - apply H; [left; reflexivity | exact Hab].
  - apply IH. intros a0 b0 Hin. apply H. right. exact Hin.
Qed.

Lemma map_flat_map {A B C} (g : B -> C) (f : A -> list B) l :
  map g (flat_map f l) = flat_map (fun x => map g (f x)) l.
Proof. induction l as [|x t IH]; [reflexivity|]. cbn [flat_map]. rewrite map_app, IH. reflexivity. Qed.

(* ---------------- the attributes ---------------- *)
Definition aview (kv : str * value) : str * option (option str) :=
  (fst kv, match snd kv with VMap vv => Some (sattr_text o (lookup (textK o) vv)) | _ => None end).

Fixpoint aloop (l : list (str * option (option str))) : res (list (str * str)) :=
  match l with
  | [] => Ok []
  | (k, Some (Some x)) :: t => bind (aloop t) (fun r => Ok ((k, x) :: r))
  | (k, Some None) :: t => Err EOther
  | (k, None) :: t => Panic
  end.

Lemma sattrs_loop_aview kv : sattrs_loop o kv = aloop (map aview kv).
Proof.
  induction kv as [|[k v] t IH]; [reflexivity|]. cbn [sattrs_loop map]. unfold aview at 1. cbn [fst snd].
  destruct v; try reflexivity. destruct (sattr_text o (lookup (textK o) m)); [rewrite IH|]; reflexivity.
Qed.

Lemma sattr_text_sim a b : vsim a b -> sattr_text o a = sattr_text o b.
Proof.
  intro H. destruct (vsim_cases _ _ H) as [->|(x & y & -> & -> & Hx & Hy)]; [reflexivity|].
  destruct x; try discriminate Hx; destruct y; try discriminate Hy; reflexivity.
Qed.

Definition anum (kv : str * value) : Z := seq_num o (snd kv).

Lemma aview_veq kv kv' :
  wf (snd kv) -> entry_rel veq kv kv' -> (anum kv, aview kv) = (anum kv', aview kv').
Proof.
  destruct kv as [k a], kv' as [k' b]. unfold entry_rel, anum, aview. cbn [fst snd]. intros Hwf [<- Hv].
  rewrite (seq_num_veq a b Hwf Hv). f_equal. f_equal.
  destruct (veq_cases _ _ Hv) as [[_ ->]|[(m & m' & -> & ->)|(l & l' & -> & -> & _)]]; try reflexivity.
  f_equal. apply sattr_text_sim. apply veq_lookup; assumption.
Qed.

Lemma sattrs_inv m m' :
  wf (VMap m) -> veq (VMap m) (VMap m') -> attrs_distinct o m = true -> sattrs o m = sattrs o m'.
Proof.
  intros Hwf Hveq Hd. unfold sattrs, attrs_distinct in *.
  pose proof (veq_lookup (attrK o) m m' Hwf Hveq) as H.
  destruct (lookup (attrK o) m) as [x|] eqn:Ex, (lookup (attrK o) m') as [y|]; cbn [vsim] in H; try contradiction;
    [|reflexivity].
  pose proof (wf_lookup _ _ _ Hwf Ex) as Hwx.
  destruct (veq_cases _ _ H) as [[_ ->]|[(aa & aa' & -> & ->)|(l & l' & -> & -> & _)]]; try reflexivity.
  unfold seq_sort. cbn [bind]. rewrite !sattrs_loop_aview.
  change (fun x : str * value => seq_num o (snd x)) with anum.
  rewrite (sort_payload_inv anum anum aview aview aa aa'); [reflexivity| |apply nodupZ_NoDup; exact Hd].
  inversion H as [v Hs|m0 p m1 Hf Hp|]; subst; [discriminate Hs|].
  destruct (wf_map_inv _ Hwx) as [_ Hall]. rewrite Forall_forall in Hall.
  rewrite (forall2_map_eq (entry_rel veq) (fun x => (anum x, aview x)) (fun x => (anum x, aview x)) aa p Hf).
  - apply Permutation_map. exact Hp.
  - intros a b Hin Hab. apply aview_veq; [apply Hall; exact Hin | exact Hab].
Qed.

(* ---------------- the sub-elements ---------------- *)
Definition kview (kv : str * value) : Z * res (list sitem) :=
  (seq_num o (snd kv), senc o (snd kv) (fst kv)).

Lemma kid_triples_kview m : map (fun t => (tnum t, snd t)) (kid_triples o m) = map kview (unroll o m).
Proof. rewrite kid_triples_unroll, map_map. reflexivity. Qed.

Lemma kid_triples_nums m : map tnum (kid_triples o m) = kid_seqs o m.
Proof. rewrite kid_triples_unroll, map_map. reflexivity. Qed.

Lemma distinct_seq_list l k : distinct_seq o (VList l) k = forallb (fun x => distinct_seq o x k) l.
Proof. cbn [distinct_seq]. induction l as [|x t IH]; [reflexivity|]. cbn [forallb]. rewrite IH. reflexivity. Qed.

Lemma distinct_seq_map m k :
  is_special_key o k = false ->
  distinct_seq o (VMap m) k =
  attrs_distinct o m && nodupZ (kid_seqs o m) &&
  forallb (fun kx => seq_skip_key o (fst kx) || distinct_seq o (snd kx) (fst kx)) m.
Proof.
  intro H. cbn [distinct_seq]. rewrite H. reflexivity.
Qed.

Definition sinv (v : value) : Prop :=
  forall v' key, wf v -> veq v v' -> distinct_seq o v key = true -> senc o v key = senc o v' key.

Lemma kview_entry kv kv' :
  sinv (snd kv) -> (forall l, snd kv = VList l -> Forall sinv l) ->
  wf (snd kv) -> entry_rel veq kv kv' ->
  seq_skip_key o (fst kv) || distinct_seq o (snd kv) (fst kv) = true ->
  map kview (unroll1 o kv) = map kview (unroll1 o kv').
Proof.
  destruct kv as [k a], kv' as [k' b]. unfold entry_rel. cbn [fst snd]. intros Hi Hil Hwf [<- Hv] Hd.
  unfold unroll1. cbn [fst snd]. change (skipk o k) with (seq_skip_key o k).
  destruct (seq_skip_key o k); [reflexivity|]. cbn [orb] in Hd.
  destruct (veq_cases _ _ Hv) as [[_ ->]|[(m & m' & -> & ->)|(l & l' & -> & -> & Hf)]]; [reflexivity| |].
  - cbn [map]. unfold kview. cbn [fst snd]. rewrite (seq_num_veq _ _ Hwf Hv), (Hi _ k Hwf Hv Hd). reflexivity.
  - rewrite !map_map. unfold kview. cbn [fst snd].
    specialize (Hil l eq_refl). rewrite Forall_forall in Hil.
    pose proof (wf_list_inv _ Hwf) as Hwl. rewrite Forall_forall in Hwl.
    rewrite distinct_seq_list, forallb_forall in Hd.
    apply (forall2_map_eq veq _ _ l l' Hf). intros x y Hin Hxy.
    rewrite (seq_num_veq _ _ (Hwl x Hin) Hxy), (Hil x Hin y k (Hwl x Hin) Hxy (Hd x Hin)). reflexivity.
Qed.

Definition sinv2 (v : value) : Prop := sinv v /\ (forall l, v = VList l -> Forall sinv l).

Lemma sinv_map m : Forall (fun kv => sinv2 (snd kv)) m -> sinv (VMap m).
Proof.
  intros IH v' key Hwf Hveq Hd.
  inversion Hveq as [v Hs|m0 p m' Hf Hp|]; subst; [discriminate Hs|].
  rewrite !senc_VMap.
  rewrite (smap_sim_tx _ _ _ _ _ _ _ _ _ (veq_lookup (textK o) m m' Hwf Hveq)).
  rewrite (smap_sim_tg _ _ _ _ _ _ _ _ _ (veq_lookup (targetK o) m m' Hwf Hveq)).
  rewrite (smap_sim_ins _ _ _ _ _ _ _ _ _ (veq_lookup (instK o) m m' Hwf Hveq)).
  rewrite (veq_map_length _ _ Hveq), (veq_has_key (seqK o) m m' Hwf Hveq).
  destruct (is_special_key o key) eqn:Esp; [apply smap_special; exact Esp|].
  rewrite (distinct_seq_map m key Esp) in Hd.
  apply andb_prop in Hd. destruct Hd as [Hd Hd3]. apply andb_prop in Hd. destruct Hd as [Hd1 Hd2].
  rewrite (sattrs_inv m m' Hwf Hveq Hd1). f_equal.
  apply (sort_payload_inv tnum tnum snd snd).
  - rewrite !kid_triples_kview. unfold unroll. rewrite !map_flat_map.
    destruct (wf_map_inv _ Hwf) as [_ Hall]. rewrite Forall_forall in Hall, IH. rewrite forallb_forall in Hd3.
    rewrite (flat_map_concat_map _ m).
    rewrite (forall2_map_eq (entry_rel veq) (fun x => map kview (unroll1 o x)) (fun x => map kview (unroll1 o x)) m p Hf).
    + rewrite <- flat_map_concat_map. apply Permutation_flat_map. exact Hp.
    + intros a b Hin Hab. destruct (IH a Hin) as [I1 I2].
      apply kview_entry; [exact I1 | exact I2 | apply Hall; exact Hin | exact Hab | apply Hd3; exact Hin].
  - rewrite kid_triples_nums. apply nodupZ_NoDup. exact Hd2.
Qed.

Lemma sinv_list l : Forall sinv l -> sinv (VList l).
Proof.
  intros IH v' key Hwf Hveq Hd.
  inversion Hveq as [v Hs| |l0 l' Hf]; subst; [discriminate Hs|].
  pose proof (wf_list_inv _ Hwf) as Hwl. rewrite Forall_forall in Hwl, IH.
  rewrite distinct_seq_list, forallb_forall in Hd.
  cbn [senc]. f_equal. apply (forall2_map_eq veq _ _ l l' Hf).
  intros x y Hin Hxy. apply IH; auto.
Qed.

Lemma sinv_all v : sinv2 v.
Proof.
  induction v as [x|b| |z|z|z|f|x|m IH|l IH] using value_ind2;
    try (split; [intros v' key _ Hveq _; inversion Hveq; subst; reflexivity | intros l0 H0; discriminate H0]).
  - split; [apply sinv_map; exact IH | intros l0 H0; discriminate H0].
  - assert (F : Forall sinv l) by (eapply Forall_impl; [|exact IH]; intros a Ha; apply Ha).
    split; [apply sinv_list; exact F | intros l0 H0; injection H0 as <-; exact F].
Qed.

(* mapToXmlSeqIndent: every option record, every value of any nesting, every key *)
Theorem senc_perm_invariant (v v' : value) (key : str) :
  wf v -> veq v v' -> distinct_seq o v key = true -> senc o v key = senc o v' key.
Proof. exact (proj1 (sinv_all v) v' key). Qed.

(* ---------------- the root rules of MapSeq.Xml / MapSeq.XmlIndent ---------------- *)
Theorem seq_xml_items_perm_invariant (m m' : entries) (root : option str) :
  wf (VMap m) -> veq (VMap m) (VMap m') -> distinct_seq_doc o m root = true ->
  seq_xml_items o m root = seq_xml_items o m' root.
Proof.
  intros Hwf Hveq Hd. unfold seq_xml_items, distinct_seq_doc in *.
  destruct root as [rt|]; [apply senc_perm_invariant; assumption|].
  apply andb_prop in Hd. destruct Hd as [Hd1 Hd2].
  pose proof (veq_map_length _ _ Hveq) as Hlen.
  destruct m as [|[key value] [|b t]].
  - destruct m'; [|discriminate Hlen]. reflexivity.
  - destruct (veq_map_single _ _ _ Hveq) as [value' [-> Hv]].
    pose proof (wf_single _ _ Hwf) as Hwv.
    destruct (veq_cases _ _ Hv) as [[_ <-]|[(x & x' & -> & ->)|(l & l' & -> & -> & Hf)]]; [reflexivity| |].
    + apply senc_perm_invariant; assumption.
    + rewrite <- (veq_all_maps _ _ Hf). destruct (all_maps l); apply senc_perm_invariant; assumption.
  - destruct m' as [|[k1 v1] [|b' t']]; try discriminate Hlen. apply senc_perm_invariant; assumption.
Qed.

Theorem seq_xml_indent_items_perm_invariant (m m' : entries) (root : option str) :
  wf (VMap m) -> veq (VMap m) (VMap m') -> distinct_seq_doc o m root = true ->
  seq_xml_indent_items o m root = seq_xml_indent_items o m' root.
Proof.
  intros Hwf Hveq Hd. unfold seq_xml_indent_items, distinct_seq_doc in *.
  destruct root as [rt|]; [apply senc_perm_invariant; assumption|].
  apply andb_prop in Hd. destruct Hd as [Hd1 Hd2].
  pose proof (veq_map_length _ _ Hveq) as Hlen.
  destruct m as [|[key value] [|b t]].
  - destruct m'; [|discriminate Hlen]. reflexivity.
  - destruct (veq_map_single _ _ _ Hveq) as [value' [-> Hv]].
    pose proof (wf_single _ _ Hwf) as Hwv.
    destruct (veq_cases _ _ Hv) as [[_ <-]|[(x & x' & -> & ->)|(l & l' & -> & -> & Hf)]]; [reflexivity| |].
    + apply senc_perm_invariant; assumption.
    + apply senc_perm_invariant; assumption.
  - destruct m' as [|[k1 v1] [|b' t']]; try discriminate Hlen. apply senc_perm_invariant; assumption.
Qed.

(* ... hence byte-identical output (or the same error / panic) *)
Definition seq_bytes (r : res (list sitem)) : res str :=
  match r with Ok its => Ok (semit its) | Err e => Err e | Panic => Panic end.

Corollary seq_xml_bytes_perm_invariant (m m' : entries) (root : option str) :
  wf (VMap m) -> veq (VMap m) (VMap m') -> distinct_seq_doc o m root = true ->
  seq_bytes (seq_xml_items o m root) = seq_bytes (seq_xml_items o m' root).
Proof. intros H1 H2 H3. rewrite (seq_xml_items_perm_invariant m m' root H1 H2 H3). reflexivity. Qed.
End Seq.

(* ---------------- the side condition is needed ---------------- *)
(* two sub-elements without a sequence number (both compare as 9999999): the output follows the entry order *)
Definition seq_tie_m : entries := [(s "doc", VMap [(s "a", VStr (s "1")); (s "b", VStr (s "2"))])].
Definition seq_tie_m' : entries := [(s "doc", VMap [(s "b", VStr (s "2")); (s "a", VStr (s "1"))])].

Lemma seq_encode_needs_distinct_numbers :
  exists m m', wf (VMap m) /\ veq (VMap m) (VMap m') /\ seq_xml_items opts0 m None <> seq_xml_items opts0 m' None.
Proof.
  exists seq_tie_m, seq_tie_m'. split; [vm_compute; reflexivity|]. split.
  - apply veqb_sound; vm_compute; reflexivity.
  - vm_compute. discriminate.
Qed.

(* the same with explicit, equal numbers on two attributes *)
Definition seq_tie_a : entries :=
  [(s "doc", VMap [(s "#attr", VMap [(s "x", VMap [(s "#text", VStr (s "1")); (s "#seq", VInt 0)]);
                                     (s "y", VMap [(s "#text", VStr (s "2")); (s "#seq", VInt 0)])])])].
Definition seq_tie_a' : entries :=
  [(s "doc", VMap [(s "#attr", VMap [(s "y", VMap [(s "#text", VStr (s "2")); (s "#seq", VInt 0)]);
                                     (s "x", VMap [(s "#text", VStr (s "1")); (s "#seq", VInt 0)])])])].

Lemma seq_encode_needs_distinct_attr_numbers :
  exists m m', wf (VMap m) /\ veq (VMap m) (VMap m') /\ seq_xml_items opts0 m None <> seq_xml_items opts0 m' None.
Proof.
  exists seq_tie_a, seq_tie_a'. split; [vm_compute; reflexivity|]. split.
  - apply veqb_sound; vm_compute; reflexivity.
  - vm_compute. discriminate.
Qed.
