(* Character-level lemmas about escapeChars (used by C05 and C14). *)
From Mxj Require Import Spec.EscSpec Proofs.StrLemmas.
Local Open Scope string_scope.
Local Open Scope list_scope.

(* ---- five sequential passes = one pass ---- *)
Lemma replace1_app p r x y : replace1 p r (x ++ y) = replace1 p r x ++ replace1 p r y.
Proof. unfold replace1. apply flat_map_app. Qed.

Lemma replace1_flat_map p r (g : ascii -> str) x :
  replace1 p r (flat_map g x) = flat_map (fun c => replace1 p r (g c)) x.
Proof.
  induction x as [|c x IH]; cbn [flat_map]; [reflexivity|].
  rewrite replace1_app, IH. reflexivity.
Qed.

Lemma five_passes_one_char (c : ascii) :
  replace1 "'"%char (s "&apos;")
    (replace1 """"%char (s "&quot;")
       (replace1 ">"%char (s "&gt;")
          (replace1 "<"%char (s "&lt;")
             (if Ascii.eqb c "&"%char then s "&amp;" else [c])))) = esc1 c.
Proof. destruct c as [[] [] [] [] [] [] [] []]; reflexivity. Qed.

Lemma escape_single_pass_l x : escape_chars x = flat_map esc1 x.
Proof.
  unfold escape_chars, escape_table. cbn [fold_left fst snd].
  unfold replace1 at 5.
  rewrite !replace1_flat_map.
  apply flat_map_ext. intro c. apply five_passes_one_char.
Qed.

Lemma esc1_nonempty c : esc1 c <> [].
Proof.
  unfold esc1.
  destruct (Ascii.eqb c c_amp); [discriminate|]. destruct (Ascii.eqb c c_lt); [discriminate|].
  destruct (Ascii.eqb c c_gt); [discriminate|]. destruct (Ascii.eqb c c_quot); [discriminate|].
  destruct (Ascii.eqb c c_apos); discriminate.
Qed.

Lemma escape_nil_iff x : escape_chars x = [] <-> x = [].
Proof.
  rewrite escape_single_pass_l. split.
  - destruct x as [|c x]; [reflexivity|]. cbn [flat_map]. intro H.
    apply app_eq_nil in H as [H _]. destruct (esc1_nonempty c H).
  - intros ->. reflexivity.
Qed.

(* the five cases of esc1 *)
Lemma esc1_cases c :
  (c = c_amp /\ esc1 c = s "&amp;") \/ (c = c_lt /\ esc1 c = s "&lt;") \/ (c = c_gt /\ esc1 c = s "&gt;") \/
  (c = c_quot /\ esc1 c = s "&quot;") \/ (c = c_apos /\ esc1 c = s "&apos;") \/
  (Ascii.eqb c c_amp = false /\ forbidden c = false /\ esc1 c = [c]).
Proof.
  unfold esc1, forbidden, mem_ascii. cbn [existsb].
  destruct (Ascii.eqb c c_amp) eqn:E1; [apply Ascii.eqb_eq in E1; subst; auto|].
  destruct (Ascii.eqb c c_lt) eqn:E2; [apply Ascii.eqb_eq in E2; subst; auto|].
  destruct (Ascii.eqb c c_gt) eqn:E3; [apply Ascii.eqb_eq in E3; subst; auto 6|].
  destruct (Ascii.eqb c c_quot) eqn:E4; [apply Ascii.eqb_eq in E4; subst; auto 6|].
  destruct (Ascii.eqb c c_apos) eqn:E5; [apply Ascii.eqb_eq in E5; subst; auto 8|].
  do 5 right. auto.
Qed.

(* ---- unescape inverts escape ---- *)
Lemma unescape_aux_escape x : forall fuel,
  length (flat_map esc1 x) <= fuel -> unescape_aux fuel (flat_map esc1 x) = Some x.
Proof.
  induction x as [|c x IH]; intros fuel Hf; [destruct fuel; reflexivity|].
  cbn [flat_map] in *. rewrite app_length in Hf.
  destruct (esc1_cases c) as [[-> E]|[[-> E]|[[-> E]|[[-> E]|[[-> E]|[Ea [_ E]]]]]]]; rewrite E in *; cbn [length s list_ascii_of_string] in Hf;
    (destruct fuel as [|fuel]; [cbn in Hf; lia|]).
  - cbn. rewrite IH by lia. reflexivity.
  - cbn. rewrite IH by lia. reflexivity.
  - cbn. rewrite IH by lia. reflexivity.
  - cbn. rewrite IH by lia. reflexivity.
  - cbn. rewrite IH by lia. reflexivity.
  - cbn [app unescape_aux]. rewrite Ea. rewrite IH by (cbn in Hf; lia). reflexivity.
Qed.

Lemma unescape_escape_l x : unescape (escape_chars x) = Some x.
Proof. rewrite escape_single_pass_l. unfold unescape. apply unescape_aux_escape. lia. Qed.

(* ---- the escaped text is safe ---- *)
Lemma forb_flat_map x : forallb (fun c => negb (forbidden c)) (flat_map esc1 x) = true.
Proof.
  induction x as [|c x IH]; [reflexivity|]. cbn [flat_map]. rewrite forallb_app, IH, andb_true_r.
  destruct (esc1_cases c) as [[-> E]|[[-> E]|[[-> E]|[[-> E]|[[-> E]|[_ [F E]]]]]]]; rewrite E; try reflexivity.
  cbn [forallb]. rewrite F. reflexivity.
Qed.

Lemma amps_flat_map x : amps_ok (flat_map esc1 x) = true.
Proof.
  induction x as [|c x IH]; [reflexivity|]. cbn [flat_map].
  destruct (esc1_cases c) as [[-> E]|[[-> E]|[[-> E]|[[-> E]|[[-> E]|[Ea [_ E]]]]]]]; rewrite E.
  - cbn. exact IH.
  - cbn. exact IH.
  - cbn. exact IH.
  - cbn. exact IH.
  - cbn. exact IH.
  - cbn [app amps_ok]. rewrite Ea. exact IH.
Qed.

Lemma escape_safe_l x : safe_raw (escape_chars x) = true.
Proof. rewrite escape_single_pass_l. unfold safe_raw. rewrite forb_flat_map, amps_flat_map. reflexivity. Qed.

(* a text that contains p contains every character of p *)
Lemma prefixb_In p : forall y c, prefixb p y = true -> In c p -> In c y.
Proof.
  induction p as [|a p IH]; intros y c H Hin; [destruct Hin|].
  destruct y as [|b y]; [discriminate|]. cbn in H. apply andb_true_iff in H as [H1 H2].
  apply Ascii.eqb_eq in H1. subst b. destruct Hin as [->|Hin]; [left; reflexivity|right; eapply IH; eauto].
Qed.
Lemma containsb_In p : forall y c, containsb p y = true -> In c p -> In c y.
Proof.
  induction y as [|b y IH]; intros c H Hin.
  - cbn in H. rewrite orb_false_r in H. eapply prefixb_In; eauto.
  - cbn [containsb] in H. apply orb_true_iff in H as [H|H]; [eapply prefixb_In; eauto|].
    right. apply IH; assumption.
Qed.

Lemma safe_no_char y c : safe_raw y = true -> forbidden c = true -> ~ In c y.
Proof.
  unfold safe_raw. intros H F Hin. apply andb_true_iff in H as [H _].
  rewrite forallb_forall in H. specialize (H c Hin). rewrite F in H. discriminate.
Qed.

Lemma safe_no_cdata_end y : safe_raw y = true -> containsb (s "]]>") y = false.
Proof.
  intro H. destruct (containsb (s "]]>") y) eqn:E; [|reflexivity].
  exfalso. apply (safe_no_char y c_gt H); [reflexivity|].
  apply (containsb_In _ _ _ E). cbn. auto.
Qed.

(* every '&' of a safe text is followed by one of the five entity names *)
Lemma safe_amp_entity y : safe_raw y = true ->
  forall pre post, y = pre ++ c_amp :: post -> exists e, In e entities /\ prefixb (fst e) post = true.
Proof.
  unfold safe_raw. intros H pre post ->. apply andb_true_iff in H as [_ H].
  induction pre as [|a pre IH]; cbn [app amps_ok] in H.
  - change (Ascii.eqb c_amp c_amp) with true in H. cbv iota in H.
    apply andb_true_iff in H as [H _]. apply existsb_exists in H. exact H.
  - apply andb_true_iff in H as [_ H]. exact (IH H).
Qed.

Lemma safe_text_l y : safe_raw y = true ->
  (forall c, forbidden c = true -> ~ In c y) /\
  (forall pre post, y = pre ++ c_amp :: post -> exists e, In e entities /\ prefixb (fst e) post = true) /\
  containsb (s "]]>") y = false.
Proof.
  intros H. split; [intros c F; exact (safe_no_char y c H F)|].
  split; [exact (safe_amp_entity y H)|exact (safe_no_cdata_end y H)].
Qed.
