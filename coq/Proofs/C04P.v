(* C04: assembly of the round-trip theorem and its companions. *)
From Coq Require Import Permutation Sorting.Sorted.
From Mxj Require Import Spec.SeqSpec Proofs.StrLemmas Proofs.C04Sort Proofs.C04Str Proofs.C04Map
     Proofs.C04Dec Proofs.C04Enc Proofs.C04EncMain Proofs.C04Tok.

Lemma node_ok_names_ne o d : node_ok o d = true -> names_ne d = true.
Proof.
  induction d as [nm a text kids IH|x|x|t i] using node_ind2; intros H; try reflexivity.
  cbn [node_ok] in H.
  apply andb_true_iff in H. destruct H as [H Hkids].
  repeat (apply andb_true_iff in H; destruct H as [H _]).
  cbn [names_ne]. rewrite H. cbn [andb].
  apply forallb_forall. intros k Hk. rewrite Forall_forall in IH. apply IH; [exact Hk|].
  rewrite forallb_forall in Hkids. apply Hkids. exact Hk.
Qed.

Section RT.
Variable pf : str -> option flt.
Variable skip : str -> bool.
Variable e : bool.
Notation o := (seq_o e).

Lemma root_not_list d : match node_val pf skip e d with VList _ => False | _ => True end.
Proof. destruct (nval_shape pf skip e d) as [[m ->]| ->]; exact I. Qed.

Lemma roundtrip_all d :
  dom04 o d = true ->
  exists m its,
    seq_decode pf skip o false (rawtoks_of d) TermEOF = Ok m /\
    seq_encode o m = Ok its /\
    seq_encode_indent o m = Ok its /\
    beautify_items pf skip o (rawtoks_of d) TermEOF = Ok its /\
    forall ws, normalize (rawtoks_of_items (insert_ws ws its)) = normalize (map rt_of_tok (rawtoks_of d)).
Proof.
  unfold dom04. intros H. apply andb_true_iff in H. destruct H as [He Hok].
  destruct d as [nm a text kids| | |]; try discriminate He.
  set (d := NElem nm a text kids) in *.
  assert (Hne := node_ok_names_ne o d Hok).
  assert (Hdec := seq_decode_doc pf skip e nm a text kids Hne). fold d in Hdec.
  assert (Henc := proj2 (enc_all pf skip e d) Hok eq_refl). cbn [kid_key] in Henc.
  exists (VMap [(xfull nm, node_val pf skip e d)]), (items_of e true d).
  assert (E1 : seq_encode o (VMap [(xfull nm, node_val pf skip e d)]) = Ok (items_of e true d)).
  { unfold seq_encode, seq_xml_items. assert (R := root_not_list d).
    destruct (node_val pf skip e d); try exact Henc. destruct R. }
  assert (E2 : seq_encode_indent o (VMap [(xfull nm, node_val pf skip e d)]) = Ok (items_of e true d)).
  { unfold seq_encode_indent, seq_xml_indent_items. assert (R := root_not_list d).
    destruct (node_val pf skip e d); try exact Henc. destruct R. }
  split; [exact Hdec|]. split; [exact E1|]. split; [exact E2|]. split.
  - unfold beautify_items. rewrite Hdec. cbn [bind]. exact E2.
  - intros ws. unfold insert_ws. rewrite normalize_insert_ws.
    apply items_tokens. exact Hok.
Qed.
End RT.

(* attributes come back in their original order, whatever the order of the attribute map *)
Lemma attrs_original_order pf skip e a m rest :
  nodup_keys (map (fun at_ => xfull (aname at_)) a) = true ->
  Permutation m (seq_attr_entries pf skip (seq_o e) false a) ->
  sattrs (seq_o e) ((attrK (seq_o e), VMap m) :: rest)
  = Ok (true, map (fun at_ => (xfull (aname at_), esc (seq_o e) (avalue at_))) a).
Proof.
  intros Hn P. rewrite (seq_attr_entries_spec pf skip e a Hn) in P.
  apply (sattrs_attr_perm e _ a m); [reflexivity|exact P].
Qed.

Definition xn (x : string) : xname := {| xspace := []; xlocal := s x |}.
(* <a>text<b/></a>: the document on which the encoders panicked before fix 3cc484a *)
Definition witness_text_before_child : node :=
  NElem (xn "a") [] (s "text") [NElem (xn "b") [] [] []].

(* the decoder's output never makes an encoder panic or fail on the domain *)
Lemma encode_total pf skip e d :
  dom04 (seq_o e) d = true ->
  exists m, seq_decode pf skip (seq_o e) false (rawtoks_of d) TermEOF = Ok m /\
            seq_encode (seq_o e) m <> Panic /\ seq_encode_indent (seq_o e) m <> Panic.
Proof.
  intros H. destruct (roundtrip_all pf skip e d H) as (m & its & Hd & E1 & E2 & _).
  exists m. split; [exact Hd|]. rewrite E1, E2. split; discriminate.
Qed.

(* a non-trivial document of the domain: prefixed names, xmlns attributes, interleaved siblings a,b,a,
   a comment, a directive and a PI between them, values with specials *)
Definition xnp (p x : string) : xname := {| xspace := s p; xlocal := s x |}.
Definition xa (n : xname) (v : string) : xattr := {| aname := n; avalue := s v |}.
Definition example_doc : node :=
  NElem (xnp "ns" "doc") [xa (xnp "xmlns" "ns") "urn:x"; xa (xn "id") "<&>"; xa (xnp "ns" "k") "it's"] []
    [ NElem (xn "a") [] (s " one ") [];
      NComment (s " note ");
      NElem (xn "b") [xa (xn "z") "1"; xa (xn "a") "2"] [] [];
      NProcInst (s "pi") (s "data");
      NElem (xn "a") [] (s "a<b") [];
      NDirective (s "D x");
      NElem (xnp "ns" "c") [] (s "lead ") [NElem (xn "a") [] [] []; NElem (xn "b") [] (s "q""q") []] ].
