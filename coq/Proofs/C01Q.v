(* C01, stage 2: the fold semantics [sem] of a document tree equals, up to the order
   of Map entries, the Map [conv] the documented conventions prescribe; and the main
   theorem decode_conv. *)
From Mxj Require Import Proofs.StrLemmas Spec.Dom01 Proofs.C01P.

(* ================= veqb toolkit ================= *)
Definition vmatch (m2 : entries) (kv : str * value) : bool :=
  match lookup (fst kv) m2 with Some v2 => veqb (snd kv) v2 | None => false end.

Lemma veqb_VMap m1 m2 :
  veqb (VMap m1) (VMap m2) = Nat.eqb (length m1) (length m2) && forallb (vmatch m2) m1.
Proof.
  cbn [veqb]. f_equal. induction m1 as [|[k v] t IH]; [reflexivity|].
  cbn [forallb]. unfold vmatch at 1. cbn [fst snd]. destruct (lookup k m2); [|reflexivity]. rewrite IH. reflexivity.
Qed.

Fixpoint forall2b {A} (f : A -> A -> bool) (l1 l2 : list A) : bool :=
  match l1, l2 with
  | [], [] => true
  | a :: t1, b :: t2 => f a b && forall2b f t1 t2
  | _, _ => false
  end.

Lemma veqb_VList l1 l2 : veqb (VList l1) (VList l2) = forall2b veqb l1 l2.
Proof.
  cbn [veqb]. revert l2. induction l1 as [|a t IH]; intros [|b t2]; try reflexivity.
  cbn [forall2b]. rewrite IH. reflexivity.
Qed.

Lemma forall2b_snoc {A} (f : A -> A -> bool) l1 l2 a b :
  forall2b f l1 l2 = true -> f a b = true -> forall2b f (l1 ++ [a]) (l2 ++ [b]) = true.
Proof.
  revert l2. induction l1 as [|x t IH]; intros [|y t2] H Hab; cbn in *; try discriminate.
  - rewrite Hab. reflexivity.
  - apply andb_true_iff in H as [H1 H2]. rewrite H1. cbn. apply IH; assumption.
Qed.

(* the values an element or attribute can have besides a Map *)
Definition sval (v : value) : bool :=
  match v with VStr _ | VBool _ | VI64 _ | VU64 _ | VFlt _ => true | _ => false end.

Lemma sval_veqb v : sval v = true -> veqb v v = true.
Proof.
  destruct v; cbn; intros H; try discriminate.
  - apply str_eqb_refl.
  - destruct b; reflexivity.
  - apply Z.eqb_refl.
  - apply Z.eqb_refl.
  - apply str_eqb_refl.
Qed.

(* ================= association-list lemmas ================= *)
Lemma lookup_set k' k v m : lookup k' (set k v m) = if str_eqb k' k then Some v else lookup k' m.
Proof.
  induction m as [|[k0 v0] t IH]; cbn [set lookup]; [reflexivity|].
  destruct (str_eqb k k0) eqn:E.
  - apply str_eqb_eq in E. subst k0. cbn [lookup]. destruct (str_eqb k' k); reflexivity.
  - cbn [lookup]. destruct (str_eqb k' k0) eqn:E'.
    + apply str_eqb_eq in E'. subst k0. rewrite str_eqb_sym, E. reflexivity.
    + exact IH.
Qed.

Lemma has_key_existsb k m : has_key k m = existsb (str_eqb k) (keys m).
Proof.
  unfold has_key. induction m as [|[k0 v0] t IH]; cbn [lookup keys map existsb fst]; [reflexivity|].
  destruct (str_eqb k k0); [reflexivity|exact IH].
Qed.

Lemma set_new k v m : has_key k m = false -> set k v m = m ++ [(k, v)].
Proof.
  unfold has_key. induction m as [|[k0 v0] t IH]; cbn [set lookup app]; [reflexivity|].
  destruct (str_eqb k k0); [discriminate|]. intros H. rewrite IH by exact H. reflexivity.
Qed.

Lemma keys_set_old k v m : has_key k m = true -> keys (set k v m) = keys m.
Proof.
  unfold has_key, keys. induction m as [|[k0 v0] t IH]; cbn [set lookup map fst]; [discriminate|].
  destruct (str_eqb k k0); [reflexivity|]. intros H. cbn [map fst]. rewrite IH by exact H. reflexivity.
Qed.

Lemma length_set k v m : length (set k v m) = if has_key k m then length m else S (length m).
Proof.
  destruct (has_key k m) eqn:E.
  - pose proof (keys_set_old k v m E) as H. unfold keys in H.
    rewrite <- (map_length fst), H, map_length. reflexivity.
  - rewrite set_new by exact E. rewrite app_length. cbn. lia.
Qed.

Lemma nodup_snoc l k :
  nodup_keys l = true -> existsb (str_eqb k) l = false -> nodup_keys (l ++ [k]) = true.
Proof.
  induction l as [|k0 t IH]; cbn [nodup_keys app existsb]; intros Hn Hk; [reflexivity|].
  apply andb_true_iff in Hn as [H1 H2]. apply orb_false_iff in Hk as [H3 H4].
  rewrite existsb_app. cbn [existsb]. rewrite str_eqb_sym, H3.
  apply negb_true_iff in H1. rewrite H1. cbn. apply IH; assumption.
Qed.

Lemma nodup_set k v m : nodup_keys (keys m) = true -> nodup_keys (keys (set k v m)) = true.
Proof.
  intros H. destruct (has_key k m) eqn:E.
  - rewrite keys_set_old by exact E. exact H.
  - rewrite set_new by exact E. unfold keys. rewrite map_app. cbn [map fst].
    apply nodup_snoc; [exact H|]. rewrite <- has_key_existsb. exact E.
Qed.

Lemma lookup_app k a b :
  lookup k (a ++ b) = match lookup k a with Some v => Some v | None => lookup k b end.
Proof.
  induction a as [|[k0 v0] t IH]; cbn [app lookup]; [reflexivity|].
  destruct (str_eqb k k0); [reflexivity|exact IH].
Qed.

Lemma lookup_in_nodup k v m : nodup_keys (keys m) = true -> In (k, v) m -> lookup k m = Some v.
Proof.
  induction m as [|[k0 v0] t IH]; cbn [keys map fst nodup_keys lookup]; intros Hn Hi; [destruct Hi|].
  apply andb_true_iff in Hn as [H1 H2]. destruct Hi as [Hi|Hi].
  - inversion Hi; subst. rewrite str_eqb_refl. reflexivity.
  - destruct (str_eqb k k0) eqn:E.
    + apply str_eqb_eq in E. subst k0. apply negb_true_iff in H1.
      assert (existsb (str_eqb k) (map fst t) = true) as HX.
      { apply existsb_exists. exists k. split; [|apply str_eqb_refl].
        change k with (fst (k, v)). apply in_map. exact Hi. }
      congruence.
    + apply IH; assumption.
Qed.

(* ================= equality of Maps up to entry order ================= *)
Definition orel (a b : option value) : Prop :=
  match a, b with
  | None, None => True
  | Some v, Some c => veqb v c = true
  | _, _ => False
  end.

Definition ents_eq (na ca : entries) : Prop :=
  nodup_keys (keys na) = true /\ length na = length ca /\ forall k, orel (lookup k na) (lookup k ca).

Lemma ents_eq_veqb na ca : ents_eq na ca -> veqb (VMap na) (VMap ca) = true.
Proof.
  intros (Hn & Hl & Hk). rewrite veqb_VMap, Hl, Nat.eqb_refl. cbn [andb].
  apply forallb_forall. intros [k v] Hi. unfold vmatch. cbn [fst snd].
  specialize (Hk k). rewrite (lookup_in_nodup k v na Hn Hi) in Hk.
  destruct (lookup k ca); [exact Hk|destruct Hk].
Qed.

Lemma orel_has_key k na ca : orel (lookup k na) (lookup k ca) -> has_key k na = has_key k ca.
Proof. unfold has_key. destruct (lookup k na), (lookup k ca); cbn; intros H; try reflexivity; destruct H. Qed.

Lemma ents_eq_set na ca k v c :
  ents_eq na ca -> veqb v c = true -> ents_eq (set k v na) (set k c ca).
Proof.
  intros (Hn & Hl & Hk) Hv. split; [apply nodup_set, Hn|]. split.
  - rewrite !length_set, (orel_has_key k na ca (Hk k)), Hl. reflexivity.
  - intros k'. rewrite !lookup_set. destruct (str_eqb k' k); [exact Hv|apply Hk].
Qed.

Definition lk_same (X Y : entries) : Prop := length X = length Y /\ forall k, lookup k X = lookup k Y.

Lemma ents_eq_same na X Y : ents_eq na X -> lk_same X Y -> ents_eq na Y.
Proof.
  intros (Hn & Hl & Hk) (HL & HK). split; [exact Hn|]. split; [congruence|].
  intros k. rewrite <- HK. apply Hk.
Qed.

Lemma ents_eq_length na ca : ents_eq na ca -> length na = length ca.
Proof. intros (_ & Hl & _). exact Hl. Qed.

Lemma ents_eq_set_new na ca k v c :
  ents_eq na ca -> lookup k na = None -> veqb v c = true -> ents_eq (set k v na) (ca ++ [(k, c)]).
Proof.
  intros He Hk Hv. pose proof (ents_eq_set na ca k v c He Hv) as H.
  rewrite (set_new k c ca) in H; [exact H|].
  destruct He as (_ & _ & Ho). rewrite <- (orel_has_key k na ca (Ho k)). unfold has_key. rewrite Hk. reflexivity.
Qed.

(* ---- add_child = insert_grouped = set of the merged value ---- *)
Definition merge (old : option value) (v : value) : value :=
  match old with
  | Some (VList a) => VList (a ++ [v])
  | Some v' => VList [v'; v]
  | None => v
  end.

Lemma add_child_merge k v na : add_child k v na = set k (merge (lookup k na) v) na.
Proof. unfold add_child, merge. destruct (lookup k na) as [[]|]; reflexivity. Qed.

Lemma add_child_ig k v m : add_child k v m = insert_grouped k v m.
Proof.
  rewrite add_child_merge. induction m as [|[k0 v0] t IH]; cbn [lookup set insert_grouped merge]; [reflexivity|].
  destruct (str_eqb k k0); [|rewrite IH; reflexivity].
  cbn [merge]. destruct v0; reflexivity.
Qed.

Lemma merge_rel old old' v c :
  orel old old' -> veqb v c = true -> veqb (merge old v) (merge old' c) = true.
Proof.
  intros Ho Hv. destruct old as [v0|], old' as [c0|]; cbn [orel] in Ho; [|destruct Ho|destruct Ho|exact Hv].
  destruct v0, c0; try (cbn [veqb] in Ho; discriminate); cbn [merge];
    try (rewrite veqb_VList; cbn [forall2b]; rewrite Ho, Hv; reflexivity).
  rewrite veqb_VList in *. apply forall2b_snoc; assumption.
Qed.

Lemma ents_eq_add_child na ca extra k v c :
  ents_eq na (ca ++ extra) -> lookup k extra = None -> veqb v c = true ->
  ents_eq (add_child k v na) (add_child k c ca ++ extra).
Proof.
  intros He Hx Hv. rewrite !add_child_merge.
  assert (Hlk : lookup k (ca ++ extra) = lookup k ca).
  { rewrite lookup_app, Hx. destruct (lookup k ca); reflexivity. }
  pose proof He as (_ & _ & Ho).
  pose proof (ents_eq_set na (ca ++ extra) k _ _ He (merge_rel _ _ v c (Ho k) Hv)) as H.
  rewrite Hlk in H. eapply ents_eq_same; [exact H|]. split.
  - rewrite app_length, !length_set. unfold has_key. rewrite Hlk.
    destruct (lookup k ca); rewrite app_length; lia.
  - intros k'. rewrite lookup_app, !lookup_set, lookup_app.
    destruct (str_eqb k' k); reflexivity.
Qed.

Lemma is_nil_set k v m : is_nil (set k v m) = false.
Proof. destruct m as [|[k0 v0] t]; cbn [set]; [reflexivity|]. destruct (str_eqb k k0); reflexivity. Qed.

Lemma ents_eq_nil na ca : ents_eq na ca -> is_nil na = is_nil ca.
Proof. intros (_ & Hl & _). destruct na, ca; cbn in *; congruence. Qed.

(* ================= cast ================= *)
Lemma cast_sval pf skip o x r t : sval (cast pf skip o x r t) = true.
Proof.
  unfold cast.
  destruct (_ && skip t); [reflexivity|].
  destruct (negb r); [reflexivity|].
  destruct (negb (castNanInf o) && _); [reflexivity|].
  assert (G : sval (match (if castToFloat o then
                 match pf x with
                 | Some f => if castNanInf o || negb (is_naninf f) then Some (VFlt f) else None
                 | None => None
                 end
               else None) with
        | Some v => v
        | None =>
            if castToBool o && (match x with [] => false | _ => true end) && (length x <? 6)
               && (match x with c :: _ => mem_ascii c (s "tTfF") | [] => false end)
            then match parse_bool x with Some b => VBool b | None => VStr x end
            else VStr x
        end) = true).
  { destruct (castToFloat o); [destruct (pf x) as [f|]; [destruct (castNanInf o || negb (is_naninf f))|]|];
      try reflexivity;
      (destruct (castToBool o && _ && _ && _); [destruct (parse_bool x)|]; reflexivity). }
  destruct (castToInt o); [|exact G].
  destruct (parse_int 64 x); [reflexivity|]. destruct (parse_uint 64 x); [reflexivity|]. exact G.
Qed.

Section Stage2.
Variable pf : str -> option flt.
Variable skip : str -> bool.
Variable o : opts.
Variable r : bool.
Hypothesis Hseq : includeTagSeqNum o = true -> str_eqb (textK o) seq_key = false.

Notation sem := (sem pf skip o r).
Notation conv := (conv pf skip o r).
Notation cast := (cast pf skip o).

(* ---- relation between the decoder's value and the prescribed value of an element ---- *)
Definition vrel (v c : value) : Prop :=
  match v with
  | VMap m => exists m', c = VMap m' /\ ents_eq m m'
  | _ => sval v = true /\ c = v
  end.

Lemma vrel_veqb v c : vrel v c -> veqb v c = true.
Proof.
  destruct v; cbn [vrel]; try (intros [H ->]; apply sval_veqb, H).
  intros (m' & -> & He). apply ents_eq_veqb, He.
Qed.

Lemma vrel_sval v : sval v = true -> vrel v v.
Proof. destruct v; cbn; intros H; try discriminate; split; reflexivity. Qed.

(* ---- conv, with its local functions named ---- *)
Definition cents_with (f : elem -> value) :=
  fix go (kids : list node) (i : Z) : list (str * value) :=
    match kids with
    | [] => []
    | NElem (Elem cn ca ck as c) :: t => (xform_key o (xlocal cn), wrap_seq o i (f c)) :: go t (i + 1)%Z
    | _ :: t => go t i
    end.

Definition conv_fin (key : str) (ents : entries) (runs : list str) (cond : bool) : value :=
  match runs with
  | [] => match ents with [] => VStr [] | _ => VMap ents end
  | tx :: _ =>
      match ents with
      | [] => if decodeSimpleValuesAsMap o
              then VMap [(textK o, cast tx r (textK o))]
              else cast tx r key
      | _ => VMap (ents ++ [(textK o, cast tx r (if cond then key else textK o))])
      end
  end.

Lemma conv_unfold n attrs kids :
  conv (Elem n attrs kids) =
  conv_fin (xform_key o (xlocal n))
           (group_children (cents_with conv kids 0) (map (attr_entry pf skip o r) attrs))
           (text_runs o kids)
           (negb (decodeSimpleValuesAsMap o) && is_nil attrs && text_first o kids).
Proof. reflexivity. Qed.

Lemma cents_elem f c t i :
  cents_with f (NElem c :: t) i = (ekey o c, wrap_seq o i (f c)) :: cents_with f t (i + 1)%Z.
Proof. destruct c; reflexivity. Qed.

Lemma cents_text f x t i : cents_with f (NText x :: t) i = cents_with f t i.
Proof. reflexivity. Qed.
Lemma cents_other f tk t i : cents_with f (NOther tk :: t) i = cents_with f t i.
Proof. reflexivity. Qed.

Lemma group_children_cons kv l m :
  group_children (kv :: l) m = group_children l (add_child (fst kv) (snd kv) m).
Proof. rewrite add_child_ig. reflexivity. Qed.

Lemma group_children_nonnil l m : is_nil m = false -> is_nil (group_children l m) = false.
Proof.
  revert m. induction l as [|kv l IH]; intros m Hm; [exact Hm|].
  rewrite group_children_cons. apply IH. rewrite add_child_merge. apply is_nil_set.
Qed.

(* ---- attributes ---- *)
Lemma attr_entries_map attrs :
  nodup_keys (akeys o attrs) = true ->
  attr_entries pf skip o r attrs = map (attr_entry pf skip o r) attrs.
Proof.
  unfold attr_entries. intros Hn.
  assert (G : forall acc, nodup_keys (keys acc ++ akeys o attrs) = true ->
            fold_left (fun na at_ =>
               let key := attr_key o (xlocal (aname at_)) in
               let v := if xmlEscapeCharsDecoder o then escape_chars (avalue at_) else avalue at_ in
               set key (cast v r key) na) attrs acc = acc ++ map (attr_entry pf skip o r) attrs).
  { clear Hn. induction attrs as [|a t IH]; intros acc Ha; cbn [fold_left map]; [rewrite app_nil_r; reflexivity|].
    cbn zeta. rewrite set_new.
    - rewrite IH.
      + rewrite <- app_assoc. reflexivity.
      + unfold keys. rewrite map_app. cbn [map fst]. unfold keys in Ha. cbn [akeys map] in Ha.
        rewrite <- app_assoc. exact Ha.
    - rewrite has_key_existsb. cbn [akeys map] in Ha. clear IH.
      induction (keys acc) as [|k0 l IHl]; [reflexivity|].
      cbn [app nodup_keys] in Ha. apply andb_true_iff in Ha as [H1 H2].
      cbn [existsb]. rewrite IHl by exact H2. rewrite orb_false_r.
      apply negb_true_iff in H1. rewrite existsb_app in H1. apply orb_false_iff in H1 as [_ H1].
      cbn [existsb] in H1. apply orb_false_iff in H1 as [H1 _]. rewrite str_eqb_sym. exact H1. }
  apply (G []). exact Hn.
Qed.

Lemma keys_attr attrs : keys (map (attr_entry pf skip o r) attrs) = akeys o attrs.
Proof. unfold keys, akeys. rewrite map_map. reflexivity. Qed.

Lemma ents_eq_refl_sval m :
  nodup_keys (keys m) = true -> Forall (fun kv => sval (snd kv) = true) m -> ents_eq m m.
Proof.
  intros Hn HF. split; [exact Hn|]. split; [reflexivity|].
  intros k. induction HF as [|[k0 v0] t Hv HF IH]; cbn [lookup orel]; [exact I|].
  cbn [keys map fst nodup_keys] in Hn. apply andb_true_iff in Hn as [_ Hn].
  destruct (str_eqb k k0); [apply sval_veqb, Hv|apply IH, Hn].
Qed.

(* ---- tag sequence numbers ---- *)
Lemma tag_seq_rel v c seq i :
  vrel v c -> (includeTagSeqNum o = true -> i = seq) ->
  veqb (fst (tag_seq o v seq)) (wrap_seq o i c) = true /\
  (includeTagSeqNum o = true -> snd (tag_seq o v seq) = (seq + 1)%Z).
Proof.
  intros Hv Hi. unfold tag_seq, wrap_seq. destruct (includeTagSeqNum o) eqn:Ef.
  - specialize (Hi eq_refl). subst i. specialize (Hseq eq_refl).
    assert (Hs : forall x, sval x = true ->
              veqb (VMap (set seq_key (VInt seq) [(textK o, x)])) (VMap [(textK o, x); (seq_key, VInt seq)]) = true).
    { intros x Hx. cbn [set]. rewrite str_eqb_sym, Hseq. rewrite veqb_VMap. cbn [length Nat.eqb forallb andb]. unfold vmatch. cbn [fst snd lookup].
      rewrite str_eqb_refl, (sval_veqb x Hx). rewrite str_eqb_sym, Hseq, str_eqb_refl. cbn. rewrite Z.eqb_refl. reflexivity. }
    destruct v; cbn [vrel] in Hv; try (destruct Hv as [Hsv ->]; cbn in Hsv; first [discriminate Hsv | cbn [fst snd]; split; [apply Hs; reflexivity|reflexivity]]).
    destruct Hv as (m' & -> & He). cbn [fst snd]. split; [|reflexivity].
    apply ents_eq_veqb, ents_eq_set; [exact He|]. cbn. apply Z.eqb_refl.
  - cbn [fst snd]. split; [apply vrel_veqb, Hv|discriminate].
Qed.

(* ---- character data ---- *)
Lemma on_chardata_blank key x n na :
  text_val o x = [] -> on_chardata pf skip o r key x n na = (n, na).
Proof. unfold on_chardata, text_val. cbn zeta. intros ->. reflexivity. Qed.

Lemma on_chardata_text key x n na c tx :
  text_val o x = c :: tx ->
  on_chardata pf skip o r key x n na =
  if negb (is_nil na) || decodeSimpleValuesAsMap o
  then (n, set (textK o) (cast (c :: tx) r (textK o)) na)
  else (Some (cast (c :: tx) r key), na).
Proof. unfold on_chardata, text_val. cbn zeta. intros ->. destruct na; reflexivity. Qed.

(* ================= the loop invariant ================= *)
Definition stage2_P (e : elem) : Prop := dom_elem o e = true -> vrel (sem e) (conv e).

Section Kids.
Variable key : str.
Notation kl := (kids_loop pf skip o r sem key).

(* children without a non-blank text run only add entries *)
Lemma core kids :
  Forall (Pnode stage2_P) kids -> dom_kids o kids = true -> text_runs o kids = [] ->
  forall n na seq i ca extra,
    (includeTagSeqNum o = true -> i = seq) ->
    (forall k, str_eqb k (textK o) = false -> lookup k extra = None) ->
    ents_eq na (ca ++ extra) ->
    fst (kl kids n na seq) = n /\
    ents_eq (snd (kl kids n na seq)) (group_children (cents_with conv kids i) ca ++ extra) /\
    (lookup (textK o) na = None -> lookup (textK o) (snd (kl kids n na seq)) = None).
Proof.
  induction kids as [|nd t IH]; intros HF Hd Ht n na seq i ca extra Hi Hx He.
  - cbn. auto.
  - inversion HF as [|? ? Hnd HF']; subst. destruct nd as [c|x|tk].
    + cbn [dom_kids] in Hd. apply andb_true_iff in Hd as [Hd Hdt]. apply andb_true_iff in Hd as [Hck Hdc].
      apply negb_true_iff in Hck.
      assert (Ht' : text_runs o t = []) by exact Ht.
      cbn [Pnode] in Hnd. specialize (Hnd Hdc).
      destruct (tag_seq_rel _ _ seq i Hnd Hi) as [Hv Hs].
      rewrite kids_loop_elem, cents_elem, group_children_cons. cbn [fst snd].
      destruct (IH HF' Hdt Ht' n (add_child (ekey o c) (fst (tag_seq o (sem c) seq)) na)
                   (snd (tag_seq o (sem c) seq)) (i + 1)%Z
                   (add_child (ekey o c) (wrap_seq o i (conv c)) ca) extra) as (H1 & H2 & H3).
      * intros Hf. rewrite (Hs Hf), (Hi Hf). reflexivity.
      * exact Hx.
      * apply ents_eq_add_child; [exact He|apply Hx, Hck|exact Hv].
      * split; [exact H1|]. split; [exact H2|]. intros Hn. apply H3.
        rewrite add_child_merge, lookup_set, str_eqb_sym, Hck. exact Hn.
    + cbn [dom_kids] in Hd. cbn [text_runs] in Ht.
      destruct (text_val o x) eqn:Ex; [|discriminate].
      rewrite kids_loop_text, (on_chardata_blank key x n na Ex), cents_text. cbn [fst snd].
      apply (IH HF' Hd Ht n na seq i ca extra Hi Hx He).
    + cbn [dom_kids] in Hd. apply andb_true_iff in Hd as [_ Hdt].
      rewrite kids_loop_other, cents_other. apply (IH HF' Hdt Ht n na seq i ca extra Hi Hx He).
Qed.

Lemma phaseA kids :
  Forall (Pnode stage2_P) kids -> dom_kids o kids = true -> length (text_runs o kids) <= 1 ->
  forall na seq i ca,
    (includeTagSeqNum o = true -> i = seq) ->
    lookup (textK o) na = None ->
    ents_eq na ca ->
    vrel (finish_elem o (fst (kl kids None na seq)) (snd (kl kids None na seq)))
         (conv_fin key (group_children (cents_with conv kids i) ca) (text_runs o kids)
                   (negb (decodeSimpleValuesAsMap o) && is_nil ca && text_first o kids)).
Proof.
  induction kids as [|nd t IH]; intros HF Hd Hl na seq i ca Hi Hn He.
  - cbn [kids_loop fst snd finish_elem text_runs conv_fin cents_with group_children fold_left].
    pose proof (ents_eq_nil _ _ He) as Hz.
    destruct na as [|e1 na], ca as [|e2 ca]; cbn in Hz; try discriminate.
    + cbn. split; reflexivity.
    + cbn [vrel]. eexists; split; [reflexivity|exact He].
  - inversion HF as [|? ? Hnd HF']; subst. destruct nd as [c|x|tk].
    + cbn [dom_kids] in Hd. apply andb_true_iff in Hd as [Hd Hdt]. apply andb_true_iff in Hd as [Hck Hdc].
      apply negb_true_iff in Hck.
      assert (Hl' : length (text_runs o t) <= 1) by exact Hl.
      cbn [Pnode] in Hnd. specialize (Hnd Hdc).
      destruct (tag_seq_rel _ _ seq i Hnd Hi) as [Hv Hs].
      rewrite kids_loop_elem, cents_elem, group_children_cons. cbn [fst snd].
      change (text_runs o (NElem c :: t)) with (text_runs o t).
      change (text_first o (NElem c :: t)) with false. rewrite andb_false_r.
      pose proof (IH HF' Hdt Hl' (add_child (ekey o c) (fst (tag_seq o (sem c) seq)) na)
                   (snd (tag_seq o (sem c) seq)) (i + 1)%Z
                   (add_child (ekey o c) (wrap_seq o i (conv c)) ca)) as H.
      assert (Hz : is_nil (add_child (ekey o c) (wrap_seq o i (conv c)) ca) = false)
        by (rewrite add_child_merge; apply is_nil_set).
      rewrite Hz, andb_false_r in H. cbn [andb] in H.
      apply H.
      * intros Hf. rewrite (Hs Hf), (Hi Hf). reflexivity.
      * rewrite add_child_merge, lookup_set, str_eqb_sym, Hck. exact Hn.
      * rewrite <- (app_nil_r (add_child _ _ ca)). apply ents_eq_add_child;
          [rewrite app_nil_r; exact He|reflexivity|exact Hv].
    + cbn [dom_kids] in Hd. rewrite kids_loop_text, cents_text.
      destruct (text_val o x) as [|c0 tx] eqn:Ex.
      * rewrite (on_chardata_blank key x None na Ex). cbn [fst snd].
        assert (E1 : text_runs o (NText x :: t) = text_runs o t) by (cbn [text_runs]; rewrite Ex; reflexivity).
        assert (E2 : text_first o (NText x :: t) = text_first o t) by (cbn [text_first]; rewrite Ex; reflexivity).
        rewrite E1, E2. rewrite E1 in Hl. apply (IH HF' Hd Hl na seq i ca Hi Hn He).
      * assert (E1 : text_runs o (NText x :: t) = (c0 :: tx) :: text_runs o t) by (cbn [text_runs]; rewrite Ex; reflexivity).
        assert (E2 : text_first o (NText x :: t) = true) by (cbn [text_first]; rewrite Ex; reflexivity).
        rewrite E1, E2, andb_true_r. rewrite E1 in Hl. cbn [length] in Hl.
        assert (Ht : text_runs o t = []) by (destruct (text_runs o t); [reflexivity|cbn in Hl; lia]).
        rewrite (on_chardata_text key x None na c0 tx Ex).
        pose proof (ents_eq_nil _ _ He) as Hz. set (T := c0 :: tx) in *.
        destruct (negb (is_nil na) || decodeSimpleValuesAsMap o) eqn:Ec; cbn [fst snd].
        -- (* the text goes into na under textK *)
           destruct (core t HF' Hd Ht None (set (textK o) (cast T r (textK o)) na) seq i ca
                       [(textK o, cast T r (textK o))] Hi) as (H1 & H2 & _).
           { intros k Hk. cbn [lookup]. rewrite Hk. reflexivity. }
           { apply ents_eq_set_new; [exact He|exact Hn|apply sval_veqb, cast_sval]. }
           rewrite H1. set (naf := snd (kl t None _ seq)) in *.
           set (G := group_children (cents_with conv t i) ca) in *.
           assert (Hnf : is_nil naf = false).
           { pose proof (ents_eq_length _ _ H2) as HL. rewrite app_length in HL. cbn in HL.
             destruct naf; [cbn in HL; lia|reflexivity]. }
           unfold finish_elem. destruct naf as [|e1 naf']; [discriminate|].
           unfold conv_fin. destruct G as [|g1 G'] eqn:EG.
           ++ assert (Hca : is_nil ca = true).
              { destruct (is_nil ca) eqn:Eca; [reflexivity|].
                pose proof (group_children_nonnil (cents_with conv t i) ca Eca) as HG.
                fold G in HG. rewrite EG in HG. discriminate. }
              rewrite Hz, Hca in Ec. cbn in Ec. rewrite Ec.
              cbn [vrel]. eexists; split; [reflexivity|exact H2].
           ++ assert (Hcond : negb (decodeSimpleValuesAsMap o) && is_nil ca = false).
              { rewrite <- Hz. destruct (decodeSimpleValuesAsMap o); [reflexivity|].
                rewrite orb_false_r in Ec. apply negb_true_iff in Ec. rewrite Ec. reflexivity. }
              rewrite Hcond. cbn [vrel]. eexists; split; [reflexivity|exact H2].
        -- (* the text is kept in n *)
           apply orb_false_iff in Ec as [Ena Eds]. apply negb_false_iff in Ena.
           rewrite Eds. rewrite <- Hz, Ena. cbn [negb andb].
           destruct (core t HF' Hd Ht (Some (cast T r key)) na seq i ca [] Hi) as (H1 & H2 & H3).
           { intros k Hk. reflexivity. }
           { rewrite app_nil_r. exact He. }
           specialize (H3 Hn). rewrite H1, app_nil_r in *.
           set (naf := snd (kl t (Some (cast T r key)) na seq)) in *.
           set (G := group_children (cents_with conv t i) ca) in *.
           pose proof (ents_eq_nil _ _ H2) as Hz2.
           unfold finish_elem, conv_fin. rewrite Eds.
           destruct naf as [|e1 naf'], G as [|g1 G']; cbn in Hz2; try discriminate.
           ++ apply vrel_sval, cast_sval.
           ++ cbn [vrel]. eexists; split; [reflexivity|].
              apply ents_eq_set_new; [exact H2|exact H3|apply sval_veqb, cast_sval].
    + cbn [dom_kids] in Hd. apply andb_true_iff in Hd as [_ Hdt].
      rewrite kids_loop_other, cents_other.
      change (text_runs o (NOther tk :: t)) with (text_runs o t).
      change (text_first o (NOther tk :: t)) with (text_first o t).
      apply (IH HF' Hdt Hl na seq i ca Hi Hn He).
Qed.
End Kids.

Lemma stage2 : forall e, stage2_P e.
Proof.
  induction e as [nm attrs kids HF] using elem_ind2. unfold stage2_P. intros Hd.
  rewrite dom_elem_unfold in Hd.
  apply andb_true_iff in Hd as [Hd Hdk]. apply andb_true_iff in Hd as [Hd Hl].
  apply andb_true_iff in Hd as [Hd Hat]. apply andb_true_iff in Hd as [_ Hnd].
  apply Nat.leb_le in Hl. apply negb_true_iff in Hat.
  rewrite sem_unfold, conv_unfold. cbn zeta. rewrite (attr_entries_map attrs Hnd).
  assert (Hnil : is_nil attrs = is_nil (map (attr_entry pf skip o r) attrs)) by (destruct attrs; reflexivity).
  rewrite Hnil.
  apply phaseA; try assumption.
  - intros _. reflexivity.
  - pose proof (has_key_existsb (textK o) (map (attr_entry pf skip o r) attrs)) as HK.
    rewrite keys_attr, Hat in HK. unfold has_key in HK.
    destruct (lookup (textK o) (map (attr_entry pf skip o r) attrs)); [discriminate|reflexivity].
  - apply ents_eq_refl_sval; [rewrite keys_attr; exact Hnd|].
    apply Forall_forall. intros kv Hin. apply in_map_iff in Hin as (a & <- & _).
    unfold attr_entry. cbn [snd]. apply cast_sval.
Qed.

End Stage2.

(* ================= the main theorem ================= *)
Theorem decode_conv pf skip o r d :
  dom01 o d = true ->
  exists v, xml_decode pf skip o r (toks_of_doc d) TermEOF = Ok v /\
            veqb v (conv_doc pf skip o r d) = true.
Proof.
  unfold dom01. intros H.
  apply andb_true_iff in H as [H Hroot]. apply andb_true_iff in H as [H Hpro].
  apply andb_true_iff in H as [Hx Hs]. apply negb_true_iff in Hx.
  assert (Hseq : includeTagSeqNum o = true -> str_eqb (textK o) seq_key = false).
  { intros Hf. rewrite Hf in Hs. cbn in Hs. apply negb_true_iff in Hs. exact Hs. }
  eexists. split; [apply decode_sem; assumption|].
  unfold conv_doc, root_key. destruct (d_root d) as [nm attrs kids] eqn:Er. cbn [ekey].
  rewrite veqb_VMap. cbn [length Nat.eqb forallb andb]. unfold vmatch. cbn [fst snd lookup].
  rewrite str_eqb_refl, andb_true_r.
  apply vrel_veqb. apply (stage2 pf skip o r Hseq (Elem nm attrs kids)). exact Hroot.
Qed.

(* the same for any terminator (a syntax error after the root element does not matter), with
   what the decoder leaves unread: exactly the tokens after the root element *)
Theorem decode_rest_conv pf skip o r d tm :
  dom01 o d = true ->
  exists m, xml_decode_rest pf skip o r (toks_of_doc d) tm = Ok (m, d_trailer d) /\
            xml_decode pf skip o r (toks_of_doc d) tm = Ok (VMap m) /\
            veqb (VMap m) (conv_doc pf skip o r d) = true.
Proof.
  unfold dom01. intros H.
  apply andb_true_iff in H as [H Hroot]. apply andb_true_iff in H as [H Hpro].
  apply andb_true_iff in H as [Hx Hs]. apply negb_true_iff in Hx.
  assert (Hseq : includeTagSeqNum o = true -> str_eqb (textK o) seq_key = false).
  { intros Hf. rewrite Hf in Hs. cbn in Hs. apply negb_true_iff in Hs. exact Hs. }
  eexists. split; [apply decode_rest_sem; assumption|]. split; [apply decode_sem_tm; assumption|].
  unfold conv_doc, root_key. destruct (d_root d) as [nm attrs kids] eqn:Er. cbn [ekey].
  rewrite veqb_VMap. cbn [length Nat.eqb forallb andb]. unfold vmatch. cbn [fst snd lookup].
  rewrite str_eqb_refl, andb_true_r.
  apply vrel_veqb. apply (stage2 pf skip o r Hseq (Elem nm attrs kids)). exact Hroot.
Qed.
