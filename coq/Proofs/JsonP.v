(* Lemmas about the string layer of encoding/json as modelled in Model/Json.v:
   the chunk loops, the shape of what the string encoder emits, UTF-8 runes. *)
From Mxj Require Import Model.Json.
Import ListNotations.

(* ------------------------------------------------------------------ chunk_loop *)

Definition shrinks (step : str -> option (str * str)) : Prop :=
  forall x out rest, step x = Some (out, rest) -> length rest < length x.

Lemma chunk_loop_fuel : forall step, shrinks step ->
  forall f1 f2 x, length x <= f1 -> length x <= f2 -> chunk_loop step f1 x = chunk_loop step f2 x.
Proof.
  intros step Hs. induction f1 as [|f1 IH]; intros f2 x H1 H2.
  - destruct x; [destruct f2; reflexivity|cbn in H1; lia].
  - destruct x as [|c t]; [destruct f2; reflexivity|].
    destruct f2 as [|f2]; [cbn in H2; lia|]. cbn.
    destruct (step (c :: t)) as [[out rest]|] eqn:E; [|reflexivity].
    pose proof (Hs _ _ _ E) as Hl. cbn in *. f_equal. apply IH; lia.
Qed.

Lemma chunk_loop_step : forall step, shrinks step ->
  forall x out rest fuel, x <> [] -> step x = Some (out, rest) -> length x <= fuel ->
  chunk_loop step fuel x = option_map (app out) (chunk_loop step (length rest) rest).
Proof.
  intros step Hs x out rest fuel Hx E Hf. destruct x as [|c t]; [congruence|].
  destruct fuel; [cbn in Hf; lia|]. cbn. rewrite E. f_equal.
  pose proof (Hs _ _ _ E) as Hl. cbn in *. apply chunk_loop_fuel; [assumption|lia|lia].
Qed.

Lemma chunk_loop_none : forall step x fuel, x <> [] -> step x = None -> chunk_loop step fuel x = None.
Proof. intros step x fuel Hx E. destruct x; [congruence|]. destruct fuel; cbn; [reflexivity|now rewrite E]. Qed.

(* ------------------------------------------------------------------ runes *)

Lemma rune_size_pos : forall x n, rune_size x = Some n -> 1 <= n /\ n <= length x.
Proof.
  intros x n H. destruct x as [|c0 t]; [discriminate|]. cbn in H.
  destruct (byte c0 <? 128)%N; [injection H as <-; cbn; lia|].
  destruct (first_info (byte c0)) as [[[sz lo] hi]|]; [|discriminate].
  destruct sz as [|[|[|[|[|sz]]]]]; try discriminate.
  - destruct t as [|c1 t]; [discriminate|]. destruct (inrng lo hi (byte c1)); [|discriminate]. injection H as <-. cbn. lia.
  - destruct t as [|c1 [|c2 t]]; try discriminate. destruct (inrng lo hi (byte c1) && is_cont c2); [|discriminate].
    injection H as <-. cbn. lia.
  - destruct t as [|c1 [|c2 [|c3 t]]]; try discriminate.
    destruct (inrng lo hi (byte c1) && is_cont c2 && is_cont c3); [|discriminate]. injection H as <-. cbn. lia.
Qed.

Lemma first_info_size : forall n sz lo hi, first_info n = Some (sz, lo, hi) ->
  (sz = 2 \/ sz = 3 \/ sz = 4) /\ (128 <= lo)%N.
Proof.
  intros n sz lo hi H. unfold first_info in H.
  repeat match type of H with
         | (if ?c then _ else _) = _ => destruct c; [injection H as <- <- <-; split; [auto|lia]|]
         end. discriminate.
Qed.

Definition high (c : ascii) : bool := (128 <=? byte c)%N.

Lemma inrng_high : forall lo hi c, (128 <= lo)%N -> inrng lo hi (byte c) = true -> high c = true.
Proof.
  intros lo hi c Hlo H. unfold inrng in H. apply andb_true_iff in H as [H _].
  apply N.leb_le in H. unfold high. apply N.leb_le. lia.
Qed.
Lemma is_cont_high : forall c, is_cont c = true -> high c = true.
Proof. intros c H. apply (inrng_high 128 191 c); [lia|exact H]. Qed.

(* the bytes of a multi-byte rune are all >= 0x80, and the size depends on them only *)
Lemma rune_bytes : forall x n, rune_size x = Some n ->
  match x with c :: _ => high c = true | [] => False end ->
  forallb high (firstn n x) = true /\ forall y, rune_size (firstn n x ++ y) = Some n.
Proof.
  intros x n H Hc. destruct x as [|c0 t]; [contradiction|].
  unfold high in Hc. apply N.leb_le in Hc.
  assert (Hlt : (byte c0 <? 128)%N = false) by (apply N.ltb_ge; lia).
  cbn in H. rewrite Hlt in H.
  destruct (first_info (byte c0)) as [[[sz lo] hi]|] eqn:Ef; [|discriminate].
  destruct (first_info_size _ _ _ _ Ef) as [_ Hlo].
  assert (Hh0 : high c0 = true) by (unfold high; apply N.leb_le; lia).
  destruct sz as [|[|[|[|[|sz]]]]]; try discriminate.
  - destruct t as [|c1 t]; [discriminate|]. destruct (inrng lo hi (byte c1)) eqn:E1; [|discriminate]. injection H as <-.
    split.
    + cbn. rewrite Hh0, (inrng_high _ _ _ Hlo E1). reflexivity.
    + intro y. cbn. rewrite Hlt, Ef, E1. reflexivity.
  - destruct t as [|c1 [|c2 t]]; try discriminate.
    destruct (inrng lo hi (byte c1)) eqn:E1; [|discriminate]. destruct (is_cont c2) eqn:E2; [|discriminate].
    injection H as <-. split.
    + cbn. rewrite Hh0, (inrng_high _ _ _ Hlo E1), (is_cont_high _ E2). reflexivity.
    + intro y. cbn. rewrite Hlt, Ef, E1, E2. reflexivity.
  - destruct t as [|c1 [|c2 [|c3 t]]]; try discriminate.
    destruct (inrng lo hi (byte c1)) eqn:E1; [|discriminate]. destruct (is_cont c2) eqn:E2; [|discriminate].
    destruct (is_cont c3) eqn:E3; [|discriminate].
    injection H as <-. split.
    + cbn. rewrite Hh0, (inrng_high _ _ _ Hlo E1), (is_cont_high _ E2), (is_cont_high _ E3). reflexivity.
    + intro y. cbn. rewrite Hlt, Ef, E1, E2, E3. reflexivity.
Qed.

(* ------------------------------------------------------------------ the string encoder *)

Lemma q_step_shrinks : forall eh, shrinks (q_step eh).
Proof.
  intros eh x out rest H. destruct x as [|c t]; [discriminate|]. cbn [q_step] in H.
  destruct (byte c <? 128)%N; [injection H as _ <-; cbn; lia|].
  destruct (rune_size (c :: t)) as [n|] eqn:E; [|injection H as _ <-; cbn; lia].
  destruct (rune_size_pos _ _ E) as [Hn Hl].
  destruct (is_2028 (c :: t)); injection H as _ <-; rewrite skipn_length; lia.
Qed.

Lemma q_step_total : forall eh x, x <> [] -> exists out rest, q_step eh x = Some (out, rest).
Proof.
  intros eh x Hx. destruct x as [|c t]; [congruence|]. cbn [q_step].
  destruct (byte c <? 128)%N; [eauto|]. destruct (rune_size (c :: t)); [|eauto]. destruct (is_2028 (c :: t)); eauto.
Qed.

Lemma q_loop_some : forall eh fuel x, length x <= fuel -> exists y, chunk_loop (q_step eh) fuel x = Some y.
Proof.
  intros eh. induction fuel as [|f IH]; intros x H.
  - destruct x; [eexists; reflexivity|cbn in H; lia].
  - destruct x as [|c t]; [eexists; reflexivity|].
    destruct (q_step_total eh (c :: t)) as (out & rest & E); [discriminate|].
    cbn [chunk_loop]. rewrite E. pose proof (q_step_shrinks eh _ _ _ E) as Hl.
    destruct (IH rest) as [y Hy]; [cbn in *; lia|]. rewrite Hy. eexists. reflexivity.
Qed.

Lemma quote_body_nil : forall eh, quote_body eh [] = [].
Proof. reflexivity. Qed.

Lemma quote_body_step : forall eh x out rest, x <> [] -> q_step eh x = Some (out, rest) ->
  quote_body eh x = out ++ quote_body eh rest.
Proof.
  intros eh x out rest Hx E. unfold quote_body.
  rewrite (chunk_loop_step _ (q_step_shrinks eh) x out rest (length x) Hx E (le_n _)).
  destruct (q_loop_some eh (length rest) rest (le_n _)) as [y ->]. reflexivity.
Qed.

(* induction over the iterations of the encoder's loop *)
Lemma chunk_ind : forall eh (P : str -> Prop),
  P [] ->
  (forall x out rest, x <> [] -> q_step eh x = Some (out, rest) -> P rest -> P x) ->
  forall x, P x.
Proof.
  intros eh P H0 Hs x. remember (length x) as n eqn:Hn. revert x Hn.
  induction n as [n IH] using lt_wf_ind. intros x Hn.
  destruct x as [|c t]; [exact H0|].
  destruct (q_step_total eh (c :: t)) as (out & rest & E); [discriminate|].
  apply (Hs _ out rest); [discriminate|exact E|].
  apply (IH (length rest)); [|reflexivity]. pose proof (q_step_shrinks eh _ _ _ E). lia.
Qed.

(* ------------------------------------------------------------------ what the encoder emits *)

Definition is_dq (c : ascii) : bool := (byte c =? 34)%N.
Definition is_bsl (c : ascii) : bool := (byte c =? 92)%N.

(* JSON's rule inside a string literal: a backslash escapes the next byte.  e = "the previous byte was an
   unescaped backslash"; None = an unescaped double quote occurs; Some e' = the state after the bytes *)
Fixpoint esc_run (e : bool) (b : str) : option bool :=
  match b with
  | [] => Some e
  | c :: t => if is_dq c && negb e then None else esc_run (negb e && is_bsl c) t
  end.

Lemma esc_run_app : forall u v e,
  esc_run e (u ++ v) = match esc_run e u with Some e' => esc_run e' v | None => None end.
Proof.
  induction u as [|c u IH]; intros v e; [reflexivity|]. cbn [app esc_run].
  destruct (is_dq c && negb e); [reflexivity|apply IH].
Qed.

(* every escape the encoder writes is complete: it starts and ends outside an escape and holds no bare quote *)
Lemma esc_ascii_run : forall eh c, esc_run false (esc_ascii eh c) = Some false.
Proof. intros eh c. destruct c as [[] [] [] [] [] [] [] []]; destruct eh; reflexivity. Qed.

Lemma byte_a_of : forall n, (n < 256)%N -> byte (a_of n) = n.
Proof. intros n H. unfold byte, a_of. now apply N_ascii_embedding. Qed.

Lemma hexdig_plain : forall d, (d < 16)%N -> is_dq (hexdig d) = false /\ is_bsl (hexdig d) = false.
Proof.
  intros d H. unfold hexdig, is_dq, is_bsl. destruct (d <? 10)%N eqn:E.
  - apply N.ltb_lt in E. rewrite byte_a_of by lia. split; apply N.eqb_neq; lia.
  - apply N.ltb_ge in E. rewrite byte_a_of by lia. split; apply N.eqb_neq; lia.
Qed.

Lemma high_plain : forall c, high c = true -> is_dq c = false /\ is_bsl c = false.
Proof. intros c H. unfold high in H. apply N.leb_le in H. unfold is_dq, is_bsl. split; apply N.eqb_neq; lia. Qed.

Lemma high_run : forall u, forallb high u = true -> esc_run false u = Some false.
Proof.
  induction u as [|c u IH]; intro H; [reflexivity|]. cbn in H. apply andb_true_iff in H as [Hc Hu].
  destruct (high_plain c Hc) as [Hd Hb]. cbn. rewrite Hd, Hb. cbn. now apply IH.
Qed.

Lemma is_2028_lt : forall x d, is_2028 x = Some d -> (d < 16)%N.
Proof.
  intros x d H. destruct x as [|c0 [|c1 [|c2 t]]]; try discriminate. cbn in H.
  destruct ((byte c0 =? 226)%N && (byte c1 =? 128)%N && ((byte c2 =? 168)%N || (byte c2 =? 169)%N)); [|discriminate].
  injection H as <-. apply N.mod_lt. lia.
Qed.

Lemma firstn_ne : forall (x : str) n, 1 <= n -> x <> [] -> firstn n x <> [].
Proof. intros x n Hn Hx. destruct x; [congruence|]. destruct n; [lia|]. discriminate. Qed.

(* one iteration: it consumes a non-empty prefix `pre` of x and emits a non-empty, complete unit *)
Lemma q_step_spec : forall eh x out rest, q_step eh x = Some (out, rest) ->
  exists pre, x = pre ++ rest /\ pre <> [] /\ out <> [] /\ esc_run false out = Some false.
Proof.
  intros eh x out rest H. destruct x as [|c t]; [discriminate|]. cbn [q_step] in H.
  destruct (byte c <? 128)%N eqn:Ec.
  - injection H as <- <-. exists [c]. split; [reflexivity|]. split; [discriminate|]. split; [|apply esc_ascii_run].
    destruct c as [[] [] [] [] [] [] [] []]; destruct eh; discriminate.
  - assert (Hh : high c = true) by (unfold high; apply N.leb_le; apply N.ltb_ge in Ec; lia).
    destruct (rune_size (c :: t)) as [n|] eqn:E.
    + destruct (rune_size_pos _ _ E) as [Hn Hl].
      destruct (rune_bytes _ _ E Hh) as [Hall _].
      destruct (is_2028 (c :: t)) as [d|] eqn:E2; injection H as <- <-; exists (firstn n (c :: t)).
      * destruct (hexdig_plain d (is_2028_lt _ _ E2)) as [Hd Hb].
        split; [symmetry; apply firstn_skipn|]. split; [now apply firstn_ne|]. split; [discriminate|].
        cbn. rewrite Hd, Hb. reflexivity.
      * split; [symmetry; apply firstn_skipn|]. split; [now apply firstn_ne|]. split; [now apply firstn_ne|].
        now apply high_run.
    + injection H as <- <-. exists [c]. split; [reflexivity|]. split; [discriminate|]. split; [discriminate|reflexivity].
Qed.

(* inside a literal the encoder wrote, JSON's escape rule never meets a bare quote and ends outside an escape -
   for every string, also one that ends in a backslash *)
Lemma quote_body_run : forall eh x, esc_run false (quote_body eh x) = Some false.
Proof.
  intros eh. induction x as [|x out rest Hx E IH] using (chunk_ind eh); [reflexivity|].
  rewrite (quote_body_step eh x out rest Hx E).
  destruct (q_step_spec _ _ _ _ E) as (pre & _ & _ & _ & Hr).
  now rewrite esc_run_app, Hr.
Qed.

Lemma quote_body_nil_iff : forall eh x, quote_body eh x = [] -> x = [].
Proof.
  intros eh x H. destruct x as [|c t]; [reflexivity|].
  destruct (q_step_total eh (c :: t)) as (out & rest & E); [discriminate|].
  rewrite (quote_body_step eh _ out rest) in H by (discriminate || exact E).
  destruct (q_step_spec _ _ _ _ E) as (pre & _ & _ & Ho & _). destruct out; [congruence|discriminate].
Qed.

(* ------------------------------------------------------------------ the structure json.Marshal writes *)

Lemma jinsert_Forall {A} (P : str * A -> Prop) : forall kv l, P kv -> Forall P l -> Forall P (jinsert kv l).
Proof.
  intros kv l Hkv Hl. induction Hl as [|a l Ha Hl IH]; cbn; [auto|].
  destruct (str_leb (fst kv) (fst a)); auto.
Qed.
Lemma jsort_Forall {A} (P : str * A -> Prop) : forall l, Forall P l -> Forall P (jsort l).
Proof. intros l H. induction H; cbn; [constructor|]. now apply jinsert_Forall. Qed.

Lemma kids_map : forall eh m,
  (fix go (m : entries) : list (str * list seg) :=
     match m with [] => [] | (k, x) :: t => (k, segments eh x) :: go t end) m
  = map (fun kx => (fst kx, segments eh (snd kx))) m.
Proof. intro eh. induction m as [|[k x] m IH]; [reflexivity|]. cbn [map fst snd]. rewrite <- IH. reflexivity. Qed.
Lemma elems_map : forall eh l,
  (fix go (l : list value) : list (list seg) :=
     match l with [] => [] | x :: t => segments eh x :: go t end) l = map (segments eh) l.
Proof. intro eh. induction l as [|x l IH]; [reflexivity|]. cbn [map]. rewrite <- IH. reflexivity. Qed.

Definition entry_segs (eh : bool) (kx : str * list seg) : list seg := SQ (quote_body eh (fst kx)) :: sp1 ":" :: snd kx.

Lemma segments_vmap : forall eh m, segments eh (VMap m) =
  sp1 "{" :: sep_by (sp1 ",") (map (entry_segs eh) (jsort (map (fun kx => (fst kx, segments eh (snd kx))) m))) ++ [sp1 "}"].
Proof. intros eh m. cbn [segments]. rewrite kids_map. reflexivity. Qed.
Lemma segments_vlist : forall eh l, segments eh (VList l) = sp1 "[" :: sep_by (sp1 ",") (map (segments eh) l) ++ [sp1 "]"].
Proof. intros eh l. cbn [segments]. rewrite elems_map. reflexivity. Qed.


Lemma jinsert_map_snd {A B} (g : A -> B) : forall kv (l : list (str * A)),
  jinsert (fst kv, g (snd kv)) (map (fun kx => (fst kx, g (snd kx))) l) = map (fun kx => (fst kx, g (snd kx))) (jinsert kv l).
Proof.
  intros kv l. induction l as [|a l IH]; [reflexivity|]. cbn [map jinsert fst snd].
  destruct (str_leb (fst kv) (fst a)); [reflexivity|]. cbn [map]. now rewrite IH.
Qed.
(* sorting by key commutes with a change of the values *)
Lemma jsort_map_snd {A B} (g : A -> B) : forall (l : list (str * A)),
  jsort (map (fun kx => (fst kx, g (snd kx))) l) = map (fun kx => (fst kx, g (snd kx))) (jsort l).
Proof.
  induction l as [|a l IH]; [reflexivity|]. cbn [map jsort fold_right]. fold (jsort l).
  fold (jsort (map (fun kx => (fst kx, g (snd kx))) l)). rewrite IH. apply (jinsert_map_snd g a).
Qed.
