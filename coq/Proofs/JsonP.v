(* Lemmas about the string layer of encoding/json as modelled in Model/Json.v:
   the chunk loops, the shape of what the string encoder emits, UTF-8 runes. *)
From Mxj Require Import Model.Json.
Import ListNotations.

(* ------------------------------------------------------------------ chunk_loop *)

Definition shrinks (step : str -> option (str * str)) : Prop :=
  forall x out rest, step x = Some (out, rest) -> length rest < length x.

Lemma chunk_loop_fuel : forall step, shrinks step ->
  forall f1 f2 x, length x <= f1 -> length x <= f2 -> chunk_loop step f1 x = chunk_loop step f2 x.
Proof.
  intros step Hs. induction f1 as [|f1 IH]; intros f2 x H1 H2.
  - destruct x; [destruct f2; reflexivity|cbn in H1; lia].
  - destruct x as [|c t]; [destruct f2; reflexivity|].
    destruct f2 as [|f2]; [cbn in H2; lia|]. cbn.
    destruct (step (c :: t)) as [[out rest]|] eqn:E; [|reflexivity].
    pose proof (Hs _ _ _ E) as Hl. cbn in *. f_equal. apply IH; lia.
Qed.

Lemma chunk_loop_step : forall step, shrinks step ->
  forall x out rest fuel, x <> [] -> step x = Some (out, rest) -> length x <= fuel ->
  chunk_loop step fuel x = option_map (app out) (chunk_loop step (length rest) rest).
Proof.
  intros step Hs x out rest fuel Hx E Hf. destruct x as [|c t]; [congruence|].
  destruct fuel; [cbn in Hf; lia|]. cbn. rewrite E. f_equal.
  pose proof (Hs _ _ _ E) as Hl. cbn in *. apply chunk_loop_fuel; [assumption|lia|lia].
Qed.

Lemma chunk_loop_none : forall step x fuel, x <> [] -> step x = None -> chunk_loop step fuel x = None.
Proof. intros step x fuel Hx E. destruct x; [congruence|]. destruct fuel; cbn; [reflexivity|now rewrite E]. Qed.

(* ------------------------------------------------------------------ runes *)

Lemma rune_size_pos : forall x n, rune_size x = Some n -> 1 <= n /\ n <= length x.
Proof.
  intros x n H. destruct x as [|c0 t]; [discriminate|]. cbn in H.
  destruct (byte c0 <? 128)%N; [injection H as <-; cbn; lia|].
  destruct (first_info (byte c0)) as [[[sz lo] hi]|]; [|discriminate].
  destruct sz as [|[|[|[|[|sz]]]]]; try discriminate.
  - destruct t as [|c1 t]; [discriminate|]. destruct (inrng lo hi (byte c1)); [|discriminate]. injection H as <-. cbn. lia.
  - destruct t as [|c1 [|c2 t]]; try discriminate. destruct (inrng lo hi (byte c1) && is_cont c2); [|discriminate].
    injection H as <-. cbn. lia.
  - destruct t as [|c1 [|c2 [|c3 t]]]; try discriminate.
    destruct (inrng lo hi (byte c1) && is_cont c2 && is_cont c3); [|discriminate]. injection H as <-. cbn. lia.
Qed.

Lemma first_info_size : forall n sz lo hi, first_info n = Some (sz, lo, hi) ->
  (sz = 2 \/ sz = 3 \/ sz = 4) /\ (128 <= lo)%N.
Proof.
  intros n sz lo hi H. unfold first_info in H.
  repeat match type of H with
         | (if ?c then _ else _) = _ => destruct c; [injection H as <- <- <-; split; [auto|lia]|]
         end. discriminate.
Qed.

Definition high (c : ascii) : bool := (128 <=? byte c)%N.

Lemma inrng_high : forall lo hi c, (128 <= lo)%N -> inrng lo hi (byte c) = true -> high c = true.
Proof.
  intros lo hi c Hlo H. unfold inrng in H. apply andb_true_iff in H as [H _].
  apply N.leb_le in H. unfold high. apply N.leb_le. lia.
Qed.
Lemma is_cont_high : forall c, is_cont c = true -> high c = true.
Proof. intros c H. apply (inrng_high 128 191 c); [lia|exact H]. Qed.

(* the bytes of a multi-byte rune are all >= 0x80, and the size depends on them only *)
Lemma rune_bytes : forall x n, rune_size x = Some n ->
  match x with c :: _ => high c = true | [] => False end ->
  forallb high (firstn n x) = true /\ forall y, rune_size (firstn n x ++ y) = Some n.
Proof.
  intros x n H Hc. destruct x as [|c0 t]; [contradiction|].
  unfold high in Hc. apply N.leb_le in Hc.
  assert (Hlt : (byte c0 <? 128)%N = false) by (apply N.ltb_ge; lia).
  cbn in H. rewrite Hlt in H.
  destruct (first_info (byte c0)) as [[[sz lo] hi]|] eqn:Ef; [|discriminate].
  destruct (first_info_size _ _ _ _ Ef) as [_ Hlo].
  assert (Hh0 : high c0 = true) by (unfold high; apply N.leb_le; lia).
  destruct sz as [|[|[|[|[|sz]]]]]; try discriminate.
  - destruct t as [|c1 t]; [discriminate|]. destruct (inrng lo hi (byte c1)) eqn:E1; [|discriminate]. injection H as <-.
    split.
    + cbn. rewrite Hh0, (inrng_high _ _ _ Hlo E1). reflexivity.
    + intro y. cbn. rewrite Hlt, Ef, E1. reflexivity.
  - destruct t as [|c1 [|c2 t]]; try discriminate.
    destruct (inrng lo hi (byte c1)) eqn:E1; [|discriminate]. destruct (is_cont c2) eqn:E2; [|discriminate].
    injection H as <-. split.
    + cbn. rewrite Hh0, (inrng_high _ _ _ Hlo E1), (is_cont_high _ E2). reflexivity.
    + intro y. cbn. rewrite Hlt, Ef, E1, E2. reflexivity.
  - destruct t as [|c1 [|c2 [|c3 t]]]; try discriminate.
    destruct (inrng lo hi (byte c1)) eqn:E1; [|discriminate]. destruct (is_cont c2) eqn:E2; [|discriminate].
    destruct (is_cont c3) eqn:E3; [|discriminate].
    injection H as <-. split.
    + cbn. rewrite Hh0, (inrng_high _ _ _ Hlo E1), (is_cont_high _ E2), (is_cont_high _ E3). reflexivity.
    + intro y. cbn. rewrite Hlt, Ef, E1, E2, E3. reflexivity.
Qed.

(* ------------------------------------------------------------------ the string encoder *)

Lemma q_step_shrinks : forall eh, shrinks (q_step eh).
Proof.
  intros eh x out rest H. destruct x as [|c t]; [discriminate|]. cbn [q_step] in H.
  destruct (byte c <? 128)%N; [injection H as _ <-; cbn; lia|].
  destruct (rune_size (c :: t)) as [n|] eqn:E; [|injection H as _ <-; cbn; lia].
  destruct (rune_size_pos _ _ E) as [Hn Hl].
  destruct (is_2028 (c :: t)); injection H as _ <-; rewrite skipn_length; lia.
Qed.

Lemma q_step_total : forall eh x, x <> [] -> exists out rest, q_step eh x = Some (out, rest).
Proof.
  intros eh x Hx. destruct x as [|c t]; [congruence|]. cbn [q_step].
  destruct (byte c <? 128)%N; [eauto|]. destruct (rune_size (c :: t)); [|eauto]. destruct (is_2028 (c :: t)); eauto.
Qed.

Lemma q_loop_some : forall eh fuel x, length x <= fuel -> exists y, chunk_loop (q_step eh) fuel x = Some y.
Proof.
  intros eh. induction fuel as [|f IH]; intros x H.
  - destruct x; [eexists; reflexivity|cbn in H; lia].
  - destruct x as [|c t]; [eexists; reflexivity|].
    destruct (q_step_total eh (c :: t)) as (out & rest & E); [discriminate|].
    cbn [chunk_loop]. rewrite E. pose proof (q_step_shrinks eh _ _ _ E) as Hl.
    destruct (IH rest) as [y Hy]; [cbn in *; lia|]. rewrite Hy. eexists. reflexivity.
Qed.

Lemma quote_body_nil : forall eh, quote_body eh [] = [].
Proof. reflexivity. Qed.

Lemma quote_body_step : forall eh x out rest, x <> [] -> q_step eh x = Some (out, rest) ->
  quote_body eh x = out ++ quote_body eh rest.
Proof.
  intros eh x out rest Hx E. unfold quote_body.
  rewrite (chunk_loop_step _ (q_step_shrinks eh) x out rest (length x) Hx E (le_n _)).
  destruct (q_loop_some eh (length rest) rest (le_n _)) as [y ->]. reflexivity.
Qed.

(* induction over the iterations of the encoder's loop *)
Lemma chunk_ind : forall eh (P : str -> Prop),
  P [] ->
  (forall x out rest, x <> [] -> q_step eh x = Some (out, rest) -> P rest -> P x) ->
  forall x, P x.
Proof.
  intros eh P H0 Hs x. remember (length x) as n eqn:Hn. revert x Hn.
  induction n as [n IH] using lt_wf_ind. intros x Hn.
  destruct x as [|c t]; [exact H0|].
  destruct (q_step_total eh (c :: t)) as (out & rest & E); [discriminate|].
  apply (Hs _ out rest); [discriminate|exact E|].
  apply (IH (length rest)); [|reflexivity]. pose proof (q_step_shrinks eh _ _ _ E). lia.
Qed.

(* ------------------------------------------------------------------ what the encoder emits *)

Definition is_dq (c : ascii) : bool := (byte c =? 34)%N.
Definition is_bsl (c : ascii) : bool := (byte c =? 92)%N.

(* every double quote is immediately preceded by a backslash; p = "the byte before is a backslash" *)
Fixpoint qesc (p : bool) (b : str) : bool :=
  match b with
  | [] => true
  | c :: t => (if is_dq c then p else true) && qesc (is_bsl c) t
  end.
(* what one iteration emits: non-empty, does not start with a quote, quotes inside are escaped *)
Definition unit_okb (u : str) : bool :=
  match u with [] => false | h :: _ => negb (is_dq h) && qesc false u end.

Lemma esc_ascii_unit : forall eh c, unit_okb (esc_ascii eh c) = true.
Proof. intros eh c. destruct c as [[] [] [] [] [] [] [] []]; destruct eh; reflexivity. Qed.
Lemma esc_ascii_last : forall eh c, is_bsl (last (esc_ascii eh c) dq) = is_bsl c.
Proof. intros eh c. destruct c as [[] [] [] [] [] [] [] []]; destruct eh; reflexivity. Qed.

Lemma byte_a_of : forall n, (n < 256)%N -> byte (a_of n) = n.
Proof. intros n H. unfold byte, a_of. now apply N_ascii_embedding. Qed.

Lemma hexdig_plain : forall d, (d < 16)%N -> is_dq (hexdig d) = false /\ is_bsl (hexdig d) = false.
Proof.
  intros d H. unfold hexdig, is_dq, is_bsl. destruct (d <? 10)%N eqn:E.
  - apply N.ltb_lt in E. rewrite byte_a_of by lia. split; apply N.eqb_neq; lia.
  - apply N.ltb_ge in E. rewrite byte_a_of by lia. split; apply N.eqb_neq; lia.
Qed.

Lemma high_plain : forall c, high c = true -> is_dq c = false /\ is_bsl c = false.
Proof. intros c H. unfold high in H. apply N.leb_le in H. unfold is_dq, is_bsl. split; apply N.eqb_neq; lia. Qed.

Lemma high_qesc : forall u p, forallb high u = true -> qesc p u = true.
Proof.
  induction u as [|c u IH]; intros p H; [reflexivity|]. cbn in H. apply andb_true_iff in H as [Hc Hu].
  destruct (high_plain c Hc) as [Hd Hb]. cbn. rewrite Hd, Hb. cbn. now apply IH.
Qed.
Lemma high_last : forall u, forallb high u = true -> is_bsl (last u dq) = false.
Proof.
  induction u as [|c u IH]; intro H; [reflexivity|]. cbn in H. apply andb_true_iff in H as [Hc Hu].
  destruct u as [|c' u]; [exact (proj2 (high_plain c Hc))|]. change (last (c :: c' :: u) dq) with (last (c' :: u) dq). now apply IH.
Qed.

Lemma is_2028_lt : forall x d, is_2028 x = Some d -> (d < 16)%N.
Proof.
  intros x d H. destruct x as [|c0 [|c1 [|c2 t]]]; try discriminate. cbn in H.
  destruct ((byte c0 =? 226)%N && (byte c1 =? 128)%N && ((byte c2 =? 168)%N || (byte c2 =? 169)%N)); [|discriminate].
  injection H as <-. apply N.mod_lt. lia.
Qed.

Lemma firstn_skipn_ne : forall (x : str) n, 1 <= n -> x <> [] -> firstn n x <> [].
Proof. intros x n Hn Hx. destruct x; [congruence|]. destruct n; [lia|]. discriminate. Qed.

(* one iteration: it consumes a non-empty prefix `pre` of x and emits a well-shaped unit that ends in a
   backslash exactly when pre does *)
Lemma q_step_spec : forall eh x out rest, q_step eh x = Some (out, rest) ->
  exists pre, x = pre ++ rest /\ pre <> [] /\ unit_okb out = true /\
              is_bsl (last out dq) = is_bsl (last pre dq).
Proof.
  intros eh x out rest H. destruct x as [|c t]; [discriminate|]. cbn [q_step] in H.
  destruct (byte c <? 128)%N eqn:Ec.
  - injection H as <- <-. exists [c]. split; [reflexivity|]. split; [discriminate|]. split; [apply esc_ascii_unit|apply esc_ascii_last].
  - assert (Hh : high c = true) by (unfold high; apply N.leb_le; apply N.ltb_ge in Ec; lia).
    destruct (rune_size (c :: t)) as [n|] eqn:E.
    + destruct (rune_size_pos _ _ E) as [Hn Hl].
      destruct (rune_bytes _ _ E Hh) as [Hall _].
      destruct (is_2028 (c :: t)) as [d|] eqn:E2; injection H as <- <-; exists (firstn n (c :: t)).
      * destruct (hexdig_plain d (is_2028_lt _ _ E2)) as [Hd Hb].
        split; [symmetry; apply firstn_skipn|]. split; [now apply firstn_skipn_ne|]. split.
        -- cbn. rewrite Hd. reflexivity.
        -- cbn [last]. rewrite Hb. symmetry. now apply high_last.
      * split; [symmetry; apply firstn_skipn|]. split; [now apply firstn_skipn_ne|]. split; [|reflexivity].
        destruct n; [lia|]. cbn [firstn] in *. cbn [forallb] in Hall. apply andb_true_iff in Hall as [_ Hall'].
        cbn [unit_okb]. rewrite (proj1 (high_plain c Hh)). cbn [negb andb].
        apply high_qesc. cbn. rewrite Hh. exact Hall'.
    + injection H as <- <-. exists [c]. split; [reflexivity|]. split; [discriminate|]. split; [reflexivity|].
      cbn. symmetry. exact (proj2 (high_plain c Hh)).
Qed.

Lemma qesc_app : forall u v p, u <> [] -> qesc p (u ++ v) = qesc p u && qesc (is_bsl (last u dq)) v.
Proof.
  induction u as [|c u IH]; intros v p Hu; [congruence|].
  destruct u as [|c' u].
  - cbn. now rewrite andb_true_r.
  - change ((c :: c' :: u) ++ v) with (c :: (c' :: u) ++ v). cbn [qesc].
    rewrite IH by discriminate. change (last (c :: c' :: u) dq) with (last (c' :: u) dq).
    now rewrite andb_assoc.
Qed.

Lemma qesc_head : forall v p, match v with h :: _ => is_dq h = false | [] => True end -> qesc p v = qesc false v.
Proof. intros [|h v] p H; [reflexivity|]. cbn. now rewrite H. Qed.

Lemma unit_head : forall u v, unit_okb u = true -> match u ++ v with h :: _ => is_dq h = false | [] => True end.
Proof. intros [|h u] v H; [discriminate|]. cbn in *. apply andb_true_iff in H as [H _]. now apply negb_true_iff in H. Qed.

Lemma quote_body_head : forall eh x, match quote_body eh x with h :: _ => is_dq h = false | [] => True end.
Proof.
  intros eh x. destruct x as [|c t]; [exact I|].
  destruct (q_step_total eh (c :: t)) as (out & rest & E); [discriminate|].
  rewrite (quote_body_step eh _ out rest) by (discriminate || exact E).
  destruct (q_step_spec _ _ _ _ E) as (pre & _ & _ & Hu & _). now apply unit_head.
Qed.

(* inside a literal the encoder wrote, every quote is escaped *)
Lemma quote_body_qesc : forall eh x p, qesc p (quote_body eh x) = true.
Proof.
  intros eh x p. rewrite qesc_head by apply quote_body_head. clear p.
  induction x as [|x out rest Hx E IH] using (chunk_ind eh); [reflexivity|].
  rewrite (quote_body_step eh x out rest Hx E).
  destruct (q_step_spec _ _ _ _ E) as (pre & _ & _ & Hu & _).
  assert (Ho : out <> []) by (destruct out; [discriminate|discriminate]).
  rewrite qesc_app by exact Ho. rewrite (qesc_head (quote_body eh rest)) by apply quote_body_head.
  rewrite IH, andb_true_r. destruct out; [discriminate|]. cbn in Hu. now apply andb_true_iff in Hu as [_ Hu].
Qed.

Lemma quote_body_nil_iff : forall eh x, quote_body eh x = [] -> x = [].
Proof.
  intros eh x H. destruct x as [|c t]; [reflexivity|].
  destruct (q_step_total eh (c :: t)) as (out & rest & E); [discriminate|].
  rewrite (quote_body_step eh _ out rest) in H by (discriminate || exact E).
  destruct (q_step_spec _ _ _ _ E) as (pre & _ & _ & Hu & _). destruct out; [discriminate|discriminate].
Qed.

Lemma last_app_ne {A} : forall (u v : list A) d, v <> [] -> last (u ++ v) d = last v d.
Proof.
  induction u as [|a u IH]; intros v d Hv; [reflexivity|].
  cbn [app]. destruct (u ++ v) eqn:E.
  - apply app_eq_nil in E as [_ ->]. congruence.
  - rewrite <- E. cbn [last]. rewrite E. rewrite <- E. now apply IH.
Qed.

(* the body ends in a backslash exactly when the string does *)
Lemma quote_body_last : forall eh x, is_bsl (last (quote_body eh x) dq) = is_bsl (last x dq).
Proof.
  intros eh. induction x as [|x out rest Hx E IH] using (chunk_ind eh); [reflexivity|].
  rewrite (quote_body_step eh x out rest Hx E).
  destruct (q_step_spec _ _ _ _ E) as (pre & -> & Hp & Hu & Hl).
  destruct rest as [|r rest].
  - rewrite quote_body_nil, !app_nil_r. exact Hl.
  - rewrite (last_app_ne pre) by discriminate.
    rewrite last_app_ne; [exact IH|]. intro H. apply quote_body_nil_iff in H. discriminate.
Qed.
