(* Stage 2 (shared by C02 and C03): the decoder's building blocks on the shapes the
   encoder produces.  [imgsG] of a map in one uniform form; adding the elements of
   sorted, distinct child keys appends one entry per key; attribute entries with
   distinct keys are a plain map. *)
From Mxj Require Import Spec.Items Spec.Img Proofs.StrLemmas Proofs.XmlStr Proofs.XmlItems Proofs.XmlRT Proofs.XmlWF.
From Coq Require Import Permutation.

(* ---------------- association lists ---------------- *)
Lemma lookup_none_notin k m : lookup k m = None <-> ~ In k (map fst m).
Proof.
  induction m as [|[k' v'] t IH]; cbn [lookup map fst].
  - split; [intros _ [] | reflexivity].
  - destruct (str_eqb k k') eqn:E.
    + apply str_eqb_eq in E. subst. split; [discriminate | intro H; exfalso; apply H; left; reflexivity].
    + apply str_eqb_neq in E. rewrite IH. split.
      * intros H [H1|H1]; [congruence | exact (H H1)].
      * intros H H1. apply H. right. exact H1.
Qed.
Lemma lookup_app_fresh k v m : lookup k m = None -> lookup k (m ++ [(k, v)]) = Some v.
Proof.
  induction m as [|[k' v'] t IH]; cbn [lookup app].
  - rewrite str_eqb_refl. reflexivity.
  - destruct (str_eqb k k'); [discriminate | exact IH].
Qed.
Lemma set_fresh k v m : lookup k m = None -> set k v m = m ++ [(k, v)].
Proof.
  induction m as [|[k' v'] t IH]; cbn [lookup set app]; [reflexivity|].
  destruct (str_eqb k k'); [discriminate|]. intro H. rewrite (IH H). reflexivity.
Qed.
Lemma set_app_last k v v' m : lookup k m = None -> set k v' (m ++ [(k, v)]) = m ++ [(k, v')].
Proof.
  induction m as [|[k' w] t IH]; cbn [lookup set app].
  - rewrite str_eqb_refl. reflexivity.
  - destruct (str_eqb k k'); [discriminate|]. intro H. rewrite (IH H). reflexivity.
Qed.
Lemma lookup_app_other k k' v m : k <> k' -> lookup k (m ++ [(k', v)]) = lookup k m.
Proof.
  intro Hne. induction m as [|[k2 w] t IH]; cbn [lookup app].
  - apply str_eqb_neq in Hne. rewrite Hne. reflexivity.
  - destruct (str_eqb k k2); [reflexivity | exact IH].
Qed.
Lemma lookup_in_nodup k v m : NoDup (map fst m) -> In (k, v) m -> lookup k m = Some v.
Proof.
  induction m as [|[k' v'] t IH]; cbn [map fst lookup]; [intros _ []|].
  intros Hnd [Hin|Hin].
  - inversion Hin; subst. rewrite str_eqb_refl. reflexivity.
  - inversion Hnd as [|? ? Hn Hd]; subst. destruct (str_eqb k k') eqn:E.
    + apply str_eqb_eq in E. subst. exfalso. apply Hn. apply in_map_iff. exists (k', v). auto.
    + apply IH; assumption.
Qed.

(* a fold of [set] over entries with distinct fresh keys appends them *)
Lemma fold_set_fresh (L : entries) : forall na,
  NoDup (map fst L) -> (forall k, In k (map fst L) -> lookup k na = None) ->
  fold_left (fun na e => set (fst e) (snd e) na) L na = na ++ L.
Proof.
  induction L as [|[k v] t IH]; intros na Hnd Hfr; cbn [fold_left fst snd].
  - rewrite app_nil_r. reflexivity.
  - inversion Hnd as [|? ? Hn Hd]; subst. rewrite set_fresh by (apply Hfr; left; reflexivity).
    rewrite IH; [rewrite <- app_assoc; reflexivity | exact Hd |].
    intros k2 Hk2. destruct (str_eqb k2 k) eqn:E.
    + apply str_eqb_eq in E. subst. contradiction.
    + apply str_eqb_neq in E. rewrite lookup_app_other by exact E. apply Hfr. right. exact Hk2.
Qed.

Lemma fold_left_map' {A B C} (f : A -> B -> A) (g : C -> B) l a :
  fold_left f (map g l) a = fold_left (fun a x => f a (g x)) l a.
Proof. revert a. induction l as [|x l IH]; intro a; cbn [map fold_left]; [reflexivity | apply IH]. Qed.

(* ---------------- adding the elements of one key ---------------- *)
Definition nonlist (x : value) : Prop := is_list x = false.

Lemma add_child_fresh k x na : lookup k na = None -> add_child k x na = na ++ [(k, x)].
Proof. intro H. unfold add_child. rewrite H. apply set_fresh, H. Qed.

Lemma add_more k na : lookup k na = None -> forall rest l,
  l <> [] -> Forall nonlist l -> Forall nonlist rest ->
  fold_left (fun na x => add_child k x na) rest (na ++ [(k, collapse l)]) = na ++ [(k, collapse (l ++ rest))].
Proof.
  intro Hfr. induction rest as [|x rest IH]; intros l Hl Hnl Hnr; cbn [fold_left].
  - rewrite app_nil_r. reflexivity.
  - inversion Hnr as [|? ? Hx Hr]; subst.
    assert (Hstep : add_child k x (na ++ [(k, collapse l)]) = na ++ [(k, collapse (l ++ [x]))]).
    { unfold add_child. rewrite (lookup_app_fresh _ _ _ Hfr).
      destruct l as [|a [|b l]]; [congruence| |].
      - cbn [collapse app]. inversion Hnl as [|? ? Ha _]; subst. unfold nonlist in Ha.
        destruct a; try discriminate Ha; apply set_app_last, Hfr.
      - cbn [collapse app]. apply set_app_last, Hfr. }
    rewrite Hstep, IH.
    + rewrite <- app_assoc. reflexivity.
    + destruct l; discriminate.
    + apply Forall_app. split; [exact Hnl | constructor; [exact Hx | constructor]].
    + exact Hr.
Qed.

Lemma add_key k xs na : lookup k na = None -> xs <> [] -> Forall nonlist xs ->
  fold_left (fun na x => add_child k x na) xs na = na ++ [(k, collapse xs)].
Proof.
  intros Hfr Hne Hnl. destruct xs as [|x rest]; [congruence|]. cbn [fold_left].
  rewrite add_child_fresh by exact Hfr. inversion Hnl; subst.
  apply (add_more k na Hfr rest [x]); [discriminate | constructor; [assumption | constructor] | assumption].
Qed.

Section G.
Variable pf : str -> option flt.
Variable o : opts.
Variable c : bool.
Hypothesis Htk : is_attr_key o (textK o) = false.

Notation imgsG := (imgsG pf o c).
Notation elem_val := (elem_val pf o c).
Notation aents := (attr_entries pf nskip o c).

(* kids: the children entries with their element images; keys are kept by the decoder *)
Lemma add_all_kids (kids : list (str * list value)) : forall na,
  NoDup (map fst kids) ->
  (forall kx, In kx kids -> xform_key o (fst kx) = fst kx /\ snd kx <> [] /\ Forall nonlist (snd kx) /\ lookup (fst kx) na = None) ->
  add_all (kid_pairs o kids) na = na ++ map (fun kx => (fst kx, collapse (snd kx))) kids.
Proof.
  induction kids as [|[k xs] t IH]; intros na Hnd Hk; cbn [kid_pairs flat_map map fst snd].
  - unfold add_all. cbn. rewrite app_nil_r. reflexivity.
  - inversion Hnd as [|? ? Hn Hd]; subst. rewrite add_all_app.
    destruct (Hk (k, xs) (or_introl eq_refl)) as [Hx [Hne [Hnl Hfr]]]. cbn [fst snd] in *.
    assert (H1 : add_all (map (pair (xform_key o k)) xs) na = na ++ [(k, collapse xs)]).
    { unfold add_all. rewrite fold_left_map'. cbn [fst snd]. rewrite Hx. apply add_key; assumption. }
    rewrite H1. fold (kid_pairs o t). rewrite IH.
    + rewrite <- app_assoc. reflexivity.
    + exact Hd.
    + intros kx Hin. destruct (Hk kx (or_intror Hin)) as [Hx2 [Hne2 [Hnl2 Hfr2]]].
      repeat split; try assumption.
      rewrite lookup_app_other; [exact Hfr2|]. intro Heq. apply Hn. rewrite <- Heq.
      apply in_map_iff. exists kx. auto.
Qed.

(* ---------------- the entries of a map, by kind ---------------- *)
Definition is_elem (k : str) : bool := negb (is_attr_key o k) && negb (str_eqb k (textK o)).
Definition is_attr_e (kv : str * value) : bool := is_attr_key o (fst kv).
Definition is_text_e (kv : str * value) : bool := negb (is_attr_key o (fst kv)) && str_eqb (fst kv) (textK o).
Definition is_elem_e (kv : str * value) : bool := is_elem (fst kv).

Lemma partition3 (vv : entries) :
  length vv = length (filter is_attr_e vv) + length (filter is_text_e vv) + length (filter is_elem_e vv).
Proof.
  induction vv as [|[k v] t IH]; [reflexivity|]. cbn [filter length].
  unfold is_attr_e, is_text_e, is_elem_e, is_elem. cbn [fst].
  destruct (is_attr_key o k), (str_eqb k (textK o)); cbn [negb andb length];
    unfold is_attr_e, is_text_e, is_elem_e, is_elem in IH; lia.
Qed.

Definition attrs_scalar (vv : entries) : Prop :=
  forall k v, In (k, v) vv -> is_attr_key o k = true -> attr_text o v <> None.

Lemma attr_pairs_length vv : attrs_scalar vv -> length (attr_pairs o vv) = length (filter is_attr_e vv).
Proof.
  induction vv as [|[k v] t IH]; intro Hs; [reflexivity|]. cbn [attr_pairs filter]. unfold is_attr_e at 1. cbn [fst].
  assert (Hs' : attrs_scalar t) by (intros k2 v2 Hin; apply Hs; right; exact Hin).
  destruct (is_attr_key o k) eqn:Ek; [|apply IH, Hs'].
  destruct (attr_text o v) eqn:Ev; [|exfalso; exact (Hs k v (or_introl eq_refl) Ek Ev)].
  cbn [length]. f_equal. apply IH, Hs'.
Qed.

Lemma text_count vv : NoDup (map fst vv) ->
  length (filter is_text_e vv) = match lookup (textK o) vv with Some _ => 1 | None => 0 end.
Proof.
  induction vv as [|[k v] t IH]; intro Hnd; [reflexivity|].
  inversion Hnd as [|? ? Hn Hd]; subst. cbn [filter lookup]. unfold is_text_e at 1. cbn [fst].
  rewrite (str_eqb_sym (textK o) k).
  destruct (str_eqb k (textK o)) eqn:E.
  - apply str_eqb_eq in E. subst k. rewrite Htk. cbn [negb andb length].
    rewrite IH by exact Hd. apply lookup_none_notin in Hn. rewrite Hn. reflexivity.
  - rewrite andb_false_r. apply IH, Hd.
Qed.

Lemma filter_nil_length {A} (p : A -> bool) l : length (filter p l) = 0 -> filter p l = [].
Proof. destruct (filter p l); [reflexivity | discriminate]. Qed.

(* the uniform form of [imgsG] on a map *)
Definition map_txt (vv : entries) : str :=
  match lookup (textK o) vv with Some tv => unescape (text_text o tv) | None => [] end.
Definition map_kids (vv : entries) : list (str * list value) :=
  map (fun kv => (fst kv, imgsG (snd kv) (fst kv))) (sort_by_key (filter is_elem_e vv)).

Lemma imgsG_map vv key : NoDup (map fst vv) -> attrs_scalar vv ->
  imgsG (VMap vv) key =
  [elem_val (xform_key o key) (aents (map mkattr (sort_by_key (attr_pairs o vv)))) (map_txt vv)
            (kid_pairs o (map_kids vv))].
Proof.
  intros Hnd Hs. cbn [XmlRT.imgsG]. f_equal.
  rewrite sort_by_key_length, (attr_pairs_length vv Hs).
  pose proof (partition3 vv) as Hp. pose proof (text_count vv Hnd) as Ht.
  set (g := fun kv : str * value => (fst kv, imgsG (snd kv) (fst kv))).
  unfold map_kids, map_txt. fold g.
  rewrite (filter_map_key (is_kid_t o) g) by reflexivity.
  rewrite (filter_map_key (is_kid_n o) g) by reflexivity.
  rewrite !(sort_by_key_map g) by reflexivity.
  destruct (Nat.eqb (length (filter is_attr_e vv)) (length vv)) eqn:En.
  - apply Nat.eqb_eq in En.
    assert (Hk0 : filter is_elem_e vv = []) by (apply filter_nil_length; lia).
    rewrite Hk0. destruct (lookup (textK o) vv); [lia | reflexivity].
  - destruct (lookup (textK o) vv) as [tv|] eqn:Et.
    + destruct (Nat.eqb (S (length (filter is_attr_e vv))) (length vv)) eqn:En1.
      * apply Nat.eqb_eq in En1.
        assert (Hk0 : filter is_elem_e vv = []) by (apply filter_nil_length; lia).
        rewrite Hk0. reflexivity.
      * do 4 f_equal. apply filter_ext. intros [k v]. unfold is_kid_t, is_elem_e, is_elem. cbn [fst]. apply andb_comm.
    + do 4 f_equal. apply filter_ext_in. intros [k v] Hin. unfold is_kid_n, is_elem_e, is_elem. cbn [fst].
      destruct (str_eqb k (textK o)) eqn:E; [|rewrite andb_true_r; reflexivity].
      apply str_eqb_eq in E. subst k. exfalso. exact (lookup_none _ _ _ Et Hin).
Qed.

(* attribute entries with distinct names *)
Definition attr_ent (key : str) (nr : str * str) : str * value :=
  (attr_key o (fst nr),
   cast pf nskip o (if xmlEscapeCharsDecoder o then escape_chars (unescape (snd nr)) else unescape (snd nr)) c
        (attr_key o (fst nr))).

Lemma aents_map key (L : list (str * str)) :
  NoDup (map (fun nr => attr_key o (fst nr)) L) ->
  aents (map mkattr L) = map (attr_ent key) L.
Proof.
  intro Hnd. unfold attr_entries.
  assert (H : forall na, fold_left
            (fun na at_ => set (attr_key o (xlocal (aname at_)))
               (cast pf nskip o (if xmlEscapeCharsDecoder o then escape_chars (avalue at_) else avalue at_) c
                  (attr_key o (xlocal (aname at_)))) na) (map mkattr L) na =
          fold_left (fun na e => set (fst e) (snd e) na) (map (attr_ent key) L) na).
  { induction L as [|nr t IH]; intro na; [reflexivity|]. cbn [map fold_left].
    rewrite IH; [reflexivity|]. inversion Hnd; assumption. }
  rewrite H. rewrite fold_set_fresh; [reflexivity | |].
  - rewrite map_map. cbn [attr_ent fst]. exact Hnd.
  - intros. reflexivity.
Qed.

End G.
