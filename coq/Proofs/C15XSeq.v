(* C15: the sequence decoder (Model/SeqDec.v, xmlSeqToMapParser) is total on EVERY RawToken list -
   well nested or not, any names (the empty name included), every option record, both terminators:
   it returns a Map or an error value, never Panic (the fuel S (length ts) is never exhausted and the
   nil-map writes of the top-level activation are all guarded). *)
From Mxj Require Import Model.SeqDec Model.SeqEnc Proofs.StrLemmas.
Import ListNotations.

Section SeqTotal.
Variable pf : str -> option flt.
Variable skip : str -> bool.
Variable o : opts.
Variable r : bool.
Variable tm : term.

(* an activation returns an error value, or the singleton and strictly fewer tokens than it was given *)
Definition spost (ts : list tok) (x : res ((str * value) * list tok)) : Prop :=
  match x with Ok (_, rest) => length rest < length ts | Err _ => True | Panic => False end.

Lemma sloop_total : forall fuel skey na seq ts,
  length ts < fuel -> spost ts (sloop pf skip o r fuel skey na seq ts tm).
Proof.
  induction fuel as [|f IH]; intros skey na seq ts Hf; [lia|].
  destruct ts as [|t ts'].
  - cbn [sloop]. destruct tm; exact I.
  - cbn [length] in Hf. assert (Hf' : length ts' < f) by lia.
    destruct t as [nm a|nm|x|x|tg i|x]; cbn [sloop].
    + (* start tag: the recursive activation, then the rest of this element *)
      set (cna := if nonempty (snake o (xfull nm)) then seq_init_na pf skip o r a else []).
      set (C := if handleXMPPStreamTag o && str_eqb (snake o (xfull nm)) stream_stream
                then Ok ((snake o (xfull nm), VMap cna), ts')
                else sloop pf skip o r f (snake o (xfull nm)) cna 0%Z ts' tm).
      assert (HC : match C with Ok (_, rest) => length rest <= length ts' | Err _ => True | Panic => False end).
      { subst C. destruct (handleXMPPStreamTag o && str_eqb (snake o (xfull nm)) stream_stream).
        - cbn. lia.
        - pose proof (IH (snake o (xfull nm)) cna 0%Z ts' Hf') as HP.
          destruct (sloop pf skip o r f (snake o (xfull nm)) cna 0%Z ts' tm) as [[kv rest]| |]; cbn [spost] in HP.
          + lia.
          + exact I.
          + exact HP. }
      destruct skey as [|c k].
      * destruct C as [[kv rest]|e|]; cbn [spost length]; [lia|exact I|exact HC].
      * destruct C as [[[key val] rest]|e|]; [|exact I|exact HC].
        destruct (seq_inject o val seq) as [val' seq'].
        pose proof (IH (c :: k) (add_child key val' na) seq' rest ltac:(lia)) as HP.
        destruct (sloop pf skip o r f (c :: k) (add_child key val' na) seq' rest tm) as [[kv2 rest2]|e|];
          cbn [spost length] in *; [lia|exact I|exact HP].
    + (* end tag *)
      destruct skey as [|c k]; [exact I|].
      destruct (negb (str_eqb (c :: k) (full_name (xspace nm) (snake o (xlocal nm))))); [exact I|].
      cbn [spost length]. lia.
    + (* character data *)
      destruct skey as [|c k].
      * pose proof (IH [] na seq ts' Hf') as HP.
        destruct (sloop pf skip o r f [] na seq ts' tm) as [[kv rest]|e|]; cbn [spost length] in *; [lia|exact I|exact HP].
      * match goal with |- spost _ (if ?b then _ else _) => destruct b end.
        -- match goal with |- spost _ (sloop _ _ _ _ _ ?k ?n ?q _ _) => pose proof (IH k n q ts' Hf') as HP;
             destruct (sloop pf skip o r f k n q ts' tm) as [[kv rest]|e|] end;
             cbn [spost length] in *; [lia|exact I|exact HP].
        -- pose proof (IH (c :: k) na seq ts' Hf') as HP.
           destruct (sloop pf skip o r f (c :: k) na seq ts' tm) as [[kv rest]|e|]; cbn [spost length] in *; [lia|exact I|exact HP].
    + (* comment *)
      destruct skey as [|c k]; [exact I|].
      match goal with |- spost _ (sloop _ _ _ _ _ ?k ?n ?q _ _) => pose proof (IH k n q ts' Hf') as HP;
        destruct (sloop pf skip o r f k n q ts' tm) as [[kv rest]|e|] end;
        cbn [spost length] in *; [lia|exact I|exact HP].
    + (* processing instruction *)
      destruct skey as [|c k]; [exact I|].
      match goal with |- spost _ (sloop _ _ _ _ _ ?k ?n ?q _ _) => pose proof (IH k n q ts' Hf') as HP;
        destruct (sloop pf skip o r f k n q ts' tm) as [[kv rest]|e|] end;
        cbn [spost length] in *; [lia|exact I|exact HP].
    + (* directive *)
      destruct skey as [|c k]; [exact I|].
      match goal with |- spost _ (sloop _ _ _ _ _ ?k ?n ?q _ _) => pose proof (IH k n q ts' Hf') as HP;
        destruct (sloop pf skip o r f k n q ts' tm) as [[kv rest]|e|] end;
        cbn [spost length] in *; [lia|exact I|exact HP].
Qed.

(* NewMapXmlSeq / NewMapXmlSeqReader / the first half of BeautifyXml: never a panic *)
Theorem seq_decode_no_panic ts : seq_decode pf skip o r ts tm <> Panic.
Proof.
  unfold seq_decode, seq_decode_rest.
  pose proof (sloop_total (S (length ts)) [] [] 0%Z ts ltac:(lia)) as HP.
  destruct (sloop pf skip o r (S (length ts)) [] [] 0%Z ts tm) as [[kv rest]|e|]; [discriminate|discriminate|exact (False_ind _ HP)].
Qed.

(* the unconsumed tokens (what NewMapXmlSeqReader leaves in the reader) are a strictly shorter list *)
Theorem seq_decode_rest_consumes ts kv rest :
  seq_decode_rest pf skip o r ts tm = Ok (kv, rest) -> length rest < length ts.
Proof.
  unfold seq_decode_rest. intros H.
  pose proof (sloop_total (S (length ts)) [] [] 0%Z ts ltac:(lia)) as HP. rewrite H in HP. exact HP.
Qed.

(* a Map it returns is a singleton {root: value} *)
Theorem seq_decode_singleton ts m : seq_decode pf skip o r ts tm = Ok m -> exists k v, m = VMap [(k, v)].
Proof.
  unfold seq_decode. destruct (seq_decode_rest pf skip o r ts tm) as [[[k v] rest]|e|]; intros H; try discriminate H.
  injection H as <-. exists k, v. reflexivity.
Qed.

(* an empty stream fails with the terminator's error: no Map, no panic *)
Lemma seq_decode_nil : seq_decode pf skip o r [] tm = Err (match tm with TermEOF => EEOF | TermErr => EOther end).
Proof. unfold seq_decode, seq_decode_rest. cbn [length sloop]. destruct tm; reflexivity. Qed.
End SeqTotal.
