(* C04, string layer: escapeChars is a per-character substitution that the tokenizer's
   entity decoding inverts; facts about strings.Trim. *)
From Mxj Require Import Spec.SeqSpec Proofs.StrLemmas.

(* ---------------- escape / unescape ---------------- *)
Lemma replace1_app p r a b : replace1 p r (a ++ b) = replace1 p r a ++ replace1 p r b.
Proof. unfold replace1. apply flat_map_app. Qed.

Lemma escape_chars_app a b : escape_chars (a ++ b) = escape_chars a ++ escape_chars b.
Proof. unfold escape_chars, escape_table. cbn [fold_left fst snd]. rewrite !replace1_app. reflexivity. Qed.

Lemma escape_chars_cons c x : escape_chars (c :: x) = escape_chars [c] ++ escape_chars x.
Proof. change (c :: x) with ([c] ++ x). apply escape_chars_app. Qed.

Lemma ascii_eqb_false_sym a b : Ascii.eqb a b = false -> Ascii.eqb b a = false.
Proof. intros H. apply Ascii.eqb_neq. apply Ascii.eqb_neq in H. congruence. Qed.

Lemma unesc_esc1 c rest : unesc (escape_chars [c] ++ rest) 0 = c :: unesc rest 0.
Proof.
  unfold escape_chars, escape_table, replace1. cbn [fold_left fst snd flat_map app].
  destruct (Ascii.eqb c "&") eqn:E1; [apply Ascii.eqb_eq in E1; subst c; reflexivity|].
  cbn [flat_map app].
  destruct (Ascii.eqb c "<") eqn:E2; [apply Ascii.eqb_eq in E2; subst c; reflexivity|].
  cbn [flat_map app].
  destruct (Ascii.eqb c ">") eqn:E3; [apply Ascii.eqb_eq in E3; subst c; reflexivity|].
  cbn [flat_map app].
  destruct (Ascii.eqb c """") eqn:E4; [apply Ascii.eqb_eq in E4; subst c; reflexivity|].
  cbn [flat_map app].
  destruct (Ascii.eqb c "'") eqn:E5; [apply Ascii.eqb_eq in E5; subst c; reflexivity|].
  cbn [flat_map app unesc ent_at entity_table s list_ascii_of_string prefixb].
  rewrite (ascii_eqb_false_sym _ _ E1). cbn [andb]. reflexivity.
Qed.

Theorem unescape_escape x : unescape (escape_chars x) = x.
Proof.
  unfold unescape. induction x as [|c t IH]; [reflexivity|].
  rewrite escape_chars_cons, unesc_esc1, IH. reflexivity.
Qed.

Lemma unescape_noamp x : mem_ascii "&"%char x = false -> unescape x = x.
Proof.
  unfold unescape. induction x as [|c t IH]; intros H; [reflexivity|].
  change (mem_ascii "&"%char (c :: t)) with (Ascii.eqb "&"%char c || mem_ascii "&"%char t) in H.
  apply orb_false_iff in H. destruct H as [Hc Ht].
  cbn [unesc ent_at entity_table s list_ascii_of_string prefixb].
  rewrite Hc. cbn [andb]. f_equal. apply IH. exact Ht.
Qed.

Lemma escape_chars_nil : escape_chars [] = [].
Proof. reflexivity. Qed.

(* ---------------- the value conditions of the domain ---------------- *)
Lemma specials_amp v :
  existsb (fun c => mem_ascii c specials) v = false -> mem_ascii "&"%char v = false.
Proof.
  induction v as [|c t IH]; intros H; [reflexivity|].
  cbn [existsb] in H. apply orb_false_iff in H. destruct H as [Hc Ht].
  change (mem_ascii "&"%char (c :: t)) with (Ascii.eqb "&"%char c || mem_ascii "&"%char t).
  rewrite (IH Ht). rewrite orb_false_r.
  unfold specials in Hc. cbn [mem_ascii existsb s list_ascii_of_string] in Hc.
  apply orb_false_iff in Hc. destruct Hc as [Hc _].
  apply ascii_eqb_false_sym. exact Hc.
Qed.

(* what comes back from the tokenizer for a value the encoder wrote *)
Lemma unescape_esc o v : value_ok o v = true -> unescape (esc o v) = v.
Proof.
  unfold value_ok, esc. destruct (xmlEscapeChars o); intros H.
  - apply unescape_escape.
  - cbn [orb] in H. apply negb_true_iff in H. apply unescape_noamp, specials_amp. exact H.
Qed.

Lemma esc_nonempty o v : value_ok o v = true -> v <> [] -> esc o v <> [].
Proof.
  intros H Hv E. apply Hv. rewrite <- (unescape_esc o v H). rewrite E. reflexivity.
Qed.

(* ---------------- strings.Trim ---------------- *)
Lemma trim_left_ext cut1 cut2 x :
  (forall c, In c x -> mem_ascii c cut1 = mem_ascii c cut2) -> trim_left cut1 x = trim_left cut2 x.
Proof.
  induction x as [|c t IH]; intros H; [reflexivity|].
  cbn [trim_left]. rewrite <- (H c (or_introl eq_refl)).
  destruct (mem_ascii c cut1); [|reflexivity].
  apply IH. intros d Hd. apply H. right. exact Hd.
Qed.

Lemma trim_left_incl cut x c : In c (trim_left cut x) -> In c x.
Proof.
  induction x as [|a t IH]; cbn [trim_left]; [tauto|].
  destruct (mem_ascii a cut); intros H; [right; apply IH; exact H|exact H].
Qed.

Lemma trim_ext cut1 cut2 x :
  (forall c, In c x -> mem_ascii c cut1 = mem_ascii c cut2) -> trim cut1 x = trim cut2 x.
Proof.
  intros H. unfold trim, trim_right.
  rewrite (trim_left_ext cut1 cut2 x H). f_equal.
  apply trim_left_ext. intros c Hc. apply H.
  apply in_rev in Hc. eapply trim_left_incl. exact Hc.
Qed.

Lemma trim_left_idem cut x : trim_left cut (trim_left cut x) = trim_left cut x.
Proof.
  induction x as [|c t IH]; [reflexivity|].
  cbn [trim_left]. destruct (mem_ascii c cut) eqn:E; [exact IH|].
  cbn [trim_left]. rewrite E. reflexivity.
Qed.

Lemma trim_left_snoc cut l h :
  mem_ascii h cut = false -> trim_left cut (l ++ [h]) = trim_left cut l ++ [h].
Proof.
  intros Hh. induction l as [|c t IH]; cbn [app trim_left].
  - rewrite Hh. reflexivity.
  - destruct (mem_ascii c cut); [exact IH|reflexivity].
Qed.

Lemma trim_right_cons cut h y :
  mem_ascii h cut = false -> trim_right cut (h :: y) = h :: trim_right cut y.
Proof.
  intros Hh. unfold trim_right. cbn [rev]. rewrite (trim_left_snoc _ _ _ Hh).
  rewrite rev_app_distr. reflexivity.
Qed.

Lemma trim_right_idem cut y : trim_right cut (trim_right cut y) = trim_right cut y.
Proof. unfold trim_right. rewrite rev_involutive, trim_left_idem. reflexivity. Qed.

Lemma trim_idem cut x : trim cut (trim cut x) = trim cut x.
Proof.
  unfold trim. set (y := trim_left cut x).
  assert (Hy : trim_left cut y = y) by apply trim_left_idem.
  assert (Hz : trim_left cut (trim_right cut y) = trim_right cut y).
  { destruct y as [|h y'] eqn:Ey; [reflexivity|].
    cbn [trim_left] in Hy. destruct (mem_ascii h cut) eqn:Eh.
    - (* impossible: trim_left of a string never starts with a cut character *)
      exfalso.
      assert (L : length (trim_left cut y') <= length y').
      { clear. induction y' as [|c t IH]; cbn [trim_left]; [lia|].
        destruct (mem_ascii c cut); cbn [length]; lia. }
      rewrite Hy in L. cbn [length] in L. lia.
    - rewrite (trim_right_cons _ _ _ Eh). cbn [trim_left]. rewrite Eh. reflexivity. }
  rewrite Hz. apply trim_right_idem.
Qed.

Lemma trim_left_all cut x : forallb (fun c => mem_ascii c cut) x = true -> trim_left cut x = [].
Proof.
  induction x as [|c t IH]; [reflexivity|].
  cbn [forallb trim_left]. intros H. apply andb_true_iff in H. destruct H as [Hc Ht].
  rewrite Hc. apply IH. exact Ht.
Qed.

Lemma trim_all_cut cut x : forallb (fun c => mem_ascii c cut) x = true -> trim cut x = [].
Proof. intros H. unfold trim. rewrite (trim_left_all _ _ H). reflexivity. Qed.

Lemma trim_ws_str w : trim xml_ws (ws_str w) = [].
Proof.
  apply trim_all_cut. unfold ws_str. induction w as [|c t IH]; [reflexivity|].
  cbn [map forallb]. rewrite IH. destruct c; reflexivity.
Qed.

(* the decoder's trimRunes and XML white space differ by the backspace only *)
Lemma trim_all_xml_ws c :
  Ascii.eqb c (ascii_of_nat 8) = false -> mem_ascii c trim_all = mem_ascii c xml_ws.
Proof.
  destruct c as [[] [] [] [] [] [] [] []]; intros H; try reflexivity; discriminate H.
Qed.

Lemma trim_decoder_xml x :
  mem_ascii (ascii_of_nat 8) x = false -> trim trim_all x = trim xml_ws x.
Proof.
  intros H. apply trim_ext. intros c Hc. apply trim_all_xml_ws.
  induction x as [|a t IH]; [destruct Hc|].
  change (mem_ascii (ascii_of_nat 8) (a :: t)) with (Ascii.eqb (ascii_of_nat 8) a || mem_ascii (ascii_of_nat 8) t) in H.
  apply orb_false_iff in H. destruct H as [Ha Ht].
  destruct Hc as [<-|Hc]; [apply ascii_eqb_false_sym; exact Ha|apply IH; assumption].
Qed.
