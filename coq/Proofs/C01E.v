(* C01 part 3 / C15: the error side of the decoder, for ALL option records and ALL token
   lists the tokenizer can return: never a panic; Ok exactly when the root element is
   complete; otherwise the error of the terminator (io.EOF or the syntax error), and no Map. *)
From Mxj Require Import Proofs.StrLemmas Spec.ConvClauses Proofs.C01P.

Section ErrSide.
Variable pf : str -> option flt.
Variable skip : str -> bool.
Variable o : opts.
Variable r : bool.
Variable tm : term.

Notation eloop := (elem_loop pf skip o r).

Lemma el_nil f key n na seq : eloop (S f) key n na seq [] tm = Err (err_of tm).
Proof. cbn [elem_loop]. destruct tm; reflexivity. Qed.

Lemma el_start_gen f key n na seq nm a ts :
  xform_key o (xlocal nm) <> [] ->
  eloop (S f) key n na seq (TStart nm a :: ts) tm =
  match (if is_stream o nm
         then Ok ((xform_key o (xlocal nm), VMap (attr_entries pf skip o r a)), ts)
         else eloop f (xform_key o (xlocal nm)) None (attr_entries pf skip o r a) 0 ts tm) with
  | Ok (kv, rest) =>
      eloop f key n (add_child (fst kv) (fst (tag_seq o (snd kv) seq)) na) (snd (tag_seq o (snd kv) seq)) rest tm
  | Err e => Err e
  | Panic => Panic
  end.
Proof.
  intros Hne. cbn [elem_loop]. unfold is_stream.
  destruct (xform_key o (xlocal nm)) as [|c0 k0] eqn:Ek; [congruence|].
  destruct (if handleXMPPStreamTag o && str_eqb (c0 :: k0) (s "stream") then _ else _) as [[[k v] rest]|e|];
    try reflexivity.
  cbn [fst snd]. destruct (tag_seq o v seq); reflexivity.
Qed.

Definition loop_post (ts : list tok) (res : res ((str * value) * list tok)) : Prop :=
  match res with
  | Ok (_, rest) =>
      closes o 0 ts = true /\ (forall d, closes o (S d) ts = closes o d rest) /\
      length rest < length ts /\ forallb start_ok rest = true
  | Err e => e = err_of tm /\ forall d, closes o d ts = false
  | Panic => False
  end.

Lemma elem_loop_char : forall fuel ts key n na seq,
  length ts < fuel -> forallb start_ok ts = true ->
  loop_post ts (eloop fuel key n na seq ts tm).
Proof.
  induction fuel as [|f IH]; intros ts key n na seq Hf Hs; [lia|].
  destruct ts as [|tk ts'].
  - rewrite el_nil. cbn. auto.
  - cbn [forallb] in Hs. apply andb_true_iff in Hs as [Hk Hs']. cbn [length] in Hf.
    destruct tk as [nm a|nm|x|x|x y|x].
    + cbn [start_ok] in Hk. apply negb_true_iff in Hk.
      assert (Hne : xform_key o (xlocal nm) <> []).
      { intros H. apply xform_key_nil in H. rewrite H in Hk. discriminate. }
      rewrite (el_start_gen f key n na seq nm a ts' Hne).
      destruct (is_stream o nm) eqn:Es.
      * cbn [fst snd].
        pose proof (IH ts' key n (add_child (xform_key o (xlocal nm))
                      (fst (tag_seq o (VMap (attr_entries pf skip o r a)) seq)) na)
                      (snd (tag_seq o (VMap (attr_entries pf skip o r a)) seq)) ltac:(lia) Hs') as HP.
        destruct (eloop f key n _ _ ts' tm) as [[kv rest]|e|]; cbn [loop_post closes length] in *; rewrite ?Es.
        -- destruct HP as (H1 & H2 & H3 & H4). repeat split; auto; try lia.
        -- exact HP.
        -- exact HP.
      * pose proof (IH ts' (xform_key o (xlocal nm)) None (attr_entries pf skip o r a) 0%Z ltac:(lia) Hs') as HC.
        destruct (eloop f (xform_key o (xlocal nm)) None _ 0 ts' tm) as [[kv rest]|e|]; cbn [loop_post] in HC.
        -- destruct HC as (C1 & C2 & C3 & C4).
           pose proof (IH rest key n (add_child (fst kv) (fst (tag_seq o (snd kv) seq)) na)
                         (snd (tag_seq o (snd kv) seq)) ltac:(lia) C4) as HP.
           destruct (eloop f key n _ _ rest tm) as [[kv2 rest2]|e|]; cbn [loop_post closes length] in *; rewrite ?Es.
           ++ destruct HP as (H1 & H2 & H3 & H4). repeat split; auto.
              ** rewrite C2. exact H1.
              ** intros d. rewrite C2. apply H2.
              ** lia.
           ++ destruct HP as [H1 H2]. split; [exact H1|]. intros d. rewrite C2. apply H2.
           ++ exact HP.
        -- cbn [loop_post closes]. rewrite Es. destruct HC as [H1 H2]. split; [exact H1|]. intros d. apply H2.
        -- exact HC.
    + rewrite el_end. cbn [loop_post closes length]. repeat split; auto.
    + rewrite el_char.
      pose proof (IH ts' key (fst (on_chardata pf skip o r key x n na)) (snd (on_chardata pf skip o r key x n na)) seq
                     ltac:(lia) Hs') as HP.
      destruct (eloop f key _ _ seq ts' tm) as [[kv rest]|e|]; cbn [loop_post closes length] in *.
      * destruct HP as (H1 & H2 & H3 & H4). repeat split; auto.
      * exact HP.
      * exact HP.
    + rewrite (el_other pf skip o r f key n na seq (TComment x) ts' tm eq_refl).
      pose proof (IH ts' key n na seq ltac:(lia) Hs') as HP.
      destruct (eloop f key n na seq ts' tm) as [[kv rest]|e|]; cbn [loop_post closes length] in *.
      * destruct HP as (H1 & H2 & H3 & H4). repeat split; auto.
      * exact HP.
      * exact HP.
    + rewrite (el_other pf skip o r f key n na seq (TProcInst x y) ts' tm eq_refl).
      pose proof (IH ts' key n na seq ltac:(lia) Hs') as HP.
      destruct (eloop f key n na seq ts' tm) as [[kv rest]|e|]; cbn [loop_post closes length] in *.
      * destruct HP as (H1 & H2 & H3 & H4). repeat split; auto.
      * exact HP.
      * exact HP.
    + rewrite (el_other pf skip o r f key n na seq (TDirective x) ts' tm eq_refl).
      pose proof (IH ts' key n na seq ltac:(lia) Hs') as HP.
      destruct (eloop f key n na seq ts' tm) as [[kv rest]|e|]; cbn [loop_post closes length] in *.
      * destruct HP as (H1 & H2 & H3 & H4). repeat split; auto.
      * exact HP.
      * exact HP.
Qed.

Definition top_post (ts : list tok) (res : res (entries * list tok)) : Prop :=
  match res with
  | Ok _ => doc_complete o ts = true
  | Err e => e = err_of tm /\ doc_complete o ts = false
  | Panic => False
  end.

Lemma top_loop_char fuel : forall ts,
  length ts <= fuel -> forallb start_ok ts = true -> top_ok ts = true ->
  top_post ts (top_loop pf skip o r fuel ts tm).
Proof.
  induction ts as [|tk ts' IH]; intros Hf Hs Ht.
  - cbn [top_loop]. unfold top_post, err_of. case tm; cbn; split; reflexivity.
  - cbn [forallb] in Hs. apply andb_true_iff in Hs as [Hk Hs']. cbn [length] in Hf.
    destruct tk as [nm a|nm|x|x|x y|x]; cbn [top_ok] in Ht; try discriminate;
      try (cbn [top_loop top_post doc_complete]; apply IH; [lia|exact Hs'|exact Ht]).
    cbn [start_ok] in Hk. apply negb_true_iff in Hk. cbn [top_loop].
    destruct (xform_key o (xlocal nm)) as [|c0 k0] eqn:Ek.
    { apply xform_key_nil in Ek. rewrite Ek in Hk. discriminate. }
    rewrite <- Ek.
    assert (Hdc : doc_complete o (TStart nm a :: ts') = if is_stream o nm then true else closes o 0 ts') by reflexivity.
    unfold is_stream in Hdc.
    destruct (handleXMPPStreamTag o && str_eqb (xform_key o (xlocal nm)) (s "stream")).
    { unfold top_post. exact Hdc. }
    pose proof (elem_loop_char fuel ts' (xform_key o (xlocal nm)) None (attr_entries pf skip o r a) 0%Z ltac:(lia) Hs') as HP.
    destruct (eloop fuel _ None _ 0 ts' tm) as [[kv rest]|e|]; cbn [loop_post] in HP; unfold top_post; rewrite ?Hdc.
    + destruct HP as (H1 & _). exact H1.
    + destruct HP as [H1 H2]. split; [exact H1|apply H2].
    + exact HP.
Qed.

Lemma decode_char ts :
  forallb start_ok ts = true -> top_ok ts = true ->
  match xml_decode pf skip o r ts tm with
  | Ok _ => doc_complete o ts = true
  | Err e => e = err_of tm /\ doc_complete o ts = false
  | Panic => False
  end.
Proof.
  intros Hs Ht. unfold xml_decode, xml_decode_rest.
  pose proof (top_loop_char (S (length ts)) ts ltac:(lia) Hs Ht) as HP.
  destruct (top_loop pf skip o r (S (length ts)) ts tm) as [[m rest]|e|]; exact HP.
Qed.

Theorem decode_no_panic ts :
  forallb start_ok ts = true -> top_ok ts = true -> xml_decode pf skip o r ts tm <> Panic.
Proof.
  intros Hs Ht H. pose proof (decode_char ts Hs Ht) as HP. rewrite H in HP. exact HP.
Qed.

Theorem decode_ok_iff ts :
  forallb start_ok ts = true -> top_ok ts = true ->
  ((exists v, xml_decode pf skip o r ts tm = Ok v) <-> doc_complete o ts = true).
Proof.
  intros Hs Ht. pose proof (decode_char ts Hs Ht) as HP. split.
  - intros [v Hv]. rewrite Hv in HP. exact HP.
  - intros Hc. destruct (xml_decode pf skip o r ts tm) as [v|e|].
    + exists v. reflexivity.
    + destruct HP as [_ HP]. congruence.
    + destruct HP.
Qed.

Theorem decode_fails_iff ts :
  forallb start_ok ts = true -> top_ok ts = true ->
  (xml_decode pf skip o r ts tm = Err (err_of tm) <-> doc_complete o ts = false).
Proof.
  intros Hs Ht. pose proof (decode_char ts Hs Ht) as HP. split.
  - intros He. rewrite He in HP. apply HP.
  - intros Hc. destruct (xml_decode pf skip o r ts tm) as [v|e|].
    + congruence.
    + destruct HP as [-> _]. reflexivity.
    + destruct HP.
Qed.

End ErrSide.
