(* C12, ownership, second part:
   A. the owner-tagged walk of Spec/Ownership.v erases to the executable model [add_new_val]
      (both the post-fix walk and the pinned one), so the log it keeps is the log of the
      very function the correspondence check runs against /repo;
   B. the loop of NewMap on tagged values (Spec/NewMapOwn.v) erases to [new_map];
   C. NewMap never writes receiver-owned memory, for EVERY list of key pairs;
   D. the pinned code does, on a two-pair call. *)
From Mxj Require Import Spec.NewMapSpec Spec.Ownership Spec.NewMapOwn Proofs.StrLemmas Proofs.C12Own.
Local Open Scope list_scope.

(* ------------------------------------------------------------------ *)
(* erase against the primitive operations                             *)
(* ------------------------------------------------------------------ *)
Lemma erase_entries_lookup k m : lookup k (erase_entries m) = option_map erase (tlookup k m).
Proof.
  induction m as [|[k' x] t IH]; cbn; [reflexivity|]. destruct (str_eqb k k'); [reflexivity|exact IH].
Qed.

Lemma erase_entries_tput k x m : erase_entries (tput k x m) = set k (erase x) (erase_entries m).
Proof.
  induction m as [|[k' y] t IH]; cbn; [reflexivity|].
  destruct (str_eqb k k'); cbn; [reflexivity|]. f_equal. exact IH.
Qed.

Lemma erase_tag_entries mm : erase_entries (tag_entries mm) = mm.
Proof. induction mm as [|[k v] t IH]; cbn; [reflexivity|]. f_equal. exact IH. Qed.

Lemma map_erase_TSrc l : map erase (map TSrc l) = l.
Proof. induction l as [|x t IH]; cbn; [reflexivity|]. f_equal. exact IH. Qed.

Lemma erase_TMap m : erase (TMap m) = VMap (erase_entries m).
Proof. reflexivity. Qed.

Lemma entries_of_erase c X : erase c = VMap X -> erase_entries (entries_of c) = X.
Proof.
  destruct c as [v|m|l]; cbn [erase entries_of]; intros H.
  - subst v. apply erase_tag_entries.
  - inversion H. reflexivity.
  - discriminate.
Qed.

Lemma tget_erase c m0 k : erase c = VMap m0 -> option_map erase (tget k c) = lookup k m0.
Proof.
  destruct c as [v|m|l]; cbn [erase tget]; intros H.
  - subst v. destruct (lookup k m0); reflexivity.
  - inversion H. symmetry. apply erase_entries_lookup.
  - discriminate.
Qed.

Lemma tset_erase c m0 k x : erase c = VMap m0 -> erase (fst (tset k x c)) = VMap (set k (erase x) m0).
Proof.
  destruct c as [v|m|l]; cbn [erase]; intros H.
  - subst v. reflexivity.
  - inversion H. cbn [tset fst]. rewrite erase_TMap, erase_entries_tput. reflexivity.
  - discriminate.
Qed.

Lemma trepl_erase c m0 k x : erase c = VMap m0 -> erase (trepl k x c) = VMap (set k (erase x) m0).
Proof.
  destruct c as [v|m|l]; cbn [erase]; intros H.
  - subst v. reflexivity.
  - inversion H. cbn [trepl]. rewrite erase_TMap, erase_entries_tput. reflexivity.
  - discriminate.
Qed.

Lemma tappend_erase c l0 x : erase c = VList l0 -> erase (fst (tappend x c)) = VList (l0 ++ [erase x]).
Proof.
  destruct c as [v|m|l]; cbn [erase]; intros H.
  - subst v. reflexivity.
  - discriminate.
  - inversion H. cbn [tappend fst erase]. rewrite map_app. reflexivity.
Qed.

Lemma tappends_erase xs : forall c l0,
  erase c = VList l0 -> erase (fst (tappends xs c)) = VList (l0 ++ map erase xs).
Proof.
  induction xs as [|x t IH]; intros c l0 H; cbn [tappends map].
  - cbn [fst]. rewrite app_nil_r. exact H.
  - pose proof (tappend_erase c l0 x H) as H1.
    destruct (tappend x c) as [c1 e]. cbn [fst] in H1.
    pose proof (IH c1 _ H1) as H2.
    destruct (tappends t c1) as [c2 lg]. cbn [fst] in *. rewrite H2, <- app_assoc. reflexivity.
Qed.

(* the Go type switch against the erased value *)
Lemma kind_nil x : kind_of x = KNil -> erase x = VNil.
Proof. destruct x as [v|m|l]; [destruct v|..]; cbn; congruence. Qed.

Lemma kind_map x : kind_of x = KMap -> exists mm, erase x = VMap mm /\ erase (copy_map x) = VMap mm.
Proof.
  destruct x as [v|m|l]; [destruct v|..]; cbn [kind_of]; try discriminate; intros _.
  - exists m. split; [reflexivity|]. unfold copy_map. cbn [entries_of]. rewrite erase_TMap, erase_tag_entries. reflexivity.
  - eexists. split; reflexivity.
Qed.

Lemma kind_list x : kind_of x = KList -> erase x = VList (map erase (members_of x)).
Proof.
  destruct x as [v|m|l]; [destruct v|..]; cbn [kind_of]; try discriminate; intros _.
  - cbn [members_of erase]. rewrite map_erase_TSrc. reflexivity.
  - reflexivity.
Qed.

Lemma kind_other x :
  kind_of x = KOther -> match erase x with VNil | VMap _ | VList _ => False | _ => True end.
Proof. destruct x as [v|m|l]; [destruct v|..]; cbn; intros H; try exact I; discriminate. Qed.

Lemma copy_list_erase x : kind_of x = KList -> erase (fst (copy_list x)) = erase x.
Proof.
  intros K. unfold copy_list. rewrite (tappends_erase (members_of x) (TList []) []) by reflexivity.
  rewrite (kind_list x K). reflexivity.
Qed.

(* ------------------------------------------------------------------ *)
(* A. the tagged walk erases to add_new_val                           *)
(* ------------------------------------------------------------------ *)
Section Erase.
Variable copy : bool.

Lemma fresh_pair_erase c m0 k x v :
  erase c = VMap m0 ->
  erase (fst (let '(a, e1) := tappends [x; v] (TList []) in
              let '(c', e2) := tset k a c in (c', e1 ++ e2))) =
  VMap (set k (VList [erase x; erase v]) m0).
Proof.
  intros H. pose proof (tappends_erase [x; v] (TList []) [] eq_refl) as Ha.
  destruct (tappends [x; v] (TList [])) as [a e1]. cbn [fst] in Ha.
  pose proof (tset_erase c m0 k a H) as Hs.
  destruct (tset k a c) as [c' e2]. cbn [fst] in *. rewrite Hs, Ha. reflexivity.
Qed.

Lemma add_final_t_erase k v c m0 :
  erase c = VMap m0 ->
  erase (fst (add_final_t copy k v c)) = VMap (add_final k (erase v) m0).
Proof.
  intros H. unfold add_final_t, add_final. rewrite <- (tget_erase c m0 k H).
  destruct (tget k c) as [x|]; cbv beta iota delta [option_map]; [|exact (tset_erase c m0 k v H)].
  destruct (kind_of x) eqn:K.
  - rewrite (kind_nil x K). exact (tset_erase c m0 k v H).
  - destruct (kind_map x K) as (mm & Ex & _). rewrite (fresh_pair_erase c m0 k x v H). rewrite Ex. reflexivity.
  - assert (H0 : exists a0 e0, (if copy then copy_list x else (x, [])) = (a0, e0) /\ erase a0 = erase x).
    { destruct copy.
      - pose proof (copy_list_erase x K) as Hc. destruct (copy_list x) as [a0 e0]. eauto.
      - eauto. }
    destruct H0 as (a0 & e0 & -> & Ha0). rewrite (kind_list x K) in *.
    pose proof (tappend_erase a0 _ v Ha0) as Ha.
    destruct (tappend v a0) as [a e1]. cbn [fst] in Ha.
    pose proof (tset_erase c m0 k a H) as Hs.
    destruct (tset k a c) as [c' e2]. cbn [fst] in *. rewrite Hs, Ha. reflexivity.
  - rewrite (fresh_pair_erase c m0 k x v H). pose proof (kind_other x K) as Ho.
    destruct (erase x); try contradiction; reflexivity.
Qed.

Section Down.
Variable down : tval -> tval * list write_event.
Variable f : entries -> entries.
Hypothesis Hd : forall nm mm, erase nm = VMap mm -> erase (fst (down nm)) = VMap (f mm).

Lemma list_first_map_other ev t :
  match ev with VNil | VMap _ => False | _ => True end ->
  list_first_map f (ev :: t) = (ev :: fst (list_first_map f t), snd (list_first_map f t)).
Proof.
  intros H. cbn [list_first_map]. destruct (list_first_map f t) as [t' fd].
  destruct ev; try contradiction; reflexivity.
Qed.

Lemma list_arm_erase vs : forall a l0 found,
  erase a = VList l0 ->
  erase (fst (fst (list_arm copy down vs a found))) =
    VList (l0 ++ (if found then map erase vs else fst (list_first_map f (map erase vs)))) /\
  snd (fst (list_arm copy down vs a found)) = (found || snd (list_first_map f (map erase vs))).
Proof.
  induction vs as [|vv t IH]; intros a l0 found Ha; cbn [list_arm map].
  - cbn [fst snd list_first_map]. rewrite orb_false_r. split; [|reflexivity].
    destruct found; rewrite app_nil_r; exact Ha.
  - (* the arm that appends vv unchanged *)
    assert (Hkeep : forall fnd,
      erase (fst (fst (let '(a1, e) := tappend vv a in
                       let '(r, l) := list_arm copy down t a1 fnd in (r, e ++ l)))) =
        VList (l0 ++ erase vv :: (if fnd then map erase t else fst (list_first_map f (map erase t)))) /\
      snd (fst (let '(a1, e) := tappend vv a in
                let '(r, l) := list_arm copy down t a1 fnd in (r, e ++ l))) =
        (fnd || snd (list_first_map f (map erase t)))).
    { intros fnd. pose proof (tappend_erase a l0 vv Ha) as H1.
      destruct (tappend vv a) as [a1 e]. cbn [fst] in H1.
      destruct (IH a1 _ fnd H1) as [I1 I2].
      destruct (list_arm copy down t a1 fnd) as [r l]. cbn [fst snd] in *.
      rewrite I1, <- app_assoc. split; [reflexivity|exact I2]. }
    (* the arm that enters a map nm *)
    assert (Henter : forall nm mm, erase nm = VMap mm ->
      erase (fst (fst (let '(nm', il) := down nm in
                       let '(a1, e) := tappend nm' a in
                       let '(r, l) := list_arm copy down t a1 true in (r, e ++ il ++ l)))) =
        VList (l0 ++ VMap (f mm) :: map erase t) /\
      snd (fst (let '(nm', il) := down nm in
                let '(a1, e) := tappend nm' a in
                let '(r, l) := list_arm copy down t a1 true in (r, e ++ il ++ l))) = true).
    { intros nm mm Hnm. pose proof (Hd nm mm Hnm) as H0.
      destruct (down nm) as [nm' il]. cbn [fst] in H0.
      pose proof (tappend_erase a l0 nm' Ha) as H1.
      destruct (tappend nm' a) as [a1 e]. cbn [fst] in H1.
      destruct (IH a1 _ true H1) as [I1 I2].
      destruct (list_arm copy down t a1 true) as [r l]. cbn [fst snd] in *.
      rewrite I1, H0, <- app_assoc. split; [reflexivity|exact I2]. }
    destruct found.
    + cbn [orb]. destruct (Hkeep true) as [K1 K2]. split; [exact K1|exact K2].
    + cbn [orb]. destruct (kind_of vv) eqn:K.
      * rewrite (kind_nil vv K). cbn [list_first_map fst snd]. apply (Henter (TMap []) []). reflexivity.
      * destruct (kind_map vv K) as (mm & Ex & Ec). rewrite Ex. cbn [list_first_map fst snd].
        apply Henter. destruct copy; assumption.
      * destruct (Hkeep false) as [K1 K2]. cbn [orb] in K2.
        rewrite list_first_map_other by (rewrite (kind_list vv K); exact I).
        cbn [fst snd]. split; [exact K1|exact K2].
      * destruct (Hkeep false) as [K1 K2]. cbn [orb] in K2.
        rewrite list_first_map_other by (pose proof (kind_other vv K) as Ho; destruct (erase vv); try contradiction; exact I).
        cbn [fst snd]. split; [exact K1|exact K2].
Qed.

(* one step of the walk against one step of add_new_val *)
Definition model_step (k : str) (m : entries) : entries :=
  match lookup k m with
  | None | Some VNil => set k (VMap (f [])) m
  | Some (VMap mm) => set k (VMap (f mm)) m
  | Some (VList l) =>
      let '(l', found) := list_first_map f l in
      set k (VList (if found then l' else l' ++ [VMap (f [])])) m
  | Some v => set k (VList [v; VMap (f [])]) m
  end.

Lemma walk_step_erase k c m0 :
  erase c = VMap m0 -> erase (fst (walk_step copy down k c)) = VMap (model_step k m0).
Proof.
  intros H. unfold walk_step, model_step. rewrite <- (tget_erase c m0 k H).
  assert (Hnil : erase (fst (let '(nm', il) := down (TMap []) in
                             let '(c', e) := tset k nm' c in (c', e ++ il))) = VMap (set k (VMap (f [])) m0)).
  { pose proof (Hd (TMap []) [] eq_refl) as H0. destruct (down (TMap [])) as [nm' il]. cbn [fst] in H0.
    pose proof (tset_erase c m0 k nm' H) as Hs. destruct (tset k nm' c) as [c' e]. cbn [fst] in *.
    rewrite Hs, H0. reflexivity. }
  destruct (tget k c) as [x|]; cbv beta iota delta [option_map]; [|exact Hnil].
  destruct (kind_of x) eqn:K.
  - rewrite (kind_nil x K). exact Hnil.
  - destruct (kind_map x K) as (mm & Ex & Ec). rewrite Ex. destruct copy.
    + pose proof (Hd _ _ Ec) as H0. destruct (down (copy_map x)) as [nm' il]. cbn [fst] in H0.
      pose proof (tset_erase c m0 k nm' H) as Hs. destruct (tset k nm' c) as [c' e]. cbn [fst] in *.
      rewrite Hs, H0. reflexivity.
    + pose proof (Hd _ _ Ex) as H0. destruct (down x) as [nm' il]. cbn [fst] in *.
      rewrite (trepl_erase c m0 k nm' H), H0. reflexivity.
  - rewrite (kind_list x K).
    destruct (list_arm_erase (members_of x) (TList []) [] false eq_refl) as [L1 L2].
    destruct (list_arm copy down (members_of x) (TList []) false) as [[a found] l1]. cbn [fst snd app orb] in L1, L2.
    destruct (list_first_map f (map erase (members_of x))) as [l' fd]. cbn [fst snd] in L1, L2. subst found.
    destruct fd.
    + pose proof (tset_erase c m0 k a H) as Hs. destruct (tset k a c) as [c' e]. cbn [fst] in *.
      rewrite Hs, L1. reflexivity.
    + pose proof (Hd (TMap []) [] eq_refl) as H0. destruct (down (TMap [])) as [nm' il]. cbn [fst] in H0.
      pose proof (tappend_erase a l' nm' L1) as Ha. destruct (tappend nm' a) as [a1 e1]. cbn [fst] in Ha.
      pose proof (tset_erase c m0 k a1 H) as Hs. destruct (tset k a1 c) as [c' e]. cbn [fst] in *.
      rewrite Hs, Ha, H0. reflexivity.
  - pose proof (Hd (TMap []) [] eq_refl) as H0. destruct (down (TMap [])) as [nm' il]. cbn [fst] in H0.
    pose proof (tappends_erase [x; nm'] (TList []) [] eq_refl) as Ha.
    destruct (tappends [x; nm'] (TList [])) as [aa e1]. cbn [fst] in Ha.
    pose proof (tset_erase c m0 k aa H) as Hs. destruct (tset k aa c) as [c' e2]. cbn [fst] in *.
    rewrite Hs, Ha. cbn [map app]. rewrite H0.
    pose proof (kind_other x K) as Ho. destruct (erase x); try contradiction; reflexivity.
Qed.
End Down.

Lemma add_new_val_step k k2 r x n :
  add_new_val (k :: k2 :: r) x n = model_step (add_new_val (k2 :: r) x) k n.
Proof. reflexivity. Qed.

Theorem walk_erase : forall path v c m0,
  erase c = VMap m0 -> erase (fst (walk copy path v c)) = VMap (add_new_val path (erase v) m0).
Proof.
  induction path as [|k rest IH]; intros v c m0 H.
  - rewrite walk_nil. apply add_final_t_erase; exact H.
  - destruct rest as [|k2 r].
    + rewrite walk_one. apply add_final_t_erase; exact H.
    + rewrite walk_cons2, add_new_val_step. apply walk_step_erase; [|exact H].
      intros nm mm Hnm. apply IH; exact Hnm.
Qed.
End Erase.

Theorem add_new_val_t_erase path v n :
  erase_entries (fst (add_new_val_t path v n)) = add_new_val path (erase v) (erase_entries n).
Proof.
  unfold add_new_val_t. pose proof (walk_erase true path v (TMap n) _ eq_refl) as H.
  destruct (walk true path v (TMap n)) as [c log]. cbn [fst] in *. apply entries_of_erase; exact H.
Qed.

Theorem add_new_val_t_nocopy_erase path v n :
  erase_entries (fst (add_new_val_t_nocopy path v n)) = add_new_val path (erase v) (erase_entries n).
Proof.
  unfold add_new_val_t_nocopy. pose proof (walk_erase false path v (TMap n) _ eq_refl) as H.
  destruct (walk false path v (TMap n)) as [c log]. cbn [fst] in *. apply entries_of_erase; exact H.
Qed.

(* ------------------------------------------------------------------ *)
(* B. the loop over the key pairs                                     *)
(* ------------------------------------------------------------------ *)
Lemma erase_tag_vals vs : erase (tag_vals vs) = pack vs.
Proof.
  destruct vs as [|x [|y t]]; cbn [tag_vals pack erase]; try reflexivity.
  rewrite map_erase_TSrc. reflexivity.
Qed.

Section Loop.
Variable pf : str -> option flt.
Variable sep : str.
Variable ins : list str -> tval -> tentries -> tentries * list write_event.

(* one key pair, tagged and plain side by side *)
Lemma pair_t_cases mv n v :
  (new_map_pair_t pf sep ins mv n v = Ok (n, []) /\ forall n0, new_map_pair pf sep mv n0 v = Ok n0) \/
  (exists path vs, new_map_pair_t pf sep ins mv n v = Ok (ins path (tag_vals vs) n) /\
                   forall n0, new_map_pair pf sep mv n0 v = Ok (add_new_val path (pack vs) n0)) \/
  (exists e, new_map_pair_t pf sep ins mv n v = Err e /\ forall n0, new_map_pair pf sep mv n0 v = Err e) \/
  (new_map_pair_t pf sep ins mv n v = Panic /\ forall n0, new_map_pair pf sep mv n0 v = Panic).
Proof.
  unfold new_map_pair_t, new_map_pair.
  destruct v as [|c v']; [left; split; reflexivity|].
  destruct (split1 colon (c :: v')) as [|a [|b [|d t]]]; cbn [hd].
  - right; right; left. exists EOther. split; reflexivity.
  - destruct (mem_ascii "*"%char a); [right; right; left; exists EOther; split; reflexivity|].
    destruct (mem_ascii lbr a); [right; right; left; exists EOther; split; reflexivity|].
    destruct a as [|a0 a']; [right; right; left; exists EOther; split; reflexivity|].
    destruct (values_for_path pf sep mv (a0 :: a') []) as [[|y vs]|e|]; cbn [bind].
    + left. split; reflexivity.
    + right; left. eexists _, (y :: vs). split; reflexivity.
    + right; right; left. exists e. split; reflexivity.
    + right; right; right. split; reflexivity.
  - destruct (mem_ascii "*"%char b); [right; right; left; exists EOther; split; reflexivity|].
    destruct (mem_ascii lbr b); [right; right; left; exists EOther; split; reflexivity|].
    destruct a as [|a0 a']; [right; right; left; exists EOther; split; reflexivity|].
    destruct b as [|b0 b']; [right; right; left; exists EOther; split; reflexivity|].
    destruct (values_for_path pf sep mv (a0 :: a') []) as [[|y vs]|e|]; cbn [bind].
    + left. split; reflexivity.
    + right; left. eexists _, (y :: vs). split; reflexivity.
    + right; right; left. exists e. split; reflexivity.
    + right; right; right. split; reflexivity.
  - right; right; left. exists EOther. split; reflexivity.
Qed.

Hypothesis ins_erase : forall path v n,
  erase_entries (fst (ins path v n)) = add_new_val path (erase v) (erase_entries n).

Lemma new_map_pairs_t_erase mv pairs : forall n log,
  erase_entries (nm_map (new_map_pairs_t pf sep ins mv n log pairs)) =
    fst (new_map_pairs pf sep mv (erase_entries n) pairs) /\
  nm_status (new_map_pairs_t pf sep ins mv n log pairs) =
    snd (new_map_pairs pf sep mv (erase_entries n) pairs).
Proof.
  induction pairs as [|v t IH]; intros n log; cbn [new_map_pairs_t new_map_pairs].
  - split; reflexivity.
  - destruct (pair_t_cases mv n v) as [[E1 E2]|[(path & vs & E1 & E2)|[(e & E1 & E2)|[E1 E2]]]];
      rewrite E1, E2.
    + apply IH.
    + destruct (ins path (tag_vals vs) n) as [n' l] eqn:E. specialize (ins_erase path (tag_vals vs) n).
      rewrite E, erase_tag_vals in ins_erase. cbn [fst] in ins_erase. rewrite <- ins_erase. apply IH.
    + split; reflexivity.
    + split; reflexivity.
Qed.

Hypothesis ins_nosrc : forall path v n, writes_to_src (snd (ins path v n)) = [].

Lemma new_map_pairs_t_nosrc mv pairs : forall n log,
  writes_to_src log = [] -> writes_to_src (nm_log (new_map_pairs_t pf sep ins mv n log pairs)) = [].
Proof.
  induction pairs as [|v t IH]; intros n log Hl; cbn [new_map_pairs_t].
  - exact Hl.
  - destruct (pair_t_cases mv n v) as [[E1 _]|[(path & vs & E1 & _)|[(e & E1 & _)|[E1 _]]]]; rewrite E1.
    + apply IH. rewrite app_nil_r. exact Hl.
    + specialize (ins_nosrc path (tag_vals vs) n). destruct (ins path (tag_vals vs) n) as [n' l].
      cbn [snd] in ins_nosrc. apply IH. apply nosrc_app; [exact Hl|exact ins_nosrc].
    + exact Hl.
    + exact Hl.
Qed.
End Loop.

(* ------------------------------------------------------------------ *)
(* C. the theorems about the whole of NewMap                          *)
(* ------------------------------------------------------------------ *)
(* the tagged NewMap is the executable model with owners attached: same Map, same error class *)
Theorem new_map_t_erase pf sep mv pairs :
  erase_entries (nm_map (new_map_t pf sep add_new_val_t mv pairs)) = fst (new_map pf sep mv pairs) /\
  nm_status (new_map_t pf sep add_new_val_t mv pairs) = snd (new_map pf sep mv pairs).
Proof. apply (new_map_pairs_t_erase pf sep add_new_val_t add_new_val_t_erase mv pairs [] []). Qed.

Theorem new_map_t_nocopy_erase pf sep mv pairs :
  erase_entries (nm_map (new_map_t pf sep add_new_val_t_nocopy mv pairs)) = fst (new_map pf sep mv pairs) /\
  nm_status (new_map_t pf sep add_new_val_t_nocopy mv pairs) = snd (new_map pf sep mv pairs).
Proof. apply (new_map_pairs_t_erase pf sep add_new_val_t_nocopy add_new_val_t_nocopy_erase mv pairs [] []). Qed.

(* (d) for every receiver and EVERY list of key pairs - overlapping new paths, malformed pairs,
   anything - no write of NewMap goes into a container the receiver owns *)
Theorem new_map_t_no_src_writes pf sep mv pairs :
  writes_to_src (nm_log (new_map_t pf sep add_new_val_t mv pairs)) = [].
Proof.
  apply (new_map_pairs_t_nosrc pf sep add_new_val_t add_new_val_t_no_src_writes mv pairs [] []). reflexivity.
Qed.

(* ------------------------------------------------------------------ *)
(* D. the pinned code: NewMap("a:x", "c:x.d") writes d into the receiver's a *)
(* ------------------------------------------------------------------ *)
Local Open Scope string_scope.
Definition ex_recv : value := VMap [(s "a", VMap [(s "b", VInt 1)]); (s "c", VInt 2)].
Definition ex_pairs : list str := [s "a:x"; s "c:x.d"].

Theorem new_map_t_nocopy_writes_src :
  writes_to_src (nm_log (new_map_t (fun _ => None) (s ":") add_new_val_t_nocopy ex_recv ex_pairs)) = [WSet (s "d") true] /\
  writes_to_src (nm_log (new_map_t (fun _ => None) (s ":") add_new_val_t ex_recv ex_pairs)) = [] /\
  nm_status (new_map_t (fun _ => None) (s ":") add_new_val_t_nocopy ex_recv ex_pairs) = Ok tt.
Proof. vm_compute. repeat split. Qed.
