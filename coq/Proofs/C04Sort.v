(* C04, key lemma: sorting entries that carry pairwise distinct sequence numbers recovers the
   order of increasing sequence number, whatever the order in which the entries are presented
   (the Go map iteration order is arbitrary). *)
From Coq Require Import Permutation Sorting.Sorted.
From Mxj Require Import Model.SeqEnc.

Section Sort.
Context {A : Type}.
Variable key : A -> Z.

Definition kle (a b : A) : Prop := (key a <= key b)%Z.
Definition klt (a b : A) : Prop := (key a < key b)%Z.
Definition kge (a b : A) : Prop := (key b <= key a)%Z.

Lemma ssorted_app (R : A -> A -> Prop) l1 l2 :
  StronglySorted R l1 -> StronglySorted R l2 ->
  (forall x y, In x l1 -> In y l2 -> R x y) -> StronglySorted R (l1 ++ l2).
Proof.
  induction l1 as [|a t IH]; intros H1 H2 H12; cbn; [assumption|].
  inversion H1 as [|? ? Ht Ha]; subst.
  constructor.
  - apply IH; [assumption|assumption|]. intros x y Hx Hy. apply H12; [right; assumption|assumption].
  - apply Forall_app. split; [assumption|].
    apply Forall_forall. intros y Hy. apply H12; [left; reflexivity|assumption].
Qed.

Lemma ssorted_rev (R : A -> A -> Prop) l :
  StronglySorted R l -> StronglySorted (fun a b => R b a) (rev l).
Proof.
  induction l as [|a t IH]; intros H; cbn; [constructor|].
  inversion H as [|? ? Ht Ha]; subst.
  apply ssorted_app.
  - apply IH; assumption.
  - constructor; [constructor|constructor].
  - intros x y Hx Hy. cbn in Hy. destruct Hy as [<-|[]].
    apply in_rev in Hx. rewrite Forall_forall in Ha. apply Ha; assumption.
Qed.

(* insertion into a descending list *)
Lemma ins_desc_perm x l : Permutation (ins_desc key x l) (x :: l).
Proof.
  induction l as [|y t IH]; cbn; [reflexivity|].
  destruct (key x <=? key y)%Z.
  - rewrite IH. apply perm_swap.
  - reflexivity.
Qed.

Lemma ins_desc_sorted x l : StronglySorted kge l -> StronglySorted kge (ins_desc key x l).
Proof.
  induction l as [|y t IH]; intros H; cbn.
  - constructor; constructor.
  - inversion H as [|? ? Ht Hy]; subst.
    destruct (key x <=? key y)%Z eqn:E.
    + constructor; [apply IH; assumption|].
      assert (P := ins_desc_perm x t).
      eapply Permutation_Forall; [symmetry; exact P|].
      constructor; [|assumption]. unfold kge. apply Z.leb_le in E. exact E.
    + constructor; [assumption|].
      apply Z.leb_gt in E.
      constructor; [unfold kge; lia|].
      eapply Forall_impl; [|exact Hy]. unfold kge. intros a Ha. lia.
Qed.

Lemma fold_ins_perm l acc :
  Permutation (fold_left (fun racc x => ins_desc key x racc) l acc) (rev l ++ acc).
Proof.
  revert acc. induction l as [|x t IH]; intros acc; cbn; [reflexivity|].
  rewrite IH. rewrite ins_desc_perm. rewrite <- app_assoc. cbn.
  apply Permutation_app_head. reflexivity.
Qed.

Lemma fold_ins_sorted l acc :
  StronglySorted kge acc -> StronglySorted kge (fold_left (fun racc x => ins_desc key x racc) l acc).
Proof.
  revert acc. induction l as [|x t IH]; intros acc H; cbn; [assumption|].
  apply IH. apply ins_desc_sorted. assumption.
Qed.

Lemma isort_perm l : Permutation (isort key l) l.
Proof.
  unfold isort. rewrite <- Permutation_rev. rewrite fold_ins_perm. rewrite app_nil_r.
  symmetry. apply Permutation_rev.
Qed.

Lemma isort_sorted l : StronglySorted kle (isort key l).
Proof.
  unfold isort.
  apply (ssorted_rev kge). apply fold_ins_sorted. constructor.
Qed.

(* a list sorted by <= that is a permutation of a list sorted by < equals it *)
Lemma sorted_perm_eq l1 l2 :
  StronglySorted kle l1 -> StronglySorted klt l2 -> Permutation l1 l2 -> l1 = l2.
Proof.
  revert l2. induction l1 as [|a t1 IH]; intros l2 H1 H2 P.
  - apply Permutation_nil in P. subst. reflexivity.
  - destruct l2 as [|b t2]; [apply Permutation_sym, Permutation_nil in P; discriminate|].
    inversion H1 as [|? ? Ht1 Ha]; subst. inversion H2 as [|? ? Ht2 Hb]; subst.
    assert (Hab : a = b).
    { assert (Ia : In a (b :: t2)) by (eapply Permutation_in; [exact P|left; reflexivity]).
      destruct Ia as [E|Ia]; [symmetry; exact E|].
      assert (Ib : In b (a :: t1)) by (eapply Permutation_in; [symmetry; exact P|left; reflexivity]).
      destruct Ib as [E|Ib]; [exact E|].
      rewrite Forall_forall in Ha, Hb. specialize (Ha _ Ib). specialize (Hb _ Ia).
      unfold kle, klt in *. lia. }
    subst b. f_equal. apply IH; [assumption|assumption|].
    eapply Permutation_cons_inv. exact P.
Qed.

(* the key lemma: whatever permutation [l] of the strictly increasing list [e] is presented,
   the sort returns [e] *)
Theorem isort_recovers l e :
  Permutation l e -> StronglySorted klt e -> isort key l = e.
Proof.
  intros P S. apply sorted_perm_eq; [apply isort_sorted|assumption|].
  rewrite isort_perm. assumption.
Qed.

(* consequently the result does not depend on the presentation order *)
Corollary isort_perm_invariant l l' e :
  Permutation l e -> Permutation l' e -> StronglySorted klt e -> isort key l = isort key l'.
Proof. intros P P' S. rewrite (isort_recovers l e P S), (isort_recovers l' e P' S). reflexivity. Qed.
End Sort.

(* the same through seq_sort (sort.Sort with elemListSeq.Less) *)
Theorem seq_sort_recovers {A} (o : opts) (val : A -> value) (l e : list A) :
  Permutation l e ->
  StronglySorted (klt (fun x => seq_num o (val x))) e ->
  seq_sort o val l = Ok e.
Proof.
  intros P S. unfold seq_sort. f_equal. apply isort_recovers; assumption.
Qed.
