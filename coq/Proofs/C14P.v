(* C14 - proofs about cast: the model equals the decision table; frame; NaN/Inf. *)
From Mxj Require Import Spec.CastSpec Proofs.StrLemmas.
Local Open Scope string_scope.
Local Open Scope list_scope.

(* ---------------- characters ---------------- *)
Lemma lower1_digit c : is_digit c = true -> lower1 c = c.
Proof. destruct c as [[] [] [] [] [] [] [] []]; cbn; intro H; try discriminate; reflexivity. Qed.

Lemma to_lower_digits x : forallb is_digit x = true -> to_lower x = x.
Proof.
  unfold to_lower. induction x as [|c x IH]; cbn [map forallb]; [reflexivity|]. intro H.
  apply andb_true_iff in H as [H1 H2]. rewrite lower1_digit, IH by assumption. reflexivity.
Qed.

Lemma parse_udec_lower x z : parse_udec x = Some z -> to_lower x = x.
Proof.
  unfold parse_udec, all_digits. destruct x as [|c x]; [discriminate|].
  destruct (forallb is_digit (c :: x)) eqn:E; [|discriminate]. intros _. apply to_lower_digits, E.
Qed.

(* parse_int with the sign test written with eqb *)
Definition plus : ascii := "+"%char.
Definition minus : ascii := "-"%char.
Lemma parse_int_unfold bits x :
  parse_int bits x =
  let lim := (2 ^ (bits - 1))%Z in
  match x with
  | c :: t =>
      if Ascii.eqb c plus then match parse_udec t with Some z => if (z <? lim)%Z then Some z else None | None => None end
      else if Ascii.eqb c minus then match parse_udec t with Some z => if (z <=? lim)%Z then Some (- z)%Z else None | None => None end
      else match parse_udec x with Some z => if (z <? lim)%Z then Some z else None | None => None end
  | [] => match parse_udec x with Some z => if (z <? lim)%Z then Some z else None | None => None end
  end.
Proof.
  destruct x as [|c t]; [reflexivity|].
  destruct c as [[] [] [] [] [] [] [] []]; reflexivity.
Qed.

Lemma parse_int_lower bits x z : parse_int bits x = Some z -> to_lower x = x.
Proof.
  rewrite parse_int_unfold. cbv zeta. destruct x as [|c t]; [reflexivity|].
  destruct (Ascii.eqb c plus) eqn:Ep.
  - apply Ascii.eqb_eq in Ep. subst c. destruct (parse_udec t) eqn:E; [|discriminate]. intros _.
    cbn [to_lower map]. fold (to_lower t). rewrite (parse_udec_lower _ _ E). reflexivity.
  - destruct (Ascii.eqb c minus) eqn:Em.
    + apply Ascii.eqb_eq in Em. subst c. destruct (parse_udec t) eqn:E; [|discriminate]. intros _.
      cbn [to_lower map]. fold (to_lower t). rewrite (parse_udec_lower _ _ E). reflexivity.
    + destruct (parse_udec (c :: t)) eqn:E; [|discriminate]. intros _. exact (parse_udec_lower _ _ E).
Qed.

Lemma parse_uint_lower bits x z : parse_uint bits x = Some z -> to_lower x = x.
Proof.
  unfold parse_uint. destruct (parse_udec x) eqn:E; [|discriminate]. intros _. exact (parse_udec_lower _ _ E).
Qed.

(* ---------------- the special spellings ---------------- *)
Definition seven : list str :=
  [s "nan"; s "inf"; s "+inf"; s "infinity"; s "+infinity"; s "-inf"; s "-infinity"].

Lemma special_seven x : is_special x = true -> In (to_lower x) seven.
Proof.
  unfold is_special, special. cbv zeta.
  destruct (str_eqb (to_lower x) (s "nan")) eqn:E1; [apply str_eqb_eq in E1; rewrite E1; cbn; auto|].
  destruct (existsb (str_eqb (to_lower x)) [s "inf"; s "+inf"; s "infinity"; s "+infinity"]) eqn:E2.
  - intros _. apply existsb_exists in E2 as [l [Hin Hl]]. apply str_eqb_eq in Hl. rewrite Hl.
    cbn in Hin. unfold seven. cbn. intuition (subst; auto 10).
  - destruct (existsb (str_eqb (to_lower x)) [s "-inf"; s "-infinity"]) eqn:E3; [|discriminate].
    intros _. apply existsb_exists in E3 as [l [Hin Hl]]. apply str_eqb_eq in Hl. rewrite Hl.
    cbn in Hin. unfold seven. cbn. intuition (subst; auto 10).
Qed.

Lemma seven_not_int l : In l seven -> parse_int 64 l = None /\ parse_uint 64 l = None.
Proof. unfold seven. cbn [In]. intuition (subst; split; reflexivity). Qed.

Lemma special_not_int x : is_special x = true -> parse_int 64 x = None /\ parse_uint 64 x = None.
Proof.
  intro H. pose proof (special_seven x H) as Hs. destruct (seven_not_int _ Hs) as [A B]. split.
  - destruct (parse_int 64 x) eqn:E; [|reflexivity]. rewrite (parse_int_lower _ _ _ E) in A. congruence.
  - destruct (parse_uint 64 x) eqn:E; [|reflexivity]. rewrite (parse_uint_lower _ _ _ E) in B. congruence.
Qed.

Lemma guard3_special x :
  existsb (str_eqb (to_lower x)) [s "nan"; s "inf"; s "-inf"] = true -> is_special x = true.
Proof.
  intro H. apply existsb_exists in H as [l [Hin Hl]]. apply str_eqb_eq in Hl.
  unfold is_special, special. cbv zeta. rewrite Hl. cbn in Hin.
  destruct Hin as [<-|[<-|[<-|[]]]]; reflexivity.
Qed.

(* ---------------- the boolean branch ---------------- *)
Definition bool_branch (x : str) : value :=
  if nonempty x && (length x <? 6)%nat
     && (match x with c :: _ => mem_ascii c (s "tTfF") | [] => false end)
  then match parse_bool x with Some b => VBool b | None => VStr x end
  else VStr x.

Definition tspell : list str := [s "t"; s "T"; s "TRUE"; s "true"; s "True"].
Definition fspell : list str := [s "f"; s "F"; s "FALSE"; s "false"; s "False"].

Lemma in_existsb l x : In x l -> existsb (str_eqb x) l = true.
Proof. intro H. apply existsb_exists. exists x. split; [exact H|apply str_eqb_refl]. Qed.
Lemma existsb_in l x : existsb (str_eqb x) l = true -> In x l.
Proof. intro H. apply existsb_exists in H as [y [Hin Hy]]. apply str_eqb_eq in Hy. subst. exact Hin. Qed.

Lemma bool_branch_spec x :
  bool_branch x =
  if existsb (str_eqb x) tspell then VBool true
  else if existsb (str_eqb x) fspell then VBool false else VStr x.
Proof.
  destruct (existsb (str_eqb x) tspell) eqn:Et.
  { apply existsb_in in Et. unfold tspell in Et. cbn [In] in Et.
    destruct Et as [<-|[<-|[<-|[<-|[<-|[]]]]]]; reflexivity. }
  destruct (existsb (str_eqb x) fspell) eqn:Ef.
  { apply existsb_in in Ef. unfold fspell in Ef. cbn [In] in Ef.
    destruct Ef as [<-|[<-|[<-|[<-|[<-|[]]]]]]; reflexivity. }
  unfold bool_branch.
  destruct (nonempty x && (length x <? 6)%nat && match x with c :: _ => mem_ascii c (s "tTfF") | [] => false end) eqn:C;
    [|reflexivity].
  unfold parse_bool.
  destruct (existsb (str_eqb x) [s "1"; s "t"; s "T"; s "TRUE"; s "true"; s "True"]) eqn:P1.
  { exfalso. apply existsb_in in P1. cbn [In] in P1. destruct P1 as [<-|P1]; [discriminate C|].
    assert (In x tspell) as Hin by exact P1. apply in_existsb in Hin. congruence. }
  destruct (existsb (str_eqb x) [s "0"; s "f"; s "F"; s "FALSE"; s "false"; s "False"]) eqn:P0; [|reflexivity].
  exfalso. apply existsb_in in P0. cbn [In] in P0. destruct P0 as [<-|P0]; [discriminate C|].
  assert (In x fspell) as Hin by exact P0. apply in_existsb in Hin. congruence.
Qed.

Lemma special_not_bool x : is_special x = true ->
  existsb (str_eqb x) tspell = false /\ existsb (str_eqb x) fspell = false.
Proof.
  intro H. split.
  - destruct (existsb (str_eqb x) tspell) eqn:E; [|reflexivity]. apply existsb_in in E.
    unfold tspell in E. cbn [In] in E. destruct E as [<-|[<-|[<-|[<-|[<-|[]]]]]]; discriminate H.
  - destruct (existsb (str_eqb x) fspell) eqn:E; [|reflexivity]. apply existsb_in in E.
    unfold fspell in E. cbn [In] in E. destruct E as [<-|[<-|[<-|[<-|[<-|[]]]]]]; discriminate H.
Qed.

(* ---------------- cast, refolded ---------------- *)
Section CastP.
Variable pf : str -> option flt.
Variable skip : str -> bool.
Variable o : opts.

Lemma cast_unfold x r t :
  cast pf skip o x r t =
  if skipped skip t then VStr x
  else if negb r then VStr x
  else if negb (castNanInf o) && existsb (str_eqb (to_lower x)) [s "nan"; s "inf"; s "-inf"] then VStr x
  else match denotes_int o x with
       | Some v => v
       | None =>
           match (if castToFloat o then
                    match pf x with
                    | Some f => if castNanInf o || negb (is_naninf f) then Some (VFlt f) else None
                    | None => None
                    end
                  else None) with
           | Some v => v
           | None => if castToBool o then bool_branch x else VStr x
           end
       end.
Proof.
  unfold cast, skipped, nonempty, denotes_int, bool_branch, nonempty.
  destruct (castToBool o); reflexivity.
Qed.

Lemma denotes_bool_branch x :
  (if castToBool o then bool_branch x else VStr x) =
  match denotes_bool o x with Some v => v | None => VStr x end.
Proof.
  unfold denotes_bool. destruct (castToBool o); [|reflexivity]. rewrite bool_branch_spec.
  fold tspell. fold fspell.
  destruct (existsb (str_eqb x) tspell); [reflexivity|]. destruct (existsb (str_eqb x) fspell); reflexivity.
Qed.

(* model = table, given H1 *)
Lemma cast_spec_l : H1 pf -> forall x r t, cast pf skip o x r t = cast_table pf skip o x r t.
Proof.
  intros Hpf x r t. rewrite cast_unfold. unfold cast_table.
  destruct (skipped skip t); [reflexivity|]. destruct r; cbn [negb]; [|reflexivity].
  unfold first_some. cbn [fold_right]. rewrite denotes_bool_branch.
  destruct (castNanInf o) eqn:Cn; cbn [negb andb orb].
  - (* CastNanInf on: no guard *)
    destruct (denotes_int o x); [reflexivity|]. unfold denotes_float.
    destruct (castToFloat o); [|reflexivity]. destruct (pf x); reflexivity.
  - destruct (is_special x) eqn:Sp.
    + (* a special spelling: never cast *)
      destruct (existsb (str_eqb (to_lower x)) [s "nan"; s "inf"; s "-inf"]); [reflexivity|].
      destruct (special_not_int x Sp) as [A B]. unfold denotes_int. rewrite A, B.
      destruct (castToInt o).
      all: (destruct (castToFloat o);
            [destruct (pf x) as [f|] eqn:Ef;
             [assert (is_naninf f = true) as -> by (apply (Hpf x f Ef); exact Sp); cbn [negb]|]|]).
      all: unfold denotes_bool; destruct (special_not_bool x Sp) as [Bt Bf]; fold tspell; fold fspell;
           rewrite Bt, Bf; destruct (castToBool o); reflexivity.
    + destruct (existsb (str_eqb (to_lower x)) [s "nan"; s "inf"; s "-inf"]) eqn:G.
      { apply guard3_special in G. congruence. }
      destruct (denotes_int o x); [reflexivity|]. unfold denotes_float.
      destruct (castToFloat o); [|reflexivity]. destruct (pf x) as [f|] eqn:Ef; [|reflexivity].
      assert (is_naninf f = false) as ->; [|reflexivity].
      destruct (is_naninf f) eqn:N; [|reflexivity]. apply (Hpf x f Ef) in N. congruence.
Qed.

(* the table, as rows *)
Lemma cast_table_rows x r t : cast_row pf skip o x r t (cast_table pf skip o x r t).
Proof.
  unfold cast_table.
  destruct (skipped skip t) eqn:Sk; [apply RowSkip; exact Sk|].
  destruct r; cbn [negb]; [|apply RowNoCast; reflexivity].
  destruct (negb (castNanInf o) && is_special x) eqn:G.
  { apply andb_true_iff in G as [G1 G2]. apply negb_true_iff in G1. apply RowGuard; assumption. }
  assert (active skip o x true t) as Hact.
  { split; [exact Sk|split; [reflexivity|]]. apply andb_false_iff in G as [G|G]; [left; apply negb_false_iff, G|right; exact G]. }
  unfold first_some. cbn [fold_right].
  destruct (denotes_int o x) as [v|] eqn:Di.
  { unfold denotes_int in Di. destruct (castToInt o) eqn:Ci; [|discriminate].
    destruct (parse_int 64 x) as [z|] eqn:Pi.
    - injection Di as <-. apply RowInt; auto.
    - destruct (parse_uint 64 x) as [z|] eqn:Pu; [|discriminate]. injection Di as <-. apply RowUint; auto. }
  destruct (denotes_float pf o x) as [v|] eqn:Df.
  { unfold denotes_float in Df. destruct (castToFloat o) eqn:Cf; [|discriminate].
    destruct (pf x) as [f|] eqn:Ef; [|discriminate]. injection Df as <-. apply RowFloat; auto. }
  destruct (denotes_bool o x) as [v|] eqn:Db.
  { assert (exists b, v = VBool b) as [b ->].
    { unfold denotes_bool in Db. destruct (castToBool o); [|discriminate].
      destruct (existsb _ _); [injection Db as <-; eauto|]. destruct (existsb _ _); [injection Db as <-; eauto|discriminate]. }
    apply RowBool; auto. }
  apply RowStr; auto.
Qed.

(* the model's result is a row of the table *)
Lemma cast_rows_l : H1 pf -> forall x r t, cast_row pf skip o x r t (cast pf skip o x r t).
Proof. intros Hpf x r t. rewrite (cast_spec_l Hpf). apply cast_table_rows. Qed.

(* ---------------- consequences ---------------- *)
Lemma cast_plain x r t : plain (cast pf skip o x r t) = true.
Proof.
  rewrite cast_unfold.
  destruct (skipped skip t); [reflexivity|]. destruct (negb r); [reflexivity|].
  destruct (_ && _); [reflexivity|].
  unfold denotes_int. destruct (castToInt o).
  - destruct (parse_int 64 x); [reflexivity|]. destruct (parse_uint 64 x); [reflexivity|].
    destruct (castToFloat o); [destruct (pf x) as [f|]; [destruct (_ || _); [reflexivity|]|]|];
      rewrite denotes_bool_branch; unfold denotes_bool; destruct (castToBool o); try reflexivity;
      destruct (existsb _ _); try reflexivity; destruct (existsb _ _); reflexivity.
  - destruct (castToFloat o); [destruct (pf x) as [f|]; [destruct (_ || _); [reflexivity|]|]|];
      rewrite denotes_bool_branch; unfold denotes_bool; destruct (castToBool o); try reflexivity;
      destruct (existsb _ _); try reflexivity; destruct (existsb _ _); reflexivity.
Qed.

(* with the cast flag off every leaf is the identical string *)
Lemma cast_off x t : cast pf skip o x false t = VStr x.
Proof. rewrite cast_unfold. destruct (skipped skip t); reflexivity. Qed.

(* unless CastNanInf is on, the float a leaf is cast to is never NaN or an infinity *)
Lemma no_nan_inf_l x r t f : castNanInf o = false -> cast pf skip o x r t = VFlt f -> is_naninf f = false.
Proof.
  intros Cn. rewrite cast_unfold. rewrite Cn. cbn [negb andb orb].
  destruct (skipped skip t); [discriminate|]. destruct (negb r); [discriminate|].
  destruct (existsb _ _); [discriminate|].
  unfold denotes_int.
  assert (forall g, match (if castToFloat o then match pf x with
                                                | Some f0 => if negb (is_naninf f0) then Some (VFlt f0) else None
                                                | None => None end else None) with
                    | Some v => v
                    | None => if castToBool o then bool_branch x else VStr x
                    end = VFlt g -> is_naninf g = false) as Hfl.
  { intro g. destruct (castToFloat o).
    - destruct (pf x) as [f0|].
      + destruct (is_naninf f0) eqn:N; cbn [negb].
        * rewrite denotes_bool_branch. unfold denotes_bool. destruct (castToBool o); [|discriminate].
          destruct (existsb _ _); [discriminate|]. destruct (existsb _ _); discriminate.
        * intro E. injection E as <-. exact N.
      + rewrite denotes_bool_branch. unfold denotes_bool. destruct (castToBool o); [|discriminate].
        destruct (existsb _ _); [discriminate|]. destruct (existsb _ _); discriminate.
    - rewrite denotes_bool_branch. unfold denotes_bool. destruct (castToBool o); [|discriminate].
      destruct (existsb _ _); [discriminate|]. destruct (existsb _ _); discriminate. }
  destruct (castToInt o).
  - destruct (parse_int 64 x); [discriminate|]. destruct (parse_uint 64 x); [discriminate|]. apply Hfl.
  - apply Hfl.
Qed.

Lemma cast_json_leaf x r t : castNanInf o = false -> finite_leaf (cast pf skip o x r t) = true.
Proof.
  intro Cn. destruct (cast pf skip o x r t) eqn:E; try reflexivity.
  cbn. rewrite (no_nan_inf_l _ _ _ _ Cn E). reflexivity.
Qed.

(* no spelling of NaN or infinity is ever cast (H1) *)
Lemma special_never_cast : H1 pf -> forall x r t,
  castNanInf o = false -> is_special x = true -> cast pf skip o x r t = VStr x.
Proof.
  intros Hpf x r t Cn Sp. rewrite (cast_spec_l Hpf). unfold cast_table.
  destruct (skipped skip t); [reflexivity|]. destruct (negb r); [reflexivity|].
  rewrite Cn, Sp. reflexivity.
Qed.

(* ParseFloat rejecting "" : an empty text is never cast *)
Lemma cast_empty : H0 pf -> forall r t, cast pf skip o [] r t = VStr [].
Proof.
  intros Hpf r t. rewrite cast_unfold. unfold H0 in Hpf. rewrite Hpf.
  destruct (skipped skip t); [reflexivity|]. destruct (negb r); [reflexivity|].
  destruct (_ && _); [reflexivity|].
  unfold denotes_int. destruct (castToInt o); cbn; destruct (castToFloat o); destruct (castToBool o); reflexivity.
Qed.
End CastP.

(* the result depends only on the leaf's own text and tag and on what the five cast
   options say about them *)
Lemma cast_frame pf pf' skip skip' o o' x r t t' :
  cast_opts_eq o o' -> pf x = pf' x -> skipped skip t = skipped skip' t' ->
  cast pf skip o x r t = cast pf' skip' o' x r t'.
Proof.
  intros (Ei & Ef & Eb & En) Epf Esk. rewrite !cast_unfold.
  unfold denotes_int. rewrite Esk, Ei, Ef, Eb, En, Epf. reflexivity.
Qed.

(* without a skip function the tag is irrelevant *)
Definition noskip : str -> bool := fun _ => false.
Lemma cast_noskip_tag pf o x r t : cast pf noskip o x r t = cast pf noskip o x r [].
Proof.
  apply cast_frame; [repeat split|reflexivity|].
  unfold skipped, noskip. rewrite !andb_false_r. reflexivity.
Qed.
