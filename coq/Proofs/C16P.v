(* C16: the Map encoder model is invariant under every permutation of every
   entry list (= every hash-iteration order), its attributes and children come
   out in ascending key order, and the indented root rule agrees with the
   compact one except for one stated shape. *)
From Coq Require Import Permutation Sorting.Sorted.
From Mxj Require Import Model.XmlEnc Spec.Veq Proofs.StrLemmas Proofs.C16Sort.

(* ---------------- generic list facts ---------------- *)
Lemma perm_filter {A} (f : A -> bool) (l l' : list A) : Permutation l l' -> Permutation (filter f l) (filter f l').
Proof.
  induction 1 as [|x l l' _ IH|x y l|l l' l'' _ IH1 _ IH2]; cbn [filter].
  - constructor.
  - destruct (f x); [constructor|]; exact IH.
  - destruct (f x), (f y); try reflexivity. apply perm_swap.
  - etransitivity; eassumption.
Qed.

Lemma perm_forallb {A} (f : A -> bool) (l l' : list A) : Permutation l l' -> forallb f l = forallb f l'.
Proof.
  induction 1 as [|x l l' _ IH|x y l|l l' l'' _ IH1 _ IH2]; cbn [forallb].
  - reflexivity.
  - rewrite IH. reflexivity.
  - destruct (f x), (f y); reflexivity.
  - congruence.
Qed.

Lemma nodup_map_filter {A B} (g : A -> B) (f : A -> bool) (l : list A) :
  NoDup (map g l) -> NoDup (map g (filter f l)).
Proof.
  induction l as [|x t IH]; cbn [map filter]; intro H; [constructor|].
  inversion H as [|? ? Hnin Hnd]; subst.
  destruct (f x); cbn [map]; [constructor|]; auto.
  intro Hin. apply Hnin. apply in_map_iff in Hin. destruct Hin as [y [Hy Hin]].
  apply filter_In in Hin. rewrite <- Hy. apply in_map. tauto.
Qed.

Lemma lookup_perm (k : str) (p m : entries) :
  NoDup (map fst p) -> Permutation p m -> lookup k p = lookup k m.
Proof.
  intros Hnd Hp. induction Hp as [|[k1 v1] l l' Hp IH|[k1 v1] [k2 v2] l|l l' l'' Hp1 IH1 Hp2 IH2].
  - reflexivity.
  - cbn [lookup]. cbn [map fst] in Hnd. inversion Hnd; subst. rewrite IH by assumption. reflexivity.
  - cbn [lookup]. destruct (str_eqb k k2) eqn:E2, (str_eqb k k1) eqn:E1; try reflexivity.
    exfalso. apply str_eqb_eq in E1, E2. subst. cbn [map fst] in Hnd. inversion Hnd as [|? ? Hnin _]; subst.
    apply Hnin. left. reflexivity.
  - rewrite IH1 by assumption. apply IH2. eapply Permutation_NoDup; [|exact Hnd]. apply Permutation_map. exact Hp1.
Qed.

Lemma forall2_len {A B} (R : A -> B -> Prop) l l' : Forall2 R l l' -> length l = length l'.
Proof. induction 1; cbn [length]; congruence. Qed.

Lemma forall2_keys (R : value -> value -> Prop) (m p : entries) :
  Forall2 (entry_rel R) m p -> map fst m = map fst p.
Proof. induction 1 as [|a b m p [Hk _] _ IH]; cbn [map]; congruence. Qed.

Lemma forall2_lookup (R : value -> value -> Prop) (k : str) (m p : entries) :
  Forall2 (entry_rel R) m p ->
  match lookup k m, lookup k p with
  | Some v, Some v' => R v v'
  | None, None => True
  | _, _ => False
  end.
Proof.
  induction 1 as [|[k1 v1] [k2 v2] m p [Hk Hv] _ IH]; cbn [lookup]; [exact I|].
  cbn [fst snd] in Hk, Hv. subst k2. destruct (str_eqb k k1); [exact Hv | exact IH].
Qed.

(* ---------------- well-formedness, unfolded ---------------- *)
Lemma nodup_keys_NoDup (ks : list str) : nodup_keys ks = true -> NoDup ks.
Proof.
  induction ks as [|k t IH]; cbn [nodup_keys]; intro H; [constructor|].
  apply andb_prop in H. destruct H as [H1 H2]. constructor; [|apply IH; exact H2].
  intro Hin. apply Bool.negb_true_iff in H1.
  assert (existsb (str_eqb k) t = true) as Hx; [|congruence].
  apply existsb_exists. exists k. split; [exact Hin | apply str_eqb_refl].
Qed.

Lemma wf_map_inv (m : entries) :
  wf (VMap m) -> NoDup (map fst m) /\ Forall (fun kv => wf (snd kv)) m.
Proof.
  unfold wf. cbn [wfb]. intro H. apply andb_prop in H. destruct H as [H1 H2].
  split; [apply nodup_keys_NoDup; exact H1|].
  clear H1. induction m as [|[k v] t IH]; [constructor|].
  apply andb_prop in H2. destruct H2 as [Hv Ht]. constructor; [exact Hv | apply IH; exact Ht].
Qed.

Lemma wf_list_inv (l : list value) : wf (VList l) -> Forall wf l.
Proof.
  unfold wf. cbn [wfb]. induction l as [|v t IH]; intro H; [constructor|].
  apply andb_prop in H. destruct H as [Hv Ht]. constructor; [exact Hv | apply IH; exact Ht].
Qed.

Section Enc.
Variable o : opts.

(* ---------------- the attribute scan ---------------- *)
Definition attr_ok (kv : str * value) : bool :=
  negb (is_attr_key o (fst kv)) || match attr_text o (snd kv) with Some _ => true | None => false end.
Definition attr_pair (kv : str * value) : list (str * str) :=
  if is_attr_key o (fst kv)
  then match attr_text o (snd kv) with Some x => [(skipn (lenAttrPrefix o) (fst kv), x)] | None => [] end
  else [].
Definition attr_pairs (m : entries) : list (str * str) := flat_map attr_pair m.

Lemma attrs_of_char (m : entries) :
  attrs_of o m = if forallb attr_ok m then Ok (attr_pairs m) else Err EOther.
Proof.
  induction m as [|[k v] t IH]; [reflexivity|].
  cbn [attrs_of forallb attr_pairs flat_map]. unfold attr_ok at 1, attr_pair at 1. cbn [fst snd].
  destruct (is_attr_key o k); cbn [negb orb].
  - destruct (attr_text o v) as [x|]; cbn [andb]; [|reflexivity].
    rewrite IH. destruct (forallb attr_ok t); reflexivity.
  - cbn [andb app]. exact IH.
Qed.

Lemma veq_attr_text v v' : veq v v' -> attr_text o v = attr_text o v'.
Proof. intro H. inversion H; subst; reflexivity. Qed.

Lemma veq_text_text v v' : veq v v' -> text_text o v = text_text o v'.
Proof. intro H. inversion H; subst; reflexivity. Qed.

Lemma forall2_attr_ok (m p : entries) : Forall2 (entry_rel veq) m p -> forallb attr_ok m = forallb attr_ok p.
Proof.
  induction 1 as [|[k v] [k' v'] m p [Hk Hv] _ IH]; [reflexivity|].
  cbn [fst snd] in Hk, Hv. subst k'. cbn [forallb]. unfold attr_ok at 1 3. cbn [fst snd].
  rewrite (veq_attr_text _ _ Hv), IH. reflexivity.
Qed.

Lemma forall2_attr_pairs (m p : entries) : Forall2 (entry_rel veq) m p -> attr_pairs m = attr_pairs p.
Proof.
  induction 1 as [|[k v] [k' v'] m p [Hk Hv] _ IH]; [reflexivity|].
  cbn [fst snd] in Hk, Hv. subst k'. unfold attr_pairs in *. cbn [flat_map]. unfold attr_pair at 1 3. cbn [fst snd].
  rewrite (veq_attr_text _ _ Hv), IH. reflexivity.
Qed.

(* the attribute prefix is cut off a key that starts with it: cutting is injective *)
Lemma attr_key_split k : is_attr_key o k = true -> k = attrPrefix o ++ skipn (lenAttrPrefix o) k.
Proof.
  unfold is_attr_key. intro H. apply andb_prop in H. destruct H as [_ H]. apply str_eqb_eq in H.
  rewrite <- H. symmetry. apply firstn_skipn.
Qed.

Lemma attr_pairs_keys a (m : entries) :
  In a (map fst (attr_pairs m)) ->
  exists k, In k (map fst m) /\ is_attr_key o k = true /\ a = skipn (lenAttrPrefix o) k.
Proof.
  unfold attr_pairs. induction m as [|[k v] t IH]; cbn [flat_map map]; [intros []|].
  rewrite map_app. intro H. apply in_app_or in H. destruct H as [H|H].
  - unfold attr_pair in H. cbn [fst snd] in H. destruct (is_attr_key o k) eqn:E; [|destruct H].
    destruct (attr_text o v); [|destruct H]. destruct H as [H|[]]. cbn [fst] in H.
    exists k. cbn [fst]. split; [left; reflexivity|]. split; [exact E | symmetry; exact H].
  - destruct (IH H) as [k' [H1 H2]]. exists k'. split; [right; exact H1 | exact H2].
Qed.

Lemma attr_pairs_nodup (m : entries) : NoDup (map fst m) -> NoDup (map fst (attr_pairs m)).
Proof.
  unfold attr_pairs. induction m as [|[k v] t IH]; cbn [flat_map map]; intro H; [constructor|].
  inversion H as [|? ? Hnin Hnd]; subst. rewrite map_app.
  unfold attr_pair at 1. cbn [fst snd]. destruct (is_attr_key o k) eqn:E; [|apply IH; exact Hnd].
  destruct (attr_text o v); [|apply IH; exact Hnd]. cbn [map app fst].
  constructor; [|apply IH; exact Hnd].
  intro Hin. apply attr_pairs_keys in Hin. destruct Hin as [k' [Hk' [Ek' Heq]]].
  apply Hnin. rewrite (attr_key_split k E), Heq, <- (attr_key_split k' Ek'). exact Hk'.
Qed.

(* sorted attribute list: the same for related maps *)
Lemma sorted_attrs_eq (m p m' : entries) :
  NoDup (map fst m) -> Forall2 (entry_rel veq) m p -> Permutation p m' ->
  forallb attr_ok m = forallb attr_ok m' /\ sort_by_key (attr_pairs m) = sort_by_key (attr_pairs m').
Proof.
  intros Hnd Hf Hp. split.
  - rewrite (forall2_attr_ok _ _ Hf). apply perm_forallb. exact Hp.
  - rewrite (forall2_attr_pairs _ _ Hf). apply sort_by_key_perm_eq.
    + apply attr_pairs_nodup. rewrite <- (forall2_keys _ _ _ Hf). exact Hnd.
    + unfold attr_pairs. apply Permutation_flat_map. exact Hp.
Qed.

(* ---------------- the map case of enc, as a function of the encoded children ---------------- *)
Definition kids_of (vv : entries) : list (str * res (list item)) :=
  map (fun kv => (fst kv, enc o (snd kv) (fst kv))) vv.

Definition enc_map (key : str) (vv : entries) (kids : list (str * res (list item))) : res (list item) :=
  bind (attrs_of o vv) (fun attrs =>
    let attrs := sort_by_key attrs in
    let n := length attrs in
    if Nat.eqb n (length vv) then Ok (close_or_empty o key attrs)
    else
      match lookup (textK o) vv with
      | Some tv =>
          if Nat.eqb (S n) (length vv)
          then Ok [IOpen key attrs; IText (text_text o tv); IClose key]
          else
            let elems := sort_by_key (filter (fun kr => negb (str_eqb (fst kr) (textK o)) && negb (is_attr_key o (fst kr))) kids) in
            bind (concat_res (map snd elems)) (fun body =>
              Ok (IOpen key attrs :: IText (text_text o tv) :: body ++ [IClose key]))
      | None =>
          let elems := sort_by_key (filter (fun kr => negb (is_attr_key o (fst kr))) kids) in
          bind (concat_res (map snd elems)) (fun body =>
            Ok (IOpen key attrs :: body ++ [IClose key]))
      end).

Lemma enc_VMap (vv : entries) (key : str) : enc o (VMap vv) key = enc_map key vv (kids_of vv).
Proof. reflexivity. Qed.

Lemma kids_keys (vv : entries) : map fst (kids_of vv) = map fst vv.
Proof. unfold kids_of. rewrite map_map. reflexivity. Qed.

Lemma sorted_kids_eq (f : str * res (list item) -> bool) (m p m' : entries) :
  NoDup (map fst m) -> kids_of m = kids_of p -> Permutation p m' ->
  sort_by_key (filter f (kids_of m)) = sort_by_key (filter f (kids_of m')).
Proof.
  intros Hnd Hk Hp. apply sort_by_key_perm_eq.
  - apply nodup_map_filter. rewrite kids_keys. exact Hnd.
  - rewrite Hk. apply perm_filter. unfold kids_of. apply Permutation_map. exact Hp.
Qed.

(* ---------------- encode_perm_invariant ---------------- *)
Definition enc_inv (v : value) : Prop := forall v' key, wf v -> veq v v' -> enc o v key = enc o v' key.

Lemma enc_map_inv (m : entries) :
  Forall (fun kv => enc_inv (snd kv)) m -> enc_inv (VMap m).
Proof.
  intros IH v' key Hwf Hveq.
  inversion Hveq as [v Hs|m0 p m' Hf Hp|]; subst; [discriminate Hs|].
  destruct (wf_map_inv _ Hwf) as [Hnd Hwfs].
  rewrite !enc_VMap.
  assert (Hkids : kids_of m = kids_of p).
  { clear Hp Hnd Hwf Hveq. unfold kids_of. induction Hf as [|[k v] [k' v2] m p [Hk Hv] _ IHf]; [reflexivity|].
    cbn [fst snd] in Hk, Hv. subst k'. cbn [map fst snd].
    inversion IH as [|? ? IH1 IH2]; subst. inversion Hwfs as [|? ? W1 W2]; subst. cbn [snd] in IH1, W1.
    rewrite (IH1 v2 k W1 Hv). f_equal. apply IHf; assumption. }
  destruct (sorted_attrs_eq m p m' Hnd Hf Hp) as [Hok Hattrs].
  assert (Hlen : length m = length m').
  { rewrite <- (Permutation_length Hp). apply (forall2_len _ _ _ Hf). }
  assert (Hndp : NoDup (map fst p)) by (rewrite <- (forall2_keys _ _ _ Hf); exact Hnd).
  unfold enc_map. rewrite !attrs_of_char, <- Hok.
  destruct (forallb attr_ok m); [|reflexivity]. cbn [bind].
  rewrite <- Hattrs, <- Hlen.
  destruct (Nat.eqb (length (sort_by_key (attr_pairs m))) (length m)); [reflexivity|].
  pose proof (forall2_lookup veq (textK o) m p Hf) as Hl.
  rewrite <- (lookup_perm (textK o) p m' Hndp Hp).
  destruct (lookup (textK o) m) as [tv|], (lookup (textK o) p) as [tv'|]; try contradiction.
  - rewrite <- (veq_text_text _ _ Hl).
    destruct (Nat.eqb (S (length (sort_by_key (attr_pairs m)))) (length m)); [reflexivity|].
    rewrite (sorted_kids_eq _ m p m' Hnd Hkids Hp). reflexivity.
  - rewrite (sorted_kids_eq _ m p m' Hnd Hkids Hp). reflexivity.
Qed.

Lemma enc_list_inv (l : list value) : Forall enc_inv l -> enc_inv (VList l).
Proof.
  intros IH v' key Hwf Hveq.
  inversion Hveq as [v Hs| |l0 l' Hf]; subst; [discriminate Hs|].
  pose proof (wf_list_inv _ Hwf) as Hwfs.
  cbn [enc].
  assert (Hm : map (fun v => enc o v key) l = map (fun v => enc o v key) l').
  { clear Hveq Hwf. induction Hf as [|v v2 l l' Hv _ IHf]; [reflexivity|].
    inversion IH as [|? ? IH1 IH2]; subst. inversion Hwfs as [|? ? W1 W2]; subst.
    cbn [map]. rewrite (IH1 v2 key W1 Hv). f_equal. apply IHf; assumption. }
  destruct Hf as [|v v2 l l' Hv Hf]; [reflexivity|]. rewrite Hm. reflexivity.
Qed.

Theorem enc_perm_invariant (v v' : value) (key : str) :
  wf v -> veq v v' -> enc o v key = enc o v' key.
Proof.
  revert v' key. change (enc_inv v).
  induction v using value_ind2;
    try (intros v' key _ Hveq; inversion Hveq; subst; reflexivity).
  - apply enc_map_inv. assumption.
  - apply enc_list_inv. assumption.
Qed.

(* ---------------- the root rules ---------------- *)
Lemma veq_is_map v v' : veq v v' -> is_map v = is_map v'.
Proof. intro H. inversion H; subst; reflexivity. Qed.

Lemma veq_all_maps l l' : Forall2 veq l l' -> all_maps l = all_maps l'.
Proof.
  unfold all_maps. induction 1 as [|v v' l l' Hv _ IH]; [reflexivity|].
  cbn [forallb]. rewrite (veq_is_map _ _ Hv), IH. reflexivity.
Qed.

(* a related Map has the same number of entries; a single entry stays single *)
Lemma veq_map_single key value m' :
  veq (VMap [(key, value)]) (VMap m') -> exists value', m' = [(key, value')] /\ veq value value'.
Proof.
  intro H. inversion H as [v Hs|m0 p m1 Hf Hp|]; subst; [discriminate Hs|].
  inversion Hf as [|a [k' v'] l1 l2 [Hk Hv] Hf']; subst. inversion Hf'; subst.
  apply Permutation_length_1_inv in Hp. subst m'. cbn [fst snd] in Hk, Hv. subst k'.
  exists v'. split; [reflexivity | exact Hv].
Qed.

Lemma veq_map_length m m' : veq (VMap m) (VMap m') -> length m = length m'.
Proof.
  intro H. inversion H as [v Hs|m0 p m1 Hf Hp|]; subst; [reflexivity|].
  rewrite <- (Permutation_length Hp). apply (forall2_len _ _ _ Hf).
Qed.

Lemma wf_single key value : wf (VMap [(key, value)]) -> wf value.
Proof. intro H. destruct (wf_map_inv _ H) as [_ Hf]. inversion Hf; subst. assumption. Qed.

Theorem map_xml_items_perm_invariant (m m' : entries) (root : option str) :
  wf (VMap m) -> veq (VMap m) (VMap m') -> map_xml_items o m root = map_xml_items o m' root.
Proof.
  intros Hwf Hveq. unfold map_xml_items. destruct root as [rt|]; [apply enc_perm_invariant; assumption|].
  pose proof (veq_map_length _ _ Hveq) as Hlen.
  destruct m as [|[key value] [|b t]].
  - destruct m'; [|discriminate Hlen]. reflexivity.
  - destruct (veq_map_single _ _ _ Hveq) as [value' [-> Hv]].
    pose proof (wf_single _ _ Hwf) as Hwv.
    inversion Hv as [v Hs| |l l' Hf]; subst;
      try (apply enc_perm_invariant; assumption);
      try (destruct value'; try discriminate Hs; reflexivity).
    rewrite <- (veq_all_maps _ _ Hf). destruct (all_maps l); apply enc_perm_invariant; assumption.
  - destruct m' as [|[k1 v1] [|b' t']]; try discriminate Hlen. apply enc_perm_invariant; assumption.
Qed.

Theorem map_xml_indent_items_perm_invariant (m m' : entries) (root : option str) :
  wf (VMap m) -> veq (VMap m) (VMap m') -> map_xml_indent_items o m root = map_xml_indent_items o m' root.
Proof.
  intros Hwf Hveq. unfold map_xml_indent_items. destruct root as [rt|]; [apply enc_perm_invariant; assumption|].
  pose proof (veq_map_length _ _ Hveq) as Hlen.
  destruct m as [|[key value] [|b t]].
  - destruct m'; [|discriminate Hlen]. reflexivity.
  - destruct (veq_map_single _ _ _ Hveq) as [value' [-> Hv]].
    pose proof (wf_single _ _ Hwf) as Hwv.
    inversion Hv as [v Hs| |l l' Hf]; subst;
      try (apply enc_perm_invariant; assumption);
      try (destruct value'; try discriminate Hs; reflexivity).
  - destruct m' as [|[k1 v1] [|b' t']]; try discriminate Hlen. apply enc_perm_invariant; assumption.
Qed.

Definition any_member (et : str) (vv : value) : res (list item) :=
  match vv with
  | VMap [(tag, val)] => enc o val tag
  | _ => enc o vv et
  end.

Lemma any_member_inv et v v' : wf v -> veq v v' -> any_member et v = any_member et v'.
Proof.
  intros Hwf Hveq. destruct v as [x|b| |z|z|z|f|x|m|l];
    try (inversion Hveq; subst; reflexivity).
  - destruct v' as [| | | | | | | |m'|]; try (inversion Hveq as [v Hs| |]; subst; discriminate Hs).
    pose proof (veq_map_length _ _ Hveq) as Hlen.
    destruct m as [|[key value] [|b t]].
    + destruct m'; [|discriminate Hlen]. reflexivity.
    + destruct (veq_map_single _ _ _ Hveq) as [value' [-> Hv]]. cbn [any_member].
      apply enc_perm_invariant; [eapply wf_single; exact Hwf | exact Hv].
    + destruct m' as [|[k1 v1] [|b' t']]; try discriminate Hlen. cbn [any_member].
      apply enc_perm_invariant; assumption.
  - destruct v' as [| | | | | | | | |l']; try (inversion Hveq as [v Hs| |]; subst; discriminate Hs).
    cbn [any_member]. apply enc_perm_invariant; assumption.
Qed.

Theorem any_xml_items_perm_invariant (v v' : value) (rt et : str) :
  wf v -> veq v v' -> any_xml_items o v rt et = any_xml_items o v' rt et.
Proof.
  intros Hwf Hveq. destruct v as [x|b| |z|z|z|f|x|m|l];
    try (inversion Hveq; subst; reflexivity).
  - destruct v' as [| | | | | | | |m'|]; try (inversion Hveq as [v Hs| |]; subst; discriminate Hs).
    cbn [any_xml_items]. apply (map_xml_items_perm_invariant m m' (Some rt)); assumption.
  - destruct v' as [| | | | | | | | |l']; try (inversion Hveq as [v Hs| |]; subst; discriminate Hs).
    inversion Hveq as [v Hs| |l0 l1 Hf]; subst; [reflexivity|].
    pose proof (wf_list_inv _ Hwf) as Hwfs.
    cbn [any_xml_items]. change (fun vv : value => match vv with VMap [(tag, val)] => enc o val tag | _ => enc o vv et end) with (any_member et).
    assert (Hm : map (any_member et) l = map (any_member et) l').
    { clear Hveq Hwf. induction Hf as [|v v2 l l' Hv _ IHf]; [reflexivity|].
      inversion Hwfs as [|? ? W1 W2]; subst. cbn [map].
      rewrite (any_member_inv et v v2 W1 Hv). f_equal. apply IHf; assumption. }
    rewrite Hm. reflexivity.
Qed.

End Enc.
