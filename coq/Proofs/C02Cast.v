(* C02: what [cast] does to the strings the decoder stores - every stored scalar, written
   as text or as an attribute value and read again, is itself.  Without cast this is
   unconditional; with float/bool cast it rests on named hypotheses about the ParseFloat
   oracle (print/parse round trip of float64, DESIGN.md section 3, H2). *)
From Mxj Require Import Spec.Shape Proofs.StrLemmas Proofs.XmlStr Proofs.XmlItems Proofs.XmlRT.

(* the characters of the %v text of a float64 *)
Definition flt_charb (ch : ascii) : bool := mem_ascii ch (s "0123456789+-.eENaIfn").

(* assumptions about strconv.ParseFloat / fmt %v, needed only when values are cast *)
Definition pf_hyps (pf : str -> option flt) : Prop :=
  (forall x f, pf x = Some f ->
     pf f = Some f /\ f <> [] /\ forallb flt_charb f = true /\
     (is_naninf f = false -> existsb (str_eqb (to_lower f)) [s "nan"; s "inf"; s "-inf"] = false)) /\
  pf (s "true") = None /\ pf (s "false") = None.

Lemma flt_char_plain ch : flt_charb ch = true -> specialb ch = false.
Proof. ascii_cases ch; vm_compute; intro H; try reflexivity; discriminate H. Qed.
Lemma flt_char_notrim ch : flt_charb ch = true -> mem_ascii ch trim_all = false.
Proof. ascii_cases ch; vm_compute; intro H; try reflexivity; discriminate H. Qed.
Lemma trim_keep_sub ch : mem_ascii ch trim_all = false -> mem_ascii ch trim_keep_space = false.
Proof. ascii_cases ch; vm_compute; intro H; try reflexivity; discriminate H. Qed.

Lemma trim_no_cut cut f : (forall ch, In ch f -> mem_ascii ch cut = false) -> trim cut f = f.
Proof.
  intro H. destruct f as [|ch t]; [reflexivity|]. unfold trim.
  rewrite trim_left_fix by (apply H; left; reflexivity).
  unfold trim_right. destruct (rev (ch :: t)) as [|d r] eqn:E.
  - apply (f_equal (@rev ascii)) in E. rewrite rev_involutive in E. discriminate.
  - rewrite trim_left_fix; [rewrite <- E; apply rev_involutive|].
    apply H. apply in_rev. rewrite E. left. reflexivity.
Qed.

Section Cast.
Variable pf : str -> option flt.
Variable o : opts.
Variable c : bool.
Hypothesis Hs : sym02 o.
Hypothesis Hpf : c = true -> pf_hyps pf.

Notation castv := (castv pf o c).
Notation text_ok := (text_ok pf o c).
Notation attr_ok := (attr_ok pf o c).

Lemma esc_dec y : esc o (dec_str o y) = escape_chars y.
Proof. unfold esc, dec_str. rewrite (s2_esc o Hs). destruct (xmlEscapeCharsDecoder o); reflexivity. Qed.
Lemma dec_plain f : special_free' f = true -> dec_str o f = f.
Proof. intro H. unfold dec_str. destruct (xmlEscapeCharsDecoder o); [apply escape_special_free, H | reflexivity]. Qed.

Lemma trim_flt f : forallb flt_charb f = true -> trim (trimRunes o) f = f.
Proof.
  intro H. rewrite forallb_forall in H. apply trim_no_cut. intros ch Hin.
  pose proof (flt_char_notrim ch (H ch Hin)) as Hn.
  destruct (s2_trim o Hs) as [-> | ->]; [exact Hn | apply trim_keep_sub, Hn].
Qed.
Lemma sf_flt f : forallb flt_charb f = true -> special_free' f = true.
Proof.
  intro H. unfold special_free'. rewrite forallb_forall in *. intros ch Hin.
  rewrite (flt_char_plain ch (H ch Hin)). reflexivity.
Qed.

(* the three outcomes of cast *)
Lemma cast_cases x :
  castv x = VStr x \/
  (exists f, castv x = VFlt f /\ c = true /\ pf x = Some f /\ castToFloat o = true /\
             (castNanInf o || negb (is_naninf f)) = true) \/
  (exists b, castv x = VBool b /\ c = true /\ castToBool o = true).
Proof.
  unfold Shape.castv, cast, nskip. cbn [andb]. rewrite (s2_int o Hs).
  destruct c; cbn [negb]; [|left; reflexivity].
  destruct (negb (castNanInf o) && _); [left; reflexivity|].
  destruct (castToFloat o) eqn:Ef.
  - destruct (pf x) as [f|] eqn:Ep.
    + destruct (castNanInf o || negb (is_naninf f)) eqn:En.
      * right. left. exists f. auto.
      * destruct (castToBool o && _ && _ && _) eqn:Eb; [|left; reflexivity].
        destruct (parse_bool x) as [b|]; [|left; reflexivity].
        right. right. exists b. repeat split; try reflexivity.
        apply andb_true_iff in Eb. destruct Eb as [Eb _]. apply andb_true_iff in Eb. destruct Eb as [Eb _].
        apply andb_true_iff in Eb. apply Eb.
    + destruct (castToBool o && _ && _ && _) eqn:Eb; [|left; reflexivity].
      destruct (parse_bool x) as [b|]; [|left; reflexivity].
      right. right. exists b. repeat split; try reflexivity.
      apply andb_true_iff in Eb. destruct Eb as [Eb _]. apply andb_true_iff in Eb. destruct Eb as [Eb _].
      apply andb_true_iff in Eb. apply Eb.
  - destruct (castToBool o && _ && _ && _) eqn:Eb; [|left; reflexivity].
    destruct (parse_bool x) as [b|]; [|left; reflexivity].
    right. right. exists b. repeat split; try reflexivity.
    apply andb_true_iff in Eb. destruct Eb as [Eb _]. apply andb_true_iff in Eb. destruct Eb as [Eb _].
    apply andb_true_iff in Eb. apply Eb.
Qed.

(* a float read back *)
Lemma cast_flt x f : c = true -> pf x = Some f -> castToFloat o = true ->
  (castNanInf o || negb (is_naninf f)) = true ->
  pf f = Some f /\ f <> [] /\ forallb flt_charb f = true /\ castv f = VFlt f.
Proof.
  intros Hc Hp Hf Hn. destruct (Hpf Hc) as [H1 _]. destruct (H1 x f Hp) as [Hff [Hne [Hch Hnan]]].
  repeat split; try assumption.
  unfold Shape.castv, cast, nskip. cbn [andb]. rewrite (s2_int o Hs), Hc, Hf, Hff, Hn. cbn [negb].
  destruct (castNanInf o) eqn:Ec; cbn [negb andb]; [reflexivity|].
  cbn [orb] in Hn. apply negb_true_iff in Hn. rewrite (Hnan Hn). reflexivity.
Qed.

Lemma cast_bool b : c = true -> castToBool o = true ->
  castv (fmt_v (VBool b)) = VBool b.
Proof.
  intros Hc Hb. destruct (Hpf Hc) as [_ [Ht Hf]].
  unfold Shape.castv, cast, nskip. cbn [andb]. rewrite (s2_int o Hs), Hc, Hb. cbn [negb].
  destruct b; cbn [fmt_v].
  - replace (existsb (str_eqb (to_lower (s "true"))) [s "nan"; s "inf"; s "-inf"]) with false by reflexivity.
    rewrite andb_false_r, Ht. destruct (castToFloat o); reflexivity.
  - replace (existsb (str_eqb (to_lower (s "false"))) [s "nan"; s "inf"; s "-inf"]) with false by reflexivity.
    rewrite andb_false_r, Hf. destruct (castToFloat o); reflexivity.
Qed.

Lemma trim_bool b : trim (trimRunes o) (fmt_v (VBool b)) = fmt_v (VBool b).
Proof. destruct (s2_trim o Hs) as [-> | ->]; destruct b; reflexivity. Qed.

Theorem text_ok_cast y : trim (trimRunes o) y = y -> y <> [] -> text_ok (castv (dec_str o y)).
Proof.
  intros Hy Hne. destruct (cast_cases (dec_str o y)) as [E|[[f [E [Hc [Hp [Hf Hn]]]]]|[b [E [Hc Hb]]]]]; rewrite E.
  - unfold Shape.text_ok. cbn [text_text is_scalar]. rewrite esc_dec, unescape_escape, Hy.
    repeat split; [apply raw_ok_escape | exact Hne | exact E].
  - destruct (cast_flt _ f Hc Hp Hf Hn) as [Hff [Hfne [Hch Hcf]]].
    unfold Shape.text_ok. cbn [text_text fmt_v is_scalar].
    rewrite (unescape_special_free f (sf_flt f Hch)), (trim_flt f Hch), (dec_plain f (sf_flt f Hch)).
    repeat split; [apply raw_ok_special_free, sf_flt, Hch | exact Hfne | exact Hcf].
  - unfold Shape.text_ok. cbn [text_text is_scalar].
    assert (Hsf : special_free' (fmt_v (VBool b)) = true) by (destruct b; reflexivity).
    rewrite (unescape_special_free _ Hsf), trim_bool, (dec_plain _ Hsf).
    repeat split; [apply raw_ok_special_free, Hsf | destruct b; discriminate | apply cast_bool; assumption].
Qed.

Theorem attr_ok_cast y : attr_ok (castv (dec_str o y)).
Proof.
  destruct (cast_cases (dec_str o y)) as [E|[[f [E [Hc [Hp [Hf Hn]]]]]|[b [E [Hc Hb]]]]]; rewrite E.
  - exists (esc o (dec_str o y)). cbn [attr_text]. rewrite esc_dec, unescape_escape.
    repeat split; [apply raw_ok_escape | exact E].
  - destruct (cast_flt _ f Hc Hp Hf Hn) as [Hff [Hfne [Hch Hcf]]].
    exists f. cbn [attr_text fmt_v].
    rewrite (unescape_special_free f (sf_flt f Hch)), (dec_plain f (sf_flt f Hch)).
    repeat split; [apply raw_ok_special_free, sf_flt, Hch | exact Hcf].
  - exists (fmt_v (VBool b)). cbn [attr_text].
    assert (Hsf : special_free' (fmt_v (VBool b)) = true) by (destruct b; reflexivity).
    rewrite (unescape_special_free _ Hsf), (dec_plain _ Hsf).
    repeat split; [apply raw_ok_special_free, Hsf | apply cast_bool; assumption].
Qed.

End Cast.
