(* C13: the statements of Props/C13.v assembled from the lemma files, a toy decoder for
   the witnesses, and the refutation witnesses. *)
From Mxj Require Import Spec.StreamSpec Proofs.C13P Proofs.JsonP Proofs.C13Json Proofs.C13H.
Import ListNotations.
Local Arguments marshal : simpl never.


(* ------------------------------------------------------------------ totality of the drivers *)

Lemma drive_br_total : forall {R} (M : machine R) fuel st b, length (br_r b) < fuel ->
  drive M br_read_byte fuel st b <> None.
Proof.
  intros R M. induction fuel as [|f IH]; intros st b H; [lia|].
  destruct b as [buf sc]. cbn in H. destruct sc as [|e sc]; cbn; [discriminate|].
  destruct e; cbn; try discriminate.
  - destruct (m_step M st b); [apply IH; cbn in *; lia|discriminate].
  - destruct (m_step M st buf); [apply IH; cbn in *; lia|discriminate].
Qed.
Lemma drive_tr_total : forall {R} (M : machine R) fuel st t, length (tr_r t) < fuel ->
  drive M tr_read_byte fuel st t <> None.
Proof.
  intros R M. induction fuel as [|f IH]; intros st t H; [lia|].
  destruct t as [buf w sc]. cbn in H. destruct sc as [|e sc]; cbn; [discriminate|].
  destruct e; cbn; try discriminate.
  - destruct (m_step M st b); [apply IH; cbn in *; lia|discriminate].
  - destruct (m_step M st buf); [apply IH; cbn in *; lia|discriminate].
Qed.

Lemma readers_total : forall (M : xmachine) nmj sc,
  new_map_xml_reader M sc <> None /\ new_map_xml_reader_raw M sc <> None /\
  get_json sc <> None /\ new_map_json_reader nmj sc <> None /\ new_map_json_reader_raw nmj sc <> None.
Proof.
  intros M nmj sc.
  assert (H1 : new_map_xml_reader M sc <> None).
  { unfold new_map_xml_reader. pose proof (drive_br_total M (S (length sc)) (m_init M) (my_byte_reader sc)) as H.
    destruct (drive _ _ _ _ _) as [[r b]|]; [discriminate|]. exfalso. apply H; cbn; [lia|reflexivity]. }
  assert (H2 : new_map_xml_reader_raw M sc <> None).
  { unfold new_map_xml_reader_raw. pose proof (drive_tr_total M (S (length sc)) (m_init M) (my_tee_reader sc)) as H.
    destruct (drive _ _ _ _ _) as [[r b]|]; [discriminate|]. exfalso. apply H; cbn; [lia|reflexivity]. }
  assert (H3 : get_json sc <> None).
  { unfold get_json. pose proof (drive_br_total jmachine (S (length sc)) jinit (my_byte_reader sc)) as H.
    destruct (drive _ _ _ _ _) as [[r b]|]; [discriminate|]. exfalso. apply H; cbn; [lia|reflexivity]. }
  repeat split; try assumption.
  - unfold new_map_json_reader. destruct (get_json sc) as [[[b|b e|] sc']|]; try discriminate. congruence.
  - unfold new_map_json_reader_raw. destruct (get_json sc) as [[[b|b e|] sc']|]; try discriminate. congruence.
Qed.

(* NewMapJsonReader never panics when NewMapJson does not *)
Lemma json_reader_no_panic : forall nmj sc r sc', (forall b, nmj b <> Panic) ->
  new_map_json_reader nmj sc = Some (r, sc') -> r <> Panic.
Proof.
  intros nmj sc r sc' Hn H. unfold new_map_json_reader in H.
  destruct (get_json sc) as [[[b|b e|] s1]|]; try discriminate; injection H as <- _; try discriminate.
  destruct b; [discriminate|apply Hn].
Qed.

(* ------------------------------------------------------------------ json_scan_split *)

Lemma clean_for_legal' : forall X sc, clean_for X sc -> legal X sc /\ clean sc = true.
Proof. intros X sc [k ->]. apply clean_for_legal. Qed.


Lemma reader_is_direct : forall (M : xmachine) X sc, legal X sc -> clean sc = true ->
  exists sc', new_map_xml_reader M sc = Some (fst (direct M (m_init M) X), sc') /\
              legal (skipn (snd (direct M (m_init M) X)) X) sc' /\ clean sc' = true.
Proof.
  intros M X sc Hl Hc. destruct (new_map_xml_reader_clean M X sc (clean_shape _ _ Hl Hc)) as (sc' & E & Hc').
  exists sc'. split; [exact E|]. now apply clean_for_legal'.
Qed.

Lemma raw_is_consumed : forall (M : xmachine) X sc, legal X sc -> clean sc = true ->
  exists sc', new_map_xml_reader_raw M sc =
                Some (fst (direct M (m_init M) X), firstn (snd (direct M (m_init M) X)) X, sc') /\
              legal (skipn (snd (direct M (m_init M) X)) X) sc' /\ clean sc' = true.
Proof.
  intros M X sc Hl Hc. destruct (new_map_xml_reader_raw_clean M X sc (clean_shape _ _ Hl Hc)) as (sc' & E & Hc').
  exists sc'. split; [exact E|]. now apply clean_for_legal'.
Qed.

Lemma json_scan_split : forall m w rest sc,
  scan_safe (VMap m) = true -> blank w = true ->
  legal (w ++ marshal (VMap m) ++ rest) sc -> clean sc = true ->
  exists sc', get_json sc = Some (JOk (marshal (VMap m)), sc') /\ legal rest sc' /\ clean sc' = true.
Proof.
  intros m w rest sc Hs Hw Hl Hc.
  destruct (get_json_doc w m rest sc Hw Hs (clean_shape _ _ Hl Hc)) as (sc' & E & Hc').
  exists sc'. split; [exact E|]. now apply clean_for_legal'.
Qed.

Lemma jstream_length : forall ds tail, length ds <= length (jstream ds tail).
Proof.
  induction ds as [|[w m] ds IH]; intro tail; cbn [jstream length]; [lia|]. destruct (marshal_vmap_cons m) as [t ->].
  rewrite app_length. cbn [app length]. rewrite app_length. specialize (IH tail). lia.
Qed.

Lemma json_read_docs_raw : forall nmj ds tail sc, jdocs_ok nmj ds -> blank tail = true ->
  legal (jstream ds tail) sc -> clean sc = true ->
  read_docs (new_map_json_reader_raw nmj) (S (length sc)) sc =
  map (fun wm => (Ok (jdoc_val nmj (snd wm)), marshal (VMap (snd wm)))) ds ++ [(Err EEOF, [])].
Proof.
  intros nmj ds tail sc Hd Ht Hl Hc. pose proof (clean_shape _ _ Hl Hc) as Hs.
  rewrite (read_docs_stream_of _ _ _ _ (json_raw_stream_of nmj ds tail Hd Ht) _ sc Hs).
  - now rewrite map_map.
  - rewrite map_length. pose proof (clean_for_length _ _ Hs). pose proof (jstream_length ds tail). lia.
Qed.

Lemma json_read_docs : forall nmj ds tail sc, jdocs_ok nmj ds -> blank tail = true ->
  legal (jstream ds tail) sc -> clean sc = true ->
  read_docs (with_unit_raw (new_map_json_reader nmj)) (S (length sc)) sc =
  map (fun wm => (Ok (jdoc_val nmj (snd wm)), [])) ds ++ [(Err EEOF, [])].
Proof.
  intros nmj ds tail sc Hd Ht Hl Hc. pose proof (clean_shape _ _ Hl Hc) as Hs.
  rewrite (read_docs_stream_of _ _ _ _ (json_stream_of nmj ds tail Hd Ht) _ sc Hs).
  - now rewrite map_map.
  - rewrite map_length. pose proof (clean_for_length _ _ Hs). pose proof (jstream_length ds tail). lia.
Qed.

(* raw values of a stream without blanks between the documents: their concatenation is the stream up to the trailing blanks *)
Lemma json_raw_concat_tight : forall ds tail, Forall (fun wm => fst wm = []) ds ->
  concat (map (fun wm : str * entries => marshal (VMap (snd wm))) ds) ++ tail = jstream ds tail.
Proof.
  induction ds as [|[w m] ds IH]; intros tail H; [reflexivity|]. inversion H as [|? ? Hw H']; subst. cbn in Hw. subst w.
  cbn. rewrite <- app_assoc. f_equal. now apply IH.
Qed.

(* ------------------------------------------------------------------ handlers and file readers *)

Definition all_nonempty (vs : list (value * str)) : Prop := Forall (fun p => nonempty_map (fst p) = true) vs.

Lemma handle_generic : forall next X vs t mh eh sc, stream_of next X vs (Err EEOF, t) -> all_nonempty vs ->
  clean_for X sc -> length vs <= length X ->
  exists rest, handle_reader next mh eh sc =
    Some {| h_calls := handler_calls mh 0 vs; h_errs := 0; h_ret := Ok tt; h_rest := rest |}.
Proof.
  intros next X vs t mh eh sc Hs Hne Hc Hlen. unfold handle_reader.
  pose proof (clean_for_length _ _ Hc).
  destruct (handle_loop_stream next X vs t Hs Hne mh eh (2 + length sc) [] sc Hc) as (rest & E); [lia|].
  exists rest. exact E.
Qed.

Lemma xml_vals_nonempty_len : forall (M : xmachine) ds tail, docs_ok M ds -> eof_on_blanks M ->
  length ds <= length (stream ds tail).
Proof. intros. now apply (stream_length_ok M). Qed.

Definition xml_docs (M : xmachine) (ds : list (str * str)) : list (value * str) :=
  map (fun wd => (doc_val M (snd wd), fst wd ++ snd wd)) ds.
Definition xml_docs_noraw (M : xmachine) (ds : list (str * str)) : list (value * str) :=
  map (fun wd => (doc_val M (snd wd), [])) ds.
Definition json_docs nmj (ds : list (str * entries)) : list (value * str) :=
  map (fun wm => (jdoc_val nmj (snd wm), marshal (VMap (snd wm)))) ds.
Definition json_docs_noraw nmj (ds : list (str * entries)) : list (value * str) :=
  map (fun wm => (jdoc_val nmj (snd wm), [])) ds.

Lemma handle_xml_raw_stream : forall (M : xmachine) ds tail mh eh sc,
  docs_ok M ds -> eof_on_blanks M -> blank tail = true -> all_nonempty (xml_docs M ds) ->
  legal (stream ds tail) sc -> clean sc = true ->
  exists rest, handle_xml_reader_raw M mh eh sc =
    Some {| h_calls := handler_calls mh 0 (xml_docs M ds); h_errs := 0; h_ret := Ok tt; h_rest := rest |}.
Proof.
  intros M ds tail mh eh sc Hd He Ht Hne Hl Hc. unfold handle_xml_reader_raw.
  eapply handle_generic; [apply xml_raw_stream_of; eassumption|exact Hne|now apply clean_shape|].
  unfold xml_docs. rewrite map_length. now apply (stream_length_ok M).
Qed.

Lemma handle_xml_stream : forall (M : xmachine) ds tail mh eh sc,
  docs_ok M ds -> eof_on_blanks M -> blank tail = true -> all_nonempty (xml_docs_noraw M ds) ->
  legal (stream ds tail) sc -> clean sc = true ->
  exists rest, handle_xml_reader M mh eh sc =
    Some {| h_calls := handler_calls mh 0 (xml_docs_noraw M ds); h_errs := 0; h_ret := Ok tt; h_rest := rest |}.
Proof.
  intros M ds tail mh eh sc Hd He Ht Hne Hl Hc. unfold handle_xml_reader.
  eapply handle_generic; [apply xml_stream_of; eassumption|exact Hne|now apply clean_shape|].
  unfold xml_docs_noraw. rewrite map_length. now apply (stream_length_ok M).
Qed.

Lemma handle_json_raw_stream : forall nmj ds tail mh eh sc,
  jdocs_ok nmj ds -> blank tail = true -> all_nonempty (json_docs nmj ds) ->
  legal (jstream ds tail) sc -> clean sc = true ->
  exists rest, handle_json_reader_raw nmj mh eh sc =
    Some {| h_calls := handler_calls mh 0 (json_docs nmj ds); h_errs := 0; h_ret := Ok tt; h_rest := rest |}.
Proof.
  intros nmj ds tail mh eh sc Hd Ht Hne Hl Hc. unfold handle_json_reader_raw.
  eapply handle_generic; [apply json_raw_stream_of; eassumption|exact Hne|now apply clean_shape|].
  unfold json_docs. rewrite map_length. apply jstream_length.
Qed.

Lemma handle_json_stream : forall nmj ds tail mh eh sc,
  jdocs_ok nmj ds -> blank tail = true -> all_nonempty (json_docs_noraw nmj ds) ->
  legal (jstream ds tail) sc -> clean sc = true ->
  exists rest, handle_json_reader nmj mh eh sc =
    Some {| h_calls := handler_calls mh 0 (json_docs_noraw nmj ds); h_errs := 0; h_ret := Ok tt; h_rest := rest |}.
Proof.
  intros nmj ds tail mh eh sc Hd Ht Hne Hl Hc. unfold handle_json_reader.
  eapply handle_generic; [apply json_stream_of; eassumption|exact Hne|now apply clean_shape|].
  unfold json_docs_noraw. rewrite map_length. apply jstream_length.
Qed.

Lemma file_schedule_clean : forall X, clean_for X (file_schedule X).
Proof. intro X. exists 0. unfold file_schedule. now rewrite app_nil_r. Qed.

Lemma maps_from_xml_file_raw_stream : forall (M : xmachine) ds tail,
  docs_ok M ds -> eof_on_blanks M -> blank tail = true -> all_nonempty (xml_docs M ds) ->
  new_maps_from_xml_file_raw M (stream ds tail) = Some (xml_docs M ds, Ok tt).
Proof.
  intros M ds tail Hd He Ht Hne. unfold new_maps_from_xml_file_raw, maps_from_file.
  rewrite (maps_loop_stream _ _ _ _ (xml_raw_stream_of M ds tail Hd He Ht) Hne _ [] _ (file_schedule_clean _)); [reflexivity|].
  unfold xml_docs in *. rewrite map_length. pose proof (stream_length_ok M ds tail Hd He). unfold str in *. lia.
Qed.

Lemma maps_from_json_file_raw_stream : forall nmj ds tail,
  jdocs_ok nmj ds -> blank tail = true -> all_nonempty (json_docs nmj ds) ->
  new_maps_from_json_file_raw nmj (jstream ds tail) = Some (json_docs nmj ds, Ok tt).
Proof.
  intros nmj ds tail Hd Ht Hne. unfold new_maps_from_json_file_raw, maps_from_file.
  rewrite (maps_loop_stream _ _ _ _ (json_raw_stream_of nmj ds tail Hd Ht) Hne _ [] _ (file_schedule_clean _)); [reflexivity|].
  unfold json_docs. rewrite map_length. pose proof (jstream_length ds tail). lia.
Qed.

(* ------------------------------------------------------------------ a small concrete decoder (for witnesses and non-vacuity) *)

(* documents are <name>: blanks are skipped, '<' opens, '>' closes and the Map {name: ""} is returned at once *)
Inductive tst := TOut | TIn (acc : str).
Definition lt_c : ascii := ascii_of_N 60.
Definition gt_c : ascii := ascii_of_N 62.
Definition toy_step (st : tst) (c : ascii) : tst + res value :=
  match st with
  | TOut => if is_blank c then inl TOut
            else if (N_of_ascii c =? 60)%N then inl (TIn []) else inr (Err EOther)
  | TIn acc => if (N_of_ascii c =? 62)%N then inr (Ok (VMap [(acc, VStr [])])) else inl (TIn (acc ++ [c]))
  end.
Definition toy_eof (st : tst) : res value := match st with TOut => Err EEOF | TIn _ => Err EOther end.
Definition toy : xmachine := {| m_st := tst; m_init := TOut; m_step := toy_step; m_eof := toy_eof |}.

Definition toy_doc (name : str) : str := lt_c :: name ++ [gt_c].
Definition no_gt (name : str) : bool := forallb (fun c => negb (N_of_ascii c =? 62)%N) name.

Lemma toy_eof_is_error : eof_is_error toy.
Proof. intros [|acc]; reflexivity. Qed.

Lemma toy_eof_on_blanks : eof_on_blanks toy.
Proof.
  intros w H. change (m_init toy) with TOut. induction w as [|c w IH]; [reflexivity|].
  cbn in H. apply andb_true_iff in H as [Hc Hw]. cbn [direct]. change (m_step toy TOut c) with (toy_step TOut c).
  cbn [toy_step]. rewrite Hc, (IH Hw). reflexivity.
Qed.

Lemma toy_in : forall name acc rest, no_gt name = true ->
  direct toy (TIn acc) (name ++ gt_c :: rest) = (Ok (VMap [(acc ++ name, VStr [])]), S (length name)).
Proof.
  induction name as [|c name IH]; intros acc rest H.
  - cbn. now rewrite app_nil_r.
  - cbn in H. apply andb_true_iff in H as [Hc Hn]. apply negb_true_iff in Hc.
    cbn [app direct]. change (m_step toy (TIn acc) c) with (toy_step (TIn acc) c). cbn [toy_step]. rewrite Hc.
    rewrite (IH (acc ++ [c]) rest Hn), <- app_assoc. reflexivity.
Qed.

Lemma toy_open : toy_step TOut lt_c = inl (TIn []).
Proof. reflexivity. Qed.

Lemma toy_decode : forall name, no_gt name = true -> decode_doc toy (toy_doc name) = Ok (VMap [(name, VStr [])]).
Proof.
  intros name H. unfold decode_doc, toy_doc. cbn [direct]. change (m_step toy (m_init toy) lt_c) with (toy_step TOut lt_c).
  rewrite toy_open. rewrite (toy_in name [] [] H). reflexivity.
Qed.

Lemma toy_stops_at : forall name, no_gt name = true -> stops_at toy (toy_doc name).
Proof.
  intros name H w rest Hw. rewrite (toy_decode name H). change (m_init toy) with TOut.
  induction w as [|c w IH].
  - unfold toy_doc. cbn [app direct length]. change (m_step toy TOut lt_c) with (toy_step TOut lt_c).
    rewrite toy_open. rewrite <- app_assoc. cbn [app]. rewrite (toy_in name [] rest H). cbn. rewrite app_length. cbn. f_equal. lia.
  - cbn in Hw. apply andb_true_iff in Hw as [Hc Hw']. cbn [app direct]. change (m_step toy TOut c) with (toy_step TOut c).
    cbn [toy_step]. rewrite Hc, (IH Hw'). reflexivity.
Qed.

Lemma toy_docs_ok : forall ds, Forall (fun wn => blank (fst wn) = true /\ no_gt (snd wn) = true) ds ->
  docs_ok toy (map (fun wn => (fst wn, toy_doc (snd wn))) ds).
Proof.
  intros ds H. unfold docs_ok. rewrite Forall_map. eapply Forall_impl; [|exact H].
  intros [w n] [Hw Hn]. cbn in *. split; [exact Hw|]. split; [now apply toy_stops_at|]. now rewrite toy_decode.
Qed.

(* ------------------------------------------------------------------ refutation witnesses *)

Definition ch (x : string) : ascii := match s x with c :: _ => c | [] => zero_byte end.

(* (n > 0, io.EOF): the last byte is lost *)
Lemma adaptor_transparent_refuted_data_eof :
  exists X sc n, legal X sc /\ map view_of (br_results n (my_byte_reader sc)) <> transparent X n.
Proof.
  exists (s "ab"), [Data (ch "a"); DataEOF (ch "b")], 3. split; [split; reflexivity|].
  intro H. vm_compute in H. discriminate.
Qed.
(* (0, nil): the stale byte is delivered again *)
Lemma adaptor_transparent_refuted_zero :
  exists X sc n, legal X sc /\ map view_of (br_results n (my_byte_reader sc)) <> transparent X n.
Proof.
  exists (s "ab"), [Data (ch "a"); Zero; Data (ch "b")], 3. split; [split; reflexivity|].
  intro H. vm_compute in H. discriminate.
Qed.
Lemma tee_transparent_refuted_data_eof :
  exists X sc n, legal X sc /\ map view_of (fst (tr_results n (my_tee_reader sc))) <> transparent X n.
Proof.
  exists (s "ab"), [Data (ch "a"); DataEOF (ch "b")], 3. split; [split; reflexivity|].
  intro H. vm_compute in H. discriminate.
Qed.
(* the tee buffer does not even record the byte that the decoder is given twice *)
Lemma tee_transparent_refuted_zero :
  exists X sc n, legal X sc /\
    (map view_of (fst (tr_results n (my_tee_reader sc))) <> transparent X n /\
     map view_of (fst (tr_results n (my_tee_reader sc))) <> map VByte (tr_w (snd (tr_results n (my_tee_reader sc))))).
Proof.
  exists (s "ab"), [Data (ch "a"); Zero; Data (ch "b")], 3. split; [split; reflexivity|].
  split; intro H; vm_compute in H; discriminate.
Qed.

Definition ds_ab : list (str * str) := [([], toy_doc (s "a")); ([], toy_doc (s "b"))].
Lemma ds_ab_ok : docs_ok toy ds_ab.
Proof. apply (toy_docs_ok [([], s "a"); ([], s "b")]). repeat constructor. Qed.

Lemma read_docs_refuted_data_eof :
  exists (M : xmachine) ds tail sc, docs_ok M ds /\ eof_on_blanks M /\ eof_is_error M /\ blank tail = true /\
    legal (stream ds tail) sc /\
    read_docs (noraw (new_map_xml_reader M)) (S (length sc)) sc <> expected M ds.
Proof.
  exists toy, ds_ab, [], (map Data (s "<a><b") ++ [DataEOF gt_c]).
  split; [exact ds_ab_ok|]. split; [exact toy_eof_on_blanks|]. split; [exact toy_eof_is_error|].
  split; [reflexivity|]. split; [split; reflexivity|]. intro H. vm_compute in H. discriminate.
Qed.
Lemma read_docs_refuted_zero :
  exists (M : xmachine) ds tail sc, docs_ok M ds /\ eof_on_blanks M /\ eof_is_error M /\ blank tail = true /\
    legal (stream ds tail) sc /\
    read_docs (noraw (new_map_xml_reader M)) (S (length sc)) sc <> expected M ds.
Proof.
  exists toy, ds_ab, [], (map Data (s "<a") ++ [Zero] ++ map Data (s "><b>")).
  split; [exact ds_ab_ok|]. split; [exact toy_eof_on_blanks|]. split; [exact toy_eof_is_error|].
  split; [reflexivity|]. split; [split; reflexivity|]. intro H. vm_compute in H. discriminate.
Qed.

(* {"a":"x\\"}: the value ends in a backslash; the scanner never sees the end of the literal *)
Definition m_trail : entries := [(s "a", VStr (s "x" ++ [bsl]))].
Lemma json_scan_split_refuted :
  exists m sc, legal (marshal (VMap m)) sc /\ clean sc = true /\
    forall sc', get_json sc <> Some (JOk (marshal (VMap m)), sc').
Proof.
  exists m_trail, (file_schedule (marshal (VMap m_trail))). split; [split; reflexivity|]. split; [reflexivity|].
  intros sc' H. vm_compute in H. discriminate.
Qed.

(* blanks before / inside a document are consumed but missing from the raw value *)
Definition nmj_a (_ : str) : res value := Ok (VMap [(s "a", VFlt (s "1"))]).
Definition ds_blank : list (str * entries) := [(s " ", [(s "a", VFlt (s "1"))])].
Lemma json_raw_prefix_refuted :
  exists nmj ds tail sc, jdocs_ok nmj ds /\ blank tail = true /\ legal (jstream ds tail) sc /\ clean sc = true /\
    prefixb (concat (map snd (read_docs (new_map_json_reader_raw nmj) (S (length sc)) sc))) (jstream ds tail) = false.
Proof.
  exists nmj_a, ds_blank, [], (file_schedule (jstream ds_blank [])).
  split; [repeat constructor|]. split; [reflexivity|]. split; [split; reflexivity|]. split; reflexivity.
Qed.

(* {} documents never reach mapHandler / the slice of a file reader *)
Definition nmj_e (b : str) : res value :=
  if str_eqb b (s "{}") then Ok (VMap []) else Ok (VMap [(s "a", VFlt (s "1"))]).
Definition ds_empty : list (str * entries) := [([], [(s "a", VFlt (s "1"))]); ([], []); ([], [(s "a", VFlt (s "1"))])].
Lemma handler_refuted_empty_object :
  exists nmj ds tail sc mh eh, jdocs_ok nmj ds /\ blank tail = true /\ legal (jstream ds tail) sc /\ clean sc = true /\
    forall rest, handle_json_reader nmj mh eh sc <>
      Some {| h_calls := handler_calls mh 0 (json_docs_noraw nmj ds); h_errs := 0; h_ret := Ok tt; h_rest := rest |}.
Proof.
  exists nmj_e, ds_empty, [], (file_schedule (jstream ds_empty [])), (fun _ _ => true), (fun _ => true).
  split; [repeat constructor|]. split; [reflexivity|]. split; [split; reflexivity|]. split; [reflexivity|].
  intros rest H. vm_compute in H. discriminate.
Qed.
Lemma file_refuted_empty_object :
  exists nmj ds tail, jdocs_ok nmj ds /\ blank tail = true /\
    new_maps_from_json_file_raw nmj (jstream ds tail) <> Some (json_docs nmj ds, Ok tt).
Proof.
  exists nmj_e, ds_empty, []. split; [repeat constructor|]. split; [reflexivity|].
  intro H. vm_compute in H. discriminate.
Qed.

(* a closing brace at depth 0: getJson returns a nil pointer, NewMapJsonReaderRaw dereferences it *)
Lemma json_reader_raw_panics :
  exists sc, legal (s "}") sc /\ clean sc = true /\
    forall nmj, new_map_json_reader_raw nmj sc = Some (Panic, [], []).
Proof. exists (file_schedule (s "}")). split; [split; reflexivity|]. split; reflexivity. Qed.
