(* C13: the statements of Props/C13.v assembled from the lemma files, a toy decoder for
   the witnesses, and the witnesses. *)
From Mxj Require Import Spec.StreamSpec Proofs.C13P Proofs.JsonP Proofs.C13Json Proofs.C13H.
Import ListNotations.
Local Arguments marshal : simpl never.

(* ------------------------------------------------------------------ totality of the drivers *)

Lemma br_loop_len : forall i sc, length (snd (br_loop i sc)) <= length sc /\
  (sc <> [] -> 0 < i -> length (snd (br_loop i sc)) < length sc).
Proof.
  induction i as [|i IH]; intro sc; [cbn; split; [lia|intros; lia]|].
  destruct sc as [|e sc]; [cbn; split; [lia|congruence]|]. destruct e; cbn; try (split; [lia|intros; lia]).
  destruct (IH sc) as [H1 _]. split; [lia|intros; lia].
Qed.
Lemma tr_loop_len : forall i t, length (tr_r (snd (tr_loop i t))) <= length (tr_r t) /\
  (tr_r t <> [] -> 0 < i -> length (tr_r (snd (tr_loop i t))) < length (tr_r t)).
Proof.
  intros i [w sc]. rewrite tr_loop_br. cbn [snd tr_r]. apply br_loop_len.
Qed.
Lemma jr_len : forall sc, length (snd (jr_read_byte sc)) <= length sc /\
  (sc <> [] -> length (snd (jr_read_byte sc)) < length sc).
Proof.
  induction sc as [|e sc IH]; [cbn; split; [lia|congruence]|]. destruct e; cbn; split; try lia; intros; lia.
Qed.

(* a driver whose ReadByte consumes at least one event of a non-empty schedule, and answers an error on the empty one *)
Lemma drive_total : forall {R A} (M : machine R) (rb : A -> rbres * A) (src : A -> list rev),
  (forall a, length (src (snd (rb a))) <= length (src a) /\ (src a <> [] -> length (src (snd (rb a))) < length (src a))) ->
  (forall a, src a = [] -> exists e, fst (rb a) = RBErr e) ->
  forall fuel st a, length (src a) < fuel -> drive M rb fuel st a <> None.
Proof.
  intros R A M rb src Hlen Hnil. induction fuel as [|f IH]; intros st a H; [lia|].
  cbn [drive]. destruct (rb a) as [r a'] eqn:E. destruct r as [b|[|]]; try discriminate.
  destruct (m_step M st b); [|discriminate]. apply IH.
  destruct (Hlen a) as [H1 H2]. rewrite E in H1, H2. cbn [snd] in *.
  destruct (src a) eqn:Es; [destruct (Hnil a Es) as [e He]; rewrite E in He; discriminate|].
  specialize (H2 ltac:(discriminate)). cbn in *. lia.
Qed.

Lemma readers_total : forall (M : xmachine) nmj sc,
  new_map_xml_reader M sc <> None /\ new_map_xml_reader_raw M sc <> None /\
  get_json sc <> None /\ new_map_json_reader nmj sc <> None /\ new_map_json_reader_raw nmj sc <> None.
Proof.
  intros M nmj sc.
  assert (H1 : new_map_xml_reader M sc <> None).
  { unfold new_map_xml_reader. apply (drive_total M br_read_byte (fun a => a)); [| |lia].
    - intro a. destruct (br_loop_len 100 a) as [Ha Hb]. split; [exact Ha|intro Hn; apply Hb; [exact Hn|lia]].
    - intros a ->. eexists. reflexivity. }
  assert (H2 : new_map_xml_reader_raw M sc <> None).
  { unfold new_map_xml_reader_raw.
    pose proof (drive_total M tr_read_byte tr_r) as Ht.
    destruct (drive M tr_read_byte (S (length sc)) (m_init M) (my_tee_reader sc)) as [[r t]|] eqn:E; [discriminate|].
    exfalso. revert E. apply Ht; [| |cbn; lia].
    - intro a. destruct (tr_loop_len 100 a) as [Ha Hb]. split; [exact Ha|intro Hn; apply Hb; [exact Hn|lia]].
    - intros [w a] Ha. cbn in Ha. subst a. eexists. reflexivity. }
  assert (H3 : get_json sc <> None).
  { unfold get_json. apply (drive_total jmachine jr_read_byte (fun a => a)); [| |lia].
    - intro a. apply jr_len.
    - intros a ->. eexists. reflexivity. }
  repeat split; try assumption.
  - unfold new_map_json_reader. destruct (get_json sc) as [[[b|b e] sc']|]; try discriminate. congruence.
  - unfold new_map_json_reader_raw. destruct (get_json sc) as [[[b|b e] sc']|]; try discriminate. congruence.
Qed.

(* NewMapJsonReader / NewMapJsonReaderRaw never panic when NewMapJson does not, whatever the stream and the schedule *)
Lemma json_reader_no_panic : forall nmj sc r sc', (forall b, nmj b <> Panic) ->
  new_map_json_reader nmj sc = Some (r, sc') -> r <> Panic.
Proof.
  intros nmj sc r sc' Hn H. unfold new_map_json_reader in H.
  destruct (get_json sc) as [[[b|b e] s1]|]; try discriminate; injection H as <- _; try discriminate.
  destruct b; [discriminate|apply Hn].
Qed.
Lemma json_reader_raw_no_panic : forall nmj sc r raw sc', (forall b, nmj b <> Panic) ->
  new_map_json_reader_raw nmj sc = Some (r, raw, sc') -> r <> Panic.
Proof.
  intros nmj sc r raw sc' Hn H. unfold new_map_json_reader_raw in H.
  destruct (get_json sc) as [[[b|b e] s1]|]; try discriminate; injection H as <- _ _; try discriminate.
  destruct b; [discriminate|apply Hn].
Qed.

(* ------------------------------------------------------------------ single calls *)

Lemma reader_is_direct : forall (M : xmachine) X sc, legal X sc -> zero_bounded sc = true ->
  exists sc', new_map_xml_reader M sc = Some (fst (direct M (m_init M) X), sc') /\
              legal (skipn (snd (direct M (m_init M) X)) X) sc' /\ zero_bounded sc' = true.
Proof.
  intros M X sc Hl Hc. destruct (new_map_xml_reader_ok M X sc (legal_okfor _ _ Hl Hc)) as (sc' & E & Hc').
  exists sc'. split; [exact E|]. now apply okfor_legal.
Qed.

Lemma raw_is_consumed : forall (M : xmachine) X sc, legal X sc -> zero_bounded sc = true ->
  exists sc', new_map_xml_reader_raw M sc =
                Some (fst (direct M (m_init M) X), firstn (snd (direct M (m_init M) X)) X, sc') /\
              legal (skipn (snd (direct M (m_init M) X)) X) sc' /\ zero_bounded sc' = true.
Proof.
  intros M X sc Hl Hc. destruct (new_map_xml_reader_raw_ok M X sc (legal_okfor _ _ Hl Hc)) as (sc' & E & Hc').
  exists sc'. split; [exact E|]. now apply okfor_legal.
Qed.

Lemma json_scan_split : forall eh m w rest sc,
  scan_safe (VMap m) = true -> blank w = true ->
  legal (w ++ marshal eh (VMap m) ++ rest) sc ->
  exists sc', get_json sc = Some (JOk (marshal eh (VMap m)), sc') /\ legal rest sc'.
Proof.
  intros eh m w rest sc Hs Hw Hl.
  destruct (get_json_doc eh w m rest sc Hw Hs (legal_okfor_any _ _ Hl)) as (sc' & E & Hc').
  exists sc'. split; [exact E|]. now apply (okfor_legal anysc).
Qed.

Lemma jstream_length : forall eh ds tail, length ds <= length (jstream eh ds tail).
Proof.
  intro eh. induction ds as [|[w m] ds IH]; intro tail; cbn [jstream length]; [lia|]. destruct (marshal_vmap_cons eh m) as [t ->].
  rewrite app_length. cbn [app length]. rewrite app_length. specialize (IH tail). lia.
Qed.

Lemma json_read_docs_raw : forall eh nmj ds tail sc, jdocs_ok eh nmj ds -> blank tail = true ->
  legal (jstream eh ds tail) sc ->
  read_docs (new_map_json_reader_raw nmj) (S (length sc)) sc =
  map (fun wm => (Ok (jdoc_val eh nmj (snd wm)), marshal eh (VMap (snd wm)))) ds ++ [(Err EEOF, [])].
Proof.
  intros eh nmj ds tail sc Hd Ht Hl. pose proof (legal_okfor_any _ _ Hl) as Hs.
  rewrite (read_docs_stream_of _ _ _ _ _ (json_raw_stream_of eh nmj ds tail Hd Ht) _ sc Hs).
  - now rewrite map_map.
  - rewrite map_length. pose proof (okfor_length _ _ _ Hs). pose proof (jstream_length eh ds tail). lia.
Qed.

Lemma json_read_docs : forall eh nmj ds tail sc, jdocs_ok eh nmj ds -> blank tail = true ->
  legal (jstream eh ds tail) sc ->
  read_docs (with_unit_raw (new_map_json_reader nmj)) (S (length sc)) sc =
  map (fun wm => (Ok (jdoc_val eh nmj (snd wm)), [])) ds ++ [(Err EEOF, [])].
Proof.
  intros eh nmj ds tail sc Hd Ht Hl. pose proof (legal_okfor_any _ _ Hl) as Hs.
  rewrite (read_docs_stream_of _ _ _ _ _ (json_stream_of eh nmj ds tail Hd Ht) _ sc Hs).
  - now rewrite map_map.
  - rewrite map_length. pose proof (okfor_length _ _ _ Hs). pose proof (jstream_length eh ds tail). lia.
Qed.

(* raw values of a stream without blanks between the documents: their concatenation is the stream up to the trailing blanks *)
Lemma json_raw_concat_tight : forall eh ds tail, Forall (fun wm => fst wm = []) ds ->
  concat (map (fun wm : str * entries => marshal eh (VMap (snd wm))) ds) ++ tail = jstream eh ds tail.
Proof.
  intro eh. induction ds as [|[w m] ds IH]; intros tail H; [reflexivity|]. inversion H as [|? ? Hw H']; subst. cbn in Hw. subst w.
  cbn. rewrite <- app_assoc. f_equal. now apply IH.
Qed.

(* ------------------------------------------------------------------ handlers and file readers *)

Definition xml_docs (M : xmachine) (ds : list (str * str)) : list (value * str) :=
  map (fun wd => (doc_val M (snd wd), fst wd ++ snd wd)) ds.
Definition xml_docs_noraw (M : xmachine) (ds : list (str * str)) : list (value * str) :=
  map (fun wd => (doc_val M (snd wd), [])) ds.
Definition json_docs eh nmj (ds : list (str * entries)) : list (value * str) :=
  map (fun wm => (jdoc_val eh nmj (snd wm), marshal eh (VMap (snd wm)))) ds.
Definition json_docs_noraw eh nmj (ds : list (str * entries)) : list (value * str) :=
  map (fun wm => (jdoc_val eh nmj (snd wm), [])) ds.

Lemma xml_docs_non_nil : forall (M : xmachine) ds (f : str * str -> str), docs_ok M ds ->
  Forall (fun p : value * str => non_nil (fst p) = true) (map (fun wd => (doc_val M (snd wd), f wd)) ds).
Proof.
  intros M ds f H. rewrite Forall_map. eapply Forall_impl; [|exact H]. intros [w d] (_ & _ & Hok). cbn in *.
  unfold doc_val. destruct (okmap_ok _ Hok) as [m ->]. reflexivity.
Qed.
Lemma json_docs_non_nil : forall eh nmj ds (f : str * entries -> str), jdocs_ok eh nmj ds ->
  Forall (fun p : value * str => non_nil (fst p) = true) (map (fun wm => (jdoc_val eh nmj (snd wm), f wm)) ds).
Proof.
  intros eh nmj ds f H. rewrite Forall_map. eapply Forall_impl; [|exact H]. intros [w m] (_ & _ & Hok). cbn in *.
  unfold jdoc_val. destruct (okmap_ok _ Hok) as [mm ->]. reflexivity.
Qed.

Lemma handle_generic : forall next P X vs t mh eh sc, stream_of next P X vs (Err EEOF, t) ->
  Forall (fun p : value * str => non_nil (fst p) = true) vs ->
  okfor P X sc -> length vs <= length X ->
  exists rest, handle_reader next mh eh sc =
    Some {| h_calls := handler_calls mh 0 vs; h_errs := 0; h_ret := Ok tt; h_rest := rest |}.
Proof.
  intros next P X vs t mh eh sc Hs Hne Hc Hlen. unfold handle_reader.
  pose proof (okfor_length _ _ _ Hc).
  destruct (handle_loop_stream next P X vs t Hs Hne mh eh (2 + length sc) [] sc Hc) as (rest & E); [lia|].
  exists rest. exact E.
Qed.

Lemma handle_xml_raw_stream : forall (M : xmachine) ds tail mh eh sc,
  docs_ok M ds -> eof_on_blanks M -> blank tail = true ->
  legal (stream ds tail) sc -> zero_bounded sc = true ->
  exists rest, handle_xml_reader_raw M mh eh sc =
    Some {| h_calls := handler_calls mh 0 (xml_docs M ds); h_errs := 0; h_ret := Ok tt; h_rest := rest |}.
Proof.
  intros M ds tail mh eh sc Hd He Ht Hl Hc. unfold handle_xml_reader_raw.
  eapply handle_generic; [apply xml_raw_stream_of; eassumption|now apply xml_docs_non_nil|now apply legal_okfor|].
  unfold xml_docs. rewrite map_length. now apply (stream_length_ok M).
Qed.

Lemma handle_xml_stream : forall (M : xmachine) ds tail mh eh sc,
  docs_ok M ds -> eof_on_blanks M -> blank tail = true ->
  legal (stream ds tail) sc -> zero_bounded sc = true ->
  exists rest, handle_xml_reader M mh eh sc =
    Some {| h_calls := handler_calls mh 0 (xml_docs_noraw M ds); h_errs := 0; h_ret := Ok tt; h_rest := rest |}.
Proof.
  intros M ds tail mh eh sc Hd He Ht Hl Hc. unfold handle_xml_reader.
  eapply handle_generic; [apply xml_stream_of; eassumption|now apply xml_docs_non_nil|now apply legal_okfor|].
  unfold xml_docs_noraw. rewrite map_length. now apply (stream_length_ok M).
Qed.

Lemma handle_json_raw_stream : forall e nmj ds tail mh eh sc,
  jdocs_ok e nmj ds -> blank tail = true -> legal (jstream e ds tail) sc ->
  exists rest, handle_json_reader_raw nmj mh eh sc =
    Some {| h_calls := handler_calls mh 0 (json_docs e nmj ds); h_errs := 0; h_ret := Ok tt; h_rest := rest |}.
Proof.
  intros e nmj ds tail mh eh sc Hd Ht Hl. unfold handle_json_reader_raw.
  eapply handle_generic; [apply json_raw_stream_of; eassumption|now apply json_docs_non_nil|now apply legal_okfor_any|].
  unfold json_docs. rewrite map_length. apply jstream_length.
Qed.

Lemma handle_json_stream : forall e nmj ds tail mh eh sc,
  jdocs_ok e nmj ds -> blank tail = true -> legal (jstream e ds tail) sc ->
  exists rest, handle_json_reader nmj mh eh sc =
    Some {| h_calls := handler_calls mh 0 (json_docs_noraw e nmj ds); h_errs := 0; h_ret := Ok tt; h_rest := rest |}.
Proof.
  intros e nmj ds tail mh eh sc Hd Ht Hl. unfold handle_json_reader.
  eapply handle_generic; [apply json_stream_of; eassumption|now apply json_docs_non_nil|now apply legal_okfor_any|].
  unfold json_docs_noraw. rewrite map_length. apply jstream_length.
Qed.

Lemma zb_data : forall X cur, zb_aux 100 cur (map Data X) = true.
Proof. induction X as [|x X IH]; intro cur; [reflexivity|]. cbn. apply IH. Qed.
Lemma legal_tail_data : forall X, legal_tail (map Data X) = true.
Proof. induction X; cbn; auto. Qed.
Lemma delivered_data : forall X, delivered (map Data X) = X.
Proof. induction X as [|x X IH]; cbn; [reflexivity|now rewrite IH]. Qed.
Lemma file_schedule_ok : forall P X, (P = zero_bounded \/ P = anysc) -> okfor P X (file_schedule X).
Proof.
  intros P X HP. unfold file_schedule. split; [apply delivered_data|]. split; [apply legal_tail_data|].
  destruct HP as [-> | ->]; [apply zb_data|reflexivity].
Qed.

Lemma maps_from_xml_file_raw_stream : forall (M : xmachine) ds tail,
  docs_ok M ds -> eof_on_blanks M -> blank tail = true ->
  new_maps_from_xml_file_raw M (stream ds tail) = Some (xml_docs M ds, Ok tt).
Proof.
  intros M ds tail Hd He Ht. unfold new_maps_from_xml_file_raw, maps_from_file.
  rewrite (maps_loop_stream _ _ _ _ _ (xml_raw_stream_of M ds tail Hd He Ht) (xml_docs_non_nil M ds _ Hd) _ [] _
             (file_schedule_ok _ _ (or_introl eq_refl))); [reflexivity|].
  rewrite map_length. pose proof (stream_length_ok M ds tail Hd He). unfold str in *. lia.
Qed.

Lemma maps_from_json_file_raw_stream : forall e nmj ds tail,
  jdocs_ok e nmj ds -> blank tail = true ->
  new_maps_from_json_file_raw nmj (jstream e ds tail) = Some (json_docs e nmj ds, Ok tt).
Proof.
  intros e nmj ds tail Hd Ht. unfold new_maps_from_json_file_raw, maps_from_file.
  rewrite (maps_loop_stream _ _ _ _ _ (json_raw_stream_of e nmj ds tail Hd Ht) (json_docs_non_nil e nmj ds _ Hd) _ [] _
             (file_schedule_ok _ _ (or_intror eq_refl))); [reflexivity|].
  rewrite map_length. pose proof (jstream_length e ds tail). unfold str in *. lia.
Qed.

(* ------------------------------------------------------------------ a small concrete decoder (for witnesses and non-vacuity) *)

(* documents are <name>: blanks are skipped, '<' opens, '>' closes and the Map {name: ""} is returned at once *)
Inductive tst := TOut | TIn (acc : str).
Definition lt_c : ascii := ascii_of_N 60.
Definition gt_c : ascii := ascii_of_N 62.
Definition toy_step (st : tst) (c : ascii) : tst + res value :=
  match st with
  | TOut => if is_blank c then inl TOut
            else if (N_of_ascii c =? 60)%N then inl (TIn []) else inr (Err EOther)
  | TIn acc => if (N_of_ascii c =? 62)%N then inr (Ok (VMap [(acc, VStr [])])) else inl (TIn (acc ++ [c]))
  end.
Definition toy_eof (st : tst) : res value := match st with TOut => Err EEOF | TIn _ => Err EOther end.
Definition toy : xmachine :=
  {| m_st := tst; m_init := TOut; m_step := toy_step; m_eof := toy_eof; m_noprog := fun _ => Err EOther |}.

Definition toy_doc (name : str) : str := lt_c :: name ++ [gt_c].
Definition no_gt (name : str) : bool := forallb (fun c => negb (N_of_ascii c =? 62)%N) name.

Lemma toy_eof_is_error : eof_is_error toy.
Proof. intros [|acc]; split; reflexivity. Qed.

Lemma toy_eof_on_blanks : eof_on_blanks toy.
Proof.
  intros w H. change (m_init toy) with TOut. induction w as [|c w IH]; [reflexivity|].
  cbn in H. apply andb_true_iff in H as [Hc Hw]. cbn [direct]. change (m_step toy TOut c) with (toy_step TOut c).
  cbn [toy_step]. rewrite Hc, (IH Hw). reflexivity.
Qed.

Lemma toy_in : forall name acc rest, no_gt name = true ->
  direct toy (TIn acc) (name ++ gt_c :: rest) = (Ok (VMap [(acc ++ name, VStr [])]), S (length name)).
Proof.
  induction name as [|c name IH]; intros acc rest H.
  - cbn. now rewrite app_nil_r.
  - cbn in H. apply andb_true_iff in H as [Hc Hn]. apply negb_true_iff in Hc.
    cbn [app direct]. change (m_step toy (TIn acc) c) with (toy_step (TIn acc) c). cbn [toy_step]. rewrite Hc.
    rewrite (IH (acc ++ [c]) rest Hn), <- app_assoc. reflexivity.
Qed.

Lemma toy_open : toy_step TOut lt_c = inl (TIn []).
Proof. reflexivity. Qed.

Lemma toy_decode : forall name, no_gt name = true -> decode_doc toy (toy_doc name) = Ok (VMap [(name, VStr [])]).
Proof.
  intros name H. unfold decode_doc, toy_doc. cbn [direct]. change (m_step toy (m_init toy) lt_c) with (toy_step TOut lt_c).
  rewrite toy_open. rewrite (toy_in name [] [] H). reflexivity.
Qed.

Lemma toy_stops_at : forall name, no_gt name = true -> stops_at toy (toy_doc name).
Proof.
  intros name H w rest Hw. rewrite (toy_decode name H). change (m_init toy) with TOut.
  induction w as [|c w IH].
  - unfold toy_doc. cbn [app direct length]. change (m_step toy TOut lt_c) with (toy_step TOut lt_c).
    rewrite toy_open. rewrite <- app_assoc. cbn [app]. rewrite (toy_in name [] rest H). cbn. rewrite app_length. cbn. f_equal. lia.
  - cbn in Hw. apply andb_true_iff in Hw as [Hc Hw']. cbn [app direct]. change (m_step toy TOut c) with (toy_step TOut c).
    cbn [toy_step]. rewrite Hc, (IH Hw'). reflexivity.
Qed.

Lemma toy_docs_ok : forall ds, Forall (fun wn => blank (fst wn) = true /\ no_gt (snd wn) = true) ds ->
  docs_ok toy (map (fun wn => (fst wn, toy_doc (snd wn))) ds).
Proof.
  intros ds H. unfold docs_ok. rewrite Forall_map. eapply Forall_impl; [|exact H].
  intros [w n] [Hw Hn]. cbn in *. split; [exact Hw|]. split; [now apply toy_stops_at|]. now rewrite toy_decode.
Qed.

(* ------------------------------------------------------------------ witnesses *)

Definition ch (x : string) : ascii := match s x with c :: _ => c | [] => zero_byte end.

(* the only legal schedules the adaptors are not transparent for: 100 (0, nil) reads in a row *)
Lemma adaptor_no_progress :
  exists X sc n, legal X sc /\ br_results n sc <> transparent X n.
Proof.
  exists (s "a"), (repeat Zero 100 ++ [Data (ch "a")]), 1. split; [split; reflexivity|].
  intro H. vm_compute in H. discriminate.
Qed.

Definition ds_ab : list (str * str) := [([], toy_doc (s "a")); ([], toy_doc (s "b"))].
Lemma ds_ab_ok : docs_ok toy ds_ab.
Proof. apply (toy_docs_ok [([], s "a"); ([], s "b")]). repeat constructor. Qed.

Lemma read_docs_no_progress :
  exists (M : xmachine) ds tail sc, docs_ok M ds /\ eof_on_blanks M /\ eof_is_error M /\ blank tail = true /\
    legal (stream ds tail) sc /\
    read_docs (noraw (new_map_xml_reader M)) (S (length sc)) sc <> expected M ds.
Proof.
  exists toy, ds_ab, [], (map Data (s "<a>") ++ repeat Zero 100 ++ map Data (s "<b>")).
  split; [exact ds_ab_ok|]. split; [exact toy_eof_on_blanks|]. split; [exact toy_eof_is_error|].
  split; [reflexivity|]. split; [split; reflexivity|]. intro H. vm_compute in H. discriminate.
Qed.

(* blanks before / inside a document are consumed but missing from the raw value *)
Definition nmj_a (_ : str) : res value := Ok (VMap [(s "a", VFlt (s "1"))]).
Definition ds_blank : list (str * entries) := [(s " ", [(s "a", VFlt (s "1"))])].
Lemma json_raw_prefix_refuted :
  exists nmj ds tail sc, jdocs_ok true nmj ds /\ blank tail = true /\ legal (jstream true ds tail) sc /\
    prefixb (concat (map snd (read_docs (new_map_json_reader_raw nmj) (S (length sc)) sc))) (jstream true ds tail) = false.
Proof.
  exists nmj_a, ds_blank, [], (file_schedule (jstream true ds_blank [])).
  split; [repeat constructor|]. split; [reflexivity|]. split; [split; reflexivity|]. reflexivity.
Qed.

(* a closing brace at depth 0 is reported as an error (repaired in /repo by 9f7e6ef; it used to be a nil dereference) *)
Lemma json_reader_raw_lone_brace :
  forall nmj, new_map_json_reader_raw nmj (file_schedule (s "}")) = Some (Err EOther, [], []).
Proof. reflexivity. Qed.
