(* C02: assembly of the fixed-point theorem from decode_shape (C02Dec), the scalar
   lemmas (C02Cast), the round trip of shapes (C02RT), Stage 1 (XmlRT) and the
   well-formedness of encoder output (XmlWF). *)
From Mxj Require Import Spec.Shape Spec.Img Proofs.StrLemmas Proofs.XmlStr Proofs.XmlItems Proofs.XmlRT
     Proofs.XmlWF Proofs.XmlImgG Proofs.C02Dec Proofs.C02Cast Proofs.C02RT.

Section FP.
Variable pf : str -> option flt.
Variable o : opts.
Variable c : bool.
Hypothesis Hs : sym02 o.
Hypothesis Hpf : c = true -> pf_hyps pf.

(* decoder outputs have the shape *)
Theorem decode_shape02 ts tm m : toks02 o ts = true -> xml_decode pf nskip o c ts tm = Ok m ->
  exists K v, m = VMap [(K, v)] /\ elem_key_ok o K /\ eshape pf o c v.
Proof.
  apply (decode_shape pf o c Hs (text_ok_cast pf o c Hs Hpf) (attr_ok_cast pf o c Hs Hpf)).
Qed.

(* every value of that shape is written as one well-formed element and read back equal *)
Theorem roundtrip_shape K v : elem_key_ok o K -> eshape pf o c v ->
  exists its, enc o v K = Ok its /\ wf_items its /\ single_root its /\
    forall ws, ws_ok o ws ->
      exists x, xml_decode pf nskip o c (toks_of_items (insert_ws ws its)) TermEOF = Ok (VMap [(K, x)]) /\
                veqb x v = true.
Proof.
  intros HK Hv. pose proof (eshape_nonlist pf o c v Hv) as Hl.
  pose proof (KS_one pf o c v Hl Hv) as Hkv.
  pose proof (kshape_wdom pf o c Hs v Hkv) as Hw.
  destruct HK as [Hn [Ha Hx]].
  destruct (enc_total o v K Hw) as [E HE]. exists E. split; [exact HE|].
  destruct (enc_elems o (s2_tk o Hs) v K E Hn Hw HE) as [n [Hel Hn1]]. rewrite (Hn1 Hl) in Hel.
  split; [exact (elems_wf 1 E Hel)|]. split; [exact (elems_single_root E Hel)|].
  destruct (enc_decodes pf o c (s2_seq o Hs) (s2_xmpp o Hs) v K E (name_ok_ne K Hn)
              (wdom_kne o (s2_tk o Hs) (s2_tkne o Hs) v Hw) HE) as [_ Hsg].
  destruct (Hsg Hl) as [x [Hix Hsgl]]. rewrite Hx in Hsgl.
  destruct (rt pf o c Hs v Hkv K (conj Hn (conj Ha Hx))) as [_ [_ [Hveq _]]].
  rewrite Hix in Hveq. cbn [collapse] in Hveq.
  intros ws Hws. exists x. split; [|exact Hveq].
  apply (sgl_top pf o c (s2_xmpp o Hs) E K x ws Hsgl Hws).
Qed.

Lemma items_single k v : is_list v = false ->
  map_xml_items o [(k, v)] None = enc o v k /\ map_xml_indent_items o [(k, v)] None = enc o v k.
Proof. destruct v; try discriminate; intros _; split; reflexivity. Qed.

Lemma veqb_single K x v : veqb x v = true -> veqb (VMap [(K, x)]) (VMap [(K, v)]) = true.
Proof. intro H. cbn [veqb length lookup]. rewrite str_eqb_refl, H. reflexivity. Qed.

(* XML -> Map -> XML -> Map, on token streams *)
Theorem fixed_point_toks ts tm m : toks02 o ts = true -> xml_decode pf nskip o c ts tm = Ok m ->
  exists mm its,
    m = VMap mm /\ map_xml_items o mm None = Ok its /\ map_xml_indent_items o mm None = Ok its /\
    wf_items its /\ single_root its /\
    forall ws, ws_ok o ws ->
      exists m', xml_decode pf nskip o c (toks_of_items (insert_ws ws its)) TermEOF = Ok m' /\ veqb m' m = true.
Proof.
  intros Ht Hd. destruct (decode_shape02 ts tm m Ht Hd) as [K [v [-> [HK Hv]]]].
  destruct (roundtrip_shape K v HK Hv) as [its [HE [Hwf [Hsr Hrt]]]].
  destruct (items_single K v (eshape_nonlist pf o c v Hv)) as [H1 H2].
  exists [(K, v)], its. rewrite H1, H2. repeat split; try assumption.
  intros ws Hws. destruct (Hrt ws Hws) as [x [Hdx Hvx]].
  exists (VMap [(K, x)]). split; [exact Hdx | apply veqb_single, Hvx].
Qed.

(* ... and on documents *)
Theorem fixed_point_doc d m : dom02 o d = true -> xml_decode pf nskip o c (toks_of_doc d) TermEOF = Ok m ->
  exists mm its,
    m = VMap mm /\ map_xml_items o mm None = Ok its /\ map_xml_indent_items o mm None = Ok its /\
    wf_items its /\ single_root its /\
    forall ws, ws_ok o ws ->
      exists m', xml_decode pf nskip o c (toks_of_items (insert_ws ws its)) TermEOF = Ok m' /\ veqb m' m = true.
Proof. apply fixed_point_toks. Qed.

End FP.
