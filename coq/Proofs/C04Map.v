(* C04: facts about the association-list primitives, the attribute map the decoder builds and
   its encoding, and the unrolling of lists the encoder performs before sorting. *)
From Coq Require Import Permutation Sorting.Sorted.
From Mxj Require Import Spec.SeqSpec Proofs.StrLemmas Proofs.C04Sort.

(* ---------------- lookup / set ---------------- *)
Lemma set_absent k v m : lookup k m = None -> set k v m = m ++ [(k, v)].
Proof.
  induction m as [|[k' v'] t IH]; cbn [lookup set app]; [reflexivity|].
  destruct (str_eqb k k'); [discriminate|]. intros H. rewrite (IH H). reflexivity.
Qed.

Lemma lookup_app k m1 m2 :
  lookup k (m1 ++ m2) = match lookup k m1 with Some v => Some v | None => lookup k m2 end.
Proof.
  induction m1 as [|[k' v'] t IH]; cbn [lookup app]; [reflexivity|].
  destruct (str_eqb k k'); [reflexivity|exact IH].
Qed.

Lemma lookup_set_same k v m : lookup k (set k v m) = Some v.
Proof.
  induction m as [|[k' v'] t IH]; cbn [lookup set].
  - rewrite str_eqb_refl. reflexivity.
  - destruct (str_eqb k k') eqn:E; cbn [lookup]; rewrite E; [reflexivity|exact IH].
Qed.

Lemma lookup_set_other k k0 v m : str_eqb k0 k = false -> lookup k0 (set k v m) = lookup k0 m.
Proof.
  intros H. induction m as [|[k' v'] t IH]; cbn [lookup set].
  - rewrite H. reflexivity.
  - destruct (str_eqb k k') eqn:E; cbn [lookup].
    + apply str_eqb_eq in E. subst k'. rewrite H. reflexivity.
    + destruct (str_eqb k0 k'); [reflexivity|exact IH].
Qed.

Lemma lookup_add_child_other k k0 v m :
  str_eqb k0 k = false -> lookup k0 (add_child k v m) = lookup k0 m.
Proof.
  intros H. unfold add_child.
  destruct (lookup k m) as [[]|]; apply lookup_set_other; exact H.
Qed.

Lemma set_length_ge k v m : length m <= length (set k v m).
Proof.
  induction m as [|[k' v'] t IH]; cbn [set length]; [lia|].
  destruct (str_eqb k k'); cbn [length]; lia.
Qed.

Lemma add_child_length_ge k v m : length m <= length (add_child k v m).
Proof. unfold add_child. destruct (lookup k m) as [[]|]; apply set_length_ge. Qed.

Lemma has_key_set_other k k0 v m : str_eqb k0 k = false -> has_key k0 (set k v m) = has_key k0 m.
Proof. intros H. unfold has_key. rewrite (lookup_set_other _ _ _ _ H). reflexivity. Qed.

Lemma has_key_add_child_other k k0 v m :
  str_eqb k0 k = false -> has_key k0 (add_child k v m) = has_key k0 m.
Proof. intros H. unfold has_key. rewrite (lookup_add_child_other _ _ _ _ H). reflexivity. Qed.

(* a present key: the entry, and what set does to it *)
Lemma lookup_split k m old :
  lookup k m = Some old ->
  exists l1 l2, m = l1 ++ (k, old) :: l2 /\ forall v, set k v m = l1 ++ (k, v) :: l2.
Proof.
  induction m as [|[k' v'] t IH]; cbn [lookup set]; [discriminate|].
  destruct (str_eqb k k') eqn:E.
  - intros H. injection H as ->. apply str_eqb_eq in E. subst k'.
    exists [], t. split; [reflexivity|]. intros v. reflexivity.
  - intros H. destruct (IH H) as (l1 & l2 & E1 & E2).
    exists ((k', v') :: l1), l2. split; [cbn [app]; rewrite E1; reflexivity|].
    intros v. cbn [app]. rewrite E2. reflexivity.
Qed.

(* ---------------- the list the encoder sorts: entries unrolled ---------------- *)
Section Unroll.
Variable o : opts.

Definition skipk (k : str) : bool := str_eqb k (attrK o) || str_eqb k (seqK o) || str_eqb k (textK o).

Definition unroll1 (kv : str * value) : list (str * value) :=
  if skipk (fst kv) then []
  else match snd kv with
       | VList l => map (fun x => (fst kv, x)) l
       | _ => [(fst kv, snd kv)]
       end.
Definition unroll (val : entries) : list (str * value) := flat_map unroll1 val.

Definition triple (kv : str * value) : str * value * res (list sitem) :=
  (fst kv, snd kv, senc o (snd kv) (fst kv)).

(* exactly the [kids] expression inside senc *)
Definition kid_triples (val : entries) : list (str * value * res (list sitem)) :=
  flat_map (fun kv =>
              if str_eqb (fst kv) (attrK o) || str_eqb (fst kv) (seqK o) || str_eqb (fst kv) (textK o) then []
              else match snd kv with
                   | VList l => map (fun x => (fst kv, x, senc o x (fst kv))) l
                   | _ => [(fst kv, snd kv, senc o (snd kv) (fst kv))]
                   end) val.

Lemma kid_triples_unroll val : kid_triples val = map triple (unroll val).
Proof.
  unfold kid_triples, unroll. induction val as [|[k v] t IH]; [reflexivity|].
  cbn [flat_map]. rewrite map_app, <- IH. f_equal.
  unfold unroll1, skipk. cbn [fst snd].
  destruct (str_eqb k (attrK o) || str_eqb k (seqK o) || str_eqb k (textK o)); [reflexivity|].
  destruct v; try reflexivity.
  rewrite map_map. reflexivity.
Qed.

Lemma unroll_app a b : unroll (a ++ b) = unroll a ++ unroll b.
Proof. apply flat_map_app. Qed.

Lemma unroll_set k v na :
  skipk k = false -> is_list v = false -> lookup k na = None ->
  unroll (set k v na) = unroll na ++ [(k, v)].
Proof.
  intros Hk Hv Hl. rewrite (set_absent _ _ _ Hl), unroll_app. f_equal.
  unfold unroll. cbn [flat_map]. rewrite app_nil_r. unfold unroll1. cbn [fst snd]. rewrite Hk.
  destruct v; try reflexivity. discriminate.
Qed.

Lemma unroll_add_child k v na :
  skipk k = false -> is_list v = false ->
  Permutation (unroll (add_child k v na)) (unroll na ++ [(k, v)]).
Proof.
  intros Hk Hv. unfold add_child. destruct (lookup k na) as [old|] eqn:El.
  - destruct (lookup_split _ _ _ El) as (l1 & l2 & E1 & E2).
    assert (U1 : forall w, unroll [(k, w)] = unroll1 (k, w)).
    { intros w. unfold unroll. cbn [flat_map]. apply app_nil_r. }
    assert (G : forall w extra,
               Permutation (unroll1 (k, w)) (unroll1 (k, old) ++ extra) ->
               Permutation (unroll (l1 ++ (k, w) :: l2)) (unroll (l1 ++ (k, old) :: l2) ++ extra)).
    { intros w extra P.
      change (l1 ++ (k, w) :: l2) with (l1 ++ [(k, w)] ++ l2).
      change (l1 ++ (k, old) :: l2) with (l1 ++ [(k, old)] ++ l2).
      rewrite !unroll_app, !U1. rewrite P.
      rewrite <- !app_assoc. apply Permutation_app_head. apply Permutation_app_head.
      apply Permutation_app_comm. }
    destruct old; rewrite E2, E1; apply G; unfold unroll1; cbn [fst snd]; rewrite Hk;
      try (cbn [map app]; reflexivity).
    (* old = VList l *)
    rewrite map_app. cbn [map]. reflexivity.
  - rewrite (unroll_set _ _ _ Hk Hv El). reflexivity.
Qed.
Lemma unroll_set_skipped k v na : skipk k = true -> unroll (set k v na) = unroll na.
Proof.
  intros Hk. unfold unroll. induction na as [|[k' v'] t IH]; cbn [set flat_map].
  - unfold unroll1. cbn [fst]. rewrite Hk. reflexivity.
  - destruct (str_eqb k k') eqn:E; cbn [flat_map].
    + apply str_eqb_eq in E. subst k'. unfold unroll1 at 1 3. cbn [fst]. rewrite Hk. reflexivity.
    + rewrite IH. reflexivity.
Qed.
End Unroll.

(* ---------------- the attribute map ---------------- *)
Section Attrs.
Variable pf : str -> option flt.
Variable skip : str -> bool.
Variable e : bool.
Notation o := (seq_o e).

Definition aname_full (at_ : xattr) : str := xfull (aname at_).

Fixpoint attr_ents (i : Z) (a : list xattr) : entries :=
  match a with
  | [] => []
  | at_ :: t => (aname_full at_, VMap [(textK o, VStr (avalue at_)); (seqK o, VInt i)]) :: attr_ents (i + 1)%Z t
  end.

Lemma lookup_attr_ents_none k i a :
  existsb (str_eqb k) (map aname_full a) = false -> lookup k (attr_ents i a) = None.
Proof.
  revert i. induction a as [|at_ t IH]; intros i H; [reflexivity|].
  cbn [map existsb] in H. apply orb_false_iff in H. destruct H as [H1 H2].
  cbn [attr_ents lookup]. rewrite H1. apply IH. exact H2.
Qed.

Lemma attr_fold a : forall i aa,
  nodup_keys (map aname_full a) = true ->
  (forall at_, In at_ a -> lookup (aname_full at_) aa = None) ->
  snd (fold_left (seq_attr_step pf skip o false) a (i, aa)) = aa ++ attr_ents i a.
Proof.
  induction a as [|at_ t IH]; intros i aa Hn Hf.
  - cbn [fold_left snd attr_ents]. rewrite app_nil_r. reflexivity.
  - cbn [map nodup_keys] in Hn. apply andb_true_iff in Hn. destruct Hn as [Hn1 Hn2].
    apply negb_true_iff in Hn1.
    cbn [fold_left]. unfold seq_attr_step at 2.
    unfold snake. cbn [snakeCaseKeys xmlEscapeCharsDecoder seq_o opts0].
    change (full_name (xspace (aname at_)) (xlocal (aname at_))) with (aname_full at_).
    assert (Hc : cast pf skip o (avalue at_) false [] = VStr (avalue at_)) by reflexivity.
    rewrite Hc.
    rewrite (set_absent _ _ aa (Hf at_ (or_introl eq_refl))).
    rewrite IH; [|exact Hn2|].
    + rewrite <- app_assoc. reflexivity.
    + intros b Hb. rewrite lookup_app. rewrite (Hf b (or_intror Hb)).
      cbn [lookup]. destruct (str_eqb (aname_full b) (aname_full at_)) eqn:E; [|reflexivity].
      exfalso. apply str_eqb_eq in E.
      assert (X : existsb (str_eqb (aname_full at_)) (map aname_full t) = true).
      { apply existsb_exists. exists (aname_full b). split; [apply in_map; exact Hb|].
        rewrite E. apply str_eqb_refl. }
      rewrite X in Hn1. discriminate.
Qed.

Lemma seq_attr_entries_spec a :
  nodup_keys (map aname_full a) = true ->
  seq_attr_entries pf skip o false a = attr_ents 0 a.
Proof.
  intros H. unfold seq_attr_entries. exact (attr_fold a 0%Z [] H (fun _ _ => eq_refl)).
Qed.

Definition attr_items (a : list xattr) : list (str * str) :=
  map (fun at_ => (aname_full at_, esc o (avalue at_))) a.

Lemma attr_ents_seq_ge i a :
  Forall (fun x => (i <= seq_num o (snd x))%Z) (attr_ents i a).
Proof.
  revert i. induction a as [|at_ t IH]; intros i; cbn [attr_ents]; constructor.
  - cbn. lia.
  - eapply Forall_impl; [|apply (IH (i + 1)%Z)]. cbn beta. intros x Hx. lia.
Qed.

Lemma attr_ents_sorted i a :
  StronglySorted (klt (fun x => seq_num o (snd x))) (attr_ents i a).
Proof.
  revert i. induction a as [|at_ t IH]; intros i; cbn [attr_ents]; constructor.
  - apply IH.
  - eapply Forall_impl; [|apply (attr_ents_seq_ge (i + 1)%Z t)].
    cbn beta. intros x Hx. unfold klt. cbn. lia.
Qed.

Lemma attr_ents_maps i a : forallb (fun x => is_map (snd x)) (attr_ents i a) = true.
Proof. revert i. induction a as [|at_ t IH]; intros i; cbn [attr_ents forallb]; [reflexivity|]. apply IH. Qed.

Lemma sattrs_loop_attr_ents i a : sattrs_loop o (attr_ents i a) = Ok (attr_items a).
Proof.
  revert i. induction a as [|at_ t IH]; intros i; [reflexivity|].
  cbn [attr_ents sattrs_loop].
  change (lookup (textK o) [(textK o, VStr (avalue at_)); (seqK o, VInt i)]) with (Some (VStr (avalue at_))).
  cbn [sattr_text]. rewrite IH. reflexivity.
Qed.

(* the encoder reads the attributes back in their original order *)
Lemma sattrs_attr_ents val a :
  lookup (attrK o) val = Some (VMap (attr_ents 0 a)) -> sattrs o val = Ok (true, attr_items a).
Proof.
  intros H. unfold sattrs. rewrite H.
  rewrite (seq_sort_recovers o (fun kv => snd kv) _ (attr_ents 0 a) (Permutation_refl _)
             (attr_ents_sorted 0 a)).
  cbn [bind]. rewrite sattrs_loop_attr_ents. reflexivity.
Qed.

(* for every presentation order of the attribute map *)
Lemma sattrs_attr_perm val a m :
  lookup (attrK o) val = Some (VMap m) -> Permutation m (attr_ents 0 a) ->
  sattrs o val = Ok (true, attr_items a).
Proof.
  intros H P. unfold sattrs. rewrite H.
  rewrite (seq_sort_recovers o (fun kv => snd kv) _ (attr_ents 0 a) P
             (attr_ents_sorted 0 a)).
  cbn [bind]. rewrite sattrs_loop_attr_ents. reflexivity.
Qed.
End Attrs.
