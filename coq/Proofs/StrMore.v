(* More lemmas about the string layer (Base/Str.v): Join after Split is the identity. *)
From Mxj Require Import Base.Str Proofs.StrLemmas.

(* strings.Join(strings.Split(x, c), c) = x *)
Lemma join_split1_aux c x : forall cur, join [c] (split1_aux c x cur) = rev cur ++ x.
Proof.
  induction x as [|a x IH]; intros cur; cbn [split1_aux].
  - cbn. rewrite app_nil_r. reflexivity.
  - destruct (Ascii.eqb a c) eqn:E.
    + apply Ascii.eqb_eq in E; subst a.
      pose proof (split1_nonempty c x) as Hne. unfold split1 in Hne.
      specialize (IH []). cbn [rev app] in IH.
      destruct (split1_aux c x []) as [|y t] eqn:S; [congruence|].
      change (join [c] (rev cur :: y :: t)) with (rev cur ++ [c] ++ join [c] (y :: t)).
      rewrite IH. reflexivity.
    + rewrite IH. cbn [rev]. rewrite <- app_assoc. reflexivity.
Qed.

Lemma join_split1 c x : join [c] (split1 c x) = x.
Proof. unfold split1. rewrite join_split1_aux. reflexivity. Qed.

(* only the empty string splits into one empty part *)
Lemma split1_single_empty c x : split1 c x = [[]] -> x = [].
Proof. intros H. rewrite <- (join_split1 c x), H. reflexivity. Qed.
