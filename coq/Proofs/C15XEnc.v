(* C15: the Map encoder (Model/XmlEnc.v: marshalMapToXmlIndent, Map.Xml / Map.XmlIndent root handling,
   AnyXml) never panics, on ANY value tree, under any key and any option record: it returns the items
   or an error value ("invalid attribute value"). *)
From Mxj Require Import Model.XmlEnc Proofs.StrLemmas.
Import ListNotations.

Lemma bind_no_panic {A B} (x : res A) (f : A -> res B) :
  x <> Panic -> (forall a, f a <> Panic) -> bind x f <> Panic.
Proof. destruct x; cbn [bind]; intros H1 H2; [apply H2|discriminate|congruence]. Qed.

Section EncTotal.
Variable o : opts.

Lemma attrs_of_no_panic m : attrs_of o m <> Panic.
Proof.
  induction m as [|[k v] t IH]; cbn [attrs_of]; [discriminate|].
  destruct (is_attr_key o k); [|exact IH].
  destruct (attr_text o v); [|discriminate].
  apply bind_no_panic; [exact IH|]. intros; discriminate.
Qed.

Lemma concat_res_no_panic l : Forall (fun x : res (list item) => x <> Panic) l -> concat_res l <> Panic.
Proof.
  induction 1 as [|x t Hx Ht IH]; cbn [concat_res]; [discriminate|].
  apply bind_no_panic; [exact Hx|]. intros a. apply bind_no_panic; [exact IH|]. intros; discriminate.
Qed.

Lemma insert_by_key_in {A} (kv x : str * A) l : In x (insert_by_key kv l) -> x = kv \/ In x l.
Proof.
  induction l as [|h t IH]; cbn [insert_by_key].
  - intros [<-|[]]. left; reflexivity.
  - destruct (str_leb (fst kv) (fst h)).
    + intros [<-|H]; [left; reflexivity|right; exact H].
    + intros [<-|H]; [right; left; reflexivity|].
      destruct (IH H) as [->|H']; [left; reflexivity|right; right; exact H'].
Qed.

Lemma sort_by_key_in {A} (x : str * A) l : In x (sort_by_key l) -> In x l.
Proof.
  unfold sort_by_key. induction l as [|h t IH]; cbn [fold_right]; [intros []|].
  intros H. apply insert_by_key_in in H. destruct H as [->|H]; [left; reflexivity|right; apply IH, H].
Qed.

Theorem enc_no_panic v : forall key, enc o v key <> Panic.
Proof.
  induction v as [x|b| |z|z|z|f|x|m IH|l IH] using value_ind2; intros key; cbn [enc]; try discriminate;
    try (match goal with |- context [fmt_v ?w] => destruct (fmt_v w); discriminate end).
  - destruct (esc o x); discriminate.
  - (* map *)
    apply bind_no_panic; [apply attrs_of_no_panic|]. intros attrs.
    destruct (Nat.eqb (length (sort_by_key attrs)) (length m)); [discriminate|].
    assert (K : forall (p : str * res (list item) -> bool),
               Forall (fun x : res (list item) => x <> Panic)
                 (map snd (sort_by_key (filter p (map (fun kv => (fst kv, enc o (snd kv) (fst kv))) m))))).
    { intros p. apply Forall_forall. intros x Hx. apply in_map_iff in Hx. destruct Hx as (kr & <- & Hkr).
      apply sort_by_key_in in Hkr. apply filter_In in Hkr. destruct Hkr as [Hkr _].
      apply in_map_iff in Hkr. destruct Hkr as (kv & <- & Hkv). cbn [snd].
      rewrite Forall_forall in IH. apply (IH kv Hkv). }
    destruct (lookup (textK o) m) as [tv|].
    + destruct (Nat.eqb (S (length (sort_by_key attrs))) (length m)); [discriminate|].
      apply bind_no_panic; [apply concat_res_no_panic, K|]. intros; discriminate.
    + apply bind_no_panic; [apply concat_res_no_panic, K|]. intros; discriminate.
  - (* list *)
    destruct l as [|v0 t]; [discriminate|].
    apply concat_res_no_panic. apply Forall_forall. intros x Hx.
    apply in_map_iff in Hx. destruct Hx as (v & <- & Hv). rewrite Forall_forall in IH. apply (IH v Hv).
Qed.

(* Map.Xml(rootTag...) and Map.XmlIndent(prefix, indent, rootTag...) before the validity check *)
Theorem map_xml_items_no_panic m rt : map_xml_items o m rt <> Panic.
Proof.
  unfold map_xml_items. destruct rt as [rt|]; [apply enc_no_panic|].
  destruct m as [|[k v] [|kv2 t]]; try apply enc_no_panic.
  destruct v; try apply enc_no_panic. destruct (all_maps l); apply enc_no_panic.
Qed.
Theorem map_xml_indent_items_no_panic m rt : map_xml_indent_items o m rt <> Panic.
Proof.
  unfold map_xml_indent_items. destruct rt as [rt|]; [apply enc_no_panic|].
  destruct m as [|[k v] [|kv2 t]]; try apply enc_no_panic.
  destruct v; apply enc_no_panic.
Qed.

(* AnyXml / AnyXmlIndent for JSON-shaped values *)
Theorem any_xml_items_no_panic v rt et : any_xml_items o v rt et <> Panic.
Proof.
  unfold any_xml_items. destruct v as [x|b| |z|z|z|f|x|m|l]; try apply enc_no_panic; try discriminate.
  - apply bind_no_panic; [|intros; discriminate].
    apply concat_res_no_panic. apply Forall_forall. intros x Hx.
    apply in_map_iff in Hx. destruct Hx as (vv & <- & _).
    destruct vv as [| | | | | | | |mm|]; try apply enc_no_panic.
    destruct mm as [|[tag val] [|? ?]]; apply enc_no_panic.
Qed.
End EncTotal.

(* every Map the Map decoder returns can be handed to the Map encoder: no hypothesis on the tokens is
   needed, because the encoder is total *)
From Mxj Require Import Model.XmlDec.
Theorem decoded_encodable pf skip o r ts tm o' v key :
  xml_decode pf skip o r ts tm = Ok v -> enc o' v key <> Panic.
Proof. intros _. apply enc_no_panic. Qed.
Theorem decoded_map_xml pf skip o r ts tm o' m rt :
  xml_decode pf skip o r ts tm = Ok (VMap m) ->
  map_xml_items o' m rt <> Panic /\ map_xml_indent_items o' m rt <> Panic.
Proof. intros _. split; [apply map_xml_items_no_panic|apply map_xml_indent_items_no_panic]. Qed.
