(* C04, encoder half: on the value the decoder builds for a document of the domain (text alone
   in its element) the encoder emits the expected items; the children come back in document order
   because sorting by sequence number undoes the grouping of repeated names into lists. *)
From Coq Require Import Permutation Sorting.Sorted.
From Mxj Require Import Spec.SeqSpec Proofs.StrLemmas Proofs.C04Sort Proofs.C04Str Proofs.C04Map Proofs.C04Dec.

Section Enc.
Variable pf : str -> option flt.
Variable skip : str -> bool.
Variable e : bool.
Notation o := (seq_o e).
Notation nval := (node_val pf skip e).
Notation kstep := (kid_step pf skip e).
Notation kkey := (kid_key e).
Notation injv := (inj e).

(* ---------------- reserved keys ---------------- *)
Lemma name_ok_keys nm :
  name_ok o nm = true ->
  nonempty (xfull nm) = true /\
  str_eqb (xfull nm) (textK o) = false /\ str_eqb (xfull nm) (seqK o) = false /\
  str_eqb (xfull nm) (attrK o) = false /\ str_eqb (xfull nm) (commentK o) = false /\
  str_eqb (xfull nm) (directiveK o) = false /\ str_eqb (xfull nm) (procinstK o) = false.
Proof.
  unfold name_ok, reserved_keys. intros H. apply andb_true_iff in H. destruct H as [H1 H2].
  apply negb_true_iff in H2. cbn [existsb] in H2.
  repeat (apply orb_false_iff in H2; destruct H2 as [? H2]).
  repeat split; assumption.
Qed.

Definition kid_name_ok (k : node) : bool :=
  match k with NElem nm _ _ _ => name_ok o nm | _ => true end.

Lemma kid_key_skipk k : kid_name_ok k = true -> skipk o (kkey k) = false.
Proof.
  destruct k as [nm a text kids| | |]; intros H; try reflexivity.
  apply name_ok_keys in H. destruct H as (_ & H1 & H2 & H3 & _).
  unfold skipk. cbn [kid_key]. rewrite H1, H2, H3. reflexivity.
Qed.

(* the three keys the encoder's shape tests look at are never the key of a child *)
Lemma kid_key_not k K :
  kid_name_ok k = true -> In K [textK o; seqK o; attrK o] -> str_eqb K (kkey k) = false.
Proof.
  intros H HK. destruct k as [nm a text kids| | |].
  - apply name_ok_keys in H. destruct H as (_ & H1 & H2 & H3 & _).
    rewrite str_eqb_sym. cbn [kid_key].
    destruct HK as [<-|[<-|[<-|[]]]]; assumption.
  - destruct HK as [<-|[<-|[<-|[]]]]; reflexivity.
  - destruct HK as [<-|[<-|[<-|[]]]]; reflexivity.
  - destruct HK as [<-|[<-|[<-|[]]]]; reflexivity.
Qed.

(* ---------------- injected values ---------------- *)
Lemma is_list_inj v sq : is_list (injv v sq) = false.
Proof. destruct v; reflexivity. Qed.

Lemma nval_shape k : (exists m, nval k = VMap m) \/ nval k = VStr [].
Proof.
  destruct k as [nm a text kids|x|x|t i]; try (left; eexists; reflexivity).
  rewrite node_val_elem. unfold finish.
  destruct (fst (fold_left kstep kids (text_state pf skip e a text))); [right; reflexivity|left; eexists; reflexivity].
Qed.

Lemma seq_num_inj k sq : seq_num o (injv (nval k) sq) = sq.
Proof.
  destruct (nval_shape k) as [[m ->]| ->].
  - unfold inj. cbn [seq_inject fst seq_num]. rewrite lookup_set_same. reflexivity.
  - reflexivity.
Qed.

Lemma is_map_inj k sq : is_map (injv (nval k) sq) = true.
Proof. destruct (nval_shape k) as [[m ->]| ->]; reflexivity. Qed.

(* ---------------- the children in document order, with their sequence numbers ---------------- *)
Fixpoint Es (kids : list node) (sq : Z) : list (str * value) :=
  match kids with
  | [] => []
  | k :: t => (kkey k, injv (nval k) sq) :: Es t (sq + 1)%Z
  end.

Definition tkey (t : str * value * res (list sitem)) : Z := seq_num o (snd (fst t)).

Lemma Es_ge kids sq : Forall (fun t => (sq <= tkey t)%Z) (map (triple o) (Es kids sq)).
Proof.
  revert sq. induction kids as [|k t IH]; intros sq; cbn [Es map]; constructor.
  - unfold tkey, triple. cbn [fst snd]. rewrite seq_num_inj. lia.
  - eapply Forall_impl; [|apply (IH (sq + 1)%Z)]. cbn beta. intros x Hx. lia.
Qed.

Lemma Es_sorted kids sq : StronglySorted (klt tkey) (map (triple o) (Es kids sq)).
Proof.
  revert sq. induction kids as [|k t IH]; intros sq; cbn [Es map]; constructor.
  - apply IH.
  - eapply Forall_impl; [|apply (Es_ge t (sq + 1)%Z)].
    cbn beta. intros x Hx. unfold klt, tkey at 1, triple. cbn [fst snd]. rewrite seq_num_inj. lia.
Qed.

Lemma Es_maps kids sq :
  forallb (fun t : str * value * res (list sitem) => is_map (snd (fst t))) (map (triple o) (Es kids sq)) = true.
Proof.
  revert sq. induction kids as [|k t IH]; intros sq; cbn [Es map forallb]; [reflexivity|].
  unfold triple at 1. cbn [fst snd]. rewrite is_map_inj. apply IH.
Qed.

(* ---------------- at most one comment / directive / PI: their keys are fresh ---------------- *)
Definition fresh (p : node -> bool) (K : str) (na : entries) (kids : list node) : Prop :=
  (has_key K na = true -> filter p kids = []) /\ length (filter p kids) <= 1.

Lemma fresh_other p K na na' k t :
  fresh p K na (k :: t) -> p k = false -> has_key K na' = has_key K na -> fresh p K na' t.
Proof.
  unfold fresh. cbn [filter]. intros [H1 H2] Hp Hk. rewrite Hp in *. rewrite Hk. split; assumption.
Qed.

Lemma fresh_same p K na k t :
  fresh p K na (k :: t) -> p k = true -> lookup K na = None /\ forall na', fresh p K na' t.
Proof.
  unfold fresh. cbn [filter]. intros [H1 H2] Hp. rewrite Hp in *. cbn [length] in H2.
  assert (Ht : filter p t = []) by (destruct (filter p t); [reflexivity|cbn [length] in H2; lia]).
  split.
  - unfold has_key in H1. destruct (lookup K na); [|reflexivity].
    specialize (H1 eq_refl). discriminate.
  - intros na'. rewrite Ht. split; [reflexivity|cbn; lia].
Qed.

Lemma fold_unroll kids : forall na sq,
  forallb kid_name_ok kids = true ->
  fresh is_comment (commentK o) na kids ->
  fresh is_directive (directiveK o) na kids ->
  fresh is_procinst (procinstK o) na kids ->
  Permutation (unroll o (fst (fold_left kstep kids (na, sq)))) (unroll o na ++ Es kids sq).
Proof.
  induction kids as [|k t IH]; intros na sq Hn Fc Fd Fp.
  - cbn [fold_left fst Es]. rewrite app_nil_r. reflexivity.
  - cbn [forallb] in Hn. apply andb_true_iff in Hn. destruct Hn as [Hk Ht].
    cbn [fold_left Es]. unfold kid_step at 2. cbn [fst snd].
    assert (Hs := kid_key_skipk k Hk).
    assert (Step : Permutation (unroll o (kid_put e k (nval k) na sq)) (unroll o na ++ [(kkey k, injv (nval k) sq)]) /\
                   fresh is_comment (commentK o) (kid_put e k (nval k) na sq) t /\
                   fresh is_directive (directiveK o) (kid_put e k (nval k) na sq) t /\
                   fresh is_procinst (procinstK o) (kid_put e k (nval k) na sq) t).
    { destruct k as [nm a text kids|x|x|tg i]; unfold kid_put.
      - apply name_ok_keys in Hk. destruct Hk as (_ & _ & _ & _ & K4 & K5 & K6).
        split; [apply unroll_add_child; [exact Hs|apply is_list_inj]|].
        cbn [kid_key]. split; [|split].
        + eapply fresh_other; [exact Fc|reflexivity|]. apply has_key_add_child_other. rewrite str_eqb_sym. exact K4.
        + eapply fresh_other; [exact Fd|reflexivity|]. apply has_key_add_child_other. rewrite str_eqb_sym. exact K5.
        + eapply fresh_other; [exact Fp|reflexivity|]. apply has_key_add_child_other. rewrite str_eqb_sym. exact K6.
      - destruct (fresh_same _ _ _ _ _ Fc eq_refl) as [L F].
        split; [rewrite (unroll_set o _ _ _ Hs (is_list_inj _ _) L); reflexivity|].
        split; [|split].
        + apply F.
        + eapply fresh_other; [exact Fd|reflexivity|]. apply has_key_set_other. reflexivity.
        + eapply fresh_other; [exact Fp|reflexivity|]. apply has_key_set_other. reflexivity.
      - destruct (fresh_same _ _ _ _ _ Fd eq_refl) as [L F].
        split; [rewrite (unroll_set o _ _ _ Hs (is_list_inj _ _) L); reflexivity|].
        split; [|split].
        + eapply fresh_other; [exact Fc|reflexivity|]. apply has_key_set_other. reflexivity.
        + apply F.
        + eapply fresh_other; [exact Fp|reflexivity|]. apply has_key_set_other. reflexivity.
      - destruct (fresh_same _ _ _ _ _ Fp eq_refl) as [L F].
        split; [rewrite (unroll_set o _ _ _ Hs (is_list_inj _ _) L); reflexivity|].
        split; [|split].
        + eapply fresh_other; [exact Fc|reflexivity|]. apply has_key_set_other. reflexivity.
        + eapply fresh_other; [exact Fd|reflexivity|]. apply has_key_set_other. reflexivity.
        + apply F. }
    destruct Step as (P & Fc' & Fd' & Fp').
    rewrite (IH _ _ Ht Fc' Fd' Fp'). rewrite P. rewrite <- app_assoc. reflexivity.
Qed.

(* keys other than the children's are untouched by the loop over the children *)
Lemma fold_lookup kids K : forall na sq,
  (forall k, In k kids -> str_eqb K (kkey k) = false) ->
  lookup K (fst (fold_left kstep kids (na, sq))) = lookup K na.
Proof.
  induction kids as [|k t IH]; intros na sq H; [reflexivity|].
  cbn [fold_left]. unfold kid_step at 2. cbn [fst snd].
  rewrite IH; [|intros k' Hk'; apply H; right; exact Hk'].
  assert (Hk := H k (or_introl eq_refl)).
  destruct k; unfold kid_put; first [apply lookup_add_child_other|apply lookup_set_other]; exact Hk.
Qed.

Lemma fold_length kids : forall na sq, length na <= length (fst (fold_left kstep kids (na, sq))).
Proof.
  induction kids as [|k t IH]; intros na sq; [cbn; lia|].
  cbn [fold_left]. unfold kid_step at 2. cbn [fst snd].
  etransitivity; [|apply IH].
  destruct k; unfold kid_put; first [apply add_child_length_ge|apply set_length_ge].
Qed.

Lemma kid_put_absent k v na sq :
  lookup (kkey k) na = None -> kid_put e k v na sq = na ++ [(kkey k, injv v sq)].
Proof.
  intros H. destruct k; unfold kid_put.
  - unfold add_child. rewrite H. apply set_absent. exact H.
  - apply set_absent. exact H.
  - apply set_absent. exact H.
  - apply set_absent. exact H.
Qed.

(* ---------------- senc on a map value, unfolded once ---------------- *)
Lemma senc_map key val :
  is_special_key o key = false ->
  senc o (VMap val) key =
  bind (sattrs o val) (fun ha =>
    let haveAttrs := fst ha in
    let attrs := snd ha in
    let n := length val in
    let seqOK := has_key (seqK o) val in
    let general :=
      bind (seq_sort o (fun t : str * value * res (list sitem) => snd (fst t)) (kid_triples o val)) (fun sorted =>
      bind (sconcat (map snd sorted)) (fun body =>
        Ok (SI (IOpen key attrs) :: lead_text o val ++ body ++ [SI (IClose key)]))) in
    match lookup (textK o) val with
    | Some v =>
        if Nat.eqb n (if haveAttrs then 3 else 2) && seqOK then
          match v with
          | VStr (c :: x) => Ok [SI (IOpen key attrs); SI (IText (esc o (c :: x))); SI (IClose key)]
          | _ => Ok (empty_or_broken o key attrs)
          end
        else general
    | None =>
        if Nat.eqb n (if haveAttrs then 2 else 1) && seqOK then Ok (empty_or_broken o key attrs)
        else general
    end).
Proof.
  unfold is_special_key. intros H.
  apply orb_false_iff in H. destruct H as [H H3]. apply orb_false_iff in H. destruct H as [H1 H2].
  cbn [senc]. rewrite H1, H2, H3. reflexivity.
Qed.

Lemma sattrs_lookup_eq val val' :
  lookup (attrK o) val = lookup (attrK o) val' -> sattrs o val = sattrs o val'.
Proof. intros H. unfold sattrs. rewrite H. reflexivity. Qed.

Definition has_attrs (a : list xattr) : bool := match a with [] => false | _ => true end.
Notation aitems := (attr_items e).

Lemma init_na_spec a :
  nodup_keys (map aname_full a) = true ->
  init_na pf skip e a = match a with [] => [] | _ => [(attrK o, VMap (attr_ents e 0 a))] end.
Proof.
  intros H. unfold init_na, seq_init_na. destruct a as [|at_ t]; [reflexivity|].
  rewrite (seq_attr_entries_spec pf skip e _ H). reflexivity.
Qed.

Lemma sattrs_init a :
  nodup_keys (map aname_full a) = true ->
  sattrs o (init_na pf skip e a) = Ok (has_attrs a, aitems a).
Proof.
  intros H. rewrite (init_na_spec a H). destruct a as [|at_ t]; [reflexivity|].
  apply sattrs_attr_ents. reflexivity.
Qed.

(* the general path: the children are sorted back into document order *)
Lemma senc_general key val ha attrs E :
  is_special_key o key = false ->
  sattrs o val = Ok (ha, attrs) ->
  match lookup (textK o) val with
  | Some _ => Nat.eqb (length val) (if ha then 3 else 2) && has_key (seqK o) val = false
  | None => Nat.eqb (length val) (if ha then 2 else 1) && has_key (seqK o) val = false
  end ->
  Permutation (unroll o val) E ->
  StronglySorted (klt tkey) (map (triple o) E) ->
  senc o (VMap val) key =
  bind (sconcat (map snd (map (triple o) E)))
       (fun body => Ok (SI (IOpen key attrs) :: lead_text o val ++ body ++ [SI (IClose key)])).
Proof.
  intros Hs Ha Hn P S.
  rewrite (senc_map key val Hs), Ha. cbn [bind fst snd].
  rewrite kid_triples_unroll.
  rewrite (seq_sort_recovers o _ _ (map (triple o) E) (Permutation_map _ P) S).
  destruct (lookup (textK o) val); rewrite Hn; reflexivity.
Qed.

(* ---------------- the items the round trip must produce ---------------- *)
Fixpoint items_of (root : bool) (d : node) : list sitem :=
  match d with
  | NElem nm a text kids =>
      let key := xfull nm in
      match kids with
      | [] =>
          match trim trim_all text with
          | c :: x => [SI (IOpen key (aitems a)); SI (IText (esc o (c :: x))); SI (IClose key)]
          | [] => if root && has_attrs a then [SI (IOpen key (aitems a)); SI (IClose key)]
                  else [SI (IEmpty key (aitems a))]
          end
      | _ =>
          SI (IOpen key (aitems a))
          :: (match trim trim_all text with c :: x => [SI (IText (esc o (c :: x)))] | [] => [] end)
          ++ flat_map (items_of false) kids ++ [SI (IClose key)]
      end
  | NComment x => [SComment x]
  | NDirective x => [SDirective x]
  | NProcInst t i => [SProcInst t i]
  end.

Definition kid_enc (k : node) : Prop :=
  node_ok o k = true -> forall sq, senc o (injv (nval k) sq) (kkey k) = Ok (items_of false k).
Definition root_enc (d : node) : Prop :=
  node_ok o d = true -> is_elem d = true -> senc o (nval d) (kkey d) = Ok (items_of true d).

Lemma sconcat_kids kids : forall sq,
  Forall kid_enc kids -> forallb (node_ok o) kids = true ->
  sconcat (map snd (map (triple o) (Es kids sq))) = Ok (flat_map (items_of false) kids).
Proof.
  induction kids as [|k t IH]; intros sq HF Hok; [reflexivity|].
  inversion HF as [|? ? Hk Ht]; subst.
  cbn [forallb] in Hok. apply andb_true_iff in Hok. destruct Hok as [Ok1 Ok2].
  cbn [Es map sconcat flat_map]. unfold triple at 1. cbn [fst snd].
  rewrite (Hk Ok1 sq). cbn [bind]. rewrite (IH _ Ht Ok2). reflexivity.
Qed.

Lemma node_ok_kid_name k : node_ok o k = true -> kid_name_ok k = true.
Proof.
  destruct k as [nm a text kids| | |]; intros H; try reflexivity.
  cbn [node_ok] in H. repeat (apply andb_true_iff in H; destruct H as [H ?]).
  cbn [kid_name_ok]. unfold name_ok. apply andb_true_iff. split; assumption.
Qed.

Lemma forallb_kid_name kids : forallb (node_ok o) kids = true -> forallb kid_name_ok kids = true.
Proof.
  induction kids as [|k t IH]; [reflexivity|]. cbn [forallb]. intros H.
  apply andb_true_iff in H. destruct H as [H1 H2]. rewrite (node_ok_kid_name k H1). apply IH. exact H2.
Qed.

Lemma fresh_of_absent p K na kids :
  lookup K na = None -> at_most_one p kids = true -> fresh p K na kids.
Proof.
  intros HK H. unfold fresh. split.
  - unfold has_key. rewrite HK. discriminate.
  - unfold at_most_one in H. apply Nat.leb_le in H. exact H.
Qed.
End Enc.
