(* C02, first half: every value the decoder model produces from a token stream of the
   domain satisfies the shape invariant [eshape] (Spec/Shape.v).  Induction on the fuel of
   the token loop with an invariant on the loop state (n, na). *)
From Mxj Require Import Spec.Shape Proofs.StrLemmas Proofs.XmlStr Proofs.XmlItems Proofs.XmlRT Proofs.XmlWF Proofs.XmlImgG.

Section Dec.
Variable pf : str -> option flt.
Variable o : opts.
Variable c : bool.
Hypothesis Hs : sym02 o.
(* what the cast does to stored strings (proved in Proofs/C02Cast.v) *)
Hypothesis Htext : forall y, trim (trimRunes o) y = y -> y <> [] -> text_ok pf o c (castv pf o c (dec_str o y)).
Hypothesis Hattr : forall y, attr_ok pf o c (castv pf o c (dec_str o y)).

Notation eloop := (elem_loop pf nskip o c).
Notation entry_ok := (entry_ok pf o c).
Notation eshape := (eshape pf o c).
Notation kshape := (kshape pf o c).
Notation text_ok := (text_ok pf o c).

Lemma cast_tag x t : cast pf nskip o x c t = castv pf o c x.
Proof. unfold castv, cast, nskip. rewrite !andb_false_r. reflexivity. Qed.

(* ---------------- keys ---------------- *)
Lemma xform_key_map k : xform_key o k = map (fold_char (lowerCase o) (snakeCaseKeys o)) k.
Proof.
  unfold xform_key, to_lower, replace_char, fold_char.
  destruct (lowerCase o), (snakeCaseKeys o); rewrite ?map_map; try reflexivity.
  symmetry. apply map_id.
Qed.
Lemma attr_key_map l : attr_key o l = attrPrefix o ++ map (fold_char (lowerCase o) (snakeCaseKeys o)) l.
Proof.
  unfold attr_key, to_lower, replace_char.
  rewrite (map_ext _ _ (fun ch => eq_sym (fold_char'_eq (lowerCase o) (snakeCaseKeys o) ch))).
  unfold fold_char'. destruct (lowerCase o), (snakeCaseKeys o); rewrite ?map_map; try reflexivity.
  rewrite map_id. reflexivity.
Qed.
Lemma map_fold_idem k :
  map (fold_char (lowerCase o) (snakeCaseKeys o)) (map (fold_char (lowerCase o) (snakeCaseKeys o)) k) =
  map (fold_char (lowerCase o) (snakeCaseKeys o)) k.
Proof. rewrite map_map. apply map_ext. intro ch. apply fold_char_idem. Qed.

Lemma is_attr_key_app n : n <> [] -> is_attr_key o (attrPrefix o ++ n) = true.
Proof.
  intro Hn. unfold is_attr_key. rewrite (s2_len o Hs), app_length.
  rewrite firstn_app, Nat.sub_diag, firstn_all. cbn [firstn]. rewrite app_nil_r, str_eqb_refl, andb_true_r.
  apply andb_true_iff. split; apply Nat.ltb_lt.
  - pose proof (s2_pre o Hs). destruct (attrPrefix o); [congruence | cbn; lia].
  - destruct n; [congruence | cbn [length]; lia].
Qed.
Lemma skipn_prefix n : skipn (lenAttrPrefix o) (attrPrefix o ++ n) = n.
Proof. rewrite (s2_len o Hs), skipn_app, Nat.sub_diag, skipn_all. reflexivity. Qed.

Lemma attr_key_ok_of l : name_okb l = true -> attr_key_ok o (attr_key o l).
Proof.
  intro Hl. rewrite attr_key_map.
  pose proof (name_ok_map_fold (lowerCase o) (snakeCaseKeys o) l Hl) as Hn.
  unfold attr_key_ok. rewrite skipn_prefix. split; [|split].
  - apply is_attr_key_app, name_ok_ne, Hn.
  - exact Hn.
  - rewrite attr_key_map, map_fold_idem. reflexivity.
Qed.
Lemma elem_key_ok_of l : name_okb l = true -> is_attr_key o (xform_key o l) = false -> elem_key_ok o (xform_key o l).
Proof.
  intros Hl Ha. split; [|split; [exact Ha|]].
  - rewrite xform_key_map. apply name_ok_map_fold, Hl.
  - rewrite !xform_key_map. apply map_fold_idem.
Qed.

Lemma elem_key_not_text k : elem_key_ok o k -> str_eqb k (textK o) = false.
Proof.
  intros [Hn _]. apply str_eqb_neq. intro E. subst k. rewrite (s2_tkn o Hs) in Hn. discriminate.
Qed.
Lemma attr_key_not_text k : is_attr_key o k = true -> str_eqb k (textK o) = false.
Proof. intro Hk. apply str_eqb_neq. intro E. subst k. rewrite (s2_tk o Hs) in Hk. discriminate. Qed.

(* ---------------- entries ---------------- *)
Lemma entry_text v : text_ok v -> entry_ok (textK o, v).
Proof.
  intro Hv. unfold Shape.entry_ok. cbn [fst snd]. rewrite (s2_tk o Hs), str_eqb_refl.
  split; [discriminate|]. split; [auto | discriminate].
Qed.
Lemma entry_attr l y : name_okb l = true -> entry_ok (attr_key o l, castv pf o c (dec_str o y)).
Proof.
  intro Hl. pose proof (attr_key_ok_of l Hl) as Hk. unfold Shape.entry_ok. cbn [fst snd].
  destruct Hk as [Hk1 Hk2]. rewrite Hk1. split; [|split; discriminate].
  intros _. split; [split; assumption | apply Hattr].
Qed.
Lemma entry_kid k x : elem_key_ok o k -> kshape x -> entry_ok (k, x).
Proof.
  intros Hk Hx. unfold Shape.entry_ok. cbn [fst snd]. destruct Hk as [Hk1 [Hk2 Hk3]].
  rewrite Hk2, (elem_key_not_text k (conj Hk1 (conj Hk2 Hk3))).
  split; [discriminate|]. split; [discriminate|]. intros _ _. split; [repeat split; assumption | exact Hx].
Qed.

Lemma NoDup_snoc {A} (l : list A) k : NoDup l -> ~ In k l -> NoDup (l ++ [k]).
Proof.
  induction l as [|a l IH]; cbn [app]; intros Hnd Hn; [constructor; [intros []|constructor]|].
  inversion Hnd as [|? ? Ha Hl]; subst. constructor.
  - intro Hin. apply in_app_or in Hin. destruct Hin as [Hin|[Hin|[]]]; [contradiction|].
    subst. apply Hn. left. reflexivity.
  - apply IH; [exact Hl|]. intro Hin. apply Hn. right. exact Hin.
Qed.

Lemma set_Forall (P : str * value -> Prop) k v na : P (k, v) -> Forall P na -> Forall P (set k v na).
Proof.
  intros Hkv. induction na as [|[k' v'] t IH]; intro H; cbn [set]; [constructor; [exact Hkv | constructor]|].
  inversion H; subst. destruct (str_eqb k k') eqn:E.
  - apply str_eqb_eq in E. subst. constructor; assumption.
  - constructor; [assumption | apply IH; assumption].
Qed.
Lemma set_keys k v na : map fst (set k v na) = match lookup k na with Some _ => map fst na | None => map fst na ++ [k] end.
Proof.
  induction na as [|[k' v'] t IH]; cbn [set lookup map fst]; [reflexivity|].
  destruct (str_eqb k k') eqn:E; cbn [map fst]; [reflexivity|]. rewrite IH.
  destruct (lookup k t); reflexivity.
Qed.
Lemma set_nodup k v na : NoDup (map fst na) -> NoDup (map fst (set k v na)).
Proof.
  intro H. rewrite set_keys. destruct (lookup k na) eqn:E; [exact H|].
  apply lookup_none_notin in E. apply NoDup_snoc; assumption.
Qed.
Lemma set_has_key k v na : In k (map fst (set k v na)).
Proof.
  rewrite set_keys. destruct (lookup k na) eqn:E.
  - apply lookup_in in E. destruct E as [k' [E Hin]]. apply str_eqb_eq in E. subst k'.
    apply in_map_iff. exists (k, v0). auto.
  - apply in_or_app. right. left. reflexivity.
Qed.

Lemma only_text_keys na : only_text o na = true -> forall k, In k (map fst na) -> k = textK o.
Proof.
  destruct na as [|[k0 v0] [|]]; try discriminate. cbn [only_text map fst]. intros E k [H|[]].
  subst. apply str_eqb_eq, E.
Qed.
Lemma not_only_text k na : In k (map fst na) -> str_eqb k (textK o) = false -> only_text o na = false.
Proof.
  intros Hin Hk. destruct (only_text o na) eqn:E; [|reflexivity].
  rewrite (only_text_keys na E k Hin), str_eqb_refl in Hk. discriminate.
Qed.

(* ---------------- the loop state ---------------- *)
Definition inv (n : option value) (na : entries) : Prop :=
  Forall entry_ok na /\ NoDup (map fst na) /\
  (decodeSimpleValuesAsMap o = false -> only_text o na = false) /\
  match n with None => True | Some v => decodeSimpleValuesAsMap o = false /\ text_ok v end.

Lemma eshape_nonlist v : eshape v -> is_list v = false.
Proof. destruct 1 as [|v _ [Hsc _]|]; try reflexivity. destruct v; try discriminate; reflexivity. Qed.

Lemma inv_finish n na : inv n na -> eshape (finish_elem o n na).
Proof.
  intros [HF [Hnd [Hot Hn]]]. unfold finish_elem. destruct n as [v|].
  - destruct Hn as [Hsm Hv]. destruct na as [|e na'].
    + apply ES_scalar; assumption.
    + apply ES_map.
      * intro E. pose proof (set_has_key (textK o) v (e :: na')) as Hin. rewrite E in Hin. destruct Hin.
      * apply set_nodup, Hnd.
      * intros _. destruct (only_text o (set (textK o) v (e :: na'))) eqn:E; [|reflexivity]. exfalso.
        pose proof (only_text_keys _ E) as Hk.
        assert (Hall : forall k, In k (map fst (e :: na')) -> k = textK o).
        { intros k Hin. apply Hk. rewrite set_keys. destruct (lookup (textK o) (e :: na')); [exact Hin | apply in_or_app; left; exact Hin]. }
        specialize (Hot Hsm).
        assert (Hlen : length (set (textK o) v (e :: na')) = 1)
          by (destruct (set (textK o) v (e :: na')) as [|[k0 v0] [|]]; try discriminate; reflexivity).
        assert (Hlen2 : length (e :: na') <= 1).
        { rewrite <- Hlen. rewrite <- (map_length fst (set _ _ _)), set_keys.
          destruct (lookup (textK o) (e :: na')); rewrite ?app_length, !map_length; cbn [length]; lia. }
        destruct na'; [|cbn [length] in Hlen2; lia]. destruct e as [k0 v0].
        cbn [only_text] in Hot. rewrite (Hall k0 (or_introl eq_refl)), str_eqb_refl in Hot. discriminate.
      * apply set_Forall; [apply entry_text, Hv | exact HF].
  - destruct na as [|e na']; [apply ES_empty|]. apply ES_map; [discriminate | exact Hnd | exact Hot | exact HF].
Qed.

Lemma dec_str_ne y : y <> [] -> dec_str o y <> [].
Proof.
  unfold dec_str. destruct (xmlEscapeCharsDecoder o); [|auto]. destruct y as [|ch y]; [congruence|]. intros _.
  rewrite escape_chars_cons. unfold esc1.
  repeat match goal with |- context [if ?b then _ else _] => destruct b end; discriminate.
Qed.

Lemma inv_chardata skey x n na : inv n na ->
  let '(n', na') := on_chardata pf nskip o c skey x n na in inv n' na'.
Proof.
  intros [HF [Hnd [Hot Hn]]]. unfold on_chardata.
  set (y := trim (trimRunes o) x).
  assert (Hy : trim (trimRunes o) y = y) by apply trim_idem.
  change (if xmlEscapeCharsDecoder o then escape_chars y else y) with (dec_str o y).
  destruct (dec_str o y) as [|ch r] eqn:Ed; [repeat split; assumption|].
  assert (Hyn : y <> []) by (intro E; rewrite E in Ed; unfold dec_str in Ed; destruct (xmlEscapeCharsDecoder o); discriminate).
  rewrite <- Ed, !cast_tag. pose proof (Htext y Hy Hyn) as Hv.
  destruct ((match na with [] => false | _ => true end) || decodeSimpleValuesAsMap o) eqn:Eb.
  - split; [apply set_Forall; [apply entry_text, Hv | exact HF]|]. split; [apply set_nodup, Hnd|]. split; [|exact Hn].
    intro Hsm. rewrite Hsm, orb_false_r in Eb. destruct na as [|e na']; [discriminate|]. specialize (Hot Hsm).
    destruct (only_text o (set (textK o) _ (e :: na'))) eqn:E; [|reflexivity]. exfalso.
    pose proof (only_text_keys _ E) as Hk.
    assert (Hlen : length (set (textK o) (castv pf o c (dec_str o y)) (e :: na')) = 1)
      by (destruct (set (textK o) _ (e :: na')) as [|[k0 v0] [|]]; try discriminate; reflexivity).
    assert (Hlen2 : length (e :: na') <= 1).
    { rewrite <- Hlen. rewrite <- (map_length fst (set _ _ _)), set_keys.
      destruct (lookup (textK o) (e :: na')); rewrite ?app_length, !map_length; cbn [length]; lia. }
    destruct na'; [|cbn [length] in Hlen2; lia]. destruct e as [k0 v0].
    cbn [only_text] in Hot.
    assert (Hk0 : k0 = textK o).
    { apply Hk. rewrite set_keys. destruct (lookup (textK o) [(k0, v0)]); [left; reflexivity | apply in_or_app; left; left; reflexivity]. }
    rewrite Hk0, str_eqb_refl in Hot. discriminate.
  - apply orb_false_iff in Eb. destruct Eb as [Ena Hsm]. destruct na; [|discriminate].
    split; [constructor|]. split; [constructor|]. split; [reflexivity|]. split; assumption.
Qed.

Lemma inv_add_child key val n na : inv n na -> elem_key_ok o key -> eshape val ->
  inv n (add_child key val na).
Proof.
  intros [HF [Hnd [Hot Hn]]] Hk Hv.
  pose proof (elem_key_not_text key Hk) as Hkt.
  assert (Hnew : exists nv, add_child key val na = set key nv na /\ kshape nv).
  { unfold add_child. destruct (lookup key na) as [x|] eqn:El.
    - apply lookup_in in El. destruct El as [k' [E Hin]]. apply str_eqb_eq in E. subst k'.
      rewrite Forall_forall in HF. pose proof (HF _ Hin) as [_ [_ H3]]. cbn [fst snd] in H3.
      destruct Hk as [Hk1 [Hk2 Hk3]]. destruct (H3 Hk2 Hkt) as [_ Hx].
      destruct Hx as [x Hxl Hxe | l Hl HlF].
      + exists (VList [x; val]). split; [destruct x; try reflexivity; discriminate|].
        apply KS_list; [cbn; lia|]. constructor; [split; assumption|]. constructor; [|constructor].
        split; [apply eshape_nonlist, Hv | exact Hv].
      + exists (VList (l ++ [val])). split; [reflexivity|]. apply KS_list; [rewrite app_length; cbn; lia|].
        apply Forall_app. split; [exact HlF|]. constructor; [|constructor].
        split; [apply eshape_nonlist, Hv | exact Hv].
    - exists val. split; [reflexivity|]. apply KS_one; [apply eshape_nonlist, Hv | exact Hv]. }
  destruct Hnew as [nv [-> Hnv]].
  split; [apply set_Forall; [apply entry_kid; assumption | exact HF]|].
  split; [apply set_nodup, Hnd|]. split; [|exact Hn].
  intros _. apply (not_only_text key); [apply set_has_key | exact Hkt].
Qed.

Lemma inv_attrs a : forallb (fun at_ => name_okb (xlocal (aname at_))) a = true ->
  inv None (attr_entries pf nskip o c a).
Proof.
  intro Ha. unfold attr_entries.
  assert (H : forall na, Forall entry_ok na -> NoDup (map fst na) ->
            (forall k, In k (map fst na) -> is_attr_key o k = true) ->
            let na' := fold_left (fun na at_ =>
                         let key := attr_key o (xlocal (aname at_)) in
                         let v := if xmlEscapeCharsDecoder o then escape_chars (avalue at_) else avalue at_ in
                         set key (cast pf nskip o v c key) na) a na in
            Forall entry_ok na' /\ NoDup (map fst na') /\ (forall k, In k (map fst na') -> is_attr_key o k = true)).
  { induction a as [|at_ a IH]; intros na HF Hnd Hk; cbn [fold_left]; [auto|].
    cbn [forallb] in Ha. apply andb_true_iff in Ha. destruct Ha as [Ha1 Ha2].
    apply (IH Ha2).
    - rewrite cast_tag. apply set_Forall; [|exact HF].
      change (if xmlEscapeCharsDecoder o then escape_chars (avalue at_) else avalue at_) with (dec_str o (avalue at_)).
      apply entry_attr, Ha1.
    - apply set_nodup, Hnd.
    - intros k Hin. rewrite set_keys in Hin. destruct (lookup _ na); [apply Hk, Hin|].
      apply in_app_or in Hin. destruct Hin as [Hin|[<-|[]]]; [apply Hk, Hin|].
      apply (attr_key_ok_of _ Ha1). }
  specialize (H [] (Forall_nil _) (NoDup_nil _) (fun k (Hin : In k []) => match Hin with end)).
  cbv zeta in H. match type of H with Forall _ ?na' /\ _ => remember na' as nb end.
  destruct H as [HF [Hnd Hk]].
  split; [exact HF|]. split; [exact Hnd|]. split; [|exact I].
  intros _. destruct nb as [|[k0 v0] [|]]; try reflexivity.
  cbn [only_text]. apply attr_key_not_text, Hk. left. reflexivity.
Qed.

(* ---------------- the loop ---------------- *)
Lemma el_start_inv f skey n na seq nm a ts tm r :
  eloop (S f) skey n na seq (TStart nm a :: ts) tm = Ok r ->
  xform_key o (xlocal nm) <> [] /\
  exists key val rest1,
    eloop f (xform_key o (xlocal nm)) None (attr_entries pf nskip o c a) 0 ts tm = Ok ((key, val), rest1) /\
    eloop f skey n (add_child key val na) seq rest1 tm = Ok r.
Proof.
  cbn [elem_loop]. destruct (xform_key o (xlocal nm)) as [|k0 K'] eqn:EK; [discriminate|].
  rewrite (s2_xmpp o Hs). cbn [andb].
  destruct (elem_loop pf nskip o c f (k0 :: K') None _ 0 ts tm) as [[[key val] rest1]| |] eqn:Ech; try discriminate.
  unfold tag_seq. rewrite (s2_seq o Hs). intro H. split; [discriminate|].
  exists key, val, rest1. split; [reflexivity | exact H].
Qed.

Theorem decode_shape_loop : forall fuel skey n na seq ts tm kv rest,
  toks02 o ts = true -> elem_key_ok o skey -> inv n na ->
  eloop fuel skey n na seq ts tm = Ok (kv, rest) ->
  fst kv = skey /\ eshape (snd kv) /\ toks02 o rest = true.
Proof.
  induction fuel as [|f IH]; intros skey n na seq ts tm kv rest Ht Hk Hi He; [discriminate|].
  destruct ts as [|t ts]; [cbn in He; destruct tm; discriminate|].
  cbn [toks02 forallb] in Ht. apply andb_true_iff in Ht. destruct Ht as [Ht1 Ht2]. fold (toks02 o ts) in Ht2.
  destruct t as [nm a|nm|x|x|tg ins|x].
  - apply el_start_inv in He. destruct He as [HK [key [val [rest1 [Hch Hcont]]]]].
    cbn [tok02] in Ht1. apply andb_true_iff in Ht1. destruct Ht1 as [Ht1 Hat].
    apply andb_true_iff in Ht1. destruct Ht1 as [Hnm Hna]. apply negb_true_iff in Hna.
    pose proof (elem_key_ok_of _ Hnm Hna) as HcK.
    destruct (IH _ _ _ _ _ _ _ _ Ht2 HcK (inv_attrs a Hat) Hch) as [Hkey [Hval Hrest1]].
    cbn [fst snd] in Hkey, Hval. subst key.
    apply (IH _ _ _ _ _ _ _ _ Hrest1 Hk (inv_add_child _ _ _ _ Hi HcK Hval) Hcont).
  - rewrite el_end in He. inversion He; subst. cbn [fst snd]. split; [reflexivity|]. split; [apply inv_finish, Hi | exact Ht2].
  - rewrite el_char in He. pose proof (inv_chardata skey x n na Hi) as Hi'.
    destruct (on_chardata pf nskip o c skey x n na) as [n' na'].
    apply (IH _ _ _ _ _ _ _ _ Ht2 Hk Hi' He).
  - apply (IH _ _ _ _ _ _ _ _ Ht2 Hk Hi He).
  - apply (IH _ _ _ _ _ _ _ _ Ht2 Hk Hi He).
  - apply (IH _ _ _ _ _ _ _ _ Ht2 Hk Hi He).
Qed.

(* NewMapXml: one root key whose value has the element shape *)
Theorem decode_shape : forall ts tm m, toks02 o ts = true ->
  xml_decode pf nskip o c ts tm = Ok m ->
  exists K v, m = VMap [(K, v)] /\ elem_key_ok o K /\ eshape v.
Proof.
  intros ts tm m Ht. unfold xml_decode, xml_decode_rest.
  generalize (S (length ts)) as fuel. intro fuel.
  induction ts as [|t ts IH]; cbn [top_loop]; [destruct tm; discriminate|].
  cbn [toks02 forallb] in Ht. apply andb_true_iff in Ht. destruct Ht as [Ht1 Ht2]. fold (toks02 o ts) in Ht2.
  destruct t as [nm a|nm|x|x|tg ins|x]; try (apply IH, Ht2); try discriminate.
  destruct (xform_key o (xlocal nm)) as [|k0 K'] eqn:EK; [discriminate|].
  rewrite (s2_xmpp o Hs). cbn [andb].
  destruct (elem_loop pf nskip o c fuel (k0 :: K') None _ 0 ts tm) as [[kv rest]| |] eqn:El; try discriminate.
  intro H. inversion H; subst m. destruct kv as [K v].
  cbn [tok02] in Ht1. apply andb_true_iff in Ht1. destruct Ht1 as [Ht1 Hat].
  apply andb_true_iff in Ht1. destruct Ht1 as [Hnm Hna]. apply negb_true_iff in Hna.
  pose proof (elem_key_ok_of _ Hnm Hna) as HcK. rewrite EK in HcK.
  destruct (decode_shape_loop _ _ _ _ _ _ _ _ _ Ht2 HcK (inv_attrs a Hat) El) as [HK [Hv _]].
  cbn [fst snd] in HK, Hv. subst K. exists (k0 :: K'), v. auto.
Qed.

End Dec.
