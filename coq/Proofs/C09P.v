(* C09: LeafNodes enumerates the scalars (with and without the no-attributes
   option), builds the path the specification [leaf_spec] describes, and - for
   Maps of XML/JSON shape with clean keys - every such path resolves through
   ValuesForPath to exactly its value. *)
From Mxj Require Import Model.TreeOps Spec.PathSem Spec.Leaves Proofs.StrLemmas Proofs.C07P.

(* ================= list lemmas ================= *)
Lemma map_flat_map {A B C} (g : B -> C) (f : A -> list B) l :
  map g (flat_map f l) = flat_map (fun x => map g (f x)) l.
Proof. induction l as [|a l IH]; cbn; [reflexivity|]. rewrite map_app, IH; reflexivity. Qed.

Lemma flat_map_ext_Forall {A B} (f g : A -> list B) l :
  Forall (fun x => f x = g x) l -> flat_map f l = flat_map g l.
Proof. induction 1 as [|a l Ha _ IH]; cbn; [reflexivity|]. rewrite Ha, IH; reflexivity. Qed.

Lemma indexed_flat_ext_Forall {A B} (f g : nat -> A -> list B) l :
  Forall (fun x => forall i, f i x = g i x) l -> forall i, indexed_flat f l i = indexed_flat g l i.
Proof. induction 1 as [|a l Ha _ IH]; intros i; cbn; [reflexivity|]. rewrite Ha, IH; reflexivity. Qed.

Lemma indexed_flat_map_arg {A A' B} (f : nat -> A' -> list B) (h : A -> A') l :
  forall i, indexed_flat f (map h l) i = indexed_flat (fun i x => f i (h x)) l i.
Proof. induction l as [|a l IH]; intros i; cbn; [reflexivity|]. rewrite IH; reflexivity. Qed.

Lemma map_indexed_flat {A B C} (g : B -> C) (f : nat -> A -> list B) l :
  forall i, map g (indexed_flat f l i) = indexed_flat (fun i x => map g (f i x)) l i.
Proof. induction l as [|a l IH]; intros i; cbn; [reflexivity|]. rewrite map_app, IH; reflexivity. Qed.

Lemma indexed_flat_const {A B} (f : A -> list B) l :
  forall i, indexed_flat (fun _ x => f x) l i = flat_map f l.
Proof. induction l as [|a l IH]; intros i; cbn; [reflexivity|]. rewrite IH; reflexivity. Qed.

Lemma in_indexed_flat {A B} (f : nat -> A -> list B) l b :
  forall i, In b (indexed_flat f l i) <-> exists j x, nth_error l j = Some x /\ In b (f (i + j) x).
Proof.
  induction l as [|a l IH]; intros i; cbn.
  - split; [contradiction|]. intros (j & x & H & _). destruct j; discriminate.
  - rewrite in_app_iff, IH. split.
    + intros [H|(j & x & Hn & H)].
      * exists 0, a. rewrite Nat.add_0_r. split; [reflexivity|exact H].
      * exists (S j), x. rewrite Nat.add_succ_r. split; [exact Hn|exact H].
    + intros (j & x & Hn & H). destruct j as [|j].
      * cbn in Hn. inversion Hn; subst. rewrite Nat.add_0_r in H. left; exact H.
      * right. exists j, x. rewrite Nat.add_succ_r in H. split; [exact Hn|exact H].
Qed.

(* ================= 1. enumeration ================= *)
Lemma leaves_scalars : forall v, map snd (leaves v) = scalars v.
Proof.
  induction v as [ | | | | | | | |m IH|l IH] using value_ind2; try reflexivity.
  - cbn [leaves scalars]. rewrite map_flat_map. apply flat_map_ext_Forall.
    eapply Forall_impl; [|exact IH]. intros kv H. cbn beta. rewrite map_map. exact H.
  - cbn [leaves scalars]. rewrite map_indexed_flat.
    rewrite <- (indexed_flat_const scalars l 0). apply indexed_flat_ext_Forall.
    eapply Forall_impl; [|exact IH]. intros x H i. rewrite map_map. exact H.
Qed.

Lemma prune_none drop : (forall k, drop k = false) -> forall v, prune drop v = v.
Proof.
  intros Hd. induction v as [ | | | | | | | |m IH|l IH] using value_ind2; try reflexivity.
  - cbn [prune]. f_equal. induction IH as [|[k x] m Hx _ IHm]; [reflexivity|].
    cbn [flat_map fst snd]. rewrite Hd. cbn in Hx. rewrite Hx. cbn [app]. f_equal. exact IHm.
  - cbn [prune]. f_equal. induction IH as [|x l Hx _ IHl]; [reflexivity|].
    cbn [map]. rewrite Hx, IHl. reflexivity.
Qed.

Lemma prune_ext d1 d2 : (forall k, d1 k = d2 k) -> forall v, prune d1 v = prune d2 v.
Proof.
  intros Hd. induction v as [ | | | | | | | |m IH|l IH] using value_ind2; try reflexivity.
  - cbn [prune]. f_equal. induction IH as [|[k x] m Hx _ IHm]; [reflexivity|].
    cbn [flat_map fst snd]. rewrite Hd. cbn in Hx. rewrite Hx, IHm. reflexivity.
  - cbn [prune]. f_equal. induction IH as [|x l Hx _ IHl]; [reflexivity|].
    cbn [map]. rewrite Hx, IHl. reflexivity.
Qed.

Lemma strip_attrs_nil v : strip_attrs [] v = v.
Proof. apply prune_none. reflexivity. Qed.

Lemma prune_skip_attr ap noattr v :
  prune (skip_attr ap noattr) v = if noattr then strip_attrs ap v else v.
Proof.
  destruct noattr.
  - unfold strip_attrs. apply prune_ext. intros k. unfold skip_attr, is_attr. destruct ap; reflexivity.
  - apply prune_none. reflexivity.
Qed.

(* ================= 2. the walk computes the specification ================= *)
Section Walk.
Variable ap tk : str.
Variable dotn noattr : bool.

Definition lp_step (acc node : str) : str := leaf_path tk acc node noattr.
Definition walk_out (acc : str) (pv : addr * value) : str * value :=
  (fold_left lp_step (map (node_of dotn) (fst pv)) acc, snd pv).

Lemma skip_attr_is_attr k : skip_attr ap noattr k = noattr && is_attr ap k.
Proof. unfold skip_attr, is_attr. destruct noattr, ap; reflexivity. Qed.

Lemma idx_node_of i : idx_node dotn i = node_of dotn (SIdx i).
Proof. reflexivity. Qed.

Lemma get_leaf_nodes_list path node l :
  get_leaf_nodes ap tk dotn path node (VList l) noattr =
  indexed_flat (fun i v => get_leaf_nodes ap tk dotn (leaf_path tk path node noattr) (idx_node dotn i) v noattr) l 0.
Proof. reflexivity. Qed.

Lemma get_leaf_nodes_walk : forall v path node,
  get_leaf_nodes ap tk dotn path node v noattr =
  map (walk_out (leaf_path tk path node noattr)) (leaves (prune (skip_attr ap noattr) v)).
Proof.
  induction v as [ | | | | | | | |m IH|l IH] using value_ind2; intros path node; try reflexivity.
  - cbn [get_leaf_nodes prune leaves].
    set (acc := leaf_path tk path node noattr).
    rewrite flat_map_flat_map, map_flat_map. apply flat_map_ext_Forall.
    eapply Forall_impl; [|exact IH]. intros [k x] Hx. cbn [fst snd] in *.
    destruct (skip_attr ap noattr k); [reflexivity|].
    cbn [flat_map fst snd]. rewrite app_nil_r, map_map. rewrite Hx. reflexivity.
  - rewrite get_leaf_nodes_list. cbn [prune leaves].
    set (acc := leaf_path tk path node noattr).
    rewrite indexed_flat_map_arg, map_indexed_flat. apply indexed_flat_ext_Forall.
    eapply Forall_impl; [|exact IH]. intros x Hx i. cbn beta.
    rewrite map_map, Hx. reflexivity.
Qed.

(* leaf_path is add_seg on the nodes that are kept *)
Lemma lp_step_fold nodes : forall acc,
  fold_left lp_step nodes acc = fold_left add_seg (filter (keep_node tk noattr) nodes) acc.
Proof.
  induction nodes as [|n t IH]; intros acc; [reflexivity|].
  cbn [fold_left filter]. rewrite IH. unfold lp_step at 1, leaf_path, keep_node.
  destruct noattr; cbn [negb orb andb].
  - destruct (str_eqb n tk); cbn [negb fold_left]; [reflexivity|].
    unfold add_seg, nonempty, lbr. destruct acc; reflexivity.
  - cbn [fold_left]. unfold add_seg, nonempty, lbr. destruct acc; reflexivity.
Qed.

End Walk.

Theorem leaf_nodes_spec ap tk dotn m noattr :
  leaf_nodes ap tk dotn m noattr = leaf_spec ap tk dotn m noattr.
Proof.
  unfold leaf_nodes, leaf_spec. rewrite get_leaf_nodes_walk.
  assert (E : leaf_path tk [] [] noattr = []).
  { unfold leaf_path. destruct (negb noattr || negb (str_eqb [] tk)); reflexivity. }
  rewrite E.
  rewrite prune_skip_attr.
  apply map_ext. intros [p v]. unfold walk_out, render. cbn [fst snd].
  rewrite lp_step_fold. reflexivity.
Qed.

Theorem leaf_values_all ap tk dotn m :
  map snd (leaf_nodes ap tk dotn m false) = scalars m.
Proof. rewrite leaf_nodes_spec. unfold leaf_spec. rewrite map_map. cbn [snd]. apply leaves_scalars. Qed.

Theorem leaf_values_noattr ap tk dotn m :
  map snd (leaf_nodes ap tk dotn m true) = scalars (strip_attrs ap m).
Proof. rewrite leaf_nodes_spec. unfold leaf_spec. rewrite map_map. cbn [snd]. apply leaves_scalars. Qed.

(* ================= 4. the string layer: itoa / parse_int / parse_seg ================= *)
Lemma digit_char_val d : d < 10 -> N_of_ascii (digit_char d) = N.of_nat (48 + d).
Proof. intros H. do 10 (destruct d as [|d]; [reflexivity|]). lia. Qed.

Lemma digit_char_is_digit d : d < 10 -> is_digit (digit_char d) = true.
Proof. intros H. do 10 (destruct d as [|d]; [reflexivity|]). lia. Qed.

Lemma itoa_aux_acc : forall fuel n acc, itoa_aux fuel n acc = itoa_aux fuel n [] ++ acc.
Proof.
  induction fuel as [|f IH]; intros n acc; [reflexivity|].
  cbn [itoa_aux]. destruct (n <? 10); [reflexivity|].
  rewrite (IH _ (_ :: acc)), (IH _ [_]). rewrite <- app_assoc. reflexivity.
Qed.

Lemma digits_val_app a : forall b z, digits_val (a ++ b) z = digits_val b (digits_val a z).
Proof. induction a as [|c a IH]; intros b z; cbn [app digits_val]; [reflexivity|apply IH]. Qed.

Lemma itoa_aux_correct : forall fuel n, n < fuel ->
  itoa_aux fuel n [] <> [] /\ forallb is_digit (itoa_aux fuel n []) = true /\
  digits_val (itoa_aux fuel n []) 0 = Z.of_nat n.
Proof.
  induction fuel as [|f IH]; intros n Hn; [lia|].
  cbn [itoa_aux].
  assert (Hm : n mod 10 < 10) by (apply Nat.mod_upper_bound; lia).
  pose proof (Nat.div_mod n 10 ltac:(lia)) as Hdm.
  destruct (Nat.ltb_spec n 10) as [Hlt|Hge].
  - split; [discriminate|]. split.
    + cbn [forallb]. rewrite digit_char_is_digit by exact Hm. reflexivity.
    + cbn [digits_val]. rewrite digit_char_val by exact Hm.
      rewrite Nat.mod_small by exact Hlt. lia.
  - rewrite itoa_aux_acc.
    assert (Hq : n / 10 < f).
    { pose proof (Nat.div_lt n 10 ltac:(lia) ltac:(lia)). lia. }
    destruct (IH _ Hq) as (H1 & H2 & H3).
    split; [|split].
    + intros E. apply app_eq_nil in E as [_ E]. discriminate.
    + rewrite forallb_app, H2. cbn [forallb]. rewrite digit_char_is_digit by exact Hm. reflexivity.
    + rewrite digits_val_app, H3. cbn [digits_val]. rewrite digit_char_val by exact Hm. lia.
Qed.

Lemma itoa_nonempty n : itoa n <> [].
Proof. apply (itoa_aux_correct (S n) n). lia. Qed.
Lemma itoa_digits n : forallb is_digit (itoa n) = true.
Proof. apply (itoa_aux_correct (S n) n). lia. Qed.
Lemma itoa_val n : digits_val (itoa n) 0 = Z.of_nat n.
Proof. apply (itoa_aux_correct (S n) n). lia. Qed.

Lemma parse_udec_itoa n : parse_udec (itoa n) = Some (Z.of_nat n).
Proof.
  unfold parse_udec, all_digits. pose proof (itoa_nonempty n) as Hne.
  rewrite <- (itoa_val n). destruct (itoa n) eqn:E; [congruence|].
  rewrite <- E, itoa_digits. reflexivity.
Qed.

(* a numeral that starts with a digit carries no sign *)
Lemma parse_int_unsigned bits c t :
  is_digit c = true ->
  parse_int bits (c :: t) =
  match parse_udec (c :: t) with
  | Some z => if (z <? 2 ^ (bits - 1))%Z then Some z else None
  | None => None
  end.
Proof.
  intros H. destruct c as [[] [] [] [] [] [] [] []]; try (cbn in H; discriminate); reflexivity.
Qed.

Theorem parse_int_itoa n : (Z.of_nat n < 2 ^ 31)%Z -> parse_int 32 (itoa n) = Some (Z.of_nat n).
Proof.
  intros Hn. pose proof (itoa_nonempty n) as Hne. pose proof (itoa_digits n) as Hd.
  destruct (itoa n) as [|c t] eqn:E; [congruence|].
  rewrite parse_int_unsigned.
  2:{ cbn [forallb] in Hd. apply andb_true_iff in Hd as [Hc _]. exact Hc. }
  rewrite <- E, parse_udec_itoa.
  change (2 ^ (32 - 1))%Z with (2 ^ 31)%Z.
  destruct (Z.ltb_spec (Z.of_nat n) (2 ^ 31)); [reflexivity|lia].
Qed.

Lemma mem_ascii_app c a b : mem_ascii c (a ++ b) = mem_ascii c a || mem_ascii c b.
Proof. apply existsb_app. Qed.

Lemma digits_no_other c x : is_digit c = false -> forallb is_digit x = true -> mem_ascii c x = false.
Proof.
  intros Hc. induction x as [|a x IH]; intros H; [reflexivity|].
  cbn [forallb] in H. apply andb_true_iff in H as [Ha Hx].
  change (mem_ascii c (a :: x)) with (Ascii.eqb c a || mem_ascii c x).
  rewrite (IH Hx), orb_false_r.
  destruct (Ascii.eqb c a) eqn:E; [|reflexivity]. apply Ascii.eqb_eq in E. subst. congruence.
Qed.

Definition idx_seg (name : str) (i : nat) : str := name ++ [lbr] ++ itoa i ++ [rbr].

Theorem parse_seg_indexed name i :
  mem_ascii lbr name = false -> (Z.of_nat i < 2 ^ 31)%Z ->
  parse_seg (idx_seg name i) = Ok {| pk_name := name; pk_arr := true; pk_pos := Z.of_nat i |}.
Proof.
  intros Hname Hi. unfold parse_seg, idx_seg.
  assert (Hm : mem_ascii lbr (name ++ [lbr] ++ itoa i ++ [rbr]) = true).
  { rewrite mem_ascii_app. cbn. rewrite orb_true_r. reflexivity. }
  rewrite Hm. cbn [negb app].
  assert (Hl : mem_ascii lbr (itoa i ++ [rbr]) = false).
  { rewrite mem_ascii_app, (digits_no_other lbr) by (try apply itoa_digits; reflexivity). reflexivity. }
  assert (Hr : mem_ascii rbr (itoa i) = false).
  { apply digits_no_other; [reflexivity|apply itoa_digits]. }
  unfold split1. rewrite split1_aux_sep by exact Hname.
  rewrite split1_aux_nosep by exact Hl. cbn [rev app].
  rewrite split1_aux_sep by exact Hr. cbn [rev app].
  pose proof (itoa_nonempty i) as Hne.
  destruct (itoa i) as [|c t] eqn:E; [congruence|]. rewrite <- E.
  rewrite parse_int_itoa by exact Hi.
  destruct (Z.ltb_spec (Z.of_nat i) 0); [lia|reflexivity].
Qed.

Lemma parse_seg_plain name :
  mem_ascii lbr name = false ->
  parse_seg name = Ok {| pk_name := name; pk_arr := false; pk_pos := 0 |}.
Proof. intros H. unfold parse_seg. rewrite H. reflexivity. Qed.

(* ================= 3. LeafPaths / LeafValues =================
   leafnode.go:78-95: both call LeafNodes with the same option and copy one
   field of every entry (Run/RunKV.v checks the Go functions against exactly
   these projections). *)
Definition leaf_paths (ap tk : str) (dotn : bool) (m : value) (noattr : bool) : list str :=
  map fst (leaf_nodes ap tk dotn m noattr).
Definition leaf_values (ap tk : str) (dotn : bool) (m : value) (noattr : bool) : list value :=
  map snd (leaf_nodes ap tk dotn m noattr).

Lemma combine_fst_snd {A B} (l : list (A * B)) : combine (map fst l) (map snd l) = l.
Proof. induction l as [|[a b] l IH]; cbn; [reflexivity|rewrite IH; reflexivity]. Qed.

Theorem leaf_projections ap tk dotn m noattr :
  combine (leaf_paths ap tk dotn m noattr) (leaf_values ap tk dotn m noattr) = leaf_nodes ap tk dotn m noattr /\
  length (leaf_paths ap tk dotn m noattr) = length (leaf_nodes ap tk dotn m noattr) /\
  length (leaf_values ap tk dotn m noattr) = length (leaf_nodes ap tk dotn m noattr).
Proof. unfold leaf_paths, leaf_values. rewrite combine_fst_snd, !map_length. repeat split. Qed.

Theorem leaf_values_spec ap tk dotn m noattr :
  leaf_values ap tk dotn m noattr = scalars (if noattr then strip_attrs ap m else m).
Proof. unfold leaf_values. destruct noattr; [apply leaf_values_noattr|apply leaf_values_all]. Qed.

Theorem leaf_paths_spec ap tk dotn m noattr :
  leaf_paths ap tk dotn m noattr =
  map (fun pv => render tk dotn noattr (fst pv)) (leaves (if noattr then strip_attrs ap m else m)).
Proof. unfold leaf_paths. rewrite leaf_nodes_spec. unfold leaf_spec. rewrite map_map. reflexivity. Qed.

(* ================= 5. resolution: the path of every leaf denotes exactly its value ================= *)

(* ---- side conditions, unfolded one level ---- *)
Lemma wfb_map m : wfb (VMap m) = nodup_keys (map fst m) && forallb (fun kv => wfb (snd kv)) m.
Proof.
  cbn [wfb]. f_equal. induction m as [|[k x] m IH]; [reflexivity|].
  cbn [forallb snd]. rewrite <- IH. reflexivity.
Qed.

Lemma wfb_list l : wfb (VList l) = forallb wfb l.
Proof.
  cbn [wfb]. induction l as [|x l IH]; [reflexivity|].
  cbn [forallb]. rewrite <- IH. reflexivity.
Qed.

Lemma nodup_lookup m : forall k y,
  nodup_keys (map fst m) = true -> In (k, y) m -> lookup k m = Some y.
Proof.
  induction m as [|[k' y'] m IH]; intros k y Hn Hin; [contradiction|].
  cbn [map fst nodup_keys] in Hn. apply andb_true_iff in Hn as [Hk Hn].
  cbn [lookup]. destruct Hin as [E|Hin].
  - inversion E; subst. rewrite str_eqb_refl. reflexivity.
  - destruct (str_eqb k k') eqn:Ek; [|apply IH; assumption].
    apply str_eqb_eq in Ek. subst k'. exfalso.
    apply negb_true_iff in Hk.
    assert (Hex : existsb (str_eqb k) (map fst m) = true).
    { apply existsb_exists. exists k. split; [|apply str_eqb_refl].
      apply in_map_iff. exists (k, y). split; [reflexivity|exact Hin]. }
    congruence.
Qed.

Definition good (v : value) : Prop :=
  wfb v = true /\ keys_clean v = true /\ no_nested_lists v = true /\ lists_indexable v = true.

Lemma good_map_inv mm k y :
  good (VMap mm) -> In (k, y) mm -> lookup k mm = Some y /\ clean_key k = true /\ good y.
Proof.
  intros (Hw & Hk & Hn & Hl) Hin.
  rewrite wfb_map in Hw. apply andb_true_iff in Hw as [Hnd Hw].
  cbn [keys_clean] in Hk. cbn [no_nested_lists] in Hn. cbn [lists_indexable] in Hl.
  rewrite forallb_forall in Hw, Hk, Hn, Hl.
  specialize (Hw _ Hin). specialize (Hk _ Hin). specialize (Hn _ Hin). specialize (Hl _ Hin).
  cbn [fst snd] in *. apply andb_true_iff in Hk as [Hk1 Hk2].
  split; [apply nodup_lookup; assumption|]. split; [exact Hk1|]. repeat split; assumption.
Qed.

Lemma good_list_inv l j z :
  good (VList l) -> nth_error l j = Some z ->
  (Z.of_nat j < 2 ^ 31)%Z /\ is_list z = false /\ good z.
Proof.
  intros (Hw & Hk & Hn & Hl) Hnth.
  pose proof (nth_error_In _ _ Hnth) as Hin.
  assert (Hj : j < length l) by (apply nth_error_Some; congruence).
  rewrite wfb_list in Hw. cbn [keys_clean] in Hk. cbn [no_nested_lists] in Hn. cbn [lists_indexable] in Hl.
  apply andb_true_iff in Hl as [Hlen Hl]. apply Z.leb_le in Hlen.
  rewrite forallb_forall in Hw, Hk, Hn, Hl.
  specialize (Hw _ Hin). specialize (Hk _ Hin). specialize (Hn _ Hin). specialize (Hl _ Hin).
  apply andb_true_iff in Hn as [Hn1 Hn2]. apply negb_true_iff in Hn1.
  split; [lia|]. split; [exact Hn1|]. repeat split; assumption.
Qed.

(* ---- walking without the final list expansion ---- *)
Fixpoint reach (ks : list str) (v : value) : list value :=
  match ks with [] => [v] | k :: ks' => flat_map (reach ks') (sel k v) end.

Lemma eval_reach : forall ks v, eval ks v = flat_map final (reach ks v).
Proof.
  induction ks as [|k ks IH]; intros v; cbn [eval reach].
  - cbn [flat_map]. rewrite app_nil_r. reflexivity.
  - rewrite flat_map_flat_map. apply flat_map_ext. intros x. apply IH.
Qed.

Lemma reach_app : forall a b v, reach (a ++ b) v = flat_map (reach b) (reach a v).
Proof.
  induction a as [|k a IH]; intros b v; cbn [app reach].
  - cbn [flat_map]. rewrite app_nil_r. reflexivity.
  - rewrite flat_map_flat_map. apply flat_map_ext. intros x. apply IH.
Qed.

Lemma sel_key k mm y : str_eqb k star = false -> lookup k mm = Some y -> sel k (VMap mm) = [y].
Proof. intros Hs Hl. cbn [sel]. unfold sel_map. rewrite Hs, Hl. reflexivity. Qed.

Lemma reach_step pre root mm k y :
  reach pre root = [VMap mm] -> str_eqb k star = false -> lookup k mm = Some y ->
  reach (pre ++ [k]) root = [y].
Proof.
  intros Hr Hs Hl. rewrite reach_app, Hr. cbn [flat_map reach].
  rewrite (sel_key _ _ _ Hs Hl). reflexivity.
Qed.

Lemma parents_of pre root mm :
  reach pre root = [VMap mm] ->
  match pre with [] => [root] | _ => filter is_map (eval pre root) end = [VMap mm].
Proof.
  intros Hr. destruct pre as [|a pre'].
  - cbn in Hr. exact Hr.
  - rewrite eval_reach, Hr. reflexivity.
Qed.

Lemma eval_key k mm y :
  str_eqb k star = false -> lookup k mm = Some y -> eval [k] (VMap mm) = final y.
Proof.
  intros Hs Hl. cbn [eval]. rewrite (sel_key _ _ _ Hs Hl). cbn [flat_map]. apply app_nil_r.
Qed.

Lemma nthz_of_nat {A} (l : list A) j : nthz l (Z.of_nat j) = nth_error l j.
Proof. unfold nthz. destruct (Z.ltb_spec (Z.of_nat j) 0); [lia|]. rewrite Nat2Z.id. reflexivity. Qed.

(* ---- addresses as parsed keys ---- *)
Definition plain_key (k : str) : pkey := {| pk_name := k; pk_arr := false; pk_pos := 0 |}.
Definition arr_key (k : str) (i : nat) : pkey := {| pk_name := k; pk_arr := true; pk_pos := Z.of_nat i |}.

(* key followed by an index = one indexed path step *)
Fixpoint to_pkeys (p : addr) : list pkey :=
  match p with
  | [] => []
  | SIdx _ :: r => to_pkeys r
  | SKey k :: r => match r with
                   | SIdx i :: r' => arr_key k i :: to_pkeys r'
                   | _ => plain_key k :: to_pkeys r
                   end
  end.

(* the addresses met in Maps of XML/JSON shape: every index follows a key *)
Fixpoint addr_ok (p : addr) : bool :=
  match p with
  | [] => true
  | SIdx _ :: _ => false
  | SKey k :: r => clean_key k && match r with
                                  | SIdx i :: r' => (Z.of_nat i <? 2 ^ 31)%Z && addr_ok r'
                                  | _ => addr_ok r
                                  end
  end.

Lemma leaves_scalar y : is_scalar y = true -> leaves y = [([], y)] /\ final y = [y].
Proof. destruct y; try discriminate; intros _; split; reflexivity. Qed.

Lemma in_leaves_map p v mm :
  In (p, v) (leaves (VMap mm)) ->
  exists k y p', In (k, y) mm /\ p = SKey k :: p' /\ In (p', v) (leaves y).
Proof.
  cbn [leaves]. rewrite in_flat_map. intros ([k y] & Hin & H). cbn [fst snd] in H.
  apply in_map_iff in H as ([p' v'] & E & H). unfold under in E. cbn [fst snd] in E.
  inversion E; subst. exists k, y, p'. auto.
Qed.

Lemma in_leaves_list p v l :
  In (p, v) (leaves (VList l)) ->
  exists j z p', nth_error l j = Some z /\ p = SIdx j :: p' /\ In (p', v) (leaves z).
Proof.
  cbn [leaves]. rewrite in_indexed_flat. intros (j & z & Hn & H). cbn [Nat.add] in H.
  apply in_map_iff in H as ([p' v'] & E & H). unfold under in E. cbn [fst snd] in E.
  inversion E; subst. exists j, z, p'. auto.
Qed.

Lemma clean_key_inv k : clean_key k = true ->
  mem_ascii dot k = false /\ mem_ascii lbr k = false /\ str_eqb k star = false /\ k <> [].
Proof.
  unfold clean_key. intros H.
  apply andb_true_iff in H as [H H4]. apply andb_true_iff in H as [H H3]. apply andb_true_iff in H as [H1 H2].
  apply negb_true_iff in H1, H2, H3. repeat split; try assumption.
  intros ->. discriminate.
Qed.

(* ---- the tree layer ---- *)
Definition resolves (x : value) : Prop :=
  forall p v pre root, is_map x = true -> good x -> reach pre root = [x] -> In (p, v) (leaves x) ->
    addr_ok p = true /\ (let '(sg, tl) := segment (to_pkeys p) pre in evalx sg tl root) = [v].
Definition resolvesP (x : value) : Prop :=
  match x with VList l => Forall resolves l | _ => resolves x end.

Lemma resolves_all : forall x, resolvesP x.
Proof.
  induction x as [ | | | | | | | |mm IH|l IH] using value_ind2;
    try (intros p v pre root Hm; discriminate).
  - (* map *)
    intros p v pre root _ Hg Hr Hin.
    apply in_leaves_map in Hin as (k & y & p' & Hky & -> & Hin).
    destruct (good_map_inv _ _ _ Hg Hky) as (Hl & Hck & Hgy).
    rewrite Forall_forall in IH. specialize (IH _ Hky). cbn [snd] in IH.
    destruct (clean_key_inv _ Hck) as (_ & _ & Hstar & _).
    pose proof (reach_step _ _ _ _ _ Hr Hstar Hl) as Hr'.
    destruct (is_scalar y) eqn:Es.
    + destruct (leaves_scalar y Es) as [E1 E2]. rewrite E1 in Hin.
      destruct Hin as [E|[]]. inversion E; subst.
      split. { cbn [addr_ok]. rewrite Hck. reflexivity. }
      cbn [to_pkeys segment plain_key pk_arr pk_name]. cbn [evalx].
      rewrite eval_reach, Hr'. cbn [flat_map]. rewrite app_nil_r. exact E2.
    + destruct y as [ | | | | | | | |mm'|l]; try discriminate.
      * (* map child *)
        pose proof Hin as Hin0.
        apply in_leaves_map in Hin0 as (k2 & y2 & p2 & _ & -> & _).
        destruct (IH (SKey k2 :: p2) v (pre ++ [k]) root eq_refl Hgy Hr' Hin) as [Ha He].
        split.
        { change (addr_ok (SKey k :: SKey k2 :: p2)) with (clean_key k && addr_ok (SKey k2 :: p2)).
          rewrite Hck, Ha; reflexivity. }
        change (to_pkeys (SKey k :: SKey k2 :: p2)) with (plain_key k :: to_pkeys (SKey k2 :: p2)).
        cbn [segment plain_key pk_arr pk_name]. exact He.
      * (* list child *)
        apply in_leaves_list in Hin as (j & z & p2 & Hnth & -> & Hin).
        destruct (good_list_inv _ _ _ Hgy Hnth) as (Hj & Hnl & Hgz).
        cbn [resolvesP] in IH. rewrite Forall_forall in IH. specialize (IH _ (nth_error_In _ _ Hnth)).
        change (to_pkeys (SKey k :: SIdx j :: p2)) with (arr_key k j :: to_pkeys p2).
        change (addr_ok (SKey k :: SIdx j :: p2))
          with (clean_key k && ((Z.of_nat j <? 2 ^ 31)%Z && addr_ok p2)).
        cbn [segment arr_key pk_arr pk_name pk_pos].
        destruct (segment (to_pkeys p2) []) as [sg tl] eqn:Hseg.
        cbn [evalx]. rewrite (parents_of _ _ _ Hr). cbn [flat_map]. rewrite app_nil_r.
        rewrite (eval_key _ _ _ Hstar Hl). cbn [final]. rewrite nthz_of_nat, Hnth.
        assert (Hjb : (Z.of_nat j <? 2 ^ 31)%Z = true) by (apply Z.ltb_lt; exact Hj).
        rewrite Hck, Hjb. cbn [andb].
        destruct (is_scalar z) eqn:Ez.
        -- destruct (leaves_scalar z Ez) as [E1 _]. rewrite E1 in Hin.
           destruct Hin as [E|[]]. inversion E; subst.
           cbn in Hseg. inversion Hseg; subst. split; reflexivity.
        -- destruct z as [ | | | | | | | |mz|lz]; try discriminate.
           pose proof Hin as Hin0. apply in_leaves_map in Hin0 as (k2 & y2 & p3 & _ & -> & _).
           destruct (IH (SKey k2 :: p3) v [] (VMap mz) eq_refl Hgz eq_refl Hin) as [Ha He].
           rewrite Hseg in He. split; [exact Ha|].
           cbn [is_map]. destruct sg; destruct tl; exact He.
  - (* list *)
    cbn [resolvesP]. eapply Forall_impl; [|exact IH]. intros z Hz.
    destruct z; try exact Hz. intros p v pre root Hm; discriminate.
Qed.
