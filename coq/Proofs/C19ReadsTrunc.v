(* C19: a file of JSON documents cut at any byte - the truncation theorem of Props/C19.v instantiated
   for the transcribed JSON reader and the texts of ANY Maps of JSON types. *)
From Mxj Require Import Spec.JsonFilesSpec Proofs.C13P Proofs.JsonP Proofs.C13Json Proofs.C19P Proofs.C19Reads Proofs.C19ReadsDoc.
Import ListNotations.
Local Arguments marshal : simpl never.
Local Open Scope Z_scope.

(* once inside an object the scanner stays inside, at depth >= 1, until it returns *)
Definition jinv (st : jstate) : Prop := inJson st = true /\ 1 <= parenCnt st.

Lemma jstep_inv : forall st c st', jinv st -> jstep st c = inl st' -> jinv st'.
Proof.
  intros [q ij cnt e j0] c st' [Hj Hc] H. cbn [inJson parenCnt] in Hj, Hc. subst ij.
  unfold jstep in H. cbn [inQuote inJson parenCnt escaped jb] in H.
  repeat match type of H with
         | context [if ?b then _ else _] => destruct b eqn:?
         end; try discriminate H; injection H as <-; split; cbn [inJson parenCnt]; try reflexivity;
  repeat match goal with
         | E : (_ =? _) = false |- _ => apply Z.eqb_neq in E
         | E : (_ <? _) = false |- _ => apply Z.ltb_ge in E
         end; lia.
Qed.

Lemma steps_inv : forall x st st', jinv st -> steps jmachine st x = Some st' -> jinv st'.
Proof.
  induction x as [|c x IH]; intros st st' Hi H; cbn [steps] in H.
  - now injection H as <-.
  - change (m_step jmachine st c) with (jstep st c) in H. destruct (jstep st c) as [st1|] eqn:E; [|discriminate].
    exact (IH st1 st' (jstep_inv st c st1 Hi E) H).
Qed.

(* a run that consumes more than X does not stop inside X *)
Lemma direct_long_steps : forall {R} (M : machine R) X Y st r n,
  direct M st (X ++ Y) = (r, n) -> (length X < n)%nat -> exists st', steps M st X = Some st'.
Proof.
  intros R M. induction X as [|x X IH]; intros Y st r n H Hn; [eexists; reflexivity|].
  cbn [app direct steps] in *. destruct (m_step M st x) as [st1|r1].
  - destruct (direct M st1 (X ++ Y)) as [r2 n2] eqn:E. injection H as <- <-.
    apply (IH Y st1 r2 n2 E). cbn [length] in Hn. lia.
  - injection H as <- <-. cbn [length] in Hn. lia.
Qed.

(* the byte-string scanner follows a run of the machine that does not stop *)
Lemma fscan_steps : forall x y st st', 0 <= parenCnt st -> steps jmachine st x = Some st' ->
  fscan (x ++ y) st = fscan y st'.
Proof.
  induction x as [|c x IH]; intros y st st' Hc H; cbn [steps app] in *.
  - now injection H as <-.
  - change (m_step jmachine st c) with (jstep st c) in H.
    pose proof (fscan_step c (x ++ y) st Hc) as Hs. destruct (jstep st c) as [st1|]; [|discriminate].
    destruct Hs as [Hc1 E]. rewrite E. now apply IH.
Qed.

(* a strict, non-empty prefix of the text of an object: the scanner reaches the end of the input inside
   the object - "no closing }" *)
Theorem scan_json_cut : forall eh m k, scan_safe (VMap m) = true ->
  (0 < k)%nat -> (k < length (marshal eh (VMap m)))%nat ->
  exists b, scan_json (firstn k (marshal eh (VMap m))) = SNoClose b.
Proof.
  intros eh m k Hs Hk0 Hk.
  pose proof (scan_marshal eh m [] [] Hs eq_refl) as Hd. cbn [app length Nat.add] in Hd. rewrite app_nil_r in Hd.
  set (t := marshal eh (VMap m)) in *.
  rewrite <- (firstn_skipn k t) in Hd at 1.
  assert (Hlen : (length (firstn k t) < length t)%nat) by (rewrite firstn_length_le; lia).
  destruct (direct_long_steps jmachine _ _ _ _ _ Hd Hlen) as [st' Est].
  destruct (jtext_cons eh m) as [t' Et]. fold t in Et.
  assert (Ep : firstn k t = lbrace :: firstn (k - 1) t').
  { rewrite Et. destruct k; [lia|]. cbn [firstn]. do 2 f_equal. lia. }
  assert (Hi : jinv st').
  { rewrite Ep in Est. cbn [steps] in Est. change (m_step jmachine jinit lbrace) with (jstep jinit lbrace) in Est.
    change (jstep jinit lbrace) with
      (@inl jstate jscan {| inQuote := false; inJson := true; parenCnt := 1; escaped := false; jb := [lbrace] |}) in Est.
    eapply steps_inv; [|exact Est]. split; cbn; [reflexivity|lia]. }
  exists (jb st'). rewrite scan_json_fscan. rewrite <- (app_nil_r (firstn k t)).
  rewrite (fscan_steps _ [] jinit st' ltac:(cbn; lia) Est).
  destruct Hi as [Hj Hc]. unfold fscan. cbn [Files.get_json]. rewrite Hj.
  assert (Hp : Nat.ltb 0 (Z.to_nat (parenCnt st')) = true) by (apply Nat.ltb_lt; lia).
  rewrite Hp. cbn [andb]. now rewrite rev_involutive.
Qed.

Local Close Scope Z_scope.

Section Truncation.
Variable json_dec : bytes -> res value.
Notation rd := (json_reader_raw json_dec).

Lemma cut_idle : forall b : bytes, begun b = false ->
  t_err (rd b) = REOF /\ keep_raw (t_doc (rd b)) = false.
Proof. intros [|c b] H; [split; reflexivity|discriminate]. Qed.

Lemma cut_begun : forall eh m k, scan_safe (VMap m) = true -> k < length (marshal eh (VMap m)) ->
  begun (firstn k (marshal eh (VMap m))) = true -> t_err (rd (firstn k (marshal eh (VMap m)))) = ROther.
Proof.
  intros eh m k Hs Hk Hb. destruct k as [|k]; [discriminate|].
  destruct (scan_json_cut eh m (S k) Hs (Nat.lt_0_succ k) Hk) as [b E]. unfold json_reader_raw. now rewrite E.
Qed.

Lemma kept_firstn : forall eh (dec : entries -> entries) ms i,
  kept keep_raw (firstn i (map (fun m => (VMap (dec m), marshal eh (VMap m))) ms)) =
  firstn i (map (fun m => (VMap (dec m), marshal eh (VMap m))) ms).
Proof.
  intros eh dec ms i. rewrite firstn_map. generalize (firstn i ms) as l. intro l.
  induction l as [|x l IH]; [reflexivity|]. unfold kept in *. cbn [map filter]. rewrite IH. reflexivity.
Qed.

(* the file JsonFile writes for ANY Maps of JSON types, cut after n bytes, any n: the Maps of the documents that lie
   wholly before the cut, and an error exactly when the cut falls inside a document *)
Theorem json_file_truncation : forall eh dec ms n, Forall (json_ok json_dec eh dec) ms ->
  read_all rd keep_raw (firstn n (concat (map (fun m => marshal eh (VMap m)) ms))) =
  FR false (firstn (fst (locate (map (fun m => marshal eh (VMap m)) ms) n)) (map (fun m => (VMap (dec m), marshal eh (VMap m))) ms))
     (begun (firstn (snd (locate (map (fun m => marshal eh (VMap m)) ms) n))
               (nth (fst (locate (map (fun m => marshal eh (VMap m)) ms) n)) (map (fun m => marshal eh (VMap m)) ms) []))).
Proof.
  intros eh dec ms n H.
  rewrite (file_truncation mapraw rd keep_raw begun _ _ (json_at_eof json_dec) (json_texts_reads json_dec eh dec ms H) eq_refl).
  - now rewrite kept_firstn.
  - intros b k _ _ Hb. now apply cut_idle.
  - intros b k Hin Hk Hb. apply in_map_iff in Hin as (m & <- & Hm).
    rewrite Forall_forall in H. destruct (H m Hm) as [Hs _]. now apply cut_begun.
Qed.
End Truncation.
