(* C19: the JSON reader on the INDENTED text JsonIndent writes (json.Indent of the compact text with a
   blank prefix and indent) for ANY Map of JSON types: getJson drops the blanks outside string literals, so
   it returns - and NewMapJson decodes - the COMPACT text of the Map, and leaves what follows the document. *)
From Mxj Require Import Spec.JsonFilesSpec Proofs.C13P Proofs.JsonP Proofs.C13Json Proofs.C19P Proofs.C19Reads Proofs.C19ReadsDoc.
Import ListNotations.
Local Arguments marshal : simpl never.
Local Open Scope Z_scope.

(* segments that scan well and keep their depth; blanks allowed outside literals *)
Definition lgood (l : list seg) : Prop := forallb seg_ok l = true /\ forall d, 1 <= d -> walk d l = Some d.

Lemma good_lgood : forall l, good l -> lgood l.
Proof. intros l [H1 H2]. split; [now apply seg_tight_ok|exact H2]. Qed.

Lemma lgood_nil : lgood [].
Proof. split; [reflexivity|intros; reflexivity]. Qed.

Lemma lgood_app : forall a b, lgood a -> lgood b -> lgood (a ++ b).
Proof.
  intros a b [Ha1 Ha2] [Hb1 Hb2]. split.
  - rewrite forallb_app, Ha1, Hb1. reflexivity.
  - intros d Hd. rewrite walk_app, (Ha2 d Hd). now apply Hb2.
Qed.

Lemma squeeze_app : forall a b, squeeze_segs (a ++ b) = squeeze_segs a ++ squeeze_segs b.
Proof. intros. unfold squeeze_segs. apply flat_map_app. Qed.

Lemma flatten_app : forall a b, flatten (a ++ b) = flatten a ++ flatten b.
Proof. intros. unfold flatten. apply flat_map_app. Qed.

(* ------------------------------------------------------------------ blanks *)

Lemma blank_char : forall c, is_blank c = true ->
  is_dq c = false /\ (byte c =? 123)%N = false /\ (byte c =? 125)%N = false.
Proof.
  intros c H. unfold is_blank in H. unfold is_dq, byte.
  repeat (apply orb_true_iff in H; destruct H as [H|H]); apply N.eqb_eq in H; rewrite H; repeat split.
Qed.

Lemma lgood_blank : forall x, blank x = true -> lgood [SP x].
Proof.
  intros x H. split.
  - cbn [forallb seg_ok]. rewrite andb_true_r. induction x as [|c x IH]; [reflexivity|].
    cbn in H |- *. apply andb_true_iff in H as [Hc Hx]. destruct (blank_char c Hc) as (-> & _ & _). cbn. now apply IH.
  - intros d _. cbn [walk]. assert (E : walk_sp d x = Some d); [|now rewrite E].
    induction x as [|c x IH]; [reflexivity|]. cbn in H. apply andb_true_iff in H as [Hc Hx].
    cbn [walk_sp]. unfold walk1. destruct (blank_char c Hc) as (_ & -> & ->). now apply IH.
Qed.

Lemma squeeze_blank : forall x, blank x = true -> squeeze_segs [SP x] = [].
Proof.
  intros x H. unfold squeeze_segs. cbn [flat_map squeeze_seg]. rewrite app_nil_r.
  induction x as [|c x IH]; [reflexivity|]. cbn in H. apply andb_true_iff in H as [Hc Hx].
  cbn [filter]. rewrite Hc. cbn [negb]. now apply IH.
Qed.

Lemma blank_app : forall a b, blank a = true -> blank b = true -> blank (a ++ b) = true.
Proof. intros a b Ha Hb. unfold blank in *. now rewrite forallb_app, Ha, Hb. Qed.

Lemma nl_indent_blank : forall p i d, blank p = true -> blank i = true ->
  exists x, nl_indent p i d = SP x /\ blank x = true.
Proof.
  intros p i d Hp Hi. unfold nl_indent. eexists. split; [reflexivity|].
  change (blank (ascii_of_N 10 :: p ++ concat (repeat i d))) with (blank (p ++ concat (repeat i d))).
  apply blank_app; [exact Hp|]. induction d as [|d IH]; [reflexivity|]. cbn [repeat concat]. now apply blank_app.
Qed.

(* ------------------------------------------------------------------ separators *)

Lemma lgood_sep_by_nl : forall sep l, lgood sep -> Forall lgood l -> lgood (sep_by_nl sep l).
Proof.
  intros sep l Hs Hl. induction Hl as [|x l Hx Hl IH]; [apply lgood_nil|].
  destruct l as [|y l]; [exact Hx|].
  change (sep_by_nl sep (x :: y :: l)) with (x ++ sep ++ sep_by_nl sep (y :: l)).
  apply lgood_app; [exact Hx|]. now apply lgood_app.
Qed.

Lemma squeeze_sep_by_nl : forall w la lb, blank w = true ->
  Forall2 (fun a b => squeeze_segs a = flatten b) la lb ->
  squeeze_segs (sep_by_nl [sp1 ","; SP w] la) = flatten (sep_by (sp1 ",") lb).
Proof.
  intros w la lb Hw H. induction H as [|a b la lb Hab H IH]; [reflexivity|].
  destruct H as [|a' b' la lb Hab' H]; [exact Hab|].
  change (sep_by_nl [sp1 ","; SP w] (a :: a' :: la)) with (a ++ [sp1 ","] ++ [SP w] ++ sep_by_nl [sp1 ","; SP w] (a' :: la)).
  change (sep_by (sp1 ",") (b :: b' :: lb)) with (b ++ [sp1 ","] ++ sep_by (sp1 ",") (b' :: lb)).
  rewrite !squeeze_app, !flatten_app, Hab, IH, (squeeze_blank w Hw). reflexivity.
Qed.

Lemma lgood_wrap_brace : forall inner, lgood inner -> lgood (sp1 "{" :: inner ++ [sp1 "}"]).
Proof.
  intros inner [H1 H2]. split.
  - cbn [forallb]. rewrite forallb_app, H1. reflexivity.
  - intros d Hd. cbn [walk sp1 s list_ascii_of_string walk_sp walk1]. cbn.
    rewrite walk_app, (H2 (d + 1)) by lia. cbn.
    assert (E : (2 <=? d + 1) = true) by (apply Z.leb_le; lia). rewrite E. f_equal. lia.
Qed.

Lemma Forall2_map_same {A B C} (R : B -> C -> Prop) (f : A -> B) (g : A -> C) : forall l,
  Forall (fun x => R (f x) (g x)) l -> Forall2 R (map f l) (map g l).
Proof. induction 1; cbn [map]; constructor; assumption. Qed.

(* ------------------------------------------------------------------ the indented text of a value *)

Section Indent.
Variables (eh : bool) (p i : str).
Hypothesis Hp : blank p = true.
Hypothesis Hi : blank i = true.

Notation segi := (segments_ind eh p i).

Lemma ind_kids_map : forall d m,
  (fix go (m : entries) : list (str * list seg) :=
     match m with [] => [] | (k, x) :: t => (k, segi d x) :: go t end) m
  = map (fun kx => (fst kx, segi d (snd kx))) m.
Proof. intros d. induction m as [|[k x] m IH]; [reflexivity|]. cbn [map fst snd]. rewrite <- IH. reflexivity. Qed.
Lemma ind_elems_map : forall d l,
  (fix go (l : list value) : list (list seg) :=
     match l with [] => [] | x :: t => segi d x :: go t end) l = map (segi d) l.
Proof. intros d. induction l as [|x l IH]; [reflexivity|]. cbn [map]. rewrite <- IH. reflexivity. Qed.

Definition entry_ind (kx : str * list seg) : list seg := SQ (quote_body eh (fst kx)) :: sp1 ":" :: sp1 " " :: snd kx.

Lemma segi_vmap : forall d kx m,
  segi d (VMap (kx :: m)) =
  sp1 "{" :: nl_indent p i (S d) ::
  sep_by_nl [sp1 ","; nl_indent p i (S d)]
    (map entry_ind (jsort (map (fun kx => (fst kx, segi (S d) (snd kx))) (kx :: m))))
  ++ [nl_indent p i d; sp1 "}"].
Proof. intros d [k x] m. cbn [segments_ind]. rewrite ind_kids_map. reflexivity. Qed.

Lemma segi_vlist : forall d x l,
  segi d (VList (x :: l)) =
  sp1 "[" :: nl_indent p i (S d) ::
  sep_by_nl [sp1 ","; nl_indent p i (S d)] (map (segi (S d)) (x :: l))
  ++ [nl_indent p i d; sp1 "]"].
Proof. intros d x l. cbn [segments_ind]. rewrite ind_elems_map. reflexivity. Qed.

(* the indented segments scan well at every depth, and without the blanks outside literals they are the compact text *)
Definition ind_ok (v : value) : Prop :=
  forall d, lgood (segi d v) /\ squeeze_segs (segi d v) = flatten (segments eh v).

Lemma same_ok : forall v, scan_safe v = true -> (forall d, segi d v = segments eh v) -> ind_ok v.
Proof.
  intros v Hs E d. rewrite E. pose proof (scan_safe_good eh v Hs) as Hg. split; [now apply good_lgood|].
  apply tight_squeeze. apply Hg.
Qed.

Lemma scan_safe_entries : forall m, scan_safe (VMap m) = true -> Forall (fun kx => scan_safe (snd kx) = true) m.
Proof.
  induction m as [|[k x] m IH]; intro H; [constructor|]. cbn in H. apply andb_true_iff in H as [Hx Hm].
  constructor; [exact Hx|now apply IH].
Qed.
Lemma scan_safe_elems : forall l, scan_safe (VList l) = true -> Forall (fun x => scan_safe x = true) l.
Proof.
  induction l as [|x l IH]; intro H; [constructor|]. cbn in H. apply andb_true_iff in H as [Hx Hl].
  constructor; [exact Hx|now apply IH].
Qed.

Lemma Forall_mp {A} (P Q : A -> Prop) : forall l, Forall (fun x => P x -> Q x) l -> Forall P l -> Forall Q l.
Proof. induction 1 as [|x l Hx Hl IH]; intro HP; inversion HP; subst; constructor; auto. Qed.

Lemma lgood_sp1 : forall c, forallb plain_char (s c) = true -> lgood [sp1 c].
Proof. intros c H. apply good_lgood. now apply good_sp1_plain. Qed.

Lemma lgood_brace_nl : forall x1 x0 X, blank x1 = true -> blank x0 = true -> lgood X ->
  lgood (sp1 "{" :: SP x1 :: X ++ [SP x0; sp1 "}"]).
Proof.
  intros x1 x0 X H1 H0 HX.
  replace (sp1 "{" :: SP x1 :: X ++ [SP x0; sp1 "}"]) with (sp1 "{" :: ([SP x1] ++ X ++ [SP x0]) ++ [sp1 "}"])
    by (cbn [app]; rewrite <- app_assoc; reflexivity).
  apply lgood_wrap_brace. apply lgood_app; [now apply lgood_blank|]. apply lgood_app; [exact HX|now apply lgood_blank].
Qed.

Lemma lgood_bracket_nl : forall x1 x0 X, blank x1 = true -> blank x0 = true -> lgood X ->
  lgood (sp1 "[" :: SP x1 :: X ++ [SP x0; sp1 "]"]).
Proof.
  intros x1 x0 X H1 H0 HX.
  change (sp1 "[" :: SP x1 :: X ++ [SP x0; sp1 "]"]) with ([sp1 "["] ++ [SP x1] ++ X ++ [SP x0] ++ [sp1 "]"]).
  apply lgood_app; [now apply lgood_sp1|]. apply lgood_app; [now apply lgood_blank|]. apply lgood_app; [exact HX|].
  apply lgood_app; [now apply lgood_blank|now apply lgood_sp1].
Qed.

Lemma squeeze_container : forall o c x1 x0 X, blank x1 = true -> blank x0 = true ->
  squeeze_segs (sp1 o :: SP x1 :: X ++ [SP x0; sp1 c]) = squeeze_segs [sp1 o] ++ squeeze_segs X ++ squeeze_segs [sp1 c].
Proof.
  intros o c x1 x0 X H1 H0.
  change (sp1 o :: SP x1 :: X ++ [SP x0; sp1 c]) with ([sp1 o] ++ [SP x1] ++ X ++ [SP x0] ++ [sp1 c]).
  rewrite !squeeze_app, (squeeze_blank x1 H1), (squeeze_blank x0 H0). reflexivity.
Qed.

(* an object: the braces, and between them segments that scan well at every depth and squeeze to the compact inside *)
Lemma vmap_inner : forall m, Forall (fun kx => ind_ok (snd kx)) m -> forall d,
  exists inner, segi d (VMap m) = sp1 "{" :: inner ++ [sp1 "}"] /\ lgood inner /\
                squeeze_segs inner = flatten (map_inner eh m).
Proof.
  intros m Hall d. destruct m as [|kx m].
  { exists []. split; [reflexivity|]. split; [apply lgood_nil|reflexivity]. }
  rewrite segi_vmap. unfold map_inner.
  rewrite (jsort_map_snd (segi (S d))), (jsort_map_snd (segments eh)), !map_map.
  pose proof (jsort_Forall _ _ Hall) as HM. clear Hall. generalize dependent (jsort (kx :: m)). intros M HM.
  destruct (nl_indent_blank p i (S d) Hp Hi) as (x1 & -> & Hx1).
  destruct (nl_indent_blank p i d Hp Hi) as (x0 & -> & Hx0).
  eexists ([SP x1] ++ _ ++ [SP x0]). split; [cbn [app]; rewrite <- app_assoc; reflexivity|]. split.
  - apply lgood_app; [now apply lgood_blank|]. apply lgood_app; [|now apply lgood_blank]. apply lgood_sep_by_nl.
    + change [sp1 ","; SP x1] with ([sp1 ","] ++ [SP x1]). apply lgood_app; [now apply lgood_sp1|now apply lgood_blank].
    + rewrite Forall_map. eapply Forall_impl; [|exact HM]. intros e He. cbn beta in He. unfold entry_ind. cbn [fst snd].
      change (SQ (quote_body eh (fst e)) :: sp1 ":" :: sp1 " " :: segi (S d) (snd e))
        with ([SQ (quote_body eh (fst e))] ++ [sp1 ":"] ++ [sp1 " "] ++ segi (S d) (snd e)).
      apply lgood_app; [apply good_lgood, good_lit|]. apply lgood_app; [now apply lgood_sp1|].
      apply lgood_app; [now apply lgood_blank|apply He].
  - rewrite !squeeze_app, (squeeze_blank x1 Hx1), (squeeze_blank x0 Hx0), app_nil_r. cbn [app].
    apply (squeeze_sep_by_nl x1 _ (map (fun x => entry_segs eh (fst x, segments eh (snd x))) M) Hx1).
    apply Forall2_map_same. eapply Forall_impl; [|exact HM]. intros e He. cbn beta in He.
    unfold entry_ind, entry_segs. cbn [fst snd].
    change (SQ (quote_body eh (fst e)) :: sp1 ":" :: sp1 " " :: segi (S d) (snd e))
      with ([SQ (quote_body eh (fst e))] ++ [sp1 ":"] ++ [sp1 " "] ++ segi (S d) (snd e)).
    change (SQ (quote_body eh (fst e)) :: sp1 ":" :: segments eh (snd e))
      with ([SQ (quote_body eh (fst e))] ++ [sp1 ":"] ++ segments eh (snd e)).
    rewrite !squeeze_app, !flatten_app, (proj2 (He (S d))). reflexivity.
Qed.

Lemma ind_ok_all : forall v, scan_safe v = true -> ind_ok v.
Proof.
  induction v as [x|b| |z|z|z|f|x|m IH|l IH] using value_ind2; intro H; try discriminate H;
    try (apply same_ok; [exact H|reflexivity]).
  - (* VMap *)
    pose proof (Forall_mp _ _ _ IH (scan_safe_entries _ H)) as Hall. clear IH.
    intro d. destruct (vmap_inner m Hall d) as (inner & -> & Hg & Hq). split; [now apply lgood_wrap_brace|].
    rewrite segments_vmap. fold (map_inner eh m).
    change (sp1 "{" :: inner ++ [sp1 "}"]) with ([sp1 "{"] ++ inner ++ [sp1 "}"]).
    change (sp1 "{" :: map_inner eh m ++ [sp1 "}"]) with ([sp1 "{"] ++ map_inner eh m ++ [sp1 "}"]).
    rewrite !squeeze_app, !flatten_app, Hq. reflexivity.
  - (* VList *)
    destruct l as [|x l]; [apply same_ok; [exact H|reflexivity]|].
    pose proof (Forall_mp _ _ _ IH (scan_safe_elems _ H)) as HM. clear IH.
    intro d. rewrite segi_vlist, segments_vlist.
    generalize dependent (x :: l). intros M _ HM.
    destruct (nl_indent_blank p i (S d) Hp Hi) as (x1 & -> & Hx1).
    destruct (nl_indent_blank p i d Hp Hi) as (x0 & -> & Hx0).
    split.
    + apply lgood_bracket_nl; [exact Hx1|exact Hx0|]. apply lgood_sep_by_nl.
      * change [sp1 ","; SP x1] with ([sp1 ","] ++ [SP x1]). apply lgood_app; [now apply lgood_sp1|now apply lgood_blank].
      * rewrite Forall_map. eapply Forall_impl; [|exact HM]. intros e He. apply He.
    + rewrite (squeeze_container "[" "]" x1 x0 _ Hx1 Hx0).
      rewrite (squeeze_sep_by_nl x1 _ (map (segments eh) M) Hx1).
      * change (sp1 "[" :: ?X ++ [sp1 "]"]) with ([sp1 "["] ++ X ++ [sp1 "]"]). rewrite !flatten_app. reflexivity.
      * apply Forall2_map_same. eapply Forall_impl; [|exact HM]. intros e He. apply He.
Qed.
End Indent.

Local Close Scope Z_scope.

(* ------------------------------------------------------------------ the scanner on an indented object *)

(* blanks, the indented text of any object of JSON types, anything: the machine stops right after the object
   and has collected the COMPACT text of the object *)
Theorem scan_marshal_indent : forall eh p i m w rest,
  blank p = true -> blank i = true -> scan_safe (VMap m) = true -> blank w = true ->
  direct jmachine jinit (w ++ marshal_indent eh p i (VMap m) ++ rest) =
  (JOk (marshal eh (VMap m)), length w + length (marshal_indent eh p i (VMap m))).
Proof.
  intros eh p i m w rest Hp Hi Hs Hw.
  assert (Hall : Forall (fun kx => ind_ok eh p i (snd kx)) m).
  { eapply Forall_impl; [|exact (scan_safe_entries m Hs)]. intros kx Hk. now apply ind_ok_all. }
  destruct (vmap_inner eh p i Hp Hi m Hall 0) as (inner & E & [Hok Hwk] & Hq).
  assert (Hm : marshal_indent eh p i (VMap m) = obj_text inner).
  { unfold marshal_indent. rewrite E. unfold obj_text, flatten.
    cbn [flat_map render_seg sp1 s list_ascii_of_string app]. rewrite flat_map_app. reflexivity. }
  assert (Hc : marshal eh (VMap m) = lbrace :: squeeze_segs inner ++ [rbrace]).
  { unfold marshal. rewrite segments_vmap. fold (map_inner eh m). rewrite Hq. unfold flatten.
    cbn [flat_map render_seg sp1 s list_ascii_of_string app]. rewrite flat_map_app. reflexivity. }
  rewrite Hm, Hc. apply scan_object; [exact Hw|exact Hok|]. apply Hwk. apply Z.le_refl.
Qed.

Theorem scan_json_marshal_indent : forall eh p i m w rest,
  blank p = true -> blank i = true -> scan_safe (VMap m) = true -> blank w = true ->
  scan_json (w ++ marshal_indent eh p i (VMap m) ++ rest) = SDoc (marshal eh (VMap m)) rest.
Proof.
  intros eh p i m w rest Hp Hi Hs Hw.
  destruct (scan_json_direct (w ++ marshal_indent eh p i (VMap m) ++ rest)) as [E1 E2].
  rewrite (scan_marshal_indent eh p i m w rest Hp Hi Hs Hw) in E1, E2. cbn [fst snd] in E1, E2. rewrite skipn_two in E2.
  destruct (scan_json (w ++ marshal_indent eh p i (VMap m) ++ rest)) as [b r|b|b|b r]; try discriminate E1.
  cbn [jres unread] in E1, E2. injection E1 as <-. now subst r.
Qed.

Section IndentFiles.
Variable json_dec : bytes -> res value.
Notation rd := (json_reader_raw json_dec).

(* Reads for the indented text: the document is what the COMPACT text decodes to, the raw value is the compact text *)
Theorem reader_reads_json_indent_doc : forall eh p i m d w,
  blank p = true -> blank i = true -> scan_safe (VMap m) = true -> blank w = true ->
  json_dec (marshal eh (VMap m)) = Ok (VMap d) ->
  Reads rd (w ++ marshal_indent eh p i (VMap m)) (VMap d, marshal eh (VMap m)).
Proof.
  intros eh p i m d w Hp Hi Hs Hw Hd rest. unfold json_reader_raw.
  rewrite <- app_assoc, (scan_json_marshal_indent eh p i m w rest Hp Hi Hs Hw), (new_map_json_obj json_dec eh m d Hd).
  reflexivity.
Qed.

Lemma nl_blank : blank Files.nl = true.
Proof. reflexivity. Qed.

Lemma indent_docs_reads : forall eh p i dec ms, blank p = true -> blank i = true ->
  Forall (json_ok json_dec eh dec) ms ->
  Forall2 (Reads rd) (sep_docs Files.nl (map (fun m => marshal_indent eh p i (VMap m)) ms))
                     (map (fun m => (VMap (dec m), marshal eh (VMap m))) ms).
Proof.
  intros eh p i dec ms Hp Hi H. destruct H as [|m ms (Hs & Hd) H]; [constructor|].
  cbn [map sep_docs]. constructor.
  - now apply (reader_reads_json_indent_doc eh p i m (dec m) []).
  - induction H as [|m' ms (Hs' & Hd') H IH]; cbn [map]; constructor; [|exact IH].
    now apply (reader_reads_json_indent_doc eh p i m' (dec m') Files.nl).
Qed.

(* JsonFileIndent (JsonIndent's texts, a newline before every document but the first), then the two readers on the
   file it wrote: the Maps the compact texts decode to, in order, no error; the raw values are the compact texts *)
Theorem json_indent_write_read_roundtrip : forall eh p i dec ms, blank p = true -> blank i = true ->
  Forall (json_ok json_dec eh dec) ms ->
  exists file,
    maps_file (fun m => Some (marshal_indent eh p i (VMap m))) true ms true = (Some file, false) /\
    read_all rd keep_raw file = FR false (map (fun m => (VMap (dec m), marshal eh (VMap m))) ms) false /\
    read_all (rd_map rd) map_not_nil file = FR false (map (fun m => VMap (dec m)) ms) false.
Proof.
  intros eh p i dec ms Hp Hi H.
  exists (concat (sep_docs Files.nl (map (fun m => marshal_indent eh p i (VMap m)) ms))). split.
  - pose proof (maps_file_total entries (fun m => marshal_indent eh p i (VMap m)) true ms) as E. exact E.
  - assert (R : read_all rd keep_raw (concat (sep_docs Files.nl (map (fun m => marshal_indent eh p i (VMap m)) ms))) =
                FR false (map (fun m => (VMap (dec m), marshal eh (VMap m))) ms) false).
    { apply file_roundtrip_all_kept; [apply json_at_eof|now apply indent_docs_reads|apply all_kept]. }
    split; [exact R|]. rewrite (plain_of_raw json_dec _ _ R), map_map. reflexivity.
Qed.
End IndentFiles.
