(* C01, option clauses about [conv]: key options only rename; the other options the
   prescribed Map depends on are exactly those of [same_value_opts]. *)
From Mxj Require Import Proofs.StrLemmas Spec.Dom01 Spec.ConvOpts Proofs.C01P Proofs.C01Q.

Definition rename_kids (g : str -> str) : list node -> list node :=
  fix go (kids : list node) : list node :=
    match kids with
    | [] => []
    | NElem c :: t => NElem (rename g c) :: go t
    | nd :: t => nd :: go t
    end.

Lemma rename_unfold g n attrs kids :
  rename g (Elem n attrs kids) = Elem (rename_name g n) (map (rename_attr g) attrs) (rename_kids g kids).
Proof. reflexivity. Qed.

Section Ext.
Variable pf : str -> option flt.
Variable skip : str -> bool.
Variables o o' : opts.
Variable r : bool.
Variable g : str -> str.
Hypothesis Hv : same_value_opts o o'.
Hypothesis Hx : forall k, xform_key o' k = xform_key o (g k).
Hypothesis Ha : forall k, attr_key o' k = attr_key o (g k).

Lemma cast_ext x t : cast pf skip o' x r t = cast pf skip o x r t.
Proof.
  destruct Hv as (_ & _ & _ & H1 & H2 & H3 & H4 & _ & _).
  unfold cast. rewrite H1, H2, H3, H4. reflexivity.
Qed.

Lemma text_val_ext x : text_val o' x = text_val o x.
Proof. destruct Hv as (_ & H1 & _ & _ & _ & _ & _ & H2 & _). unfold text_val. rewrite H1, H2. reflexivity. Qed.

Lemma text_runs_ext kids : text_runs o' kids = text_runs o (rename_kids g kids).
Proof.
  induction kids as [|[c|x|tk] t IH]; cbn [text_runs rename_kids]; try exact IH; [reflexivity|].
  rewrite text_val_ext, IH. reflexivity.
Qed.

Lemma text_first_ext kids : text_first o' kids = text_first o (rename_kids g kids).
Proof.
  induction kids as [|[c|x|tk] t IH]; cbn [text_first rename_kids]; try exact IH; try reflexivity.
  rewrite text_val_ext, IH. reflexivity.
Qed.

Lemma wrap_seq_ext i v : wrap_seq o' i v = wrap_seq o i v.
Proof. destruct Hv as (H1 & _ & _ & _ & _ & _ & _ & _ & H2). unfold wrap_seq. rewrite H1, H2. reflexivity. Qed.

Lemma attr_entry_ext a : attr_entry pf skip o' r a = attr_entry pf skip o r (rename_attr g a).
Proof.
  destruct Hv as (_ & _ & _ & _ & _ & _ & _ & H2 & _).
  unfold attr_entry. cbn [rename_attr rename_name aname avalue xlocal]. rewrite Ha, H2, cast_ext. reflexivity.
Qed.

Lemma conv_fin_ext key ents runs cond :
  conv_fin pf skip o' r key ents runs cond = conv_fin pf skip o r key ents runs cond.
Proof.
  destruct Hv as (_ & _ & H1 & _ & _ & _ & _ & _ & H2).
  unfold conv_fin. rewrite H1, H2. destruct runs; [reflexivity|]. rewrite !cast_ext. reflexivity.
Qed.

Theorem conv_rename : forall e, conv pf skip o' r e = conv pf skip o r (rename g e).
Proof.
  induction e as [n attrs kids HF] using elem_ind2.
  rewrite rename_unfold, !conv_unfold.
  cbn [rename_name xlocal]. rewrite conv_fin_ext, Hx, text_runs_ext, text_first_ext.
  destruct Hv as (_ & _ & H1 & _). rewrite H1.
  assert (HA : map (attr_entry pf skip o' r) attrs = map (attr_entry pf skip o r) (map (rename_attr g) attrs)).
  { rewrite map_map. apply map_ext. intros a. apply attr_entry_ext. }
  assert (HN : is_nil attrs = is_nil (map (rename_attr g) attrs)) by (destruct attrs; reflexivity).
  rewrite HA, HN.
  assert (HC : forall i, cents_with o' (conv pf skip o' r) kids i
                       = cents_with o (conv pf skip o r) (rename_kids g kids) i).
  { induction HF as [|nd t Hnd HF IH]; intros i; [reflexivity|].
    destruct nd as [c|x|tk]; try (apply IH).
    cbn [rename_kids]. rewrite !cents_elem. cbn [Pnode] in Hnd. rewrite Hnd, wrap_seq_ext, IH.
    destruct c as [cn ca ck]. rewrite rename_unfold. cbn [ekey rename_name xlocal]. rewrite Hx. reflexivity. }
  rewrite HC. reflexivity.
Qed.
End Ext.

(* ---- lower-casing and snake-casing commute ---- *)
Lemma lower1_snake c :
  lower1 (if Ascii.eqb c "-"%char then "_"%char else c)
  = if Ascii.eqb (lower1 c) "-"%char then "_"%char else lower1 c.
Proof.
  destruct c as [b0 b1 b2 b3 b4 b5 b6 b7];
    destruct b0, b1, b2, b3, b4, b5, b6, b7; vm_compute; reflexivity.
Qed.

Lemma lower_snake k : to_lower (snake k) = snake (to_lower k).
Proof.
  unfold to_lower, snake, replace_char. rewrite !map_map. apply map_ext. intros c. apply lower1_snake.
Qed.

Lemma same_value_refl o : same_value_opts o o.
Proof. repeat split. Qed.

(* CoerceKeysToLower: the Map of the document with lower-cased names *)
Theorem conv_lower pf skip o r e :
  lowerCase o = false ->
  conv pf skip (set_lower true o) r e = conv pf skip o r (rename to_lower e).
Proof.
  intros Hl. apply conv_rename.
  - repeat split.
  - intros k. unfold xform_key. cbn [lowerCase snakeCaseKeys set_lower]. rewrite Hl. reflexivity.
  - intros k. unfold attr_key. cbn [lowerCase snakeCaseKeys attrPrefix set_lower]. rewrite Hl.
    destruct (snakeCaseKeys o); [|reflexivity]. fold (snake k). fold (snake (to_lower k)). rewrite lower_snake. reflexivity.
Qed.

(* CoerceKeysToSnakeCase: the Map of the document with '-' replaced by '_' in every name *)
Theorem conv_snake pf skip o r e :
  snakeCaseKeys o = false ->
  conv pf skip (set_snake true o) r e = conv pf skip o r (rename snake e).
Proof.
  intros Hs. apply conv_rename.
  - repeat split.
  - intros k. unfold xform_key. cbn [lowerCase snakeCaseKeys set_snake]. rewrite Hs.
    destruct (lowerCase o); [|reflexivity]. fold (snake (to_lower k)). fold (snake k). rewrite lower_snake. reflexivity.
  - intros k. unfold attr_key. cbn [lowerCase snakeCaseKeys attrPrefix set_snake]. rewrite Hs. reflexivity.
Qed.

(* renaming with the identity *)
Lemma rename_id e : rename (fun k => k) e = e.
Proof.
  induction e as [n attrs kids HF] using elem_ind2. rewrite rename_unfold. f_equal.
  - destruct n; reflexivity.
  - induction attrs as [|[[sp lo] v] t IH]; [reflexivity|]. cbn [map]. rewrite IH. reflexivity.
  - induction HF as [|nd t Hnd HF IH]; [reflexivity|].
    destruct nd as [c|x|tk]; cbn [rename_kids]; rewrite IH; [|reflexivity|reflexivity].
    cbn [Pnode] in Hnd. rewrite Hnd. reflexivity.
Qed.

(* the prescribed Map depends on the option record only through the fields of
   same_key_opts and same_value_opts (in particular not on the keep-spaces flag itself -
   only on the trim set -, the XMPP flag, the encoder options or the other generated keys) *)
Theorem conv_frame pf skip o o' r e :
  same_key_opts o o' -> same_value_opts o o' -> conv pf skip o' r e = conv pf skip o r e.
Proof.
  intros (H1 & H2 & H3) Hv.
  rewrite (conv_rename pf skip o o' r (fun k => k) Hv).
  - rewrite rename_id. reflexivity.
  - intros k. unfold xform_key. rewrite H2, H3. reflexivity.
  - intros k. unfold attr_key. rewrite H1, H2, H3. reflexivity.
Qed.
