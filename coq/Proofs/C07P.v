(* C07: the model of valuesForKeyPath / valuesForArray / ValuesForPath refines
   the declarative path semantics of Spec/PathSem.v, for all Maps and paths. *)
From Mxj Require Import Model.KeyValues Spec.PathSem Proofs.StrLemmas.

(* ---------- list lemmas ---------- *)
Lemma filter_true {A} (l : list A) : filter (fun _ => true) l = l.
Proof. induction l as [|a l IH]; cbn; [reflexivity|rewrite IH; reflexivity]. Qed.

Lemma flat_map_flat_map {A B C} (f : A -> list B) (g : B -> list C) l :
  flat_map g (flat_map f l) = flat_map (fun x => flat_map g (f x)) l.
Proof. induction l as [|a l IH]; cbn; [reflexivity|]. rewrite flat_map_app, IH; reflexivity. Qed.

Lemma flat_map_map {A B C} (f : A -> B) (g : B -> list C) l :
  flat_map g (map f l) = flat_map (fun x => g (f x)) l.
Proof. induction l as [|a l IH]; cbn; [reflexivity|rewrite IH; reflexivity]. Qed.

Lemma filter_flat_map {A B} (f : A -> list B) (p : A -> bool) l :
  flat_map (fun v => if p v then f v else []) l = flat_map f (filter p l).
Proof. induction l as [|a l IH]; [reflexivity|]. cbn. destruct (p a); cbn; rewrite IH; reflexivity. Qed.

(* ---------- plain / wildcard paths ---------- *)
Lemma has_sub_keys_nil v : has_sub_keys v [] = true.
Proof. reflexivity. Qed.

Lemma vfkp_leaf_final m : vfkp_leaf m [] = final m.
Proof. destruct m; cbn; try reflexivity. apply filter_true. Qed.

Lemma star_eqb : str_eqb star star = true.
Proof. reflexivity. Qed.

Theorem vfkp_eval : forall ks m, vfkp ks [] m = eval ks m.
Proof.
  induction ks as [|k rest IH]; intros m.
  - apply vfkp_leaf_final.
  - cbn [vfkp eval]. unfold sel, sel_map.
    destruct (str_eqb k star) eqn:Ek.
    + destruct m; cbn [flat_map]; try reflexivity.
      * rewrite flat_map_map. apply flat_map_ext. intros kv. apply IH.
      * rewrite flat_map_flat_map. apply flat_map_ext. intros x.
        destruct x; cbn [flat_map]; rewrite ?app_nil_r; try apply IH.
        rewrite flat_map_map. apply flat_map_ext. intros kv. apply IH.
    + destruct m; cbn [flat_map]; try reflexivity.
      * destruct (lookup k m) as [v|]; cbn [flat_map]; [rewrite app_nil_r; apply IH|reflexivity].
      * rewrite flat_map_flat_map. apply flat_map_ext. intros x.
        destruct x; cbn [flat_map]; try reflexivity.
        destruct (lookup k m) as [v|]; cbn [flat_map]; [rewrite app_nil_r; apply IH|reflexivity].
Qed.

(* ---------- the string layer of tmppath ---------- *)
Definition good_name (n : str) : Prop := mem_ascii dot n = false /\ n <> [].

Lemma join_snoc pre n : pre <> [] -> join sdot (pre ++ [n]) = join sdot pre ++ sdot ++ n.
Proof.
  induction pre as [|a t IH]; [congruence|]. intros _.
  destruct t as [|b t'].
  - reflexivity.
  - change ((a :: b :: t') ++ [n]) with (a :: (b :: t') ++ [n]).
    change (join sdot (a :: (b :: t') ++ [n])) with (a ++ sdot ++ join sdot ((b :: t') ++ [n])).
    rewrite IH by discriminate.
    change (join sdot (a :: b :: t')) with (a ++ sdot ++ join sdot (b :: t')).
    rewrite <- !app_assoc. reflexivity.
Qed.

Lemma path_keys_join l :
  l <> [] -> Forall good_name l -> path_keys (join sdot l) = l.
Proof.
  intros Hne HF. unfold path_keys, sdot.
  rewrite split1_join; [|exact Hne|].
  2:{ eapply Forall_impl; [|exact HF]. intros a [H _]; exact H. }
  assert (Hl : last l [dot] <> []).
  { clear Hne. induction l as [|a t IH]; [discriminate|].
    inversion HF as [|? ? [_ Ha] Ht]; subst.
    destruct t as [|b t']; [exact Ha|]. apply IH; exact Ht. }
  destruct (last l [dot]); [congruence|reflexivity].
Qed.

Definition tmp_of (pre : list str) : option str :=
  match pre with [] => None | _ => Some (join sdot pre) end.

Lemma tmp_path_of pre n : tmp_path (tmp_of pre) n = join sdot (pre ++ [n]).
Proof.
  destruct pre as [|a t]; [reflexivity|].
  unfold tmp_of, tmp_path. rewrite join_snoc by discriminate. reflexivity.
Qed.

Lemma tmp_of_snoc pre n : Some (tmp_path (tmp_of pre) n) = tmp_of (pre ++ [n]).
Proof.
  rewrite tmp_path_of. unfold tmp_of. destruct (pre ++ [n]) eqn:E; [|reflexivity].
  destruct pre; discriminate.
Qed.

Lemma ovfp_join m l :
  l <> [] -> Forall good_name l -> ovfp m (join sdot l) = eval l m.
Proof. intros Hne HF. unfold ovfp. rewrite path_keys_join by assumption. apply vfkp_eval. Qed.

(* ---------- indexed paths ---------- *)
Definition good_key (k : pkey) : Prop := good_name (pk_name k) /\ (0 <= pk_pos k)%Z.

Fixpoint segment (keys : list pkey) (pre : list str) : list seg * list str :=
  match keys with
  | [] => ([], pre)
  | k :: t =>
      if pk_arr k then let '(sg, tl) := segment t [] in ((pre, pk_name k, pk_pos k) :: sg, tl)
      else segment t (pre ++ [pk_name k])
  end.

Definition head_plain (keys : list pkey) : Prop :=
  match keys with k :: _ => pk_arr k = false | [] => True end.

Lemma segment_nonempty : forall keys pre sg tl,
  segment keys pre = (sg, tl) -> keys <> [] -> sg <> [] \/ tl <> [].
Proof.
  induction keys as [|k t IH]; intros pre sg tl H Hne; [congruence|].
  cbn in H. destruct (pk_arr k).
  - destruct (segment t []) as [sg' tl']. inversion H; subst. left; discriminate.
  - destruct t as [|k2 t2].
    + cbn in H. inversion H; subst. right. destruct pre; discriminate.
    + eapply IH; [exact H|discriminate].
Qed.

Lemma nth_z_nthz {A} (l : list A) z : (0 <= z)%Z -> nth_z l z = nthz l z.
Proof.
  intros Hz. unfold nth_z, nthz.
  destruct (Z.ltb_spec z 0); [lia|].
  destruct (Z.ltb_spec z (Z.of_nat (length l))); [reflexivity|].
  symmetry. apply nth_error_None. lia.
Qed.

Theorem vfa_evalx : forall keys m pre vals,
  keys <> [] -> Forall good_key keys -> Forall good_name pre ->
  (pre <> [] -> head_plain keys) ->
  vfa keys m (tmp_of pre) vals = let '(sg, tl) := segment keys pre in evalx sg tl m.
Proof.
  induction keys as [|k rest IH]; intros m pre vals Hne HK HP Hinv; [congruence|].
  inversion HK as [|? ? [Hkn Hkp] HKr]; subst.
  assert (Hpre' : Forall good_name (pre ++ [pk_name k])).
  { apply Forall_app; split; [exact HP|constructor; [exact Hkn|constructor]]. }
  assert (Hne' : pre ++ [pk_name k] <> []) by (destruct pre; discriminate).
  cbn [vfa segment]. rewrite tmp_path_of.
  destruct (pk_arr k) eqn:Ek.
  - (* indexed key: no pending plain prefix *)
    assert (pre = []) as ->.
    { destruct pre; [reflexivity|]. exfalso. specialize (Hinv ltac:(discriminate)). cbn in Hinv. congruence. }
    cbn [negb andb orb app].
    destruct (segment rest []) as [sg tl] eqn:Hseg.
    cbn [evalx flat_map]. rewrite app_nil_r.
    rewrite ovfp_join by (try discriminate; exact Hpre').
    rewrite nth_z_nthz by exact Hkp.
    destruct rest as [|k2 rest2].
    + cbn in Hseg. inversion Hseg; subst. destruct (nthz _ _); reflexivity.
    + destruct (nthz _ _) as [x|]; [|reflexivity].
      assert (Hnt : sg <> [] \/ tl <> []) by (eapply segment_nonempty; [exact Hseg|discriminate]).
      assert (Hrec : forall v, vfa (k2 :: rest2) x None v = evalx sg tl x).
      { intros v. change None with (tmp_of []).
        rewrite IH; [rewrite Hseg; reflexivity|discriminate|exact HKr|constructor|intros C; congruence]. }
      destruct x; cbn [is_map]; try (destruct sg; destruct tl; try reflexivity; destruct Hnt; congruence).
  - (* plain key *)
    cbn [negb andb orb].
    destruct rest as [|k2 rest2].
    + (* last key *)
      cbn [segment]. cbn [evalx]. apply ovfp_join; assumption.
    + destruct (pk_arr k2) eqn:Ek2.
      * (* look-ahead *)
        cbn [segment]. rewrite Ek2.
        destruct (segment rest2 []) as [sg tl] eqn:Hseg.
        cbn [evalx].
        rewrite ovfp_join by assumption.
        destruct (pre ++ [pk_name k]) as [|a pre'] eqn:Hp; [congruence|]. rewrite <- Hp.
        rewrite <- filter_flat_map. apply flat_map_ext. intros p.
        destruct p; cbn [is_map]; try reflexivity.
        change None with (tmp_of []).
        rewrite IH; [|discriminate|exact HKr|constructor|intros C; congruence].
        cbn [segment]. rewrite Ek2, Hseg. cbn [evalx flat_map]. rewrite app_nil_r. reflexivity.
      * (* continue with a longer pending prefix *)
        cbn [orb].
        replace (Some (join sdot (pre ++ [pk_name k]))) with (tmp_of (pre ++ [pk_name k]))
          by (rewrite <- tmp_of_snoc, tmp_path_of; reflexivity).
        rewrite IH; [reflexivity|discriminate|exact HKr|exact Hpre'|intros _; exact Ek2].
Qed.

(* ---------- parsePath ---------- *)
Definition key_shape (k : pkey) : Prop := mem_ascii dot (pk_name k) = false /\ (0 <= pk_pos k)%Z.

Lemma parse_seg_shape seg k :
  mem_ascii dot seg = false -> parse_seg seg = Ok k -> key_shape k.
Proof.
  intros Hd. unfold parse_seg.
  destruct (mem_ascii lbr seg) eqn:Hb; cbn [negb].
  - pose proof (split1_parts_subset lbr dot seg Hd) as HF.
    destruct (split1 lbr seg) as [|name [|p1 t]]; try discriminate.
    inversion HF as [|? ? Hn _]; subst.
    destruct (split1 rbr p1) as [|idx t2]; [discriminate|].
    destruct idx as [|c idx]; [discriminate|].
    destruct (parse_int 32 (c :: idx)) as [z|]; [|discriminate].
    destruct (Z.ltb_spec z 0) as [Hz|Hz]; [discriminate|].
    intros HH; inversion HH; subst. split; cbn; [exact Hn|lia].
  - intros HH; inversion HH; subst. split; cbn; [exact Hd|lia].
Qed.

Lemma parse_path_segs_shape segs ks :
  Forall (fun p => mem_ascii dot p = false) segs ->
  parse_path_segs segs = Ok ks -> Forall key_shape ks.
Proof.
  revert ks; induction segs as [|seg t IH]; intros ks HF H; cbn in H.
  - inversion H; constructor.
  - inversion HF as [|? ? Hs Ht]; subst.
    destruct seg as [|c seg']; [apply IH; assumption|].
    destruct (parse_seg (c :: seg')) as [k| |] eqn:Ek; cbn in H; try discriminate.
    destruct (parse_path_segs t) as [ks'| |] eqn:Et; cbn in H; try discriminate.
    inversion H; subst. constructor; [eapply parse_seg_shape; eassumption|apply IH; [assumption|reflexivity]].
Qed.

Lemma parse_path_shape path ks : parse_path path = Ok ks -> Forall key_shape ks.
Proof. apply parse_path_segs_shape, split1_nosep_parts. Qed.

(* no partial operation of parsePath can fail: the Panic branches of the model are unreachable *)
Lemma parse_seg_no_panic seg : parse_seg seg <> Panic.
Proof.
  unfold parse_seg. destruct (mem_ascii lbr seg) eqn:Hb; cbn [negb]; [|discriminate].
  destruct (split1_two lbr seg Hb) as (a & b & t & ->).
  pose proof (split1_nonempty rbr b) as Hne.
  destruct (split1 rbr b) as [|idx t2]; [congruence|].
  destruct idx; [discriminate|].
  destruct (parse_int 32 _); [|discriminate]. destruct (_ <? 0)%Z; discriminate.
Qed.

Lemma parse_path_no_panic path : parse_path path <> Panic.
Proof.
  unfold parse_path. induction (split1 dot path) as [|seg t IH]; cbn; [discriminate|].
  destruct seg as [|c seg']; [exact IH|].
  pose proof (parse_seg_no_panic (c :: seg')).
  destruct (parse_seg (c :: seg')); cbn; try congruence.
  destruct (parse_path_segs t); cbn; congruence.
Qed.

(* ---------- ValuesForPath, ValueForPath, Exists ---------- *)
Section Top.
Variable pf : str -> option flt.
Variable sep : str.

Definition denote_keys (ks : list pkey) (m : value) : list value :=
  let '(sg, tl) := segment ks [] in evalx sg tl m.

Theorem values_for_path_plain m path :
  mem_ascii lbr path = false ->
  values_for_path pf sep m path [] = Ok (eval (path_keys path) m).
Proof.
  intros H. unfold values_for_path. rewrite H. cbn. rewrite vfkp_eval. reflexivity.
Qed.

Theorem values_for_path_indexed m path ks :
  mem_ascii lbr path = true ->
  parse_path path = Ok ks -> ks <> [] -> Forall (fun k => pk_name k <> []) ks ->
  values_for_path pf sep m path [] = Ok (denote_keys ks m).
Proof.
  intros H Hp Hne Hnm. unfold values_for_path. rewrite H. cbn [negb get_sub_key_map get_sub_key_map_aux bind].
  rewrite Hp. cbn [bind]. rewrite filter_true.
  unfold values_for_array, denote_keys. change None with (tmp_of []).
  rewrite vfa_evalx; [reflexivity|exact Hne| |constructor|congruence].
  pose proof (parse_path_shape _ _ Hp) as HS.
  clear -HS Hnm. induction ks as [|k t IH]; [constructor|].
  inversion HS as [|? ? [H1 H2] Ht]; subst. inversion Hnm; subst.
  constructor; [repeat split; assumption|apply IH; assumption].
Qed.

(* ValueForPath is the first value; Exists is non-emptiness *)
Theorem value_for_path_first m path :
  value_for_path pf sep m path =
  match values_for_path pf sep m path [] with
  | Ok (v :: _) => Ok v
  | Ok [] => Err EOther
  | Err e => Err e
  | Panic => Panic
  end.
Proof. unfold value_for_path. destruct (values_for_path pf sep m path []) as [[|v t]| |]; reflexivity. Qed.

Theorem exists_nonempty m path sk :
  exists_path pf sep m path sk =
  match values_for_path pf sep m path sk with
  | Ok vs => Ok (negb (Nat.eqb (length vs) 0))
  | Err e => Err e
  | Panic => Panic
  end.
Proof. unfold exists_path. destruct (values_for_path pf sep m path sk) as [[|v t]| |]; reflexivity. Qed.

(* totality (C15): no argument string makes the model of ValuesForPath panic *)
Lemma sub_key_entry_no_panic v : sub_key_entry pf sep v <> Panic.
Proof.
  unfold sub_key_entry.
  destruct (split sep v) as [|a [|b [|c [|d t]]]]; try discriminate.
  repeat match goal with |- context [if ?c then _ else _] => destruct c end; try discriminate;
  repeat match goal with |- context [match ?c with Some _ => _ | None => _ end] => destruct c end; discriminate.
Qed.

Lemma get_sub_key_map_no_panic kv : get_sub_key_map pf sep kv <> Panic.
Proof.
  unfold get_sub_key_map. generalize (@nil (str * value)) as acc.
  induction kv as [|v t IH]; intros acc; cbn; [discriminate|].
  pose proof (sub_key_entry_no_panic v).
  destruct (sub_key_entry pf sep v) as [[k x]| |]; [apply IH|congruence|congruence].
Qed.

Theorem values_for_path_no_panic m path sk : values_for_path pf sep m path sk <> Panic.
Proof.
  unfold values_for_path, old_values_for_path.
  pose proof (get_sub_key_map_no_panic sk). pose proof (parse_path_no_panic path).
  destruct (negb (mem_ascii lbr path)); destruct (get_sub_key_map pf sep sk); cbn; try congruence.
  destruct (parse_path path); cbn; congruence.
Qed.
End Top.
