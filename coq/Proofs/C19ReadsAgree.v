(* C19: the two models of NewMapJsonReaderRaw agree on an *os.File: Model/Files.v json_reader_raw (over the
   unread bytes) and Model/Reader.v new_map_json_reader_raw (over the schedule), both around NewMapJson. *)
From Mxj Require Import Spec.JsonFilesSpec Proofs.C13P Proofs.C19Reads.
Import ListNotations.

Lemma jstep_ok_nonempty : forall st c b, jstep st c = inr (JOk b) -> b <> [].
Proof.
  intros [q ij cnt e j0] c b H. unfold jstep in H. cbn [inQuote inJson parenCnt escaped jb] in H.
  repeat match type of H with
         | context [if ?t then _ else _] => destruct t
         end; try discriminate H; injection H as <-; apply not_eq_sym, app_cons_not_nil.
Qed.

Lemma direct_ok_nonempty : forall x st b, fst (direct jmachine st x) = JOk b -> b <> [].
Proof.
  induction x as [|c x IH]; intros st b H.
  - cbn in H. unfold jeof in H. destruct (_ && _) in H; discriminate H.
  - cbn [direct] in H. change (m_step jmachine st c) with (jstep st c) in H.
    destruct (jstep st c) as [st'|r] eqn:E.
    + specialize (IH st' b). destruct (direct jmachine st' x) as [r n]. now apply IH.
    + cbn in H. subst r. now apply (jstep_ok_nonempty st c).
Qed.

(* getJson never returns an empty document with a nil error *)
Theorem scan_doc_nonempty : forall b jb r, scan_json b = SDoc jb r -> jb <> [].
Proof.
  intros b jb r H. destruct (scan_json_direct b) as [E _]. rewrite H in E. now apply (direct_ok_nonempty b jinit).
Qed.

(* On the file holding b the reader of Model/Reader.v returns a result r, the raw bytes and the rest of the file; the
   reader of Model/Files.v returns the same raw bytes and rest, the Map of r and the class of r's error - provided
   the decoder never answers io.EOF for a text (encoding/json answers io.EOF only when there is no value at all,
   and getJson hands NewMapJson a text that starts with an opening brace): Files.v records every error of NewMapJson
   as "other", Reader.v passes it through, and its file loop would take io.EOF for the end of the file. *)
Theorem readers_agree : forall json_dec b, (forall j, json_dec j <> Err EEOF) ->
  exists r, Reader.new_map_json_reader_raw (Files.new_map_json json_dec) (file_schedule b) =
              Some (r, snd (t_doc (json_reader_raw json_dec b)), file_schedule (t_rest (json_reader_raw json_dec b))) /\
            t_err (json_reader_raw json_dec b) = err_class r /\
            fst (t_doc (json_reader_raw json_dec b)) = map_of r.
Proof.
  intros dec b Hd. unfold Reader.new_map_json_reader_raw, json_reader_raw. rewrite scan_models_agree.
  destruct (scan_json b) as [jb r|jb|jb|jb r] eqn:E; cbn [jres unread].
  - pose proof (scan_doc_nonempty b jb r E) as Hne. destruct jb as [|c jb]; [congruence|].
    exists (Files.new_map_json dec (c :: jb)). 
    assert (Hn : Files.new_map_json dec (c :: jb) <> Err EEOF).
    { unfold Files.new_map_json. specialize (Hd (c :: jb)). destruct (dec (c :: jb)) as [[]|[]|]; congruence. }
    destruct (Files.new_map_json dec (c :: jb)) as [m|[]|]; try congruence; repeat split.
  - exists (Err EEOF). repeat split.
  - exists (Err EOther). repeat split.
  - exists (Err EOther). repeat split.
Qed.

(* without that proviso the two reader models differ *)
Lemma readers_agree_needs_proviso : exists json_dec b,
  Reader.new_map_json_reader_raw (Files.new_map_json json_dec) (file_schedule b) = Some (Err EEOF, b, []) /\
  t_err (json_reader_raw json_dec b) = ROther.
Proof. exists (fun _ => Err EEOF), (s "{}"). split; vm_compute; reflexivity. Qed.
