(* C09 - LeafNodes lists every terminal value once, with a path that resolves to it.
   Statements only; proofs in Proofs/C09P.v and Proofs/C09Q.v, vocabulary in Spec/Leaves.v. *)
From Mxj Require Import Model.TreeOps Spec.PathSem Spec.Leaves Proofs.C07P Proofs.KVTotal Proofs.C09P Proofs.C09Q.

(* ---- 1. enumeration: exactly one entry per scalar, arbitrary keys (also the empty key),
        any attribute prefix, text key and list notation ---- *)
Theorem C09_leaves_complete : forall ap tk dotn m,
  map snd (leaf_nodes ap tk dotn m false) = scalars m.
Proof. exact leaf_values_all. Qed.
Print Assumptions C09_leaves_complete.

(* with the no-attributes option: the scalars of the Map without its attribute entries *)
Theorem C09_leaves_complete_noattr : forall ap tk dotn m,
  map snd (leaf_nodes ap tk dotn m true) = scalars (strip_attrs ap m).
Proof. exact leaf_values_noattr. Qed.
Print Assumptions C09_leaves_complete_noattr.

(* ---- 2. the whole result, paths included: LeafNodes is the specification leaf_spec
        (address of every scalar, rendered with "." and "[N]" / ".N"); for noattr = true
        this is the "removes exactly the attribute entries and the text-key segment" clause ---- *)
Theorem C09_leaf_nodes_spec : forall ap tk dotn m noattr,
  leaf_nodes ap tk dotn m noattr = leaf_spec ap tk dotn m noattr.
Proof. exact leaf_nodes_spec. Qed.
Print Assumptions C09_leaf_nodes_spec.

(* ---- 3. LeafPaths / LeafValues are the projections of LeafNodes for the same option ---- *)
Theorem C09_leaf_projections : forall ap tk dotn m noattr,
  combine (leaf_paths ap tk dotn m noattr) (leaf_values ap tk dotn m noattr) = leaf_nodes ap tk dotn m noattr /\
  length (leaf_paths ap tk dotn m noattr) = length (leaf_nodes ap tk dotn m noattr) /\
  length (leaf_values ap tk dotn m noattr) = length (leaf_nodes ap tk dotn m noattr).
Proof. exact leaf_projections. Qed.
Print Assumptions C09_leaf_projections.

Theorem C09_leaf_values_spec : forall ap tk dotn m noattr,
  leaf_values ap tk dotn m noattr = scalars (if noattr then strip_attrs ap m else m).
Proof. exact leaf_values_spec. Qed.
Print Assumptions C09_leaf_values_spec.

Theorem C09_leaf_paths_spec : forall ap tk dotn m noattr,
  leaf_paths ap tk dotn m noattr =
  map (fun pv => render tk dotn noattr (fst pv)) (leaves (if noattr then strip_attrs ap m else m)).
Proof. exact leaf_paths_spec. Qed.
Print Assumptions C09_leaf_paths_spec.

(* ---- 4. string layer of the resolution clause: "name[N]" parses back to (name, N) ---- *)
Theorem C09_parse_seg_indexed : forall name i,
  mem_ascii lbr name = false -> (Z.of_nat i < 2 ^ 31)%Z ->
  parse_seg (idx_seg name i) = Ok {| pk_name := name; pk_arr := true; pk_pos := Z.of_nat i |}.
Proof. exact parse_seg_indexed. Qed.
Print Assumptions C09_parse_seg_indexed.

(* resolving a leaf path never panics *)
Theorem C09_resolution_total : forall pf sep m path, values_for_path pf sep m path [] <> Panic.
Proof. intros; apply values_for_path_no_panic. Qed.
Print Assumptions C09_resolution_total.

(* the rendered path of a leaf address parses back to the keys of that address *)
Theorem C09_parse_path_render : forall tk p, addr_ok p = true -> p <> [] ->
  parse_path (render tk false false p) = Ok (to_pkeys p).
Proof. exact parse_path_render. Qed.
Print Assumptions C09_parse_path_render.

(* ---- 5. resolution: for a Map with distinct keys per map (every Go map), keys free of "." and "[",
        not "*", not empty, no list directly inside a list, lists shorter than 2^31, under any
        attribute prefix / text key: ValuesForPath on the path of every entry of LeafNodes
        yields exactly the value of that entry ---- *)
Theorem C09_leaf_resolves : forall pf sep ap tk m path v,
  is_map m = true -> wfb m = true -> keys_clean m = true -> no_nested_lists m = true ->
  lists_indexable m = true ->
  In (path, v) (leaf_nodes ap tk false m false) ->
  values_for_path pf sep m path [] = Ok [v].
Proof. exact leaf_resolves. Qed.
Print Assumptions C09_leaf_resolves.

(* the same at the level of addresses: the address of every scalar, rendered, resolves to it *)
Theorem C09_addr_resolves : forall pf sep tk m p v,
  is_map m = true -> good m -> In (p, v) (leaves m) ->
  values_for_path pf sep m (render tk false false p) [] = Ok [v].
Proof. exact addr_resolves. Qed.
Print Assumptions C09_addr_resolves.

(* every one of the stated side conditions is needed, and the resolution clause fails for the
   dot-notation option (".N" is read as a key) and for the no-attributes option (the path without
   the text key denotes the element): concrete Maps where the LeafNodes path does not give the value *)
Local Open Scope string_scope.
Theorem C09_leaf_resolves_conditions_needed :
  (let m := VMap [(s"doc", VMap [(s"", VInt 0)])] in
   lf false false m = [(s"doc.", VInt 0)] /\ vp m "doc." = Ok [VMap [(s"", VInt 0)]]) /\
  (let m := VMap [(s"a.b", VInt 1)] in lf false false m = [(s"a.b", VInt 1)] /\ vp m "a.b" = Ok []) /\
  (let m := VMap [(s"a[0]", VInt 1)] in lf false false m = [(s"a[0]", VInt 1)] /\ vp m "a[0]" = Ok []) /\
  (let m := VMap [(s"*", VInt 1); (s"b", VInt 2)] in
   In (s"*", VInt 1) (lf false false m) /\ vp m "*" = Ok [VInt 1; VInt 2]) /\
  (let m := VMap [(s"a", VList [VList [VInt 1]])] in
   lf false false m = [(s"a[0][0]", VInt 1)] /\ vp m "a[0][0]" = Ok [VList [VInt 1]]) /\
  (let m := VMap [(s"a", VList [VInt 1; VInt 2])] in
   lf true false m = [(s"a.0", VInt 1); (s"a.1", VInt 2)] /\ vp m "a.0" = Ok []) /\
  (let m := VMap [(s"a", VMap [(s"#text", VStr (s"t")); (s"-n", VStr (s"1"))])] in
   lf false true m = [(s"a", VStr (s"t"))] /\
   vp m "a" = Ok [VMap [(s"#text", VStr (s"t")); (s"-n", VStr (s"1"))]]).
Proof. exact leaf_resolves_conditions_needed. Qed.
Print Assumptions C09_leaf_resolves_conditions_needed.
Local Close Scope string_scope.

(* dot notation: irrelevant for a Map without lists, where the resolution clause then holds for both settings *)
Theorem C09_dotn_irrelevant : forall ap tk m noattr,
  no_lists m = true -> leaf_nodes ap tk true m noattr = leaf_nodes ap tk false m noattr.
Proof. exact dotn_irrelevant. Qed.
Print Assumptions C09_dotn_irrelevant.

Theorem C09_leaf_resolves_dot : forall pf sep ap tk dotn m path v,
  is_map m = true -> wfb m = true -> keys_clean m = true -> no_lists m = true ->
  In (path, v) (leaf_nodes ap tk dotn m false) ->
  values_for_path pf sep m path [] = Ok [v].
Proof. exact leaf_resolves_dot. Qed.
Print Assumptions C09_leaf_resolves_dot.

(* ---- 6. the no-attributes option removes exactly the attribute entries (the leaves one of whose
        keys has the non-empty attribute prefix) and, from the paths, the nodes equal to the text key ---- *)
Theorem C09_noattr_exact : forall ap tk dotn m,
  leaf_nodes ap tk dotn m true =
  map (fun pv => (render tk dotn true (fst pv), snd pv))
      (filter (fun pv => keeps (is_attr ap) (fst pv)) (leaves m)).
Proof. exact noattr_exact. Qed.
Print Assumptions C09_noattr_exact.

Theorem C09_attr_exact : forall ap tk dotn m,
  leaf_nodes ap tk dotn m false = map (fun pv => (render tk dotn false (fst pv), snd pv)) (leaves m).
Proof. exact attr_exact. Qed.
Print Assumptions C09_attr_exact.

Theorem C09_render_noattr : forall tk dotn p,
  render tk dotn true p =
  fold_left add_seg (filter (fun node => negb (str_eqb node tk)) (map (node_of dotn) p)) [] /\
  render tk dotn false p = fold_left add_seg (map (node_of dotn) p) [].
Proof. exact render_noattr. Qed.
Print Assumptions C09_render_noattr.

(* ---- non-vacuity ---- *)
Local Open Scope string_scope.
Definition ex9 : value :=
  VMap [(s"doc", VMap [(s"-id", VStr (s"7"));
                       (s"", VInt 0);
                       (s"items", VList [
                          VMap [(s"#text", VStr (s"t")); (s"-n", VStr (s"1"));
                                (s"sub", VMap [(s"list", VList [VStr (s"a"); VNil])])];
                          VBool true])])].

Example C09_ex_leaves :
  leaf_nodes (s"-") (s"#text") false ex9 false =
    [(s"doc.-id", VStr (s"7")); (s"doc.", VInt 0); (s"doc.items[0].#text", VStr (s"t"));
     (s"doc.items[0].-n", VStr (s"1")); (s"doc.items[0].sub.list[0]", VStr (s"a"));
     (s"doc.items[0].sub.list[1]", VNil); (s"doc.items[1]", VBool true)] /\
  scalars ex9 = [VStr (s"7"); VInt 0; VStr (s"t"); VStr (s"1"); VStr (s"a"); VNil; VBool true] /\
  leaf_nodes (s"-") (s"#text") false ex9 true =
    [(s"doc.", VInt 0); (s"doc.items[0]", VStr (s"t")); (s"doc.items[0].sub.list[0]", VStr (s"a"));
     (s"doc.items[0].sub.list[1]", VNil); (s"doc.items[1]", VBool true)] /\
  leaf_paths (s"-") (s"#text") true ex9 true =
    [s"doc."; s"doc.items.0"; s"doc.items.0.sub.list.0"; s"doc.items.0.sub.list.1"; s"doc.items.1"].
Proof. vm_compute. repeat split. Qed.

(* a Map meeting every hypothesis of C09_leaf_resolves, with two list levels separated by plain keys
   (the shape that failed on the pinned tree), and its leaves resolving one by one *)
Definition ex9r : value :=
  VMap [(s"doc", VMap [(s"-id", VStr (s"7"));
                       (s"items", VList [
                          VMap [(s"#text", VStr (s"t"));
                                (s"sub", VMap [(s"list", VList [VStr (s"a"); VNil])])];
                          VMap [(s"sub", VMap [(s"list", VList [VStr (s"c"); VStr (s"d")])])];
                          VBool true])])].
Example C09_ex_resolves :
  is_map ex9r = true /\ wfb ex9r = true /\ keys_clean ex9r = true /\ no_nested_lists ex9r = true /\
  lists_indexable ex9r = true /\
  In (s"doc.items[1].sub.list[1]", VStr (s"d")) (leaf_nodes (s"-") (s"#text") false ex9r false) /\
  values_for_path (fun _ => None) (s":") ex9r (s"doc.items[1].sub.list[1]") [] = Ok [VStr (s"d")] /\
  forallb (fun pv => match values_for_path (fun _ => None) (s":") ex9r (fst pv) [] with
                     | Ok [v] => value_eqb v (snd pv) | _ => false end)
          (leaf_nodes (s"-") (s"#text") false ex9r false) = true /\
  length (leaf_nodes (s"-") (s"#text") false ex9r false) = 7.
Proof. vm_compute. repeat split. do 5 right. left. reflexivity. Qed.

(* C09_noattr_exact on ex9: which addresses survive *)
Example C09_ex_noattr :
  map (fun pv => keeps (is_attr (s"-")) (fst pv)) (leaves ex9) = [false; true; true; false; true; true; true] /\
  good ex9r /\ no_lists (VMap [(s"a", VMap [(s"b", VInt 1)])]) = true.
Proof. vm_compute. repeat split. Qed.

(* ================================================================== tie to the code (regenerated on every run)
   Gen/Pure_gen.v holds go2v's statement-by-statement translation of func getLeafNodes in /repo's CURRENT leafnode.go
   (recursion on explicit fuel; the out-parameter l threaded as state; attrPrefix, textK and useDotNotation read from the
   package state).  It IS the model walker [get_leaf_nodes] the theorems above are about: for every fuel above the depth of
   the value it appends, in the model's order, exactly the model's (path, value) pairs. *)
From Mxj Require Import Gen.Setters_gen Gen.PureSupport Gen.Pure_gen GenProofs.PureG3.

Theorem C09_leaf_walker_code_is_model : forall mv fuel st path node acc noattr,
  vd mv < fuel ->
  exists ns, fn_getLeafNodes fuel st path node mv acc noattr = Ret (acc ++ ns) /\
             map leaf_pair ns = get_leaf_nodes (g_attrPrefix st) (g_textK st) (g_useDotNotation st) path node mv noattr.
Proof. exact leaf_nodes_code_is_model. Qed.
Print Assumptions C09_leaf_walker_code_is_model.

Example C09_leaf_walker_code_nonvacuous :
  fn_getLeafNodes 6 gstate0 [] []
    (VMap [(s "doc", VMap [(s "-id", VStr (s "7")); (s "#text", VStr (s "t")); (s "l", VList [VStr (s "x"); VMap [(s "y", VNil)]])])]) [] true
  = Ret [mk_LeafNode (s "doc") (VStr (s "t")); mk_LeafNode (s "doc.l[0]") (VStr (s "x")); mk_LeafNode (s "doc.l[1].y") VNil].
Proof. vm_compute. reflexivity. Qed.

(* the EXPORTED entry point: go2v's translation of Map.LeafNodes, calling the translated getLeafNodes (run with enough
   fuel), returns exactly the model's leaf_nodes pairs, in the model's order *)
From Mxj Require Import GenProofs.PureG5.

Theorem C09_leaf_nodes_entry_code_is_model : forall st m (no_attr : list bool),
  exists ns, fn_LeafNodes (run_getLeafNodes st) st m no_attr = Ret ns /\
             map leaf_pair ns = leaf_nodes (g_attrPrefix st) (g_textK st) (g_useDotNotation st) (VMap m)
                                  (match no_attr with [b] => b | _ => false end).
Proof. exact leaf_nodes_entry_code_is_model. Qed.
Print Assumptions C09_leaf_nodes_entry_code_is_model.

(* ---- Map.LeafPaths / Map.LeafValues (leafnode.go), translated from the current sources (make([]T, len(ln)) and the
   counting loop that fills it) and instantiated with the translated LeafNodes: the paths and the values of the model's
   leaf nodes, in the same order (GenProofs/PureG8.v) *)
From Mxj Require Import GenProofs.PureG8.

Theorem C09_leaf_paths_code_is_model : forall st m no_attr,
  exists ps, fn_LeafPaths (run_LeafNodes st) st m no_attr = Ret ps /\
    ps = map fst (leaf_nodes (g_attrPrefix st) (g_textK st) (g_useDotNotation st) (VMap m)
                    (match no_attr with [b] => b | _ => false end)).
Proof. exact leaf_paths_code_is_model. Qed.
Print Assumptions C09_leaf_paths_code_is_model.

Theorem C09_leaf_values_code_is_model : forall st m no_attr,
  exists vs, fn_LeafValues (run_LeafNodes st) st m no_attr = Ret vs /\
    vs = map snd (leaf_nodes (g_attrPrefix st) (g_textK st) (g_useDotNotation st) (VMap m)
                    (match no_attr with [b] => b | _ => false end)).
Proof. exact leaf_values_code_is_model. Qed.
Print Assumptions C09_leaf_values_code_is_model.
