(* C09 - LeafNodes.  Statements only. *)
From Mxj Require Import Model.TreeOps Proofs.C07P Proofs.KVTotal.

(* the path LeafNodes builds for a list member resolves through ValuesForPath without a panic *)
Theorem C09_resolution_total : forall pf sep m path, values_for_path pf sep m path [] <> Panic.
Proof. intros; apply values_for_path_no_panic. Qed.
Print Assumptions C09_resolution_total.
