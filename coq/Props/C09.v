(* C09 - LeafNodes lists every terminal value once, with a path that resolves to it.
   Statements only; proofs in Proofs/C09P.v, vocabulary in Spec/Leaves.v. *)
From Mxj Require Import Model.TreeOps Spec.PathSem Spec.Leaves Proofs.C07P Proofs.KVTotal Proofs.C09P.

(* ---- 1. enumeration: exactly one entry per scalar, arbitrary keys (also the empty key),
        any attribute prefix, text key and list notation ---- *)
Theorem C09_leaves_complete : forall ap tk dotn m,
  map snd (leaf_nodes ap tk dotn m false) = scalars m.
Proof. exact leaf_values_all. Qed.
Print Assumptions C09_leaves_complete.

(* with the no-attributes option: the scalars of the Map without its attribute entries *)
Theorem C09_leaves_complete_noattr : forall ap tk dotn m,
  map snd (leaf_nodes ap tk dotn m true) = scalars (strip_attrs ap m).
Proof. exact leaf_values_noattr. Qed.
Print Assumptions C09_leaves_complete_noattr.

(* ---- 2. the whole result, paths included: LeafNodes is the specification leaf_spec
        (address of every scalar, rendered with "." and "[N]" / ".N"); for noattr = true
        this is the "removes exactly the attribute entries and the text-key segment" clause ---- *)
Theorem C09_leaf_nodes_spec : forall ap tk dotn m noattr,
  leaf_nodes ap tk dotn m noattr = leaf_spec ap tk dotn m noattr.
Proof. exact leaf_nodes_spec. Qed.
Print Assumptions C09_leaf_nodes_spec.

(* ---- 3. LeafPaths / LeafValues are the projections of LeafNodes for the same option ---- *)
Theorem C09_leaf_projections : forall ap tk dotn m noattr,
  combine (leaf_paths ap tk dotn m noattr) (leaf_values ap tk dotn m noattr) = leaf_nodes ap tk dotn m noattr /\
  length (leaf_paths ap tk dotn m noattr) = length (leaf_nodes ap tk dotn m noattr) /\
  length (leaf_values ap tk dotn m noattr) = length (leaf_nodes ap tk dotn m noattr).
Proof. exact leaf_projections. Qed.
Print Assumptions C09_leaf_projections.

Theorem C09_leaf_values_spec : forall ap tk dotn m noattr,
  leaf_values ap tk dotn m noattr = scalars (if noattr then strip_attrs ap m else m).
Proof. exact leaf_values_spec. Qed.
Print Assumptions C09_leaf_values_spec.

Theorem C09_leaf_paths_spec : forall ap tk dotn m noattr,
  leaf_paths ap tk dotn m noattr =
  map (fun pv => render tk dotn noattr (fst pv)) (leaves (if noattr then strip_attrs ap m else m)).
Proof. exact leaf_paths_spec. Qed.
Print Assumptions C09_leaf_paths_spec.

(* ---- 4. string layer of the resolution clause: "name[N]" parses back to (name, N) ---- *)
Theorem C09_parse_seg_indexed : forall name i,
  mem_ascii lbr name = false -> (Z.of_nat i < 2 ^ 31)%Z ->
  parse_seg (idx_seg name i) = Ok {| pk_name := name; pk_arr := true; pk_pos := Z.of_nat i |}.
Proof. exact parse_seg_indexed. Qed.
Print Assumptions C09_parse_seg_indexed.

(* resolving a leaf path never panics *)
Theorem C09_resolution_total : forall pf sep m path, values_for_path pf sep m path [] <> Panic.
Proof. intros; apply values_for_path_no_panic. Qed.
Print Assumptions C09_resolution_total.

(* ---- non-vacuity ---- *)
Local Open Scope string_scope.
Definition ex9 : value :=
  VMap [(s"doc", VMap [(s"-id", VStr (s"7"));
                       (s"", VInt 0);
                       (s"items", VList [
                          VMap [(s"#text", VStr (s"t")); (s"-n", VStr (s"1"));
                                (s"sub", VMap [(s"list", VList [VStr (s"a"); VNil])])];
                          VBool true])])].

Example C09_ex_leaves :
  leaf_nodes (s"-") (s"#text") false ex9 false =
    [(s"doc.-id", VStr (s"7")); (s"doc.", VInt 0); (s"doc.items[0].#text", VStr (s"t"));
     (s"doc.items[0].-n", VStr (s"1")); (s"doc.items[0].sub.list[0]", VStr (s"a"));
     (s"doc.items[0].sub.list[1]", VNil); (s"doc.items[1]", VBool true)] /\
  scalars ex9 = [VStr (s"7"); VInt 0; VStr (s"t"); VStr (s"1"); VStr (s"a"); VNil; VBool true] /\
  leaf_nodes (s"-") (s"#text") false ex9 true =
    [(s"doc.", VInt 0); (s"doc.items[0]", VStr (s"t")); (s"doc.items[0].sub.list[0]", VStr (s"a"));
     (s"doc.items[0].sub.list[1]", VNil); (s"doc.items[1]", VBool true)] /\
  leaf_paths (s"-") (s"#text") true ex9 true =
    [s"doc."; s"doc.items.0"; s"doc.items.0.sub.list.0"; s"doc.items.0.sub.list.1"; s"doc.items.1"].
Proof. vm_compute. repeat split. Qed.
