(* C20 - the legacy x2j, j2x and x2j-wrapper packages agree with the core they wrap.
   Statements only.  Model: Model/X2jWrap.v (re-implemented walkers of x2j-wrapper,
   tied to /repo by the correspondence check; thin wrapper bodies, the place of
   Gen/Wrappers_gen.v).  Specification and the inventory of every exported function:
   Spec/Wrappers.v.  Proofs: Proofs/C20P.v (walkers), Proofs/C20W.v (thin wrappers).
   The four defects of the pinned tree (PathsForKey crumb mutation, MapToJson dropping
   safeEncoding, CastNanInf without effect, k[:1] of an empty key) were refuted here on the
   faithful model, repaired in /repo (5ff47ea, 6251df7, a59bf47, 3b36840); the model follows the
   repaired code and the full statements below replace the refutations. *)
From Coq Require Import Permutation.
From Mxj Require Import Model.X2jWrap Spec.PathSem Spec.KeySearch Spec.Wrappers
  Proofs.C07P Proofs.C08P Proofs.C20P Proofs.C20W.

(* ================= 1. x2j-wrapper.PathsForKey / PathForKeyShortest vs Map.PathsForKey ================= *)
(* every Map, every key: the same crumbs in the same order (a fortiori the same set) *)
Theorem C20_paths_agree : forall m k, xw_paths_for_key m k = paths_for_key m k.
Proof. exact xw_paths_core. Qed.
Print Assumptions C20_paths_agree.

Corollary C20_paths_agree_perm : forall m k, Permutation (xw_paths_for_key m k) (paths_for_key m k).
Proof. intros m k. rewrite (xw_paths_core m k). apply Permutation_refl. Qed.
Print Assumptions C20_paths_agree_perm.

(* the loop of PathForKeyShortest is Spec/KeySearch.v [shortest] ... *)
Theorem C20_shortest_loop : forall m k, xw_path_for_key_shortest m k = shortest (xw_paths_for_key m k).
Proof. exact xw_shortest_spec. Qed.
Print Assumptions C20_shortest_loop.

Theorem C20_shortest_agree : forall m k, xw_path_for_key_shortest m k = shortest (paths_for_key m k).
Proof. exact xw_shortest_core. Qed.
Print Assumptions C20_shortest_agree.

(* ... hence "" when the key does not occur, else a member of Map.PathsForKey with the fewest segments *)
Theorem C20_shortest_valid : forall m k,
  (paths_for_key m k = [] -> xw_path_for_key_shortest m k = []) /\
  (paths_for_key m k <> [] ->
   In (xw_path_for_key_shortest m k) (paths_for_key m k) /\
   forall p, In p (paths_for_key m k) -> path_len (xw_path_for_key_shortest m k) <= path_len p).
Proof.
  intros m k. rewrite xw_shortest_core. split.
  - intros E. rewrite E. reflexivity.
  - intros H. exact (shortest_minimal (paths_for_key m k) H).
Qed.
Print Assumptions C20_shortest_valid.

(* ================= 2. x2j-wrapper.ValuesForKey vs Map.ValuesForKey ================= *)
(* the wrapper returns each stored value, the core the members of a stored list: equal after [final] *)
Theorem C20_values_for_key : forall k m,
  k <> star -> flat_map final (xw_values_for_key m k) = has_key_walk m k [].
Proof. intros k m H. exact (xw_has_key_final k H m). Qed.
Print Assumptions C20_values_for_key.

(* the side condition is needed: "*" is an ordinary key for the wrapper, a wildcard for the core *)
Theorem C20_values_for_key_star_differs :
  exists m, flat_map final (xw_values_for_key m star) = [] /\ has_key_walk m star [] <> [].
Proof. exact xw_has_key_star_differs. Qed.
Print Assumptions C20_values_for_key_star_differs.

(* ================= 3. x2j-wrapper.ValuesFromKeyPath ================= *)
(* the walker, every key list, every Map (empty keys included), both getAttrs values: exactly the values
   the path denotes with attribute entries left out at "*" steps unless requested; it cannot panic or fail
   (the model function is total) *)
Theorem C20_values_from_walker_filtered : forall ga ks m, xw_vfkp ks ga m = eval_filtered ga ks m.
Proof. exact xw_vfkp_filtered. Qed.
Print Assumptions C20_values_from_walker_filtered.

Theorem C20_values_from_filtered : forall m path ga,
  xw_values_from m path ga = eval_filtered ga (split1 dot path) m.
Proof. exact xw_values_from_filtered. Qed.
Print Assumptions C20_values_from_filtered.

(* the former panic (k[:1] of an empty key met at a "*" step): now the entry is returned, as by the core *)
Theorem C20_values_from_empty_key :
  xw_vfkp [star] true (VMap [([], VInt 1)]) = [VInt 1] /\
  xw_vfkp [star] false (VMap [([], VInt 1); (s "-a", VInt 2)]) = [VInt 1] /\
  values_for_path (fun _ => None) (s ":") (VMap [([], VInt 1)]) star [] = Ok [VInt 1].
Proof. exact xw_vfkp_empty_key. Qed.
Print Assumptions C20_values_from_empty_key.

(* the filtered semantics is the core semantics when attributes are requested or no "*" occurs *)
Theorem C20_filtered_getattrs : forall ks v, eval_filtered true ks v = eval ks v.
Proof. exact eval_filtered_true. Qed.
Print Assumptions C20_filtered_getattrs.

Theorem C20_filtered_no_star : forall ga ks v, no_star ks = true -> eval_filtered ga ks v = eval ks v.
Proof. exact eval_filtered_no_star. Qed.
Print Assumptions C20_filtered_no_star.

(* ... and the walker then IS the core walker valuesForKeyPath (Proofs/C07P.v vfkp_eval) *)
Theorem C20_values_from_walker : forall ga ks m,
  ga = true \/ no_star ks = true -> xw_vfkp ks ga m = vfkp ks [] m.
Proof. exact xw_vfkp_core. Qed.
Print Assumptions C20_values_from_walker.

(* from the path string: ValuesFromKeyPath(m, path, getAttrs) = Map(m).ValuesForPath(path) for every Map and
   every path without '[' whose last segment is not empty *)
Theorem C20_values_from_core : forall pf sep m path ga,
  mem_ascii lbr path = false -> no_trailing_dot path = true ->
  ga = true \/ no_star (split1 dot path) = true ->
  Ok (xw_values_from m path ga) = values_for_path pf sep m path [].
Proof. exact xw_values_from_core. Qed.
Print Assumptions C20_values_from_core.

(* both restrictions on getAttrs / the path are needed *)
Theorem C20_filter_observable :
  exists m, eval_filtered false [star] m = [VInt 2] /\ eval [star] m = [VInt 1; VInt 2].
Proof. exact eval_filtered_differs. Qed.
Print Assumptions C20_filter_observable.

Theorem C20_trailing_dot_differs :
  exists m path, no_trailing_dot path = false /\
    xw_values_from m path true = [] /\
    values_for_path (fun _ => None) (s ":") m path [] = Ok [VMap [(s "b", VInt 1)]].
Proof. exact xw_values_from_trailing_dot_differs. Qed.
Print Assumptions C20_trailing_dot_differs.

(* ================= 4. x2j-wrapper.ValuesAtKeyPath ================= *)
Theorem C20_values_at : forall m path ga,
  xw_values_at m path ga = values_at_spec ga (split1 dot path) m.
Proof. exact xw_values_at_spec. Qed.
Print Assumptions C20_values_at.

(* its documented relation to ValuesFromKeyPath: when "x.y.z" has a value, ValuesAtKeyPath(m, "x.y.z")
   is ValuesFromKeyPath(m, "x.y") and one of those values is a map with key z *)
Theorem C20_values_at_relation : forall m pre k ga,
  pre <> [] -> str_eqb k star = false ->
  eval_filtered ga (pre ++ [k]) m <> [] ->
  values_at_spec ga (pre ++ [k]) m = eval_filtered ga pre m /\
  existsb (xw_map_has k) (eval_filtered ga pre m) = true.
Proof.
  intros m pre k ga Hp Ek H. split.
  - exact (xw_values_at_relation m pre k ga Hp Ek H).
  - exact (values_from_nonempty_parent ga pre k m Ek H).
Qed.
Print Assumptions C20_values_at_relation.

(* ================= 5. thin wrappers: body = documented composition, for every codec ================= *)
(* (* Wrappers_gen *) the left-hand sides are the hand transcriptions in Model/X2jWrap.v section Thin;
   they are to be replaced by the regenerated Gen/Wrappers_gen.v *)
Theorem C20_j2x_wrappers : forall pf sep ap tk dotn NewMapJson NewMapJsonReader NewMapJsonReaderRaw MapJson MapXml,
  j2x_agrees pf sep ap tk dotn NewMapJson NewMapJsonReader NewMapJsonReaderRaw MapJson MapXml.
Proof. exact j2x_agrees_holds. Qed.
Print Assumptions C20_j2x_wrappers.

(* j2x.MapToJson (pinned tree: dropped safeEncoding; repaired 6251df7) - the conjunct of the table, on its own *)
Theorem C20_MapToJson : forall (MapJson : value -> bool -> res str) m f,
  j2x_MapToJson MapJson m f = c_MapToJson MapJson m f.
Proof. reflexivity. Qed.
Print Assumptions C20_MapToJson.

Theorem C20_x2j_wrappers : forall pf sep ap tk dotn NewMapXml NewMapXmlReaderRaw MapJson MapXml,
  x2j_agrees pf sep ap tk dotn NewMapXml NewMapXmlReaderRaw MapJson MapXml.
Proof. exact x2j_agrees_holds. Qed.
Print Assumptions C20_x2j_wrappers.

Theorem C20_x2jw_conversions : forall NewMapXml NewMapXmlReader MapJson MapJsonIndent JsonMarshal JsonMarshalIndent,
  x2jw_conv_agrees NewMapXml NewMapXmlReader MapJson MapJsonIndent JsonMarshal JsonMarshalIndent.
Proof. exact x2jw_conv_agrees_holds. Qed.
Print Assumptions C20_x2jw_conversions.

(* the *Tag functions of x2j-wrapper: decode ; the wrapper's own walker = decode ; core walker / path semantics *)
Theorem C20_PathsForTag : forall (NewMapXml : str -> bool -> res value) doc key,
  xw_PathsForTag NewMapXml doc key = c_PathsForTag NewMapXml doc key.
Proof. exact xw_PathsForTag_core. Qed.
Print Assumptions C20_PathsForTag.

Theorem C20_PathForTagShortest : forall (NewMapXml : str -> bool -> res value) doc key,
  xw_PathForTagShortest NewMapXml doc key = c_PathForTagShortest NewMapXml doc key.
Proof. exact xw_PathForTagShortest_core. Qed.
Print Assumptions C20_PathForTagShortest.

Theorem C20_ValuesFromTagPath : forall (NewMapXml : str -> bool -> res value) doc path ga,
  xw_ValuesFromTagPath NewMapXml doc path ga = c_ValuesFromTagPath NewMapXml doc path ga.
Proof. exact xw_ValuesFromTagPath_spec. Qed.
Print Assumptions C20_ValuesFromTagPath.

Theorem C20_ReaderValuesFromTagPath : forall (NewMapXmlReader : str -> bool -> res value * str) rd path ga,
  xw_ReaderValuesFromTagPath NewMapXmlReader rd path ga = c_ReaderValuesFromTagPath NewMapXmlReader rd path ga.
Proof. exact xw_ReaderValuesFromTagPath_spec. Qed.
Print Assumptions C20_ReaderValuesFromTagPath.

Theorem C20_ValuesAtTagPath : forall (NewMapXml : str -> bool -> res value) doc path ga,
  xw_ValuesAtTagPath NewMapXml doc path ga = c_ValuesAtTagPath NewMapXml doc path ga.
Proof. exact xw_ValuesAtTagPath_spec. Qed.
Print Assumptions C20_ValuesAtTagPath.

Theorem C20_ValuesForTag : forall (NewMapXml : str -> bool -> res value) doc tag,
  tag <> star ->
  match xw_ValuesForTag NewMapXml doc tag with
  | Ok vs => Ok (flat_map final vs) | Err e => Err e | Panic => Panic
  end = c_ValuesForTag NewMapXml doc tag.
Proof. exact xw_ValuesForTag_core. Qed.
Print Assumptions C20_ValuesForTag.

(* x2j-wrapper.CastNanInf (pinned tree: a private variable nothing read; repaired a59bf47) is mxj.CastNanInf *)
Theorem C20_CastNanInf : forall b st,
  xw_CastNanInf b st = c_CastNanInf b st /\ decoder_castNanInf (xw_CastNanInf b st) = b.
Proof. intros b st. split; [exact (xw_CastNanInf_core b st)|exact (xw_CastNanInf_sets b st)]. Qed.
Print Assumptions C20_CastNanInf.

(* ================= non-vacuity ================= *)
Local Open Scope string_scope.
(* an XML-shaped document: attributes ('-'), #text, a repeated element as a list *)
Definition ex20 : value :=
  VMap [(s"doc", VMap [(s"-id", VStr (s"7"));
                       (s"books", VMap [(s"book", VList [
                          VMap [(s"-seq", VStr (s"1")); (s"author", VStr (s"A")); (s"title", VStr (s"T1"))];
                          VMap [(s"-seq", VStr (s"2")); (s"author", VStr (s"B")); (s"title", VStr (s"T2"))]])]);
                       (s"shelf", VMap [(s"title", VStr (s"S"))])])].

(* the former counterexample of PathsForKey: the key at two depths on one branch *)
Definition c20_nested : value := VMap [(s"a", VMap [(s"k", VMap [(s"k", VInt 1)])])].

(* 1: "title" occurs at two places; "k" nested below itself: both walkers agree, a.k.k not a.k.k.k *)
Example C20_ex_paths :
  xw_paths_for_key ex20 (s"title") = [s"doc.books.book.title"; s"doc.shelf.title"] /\
  paths_for_key ex20 (s"title") = [s"doc.books.book.title"; s"doc.shelf.title"] /\
  xw_path_for_key_shortest ex20 (s"title") = s"doc.shelf.title" /\
  xw_paths_for_key c20_nested (s"k") = [s"a.k"; s"a.k.k"] /\
  path_existsb [s"a"; s"k"; s"k"] c20_nested = true /\
  xw_path_for_key_shortest c20_nested (s"k") = s"a.k" /\
  xw_path_for_key_shortest c20_nested (s"zz") = [].
Proof. vm_compute. repeat split. Qed.

(* 2: a stored list is one value for the wrapper, its members for the core *)
Example C20_ex_values_for_key :
  s"book" <> star /\
  xw_values_for_key ex20 (s"book") <> has_key_walk ex20 (s"book") [] /\
  length (xw_values_for_key ex20 (s"book")) = 1 /\ length (has_key_walk ex20 (s"book") []) = 2.
Proof. split; [discriminate|]. split; [vm_compute; discriminate|]. vm_compute. split; reflexivity. Qed.

(* 3: wildcard with and without attributes; plain path; every hypothesis of C20_values_from_core met *)
Example C20_ex_values_from :
  mem_ascii lbr (s"doc.books.book.*") = false /\ no_trailing_dot (s"doc.books.book.*") = true /\
  xw_values_from ex20 (s"doc.books.book.*") false = [VStr (s"A"); VStr (s"T1"); VStr (s"B"); VStr (s"T2")] /\
  xw_values_from ex20 (s"doc.books.book.*") true =
    [VStr (s"1"); VStr (s"A"); VStr (s"T1"); VStr (s"2"); VStr (s"B"); VStr (s"T2")] /\
  values_for_path (fun _ => None) (s":") ex20 (s"doc.books.book.*") [] = Ok (xw_values_from ex20 (s"doc.books.book.*") true) /\
  no_star (split1 dot (s"doc.books.book.author")) = true /\
  xw_values_from ex20 (s"doc.books.book.author") false = [VStr (s"A"); VStr (s"B")].
Proof. vm_compute. repeat split. Qed.

(* 4: ValuesAtKeyPath returns the two book maps for "doc.books.book.author", nothing for an absent last key *)
Example C20_ex_values_at :
  (exists b1 b2, xw_values_at ex20 (s"doc.books.book.author") false = [b1; b2] /\
                 xw_vfkp [s"doc"; s"books"; s"book"] false ex20 = [b1; b2]) /\
  xw_values_at ex20 (s"doc.books.book.zz") false = [] /\
  [s"doc"; s"books"; s"book"] <> [] /\ str_eqb (s"author") star = false /\
  eval_filtered false ([s"doc"; s"books"; s"book"] ++ [s"author"]) ex20 <> [].
Proof.
  split; [eexists; eexists; split; vm_compute; reflexivity|].
  split; [vm_compute; reflexivity|]. split; [discriminate|]. split; [reflexivity|]. vm_compute. discriminate.
Qed.

(* 5: with a codec that tells the two encodings apart, MapToJson(m, true) is the safe encoding *)
Example C20_ex_MapToJson :
  let MapJson := fun (_ : value) (safe : bool) => Ok (if safe then s"escaped" else s"raw") in
  MapJson ex20 true <> MapJson ex20 false /\ j2x_MapToJson MapJson ex20 true = Ok (s"escaped").
Proof. cbn. split; [discriminate|reflexivity]. Qed.

(* ---- tie to the CURRENT sources of x2j-wrapper's own tree walkers (x2j.go: hasKey, ValuesForKey; x2j_findPath.go:
   hasKeyPath, PathsForKey, PathForKeyShortest; x2j_valuesFrom.go: valuesFromKeyPath, ValuesFromKeyPath; x2j_valuesAt.go:
   ValuesAtKeyPath): go2v re-translates the eight functions on every run (Gen/PureX2j_gen.v, prefix xfn_) and
   GenProofs/PureX1.v (helper H8) proves them - with the translated callees plugged in - equal to the models of
   Model/X2jWrap.v the agreement theorems above are stated with (PathsForKey: a duplicate-free permutation, Go ranges
   over the basket map in hash order). *)
From Mxj Require Import Gen.Setters_gen Gen.PureSupport Gen.PureX2j_gen GenProofs.PureX1.

Theorem C20_xw_values_for_key_code_is_model : forall st m key,
  xfn_ValuesForKey (run_xhasKey st) st m key = Ret (xw_values_for_key (VMap m) key).
Proof. exact xw_values_for_key_code_is_model. Qed.
Print Assumptions C20_xw_values_for_key_code_is_model.

Theorem C20_xw_values_from_code_is_model : forall st m path getAttrs,
  xfn_ValuesFromKeyPath (run_xvaluesFromKeyPath st) st m path getAttrs = Ret (xw_values_from (VMap m) path (attrs_flag getAttrs)).
Proof. exact xw_values_from_code_is_model. Qed.
Print Assumptions C20_xw_values_from_code_is_model.

Theorem C20_xw_values_at_code_is_model : forall st m path getAttrs,
  xfn_ValuesAtKeyPath (run_xvaluesFromKeyPath st) st m path getAttrs = Ret (xw_values_at (VMap m) path (attrs_flag getAttrs)).
Proof. exact xw_values_at_code_is_model. Qed.
Print Assumptions C20_xw_values_at_code_is_model.

Theorem C20_xw_paths_for_key_code_is_model : forall st m key,
  exists ps, xfn_PathsForKey (run_xhasKeyPath st) st m key = Ret ps /\ NoDup ps /\ Permutation ps (xw_paths_for_key (VMap m) key).
Proof. exact xw_paths_for_key_code_is_model. Qed.
Print Assumptions C20_xw_paths_for_key_code_is_model.

Theorem C20_xw_path_for_key_shortest_code_is_model : forall st m key,
  exists ps, xfn_PathsForKey (run_xhasKeyPath st) st m key = Ret ps /\ Permutation ps (xw_paths_for_key (VMap m) key) /\
             xfn_PathForKeyShortest (run_xPathsForKey st) st m key = Ret (xw_shortest_of ps).
Proof. exact xw_path_for_key_shortest_code_is_model. Qed.
Print Assumptions C20_xw_path_for_key_shortest_code_is_model.
