(* C10 - UpdateValuesForPath changes only the addressed values and reports how many.
   Statements only; proofs in Proofs/C10P.v and Proofs/C10Q.v; the specification
   (which positions a call addresses: [addressed], and what writing there means: [writes])
   is Spec/UpdateSpec.v.  Positions ([pos], [get_at]) are those of Model/TreeOps.v. *)
From Mxj Require Import Model.TreeOps Spec.PathSem Spec.UpdateSpec Proofs.C07P Proofs.KVTotal Proofs.C10P Proofs.C10Q.

Theorem C10_update_no_panic : forall pf sep m nv path sk, update_values_for_path pf sep m nv path sk <> Panic.
Proof. exact update_no_panic. Qed.
Print Assumptions C10_update_no_panic.

(* ---- 1. exactness: for every Map with distinct keys per map (every Go map), every path
        (plain keys and wildcards), all sub-keys, every new value: the result is the Map with the
        new value written at exactly the addressed positions, and the count is their number ---- *)
Theorem C10_update_exact : forall pf sep m nvl path sks sk key nv,
  get_sub_key_map pf sep sks = Ok sk -> parse_newval pf sep nvl = Ok (key, nv) -> wfb m = true ->
  update_values_for_path pf sep m nvl path sks =
  Ok (writes (addressed key sk (split1 dot path) m) nv m, length (addressed key sk (split1 dot path) m)).
Proof. exact update_exact. Qed.
Print Assumptions C10_update_exact.

(* the walker, on key lists *)
Theorem C10_update_kp_exact : forall key nv sk ks m,
  ks <> [] -> wfb m = true ->
  update_kp key nv ks sk m = (writes (addressed key sk ks m) nv m, length (addressed key sk ks m)).
Proof. exact update_kp_exact. Qed.
Print Assumptions C10_update_kp_exact.

(* the last path key c applied to the node the rest of the path reached (map, "*", list) *)
Theorem C10_update_value_exact : forall key nv sk m c,
  wfb m = true ->
  update_value key nv m c sk = (writes (node_targets key sk c m) nv m, length (node_targets key sk c m)).
Proof. exact update_value_exact. Qed.
Print Assumptions C10_update_value_exact.

(* ... and to one map for a concrete last key (no side condition) *)
Theorem C10_update_value_key_exact : forall key nv sk mm c,
  VMap (fst (update_value_key key nv mm c sk)) = writes (entry_targets key sk mm c) nv (VMap mm) /\
  snd (update_value_key key nv mm c sk) = length (entry_targets key sk mm c).
Proof. exact uvk_exact. Qed.
Print Assumptions C10_update_value_key_exact.

(* malformed sub-keys or new value: an error and no result Map *)
Theorem C10_update_bad_subkeys : forall pf sep m nvl path sks e,
  get_sub_key_map pf sep sks = Err e -> update_values_for_path pf sep m nvl path sks = Err e.
Proof. exact update_bad_subkeys. Qed.
Print Assumptions C10_update_bad_subkeys.

Theorem C10_update_bad_newval : forall pf sep m nvl path sks sk e,
  get_sub_key_map pf sep sks = Ok sk -> parse_newval pf sep nvl = Err e ->
  update_values_for_path pf sep m nvl path sks = Err e.
Proof. exact update_bad_newval. Qed.
Print Assumptions C10_update_bad_newval.

(* ---- 2. only values stored under the key of newVal: every addressed position ends in that key,
        or is a member of the list stored under it ---- *)
Theorem C10_addressed_under_key : forall key sk ks m p,
  In p (addressed key sk ks m) -> under_key key p.
Proof. exact addressed_under. Qed.
Print Assumptions C10_addressed_under_key.

(* the addressed positions are pairwise incomparable - none equal to, above or below another -
   so the count is the number of distinct places written and the order of the writes is immaterial *)
Theorem C10_addressed_NoDup : forall key sk ks m, wfb m = true -> NoDup (addressed key sk ks m).
Proof. exact addressed_NoDup. Qed.
Print Assumptions C10_addressed_NoDup.

Theorem C10_addressed_incomparable : forall key sk ks m p q,
  wfb m = true -> In p (addressed key sk ks m) -> In q (addressed key sk ks m) -> p <> q ->
  comparable p q = false.
Proof. exact addressed_incomparable. Qed.
Print Assumptions C10_addressed_incomparable.

(* ... and after the call every addressed position holds the new value *)
Theorem C10_update_lands : forall pf sep m nvl path sks sk key nv m' n p,
  get_sub_key_map pf sep sks = Ok sk -> parse_newval pf sep nvl = Ok (key, nv) -> wfb m = true ->
  update_values_for_path pf sep m nvl path sks = Ok (m', n) ->
  In p (addressed key sk (split1 dot path) m) -> get_at p m' = Some nv.
Proof. exact update_lands. Qed.
Print Assumptions C10_update_lands.

(* ---- 3. frame: every position that is neither above nor below an addressed position holds
        exactly what it held before (absent stays absent) ---- *)
Theorem C10_update_frame : forall pf sep m nvl path sks sk key nv m' n q,
  get_sub_key_map pf sep sks = Ok sk -> parse_newval pf sep nvl = Ok (key, nv) -> wfb m = true ->
  update_values_for_path pf sep m nvl path sks = Ok (m', n) ->
  (forall p, In p (addressed key sk (split1 dot path) m) -> comparable p q = false) ->
  get_at q m' = get_at q m.
Proof. exact update_frame. Qed.
Print Assumptions C10_update_frame.

(* the two lemmas behind it, for any value tree *)
Theorem C10_write_at_frame : forall nv p q m,
  comparable p q = false -> get_at q (write_at p nv m) = get_at q m.
Proof. exact write_at_frame. Qed.
Print Assumptions C10_write_at_frame.

Theorem C10_writes_frame : forall nv q ps m,
  (forall p, In p ps -> comparable p q = false) -> get_at q (writes ps nv m) = get_at q m.
Proof. exact writes_frame. Qed.
Print Assumptions C10_writes_frame.

(* ---- 4. a count of zero leaves the Map untouched: every Map (no side condition), path, sub-keys, new value ---- *)
Theorem C10_update_zero_untouched : forall pf sep m nv path subkeys m',
  update_values_for_path pf sep m nv path subkeys = Ok (m', 0) -> m' = m.
Proof. exact update_zero_untouched. Qed.
Print Assumptions C10_update_zero_untouched.

Theorem C10_update_kp_zero : forall key nv sk ks m m',
  update_kp key nv ks sk m = (m', 0) -> m' = m.
Proof. exact update_kp_zero. Qed.
Print Assumptions C10_update_kp_zero.

(* ---- 5. update, then query: the path ends in the key of newVal (not "*", not empty), no sub-keys,
        the new value is not a list: ValuesForPath(path) on the result yields exactly count copies of it.
        Every Map (no side condition), every plain/wildcard path ---- *)
Theorem C10_update_then_query : forall pf sep m nvl path key nv m' n,
  parse_newval pf sep nvl = Ok (key, nv) ->
  str_eqb key star = false -> key <> [] -> is_list nv = false ->
  mem_ascii lbr path = false -> last (split1 dot path) [] = key ->
  update_values_for_path pf sep m nvl path [] = Ok (m', n) ->
  values_for_path pf sep m' path [] = Ok (repeat nv n).
Proof. exact update_then_query. Qed.
Print Assumptions C10_update_then_query.

(* on key lists *)
Theorem C10_update_kp_then_eval : forall key nv,
  str_eqb key star = false -> is_list nv = false ->
  forall ks, ks <> [] -> last ks [] = key ->
  forall m, eval ks (fst (update_kp key nv ks [] m)) = repeat nv (snd (update_kp key nv ks [] m)).
Proof. exact update_kp_then_eval_fst. Qed.
Print Assumptions C10_update_kp_then_eval.

(* the side conditions are needed: empty key, list-valued new value *)
Theorem C10_update_then_query_conditions_needed :
  (exists m m', update_values_for_path nopf10 (s":") m (NVMap [(s"", VInt 2)]) (s"a.") [] = Ok (m', 1) /\
                vpath m' "a." = Ok [VMap [(s"", VInt 2)]]) /\
  (exists m m', update_values_for_path nopf10 (s":") m (NVMap [(s"b", VList [VInt 7; VInt 8])]) (s"a.b") [] = Ok (m', 1) /\
                vpath m' "a.b" = Ok [VInt 7; VInt 8]).
Proof. exact update_then_query_conditions_needed. Qed.
Print Assumptions C10_update_then_query_conditions_needed.

(* ---- 6. the new value: a single-entry map, or "key:value[:type]" ---- *)
Theorem C10_newval_map : forall pf sep k v, parse_newval pf sep (NVMap [(k, v)]) = Ok (k, v).
Proof. exact newval_map. Qed.
Print Assumptions C10_newval_map.

Theorem C10_newval_map_len : forall pf sep m, length m <> 1 -> parse_newval pf sep (NVMap m) = Err EOther.
Proof. exact newval_map_len. Qed.
Print Assumptions C10_newval_map_len.

Theorem C10_newval_str2 : forall pf sep x k v,
  split sep x = [k; v] -> parse_newval pf sep (NVStr x) = Ok (k, VStr v).
Proof. exact newval_str2. Qed.
Print Assumptions C10_newval_str2.

Theorem C10_newval_str3 : forall pf sep x k v t, split sep x = [k; v; t] ->
  parse_newval pf sep (NVStr x) =
  if existsb (str_eqb t) [s "bool"; s "boolean"] then
    match parse_bool v with Some b => Ok (k, VBool b) | None => Err EOther end
  else if existsb (str_eqb t) [s "num"; s "numeric"; s "float"; s "int"] then
    match pf v with Some f => Ok (k, VFlt f) | None => Err EOther end
  else Err EOther.
Proof. exact newval_str3. Qed.
Print Assumptions C10_newval_str3.

Theorem C10_newval_str_parts : forall pf sep x,
  length (split sep x) < 2 \/ 3 < length (split sep x) -> parse_newval pf sep (NVStr x) = Err EOther.
Proof. exact newval_str_parts. Qed.
Print Assumptions C10_newval_str_parts.

Theorem C10_newval_other : forall pf sep, parse_newval pf sep NVOther = Err EOther.
Proof. exact newval_other. Qed.
Print Assumptions C10_newval_other.

(* ---- 7. recorded findings: [addressed] describes what the code does; in two shapes that is not
        what the property's text says (KNOWN_FINDINGS: create-on-absent, list-node-last-key-ignored) ---- *)
(* the path ends in k, the reached map holds no k: the entry is created and counted *)
Theorem C10_create_on_absent_refuted :
  exists m m', vpath m "a.k" = Ok [] /\ upd m "k:new" "a.k" = Ok (m', 1) /\ m' <> m /\
               vpath m' "a.k" = Ok [VStr (s"new")].
Proof. exact create_on_absent_refuted. Qed.
Print Assumptions C10_create_on_absent_refuted.

(* the node before the last key is a list, the last key z is not k: z is ignored, k is rewritten in the members *)
Theorem C10_list_node_refuted :
  exists m m', vpath m "doc.list.z" = Ok [] /\ upd m "k:new" "doc.list.z" = Ok (m', 2) /\
               vpath m' "doc.list.k" = Ok [VStr (s"new"); VStr (s"new")].
Proof. exact list_node_last_key_ignored_refuted. Qed.
Print Assumptions C10_list_node_refuted.

(* ... and the k entry of the maps the path does yield (doc.list[*].z) is not replaced *)
Theorem C10_list_node_misses_refuted :
  exists m, vpath m "doc.list.z" = Ok [VMap [(s"k", VInt 1)]] /\ upd m "k:new" "doc.list.z" = Ok (m, 0).
Proof. exact list_node_misses_refuted. Qed.
Print Assumptions C10_list_node_misses_refuted.

(* the same list-node shape with the last key equal to k (seen by the harness oracle as "update-differs"):
   a map node gets the member-wise replacement inside its list-valued k entry, a list node does not *)
Theorem C10_list_node_memberwise_refuted :
  let inner := VList [VMap [(s"list", VStr (s"true"))]; VMap [(s"list", VStr (s"v:w"))]] in
  let inner' := VList [VStr (s"new"); VMap [(s"list", VStr (s"v:w"))]] in
  let upd1 m := update_values_for_path nopf10 (s":") m (NVStr (s"b:new")) (s"k.b") [s"list:true"] in
  upd1 (VMap [(s"k", VMap [(s"b", inner)])]) = Ok (VMap [(s"k", VMap [(s"b", inner')])], 1) /\
  upd1 (VMap [(s"k", VList [VMap [(s"b", inner)]])]) = Ok (VMap [(s"k", VList [VMap [(s"b", inner)]])], 0).
Proof. exact list_node_memberwise_refuted. Qed.
Print Assumptions C10_list_node_memberwise_refuted.

(* ---- non-vacuity ---- *)
Local Open Scope string_scope.
Definition nopf : str -> option flt := fun _ => None.
Definition bk10 (a t : string) : value := VMap [(s"author", VStr (s a)); (s"title", VStr (s t))].
Definition ex10 : value :=
  VMap [(s"doc", VMap [(s"books", VList [bk10 "A" "T1"; bk10 "B" "T2"]);
                       (s"shelf", VMap [(s"books", bk10 "C" "T3"); (s"title", VStr (s"S"))]);
                       (s"n", VInt 1)])].

(* exactness and frame: one of three titles below doc.*.books is addressed and replaced *)
Example C10_ex_exact :
  wfb ex10 = true /\
  get_sub_key_map nopf (s":") [s"author:B"] = Ok [(s"author", VStr (s"B"))] /\
  parse_newval nopf (s":") (NVStr (s"title:X")) = Ok (s"title", VStr (s"X")) /\
  addressed (s"title") [(s"author", VStr (s"B"))] (split1 dot (s"doc.*.books")) ex10 =
    [[SK (s"doc"); SK (s"books"); SI 1; SK (s"title")]] /\
  update_values_for_path nopf (s":") ex10 (NVStr (s"title:X")) (s"doc.*.books") [s"author:B"] =
    Ok (VMap [(s"doc", VMap [(s"books", VList [bk10 "A" "T1"; bk10 "B" "X"]);
                             (s"shelf", VMap [(s"books", bk10 "C" "T3"); (s"title", VStr (s"S"))]);
                             (s"n", VInt 1)])], 1) /\
  comparable [SK (s"doc"); SK (s"books"); SI 1; SK (s"title")] [SK (s"doc"); SK (s"books"); SI 1; SK (s"author")] = false /\
  comparable [SK (s"doc"); SK (s"books"); SI 1; SK (s"title")] [SK (s"doc"); SK (s"shelf")] = false /\
  update_values_for_path nopf (s":") ex10 (NVStr (s"title:X")) (s"doc.books") [s"author:Z"] = Ok (ex10, 0).
Proof. vm_compute. repeat split. Qed.

(* update then query, with a wildcard: the path ends in the key of newVal *)
Example C10_ex_query :
  parse_newval nopf (s":") (NVStr (s"title:X")) = Ok (s"title", VStr (s"X")) /\
  str_eqb (s"title") star = false /\ mem_ascii lbr (s"doc.*.title") = false /\
  last (split1 dot (s"doc.*.title")) [] = s"title" /\
  (exists m', update_values_for_path nopf (s":") ex10 (NVStr (s"title:X")) (s"doc.*.title") [] = Ok (m', 3) /\
              values_for_path nopf (s":") m' (s"doc.*.title") [] = Ok [VStr (s"X"); VStr (s"X"); VStr (s"X")]) /\
  parse_newval nopf (s":") (NVStr (s"n:true:bool")) = Ok (s"n", VBool true) /\
  under_key (s"title") [SK (s"doc"); SK (s"books"); SI 1; SK (s"title")].
Proof.
  split; [vm_compute; reflexivity|]. split; [reflexivity|]. split; [reflexivity|].
  split; [vm_compute; reflexivity|]. split.
  - eexists. split; vm_compute; reflexivity.
  - split; [vm_compute; reflexivity|]. left. exists [SK (s"doc"); SK (s"books"); SI 1]. reflexivity.
Qed.

(* landing and frame, read off with get_at; a wildcard last key addresses several pairwise incomparable positions *)
Example C10_ex_lands :
  (exists m', update_values_for_path nopf (s":") ex10 (NVStr (s"title:X")) (s"doc.*.books") [s"author:B"] = Ok (m', 1) /\
     get_at [SK (s"doc"); SK (s"books"); SI 1; SK (s"title")] m' = Some (VStr (s"X")) /\
     get_at [SK (s"doc"); SK (s"books"); SI 1; SK (s"author")] m' = Some (VStr (s"B")) /\
     get_at [SK (s"doc"); SK (s"shelf")] m' = get_at [SK (s"doc"); SK (s"shelf")] ex10) /\
  addressed (s"title") [] (split1 dot (s"doc.*")) ex10 =
    [[SK (s"doc"); SK (s"books"); SI 0; SK (s"title")]; [SK (s"doc"); SK (s"books"); SI 1; SK (s"title")];
     [SK (s"doc"); SK (s"shelf"); SK (s"title")]].
Proof. split; [eexists; split; [vm_compute; reflexivity|]|]; vm_compute; repeat split. Qed.

(* ---- tie to the CURRENT sources of the functions UpdateValuesForPath decides its sub-key conditions with
   (getSubKeyMap, hasSubKeys of keyvalues.go): go2v re-translates them on every run (Gen/Pure_gen.v) and
   GenProofs/PureG2.v proves the translations equal to the model functions the theorems above are stated with *)
From Mxj Require Import Gen.Setters_gen Gen.PureSupport Gen.Pure_gen Model.KeyValues GenProofs.PureG2.

Theorem C10_get_sub_key_map_code_is_model : forall pf st kv, g_fieldSep st <> [] ->
  fn_getSubKeyMap pf st kv =
    match get_sub_key_map pf (g_fieldSep st) kv with Ok m => Ret (Ok m) | Err e => Ret (Err e) | Panic => Crash end.
Proof. exact get_sub_key_map_code_is_model. Qed.
Print Assumptions C10_get_sub_key_map_code_is_model.

Theorem C10_has_sub_keys_code_is_model : forall st v subkeys,
  fn_hasSubKeys st v subkeys = Ret (has_sub_keys v subkeys).
Proof. exact has_sub_keys_code_is_model. Qed.
Print Assumptions C10_has_sub_keys_code_is_model.

(* ---- tie to the CURRENT sources of the updaters themselves (updatevalues.go: Map.UpdateValuesForPath,
   updateValuesForKeyPath, updateValue, updateValueForKey): go2v re-translates them on every run in WRITE-BACK mode (the Go
   code updates the tree in place; the translation returns the new value of every parameter whose tree may change, writes a
   changed sub-value back to where it was taken from, and rebuilds a collection whose members a loop updates - faithful for
   trees, i.e. Maps in which no map or slice is reachable along two paths); GenProofs/PureG21.v (helper H11) proves the
   translations - each with the translated callees plugged in - equal to the functional model [update_kp] /
   [update_values_for_path] the theorems above are stated with. *)
From Mxj Require Import GenProofs.PureG5 GenProofs.PureG21.

Theorem C10_update_kp_code_is_model : forall keys fuel st key value m sk cnt, keys <> [] -> length keys <= fuel ->
  fn_updateValuesForKeyPath (run_updateValue st) fuel st key value m keys sk cnt = ures cnt (update_kp key value keys sk m).
Proof. exact update_kp_code_is_model. Qed.
Print Assumptions C10_update_kp_code_is_model.

Theorem C10_update_values_for_path_code_is_model : forall pf st mv newVal path subkeys, g_fieldSep st <> [] ->
  fn_UpdateValuesForPath pf (fun m => m) (run_getSubKeyMap pf st) (run_updateValuesForKeyPath st) st mv newVal path subkeys
  = uvp_result mv (update_values_for_path pf (g_fieldSep st) (VMap mv) (newval_of newVal) path subkeys).
Proof. exact update_values_for_path_code_is_model. Qed.
Print Assumptions C10_update_values_for_path_code_is_model.

Theorem C10_update_values_for_path_code_no_panic : forall pf st mv newVal path subkeys, g_fieldSep st <> [] ->
  fn_UpdateValuesForPath pf (fun m => m) (run_getSubKeyMap pf st) (run_updateValuesForKeyPath st) st mv newVal path subkeys <> Crash.
Proof. exact update_values_for_path_code_no_panic. Qed.
Print Assumptions C10_update_values_for_path_code_no_panic.
