(* C10 - UpdateValuesForPath.  Statements only. *)
From Mxj Require Import Model.TreeOps Proofs.KVTotal.

Theorem C10_update_no_panic : forall pf sep m nv path sk, update_values_for_path pf sep m nv path sk <> Panic.
Proof. exact update_no_panic. Qed.
Print Assumptions C10_update_no_panic.
