(* C10 - UpdateValuesForPath changes only the addressed values and reports how many.
   Statements only; proofs in Proofs/C10P.v, specification in Spec/UpdateSpec.v. *)
From Mxj Require Import Model.TreeOps Spec.PathSem Spec.UpdateSpec Proofs.KVTotal Proofs.C10P.

Theorem C10_update_no_panic : forall pf sep m nv path sk, update_values_for_path pf sep m nv path sk <> Panic.
Proof. exact update_no_panic. Qed.
Print Assumptions C10_update_no_panic.

(* ---- a count of zero leaves the Map untouched: every Map, path, sub-keys, new value ---- *)
Theorem C10_update_zero_untouched : forall pf sep m nv path subkeys m',
  update_values_for_path pf sep m nv path subkeys = Ok (m', 0) -> m' = m.
Proof. exact update_zero_untouched. Qed.
Print Assumptions C10_update_zero_untouched.

(* the walker, on key lists *)
Theorem C10_update_kp_zero : forall key nv sk ks m m',
  update_kp key nv ks sk m = (m', 0) -> m' = m.
Proof. exact update_kp_zero. Qed.
Print Assumptions C10_update_kp_zero.

(* ---- the last path key c applied to a map: exactly the entry targets are written, one count each ---- *)
Theorem C10_update_value_key_exact : forall key nv sk mm c,
  VMap (fst (update_value_key key nv mm c sk)) = writes (entry_targets key sk mm c) nv (VMap mm) /\
  snd (update_value_key key nv mm c sk) = length (entry_targets key sk mm c).
Proof. exact uvk_exact. Qed.
Print Assumptions C10_update_value_key_exact.

(* ---- non-vacuity ---- *)
Local Open Scope string_scope.
Definition nopf : str -> option flt := fun _ => None.
Definition ex10 : value :=
  VMap [(s"doc", VMap [(s"books", VList [
           VMap [(s"author", VStr (s"A")); (s"title", VStr (s"T1"))];
           VMap [(s"author", VStr (s"B")); (s"title", VStr (s"T2"))]]);
         (s"n", VInt 1)])].

Example C10_ex_update :
  update_values_for_path nopf (s":") ex10 (NVStr (s"title:X")) (s"doc.books") [s"author:B"] =
    Ok (VMap [(s"doc", VMap [(s"books", VList [
           VMap [(s"author", VStr (s"A")); (s"title", VStr (s"T1"))];
           VMap [(s"author", VStr (s"B")); (s"title", VStr (s"X"))]]);
         (s"n", VInt 1)])], 1) /\
  update_values_for_path nopf (s":") ex10 (NVStr (s"title:X")) (s"doc.books") [s"author:C"] = Ok (ex10, 0).
Proof. vm_compute. repeat split. Qed.
