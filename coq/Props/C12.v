(* C12 - NewMap.  Statements only. *)
From Mxj Require Import Model.TreeOps Proofs.KVTotal.

Theorem C12_new_map_no_panic : forall pf sep mv pairs, snd (new_map pf sep mv pairs) <> Panic.
Proof. exact new_map_no_panic. Qed.
Print Assumptions C12_new_map_no_panic.
