(* C12 - NewMap builds exactly the requested projection and leaves the source unchanged.
   Statements only; proofs in Proofs/C12P.v, C12Q.v (pairs, content) and Proofs/C12Own.v,
   C12OwnQ.v (ownership); vocabulary in Spec/NewMapSpec.v, NewMapBuild.v, Ownership.v, NewMapOwn.v.

   [new_map pf sep mv pairs] (Model/TreeOps.v) is the function the correspondence check runs
   against /repo on every case; it returns the Map built (so far) and the error class.

   Reading of a key pair (Spec/NewMapSpec.v): [classify v] = PSkip (empty argument), PBad
   (rejected) or PGood old new; [pair_action] = what the pair asks for: nothing, an error, or
   one insertion (path_keys new, pack (ValuesForPath old)); [items_of] = the insertions of a
   pair list in order; [pack] = the single value, or a list when several.
   The denoted Map (Spec/NewMapBuild.v): [put_path] = plain nested insertion, [build] = all
   items put one after the other; [new_paths] = the new paths of the accepted pairs;
   [prefix_free] = no path equals or extends another.

   Receiver never modified.  Gallina values are immutable, so on [value] this clause is
   invisible.  It is stated on the ownership model: Spec/Ownership.v re-states addNewVal and
   Spec/NewMapOwn.v the loop of NewMap on trees whose nodes carry their owner (TSrc =
   receiver-owned, shared by reference); every Go write is logged with the owner of the written
   container.  C12_tagged_is_model ties that model to [new_map] (same Map, same error class),
   C12_receiver_never_written says the log never contains a write into a receiver-owned
   container.  Independently the harness deep-compares the receiver before and after every call. *)
From Mxj Require Import Model.TreeOps Spec.NewMapSpec Spec.NewMapBuild Spec.Ownership Spec.NewMapOwn
  Proofs.KVTotal Proofs.C12P Proofs.C12Q Proofs.C12Own Proofs.C12OwnQ.

(* ------------------------------------------------------------------ *)
(* 0. no panic; the outcome is success or an error                    *)
(* ------------------------------------------------------------------ *)
Theorem C12_new_map_no_panic : forall pf sep mv pairs, snd (new_map pf sep mv pairs) <> Panic.
Proof. exact new_map_no_panic. Qed.
Print Assumptions C12_new_map_no_panic.

Theorem C12_new_map_ok_or_error : forall pf sep mv pairs,
  snd (new_map pf sep mv pairs) = Ok tt \/ exists e, snd (new_map pf sep mv pairs) = Err e.
Proof. exact new_map_ok_or_error. Qed.
Print Assumptions C12_new_map_ok_or_error.

(* ------------------------------------------------------------------ *)
(* 1. one key pair: the code is the declarative reading               *)
(* ------------------------------------------------------------------ *)
(* the body of the loop = read the pair, then (at most) one addNewVal *)
Theorem C12_pair_spec : forall pf sep mv n v,
  new_map_pair pf sep mv n v =
  match pair_action pf sep mv v with
  | Ok None => Ok n
  | Ok (Some (p, x)) => Ok (add_new_val p x n)
  | Err e => Err e
  | Panic => Panic
  end.
Proof. exact new_map_pair_spec. Qed.
Print Assumptions C12_pair_spec.

(* classification on the explicit forms of an argument: "old:new", "key", more than one ':' *)
Theorem C12_classify_pair : forall o nw,
  mem_ascii colon o = false -> mem_ascii colon nw = false ->
  classify (o ++ colon :: nw) = good_class o nw.
Proof. exact classify_pair. Qed.
Print Assumptions C12_classify_pair.

Theorem C12_classify_single : forall k,
  k <> [] -> mem_ascii colon k = false -> classify k = good_class k k.
Proof. exact classify_single. Qed.
Print Assumptions C12_classify_single.

Theorem C12_classify_too_many : forall v, 2 <= count_char colon v -> classify v = PBad.
Proof. exact classify_too_many. Qed.
Print Assumptions C12_classify_too_many.

(* these forms are all there is: a non-empty argument with at most one ':' is "key" or "old:new" *)
Theorem C12_pair_forms : forall v,
  v <> [] -> count_char colon v <= 1 ->
  (mem_ascii colon v = false) \/
  (exists o nw, v = o ++ colon :: nw /\ mem_ascii colon o = false /\ mem_ascii colon nw = false).
Proof. exact pair_forms. Qed.
Print Assumptions C12_pair_forms.

(* what an accepted pair looks like: both parts non-empty, new part without '*' and '[' *)
Theorem C12_classify_good : forall v o nw,
  classify v = PGood o nw ->
  o <> [] /\ nw <> [] /\ mem_ascii "*"%char nw = false /\ mem_ascii lbr nw = false /\
  o = pair_old v /\ nw = pair_new v /\ count_char colon v <= 1.
Proof. exact classify_good. Qed.
Print Assumptions C12_classify_good.

(* ------------------------------------------------------------------ *)
(* 2. malformed pairs are rejected with an error                      *)
(* ------------------------------------------------------------------ *)
(* one malformed pair anywhere in the list makes NewMap return an error *)
Theorem C12_rejects_malformed : forall pf sep mv pairs,
  Exists (fun v => classify v = PBad) pairs -> exists e, snd (new_map pf sep mv pairs) = Err e.
Proof. exact new_map_rejects. Qed.
Print Assumptions C12_rejects_malformed.

(* the malformed shapes, on explicit strings: "a:b:c", "old:ne*w" / "old:n[0]", "k*", ":new" / "old:" *)
Theorem C12_pair_too_many_colons : forall pf sep mv n v,
  2 <= count_char colon v -> new_map_pair pf sep mv n v = Err EOther.
Proof. exact pair_too_many_colons. Qed.
Print Assumptions C12_pair_too_many_colons.

Theorem C12_pair_new_wild : forall pf sep mv n o nw,
  mem_ascii colon o = false -> mem_ascii colon nw = false ->
  mem_ascii "*"%char nw = true \/ mem_ascii lbr nw = true ->
  new_map_pair pf sep mv n (o ++ colon :: nw) = Err EOther.
Proof. exact pair_new_wild. Qed.
Print Assumptions C12_pair_new_wild.

Theorem C12_pair_single_wild : forall pf sep mv n k,
  k <> [] -> mem_ascii colon k = false ->
  mem_ascii "*"%char k = true \/ mem_ascii lbr k = true ->
  new_map_pair pf sep mv n k = Err EOther.
Proof. exact pair_single_wild. Qed.
Print Assumptions C12_pair_single_wild.

Theorem C12_pair_empty_part : forall pf sep mv n o nw,
  mem_ascii colon o = false -> mem_ascii colon nw = false ->
  o = [] \/ nw = [] ->
  new_map_pair pf sep mv n (o ++ colon :: nw) = Err EOther.
Proof. exact pair_empty_part. Qed.
Print Assumptions C12_pair_empty_part.

(* an old path ValuesForPath itself rejects is reported as an error too *)
Theorem C12_rejects_bad_old_path : forall pf sep mv pairs v o nw e,
  In v pairs -> classify v = PGood o nw -> values_for_path pf sep mv o [] = Err e ->
  exists e', snd (new_map pf sep mv pairs) = Err e'.
Proof. exact new_map_bad_old_path. Qed.
Print Assumptions C12_rejects_bad_old_path.

(* with the error, the Map built from the pairs before the offending one is returned (as the Go code does) *)
Theorem C12_error_returns_partial : forall pf sep mv p1 v p2 e,
  snd (new_map pf sep mv p1) = Ok tt -> pair_action pf sep mv v = Err e ->
  new_map pf sep mv (p1 ++ v :: p2) = (fst (new_map pf sep mv p1), Err e).
Proof. exact new_map_error_partial. Qed.
Print Assumptions C12_error_returns_partial.

(* success exactly when every argument is skipped or accepted with a readable old path *)
Theorem C12_status : forall pf sep mv pairs,
  snd (new_map pf sep mv pairs) = Ok tt <->
  Forall (fun v => exists a, pair_action pf sep mv v = Ok a) pairs.
Proof. exact new_map_status. Qed.
Print Assumptions C12_status.

(* ------------------------------------------------------------------ *)
(* 3. old paths that yield nothing (and empty arguments) are skipped  *)
(* ------------------------------------------------------------------ *)
Theorem C12_pair_no_value_skipped : forall pf sep mv n v o nw,
  classify v = PGood o nw -> values_for_path pf sep mv o [] = Ok [] ->
  new_map_pair pf sep mv n v = Ok n.
Proof. exact pair_no_value_skipped. Qed.
Print Assumptions C12_pair_no_value_skipped.

(* such an argument can be deleted from the list, wherever it stands: same Map, same error class *)
Theorem C12_skips : forall pf sep mv p1 v p2,
  fruitless pf sep mv v -> new_map pf sep mv (p1 ++ v :: p2) = new_map pf sep mv (p1 ++ p2).
Proof. exact new_map_skips. Qed.
Print Assumptions C12_skips.

(* an accepted pair with values inserts the packed values at the new path *)
Theorem C12_pair_inserts : forall pf sep mv n v o nw vs,
  classify v = PGood o nw -> values_for_path pf sep mv o [] = Ok vs -> vs <> [] ->
  new_map_pair pf sep mv n v = Ok (add_new_val (path_keys nw) (pack vs) n).
Proof. exact pair_inserts. Qed.
Print Assumptions C12_pair_inserts.

(* ------------------------------------------------------------------ *)
(* 4. the loop: NewMap = the insertions of the items, in order        *)
(* ------------------------------------------------------------------ *)
Theorem C12_new_map_is_insert_all : forall pf sep mv pairs n,
  snd (new_map_pairs pf sep mv n pairs) = Ok tt ->
  fst (new_map_pairs pf sep mv n pairs) = insert_all (items_of pf sep mv pairs) n.
Proof. exact new_map_pairs_ok. Qed.
Print Assumptions C12_new_map_is_insert_all.

(* the items: one per accepted pair whose old path yields something - the new path, and the
   values ValuesForPath(old) yields on the receiver (the single value, or a list when several) *)
Theorem C12_items : forall pf sep mv pairs p x,
  In (p, x) (items_of pf sep mv pairs) <->
  exists v o nw vs, In v pairs /\ classify v = PGood o nw /\
                    values_for_path pf sep mv o [] = Ok vs /\ vs <> [] /\
                    p = path_keys nw /\ x = pack vs.
Proof. exact items_of_in. Qed.
Print Assumptions C12_items.

(* ------------------------------------------------------------------ *)
(* 5. content, when no new path equals or extends another             *)
(* ------------------------------------------------------------------ *)
(* at a place the walk finds free, addNewVal is the plain nested insertion *)
Theorem C12_add_new_val_free : forall p x n, free_at p n -> add_new_val p x n = put_path p x n.
Proof. exact add_new_val_free. Qed.
Print Assumptions C12_add_new_val_free.

(* newmap_content: the Map returned is exactly the Map the items denote *)
Theorem C12_newmap_content : forall pf sep mv pairs,
  snd (new_map pf sep mv pairs) = Ok tt ->
  prefix_free (new_paths pairs) ->
  fst (new_map pf sep mv pairs) = build (items_of pf sep mv pairs).
Proof. exact newmap_content_pairs. Qed.
Print Assumptions C12_newmap_content.

(* ... already when the new paths of the pairs that yield something are prefix-free *)
Theorem C12_newmap_content_items : forall pf sep mv pairs,
  snd (new_map pf sep mv pairs) = Ok tt ->
  prefix_free (map fst (items_of pf sep mv pairs)) ->
  fst (new_map pf sep mv pairs) = build (items_of pf sep mv pairs).
Proof. exact newmap_content. Qed.
Print Assumptions C12_newmap_content_items.

(* "contains at each new path exactly the values ValuesForPath(old) yields": every item is found
   at its path, and below it what the value holds *)
Theorem C12_newmap_has : forall pf sep mv pairs p x r,
  snd (new_map pf sep mv pairs) = Ok tt ->
  prefix_free (map fst (items_of pf sep mv pairs)) ->
  In (p, x) (items_of pf sep mv pairs) ->
  get_keys (p ++ r) (fst (new_map pf sep mv pairs)) = get_keys_v r x.
Proof. exact newmap_has. Qed.
Print Assumptions C12_newmap_has.

(* "contains nothing else": whatever a non-empty key list finds in the returned Map is a map on
   the way to an item, or (part of) an item's value *)
Theorem C12_newmap_only : forall pf sep mv pairs qs v,
  snd (new_map pf sep mv pairs) = Ok tt ->
  prefix_free (map fst (items_of pf sep mv pairs)) ->
  qs <> [] -> get_keys qs (fst (new_map pf sep mv pairs)) = Some v ->
  exists p x, In (p, x) (items_of pf sep mv pairs) /\
    ((proper_prefix qs p /\ is_map v = true) \/ (exists r, qs = p ++ r /\ get_keys_v r x = Some v)).
Proof. exact newmap_only. Qed.
Print Assumptions C12_newmap_only.

(* the side condition is decidable *)
Theorem C12_prefix_freeb_spec : forall ps, prefix_freeb ps = true <-> prefix_free ps.
Proof. exact prefix_freeb_spec. Qed.
Print Assumptions C12_prefix_freeb_spec.

(* ------------------------------------------------------------------ *)
(* 6. the receiver is never modified, whatever the pairs              *)
(* ------------------------------------------------------------------ *)
(* the owner-tagged addNewVal is the executable addNewVal with owners attached ... *)
Theorem C12_tagged_walk_is_model : forall path v n,
  erase_entries (fst (add_new_val_t path v n)) = add_new_val path (erase v) (erase_entries n).
Proof. exact add_new_val_t_erase. Qed.
Print Assumptions C12_tagged_walk_is_model.

(* ... and the owner-tagged NewMap is [new_map] with owners attached: same Map, same error class *)
Theorem C12_tagged_is_model : forall pf sep mv pairs,
  erase_entries (nm_map (new_map_t pf sep add_new_val_t mv pairs)) = fst (new_map pf sep mv pairs) /\
  nm_status (new_map_t pf sep add_new_val_t mv pairs) = snd (new_map pf sep mv pairs).
Proof. exact new_map_t_erase. Qed.
Print Assumptions C12_tagged_is_model.

(* one insertion: whatever the path, the value and the Map built so far, no write goes into a
   container the receiver owns *)
Theorem C12_add_new_val_never_writes_receiver : forall path v n,
  writes_to_src (snd (add_new_val_t path v n)) = [].
Proof. exact add_new_val_t_no_src_writes. Qed.
Print Assumptions C12_add_new_val_never_writes_receiver.

(* newmap_source_untouched: every receiver, EVERY list of key pairs (overlapping new paths,
   malformed pairs, anything) *)
Theorem C12_receiver_never_written : forall pf sep mv pairs,
  writes_to_src (nm_log (new_map_t pf sep add_new_val_t mv pairs)) = [].
Proof. exact new_map_t_no_src_writes. Qed.
Print Assumptions C12_receiver_never_written.

(* the statement is not vacuous: the pinned code (no copies) is the same function on values ... *)
Theorem C12_pinned_tagged_is_model : forall pf sep mv pairs,
  erase_entries (nm_map (new_map_t pf sep add_new_val_t_nocopy mv pairs)) = fst (new_map pf sep mv pairs) /\
  nm_status (new_map_t pf sep add_new_val_t_nocopy mv pairs) = snd (new_map pf sep mv pairs).
Proof. exact new_map_t_nocopy_erase. Qed.
Print Assumptions C12_pinned_tagged_is_model.

(* ... but NewMap("a:x", "c:x.d") with a map at a writes d into the receiver's a *)
Theorem C12_pinned_writes_receiver :
  writes_to_src (nm_log (new_map_t (fun _ => None) (s ":") add_new_val_t_nocopy ex_recv ex_pairs))
    = [WSet (s "d") true] /\
  writes_to_src (nm_log (new_map_t (fun _ => None) (s ":") add_new_val_t ex_recv ex_pairs)) = [] /\
  nm_status (new_map_t (fun _ => None) (s ":") add_new_val_t_nocopy ex_recv ex_pairs) = Ok tt.
Proof. exact new_map_t_nocopy_writes_src. Qed.
Print Assumptions C12_pinned_writes_receiver.

Theorem C12_pinned_walk_writes_receiver :
  exists path1 v1 path2 v2,
    let n1 := fst (add_new_val_t_nocopy path1 v1 []) in
    writes_to_src (snd (add_new_val_t_nocopy path1 v1 [])) = [] /\
    writes_to_src (snd (add_new_val_t_nocopy path2 v2 n1)) <> [] /\
    writes_to_src (snd (add_new_val_t path2 v2 (fst (add_new_val_t path1 v1 [])))) = [].
Proof. exact add_new_val_t_nocopy_writes_src. Qed.
Print Assumptions C12_pinned_walk_writes_receiver.

(* ------------------------------------------------------------------ *)
(* non-vacuity                                                        *)
(* ------------------------------------------------------------------ *)
Local Open Scope string_scope.
Local Open Scope list_scope.
Definition nopf : str -> option flt := fun _ => None.
Definition ex12 : value :=
  VMap [(s"a", VMap [(s"b", VInt 1); (s"c", VMap [(s"d", VStr (s"x"))])]);
        (s"l", VList [VMap [(s"k", VInt 1)]; VMap [(s"k", VInt 2)]; VInt 3]);
        (s"f", VInt 7)].
(* plain, wildcard and indexed old paths; a missing old path; an empty argument; "key" shorthand; a trailing dot *)
Definition ex12_pairs : list str :=
  [s"a.c:p.q"; s"l.k:p.r"; s"l[2]:u.v.w"; s"zz:t"; s""; s"f"; s"a.*:y."].

(* content: the hypotheses of C12_newmap_content hold, and the Map built is the Map denoted *)
Example C12_ex_content :
  snd (new_map nopf (s":") ex12 ex12_pairs) = Ok tt /\
  new_paths ex12_pairs = [[s"p"; s"q"]; [s"p"; s"r"]; [s"u"; s"v"; s"w"]; [s"t"]; [s"f"]; [s"y"]] /\
  prefix_freeb (new_paths ex12_pairs) = true /\
  items_of nopf (s":") ex12 ex12_pairs =
    [([s"p"; s"q"], VMap [(s"d", VStr (s"x"))]);
     ([s"p"; s"r"], VList [VInt 1; VInt 2]);
     ([s"u"; s"v"; s"w"], VInt 3);
     ([s"f"], VInt 7);
     ([s"y"], VList [VInt 1; VMap [(s"d", VStr (s"x"))]])] /\
  fst (new_map nopf (s":") ex12 ex12_pairs) =
    [(s"p", VMap [(s"q", VMap [(s"d", VStr (s"x"))]); (s"r", VList [VInt 1; VInt 2])]);
     (s"u", VMap [(s"v", VMap [(s"w", VInt 3)])]);
     (s"f", VInt 7);
     (s"y", VList [VInt 1; VMap [(s"d", VStr (s"x"))]])] /\
  build (items_of nopf (s":") ex12 ex12_pairs) = fst (new_map nopf (s":") ex12 ex12_pairs).
Proof. vm_compute. repeat split. Qed.

(* skipped arguments: "zz:t" (old path yields nothing) and "" are fruitless *)
Example C12_ex_skips :
  fruitless nopf (s":") ex12 (s"zz:t") /\ fruitless nopf (s":") ex12 (s"") /\
  new_map nopf (s":") ex12 [s"a.b:x"; s"zz:t"; s""; s"f:y"] = new_map nopf (s":") ex12 [s"a.b:x"; s"f:y"].
Proof.
  split; [right; exists (s"zz"), (s"t"); split; vm_compute; reflexivity|].
  split; [left; reflexivity|vm_compute; reflexivity].
Qed.

(* malformed pairs: each is classified PBad and makes NewMap fail; so does an unreadable old path *)
Example C12_ex_rejects :
  map classify [s"a:b:c"; s"a:"; s":b"; s"a:b*"; s"a:b[0]"; s"x*y"] = [PBad; PBad; PBad; PBad; PBad; PBad] /\
  snd (new_map nopf (s":") ex12 [s"f:x"; s"a:b:c"]) = Err EOther /\
  snd (new_map nopf (s":") ex12 [s"a:"]) = Err EOther /\
  snd (new_map nopf (s":") ex12 [s":b"]) = Err EOther /\
  snd (new_map nopf (s":") ex12 [s"a:b*"]) = Err EOther /\
  snd (new_map nopf (s":") ex12 [s"a:b[0]"]) = Err EOther /\
  classify (s"l[x]:q") = PGood (s"l[x]") (s"q") /\
  values_for_path nopf (s":") ex12 (s"l[x]") [] = Err EOther /\
  snd (new_map nopf (s":") ex12 [s"l[x]:q"]) = Err EOther.
Proof. vm_compute. repeat split. Qed.

(* overlapping new paths (no content claim): the tagged NewMap shares the receiver's map a by
   reference (TSrc), copies it before d is written into it, and logs no receiver write *)
Example C12_ex_overlap :
  prefix_freeb (new_paths ex_pairs) = false /\
  fst (new_map nopf (s":") ex_recv ex_pairs) = [(s"x", VMap [(s"b", VInt 1); (s"d", VInt 2)])] /\
  nm_map (new_map_t nopf (s":") add_new_val_t ex_recv [s"a:x"]) = [(s"x", TSrc (VMap [(s"b", VInt 1)]))] /\
  nm_map (new_map_t nopf (s":") add_new_val_t ex_recv ex_pairs) =
    [(s"x", TMap [(s"b", TSrc (VInt 1)); (s"d", TSrc (VInt 2))])] /\
  nm_log (new_map_t nopf (s":") add_new_val_t ex_recv ex_pairs) =
    [WSet (s"x") false; WSet (s"x") false; WSet (s"d") false].
Proof. vm_compute. repeat split. Qed.

(* ---- tie to the CURRENT source of what NewMap reads the old values with: Map.ValuesForPath (keyvalues.go),
   re-translated by go2v on every run (Gen/Pure_gen.v) and proved equal to the model function [values_for_path]
   the theorems above are stated with (GenProofs/PureG5.v, PureG7.v) *)
From Mxj Require Import Gen.Setters_gen Gen.PureSupport Gen.Pure_gen Model.KeyValues GenProofs.PureG5 GenProofs.PureG7.

Theorem C12_values_for_path_code_is_model : forall pf st m path subkeys, g_fieldSep st <> [] ->
  run_ValuesForPath pf st m path subkeys = values_for_path pf (g_fieldSep st) (VMap m) path subkeys.
Proof. exact run_ValuesForPath_eq. Qed.
Print Assumptions C12_values_for_path_code_is_model.

(* ---- Map.NewMap itself (newmap.go), translated from the current sources: the key-pair loop - skipping, splitting at ':', the
   validation errors returned TOGETHER with the Map built so far, ValuesForPath on the old key, the trailing-dot rule on the new
   key - is the model [new_map] the theorems above are stated with, for callees that behave like ValuesForPath and addNewVal;
   with the translated ValuesForPath (GenProofs/PureG30.v).  addNewVal itself (a cursor walking down the Map it builds) is tied by
   the correspondence run only. *)
From Mxj Require Import Gen.Setters_gen Gen.PureSupport Gen.Pure_gen GenProofs.PureG5 GenProofs.PureG30.

Theorem C12_new_map_code_is_model_gen : forall pf sep
    (vfp : entries -> str -> list str -> res (list value))
    (anv : entries -> list str -> list value -> entries),
  (forall m p, vfp m p [] = values_for_path pf sep (VMap m) p []) ->
  (forall n path oldVal, anv n path oldVal = add_new_val path (match oldVal with [x] => x | _ => VList oldVal end) n) ->
  forall st mv keypairs,
    fn_NewMap vfp anv st mv keypairs = new_map_ctl (new_map pf sep (VMap mv) keypairs).
Proof. exact new_map_code_is_model_gen. Qed.
Print Assumptions C12_new_map_code_is_model_gen.

Theorem C12_new_map_code_is_model : forall pf st mv keypairs,
  g_fieldSep st <> [] ->
  fn_NewMap (run_ValuesForPath pf st) run_addNewVal st mv keypairs
  = new_map_ctl (new_map pf (g_fieldSep st) (VMap mv) keypairs).
Proof. exact new_map_code_is_model. Qed.
Print Assumptions C12_new_map_code_is_model.

Theorem C12_new_map_code_no_crash : forall pf st mv keypairs,
  g_fieldSep st <> [] ->
  fn_NewMap (run_ValuesForPath pf st) run_addNewVal st mv keypairs <> Crash.
Proof. exact new_map_code_no_crash. Qed.
Print Assumptions C12_new_map_code_no_crash.

(* ---- addNewVal and copyMapShallow themselves (newmap.go), translated from the current sources in cursor mode (the variable that
   walks down the Map being built carries the function that rebuilds the root; translator/cursor.go): the translated code IS the
   model [add_new_val] on every Map, path and value list, never panics; and the whole chain NewMap -> ValuesForPath / addNewVal ->
   copyMapShallow, translated code only, is [new_map] on Go maps (distinct keys) (GenProofs/PureG32.v) *)
From Mxj Require Import GenProofs.PureG32.

Theorem C12_add_new_val_code_is_model : forall cms, (forall m, cms m = m) -> forall st n path val,
  fn_addNewVal cms st n path val = Ret (add_new_val path (match val with [x] => x | _ => VList val end) n).
Proof. exact add_new_val_code_is_model. Qed.
Print Assumptions C12_add_new_val_code_is_model.

Theorem C12_add_new_val_code_is_model_wf : forall st n path val, wfb (VMap n) = true ->
  fn_addNewVal (run_copyMapShallow st) st n path val = Ret (add_new_val path (match val with [x] => x | _ => VList val end) n).
Proof. exact add_new_val_code_is_model_wf. Qed.
Print Assumptions C12_add_new_val_code_is_model_wf.

Theorem C12_copy_map_shallow_code : forall st m, nodup_keys (map fst m) = true -> fn_copyMapShallow st m = Ret m.
Proof. exact copy_map_shallow_code_id. Qed.
Print Assumptions C12_copy_map_shallow_code.

Theorem C12_new_map_code_is_model_full : forall pf st mv keypairs, g_fieldSep st <> [] -> wfb (VMap mv) = true ->
  fn_NewMap (run_ValuesForPath pf st) (run_addNewVal_full st) st mv keypairs
  = new_map_ctl (new_map pf (g_fieldSep st) (VMap mv) keypairs).
Proof. exact new_map_code_is_model_full. Qed.
Print Assumptions C12_new_map_code_is_model_full.

Theorem C12_add_new_val_code_no_crash : forall cms st n path val, fn_addNewVal cms st n path val <> Crash.
Proof. exact add_new_val_code_no_crash. Qed.
Print Assumptions C12_add_new_val_code_no_crash.
