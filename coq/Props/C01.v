(* C01 - XML decodes to the Map the documented conventions prescribe.  Statements only.
   (decode_conv and the per-clause lemmas about conv are being added; see Spec/Conv.v) *)
From Mxj Require Import Model.XmlDec Spec.Conv.

(* cast never changes a value when the cast argument is false: un-cast decoding yields the identical string *)
Theorem C01_uncast_identity : forall pf skip o x t, cast pf skip o x false t = VStr x.
Proof. intros. unfold cast. destruct (_ && skip t); reflexivity. Qed.
Print Assumptions C01_uncast_identity.
