(* C01 - XML decodes to the Map the documented conventions prescribe, under all options.
   Statements only.  Vocabulary: Model/XmlDec.v (the decoder), Spec/Conv.v (document trees,
   the tokens of a tree, the prescribed Map [conv]), Spec/Dom01.v (the domain [dom01]),
   Spec/ConvClauses.v (child elements / values under a key / complete token lists).
   Proofs: Proofs/C01P.v (tokens -> fold semantics), Proofs/C01Q.v (fold semantics -> conv),
   Proofs/C01R.v (clauses about conv), Proofs/C01O.v (option clauses), Proofs/C01E.v and
   Proofs/C01T.v (error side). *)
From Mxj Require Import Model.XmlDec Spec.Conv Spec.Dom01 Spec.ConvClauses Spec.ConvOpts
  Proofs.C01P Proofs.C01Q Proofs.C01R Proofs.C01E Proofs.C01O Proofs.C01T.

(* cast never changes a value when the cast argument is false: un-cast decoding yields the identical string *)
Theorem C01_uncast_identity : forall pf skip o x t, cast pf skip o x false t = VStr x.
Proof. intros. unfold cast. destruct (_ && skip t); reflexivity. Qed.
Print Assumptions C01_uncast_identity.

(* ================================================================================== *)
(* 1. The main theorem: for EVERY option record, cast flag, float parser, tag-skip function
   and document in dom01, decoding the document's token stream succeeds and returns the
   prescribed Map (equality of Maps is up to entry order, at every depth).               *)
(* ================================================================================== *)
Theorem C01_decode_conv : forall pf skip o r d,
  dom01 o d = true ->
  exists v, xml_decode pf skip o r (toks_of_doc d) TermEOF = Ok v /\
            veqb v (conv_doc pf skip o r d) = true.
Proof. exact decode_conv. Qed.
Print Assumptions C01_decode_conv.

(* the same for either terminator - a syntax error AFTER the root element does not matter -, and the
   decoder leaves exactly the tokens after the root element unread (NewMapXmlReader) *)
Theorem C01_decode_rest_conv : forall pf skip o r d tm,
  dom01 o d = true ->
  exists m, xml_decode_rest pf skip o r (toks_of_doc d) tm = Ok (m, d_trailer d) /\
            xml_decode pf skip o r (toks_of_doc d) tm = Ok (VMap m) /\
            veqb (VMap m) (conv_doc pf skip o r d) = true.
Proof. exact decode_rest_conv. Qed.
Print Assumptions C01_decode_rest_conv.

(* ---- sample data for the non-vacuity examples ---- *)
Definition nm (sp lo : string) : xname := {| xspace := s sp; xlocal := s lo |}.
Definition att (sp lo v : string) : xattr := {| aname := nm sp lo; avalue := s v |}.
Definition E (lo : string) (a : list xattr) (k : list node) : node := NElem (Elem (nm "" lo) a k).
Definition T (x : string) : node := NText (s x).
Definition pf1 (x : str) : option flt := if str_eqb x (s "3.5") then Some (s "3.5") else None.
Definition skip0 (x : str) : bool := false.

(* every decoder option switched on: "@" attribute prefix, lower-case and snake-case keys, tag
   sequence numbers, decoder-side escaping, int/float/bool casts *)
Definition o_all : opts := {|
  attrPrefix := s "@"; lenAttrPrefix := 1;
  includeTagSeqNum := true; lowerCase := true; snakeCaseKeys := true;
  disableTrimWhiteSpace := false; trimRunes := trim_all;
  decodeSimpleValuesAsMap := false;
  castToInt := true; castToFloat := true; castToBool := true; castNanInf := false;
  handleXMPPStreamTag := false; useGoXmlEmptyElemSyntax := false; xmlCheckIsValid := false;
  xmlEscapeChars := false; xmlEscapeCharsDecoder := true;
  textK := s "#text"; seqK := s "#seq"; commentK := s "#comment"; attrK := s "#attr";
  directiveK := s "#directive"; procinstK := s "#procinst"; targetK := s "#target"; instK := s "#inst";
  fieldSep := s ":"; useDotNotation := false; defaultArraySize := 32; jsonUseNumber := false |}.

(* <?xml version="1.0"?> <!-- c -->
   <Order ID="7" x:Kind="A&B"><Line-Item>3.5</Line-Item> <Note>  hi </Note>
     <Line-Item sku="q"><Qty>true</Qty></Line-Item> text <Empty/><!-- z --></Order> tail *)
Definition order_doc : doc := {|
  d_prolog := [NOther (TProcInst (s "xml") (s "version=""1.0""")); T " "; NOther (TComment (s " c ")); T "stray"];
  d_root := Elem (nm "" "Order") [att "" "ID" "7"; att "x" "Kind" "A&B"]
    [ E "Line-Item" [] [T "3.5"]; T " "; E "Note" [] [T "  hi "];
      E "Line-Item" [att "" "sku" "q"] [E "Qty" [] [T "true"]]; T " text "; E "Empty" [] [];
      NOther (TComment (s " z ")) ];
  d_trailer := [TChar (s " tail"); TComment (s "after")] |}.

Example C01_dom01_order_all : dom01 o_all order_doc = true.
Proof. vm_compute. reflexivity. Qed.
Example C01_dom01_order_default : dom01 opts0 order_doc = true.
Proof. vm_compute. reflexivity. Qed.

(* the decoded Map of the sample, written out: default options ... *)
Example C01_decode_order_default :
  xml_decode pf1 skip0 opts0 true (toks_of_doc order_doc) TermEOF =
  Ok (VMap [(s "Order", VMap [
        (s "-ID", VStr (s "7")); (s "-Kind", VStr (s "A&B"));
        (s "Line-Item", VList [VFlt (s "3.5"); VMap [(s "-sku", VStr (s "q")); (s "Qty", VBool true)]]);
        (s "Note", VStr (s "hi"));
        (s "#text", VStr (s "text"));
        (s "Empty", VStr [])])]).
Proof. vm_compute. reflexivity. Qed.
(* ... and every option on; the prescribed Map has "#text" last: the two agree up to entry order only *)
Example C01_decode_order_all :
  xml_decode pf1 skip0 o_all true (toks_of_doc order_doc) TermEOF =
  Ok (VMap [(s "order", VMap [
        (s "@id", VI64 7); (s "@kind", VStr (s "A&amp;B"));
        (s "line_item", VList [
            VMap [(s "#text", VFlt (s "3.5")); (s "_seq", VInt 0)];
            VMap [(s "@sku", VStr (s "q"));
                  (s "qty", VMap [(s "#text", VBool true); (s "_seq", VInt 0)]);
                  (s "_seq", VInt 2)]]);
        (s "note", VMap [(s "#text", VStr (s "hi")); (s "_seq", VInt 1)]);
        (s "#text", VStr (s "text"));
        (s "empty", VMap [(s "#text", VStr []); (s "_seq", VInt 3)])])])
  /\ value_eqb (VMap [(s "order", VMap [
        (s "@id", VI64 7); (s "@kind", VStr (s "A&amp;B"));
        (s "line_item", VList [
            VMap [(s "#text", VFlt (s "3.5")); (s "_seq", VInt 0)];
            VMap [(s "@sku", VStr (s "q"));
                  (s "qty", VMap [(s "#text", VBool true); (s "_seq", VInt 0)]);
                  (s "_seq", VInt 2)]]);
        (s "note", VMap [(s "#text", VStr (s "hi")); (s "_seq", VInt 1)]);
        (s "empty", VMap [(s "#text", VStr []); (s "_seq", VInt 3)]);
        (s "#text", VStr (s "text"))])]) (conv_doc pf1 skip0 o_all true order_doc) = true.
Proof. vm_compute. split; reflexivity. Qed.

(* ---- every hypothesis of dom01 is needed: outside it the decoder and [conv] differ ---- *)
Definition ok_differs pf skip o r d : Prop :=
  exists v, xml_decode pf skip o r (toks_of_doc d) TermEOF = Ok v /\ veqb v (conv_doc pf skip o r d) = false.
Definition mkdoc (e : elem) : doc := {| d_prolog := []; d_root := e; d_trailer := [] |}.
Definition with_keys (kp ap : string) (o : opts) : opts := {|
  attrPrefix := s ap; lenAttrPrefix := length (s ap);
  includeTagSeqNum := includeTagSeqNum o; lowerCase := lowerCase o; snakeCaseKeys := snakeCaseKeys o;
  disableTrimWhiteSpace := disableTrimWhiteSpace o; trimRunes := trimRunes o;
  decodeSimpleValuesAsMap := decodeSimpleValuesAsMap o;
  castToInt := castToInt o; castToFloat := castToFloat o; castToBool := castToBool o; castNanInf := castNanInf o;
  handleXMPPStreamTag := handleXMPPStreamTag o; useGoXmlEmptyElemSyntax := useGoXmlEmptyElemSyntax o;
  xmlCheckIsValid := xmlCheckIsValid o; xmlEscapeChars := xmlEscapeChars o;
  xmlEscapeCharsDecoder := xmlEscapeCharsDecoder o;
  textK := s kp ++ s "text"; seqK := s kp ++ s "seq"; commentK := s kp ++ s "comment"; attrK := s kp ++ s "attr";
  directiveK := s kp ++ s "directive"; procinstK := s kp ++ s "procinst"; targetK := s kp ++ s "target";
  instK := s kp ++ s "inst";
  fieldSep := fieldSep o; useDotNotation := useDotNotation o; defaultArraySize := defaultArraySize o;
  jsonUseNumber := jsonUseNumber o |}.

(* two non-blank text runs, <a p="1">x<b/>y</a>: the decoder keeps the LAST run ("y"); with no
   attribute, <a>x<b/>y</a>, it keeps the FIRST ("x") - which run survives depends on the position *)
Example C01_two_text_runs_outside :
  ok_differs pf1 skip0 opts0 true (mkdoc (Elem (nm "" "a") [att "" "p" "1"] [T "x"; E "b" [] []; T "y"])).
Proof. eexists. split; vm_compute; reflexivity. Qed.
Example C01_two_text_runs_first_or_last :
  xml_decode pf1 skip0 opts0 true (toks_of_doc (mkdoc (Elem (nm "" "a") [] [T "x"; E "b" [] []; T "y"]))) TermEOF
    = Ok (VMap [(s "a", VMap [(s "b", VStr []); (s "#text", VStr (s "x"))])]) /\
  xml_decode pf1 skip0 opts0 true (toks_of_doc (mkdoc (Elem (nm "" "a") [] [E "b" [] []; T "x"; E "c" [] []; T "y"]))) TermEOF
    = Ok (VMap [(s "a", VMap [(s "b", VStr []); (s "#text", VStr (s "y")); (s "c", VStr [])])]).
Proof. split; vm_compute; reflexivity. Qed.
(* two attributes with the same local name in different namespaces, <e x:a="1" y:a="2"/>: one key, last wins *)
Example C01_attr_keys_collide_outside :
  ok_differs pf1 skip0 opts0 true (mkdoc (Elem (nm "" "e") [att "x" "a" "1"; att "y" "a" "2"] [])).
Proof. eexists. split; vm_compute; reflexivity. Qed.
(* the same through case folding, <e A="1" a="2"/> under lower-case keys *)
Example C01_attr_keys_fold_outside :
  ok_differs pf1 skip0 o_all true (mkdoc (Elem (nm "" "e") [att "" "A" "1"; att "" "a" "2"] [])).
Proof. eexists. split; vm_compute; reflexivity. Qed.
(* attribute prefix equal to the key prefix: the attribute "text" is the text key, <e text="1">t</e> *)
Example C01_attr_is_text_key_outside :
  ok_differs pf1 skip0 (with_keys "#" "#" opts0) true (mkdoc (Elem (nm "" "e") [att "" "text" "1"] [T "t"])).
Proof. eexists. split; vm_compute; reflexivity. Qed.
(* ... which can also happen with DISTINCT prefixes: attribute prefix "_t", key prefix "_", attribute "ext" *)
Example C01_attr_is_text_key_distinct_prefixes :
  ok_differs pf1 skip0 (with_keys "_" "_t" opts0) true (mkdoc (Elem (nm "" "e") [att "" "ext" "1"] [T "t"])).
Proof. eexists. split; vm_compute; reflexivity. Qed.
(* a child element named like the text key (possible when the key prefix is empty): <a>hello<text>x</text></a> *)
Example C01_child_is_text_key_outside :
  ok_differs pf1 skip0 (with_keys "" "-" opts0) true (mkdoc (Elem (nm "" "a") [] [T "hello"; E "text" [] [T "x"]])).
Proof. eexists. split; vm_compute; reflexivity. Qed.
(* what the decoder does there: colliding attribute keys give ONE entry, the last attribute wins *)
Theorem C01_attr_last_wins : forall pf skip o r attrs k,
  lookup k (attr_entries pf skip o r attrs) =
  match find_last (fun a => str_eqb k (attr_key o (xlocal (aname a)))) attrs with
  | Some a => Some (cast pf skip o (attr_val o a) r k)
  | None => None
  end.
Proof. exact attr_last_wins. Qed.
Print Assumptions C01_attr_last_wins.
(* NOT needed: an attribute key equal to a child key (empty attribute prefix) - both are collected in one list *)
Example C01_attr_child_same_key_inside :
  dom01 (with_keys "#" "" opts0) (mkdoc (Elem (nm "" "a") [att "" "b" "1"] [E "b" [] [T "2"]])) = true /\
  xml_decode pf1 skip0 (with_keys "#" "" opts0) true
    (toks_of_doc (mkdoc (Elem (nm "" "a") [att "" "b" "1"] [E "b" [] [T "2"]]))) TermEOF
  = Ok (VMap [(s "a", VMap [(s "b", VList [VStr (s "1"); VStr (s "2")])])]).
Proof. split; vm_compute; reflexivity. Qed.

(* ================================================================================== *)
(* 2. The specification checked against the statement: one theorem per clause, about conv *)
(* ================================================================================== *)
(* one root key: the (transformed) root name *)
Theorem C01_conv_single_root : forall pf skip o r d,
  conv_doc pf skip o r d = VMap [(ekey o (d_root d), conv pf skip o r (d_root d))].
Proof. exact conv_single_root. Qed.
Print Assumptions C01_conv_single_root.

(* each attribute under prefix+name (transformed), with its (escaped, cast) value *)
Theorem C01_conv_attr_key : forall pf skip o r n attrs kids a,
  nodup_keys (akeys o attrs) = true -> In a attrs ->
  child_vals o (conv pf skip o r) (attr_key o (xlocal (aname a))) (child_elems kids) 0 = [] ->
  exists m, conv pf skip o r (Elem n attrs kids) = VMap m /\
            lookup (attr_key o (xlocal (aname a))) m
            = Some (cast pf skip o (attr_val o a) r (attr_key o (xlocal (aname a)))).
Proof. exact conv_attr_key. Qed.
Print Assumptions C01_conv_attr_key.

(* each child element under its (transformed) local name; the values of repeated sibling names -
   adjacent or interleaved - are collected into ONE list, in document order; a single one stays as it is *)
Theorem C01_conv_children : forall pf skip o r n attrs kids k v vs,
  existsb (str_eqb k) (akeys o attrs) = false ->
  child_vals o (conv pf skip o r) k (child_elems kids) 0 = v :: vs ->
  exists m, conv pf skip o r (Elem n attrs kids) = VMap m /\ lookup k m = Some (one_or_list (v :: vs)).
Proof. exact conv_children. Qed.
Print Assumptions C01_conv_children.

(* the value of an element is never itself a list, so a list under a key always is the collection of siblings *)
Theorem C01_conv_not_list : forall pf skip o r e, is_list (conv pf skip o r e) = false.
Proof. exact conv_not_list. Qed.
Print Assumptions C01_conv_not_list.

(* text beside attributes or child elements: under the text key *)
Theorem C01_conv_text_beside : forall pf skip o r n attrs kids tx rest,
  attrs <> [] \/ child_elems kids <> [] ->
  text_runs o kids = tx :: rest ->
  existsb (str_eqb (textK o)) (akeys o attrs) = false ->
  child_vals o (conv pf skip o r) (textK o) (child_elems kids) 0 = [] ->
  exists m, conv pf skip o r (Elem n attrs kids) = VMap m /\
            lookup (textK o) m
            = Some (cast pf skip o tx r
                      (if negb (decodeSimpleValuesAsMap o) && is_nil attrs && text_first o kids
                       then xform_key o (xlocal n) else textK o)).
Proof. exact conv_text_beside. Qed.
Print Assumptions C01_conv_text_beside.

(* no other key: a key that is no attribute key, no child key and not the text key of a text run is absent *)
Theorem C01_conv_no_other_key : forall pf skip o r n attrs kids m k,
  conv pf skip o r (Elem n attrs kids) = VMap m ->
  attrs <> [] \/ child_elems kids <> [] ->
  existsb (str_eqb k) (akeys o attrs) = false ->
  child_vals o (conv pf skip o r) k (child_elems kids) 0 = [] ->
  str_eqb k (textK o) = false \/ text_runs o kids = [] ->
  lookup k m = None.
Proof. exact conv_no_other_key'. Qed.
Print Assumptions C01_conv_no_other_key.

(* a text-only element: its trimmed string - or, under DecodeSimpleValuesAsMap, that string under the text key *)
Theorem C01_conv_text_only : forall pf skip o r n kids tx rest,
  child_elems kids = [] -> text_runs o kids = tx :: rest ->
  conv pf skip o r (Elem n [] kids) =
  if decodeSimpleValuesAsMap o then VMap [(textK o, cast pf skip o tx r (textK o))]
  else cast pf skip o tx r (xform_key o (xlocal n)).
Proof. exact conv_text_only. Qed.
Print Assumptions C01_conv_text_only.

(* "trimmed": with the current trim set (all white space, or - keep-spaces - all but the blank), then escaped
   under decoder-side escaping *)
Theorem C01_text_val_spec : forall o x,
  text_val o x = if xmlEscapeCharsDecoder o then escape_chars (trim (trimRunes o) x) else trim (trimRunes o) x.
Proof. exact text_val_spec. Qed.
Print Assumptions C01_text_val_spec.

Theorem C01_text_runs_single : forall o x,
  text_runs o [NText x] = if is_nil (text_val o x) then [] else [text_val o x].
Proof. exact text_runs_single. Qed.
Print Assumptions C01_text_runs_single.

(* an empty element (no attribute, no child element, only blank text / comments): the empty string *)
Theorem C01_conv_empty_elem : forall pf skip o r n kids,
  child_elems kids = [] -> text_runs o kids = [] -> conv pf skip o r (Elem n [] kids) = VStr [].
Proof. exact conv_empty_elem. Qed.
Print Assumptions C01_conv_empty_elem.

(* an element with attributes or child elements is a Map *)
Theorem C01_conv_is_map : forall pf skip o r n attrs kids,
  attrs <> [] \/ child_elems kids <> [] -> exists m, conv pf skip o r (Elem n attrs kids) = VMap m.
Proof. exact conv_is_map. Qed.
Print Assumptions C01_conv_is_map.

(* ---- options ---- *)
(* lower-case / snake-case keys act on element names ... *)
Theorem C01_xform_key_spec : forall o k,
  xform_key o k =
  (if snakeCaseKeys o then replace_char "-"%char "_"%char else fun x => x)
    ((if lowerCase o then to_lower else fun x => x) k).
Proof. exact xform_key_spec. Qed.
Print Assumptions C01_xform_key_spec.
(* ... and on attribute names, the attribute prefix itself is kept as set *)
Theorem C01_attr_key_spec : forall o k,
  attr_key o k =
  attrPrefix o ++ (if lowerCase o then to_lower else fun x => x)
                    ((if snakeCaseKeys o then replace_char "-"%char "_"%char else fun x => x) k).
Proof. exact attr_key_spec. Qed.
Print Assumptions C01_attr_key_spec.

(* tag sequence numbers: off - nothing; on - the i-th child element gets "_seq": i (a non-Map value is wrapped) *)
Theorem C01_wrap_seq_off : forall o i v, includeTagSeqNum o = false -> wrap_seq o i v = v.
Proof. exact wrap_seq_off. Qed.
Print Assumptions C01_wrap_seq_off.
Theorem C01_wrap_seq_on : forall pf skip o r i e,
  includeTagSeqNum o = true ->
  wrap_seq o i (conv pf skip o r e) =
  match conv pf skip o r e with
  | VMap m => VMap (set (s "_seq") (VInt i) m)
  | v => VMap [(textK o, v); (s "_seq", VInt i)]
  end.
Proof. exact wrap_seq_on. Qed.
Print Assumptions C01_wrap_seq_on.

(* cast argument false (and no sequence numbers): every leaf of the prescribed Map is a string *)
Theorem C01_conv_uncast_only_str : forall pf skip o,
  includeTagSeqNum o = false -> forall e, only_str (conv pf skip o false e) = true.
Proof. exact conv_uncast_only_str. Qed.
Print Assumptions C01_conv_uncast_only_str.

(* lower-case keys change ONLY keys: the prescribed Map is that of the document with lower-cased element and
   attribute names (values, text key, "_seq", the attribute prefix itself are untouched) *)
Theorem C01_conv_lower : forall pf skip o r e,
  lowerCase o = false ->
  conv pf skip (set_lower true o) r e = conv pf skip o r (rename to_lower e).
Proof. exact conv_lower. Qed.
Print Assumptions C01_conv_lower.
(* snake-case keys likewise: '-' replaced by '_' in every element and attribute name *)
Theorem C01_conv_snake : forall pf skip o r e,
  snakeCaseKeys o = false ->
  conv pf skip (set_snake true o) r e = conv pf skip o r (rename snake e).
Proof. exact conv_snake. Qed.
Print Assumptions C01_conv_snake.
(* in general: option records that agree on the value options and whose key functions differ by a renaming g *)
Theorem C01_conv_rename : forall pf skip o o' r g,
  same_value_opts o o' ->
  (forall k, xform_key o' k = xform_key o (g k)) -> (forall k, attr_key o' k = attr_key o (g k)) ->
  forall e, conv pf skip o' r e = conv pf skip o r (rename g e).
Proof. exact conv_rename. Qed.
Print Assumptions C01_conv_rename.
(* the prescribed Map depends on the option record through these twelve fields only: the keep-spaces flag matters
   only through the trim set; XMPP handling, the encoder options and the other generated keys do not matter *)
Theorem C01_conv_frame : forall pf skip o o' r e,
  same_key_opts o o' -> same_value_opts o o' -> conv pf skip o' r e = conv pf skip o r e.
Proof. exact conv_frame. Qed.
Print Assumptions C01_conv_frame.

Example C01_lower_snake_ex :
  lowerCase opts0 = false /\ snakeCaseKeys (set_lower true opts0) = false /\
  conv pf1 skip0 (set_snake true (set_lower true opts0)) true (d_root order_doc) =
  VMap [(s "-id", VStr (s "7")); (s "-kind", VStr (s "A&B"));
        (s "line_item", VList [VFlt (s "3.5"); VMap [(s "-sku", VStr (s "q")); (s "qty", VBool true)]]);
        (s "note", VStr (s "hi")); (s "empty", VStr []); (s "#text", VStr (s "text"))].
Proof. vm_compute. repeat split; reflexivity. Qed.

(* ---- non-vacuity of the clause theorems: <r id="1"><a>1</a><b>2</b><a>3</a> tx </r> ---- *)
Definition aba : elem :=
  Elem (nm "" "r") [att "" "id" "1"] [E "a" [] [T "1"]; E "b" [] [T "2"]; E "a" [] [T "3"]; T " tx "].
Example C01_aba_hyps :
  nodup_keys (akeys opts0 [att "" "id" "1"]) = true /\
  child_vals opts0 (conv pf1 skip0 opts0 true) (s "-id") (child_elems [E "a" [] [T "1"]; E "b" [] [T "2"]; E "a" [] [T "3"]; T " tx "]) 0 = [] /\
  existsb (str_eqb (s "a")) (akeys opts0 [att "" "id" "1"]) = false /\
  child_vals opts0 (conv pf1 skip0 opts0 true) (s "a") (child_elems [E "a" [] [T "1"]; E "b" [] [T "2"]; E "a" [] [T "3"]; T " tx "]) 0
    = [VStr (s "1"); VStr (s "3")] /\
  text_runs opts0 [E "a" [] [T "1"]; E "b" [] [T "2"]; E "a" [] [T "3"]; T " tx "] = [s "tx"] /\
  existsb (str_eqb (textK opts0)) (akeys opts0 [att "" "id" "1"]) = false /\
  child_vals opts0 (conv pf1 skip0 opts0 true) (textK opts0) (child_elems [E "a" [] [T "1"]; E "b" [] [T "2"]; E "a" [] [T "3"]; T " tx "]) 0 = [] /\
  conv pf1 skip0 opts0 true aba =
    VMap [(s "-id", VStr (s "1")); (s "a", VList [VStr (s "1"); VStr (s "3")]); (s "b", VStr (s "2")); (s "#text", VStr (s "tx"))].
Proof. vm_compute. repeat split; reflexivity. Qed.
(* with sequence numbers the interleaved siblings keep their positions 0 and 2 *)
Example C01_aba_seq :
  child_vals o_all (conv pf1 skip0 o_all true) (s "a") (child_elems [E "a" [] [T "1"]; E "b" [] [T "2"]; E "a" [] [T "3"]]) 0
  = [VMap [(s "#text", VI64 1); (s "_seq", VInt 0)]; VMap [(s "#text", VI64 3); (s "_seq", VInt 2)]].
Proof. vm_compute. reflexivity. Qed.
Example C01_text_only_ex :
  child_elems [T "  "; NOther (TComment (s "c")); T " a < b "] = [] /\
  text_runs o_all [T "  "; NOther (TComment (s "c")); T " a < b "] = [s "a &lt; b"] /\
  conv pf1 skip0 o_all true (Elem (nm "" "Free-Text") [] [T "  "; NOther (TComment (s "c")); T " a < b "]) = VStr (s "a &lt; b").
Proof. vm_compute. repeat split; reflexivity. Qed.
Example C01_empty_ex :
  child_elems [T "  "; NOther (TComment (s "c"))] = [] /\ text_runs opts0 [T "  "; NOther (TComment (s "c"))] = [] /\
  conv pf1 skip0 opts0 true (Elem (nm "" "e") [] [T "  "; NOther (TComment (s "c"))]) = VStr [].
Proof. vm_compute. repeat split; reflexivity. Qed.
Example C01_uncast_ex :
  includeTagSeqNum opts0 = false /\
  conv pf1 skip0 opts0 false aba =
    VMap [(s "-id", VStr (s "1")); (s "a", VList [VStr (s "1"); VStr (s "3")]); (s "b", VStr (s "2")); (s "#text", VStr (s "tx"))].
Proof. vm_compute. split; reflexivity. Qed.

(* ================================================================================== *)
(* 3. The error side, for ALL options and ALL token lists the tokenizer can return:
      every start tag has a local name, no end tag before the first start tag           *)
(* ================================================================================== *)
Theorem C01_decode_no_panic : forall pf skip o r tm ts,
  forallb start_ok ts = true -> top_ok ts = true -> xml_decode pf skip o r ts tm <> Panic.
Proof. exact decode_no_panic. Qed.
Print Assumptions C01_decode_no_panic.

(* a Map is returned exactly when the token list contains the complete root element ... *)
Theorem C01_decode_ok_iff : forall pf skip o r tm ts,
  forallb start_ok ts = true -> top_ok ts = true ->
  ((exists v, xml_decode pf skip o r ts tm = Ok v) <-> doc_complete o ts = true).
Proof. exact decode_ok_iff. Qed.
Print Assumptions C01_decode_ok_iff.

(* ... otherwise - the stream ends (io.EOF) or breaks (syntax error) before the root element is complete -
   the result is that error, and no partial Map *)
Theorem C01_decode_fails_iff : forall pf skip o r tm ts,
  forallb start_ok ts = true -> top_ok ts = true ->
  (xml_decode pf skip o r ts tm = Err (err_of tm) <-> doc_complete o ts = false).
Proof. exact decode_fails_iff. Qed.
Print Assumptions C01_decode_fails_iff.

(* <a><b>x</b  (cut inside the end tag of b), and the complete <a><b>x</b></a> *)
Example C01_truncated_ex :
  let ts := [TStart (nm "" "a") []; TStart (nm "" "b") []; TChar (s "x")] in
  forallb start_ok ts = true /\ top_ok ts = true /\ doc_complete opts0 ts = false /\
  xml_decode pf1 skip0 opts0 true ts TermErr = Err EOther /\
  xml_decode pf1 skip0 opts0 true ts TermEOF = Err EEOF /\
  doc_complete opts0 (ts ++ [TEnd (nm "" "b"); TEnd (nm "" "a")]) = true.
Proof. vm_compute. repeat split; reflexivity. Qed.

(* the token list of a document in dom01 meets the two hypotheses and is complete (whatever follows the root) ... *)
Theorem C01_doc_tokens_ok : forall o d,
  dom01 o d = true ->
  forallb start_ok (flat_map toks_of_node (d_prolog d) ++ toks_of_elem (d_root d)) = true /\
  forall rest,
    top_ok ((flat_map toks_of_node (d_prolog d) ++ toks_of_elem (d_root d)) ++ rest) = true /\
    doc_complete o ((flat_map toks_of_node (d_prolog d) ++ toks_of_elem (d_root d)) ++ rest) = true.
Proof. exact doc_tokens_ok. Qed.
Print Assumptions C01_doc_tokens_ok.

(* ... and cut anywhere before the end of its root element, it decodes to the terminator's error *)
Theorem C01_truncated_doc_fails : forall pf skip o r tm d p q,
  dom01 o d = true ->
  flat_map toks_of_node (d_prolog d) ++ toks_of_elem (d_root d) = p ++ q -> q <> [] ->
  xml_decode pf skip o r p tm = Err (err_of tm).
Proof. exact truncated_doc_fails. Qed.
Print Assumptions C01_truncated_doc_fails.

Example C01_truncated_order_ex :
  exists p q, flat_map toks_of_node (d_prolog order_doc) ++ toks_of_elem (d_root order_doc) = p ++ q /\ q <> [] /\
              length p = 12 /\ xml_decode pf1 skip0 o_all true p TermErr = Err EOther.
Proof.
  exists (firstn 12 (flat_map toks_of_node (d_prolog order_doc) ++ toks_of_elem (d_root order_doc))),
         (skipn 12 (flat_map toks_of_node (d_prolog order_doc) ++ toks_of_elem (d_root order_doc))).
  split; [symmetry; apply firstn_skipn|]. split; [vm_compute; discriminate|]. split; vm_compute; reflexivity.
Qed.

(* ================================================================== tie to the code (regenerated on every run)
   The decoder / encoder models above call the model functions [cast] and [escape_chars]; go2v's statement-by-statement
   translations of func cast (xml.go) and func escapeChars (escapechars.go) from /repo's CURRENT sources are proved equal
   to them (GenProofs/PureG.v), so the theorems of this file are re-checked against what those two functions say now. *)
From Mxj Require Import Gen.Setters_gen Gen.PureSupport Gen.Pure_gen GenProofs.PureG.

Theorem C01_cast_code_is_model : forall pf callskip st o x r t, cast_view st o ->
  fn_cast pf callskip st x r t = Ret (cast pf (skip_of st callskip) o x r t).
Proof. exact cast_code_is_model. Qed.
Print Assumptions C01_cast_code_is_model.

Theorem C01_escape_code_is_model : forall st x, fn_escapeChars st x = Ret (escape_chars x).
Proof. exact escape_code_is_model. Qed.
Print Assumptions C01_escape_code_is_model.

(* ---- tie to the CURRENT source of NewMapXml (xml.go): the document and the single optional cast flag (false when
   absent or when several are given) are handed to the parser entry xmlToMap (GenProofs/PureG13.v) *)
From Mxj Require Import GenProofs.PureG5 GenProofs.PureG13.

Theorem C01_new_map_xml_code : forall (xmlToMap : str -> bool -> res entries) st doc cast,
  fn_NewMapXml xmlToMap st doc cast = of_res (xmlToMap doc (opt_flag cast)).
Proof. exact new_map_xml_code. Qed.
Print Assumptions C01_new_map_xml_code.

(* ---- tie to the CURRENT source of xmlToMapParser (xml.go:370-538), the core of NewMapXml: go2v re-translates the
   function statement by statement on every run (Gen/Pure_gen.v: key transformation, the attribute loop, the XMPP early
   return, the token loop with its type switch, recursion for child elements, _seq augmentation, list building on
   repeated keys, the shapes at the end tag, character data; xml.Decoder as its token list); GenProofs/PureG14.v proves
   the translation - with the TRANSLATED cast and escapeChars plugged in - equal to the model decoder
   [xml_decode_rest] the theorems above are stated with, on every token list whose start tags have a non-empty local
   name (encoding/xml returns no other; without the condition code and model differ: C01_xml_parser_code_empty_name_refuted). *)
From Mxj Require Import Gen.Setters_gen Gen.PureSupport Gen.Pure_gen Spec.ConvClauses GenProofs.PureG GenProofs.PureG14.

Theorem C01_xml_parser_code_is_model : forall pf callskip o r st fuel ts tm,
  dec_view st o -> cast_view st o -> length ts < fuel -> forallb start_ok ts = true ->
  fn_xmlToMapParser (run_cast pf callskip st) (run_escapeChars st) fuel st [] [] (ts, tm) r
  = dec_top_result tm (xml_decode_rest pf (skip_of st callskip) o r ts tm).
Proof. exact xml_parser_code_is_model_translated. Qed.
Print Assumptions C01_xml_parser_code_is_model.

Theorem C01_xml_parser_code_no_panic : forall pf callskip o r st fuel ts tm,
  dec_view st o -> cast_view st o -> length ts < fuel -> forallb start_ok ts = true -> top_ok ts = true ->
  fn_xmlToMapParser (run_cast pf callskip st) (run_escapeChars st) fuel st [] [] (ts, tm) r <> Crash.
Proof. exact xml_parser_code_no_panic. Qed.
Print Assumptions C01_xml_parser_code_no_panic.

Theorem C01_xml_parser_code_empty_name_refuted :
  exists pf skip o r st ts tm, dec_view st o /\
    fn_xmlToMapParser (fun x b t => cast pf skip o x b t) escape_chars (S (length ts)) st [] [] (ts, tm) r
    <> dec_top_result tm (xml_decode_rest pf skip o r ts tm).
Proof. exact xml_parser_code_is_model_empty_name_refuted. Qed.
Print Assumptions C01_xml_parser_code_empty_name_refuted.

Example C01_xml_parser_code_nonvacuous :
  let ts := [TChar (s " "); TStart (ex_name "a") [{| aname := ex_name "k"; avalue := s "v" |}]; TChar (s " hi ");
             TStart (ex_name "b") []; TChar (s "true"); TEnd (ex_name "b"); TStart (ex_name "b") []; TEnd (ex_name "b"); TEnd (ex_name "a"); TChar (s "z")] in
  dec_view gstate0 opts0 /\ cast_view gstate0 opts0 /\ forallb start_ok ts = true /\ top_ok ts = true /\
  fn_xmlToMapParser (run_cast (fun _ => None) (fun _ => false) gstate0) (run_escapeChars gstate0) (S (length ts)) gstate0 [] [] (ts, TermEOF) true
  = Ret (Ok [(s "a", VMap [(s "-k", VStr (s "v")); (s "#text", VStr (s "hi")); (s "b", VList [VBool true; VStr []])])],
         ([TChar (s "z")], TermEOF)).
Proof. exact xml_parser_code_example. Qed.

(* ---- the glue between NewMapXml and the parser, translated from the current xml.go (GenProofs/PureG39.v): xmlToMap hands the
   configured token stream of the bytes, the empty key, no attributes and the caller's cast flag to xmlToMapParser; composed with
   the parser theorem, NewMapXml(doc, cast...) IS the model decoder on that stream.  newdec / usecd / setcr stand for
   encoding/xml (fresh decoder, CustomDecoder's attributes copied in, XmlCharsetReader installed): any three functions. *)
From Mxj Require GenProofs.PureG39.

Theorem C01_xml_to_map_code : forall (parser : str -> list xattr -> xdecoder -> bool -> res entries) newdec usecd setcr st doc r,
  fn_xmlToMap usecd parser newdec setcr st doc r
  = PureG5.of_res (parser [] [] (PureG39.configured_decoder newdec usecd setcr st doc) r).
Proof. exact PureG39.xml_to_map_code. Qed.
Print Assumptions C01_xml_to_map_code.

Theorem C01_xml_to_map_code_is_model : forall pf callskip o newdec usecd setcr st doc r,
  PureG14.dec_view st o -> PureG.cast_view st o ->
  forallb start_ok (fst (PureG39.configured_decoder newdec usecd setcr st doc)) = true ->
  fn_xmlToMap usecd (PureG39.run_xmlToMapParser pf callskip st) newdec setcr st doc r
  = PureG5.of_res (PureG39.xml_decode_entries pf (PureG.skip_of st callskip) o r (PureG39.configured_decoder newdec usecd setcr st doc)).
Proof. exact PureG39.xml_to_map_code_is_model. Qed.
Print Assumptions C01_xml_to_map_code_is_model.

Theorem C01_new_map_xml_code_is_model : forall pf callskip o newdec usecd setcr st doc cast,
  PureG14.dec_view st o -> PureG.cast_view st o ->
  forallb start_ok (fst (PureG39.configured_decoder newdec usecd setcr st doc)) = true ->
  fn_NewMapXml (PureG39.run_xmlToMap pf callskip newdec usecd setcr st) st doc cast
  = PureG5.of_res (PureG39.xml_decode_entries pf (PureG.skip_of st callskip) o (PureG13.opt_flag cast)
                     (PureG39.configured_decoder newdec usecd setcr st doc)).
Proof. exact PureG39.new_map_xml_code_is_model. Qed.
Print Assumptions C01_new_map_xml_code_is_model.

Theorem C01_xml_decode_entries_is_xml_decode : forall pf skip o r p,
  xml_decode pf skip o r (fst p) (snd p)
  = match PureG39.xml_decode_entries pf skip o r p with Ok m => Ok (VMap m) | Err e => Err e | Panic => Panic end.
Proof. exact PureG39.xml_decode_entries_value. Qed.
Print Assumptions C01_xml_decode_entries_is_xml_decode.

Theorem C01_custom_decoder_hides_charset_reader : forall parser newdec usecd setcr st st' doc r c,
  g_CustomDecoder st = Some c -> g_CustomDecoder st' = Some c ->
  fn_xmlToMap usecd parser newdec setcr st doc r = fn_xmlToMap usecd parser newdec setcr st' doc r.
Proof. exact PureG39.xml_to_map_ignores_charset_reader_with_custom_decoder. Qed.
Print Assumptions C01_custom_decoder_hides_charset_reader.
