(* C03 - Encoding any JSON-shaped Map or value as XML preserves all of its data.
   Statements only; proofs in Proofs/XmlStr.v XmlItems.v XmlRT.v XmlWF.v XmlImgG.v C03P.v C03Q.v.

   Reading.  [map_xml_items / map_xml_indent_items / any_xml_items] (Model/XmlEnc.v) are the
   items Map.Xml / Map.XmlIndent / AnyXml(Indent) write; [toks_of_items] (Spec/Items.v) is what
   encoding/xml's tokenizer returns on them; [insert_ws ws] puts arbitrary whitespace [ws i]
   in every gap between items (every blank indentation at once; [no_ws] is the compact form);
   [xml_decode] (Model/XmlDec.v) is NewMapXml without cast; [img] (Spec/Img.v) is the Map the
   statement says must come back.  [opts03 o]: the decoder's default conventions with a free
   attribute prefix / key prefix / empty-element syntax / keep-spaces / XMLEscapeChars;
   [dom03 o v]: JSON-shaped, distinct keys, keys valid XML names, attribute entries non-nil
   scalars, text entry scalar, strings free of the five specials unless XMLEscapeChars is on.
   The entry order of the Maps in [img] is one representative (Go Maps have none). *)
From Mxj Require Import Spec.Img Proofs.XmlRT Proofs.C03P Proofs.C03Q.

(* ---- the encoders: well-formed, one root, decodes to img, under any indentation ---- *)
Theorem encode_img_xml : forall pf o, opts03 o -> forall m, root_ok o m = true ->
  exists its, map_xml_items o m None = Ok its /\
    wf_items its /\ single_root its /\
    forall ws, ws_ok o ws ->
      xml_decode pf nskip o false (toks_of_items (insert_ws ws its)) TermEOF = Ok (img_map o m).
Proof. exact encode_img_xml. Qed.
Print Assumptions encode_img_xml.

Theorem encode_img_xml_indent : forall pf o, opts03 o -> forall m, root_ok o m = true ->
  exists its, map_xml_indent_items o m None = Ok its /\
    wf_items its /\ single_root its /\
    forall ws, ws_ok o ws ->
      xml_decode pf nskip o false (toks_of_items (insert_ws ws its)) TermEOF = Ok (img_map o m).
Proof. exact encode_img_xml_indent. Qed.
Print Assumptions encode_img_xml_indent.

(* an explicit root tag (Map.Xml(tag), Map.XmlIndent(prefix, indent, tag)): the whole map under the tag *)
Theorem encode_img_xml_tag : forall pf o, opts03 o -> forall m rt, name_okb rt = true -> dom03 o (VMap m) = true ->
  exists its, map_xml_items o m (Some rt) = Ok its /\ map_xml_indent_items o m (Some rt) = Ok its /\
    wf_items its /\ single_root its /\
    forall ws, ws_ok o ws ->
      xml_decode pf nskip o false (toks_of_items (insert_ws ws its)) TermEOF = Ok (VMap [(rt, img o (VMap m))]).
Proof. exact encode_img_xml_tag. Qed.
Print Assumptions encode_img_xml_tag.

Theorem encode_img_any : forall pf o, opts03 o -> forall v rt et, any_ok o v rt et = true ->
  exists its, any_xml_items o v rt et = Ok its /\
    wf_items its /\ single_root its /\
    forall ws, ws_ok o ws ->
      xml_decode pf nskip o false (toks_of_items (insert_ws ws its)) TermEOF = Ok (img_any o v rt et).
Proof. exact encode_img_any. Qed.
Print Assumptions encode_img_any.

(* ---- the clauses of the statement, about img itself ---- *)
(* null, empty string, empty list and empty map all become an empty element *)
Theorem img_empty_cases : forall o,
  img o VNil = VStr [] /\ img o (VStr []) = VStr [] /\ img o (VList []) = VStr [] /\ img o (VMap []) = VStr [].
Proof. intro o. repeat split; reflexivity. Qed.
Print Assumptions img_empty_cases.

(* every scalar is rendered as its text *)
Theorem img_scalar : forall o v, is_scalar v = true -> img o v = VStr (trimv o (scalar_txt v)).
Proof. exact img_scalar. Qed.
Print Assumptions img_scalar.

(* every list as repeated elements in list order (one member: the member itself) *)
Theorem img_list_order : forall o x y l,
  is_list x = false -> is_list y = false -> Forall (fun z => is_list z = false) l ->
  img o (VList (x :: y :: l)) = VList (img o x :: img o y :: map (img o) l) /\ img o (VList [x]) = img o x.
Proof. intros o x y l Hx Hy Hl. split; [apply img_list_many; assumption | apply img_list_one; assumption]. Qed.
Print Assumptions img_list_order.

(* a list directly inside a list is flattened, in order *)
Theorem img_list_flat : forall o l, l <> [] -> imgs o (VList l) = flat_map (imgs o) l.
Proof. exact img_list_flat. Qed.
Print Assumptions img_list_flat.

(* same keys, same parent: every child entry of a map is an entry of the map's image under its key *)
Theorem img_keys_preserved : forall o vv k v, In (k, v) vv -> is_elem_key o k = true ->
  exists es, img o (VMap vv) = VMap es /\ In (k, img o v) es.
Proof. exact img_keys_preserved. Qed.
Print Assumptions img_keys_preserved.

(* '-'-prefixed scalar entries come back as attributes: same key, the scalar's text untrimmed *)
Theorem img_attrs_preserved : forall o vv k v, In (k, v) vv -> is_attr_key o k = true ->
  exists es, img o (VMap vv) = VMap es /\ In (k, VStr (scalar_txt v)) es.
Proof. exact img_attrs_preserved. Qed.
Print Assumptions img_attrs_preserved.

(* the text key is the element content: an entry of the image, or the whole image when alone *)
Theorem img_text_entry : forall o vv tv, lookup (textK o) vv = Some tv -> trimv o (scalar_txt tv) <> [] ->
  (A_of o vv = [] /\ C_of o vv = [] /\ img o (VMap vv) = VStr (trimv o (scalar_txt tv))) \/
  exists es, img o (VMap vv) = VMap es /\ In (textK o, VStr (trimv o (scalar_txt tv))) es.
Proof. exact img_text_entry. Qed.
Print Assumptions img_text_entry.

(* a non-scalar (or nil) attribute value is the documented error, not silent loss *)
Theorem attr_nonscalar_err : forall o vv k v key,
  In (k, v) vv -> is_attr_key o k = true -> attr_text o v = None -> enc o (VMap vv) key = Err EOther.
Proof. exact attr_nonscalar_err. Qed.
Print Assumptions attr_nonscalar_err.

(* ---- non-vacuity ---- *)
Example opts0_03 : opts03 opts0.
Proof. constructor; try reflexivity. discriminate. Qed.
Example opts0e_03 : opts03 opts0e.
Proof. constructor; try reflexivity. discriminate. Qed.

Definition ex_m : entries :=
  [(s "a", VMap [(s "-x", VStr (s " <1> ")); (s "#text", VStr (s " t&t "));
                 (s "b", VList [VInt 1; VList []; VStr (s "x"); VList [VNil; VList [VBool true]]]);
                 (s "c", VMap [(s "d", VNil)]); (s "-n", VFlt (s "2.5")); (s "e", VList [VStr (s "one")]);
                 (s "h", VMap [])])].
Example ex_m_dom : root_ok opts0e ex_m = true.
Proof. reflexivity. Qed.
Example ex_m_img : img_map opts0e ex_m =
  VMap [(s "a", VMap [(s "-n", VStr (s "2.5")); (s "-x", VStr (s " <1> ")); (s "#text", VStr (s "t&t"));
                      (s "b", VList [VStr (s "1"); VStr []; VStr (s "x"); VStr []; VStr (s "true")]);
                      (s "c", VMap [(s "d", VStr [])]); (s "e", VStr (s "one")); (s "h", VStr [])])].
Proof. reflexivity. Qed.
Example ex_multi_dom : root_ok opts0 [(s "a", VInt 1); (s "b", VList [VMap [(s "k", VNil)]; VStr (s "z")])] = true.
Proof. reflexivity. Qed.
Example ex_any_dom :
  any_ok opts0 (VList [VMap [(s "a", VInt 1)]; VInt 5; VMap [(s "a", VInt 2); (s "b", VInt 3)]; VList [VInt 1; VInt 2]])
         (s "doc") (s "element") = true.
Proof. reflexivity. Qed.
Example ex_any_img :
  img_any opts0 (VList [VMap [(s "a", VInt 1)]; VInt 5; VMap [(s "a", VInt 2)]]) (s "doc") (s "element") =
  VMap [(s "doc", VMap [(s "a", VList [VStr (s "1"); VStr (s "2")]); (s "element", VStr (s "5"))])].
Proof. reflexivity. Qed.
Example ex_attr_err : enc opts0 (VMap [(s "-x", VMap [])]) (s "a") = Err EOther.
Proof. reflexivity. Qed.

(* ================================================================== tie to the code (regenerated on every run)
   The decoder / encoder models above call the model functions [cast] and [escape_chars]; go2v's statement-by-statement
   translations of func cast (xml.go) and func escapeChars (escapechars.go) from /repo's CURRENT sources are proved equal
   to them (GenProofs/PureG.v), so the theorems of this file are re-checked against what those two functions say now. *)
From Mxj Require Import Gen.Setters_gen Gen.PureSupport Gen.Pure_gen GenProofs.PureG.

Theorem C03_cast_code_is_model : forall pf callskip st o x r t, cast_view st o ->
  fn_cast pf callskip st x r t = Ret (cast pf (skip_of st callskip) o x r t).
Proof. exact cast_code_is_model. Qed.
Print Assumptions C03_cast_code_is_model.

Theorem C03_escape_code_is_model : forall st x, fn_escapeChars st x = Ret (escape_chars x).
Proof. exact escape_code_is_model. Qed.
Print Assumptions C03_escape_code_is_model.

(* ---- the Map encoder itself: marshalMapToXmlIndent (xml.go), translated from the CURRENT sources by go2v (join mode: the
   code after an if / switch once; the case bodies outside the value universe stand as Crash) and proved equal, in compact mode,
   to the model encoder [enc] rendered by [emit] that the theorems above are stated with (GenProofs/PureG18.v); escapeChars is
   the translated one, sort.Sort the model's sort_by_key on the rows *)
From Mxj Require Import Spec.JsonRT GenProofs.PureG15 GenProofs.PureG18.

Theorem C03_marshal_map_code_is_enc : forall o st, enc_view st o ->
  forall ind outd xm xmi v f key b i c p m t, vdepth v <= f -> text_dom o v = true ->
  (forall its, enc o v key = Ok its ->
     fn_marshalMapToXmlIndent (PureG15.run_escapeChars st) ind outd sort_rows sort_vrows xm xmi f st false b key v i c p m t =
     Ret (None, (b ++ emit its, i, c, p, m, t))) /\
  (forall e, enc o v key = Err e ->
     exists e' b', fn_marshalMapToXmlIndent (PureG15.run_escapeChars st) ind outd sort_rows sort_vrows xm xmi f st false b key v i c p m t =
                   Ret (Some e', (b', i, c, p, m, t))) /\
  enc o v key <> Panic.
Proof. exact marshal_map_code_is_enc_translated. Qed.
Print Assumptions C03_marshal_map_code_is_enc.

Theorem C03_marshal_map_code_no_crash : forall st ind outd xm xmi v f key b i c p m t,
  vdepth v <= f -> text_dom (state_opts st) v = true ->
  fn_marshalMapToXmlIndent (PureG15.run_escapeChars st) ind outd sort_rows sort_vrows xm xmi f st false b key v i c p m t <> Crash.
Proof. exact marshal_map_code_no_crash. Qed.
Print Assumptions C03_marshal_map_code_no_crash.

(* ---- the entry points Map.Xml / Map.XmlIndent (xml.go), translated from the current sources: which key and value the encoder is
   called with (root selection, for every encoder behaviour), and, in compact mode with the translated encoder, exactly the bytes
   of the model [map_xml_items] (GenProofs/PureG25.v, PureG26.v).  rt_opt: no tag = None, one tag = that tag, two or more tags =
   the default root tag "doc" (the Go code then ignores the single-key rule). *)
From Mxj Require Import GenProofs.PureG25 GenProofs.PureG26.

Theorem C03_map_xml_is_root_sel : forall (ext : enc_fn) dec st m rt,
  fn_Map_Xml ext dec st m rt =
  finish st dec (ext false [] (fst (root_sel m rt)) (snd (root_sel m rt)) [] 0%Z [] 0%Z 0%Z).
Proof. exact map_xml_is_root_sel. Qed.
Print Assumptions C03_map_xml_is_root_sel.

Theorem C03_map_xmlindent_is_root_sel : forall (ext : enc_fn) dec st m prefix indent rt,
  fn_Map_XmlIndent ext dec st m prefix indent rt =
  finish st dec (ext true [] (fst (root_sel_indent m rt)) (snd (root_sel_indent m rt)) indent 0%Z prefix 0%Z 0%Z).
Proof. exact map_xmlindent_is_root_sel. Qed.
Print Assumptions C03_map_xmlindent_is_root_sel.

Theorem C03_root_sel_is_map_xml_items : forall o m rt,
  map_xml_items o m (rt_opt rt) = enc o (snd (root_sel m rt)) (fst (root_sel m rt)).
Proof. exact root_sel_is_map_xml_items. Qed.
Print Assumptions C03_root_sel_is_map_xml_items.

Theorem C03_root_sel_indent_is_map_xml_indent_items : forall o m rt,
  map_xml_indent_items o m (rt_opt rt) = enc o (snd (root_sel_indent m rt)) (fst (root_sel_indent m rt)).
Proof. exact root_sel_indent_is_map_xml_indent_items. Qed.
Print Assumptions C03_root_sel_indent_is_map_xml_indent_items.

Theorem C03_map_xml_code_is_model : forall o st, enc_view st o ->
  forall ind outd xm xmi dec f m rt, vdepth (VMap m) <= f -> text_dom o (VMap m) = true ->
  forall its, map_xml_items o m (rt_opt rt) = Ok its ->
  fn_Map_Xml (run_mm ind outd xm xmi st f) dec st m rt =
    if g_xmlCheckIsValid st && negb (acceptb dec (emit its)) then Ret ([], Some EOther) else Ret (emit its, None).
Proof. exact map_xml_code_is_model. Qed.
Print Assumptions C03_map_xml_code_is_model.

(* ---- AnyXml (anyxml.go), translated from the current sources, with the translated Map encoder and the translated Map.Xml: in
   compact mode exactly the bytes of the model [any_xml_items], an error where the model errs, never a panic, on every value whose
   #text members are not containers and every tag list (GenProofs/PureG27.v; validity check off - with it on, Map.Xml's verdict
   is the tokenizer's: PureG25.v) *)
From Mxj Require GenProofs.PureG27.

Theorem C03_any_xml_code_is_model : forall o st, enc_view st o -> g_xmlCheckIsValid st = false ->
  forall ind outd xm xmi dec fuel xm',
  forall v tags, vdepth v <= fuel -> text_dom o v = true ->
  let rt := fst (PureG27.any_tags tags) in
  let et := snd (PureG27.any_tags tags) in
  let enc_code := PureG27.run_mm (PureG15.run_escapeChars st) ind outd xm xmi st fuel in
  let code := fn_AnyXml (PureG27.run_xml enc_code dec st) enc_code xm' st v tags in
  (forall its, any_xml_items o v rt et = Ok its -> code = Ret (emit its, None)) /\
  (forall e, any_xml_items o v rt et = Err e -> exists e' b, code = Ret (b, Some e')) /\
  any_xml_items o v rt et <> Panic /\
  code <> Crash.
Proof. exact PureG27.any_xml_code_is_model_all_translated. Qed.
Print Assumptions C03_any_xml_code_is_model.

Theorem C03_any_xml_code_structure : forall xmlp ext xm st v tags,
  fn_AnyXml xmlp ext xm st v tags
  = PureG27.any_xml_spec xmlp ext st v (fst (PureG27.any_tags tags)) (snd (PureG27.any_tags tags)).
Proof. exact PureG27.any_xml_code_structure. Qed.
Print Assumptions C03_any_xml_code_structure.

Theorem C03_any_xml_indent_code_structure : forall xmlpi ext pind xmi st prefix indent v tags,
  fn_AnyXmlIndent xmlpi ext pind xmi st v prefix indent tags
  = PureG27.any_xml_indent_spec xmlpi ext pind st v prefix indent (fst (PureG27.any_tags tags)) (snd (PureG27.any_tags tags)).
Proof. exact PureG27.any_xml_indent_code_structure. Qed.
Print Assumptions C03_any_xml_indent_code_structure.

(* ---- the Map encoder in INDENTED mode (doIndent = true), translated from the current sources with the translated pretty.Indent /
   Outdent: the items of the compact mode, each written as in compact mode, with only padding (newlines, the prefix followed by
   copies of the indent) before them - no padding inside or before text; the pretty record is handed back unchanged; an error
   exactly where the model errs; never a panic (GenProofs/PureG28.v).  (While this was being proved the Go code wrote an EMPTY
   LIST member with the padding once more INSIDE its tag, "<e  />": repaired in /repo 77c834d, KNOWN_FINDINGS fixed C16; the
   statement below has no exception left.) *)
From Mxj Require GenProofs.PureG28.

Theorem C03_marshal_map_indent_code_is_enc : forall o st, enc_view st o ->
  forall prefix indent m t i c p m' t', PureG28.pp_reach st prefix indent m t (i, c, p, m', t') ->
  forall xm xmi v f key b, vdepth v <= f -> text_dom o v = true ->
  (forall its, enc o v key = Ok its ->
     exists out,
       fn_marshalMapToXmlIndent (PureG15.run_escapeChars st) (PureG28.run_Indent st) (PureG28.run_Outdent st) sort_rows sort_vrows xm xmi f st true b key v i c p m' t' =
       Ret (None, (b ++ out, i, c, p, m', t')) /\
       PureG28.padded prefix indent its out) /\
  (forall e, enc o v key = Err e ->
     exists e' b',
       fn_marshalMapToXmlIndent (PureG15.run_escapeChars st) (PureG28.run_Indent st) (PureG28.run_Outdent st) sort_rows sort_vrows xm xmi f st true b key v i c p m' t' =
       Ret (Some e', (b', i, c, p, m', t'))) /\
  enc o v key <> Panic.
Proof. exact PureG28.marshal_map_indent_code_is_enc_translated. Qed.
Print Assumptions C03_marshal_map_indent_code_is_enc.

(* the compact items with pads in the gaps - the form under which the theorems above decode the document *)
Theorem C03_marshal_map_indent_code_insert_ws : forall o st, enc_view st o ->
  forall prefix indent m t i c p m' t', PureG28.pp_reach st prefix indent m t (i, c, p, m', t') ->
  forall xm xmi v f key b its, vdepth v <= f -> text_dom o v = true -> enc o v key = Ok its ->
  exists ws,
    fn_marshalMapToXmlIndent (PureG15.run_escapeChars st) (PureG28.run_Indent st) (PureG28.run_Outdent st) sort_rows sort_vrows xm xmi f st true b key v i c p m' t' =
    Ret (None, (b ++ emit (Items.insert_ws ws its), i, c, p, m', t')) /\
    (forall j, PureG28.pad_ok prefix indent (ws j)) /\
    (forall o', Items.ws_str o' prefix = true -> Items.ws_str o' indent = true -> Items.ws_str o' PureG28.nl_str = true -> Items.ws_ok o' ws).
Proof. exact PureG28.marshal_map_indent_code_insert_ws. Qed.
Print Assumptions C03_marshal_map_indent_code_insert_ws.

Theorem C03_pad_is_xml_whitespace : forall prefix indent,
  PureG28.xml_wsb prefix = true -> PureG28.xml_wsb indent = true ->
  (forall w, PureG28.pad_ok prefix indent w -> PureG28.xml_wsb w = true) /\ (forall k, PureG28.xml_wsb (PureG28.pdg prefix indent k) = true).
Proof. exact PureG28.pad_is_xml_whitespace. Qed.
Print Assumptions C03_pad_is_xml_whitespace.

(* ---- AnyXmlIndent against AnyXml, translated code on both sides (the translated Map encoder, Map.Xml, Map.XmlIndent,
   pretty.Indent / Outdent; validity check off): the indented encoding is the items of the compact one, each written as in the
   compact encoding, with only pads (newlines, the prefix followed by copies of the indent) before them - or both return an
   error (GenProofs/PureG38.v).  Layout oddities inside the pad language, observed on the Go code: the root tags of a LIST value
   are written without the prefix; a single-entry Map member that follows a multi-entry Map member loses its newline (p.start is
   not reset); members of a nested list sit one level deeper. *)
From Mxj Require GenProofs.PureG38.

Theorem C03_any_xml_indent_code_pads_any_xml_code : forall st, g_xmlCheckIsValid st = false ->
  forall xm xmi dec fuel xm' xmi' v prefix indent tags,
  vdepth v <= fuel -> text_dom (PureG15.state_opts st) v = true ->
  let enc_code := PureG27.run_mm (PureG15.run_escapeChars st) (PureG28.run_Indent st) (PureG28.run_Outdent st) xm xmi st fuel in
  let compact := fn_AnyXml (PureG27.run_xml enc_code dec st) enc_code xm' st v tags in
  let indented := fn_AnyXmlIndent (PureG38.run_xmlindent enc_code dec st) enc_code (PureG28.run_Indent st) xmi' st v prefix indent tags in
  (exists its out, compact = Ret (emit its, None) /\ indented = Ret (out, None) /\ PureG28.padded prefix indent its out) \/
  (exists e b e' b', compact = Ret (b, Some e) /\ indented = Ret (b', Some e')).
Proof. exact PureG38.any_xml_indent_code_pads_any_xml_code. Qed.
Print Assumptions C03_any_xml_indent_code_pads_any_xml_code.
