(* C03 - Encoding any JSON-shaped Map or value as XML preserves all of its data.  Statements only. *)
From Mxj Require Import Spec.Img.

(* null, empty string, empty list and empty map all become an empty element *)
Theorem img_empty_cases : forall o,
  img o VNil = VStr [] /\ img o (VStr []) = VStr [] /\ img o (VList []) = VStr [] /\ img o (VMap []) = VStr [].
Proof. intro o. repeat split; reflexivity. Qed.
Print Assumptions img_empty_cases.
