(* C08 - key search and sub-key filters.  Statements only. *)
From Mxj Require Import Model.TreeOps Proofs.C07P Proofs.KVTotal.

Theorem C08_values_for_key_no_panic : forall pf sep m k sk, values_for_key pf sep m k sk <> Panic.
Proof. exact values_for_key_no_panic. Qed.
Print Assumptions C08_values_for_key_no_panic.
